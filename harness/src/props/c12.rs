//! C12 — suffix arrays order all suffixes; LCP, BWT and pattern search are exact.
//!
//! Oracle: the definitions, evaluated directly.
//!  * SA: a vector of length n that is a permutation of 0..n and whose adjacent suffixes are strictly increasing
//!    (this characterises the unique sorted order; no reference sort needed, a naive sort is used additionally on short texts).
//!  * LCP: lcp[0] == 0 and lcp[i] == |longest common prefix of the suffixes at ranks i-1 and i| by direct comparison.
//!  * BWT: bwt[i] == text[(SA[i] + n - 1) % n] with SA from the naive sort.
//!  * search: the positions {SA[r] : r in returned range} are exactly the positions found by scanning the text.
//!  * PA-Zip dictionary: longest match length == brute force over all dictionary positions; the reported dictionary
//!    position really holds the match; rank ranges equal the ranks (in the true suffix order) carrying the matched prefix.
//!
//! Targets (one per independently breakable implementation / configuration):
//!   sa/{sais,sais_noopt,dc3,divsufsort,ls,adaptive,new}      construction through SuffixArrayBuilder / SuffixArray::new
//!   lcp/{sais,dc3,divsufsort,ls,adaptive}                     LcpArray::new over the array of that algorithm
//!   search/{sais,dc3,divsufsort,ls,adaptive}                  SuffixArray::{search,search_range,suffix_at_rank}
//!   esa/{lcp,bwt}                                             algorithms::EnhancedSuffixArray::{with_lcp,with_bwt}
//!   csa/{default,dict,large,realtime}, csa_search/{default,dict}   compression::suffix_array (always SA-IS underneath)
//!   dict/{default,cfg,sais}                                   SuffixArrayDictionary::{find_longest_match,da_match_max_length,
//!                                                             sa_match_continuation,sa_equal_range,find_all_matches}
use crate::ctx::{catch, Case, Ctx, Fail, Res};
use crate::gen;
use crate::rng::Rng;
use zipora::algorithms::suffix_array::{
    EnhancedSuffixArray as AEsa, LcpArray, SuffixArray, SuffixArrayAlgorithm as Alg, SuffixArrayBuilder, SuffixArrayConfig as ACfg,
};
use zipora::compression::dict_zip::dictionary::{ConcurrentSuffixArrayDictionary, SuffixArrayDictionary, SuffixArrayDictionaryConfig};
use zipora::compression::suffix_array::{SuffixArrayCompressor, SuffixArrayConfig as CCfg};

fn bad(oracle: &str, d: String) -> Fail { Fail { oracle: oracle.to_string(), detail: d } }

// ------------------------------------------------------------------------------------------------------------------
// oracle helpers
// ------------------------------------------------------------------------------------------------------------------

/// length of the longest common prefix of two byte strings (8 bytes at a time)
pub fn lcp(a: &[u8], b: &[u8]) -> usize {
    let m = a.len().min(b.len());
    let mut i = 0;
    while i + 8 <= m {
        let x = u64::from_le_bytes(a[i..i + 8].try_into().unwrap()) ^ u64::from_le_bytes(b[i..i + 8].try_into().unwrap());
        if x != 0 { return i + (x.trailing_zeros() / 8) as usize; }
        i += 8;
    }
    while i < m && a[i] == b[i] { i += 1; }
    i
}

/// the definition: sort all suffixes by comparison
pub fn naive_sa(text: &[u8]) -> Vec<usize> {
    let mut sa: Vec<usize> = (0..text.len()).collect();
    sa.sort_unstable_by(|&a, &b| text[a..].cmp(&text[b..]));
    sa
}

fn show(text: &[u8]) -> String {
    if text.len() <= 40 { format!("{:?}", String::from_utf8_lossy(text)) } else { format!("len={} {}", text.len(), gen::abbrev(text)) }
}

/// `sa` is the suffix array of `text` iff it has length n, is a permutation of 0..n, and adjacent suffixes strictly increase.
fn check_sa(c: &mut Case, text: &[u8], sa: &[usize], what: &str) -> Res {
    let n = text.len();
    ensure!(sa.len() == n, "sa_len", "{what}: suffix array has {} entries for a text of length {n}", sa.len());
    let mut seen = vec![false; n];
    for (r, &p) in sa.iter().enumerate() {
        ensure!(p < n, "sa_not_permutation", "{what}: SA[{r}]={p} out of range (n={n}) text={}", show(text));
        ensure!(!seen[p], "sa_not_permutation", "{what}: position {p} appears twice (second time at rank {r}) n={n} text={}", show(text));
        seen[p] = true;
    }
    for r in 1..n {
        let (a, b) = (&text[sa[r - 1]..], &text[sa[r]..]);
        ensure!(a < b, "sa_order", "{what}: rank {}: suffix@{} !< suffix@{} (n={n}) text={} sa={}", r, sa[r - 1], sa[r], show(text), show_sa(sa));
    }
    c.ev(n as u64 + n.saturating_sub(1) as u64);
    if n <= 64 {
        let nsa = naive_sa(text);
        ensure!(nsa == sa, "sa_order", "{what}: differs from the naive sort: got {sa:?} want {nsa:?} text={}", show(text));
        c.ev(1);
    }
    Ok(())
}
fn show_sa(sa: &[usize]) -> String { if sa.len() <= 24 { format!("{sa:?}") } else { format!("{:?}..", &sa[..24]) } }

/// LCP definition relative to the array `sa` (any vector of in-range positions): lcp[0]=0, lcp[i]=lcp(suffix sa[i-1], suffix sa[i]).
fn check_lcp(c: &mut Case, text: &[u8], sa: &[usize], lcpv: &[usize], what: &str) -> Res {
    let n = text.len();
    ensure!(lcpv.len() == n, "lcp_len", "{what}: LCP array has {} entries, text length {n}", lcpv.len());
    for (r, &p) in sa.iter().enumerate() { ensure!(p < n, "sa_not_permutation", "{what}: SA[{r}]={p} out of range (n={n})"); }
    if n == 0 { return Ok(()); }
    ensure!(lcpv[0] == 0, "lcp_value", "{what}: lcp[0]={} want 0 text={}", lcpv[0], show(text));
    let mut maxl = 0usize;
    for r in 1..n.min(sa.len()) {
        let want = lcp(&text[sa[r - 1]..], &text[sa[r]..]);
        ensure!(lcpv[r] == want, "lcp_value", "{what}: lcp[{r}]={} want {want} (suffixes @{} and @{}, n={n}) text={}", lcpv[r], sa[r - 1], sa[r], show(text));
        maxl = maxl.max(want);
    }
    c.ev(n as u64);
    if maxl >= 16 { c.note("maxlcp_ge16", 1); }
    if maxl >= 256 { c.note("maxlcp_ge256", 1); }
    if maxl >= 4096 { c.note("maxlcp_ge4096", 1); }
    Ok(())
}

/// all start positions of `pat` in `text`, ascending (the empty pattern occurs at every position 0..n)
fn scan(text: &[u8], pat: &[u8]) -> Vec<usize> {
    let (n, m) = (text.len(), pat.len());
    if m > n { return vec![]; }
    if m == 0 { return (0..n).collect(); }
    let f = pat[0];
    (0..=n - m).filter(|&i| text[i] == f && &text[i..i + m] == pat).collect()
}

// ------------------------------------------------------------------------------------------------------------------
// input generators
// ------------------------------------------------------------------------------------------------------------------

/// random families; the exhaustive small scope is handled separately
const FAMS: &[&str] = &["unary", "two_runs", "nondecr", "nonincr", "periodic", "fib_word", "thue_morse", "alpha_k", "lms_rich",
    "repeat_block", "ff00", "kinds", "short", "big"];

fn alphabet(r: &mut Rng, k: usize) -> Vec<u8> {
    let mut all: Vec<u8> = (0..=255u8).collect(); r.shuffle(&mut all); all.truncate(k.max(1)); all
}
fn alphabet_k(r: &mut Rng) -> Vec<u8> { let k = pick_k(r); alphabet(r, k) }
fn pick_k(r: &mut Rng) -> usize { *r.pick(&[1usize, 2, 2, 3, 3, 4, 5, 8, 16, 64, 128, 255, 256]) }
fn fib_word(len: usize, x: u8, y: u8) -> Vec<u8> {
    let (mut a, mut b) = (vec![y], vec![x]); // s0 = y, s1 = x, s_{k+1} = s_k s_{k-1}
    while b.len() < len { let mut nx = b.clone(); nx.extend_from_slice(&a); a = b; b = nx; }
    b.truncate(len); b
}
fn thue_morse(len: usize, x: u8, y: u8) -> Vec<u8> { (0..len).map(|i| if (i as u64).count_ones() & 1 == 0 { x } else { y }).collect() }

fn text_of(r: &mut Rng, fam: &str, maxlen: usize) -> Vec<u8> {
    let len = gen::pick_len(r, maxlen);
    match fam {
        "unary" => { let b = *r.pick(&[0u8, 1, b'a', 0x7f, 0x80, 0xfe, 0xff]); vec![b; len] }
        "two_runs" => { // a^i b^j, b^i a^j, a^i b^j a^k
            let (x, y) = (r.next() as u8, r.next() as u8); let i = r.usize_below(len + 1);
            let mut t = vec![x; i]; t.resize(len, y);
            if r.chance(1, 3) && len > 2 { let k = r.usize_below(len - i + 1); for b in t.iter_mut().rev().take(k) { *b = x; } }
            t }
        "nondecr" => { let a = alphabet_k(r); let mut t: Vec<u8> = (0..len).map(|_| *r.pick(&a)).collect(); t.sort(); t }
        "nonincr" => { let a = alphabet_k(r); let mut t: Vec<u8> = (0..len).map(|_| *r.pick(&a)).collect(); t.sort(); t.reverse(); t }
        "periodic" => { let p = if r.bool() { 1 + r.usize_below(9) } else { 1 + r.usize_below(200) }; let a = alphabet_k(r); let pat: Vec<u8> = (0..p).map(|_| *r.pick(&a)).collect();
            let mut t: Vec<u8> = (0..len).map(|i| pat[i % p]).collect();
            if r.chance(1, 3) && len > 0 { let i = r.usize_below(len); t[i] = t[i].wrapping_add(1); } t }
        "fib_word" => { let (x, y) = (r.next() as u8, r.next() as u8); fib_word(len, x, y) }
        "thue_morse" => { let (x, y) = (r.next() as u8, r.next() as u8); thue_morse(len, x, y) }
        "alpha_k" => { let a = alphabet_k(r); (0..len).map(|_| *r.pick(&a)).collect() }
        "lms_rich" => { // strict zig-zag: every second position is a local minimum (an LMS position)
            let k = *r.pick(&[1usize, 2, 3, 8, 64, 128]); let lo = alphabet(r, k); let lo: Vec<u8> = lo.iter().map(|b| b & 0x7f).collect(); let hi: Vec<u8> = alphabet(r, k).iter().map(|b| b | 0x80).collect();
            (0..len).map(|i| if i % 2 == 0 { *r.pick(&hi) } else { *r.pick(&lo) }).collect() }
        "repeat_block" => { let a = alphabet_k(r); let bl = 2 + r.usize_below(40); let blk: Vec<u8> = (0..bl).map(|_| *r.pick(&a)).collect();
            let mut t: Vec<u8> = (0..len).map(|i| blk[i % bl]).collect(); for _ in 0..r.usize_below(4) { if len > 0 { let i = r.usize_below(len); t[i] = *r.pick(&a); } } t }
        "ff00" => { let a = [0u8, 0xff, 1, 0xfe, 0x80]; let k = 2 + r.usize_below(4); (0..len).map(|_| a[r.usize_below(k)]).collect() }
        "kinds" => { let kind = r.below(gen::BYTE_KINDS as u64) as u32; gen::bytes_kind(r, kind, len) }
        "short" => { let l = r.usize_below(13); let k = 1 + r.usize_below(4); let base = *r.pick(&[b'a', 0u8, 0xfc]); (0..l).map(|_| base + r.below(k as u64) as u8).collect() }
        "big" => { // lengths where Adaptive leaves the small-input branch (threshold 10_000) and long LCPs
            let l = *r.pick(&[9_999usize, 10_000, 10_001, 12_000, 16_384, 20_000]);
            if r.chance(1, 8) { let l = 50_001 + r.usize_below(3); return if r.bool() { r.bytes(l) } else { let a = alphabet(r, 16); (0..l).map(|_| *r.pick(&a)).collect() }; }   // Adaptive -> DivSufSort (> 50_000, high entropy)
            match r.below(9) { 0 => vec![r.next() as u8; l], 1 => { let a = alphabet(r, 2); (0..l).map(|_| *r.pick(&a)).collect() }
                2 => { let a = alphabet(r, 4); (0..l).map(|_| *r.pick(&a)).collect() } 3 => fib_word(l, b'a', b'b'), 4 => thue_morse(l, 7, 3),
                5 => gen::bytes_kind(r, 9, l), 6 => gen::bytes_kind(r, 10, l), 7 => { let p = 1 + r.usize_below(300); let pat = r.bytes(p); (0..l).map(|i| pat[i % p]).collect() }
                _ => r.bytes(l) } }
        _ => unreachable!("family {fam}"),
    }
}

/// fixed witnesses: the minimal reproductions of the defects documented in REPORT.md plus the words the repo's own tests use
const WITNESS: &[&[u8]] = &[b"ab", b"aa", b"aba", b"cbca", b"bab\0", &[0xff, 0x00, 0xff], b"banana", b"mississippi", b"abracadabra", b"aab", b"banana$",
    b"\xedvvvvvvvvvvvvvvvvvvvvvvvvvvvvvv\0", b"", b"a", b"abcabcabc$"];
fn sentinel_tag(c: &mut Case, text: &[u8]) {
    let n = text.len();
    if n > 0 && text[..n - 1].iter().all(|&b| b > text[n - 1]) { c.tag("sentinel_terminated"); } else { c.tag("no_sentinel"); }
}
/// exhaustive small scope: the idx-th string of length `len` over {a,b,c}
fn exh_text(len: usize, idx: u64) -> Vec<u8> { let mut x = idx; (0..len).map(|_| { let d = (x % 3) as u8; x /= 3; b'a' + d }).collect() }
fn pow3(l: usize) -> u64 { 3u64.pow(l as u32) }
/// all patterns over {a,b,c} of length 0..=maxlen, plus patterns using a symbol outside the alphabet
fn exh_patterns(maxlen: usize) -> Vec<Vec<u8>> {
    let mut ps = vec![]; for l in 0..=maxlen { for i in 0..pow3(l) { ps.push(exh_text(l, i)); } }
    ps.push(vec![b'd']); ps.push(vec![b'a', b'd']); ps.push(vec![b'A']); ps.push(vec![0]); ps
}

fn patterns_for(r: &mut Rng, text: &[u8]) -> Vec<Vec<u8>> {
    let n = text.len(); let mut ps: Vec<Vec<u8>> = vec![vec![]];
    if n > 0 {
        ps.push(text.to_vec());
        let mut t = text.to_vec(); t.push(text[n - 1]); ps.push(t);                     // longer than the text
        let mut t = text.to_vec(); t.push(0); ps.push(t);
        ps.push(text[n - 1..].to_vec()); ps.push(text[..1].to_vec());
        for _ in 0..10 { let a = r.usize_below(n); let l = if r.bool() { 1 + r.usize_below((n - a).min(6)) } else { 1 + r.usize_below(n - a) }; ps.push(text[a..a + l].to_vec()); }
        for _ in 0..4 { let a = n - 1 - r.usize_below(n.min(12)); let mut t = text[a..].to_vec(); t.push(r.next() as u8); ps.push(t); }   // runs past the end
        for _ in 0..6 { let a = r.usize_below(n); let l = 1 + r.usize_below((n - a).min(9)); let mut t = text[a..a + l].to_vec(); let d = if r.bool() { 1 } else { 255 }; t[l - 1] = t[l - 1].wrapping_add(d); ps.push(t); }
    }
    for _ in 0..3 { let l = 1 + r.usize_below(4); ps.push(r.bytes(l)); }
    ps.push(vec![0]); ps.push(vec![0xff]); ps.push(vec![0xff, 0xff]);
    ps
}

// ------------------------------------------------------------------------------------------------------------------
// input-only root-cause predicates (see REPORT.md)
// ------------------------------------------------------------------------------------------------------------------

/// S/L classification exactly as a sentinel-free SA-IS would do it ("last suffix is S-type"); returns LMS positions.
fn lms_positions_no_sentinel(text: &[u8]) -> Vec<usize> {
    let n = text.len(); if n == 0 { return vec![]; }
    let mut s = vec![false; n]; s[n - 1] = true;
    for i in (0..n - 1).rev() { s[i] = if text[i] < text[i + 1] { true } else if text[i] > text[i + 1] { false } else { s[i + 1] }; }
    (1..n).filter(|&i| s[i] && !s[i - 1]).collect()
}
fn distinct_lms_substrings(text: &[u8], lms: &[usize]) -> usize {
    let mut v: Vec<&[u8]> = lms.iter().enumerate().map(|(k, &p)| { let e = if k + 1 < lms.len() { lms[k + 1] } else { text.len() }; &text[p..e] }).collect();
    v.sort(); v.dedup(); v.len()
}
/// tags for every case whose suffix array is produced by zipora's SA-IS (`uses_sais` decided from the configuration + text only)
fn tag_sais(c: &mut Case, text: &[u8], noopt: bool) {
    let n = text.len(); if n < 2 { return; }
    c.tag("sais");
    let nondecr = text.windows(2).all(|w| w[0] <= w[1]); let constant = text.windows(2).all(|w| w[0] == w[1]);
    if nondecr && !constant { c.tag("sais_no_lms_ascending"); }
    let lms = lms_positions_no_sentinel(text);
    // S-type suffixes (other than the last) are induced through bucket tails that were already moved down by the LMS placement:
    // wrong slot whenever such a suffix shares its first byte with some LMS suffix
    let mut has_lms = [false; 256]; for &p in &lms { has_lms[text[p] as usize] = true; }
    let mut stype = vec![false; n]; stype[n - 1] = true; for i in (0..n - 1).rev() { stype[i] = if text[i] < text[i + 1] { true } else if text[i] > text[i + 1] { false } else { stype[i + 1] }; }
    if (0..n - 1).any(|p| stype[p] && has_lms[text[p] as usize]) { c.tag("sais_tails_shift"); }
    if !lms.is_empty() && distinct_lms_substrings(text, &lms) > 256 { c.tag("sais_gt256_lms_names"); }
    if noopt && text.iter().any(|&b| b == 0xff) { c.tag("sais_noopt_has_ff"); }
}
/// IntVec::from_slice decided "sorted" from ~16 samples (int_vec.rs fast_sorted_check) and then delta-encoded with an unchecked
/// subtraction: an array that is sorted on the samples but not everywhere tripped it (panic out of build_suffix_array).  Evaluated on the
/// TRUE SA / LCP of the text.  Fixed in /repo by e8f2f27 + a3eb485 while this driver was written; the tag stays as a regression marker.
fn intvec_sampled_sorted(v: &[usize]) -> bool {
    let n = v.len(); if n < 4 || n > 10_000 { return false; }
    let step = (n / 16).max(1); let mut prev = v[0]; let mut i = step;
    while i < n { if v[i] < prev { return false; } prev = v[i]; i += step; }
    !v.windows(2).all(|w| w[0] <= w[1])
}
fn tag_intvec(c: &mut Case, text: &[u8], with_lcp: bool) {
    if text.len() < 4 || text.len() > 10_000 { return; }
    let sa = naive_sa(text);
    if intvec_sampled_sorted(&sa) { c.tag("intvec_sampled_sorted"); }
    if with_lcp { let mut l = vec![0usize; sa.len()]; for r in 1..sa.len() { l[r] = lcp(&text[sa[r - 1]..], &text[sa[r]..]); } if intvec_sampled_sorted(&l) { c.tag("intvec_sampled_sorted"); } }
}
/// does the Adaptive selection (as documented by its public knobs) resolve to SA-IS for this text?  input/config only.
fn adaptive_selects(cfg: &ACfg, text: &[u8]) -> Alg { SuffixArrayBuilder::new(cfg.clone()).select_algorithm(text) }

// ------------------------------------------------------------------------------------------------------------------
// drivers
// ------------------------------------------------------------------------------------------------------------------

fn alg_of(name: &str) -> Alg { match name { "sais" | "sais_noopt" => Alg::SAIS, "dc3" => Alg::DC3, "divsufsort" => Alg::DivSufSort, "ls" => Alg::LarssonSadakane, _ => Alg::Adaptive } }

/// configuration for target algorithm `name`; the knobs that must not matter are randomised and recorded
fn acfg(c: &mut Case, name: &str) -> ACfg {
    let mut cfg = ACfg { algorithm: alg_of(name), ..Default::default() };
    cfg.use_parallel = c.rng.bool(); cfg.parallel_threshold = *c.rng.pick(&[1usize, 100, 100_000]); cfg.compute_lcp = c.rng.bool();
    if name == "sais_noopt" { cfg.optimize_small_alphabet = false; }
    if name == "adaptive" { cfg.adaptive_threshold = *c.rng.pick(&[0usize, 1, 16, 100, 10_000, 10_000]); }
    c.input_str("cfg", &format!("{:?}/par={}@{}/lcp={}/opt={}/thr={}", cfg.algorithm, cfg.use_parallel, cfg.parallel_threshold, cfg.compute_lcp, cfg.optimize_small_alphabet, cfg.adaptive_threshold));
    cfg
}
fn tag_for_cfg(c: &mut Case, cfg: &ACfg, text: &[u8]) {
    let sel = if text.len() < 2 { Alg::DC3 } else { adaptive_selects(cfg, text) };
    c.note(&format!("alg:{sel:?}"), 1);
    if sel == Alg::SAIS { tag_sais(c, text, !cfg.optimize_small_alphabet); }
    if sel == Alg::DC3 && text.len() == 2 && text[0] == text[1] { c.tag("dc3_len2_equal"); }
}
fn len_note(c: &mut Case, n: usize) {
    c.note(match n { 0 => "len_0", 1..=3 => "len_1_3", 4..=63 => "len_4_63", 64..=1023 => "len_64_1k", _ => "len_ge1k" }, 1);
    c.set_nontrivial(n >= 2);
}

fn build_a(text: &[u8], cfg: &ACfg, via_builder: bool) -> Result<SuffixArray, Fail> {
    let r = catch(|| if via_builder { SuffixArrayBuilder::new(cfg.clone()).build(text) } else { SuffixArray::with_config(text, cfg) });
    match r {
        Ok(Ok(sa)) => Ok(sa),
        Ok(Err(e)) => Err(bad("ctor_err", format!("construction failed on a valid text: {e}; text={}", show(text)))),
        Err(p) => Err(bad(&p.class(), format!("construction panicked at {}: {}; text={}", p.loc, p.msg, show(text)))),
    }
}

fn case_sa(c: &mut Case, name: &str, text: Vec<u8>) -> Res {
    c.input("text", &text); let n = text.len(); len_note(c, n);
    let sa = if name == "new" {
        let cfg = ACfg::default(); tag_for_cfg(c, &cfg, &text);
        match catch(|| SuffixArray::new(&text)) { Ok(Ok(s)) => s, Ok(Err(e)) => return Err(bad("ctor_err", format!("SuffixArray::new failed: {e}"))), Err(p) => return Err(bad(&p.class(), format!("SuffixArray::new panicked at {}: {}", p.loc, p.msg))) }
    } else { let cfg = acfg(c, name); tag_for_cfg(c, &cfg, &text); build_a(&text, &cfg, true)? };
    ensure!(sa.text_len() == n, "text_len", "text_len()={} want {n}", sa.text_len());
    check_sa(c, &text, sa.as_slice(), name)?;
    // suffix_at_rank is the slice, None past the end
    for r in 0..n.min(300) { ensure!(sa.suffix_at_rank(r) == Some(sa.as_slice()[r]), "suffix_at_rank", "suffix_at_rank({r})"); }
    ensure!(sa.suffix_at_rank(n).is_none() && sa.suffix_at_rank(usize::MAX).is_none(), "suffix_at_rank", "suffix_at_rank(n) is Some");
    Ok(())
}

fn case_lcp(c: &mut Case, name: &str, text: Vec<u8>) -> Res {
    c.input("text", &text); let n = text.len(); len_note(c, n);
    let cfg = acfg(c, name); tag_for_cfg(c, &cfg, &text);
    let sa = build_a(&text, &cfg, false)?;
    let l = match catch(|| LcpArray::new(&text, &sa)) { Ok(Ok(l)) => l, Ok(Err(e)) => return Err(bad("lcp_err", format!("LcpArray::new failed: {e}"))), Err(p) => return Err(bad(&p.class(), format!("LcpArray::new panicked at {}: {}", p.loc, p.msg))) };
    check_lcp(c, &text, sa.as_slice(), l.as_slice(), name)?;
    for r in [0usize, n / 2, n.saturating_sub(1)] { if r < n { ensure!(l.lcp_at(r) == Some(l.as_slice()[r]), "lcp_at", "lcp_at({r})"); } }
    ensure!(l.lcp_at(n).is_none(), "lcp_at", "lcp_at(n) is Some");
    Ok(())
}

/// `range` = (left, right) as returned; all-and-only check against the scan, through `rank2pos`
fn check_range(c: &mut Case, text: &[u8], pat: &[u8], left: usize, right: usize, n_ranks: usize, rank2pos: &dyn Fn(usize) -> Option<usize>, what: &str) -> Res {
    let occ = scan(text, pat);
    ensure!(left <= right.max(left) && right <= n_ranks, "search_range", "{what}: pattern {} -> range ({left},{right}) outside 0..={n_ranks}", show(pat));
    let mut got: Vec<usize> = vec![];
    for r in left..right { match rank2pos(r) { Some(p) => got.push(p), None => return Err(bad("search_range", format!("{what}: rank {r} of range ({left},{right}) has no suffix"))) } }
    got.sort();
    if got != occ {
        let miss = occ.iter().filter(|p| got.binary_search(p).is_err()).count(); let extra = got.iter().filter(|p| occ.binary_search(p).is_err()).count();
        return Err(bad("search_positions", format!("{what}: pattern {} in text {}: range ({left},{right}) gives {} positions, scan finds {} ({miss} missed, {extra} spurious); got {:?} want {:?}",
            show(pat), show(text), got.len(), occ.len(), &got[..got.len().min(12)], &occ[..occ.len().min(12)])));
    }
    c.ev(1);
    c.note(if pat.is_empty() { "pat_empty" } else if pat.len() > text.len() { "pat_longer" } else if occ.is_empty() { "pat_absent" } else { "pat_present" }, 1);
    Ok(())
}

fn case_search(c: &mut Case, name: &str, text: Vec<u8>, pats: Vec<Vec<u8>>) -> Res {
    c.input("text", &text); let n = text.len(); len_note(c, n);
    let cfg = acfg(c, name); tag_for_cfg(c, &cfg, &text);
    let sa = build_a(&text, &cfg, false)?;
    ensure!(sa.as_slice().len() == n, "sa_len", "suffix array has {} entries, text {n}", sa.as_slice().len());
    for (r, &p) in sa.as_slice().iter().enumerate() { ensure!(p < n, "sa_not_permutation", "SA[{r}]={p} out of range"); }
    for pat in &pats {
        let (l, r) = match catch(|| sa.search_range(&text, pat)) { Ok(x) => x, Err(p) => return Err(bad(&p.class(), format!("search_range({}) panicked at {}: {}", show(pat), p.loc, p.msg))) };
        check_range(c, &text, pat, l, r, n, &|k| sa.suffix_at_rank(k), "search_range")?;
        let (s, cnt) = match catch(|| sa.search(&text, pat)) { Ok(x) => x, Err(p) => return Err(bad(&p.class(), format!("search({}) panicked at {}: {}", show(pat), p.loc, p.msg))) };
        ensure!(cnt == r.saturating_sub(l) && (cnt == 0 || s == l), "search_count", "search({})=({s},{cnt}) but search_range=({l},{r})", show(pat));
        check_range(c, &text, pat, s, s + cnt, n, &|k| sa.suffix_at_rank(k), "search")?;
    }
    Ok(())
}

fn case_esa_lcp(c: &mut Case, text: Vec<u8>) -> Res {
    c.input("text", &text); let n = text.len(); len_note(c, n); tag_for_cfg(c, &ACfg::default(), &text);
    let e = match catch(|| AEsa::with_lcp(&text)) { Ok(Ok(e)) => e, Ok(Err(e)) => return Err(bad("ctor_err", format!("with_lcp failed: {e}"))), Err(p) => return Err(bad(&p.class(), format!("with_lcp panicked at {}: {}", p.loc, p.msg))) };
    let l = match e.lcp_array() { Some(l) => l, None => return Err(bad("lcp_missing", "with_lcp() built no LCP array".into())) };
    ensure!(e.bwt().is_none(), "bwt_unexpected", "with_lcp() has a BWT");
    check_lcp(c, &text, e.suffix_array().as_slice(), l.as_slice(), "esa/lcp")
}

fn case_esa_bwt(c: &mut Case, text: Vec<u8>) -> Res {
    c.input("text", &text); let n = text.len(); len_note(c, n); tag_for_cfg(c, &ACfg::default(), &text);
    let e = match catch(|| AEsa::with_bwt(&text)) { Ok(Ok(e)) => e, Ok(Err(e)) => return Err(bad("ctor_err", format!("with_bwt failed: {e}"))), Err(p) => return Err(bad(&p.class(), format!("with_bwt panicked at {}: {}", p.loc, p.msg))) };
    let b = match e.bwt() { Some(b) => b, None => return Err(bad("bwt_missing", "with_bwt() built no BWT".into())) };
    ensure!(b.len() == n, "bwt_len", "bwt has {} bytes, text {n}", b.len());
    let nsa = naive_sa(&text);
    for i in 0..n { let want = text[(nsa[i] + n - 1) % n]; ensure!(b[i] == want, "bwt_value", "bwt[{i}]={:#x} want {want:#x} (true SA[{i}]={}) text={}", b[i], nsa[i], show(&text)); }
    c.ev(n as u64);
    Ok(())
}

// ---- compression::suffix_array ------------------------------------------------------------------------------------
fn ccfg(name: &str) -> CCfg { match name { "dict" => CCfg::for_dictionary_compression(), "large" => CCfg::for_large_text(), "realtime" => CCfg::for_realtime(), _ => CCfg::default() } }
/// the module's doc asks for a text that "should end with unique sentinel": odd idx -> make it so (unique minimal byte 0 at the end)
fn maybe_sentinel(c: &mut Case, mut text: Vec<u8>, idx: u64) -> Vec<u8> {
    if idx % 2 == 1 { for b in text.iter_mut() { if *b == 0 { *b = 1; } } text.push(0); c.tag("sentinel_terminated"); } else { c.tag("no_sentinel"); }
    text
}
fn build_c(name: &str, text: &[u8]) -> Result<zipora::compression::suffix_array::EnhancedSuffixArray, Fail> {
    let comp = match catch(|| SuffixArrayCompressor::new(ccfg(name))) { Ok(Ok(x)) => x, Ok(Err(e)) => return Err(bad("ctor_err", format!("SuffixArrayCompressor::new: {e}"))), Err(p) => return Err(bad(&p.class(), format!("SuffixArrayCompressor::new panicked at {}: {}", p.loc, p.msg))) };
    match catch(|| comp.build_suffix_array(text)) { Ok(Ok(x)) => Ok(x), Ok(Err(e)) => Err(bad("ctor_err", format!("build_suffix_array failed on valid text: {e}; text={}", show(text)))), Err(p) => Err(bad(&p.class(), format!("build_suffix_array panicked at {}: {}; text={}", p.loc, p.msg, show(text)))) }
}
fn case_csa(c: &mut Case, name: &str, text: Vec<u8>) -> Res {
    c.input("text", &text); c.input_str("cfg", name); let n = text.len(); len_note(c, n); tag_sais(c, &text, false); tag_intvec(c, &text, ccfg(name).compute_lcp);
    let e = build_c(name, &text)?;
    ensure!(e.len() == n && e.text_len() == n && e.is_empty() == (n == 0), "sa_len", "len()={} text_len()={} want {n}", e.len(), e.text_len());
    let mut sa = Vec::with_capacity(n);
    for r in 0..n { match e.suffix_at_rank(r) { Some(p) => sa.push(p), None => return Err(bad("suffix_at_rank", format!("suffix_at_rank({r}) is None, n={n}"))) } }
    ensure!(e.suffix_at_rank(n).is_none(), "suffix_at_rank", "suffix_at_rank(n) is Some");
    check_sa(c, &text, &sa, name)?;
    if ccfg(name).compute_lcp && n > 0 {
        let mut l = Vec::with_capacity(n);
        for r in 0..n { match e.lcp_at(r) { Some(v) => l.push(v), None => return Err(bad("lcp_len", format!("lcp_at({r}) is None although compute_lcp=true, n={n}"))) } }
        check_lcp(c, &text, &sa, &l, name)?;
    }
    Ok(())
}
fn case_csa_search(c: &mut Case, name: &str, text: Vec<u8>, pats: Vec<Vec<u8>>) -> Res {
    c.input("text", &text); c.input_str("cfg", name); let n = text.len(); len_note(c, n); tag_sais(c, &text, false); tag_intvec(c, &text, ccfg(name).compute_lcp);
    let e = build_c(name, &text)?;
    for pat in pats.iter().filter(|p| !p.is_empty()) {     // the empty pattern is documented (and tested) to return nothing in this API
        let (l, r) = match catch(|| e.find_pattern_range(&text, pat)) { Ok(x) => x, Err(p) => return Err(bad(&p.class(), format!("find_pattern_range({}) panicked at {}: {}", show(pat), p.loc, p.msg))) };
        check_range(c, &text, pat, l, r, n, &|k| e.suffix_at_rank(k), "find_pattern_range")?;
        let occ = scan(&text, pat);
        let got = match catch(|| e.find_pattern(&text, pat)) { Ok(x) => x, Err(p) => return Err(bad(&p.class(), format!("find_pattern panicked at {}: {}", p.loc, p.msg))) };
        ensure!(got == occ, "find_pattern", "find_pattern({}) in {} = {:?}.. ({}), scan finds {:?}.. ({})", show(pat), show(&text), &got[..got.len().min(12)], got.len(), &occ[..occ.len().min(12)], occ.len());
        let cnt = e.count_pattern(&text, pat); ensure!(cnt == occ.len(), "count_pattern", "count_pattern({})={cnt} want {}", show(pat), occ.len());
        c.ev(2);
    }
    Ok(())
}

// ---- PA-Zip dictionary ----------------------------------------------------------------------------------------------
struct DictOracle { text: Vec<u8>, sa: Vec<usize> }
impl DictOracle {
    /// longest prefix of `q` occurring anywhere in the dictionary
    fn longest(&self, q: &[u8]) -> usize { (0..self.text.len()).map(|p| lcp(&self.text[p..], q)).max().unwrap_or(0) }
    /// rank range (in the true suffix order) of the suffixes starting with `p`
    fn range(&self, p: &[u8]) -> (usize, usize) {
        let lo = self.sa.partition_point(|&s| { let suf = &self.text[s..]; let m = suf.len().min(p.len()); suf[..m] < p[..m] || (suf[..m] == p[..m] && suf.len() < p.len()) });
        let hi = self.sa.partition_point(|&s| { let suf = &self.text[s..]; let m = suf.len().min(p.len()); suf[..m] < p[..m] || (suf[..m] == p[..m]) });
        (lo, hi.max(lo))
    }
}

fn case_dict(c: &mut Case, name: &str, text: Vec<u8>) -> Res {
    c.input("dict", &text); let n = text.len(); len_note(c, n);
    let mut cfg = SuffixArrayDictionaryConfig::default();
    if name != "default" {
        cfg.min_pattern_length = *c.rng.pick(&[1usize, 2, 3, 4, 8]); cfg.max_pattern_length = 1 << 24; cfg.min_frequency = *c.rng.pick(&[1u32, 2, 4]);
        cfg.max_bfs_depth = *c.rng.pick(&[0u32, 1, 3, 6]); cfg.use_memory_pool = c.rng.bool();
        cfg.suffix_array_config.algorithm = if name == "sais" { Alg::SAIS } else { *c.rng.pick(&[Alg::DC3, Alg::DivSufSort, Alg::LarssonSadakane, Alg::Adaptive]) };
    }
    c.input_str("cfg", &format!("min={} max={} freq={} bfs={} pool={} alg={:?}", cfg.min_pattern_length, cfg.max_pattern_length, cfg.min_frequency, cfg.max_bfs_depth, cfg.use_memory_pool, cfg.suffix_array_config.algorithm));
    tag_for_cfg(c, &cfg.suffix_array_config.clone(), &text);
    let (minl, maxl) = (cfg.min_pattern_length, cfg.max_pattern_length);
    let mut d = match catch(|| SuffixArrayDictionary::new(&text, cfg)) { Ok(Ok(d)) => d, Ok(Err(e)) => return Err(bad("ctor_err", format!("SuffixArrayDictionary::new failed: {e}; text={}", show(&text)))), Err(p) => return Err(bad(&p.class(), format!("SuffixArrayDictionary::new panicked at {}: {}; text={}", p.loc, p.msg, show(&text)))) };
    ensure!(d.dictionary_text() == &text[..], "dict_text", "dictionary_text differs from the training data (len {} vs {n})", d.dictionary_text().len());
    let o = DictOracle { sa: naive_sa(&text), text: text.clone() };
    // queries: related to the dictionary so that long matches exist, plus unrelated ones
    let nq = 10;
    for qi in 0..nq {
        let qlen = if name == "default" { 1 + c.rng.usize_below(200) } else { 1 + c.rng.usize_below(600) };
        let input: Vec<u8> = match qi % 5 { 0 if n > 0 => { let a = c.rng.usize_below(n); text[a..(a + qlen).min(n)].to_vec() }            // exact substring (possibly up to the end)
            1 if n > 0 => { let a = c.rng.usize_below(n); let mut t = text[a..(a + qlen).min(n)].to_vec(); t.push(c.rng.next() as u8); t } // substring + 1 byte
            4 => c.rng.bytes(qlen.min(8)),
            _ => gen::related_bytes(&mut c.rng, &text, qlen) };
        if input.is_empty() { continue; }
        let pos = if c.rng.chance(1, 3) { c.rng.usize_below(input.len()) } else { 0 };
        let q = &input[pos..];
        let want = o.longest(q);
        // 1. find_longest_match
        let got = match catch(|| d.find_longest_match(&input, pos, usize::MAX)) { Ok(Ok(x)) => x, Ok(Err(e)) => return Err(bad("dict_longest_err", format!("find_longest_match failed: {e}"))), Err(p) => return Err(bad(&p.class(), format!("find_longest_match panicked at {}: {}; dict={} q={}", p.loc, p.msg, show(&text), show(q)))) };
        match &got {
            Some(m) => {
                ensure!(m.dict_position + m.length <= n && m.length <= q.len() && text[m.dict_position..m.dict_position + m.length] == q[..m.length], "dict_longest_unsound",
                    "find_longest_match reports length {} at dict position {} but the bytes differ / run out; dict={} q={}", m.length, m.dict_position, show(&text), show(q));
                ensure!(m.length == want, "dict_longest_len", "find_longest_match length {} but brute force finds {want}; dict={} q={}", m.length, show(&text), show(q));
                ensure!(m.length >= minl, "dict_longest_len", "match of length {} below min_pattern_length {minl}", m.length);
                ensure!(m.input_position == pos, "dict_longest_pos", "input_position {} want {pos}", m.input_position);
                c.note("dict_match", 1);
            }
            None => { ensure!(want < minl, "dict_longest_len", "find_longest_match found nothing but the dictionary holds a match of length {want} (>= min {minl}); dict={} q={}", show(&text), show(q)); c.note("dict_nomatch", 1); }
        }
        c.ev(1);
        // 2. the two-level matcher state: depth and rank range
        let st = match catch(|| d.da_match_max_length(q)) { Ok(s) => s, Err(p) => return Err(bad(&p.class(), format!("da_match_max_length panicked at {}: {}", p.loc, p.msg))) };
        ensure!(st.depth == want, "dict_status_depth", "da_match_max_length depth {} want {want}; dict={} q={}", st.depth, show(&text), show(q));
        if n > 0 { let (lo, hi) = o.range(&q[..want]); ensure!((st.lo, st.hi) == (lo, hi), "dict_status_range", "da_match_max_length range ({},{}) want ({lo},{hi}) for prefix of length {want}; dict={} q={}", st.lo, st.hi, show(&text), show(q)); }
        let st2 = match catch(|| d.sa_match_continuation(0, n, 0, q)) { Ok(s) => s, Err(p) => return Err(bad(&p.class(), format!("sa_match_continuation panicked at {}: {}", p.loc, p.msg))) };
        ensure!(st2.depth == want && (n == 0 || (st2.lo, st2.hi) == o.range(&q[..want])), "dict_continuation", "sa_match_continuation(0,n,0) = ({},{},{}) want range {:?} depth {want}; dict={} q={}", st2.lo, st2.hi, st2.depth, o.range(&q[..want]), show(&text), show(q));
        c.ev(2);
        // 3. sa_equal_range on a true prefix range, for the next byte of the query and for a random byte
        if n > 0 { let k = c.rng.usize_below(want + 1); let (lo, hi) = o.range(&q[..k]);
            for ch in [if k < q.len() { q[k] } else { c.rng.next() as u8 }, c.rng.next() as u8, text[c.rng.usize_below(n)]] {
                let mut p2 = q[..k].to_vec(); p2.push(ch); let (wl, wh) = o.range(&p2);
                let (gl, gh) = match catch(|| d.sa_equal_range(lo, hi, k, ch)) { Ok(x) => x, Err(p) => return Err(bad(&p.class(), format!("sa_equal_range panicked at {}: {}", p.loc, p.msg))) };
                if wl >= wh { ensure!(gl >= gh, "dict_equal_range", "sa_equal_range({lo},{hi},{k},{ch:#x}) = ({gl},{gh}) but no suffix in the range continues with that byte; dict={}", show(&text)); }
                else { ensure!((gl, gh) == (wl, wh), "dict_equal_range", "sa_equal_range({lo},{hi},{k},{ch:#x}) = ({gl},{gh}) want ({wl},{wh}); dict={}", show(&text)); }
                c.ev(1);
            } }
        // 4. find_all_matches: all and only the occurrences (when the cap does not bind), a subset of distinct occurrences otherwise
        let plen = (minl + c.rng.usize_below(6)).min(q.len()); let pat = &q[..plen];
        if plen >= minl && plen <= maxl {
            let occ = scan(&text, pat);
            for cap in [usize::MAX, 1 + c.rng.usize_below(3)] {
                let ms = match catch(|| d.find_all_matches(pat, cap)) { Ok(Ok(x)) => x, Ok(Err(e)) => return Err(bad("dict_find_all_err", format!("find_all_matches failed: {e}"))), Err(p) => return Err(bad(&p.class(), format!("find_all_matches panicked at {}: {}", p.loc, p.msg))) };
                let mut got: Vec<usize> = ms.iter().map(|m| m.dict_position).collect(); got.sort();
                ensure!(ms.iter().all(|m| m.length == plen), "dict_find_all", "match length differs from the pattern length");
                if cap >= occ.len() { ensure!(got == occ, "dict_find_all", "find_all_matches({}) = {:?}.. ({}) but scan finds {:?}.. ({}); dict={}", show(pat), &got[..got.len().min(10)], got.len(), &occ[..occ.len().min(10)], occ.len(), show(&text)); }
                else { let mut g2 = got.clone(); g2.dedup(); ensure!(got.len() == cap && g2.len() == cap && got.iter().all(|p| occ.binary_search(p).is_ok()), "dict_find_all", "find_all_matches({}, cap {cap}) = {got:?}: want {cap} distinct occurrences out of {}", show(pat), occ.len()); }
                c.ev(1);
            }
        }
    }
    Ok(())
}


// ------------------------------------------------------------------------------------------------------------------
// huge inputs (70 KiB - 1 MiB, repeats / runs / LCP values above 2^16): the direct-comparison oracles above are O(n * lcp),
// so these cases use an independent exact O(n log^2 n) oracle: prefix doubling with all rank levels kept.
//   * SA:  must equal the doubling SA (the suffix array is unique);
//   * LCP: lcp(i, j) by binary lifting over the rank levels (rank_t[i] == rank_t[j]  <=>  the next 2^t bytes agree);
//   * occurrences of text[p..p+m]: the block around rank[p] in the doubling SA whose adjacent LCPs are >= m.
// The oracle checks itself on a sample of adjacent pairs by direct comparison (a disagreement is `inconclusive`, never a verdict).
// ------------------------------------------------------------------------------------------------------------------
pub struct Huge { pub text: Vec<u8>, pub sa: Vec<u32>, pub rank: Vec<u32>, levels: Vec<Vec<u32>>, pub lcps: Vec<u32> }
impl Huge {
    pub fn new(text: Vec<u8>) -> Huge {
        let n = text.len();
        let mut rank: Vec<u32> = text.iter().map(|&b| b as u32 + 1).collect();      // 0 = past the end
        let mut sa: Vec<u32> = (0..n as u32).collect();
        let mut levels: Vec<Vec<u32>> = vec![]; let mut k = 1usize;
        if n > 0 { loop {
            let key = |i: u32| -> u64 { let i = i as usize; ((rank[i] as u64) << 32) | (if i + k < n { rank[i + k] } else { 0 }) as u64 };
            if levels.is_empty() { sa.sort_unstable_by_key(|&i| rank[i as usize]); }
            // level t (prefix length 2^t) is `rank`; the next one sorts by (rank[i], rank[i+k])
            levels.push(rank.clone());
            sa.sort_unstable_by_key(|&i| key(i));
            let mut nr = vec![0u32; n]; let mut cur = 1u32; nr[sa[0] as usize] = 1;
            for w in 1..n { if key(sa[w]) != key(sa[w - 1]) { cur += 1; } nr[sa[w] as usize] = cur; }
            rank = nr; k *= 2;
            if cur as usize == n || k >= 2 * n { levels.push(rank.clone()); break; }
        } }
        let mut inv = vec![0u32; n]; for (r, &p) in sa.iter().enumerate() { inv[p as usize] = r as u32; }
        let mut h = Huge { text, sa, rank: inv, levels, lcps: vec![] };
        let mut l = vec![0u32; n]; for r in 1..n { l[r] = h.lcp(h.sa[r - 1] as usize, h.sa[r] as usize) as u32; }
        h.lcps = l; h
    }
    /// exact longest common prefix of the suffixes at i and j
    pub fn lcp(&self, i: usize, j: usize) -> usize {
        let n = self.text.len(); if i == j { return n - i; }
        let mut l = 0usize;
        for t in (0..self.levels.len()).rev() {
            let (a, b) = (i + l, j + l); if a >= n || b >= n { break; }
            if self.levels[t][a] == self.levels[t][b] { l += 1usize << t; }
        }
        l.min(n - i.max(j))
    }
    /// positions where text[p..p+m] occurs (ascending); with `alt`: where text[p..p+m-1] followed by byte `alt` occurs
    pub fn occ(&self, p: usize, m: usize, alt: Option<u8>) -> Vec<usize> {
        let n = self.text.len(); let need = if alt.is_some() { m - 1 } else { m };
        if need == 0 { let mut v: Vec<usize> = (0..n).filter(|&i| match alt { Some(b) => self.text[i] == b, None => true }).collect(); v.sort(); return v; }
        let r = self.rank[p] as usize; let (mut lo, mut hi) = (r, r + 1);
        while lo > 0 && self.lcps[lo] as usize >= need { lo -= 1; }
        while hi < n && self.lcps[hi] as usize >= need { hi += 1; }
        let mut v: Vec<usize> = self.sa[lo..hi].iter().map(|&x| x as usize).filter(|&i| match alt { Some(b) => i + need < n && self.text[i + need] == b, None => true }).collect();
        v.sort(); v
    }
    /// direct comparison of a sample of adjacent pairs: guards the oracle itself
    fn selfcheck(&self, r: &mut Rng) -> Res {
        let n = self.text.len(); if n < 2 { return Ok(()); }
        for _ in 0..48 { let k = 1 + r.usize_below(n - 1); let (a, b) = (self.sa[k - 1] as usize, self.sa[k] as usize);
            let d = lcp(&self.text[a..], &self.text[b..]);
            let ordered = if a + d == n { true } else if b + d == n { false } else { self.text[a + d] < self.text[b + d] };
            if !ordered || d != self.lcps[k] as usize { return crate::ctx::inconclusive(format!("doubling oracle inconsistent at rank {k}: lcp {} vs direct {d}, ordered={ordered}", self.lcps[k])); } }
        Ok(())
    }
}

const HUGE_FAMS: &[&str] = &["huge_xcxd", "huge_akb", "huge_dominant", "huge_runs", "huge_periodic", "huge_1m"];
/// (text, anchors): anchors are (position, length) of substrings worth searching for (the long repeats)
fn huge_text(r: &mut Rng, fam: &str) -> (Vec<u8>, Vec<(usize, usize)>) {
    match fam {
        "huge_xcxd" => { // X c X d, |X| >= 65 536: two suffix families whose LCP exceeds 2^16
            let m = *r.pick(&[65_536usize, 65_537, 70_000, 98_304, 131_072]); let ak = *r.pick(&[2usize, 4, 16, 256]); let a = alphabet(r, ak);
            let x: Vec<u8> = (0..m).map(|_| *r.pick(&a)).collect(); let c = r.next() as u8; let d = c.wrapping_add(1 + r.below(255) as u8);
            let mut t = x.clone(); t.push(c); t.extend_from_slice(&x); t.push(d);
            (t, vec![(0, m), (0, m + 1), (m + 1, m), (m + 1, m + 1), (0, 2 * m + 2), (7, m - 7), (m / 2, m / 2 + 1), (m + 1 + m / 3, m - m / 3), (1, 65_536.min(m - 1))]) }
        "huge_akb" => { // one symbol occurring > 65 535 times in a row
            let k = *r.pick(&[65_536usize, 65_537, 70_000, 100_000, 196_609]); let a = r.next() as u8; let b = a.wrapping_add(1 + r.below(255) as u8);
            let t = match r.below(5) { 0 | 1 => { let mut t = vec![a; k]; t.push(b); t } 2 => { let mut t = vec![b]; t.extend(vec![a; k]); t } 3 => vec![a; k + 1],
                _ => { let h = k / 2 + 1; let mut t = vec![a; h]; t.push(b); t.extend(vec![a; h]); t } };
            let n = t.len(); (t, vec![(0, 65_536.min(n)), (0, n), (1, n - 1), (n - 65_537.min(n), 65_537.min(n)), (0, 2), (n / 2, n - n / 2), (3, 65_535.min(n - 3))]) }
        "huge_dominant" => { let n = *r.pick(&[65_537usize, 131_073, 200_000, 262_145]); let pct = 60 + r.below(40); let dom = r.next() as u8; let a = alphabet_k(r);
            let t: Vec<u8> = (0..n).map(|_| if r.below(100) < pct { dom } else { *r.pick(&a) }).collect();
            let anchors = (0..6).map(|_| { let p = r.usize_below(n); (p, 1 + r.usize_below((n - p).min(300))) }).collect(); (t, anchors) }
        "huge_runs" => { // run-expanded text: most runs short, one or two longer than 2^16
            let ak = 2 + r.usize_below(7); let a = alphabet(r, ak); let nb = 20 + r.usize_below(180); let big1 = r.usize_below(nb); let big2 = if r.bool() { r.usize_below(nb) } else { nb };
            let mut t = vec![]; let mut anchors = vec![];
            for i in 0..nb { let sym = *r.pick(&a); let len = if i == big1 || i == big2 { 65_536 + r.usize_below(3000) } else if r.chance(1, 10) { 1 + r.usize_below(3000) } else { 1 + r.usize_below(40) };
                if len > 60_000 { anchors.push((t.len(), len)); anchors.push((t.len() + 1, 65_536)); if t.len() > 0 { anchors.push((t.len() - 1, len + 1)); } }
                t.extend(std::iter::repeat(sym).take(len)); if t.len() > 300_000 { break; } }
            let n = t.len(); anchors.push((0, n)); anchors.push((n - 1, 1)); (t, anchors) }
        "huge_periodic" => { // > 1000:1 compressible; alphabet <= 4 (these go only to targets that resolve to SA-IS: a comparison sort needs O(n^2 log n) here)
            let n = *r.pick(&[65_537usize, 131_073, 262_145]); let p = 1 + r.usize_below(8); let ak = 1 + r.usize_below(4); let a = alphabet(r, ak); let pat: Vec<u8> = (0..p).map(|_| *r.pick(&a)).collect();
            let mut t: Vec<u8> = (0..n).map(|i| pat[i % p]).collect();
            match r.below(3) { 0 => {} 1 => { t[n - 1] = a[0]; } _ => { let i = n / 2 + r.usize_below(100); t[i] = *r.pick(&a); } }
            (t, vec![(0, n), (1, n - 1), (p, 65_536), (0, 65_537), (n.saturating_sub(70_000), 70_000.min(n)), ((n / 2).saturating_sub(40_000), 80_100.min(n / 2))]) }
        "huge_1m" => { let n = (1usize << 20) - 1 + r.usize_below(3); let ak = *r.pick(&[4usize, 256]); let a = alphabet(r, ak); let t: Vec<u8> = (0..n).map(|_| *r.pick(&a)).collect();
            let anchors = (0..6).map(|_| { let p = r.usize_below(n); (p, 1 + r.usize_below((n - p).min(40))) }).collect(); (t, anchors) }
        _ => unreachable!("huge family {fam}"),
    }
}
fn huge_setup(c: &mut Case, fam: &str) -> Result<(Huge, Vec<(usize, usize)>), Fail> {
    let (t, anchors) = huge_text(&mut c.rng, fam);
    c.input("text", &t); c.hash_more(&t); len_note(c, t.len()); c.note("huge", 1);
    let h = Huge::new(t); h.selfcheck(&mut c.rng)?;
    let m = h.lcps.iter().copied().max().unwrap_or(0); if m > 65_535 { c.note("maxlcp_gt65535", 1); }
    Ok((h, anchors))
}
fn check_sa_huge(c: &mut Case, h: &Huge, sa: &[usize], what: &str) -> Res {
    let n = h.text.len();
    ensure!(sa.len() == n, "sa_len", "{what}: suffix array has {} entries for a text of length {n}", sa.len());
    let mut seen = vec![false; n];
    for (r, &p) in sa.iter().enumerate() {
        ensure!(p < n, "sa_not_permutation", "{what}: SA[{r}]={p} out of range (n={n})");
        ensure!(!seen[p], "sa_not_permutation", "{what}: position {p} appears twice (second time at rank {r}) n={n}"); seen[p] = true; }
    for r in 0..n { ensure!(sa[r] == h.sa[r] as usize, "sa_order", "{what}: rank {r}: got suffix@{} but the sorted order has suffix@{} there (n={n}, lcp of the two = {}) text={}", sa[r], h.sa[r], h.lcp(sa[r], h.sa[r] as usize), gen::abbrev(&h.text)); }
    c.ev(2 * n as u64); Ok(())
}
/// LCP definition relative to the library's own array `sa`, evaluated with the doubling oracle
fn check_lcp_huge(c: &mut Case, h: &Huge, sa: &[usize], lcpv: &[usize], what: &str) -> Res {
    let n = h.text.len();
    ensure!(lcpv.len() == n, "lcp_len", "{what}: LCP array has {} entries, text length {n}", lcpv.len());
    for (r, &p) in sa.iter().enumerate() { ensure!(p < n, "sa_not_permutation", "{what}: SA[{r}]={p} out of range (n={n})"); }
    if n == 0 { return Ok(()); }
    ensure!(lcpv[0] == 0, "lcp_value", "{what}: lcp[0]={} want 0", lcpv[0]);
    for r in 1..n.min(sa.len()) { let want = h.lcp(sa[r - 1], sa[r]); ensure!(lcpv[r] == want, "lcp_value", "{what}: lcp[{r}]={} want {want} (suffixes @{} and @{}, n={n}) text={}", lcpv[r], sa[r - 1], sa[r], gen::abbrev(&h.text)); }
    c.ev(n as u64); Ok(())
}
/// patterns as (pattern bytes, exact occurrence list)
fn huge_patterns(c: &mut Case, h: &Huge, anchors: &[(usize, usize)]) -> Result<Vec<(Vec<u8>, Vec<usize>)>, Fail> {
    let n = h.text.len(); let mut out = vec![];
    for &(p, m) in anchors { if m == 0 || p + m > n { continue; }
        out.push((h.text[p..p + m].to_vec(), h.occ(p, m, None)));
        let alt = h.text[p + m - 1].wrapping_add(1 + c.rng.below(255) as u8); let mut q = h.text[p..p + m].to_vec(); q[m - 1] = alt; out.push((q, h.occ(p, m, Some(alt))));     // last byte changed
        if p + m == n { let x = c.rng.next() as u8; let mut q = h.text[p..].to_vec(); q.push(x); out.push((q, h.occ(p, m + 1, Some(x)))); }                                                              // runs past the end
    }
    for _ in 0..6 { let p = c.rng.usize_below(n); let m = 1 + c.rng.usize_below((n - p).min(12)); out.push((h.text[p..p + m].to_vec(), h.occ(p, m, None))); }
    // guard on the oracle: short patterns are re-derived by a plain scan (a disagreement is a harness problem, not a verdict)
    for (q, o) in out.iter() { if q.len() <= 16 && !q.is_empty() { let s2 = scan(&h.text, q); if &s2 != o { return crate::ctx::inconclusive(format!("occurrence oracle disagrees with a scan for pattern {:?}: {} vs {}", q, o.len(), s2.len())); } } }
    let mut q = h.text.clone(); q.push(0); out.push((q, vec![]));                                                                                                             // longer than the text
    out.push((vec![], (0..n).collect()));
    Ok(out)
}
fn check_range_huge(c: &mut Case, pat: &[u8], occ: &[usize], left: usize, right: usize, n: usize, rank2pos: &dyn Fn(usize) -> Option<usize>, what: &str) -> Res {
    ensure!(left <= right.max(left) && right <= n, "search_range", "{what}: pattern {} -> range ({left},{right}) outside 0..={n}", gen::abbrev(pat));
    let mut got: Vec<usize> = vec![];
    for r in left..right { match rank2pos(r) { Some(p) => got.push(p), None => return Err(bad("search_range", format!("{what}: rank {r} of range ({left},{right}) has no suffix"))) } }
    got.sort();
    if got != occ { return Err(bad("search_positions", format!("{what}: pattern {} (len {}): range ({left},{right}) gives {} positions, the text holds {}; got {:?}.. want {:?}..", gen::abbrev(pat), pat.len(), got.len(), occ.len(), &got[..got.len().min(8)], &occ[..occ.len().min(8)]))); }
    c.ev(1); c.note(if pat.is_empty() { "pat_empty" } else if pat.len() > n { "pat_longer" } else if occ.is_empty() { "pat_absent" } else { "pat_present" }, 1);
    if pat.len() > 65_535 && !occ.is_empty() { c.note("pat_present_gt65535", 1); }
    Ok(())
}

fn case_sa_huge(c: &mut Case, name: &str, fam: &str) -> Res {
    let (h, _) = huge_setup(c, fam)?; let n = h.text.len();
    let sa = if name == "new" { let cfg = ACfg::default(); tag_for_cfg(c, &cfg, &h.text);
        match catch(|| SuffixArray::new(&h.text)) { Ok(Ok(s)) => s, Ok(Err(e)) => return Err(bad("ctor_err", format!("SuffixArray::new failed: {e}"))), Err(p) => return Err(bad(&p.class(), format!("SuffixArray::new panicked at {}: {}", p.loc, p.msg))) }
    } else { let cfg = acfg(c, name); tag_for_cfg(c, &cfg, &h.text); build_a(&h.text, &cfg, true)? };
    ensure!(sa.text_len() == n, "text_len", "text_len()={} want {n}", sa.text_len());
    check_sa_huge(c, &h, sa.as_slice(), name)?;
    for r in [0usize, 65_535, 65_536, 65_537, n - 1] { if r < n { ensure!(sa.suffix_at_rank(r) == Some(sa.as_slice()[r]), "suffix_at_rank", "suffix_at_rank({r})"); } }
    ensure!(sa.suffix_at_rank(n).is_none(), "suffix_at_rank", "suffix_at_rank(n) is Some");
    Ok(())
}
fn case_lcp_huge(c: &mut Case, name: &str, fam: &str) -> Res {
    let (h, _) = huge_setup(c, fam)?; let n = h.text.len();
    let cfg = acfg(c, name); tag_for_cfg(c, &cfg, &h.text);
    let sa = build_a(&h.text, &cfg, false)?;
    let l = match catch(|| LcpArray::new(&h.text, &sa)) { Ok(Ok(l)) => l, Ok(Err(e)) => return Err(bad("lcp_err", format!("LcpArray::new failed: {e}"))), Err(p) => return Err(bad(&p.class(), format!("LcpArray::new panicked at {}: {}", p.loc, p.msg))) };
    check_lcp_huge(c, &h, sa.as_slice(), l.as_slice(), name)?;
    ensure!(l.lcp_at(n - 1) == Some(l.as_slice()[n - 1]) && l.lcp_at(n).is_none(), "lcp_at", "lcp_at at the end");
    Ok(())
}
fn case_search_huge(c: &mut Case, name: &str, fam: &str) -> Res {
    let (h, anchors) = huge_setup(c, fam)?; let n = h.text.len();
    let cfg = acfg(c, name); tag_for_cfg(c, &cfg, &h.text);
    let sa = build_a(&h.text, &cfg, false)?;
    ensure!(sa.as_slice().len() == n, "sa_len", "suffix array has {} entries, text {n}", sa.as_slice().len());
    for (r, &p) in sa.as_slice().iter().enumerate() { ensure!(p < n, "sa_not_permutation", "SA[{r}]={p} out of range"); }
    for (pat, occ) in huge_patterns(c, &h, &anchors)? {
        let (l, r) = match catch(|| sa.search_range(&h.text, &pat)) { Ok(x) => x, Err(p) => return Err(bad(&p.class(), format!("search_range panicked at {}: {}", p.loc, p.msg))) };
        check_range_huge(c, &pat, &occ, l, r, n, &|k| sa.suffix_at_rank(k), "search_range")?;
        let (s, cnt) = match catch(|| sa.search(&h.text, &pat)) { Ok(x) => x, Err(p) => return Err(bad(&p.class(), format!("search panicked at {}: {}", p.loc, p.msg))) };
        ensure!(cnt == r.saturating_sub(l) && (cnt == 0 || s == l), "search_count", "search(len {})=({s},{cnt}) but search_range=({l},{r})", pat.len());
    }
    Ok(())
}
fn case_esa_huge(c: &mut Case, bwt: bool, fam: &str) -> Res {
    let (h, _) = huge_setup(c, fam)?; let n = h.text.len(); tag_for_cfg(c, &ACfg::default(), &h.text);
    if bwt {
        let e = match catch(|| AEsa::with_bwt(&h.text)) { Ok(Ok(e)) => e, Ok(Err(e)) => return Err(bad("ctor_err", format!("with_bwt failed: {e}"))), Err(p) => return Err(bad(&p.class(), format!("with_bwt panicked at {}: {}", p.loc, p.msg))) };
        let b = match e.bwt() { Some(b) => b, None => return Err(bad("bwt_missing", "with_bwt() built no BWT".into())) };
        ensure!(b.len() == n, "bwt_len", "bwt has {} bytes, text {n}", b.len());
        for i in 0..n { let want = h.text[(h.sa[i] as usize + n - 1) % n]; ensure!(b[i] == want, "bwt_value", "bwt[{i}]={:#x} want {want:#x} (true SA[{i}]={})", b[i], h.sa[i]); }
        c.ev(n as u64); Ok(())
    } else {
        let e = match catch(|| AEsa::with_lcp(&h.text)) { Ok(Ok(e)) => e, Ok(Err(e)) => return Err(bad("ctor_err", format!("with_lcp failed: {e}"))), Err(p) => return Err(bad(&p.class(), format!("with_lcp panicked at {}: {}", p.loc, p.msg))) };
        let l = match e.lcp_array() { Some(l) => l, None => return Err(bad("lcp_missing", "with_lcp() built no LCP array".into())) };
        check_lcp_huge(c, &h, e.suffix_array().as_slice(), l.as_slice(), "esa/lcp")
    }
}
fn case_csa_huge(c: &mut Case, name: &str, fam: &str, search: bool) -> Res {
    let (h, anchors) = huge_setup(c, fam)?; let n = h.text.len(); c.input_str("cfg", name); sentinel_tag(c, &h.text); tag_sais(c, &h.text, false);
    let e = build_c(name, &h.text)?;
    // IntVec::get is O(index) for its (non-uniform) delta strategy, which a sorted array of > 10 000 elements gets: when the true suffix array is
    // ascending (a^k b with a < b, sorted texts) every suffix_at_rank(r) costs O(r).  Decided from the input only: read sampled ranks / small blocks then.
    let slow_get = h.sa.windows(2).all(|w| w[0] <= w[1]); if slow_get { c.note("csa_sorted_sa_sampled", 1); }
    if search {
        for (pat, occ) in huge_patterns(c, &h, &anchors)?.into_iter().filter(|(p, o)| !p.is_empty() && !(slow_get && o.len() > 1500)) {
            let (l, r) = match catch(|| e.find_pattern_range(&h.text, &pat)) { Ok(x) => x, Err(p) => return Err(bad(&p.class(), format!("find_pattern_range panicked at {}: {}", p.loc, p.msg))) };
            check_range_huge(c, &pat, &occ, l, r, n, &|k| e.suffix_at_rank(k), "find_pattern_range")?;
            let got = match catch(|| e.find_pattern(&h.text, &pat)) { Ok(x) => x, Err(p) => return Err(bad(&p.class(), format!("find_pattern panicked at {}: {}", p.loc, p.msg))) };
            ensure!(got == occ, "find_pattern", "find_pattern(len {}) gives {} positions, the text holds {}", pat.len(), got.len(), occ.len());
            let cnt = e.count_pattern(&h.text, &pat); ensure!(cnt == occ.len(), "count_pattern", "count_pattern(len {})={cnt} want {}", pat.len(), occ.len());
            c.ev(2);
        }
        return Ok(());
    }
    ensure!(e.len() == n && e.text_len() == n && !e.is_empty(), "sa_len", "len()={} text_len()={} want {n}", e.len(), e.text_len());
    ensure!(e.suffix_at_rank(n).is_none(), "suffix_at_rank", "suffix_at_rank(n) is Some");
    let sa: Vec<usize> = if slow_get {
        let mut ranks: Vec<usize> = (0..n.min(64)).collect(); ranks.extend([65_534usize, 65_535, 65_536, 65_537, 131_071, 131_072, 131_073, n - 2, n - 1].iter().copied().filter(|&r| r < n));
        for _ in 0..400 { ranks.push(c.rng.usize_below(n)); }
        for r in ranks { match e.suffix_at_rank(r) { Some(p) => ensure!(p == h.sa[r] as usize, "sa_order", "{name}: rank {r}: got suffix@{p} but the sorted order has suffix@{} there (n={n})", h.sa[r]), None => return Err(bad("suffix_at_rank", format!("suffix_at_rank({r}) is None, n={n}"))) } c.ev(1); }
        h.sa.iter().map(|&x| x as usize).collect()      // verified on the sample; used below only to address the LCP pairs
    } else {
        let mut sa = Vec::with_capacity(n);
        for r in 0..n { match e.suffix_at_rank(r) { Some(p) => sa.push(p), None => return Err(bad("suffix_at_rank", format!("suffix_at_rank({r}) is None, n={n}"))) } }
        check_sa_huge(c, &h, &sa, name)?; sa
    };
    if ccfg(name).compute_lcp {
        // sampled ranks only: IntVec::get is O(index) for its delta strategy (a sorted LCP array such as that of a^k b), so reading all n values is quadratic
        let mut ranks: Vec<usize> = (0..n.min(64)).collect(); ranks.extend([65_534usize, 65_535, 65_536, 65_537, 131_071, 131_072, 131_073, n - 2, n - 1].iter().copied().filter(|&r| r < n));
        if let Some(rmax) = (0..n).max_by_key(|&r| h.lcps[r]) { ranks.push(rmax); if rmax + 1 < n { ranks.push(rmax + 1); } }
        for _ in 0..300 { ranks.push(c.rng.usize_below(n)); }
        for r in ranks { let want = if r == 0 { 0 } else { h.lcp(sa[r - 1], sa[r]) };
            match e.lcp_at(r) { Some(v) => ensure!(v == want, "lcp_value", "{name}: lcp_at({r})={v} want {want} (suffixes @{} and @{}, n={n})", sa[r.saturating_sub(1)], sa[r]), None => return Err(bad("lcp_len", format!("lcp_at({r}) is None although compute_lcp=true, n={n}"))) }
            c.ev(1); }
        ensure!(e.lcp_at(n).is_none(), "lcp_len", "lcp_at(n) is Some");
    }
    Ok(())
}
fn case_dict_huge(c: &mut Case, name: &str, fam: &str) -> Res {
    let (h, anchors) = huge_setup(c, fam)?; let n = h.text.len(); let text = &h.text;
    let mut cfg = SuffixArrayDictionaryConfig::default();
    if name != "default" {
        cfg.min_pattern_length = *c.rng.pick(&[1usize, 4, 8]); cfg.max_pattern_length = 1 << 24; cfg.min_frequency = *c.rng.pick(&[4u32, 8]);   // min_frequency >= 4 keeps the DFA cache small
        cfg.max_bfs_depth = *c.rng.pick(&[0u32, 3, 6]); cfg.use_memory_pool = c.rng.bool();
        cfg.suffix_array_config.algorithm = if name == "sais" { Alg::SAIS } else { *c.rng.pick(&[Alg::DivSufSort, Alg::LarssonSadakane, Alg::Adaptive]) };
    }
    c.input_str("cfg", &format!("min={} max={} freq={} bfs={} pool={} alg={:?}", cfg.min_pattern_length, cfg.max_pattern_length, cfg.min_frequency, cfg.max_bfs_depth, cfg.use_memory_pool, cfg.suffix_array_config.algorithm));
    tag_for_cfg(c, &cfg.suffix_array_config.clone(), text);
    let minl = cfg.min_pattern_length;
    let mut d = match catch(|| SuffixArrayDictionary::new(text, cfg)) { Ok(Ok(d)) => d, Ok(Err(e)) => return Err(bad("ctor_err", format!("SuffixArrayDictionary::new failed: {e}"))), Err(p) => return Err(bad(&p.class(), format!("SuffixArrayDictionary::new panicked at {}: {}", p.loc, p.msg))) };
    ensure!(d.dictionary_text() == &text[..], "dict_text", "dictionary_text differs from the training data");
    let o = DictOracle { sa: h.sa.iter().map(|&x| x as usize).collect(), text: text.clone() };
    // queries are dictionary substrings (optionally + 1 byte), so the longest match is known from the occurrence block
    let mut qs: Vec<(usize, usize)> = if name == "default" { (0..8).map(|_| { let p = c.rng.usize_below(n); (p, 1 + c.rng.usize_below((n - p).min(200))) }).collect() } else { anchors.clone() };
    for _ in 0..3 { let p = c.rng.usize_below(n); qs.push((p, 1 + c.rng.usize_below((n - p).min(200)))); }
    for (p, m) in qs { if m == 0 || p + m > n { continue; }
        let extra = if c.rng.bool() { Some(c.rng.next() as u8) } else { None };
        let mut q = text[p..p + m].to_vec(); if let Some(x) = extra { q.push(x); }
        let want = match extra { Some(x) if !h.occ(p, m + 1, Some(x)).is_empty() => m + 1, _ => m };
        let got = match catch(|| d.find_longest_match(&q, 0, usize::MAX)) { Ok(Ok(x)) => x, Ok(Err(e)) => return Err(bad("dict_longest_err", format!("find_longest_match failed: {e}"))), Err(pn) => return Err(bad(&pn.class(), format!("find_longest_match panicked at {}: {}", pn.loc, pn.msg))) };
        match &got {
            Some(mm) => {
                ensure!(mm.dict_position + mm.length <= n && mm.length <= q.len() && text[mm.dict_position..mm.dict_position + mm.length] == q[..mm.length], "dict_longest_unsound", "find_longest_match reports length {} at dict position {} but the bytes differ / run out (query = dict[{p}..{}]{})", mm.length, mm.dict_position, p + m, if extra.is_some() { " + 1 byte" } else { "" });
                ensure!(mm.length == want, "dict_longest_len", "find_longest_match length {} but the dictionary holds a match of length {want} (query = dict[{p}..{}]{})", mm.length, p + m, if extra.is_some() { " + 1 byte" } else { "" });
                ensure!(mm.length >= minl, "dict_longest_len", "match of length {} below min_pattern_length {minl}", mm.length);
                c.note("dict_match", 1); if mm.length > 65_535 { c.note("dict_match_gt65535", 1); } if mm.dict_position > 65_535 { c.note("dict_pos_gt65535", 1); }
            }
            None => { ensure!(want < minl, "dict_longest_len", "find_longest_match found nothing but the dictionary holds a match of length {want} (>= min {minl})"); c.note("dict_nomatch", 1); }
        }
        let st = match catch(|| d.da_match_max_length(&q)) { Ok(s) => s, Err(pn) => return Err(bad(&pn.class(), format!("da_match_max_length panicked at {}: {}", pn.loc, pn.msg))) };
        ensure!(st.depth == want, "dict_status_depth", "da_match_max_length depth {} want {want}", st.depth);
        let (lo, hi) = o.range(&q[..want]); ensure!((st.lo, st.hi) == (lo, hi), "dict_status_range", "da_match_max_length range ({},{}) want ({lo},{hi}) for prefix of length {want}", st.lo, st.hi);
        // sa_equal_range on the true range of a prefix of the query
        let k = if c.rng.bool() { want.saturating_sub(1) } else { c.rng.usize_below(want + 1) }; let (lo, hi) = o.range(&q[..k]);
        for ch in [if k < q.len() { q[k] } else { c.rng.next() as u8 }, c.rng.next() as u8] {
            let mut p2 = q[..k].to_vec(); p2.push(ch); let (wl, wh) = o.range(&p2);
            let (gl, gh) = match catch(|| d.sa_equal_range(lo, hi, k, ch)) { Ok(x) => x, Err(pn) => return Err(bad(&pn.class(), format!("sa_equal_range panicked at {}: {}", pn.loc, pn.msg))) };
            if wl >= wh { ensure!(gl >= gh, "dict_equal_range", "sa_equal_range({lo},{hi},{k},{ch:#x}) = ({gl},{gh}) but no suffix in the range continues with that byte"); }
            else { ensure!((gl, gh) == (wl, wh), "dict_equal_range", "sa_equal_range({lo},{hi},{k},{ch:#x}) = ({gl},{gh}) want ({wl},{wh})"); }
        }
        // find_all_matches for the query without the extra byte
        if m >= minl && name != "default" || (name == "default" && m >= minl && m <= 256) {
            let occ = h.occ(p, m, None);
            let ms = match catch(|| d.find_all_matches(&text[p..p + m], usize::MAX)) { Ok(Ok(x)) => x, Ok(Err(e)) => return Err(bad("dict_find_all_err", format!("find_all_matches failed: {e}"))), Err(pn) => return Err(bad(&pn.class(), format!("find_all_matches panicked at {}: {}", pn.loc, pn.msg))) };
            let mut g: Vec<usize> = ms.iter().map(|x| x.dict_position).collect(); g.sort();
            ensure!(g == occ, "dict_find_all", "find_all_matches(dict[{p}..{}]) gives {} positions, the dictionary holds {}", p + m, g.len(), occ.len());
        }
        c.ev(5);
    }
    Ok(())
}

// ------------------------------------------------------------------------------------------------------------------
// gap families (`gap_*` generators): the PA-Zip dictionary after a state change or through another entry point must still be the exact
// matcher over the same text.  One oracle for all of them: the brute-force `DictOracle` (the model `case_dict` uses).
//   dict_io/{default,cfg,sais}    serialize -> deserialize, save_to_file -> load_from_file: the loaded dictionary (text, rebuilt suffix array,
//                                 min/max pattern length) answers every query exactly; also data(), dictionary_size(), MatchStatus::match_count
//   dict_opt/{default,cfg,sais}   reset_stats + optimize_cache (mutations) do not change any answer
//   dict_conc/{default,cfg}       ConcurrentSuffixArrayDictionary::{new,find_longest_match} == the model
// `Err` from serialize / deserialize / save / load / optimize_cache / validate is a refusal (note), never a verdict.
// ------------------------------------------------------------------------------------------------------------------
fn gap_cfg(c: &mut Case, name: &str, text: &[u8]) -> SuffixArrayDictionaryConfig {
    let mut cfg = SuffixArrayDictionaryConfig::default();
    if name != "default" {
        cfg.min_pattern_length = *c.rng.pick(&[1usize, 2, 3, 4, 8]); cfg.max_pattern_length = 1 << 24; cfg.min_frequency = *c.rng.pick(&[1u32, 2, 4]);
        cfg.max_bfs_depth = *c.rng.pick(&[0u32, 1, 3, 6]); cfg.use_memory_pool = c.rng.bool();
        cfg.suffix_array_config.algorithm = if name == "sais" { Alg::SAIS } else { *c.rng.pick(&[Alg::DC3, Alg::DivSufSort, Alg::LarssonSadakane, Alg::Adaptive]) };
    }
    // DfaCache construction is quadratic in the number of cached patterns (ZiporaTrie::update_stats walks all nodes on every insert): keep the cache small on big dictionaries
    if text.len() >= 9_000 { cfg.min_frequency = cfg.min_frequency.max(32); }
    c.input_str("cfg", &format!("min={} max={} freq={} bfs={} pool={} alg={:?}", cfg.min_pattern_length, cfg.max_pattern_length, cfg.min_frequency, cfg.max_bfs_depth, cfg.use_memory_pool, cfg.suffix_array_config.algorithm));
    tag_for_cfg(c, &cfg.suffix_array_config.clone(), text);
    cfg
}
/// (input, position) pairs: substrings of the dictionary, substrings + 1 byte, related and unrelated bytes
fn gap_queries(c: &mut Case, text: &[u8], nq: usize, maxq: usize) -> Vec<(Vec<u8>, usize)> {
    let n = text.len(); let mut out = vec![];
    for qi in 0..nq {
        let qlen = 1 + c.rng.usize_below(maxq);
        let input: Vec<u8> = match qi % 5 { 0 if n > 0 => { let a = c.rng.usize_below(n); text[a..(a + qlen).min(n)].to_vec() }
            1 if n > 0 => { let a = c.rng.usize_below(n); let mut t = text[a..(a + qlen).min(n)].to_vec(); t.push(c.rng.next() as u8); t }
            4 => c.rng.bytes(qlen.min(8)),
            _ => gen::related_bytes(&mut c.rng, text, qlen) };
        if input.is_empty() { continue; }
        let pos = if c.rng.chance(1, 3) { c.rng.usize_below(input.len()) } else { 0 };
        out.push((input, pos));
    }
    out
}
/// all matching entry points of `d` against the brute-force model; `st` names the state of the dictionary (it prefixes the oracle class)
fn gap_check_dict(c: &mut Case, d: &mut SuffixArrayDictionary, o: &DictOracle, minl: usize, maxl: usize, qs: &[(Vec<u8>, usize)], st: &str) -> Res {
    let text = &o.text; let n = text.len();
    ensure!(d.dictionary_text() == &text[..] && d.data() == &text[..], format!("{st}:dict_text"), "{st}: dictionary_text()/data() differ from the training data (len {} / {} vs {n})", d.dictionary_text().len(), d.data().len());
    ensure!(d.dictionary_size() == n, format!("{st}:dict_text"), "{st}: dictionary_size()={} want {n}", d.dictionary_size());
    for (input, pos) in qs {
        let (pos, q) = (*pos, &input[*pos..]); let want = o.longest(q);
        let got = match catch(|| d.find_longest_match(input, pos, usize::MAX)) { Ok(Ok(x)) => x, Ok(Err(e)) => return Err(bad(&format!("{st}:dict_longest_err"), format!("{st}: find_longest_match failed: {e}"))), Err(p) => return Err(bad(&p.class(), format!("{st}: find_longest_match panicked at {}: {}; dict={} q={}", p.loc, p.msg, show(text), show(q)))) };
        match &got {
            Some(m) => {
                ensure!(m.dict_position + m.length <= n && m.length <= q.len() && text[m.dict_position..m.dict_position + m.length] == q[..m.length], format!("{st}:dict_longest_unsound"),
                    "{st}: find_longest_match reports length {} at dict position {} but the bytes differ / run out; dict={} q={}", m.length, m.dict_position, show(text), show(q));
                ensure!(m.length == want && m.length >= minl, format!("{st}:dict_longest_len"), "{st}: find_longest_match length {} but brute force finds {want} (min {minl}); dict={} q={}", m.length, show(text), show(q));
                ensure!(m.input_position == pos, format!("{st}:dict_longest_pos"), "{st}: input_position {} want {pos}", m.input_position);
                c.note("dict_match", 1);
            }
            None => { ensure!(want < minl, format!("{st}:dict_longest_len"), "{st}: find_longest_match found nothing but the dictionary holds a match of length {want} (>= min {minl}); dict={} q={}", show(text), show(q)); c.note("dict_nomatch", 1); }
        }
        // a finite max_length: the documentation only says "maximum match length to consider" -> note, no verdict
        if want >= 2 { let cap = 1 + c.rng.usize_below(want - 1);
            if let Ok(Ok(Some(m))) = catch(|| d.find_longest_match(input, pos, cap)) { if m.length > cap { c.note("max_length_exceeded", 1); } else { c.note("max_length_respected", 1); } } }
        let s = match catch(|| d.da_match_max_length(q)) { Ok(s) => s, Err(p) => return Err(bad(&p.class(), format!("{st}: da_match_max_length panicked at {}: {}", p.loc, p.msg))) };
        ensure!(s.depth == want, format!("{st}:dict_status_depth"), "{st}: da_match_max_length depth {} want {want}; dict={} q={}", s.depth, show(text), show(q));
        if n > 0 {
            let (lo, hi) = o.range(&q[..want]);
            ensure!((s.lo, s.hi) == (lo, hi), format!("{st}:dict_status_range"), "{st}: da_match_max_length range ({},{}) want ({lo},{hi}) for prefix of length {want}; dict={} q={}", s.lo, s.hi, show(text), show(q));
            // match_count == number of occurrences of the matched prefix (== the width of the true rank range)
            let occ = if want == 0 { n } else { scan(text, &q[..want]).len() };
            ensure!(s.match_count() == occ && s.is_empty() == (occ == 0), format!("{st}:dict_match_count"), "{st}: MatchStatus({},{},{}).match_count()={} but the matched prefix occurs {occ} times; dict={} q={}", s.lo, s.hi, s.depth, s.match_count(), show(text), show(q));
        } else { ensure!(s.match_count() == 0, format!("{st}:dict_match_count"), "{st}: match_count()={} on an empty dictionary", s.match_count()); }
        c.ev(3);
        let plen = (minl + c.rng.usize_below(6)).min(q.len()); let pat = &q[..plen];
        if plen >= minl && plen <= maxl {
            let occ = scan(text, pat);
            let ms = match catch(|| d.find_all_matches(pat, usize::MAX)) { Ok(Ok(x)) => x, Ok(Err(e)) => return Err(bad(&format!("{st}:dict_find_all_err"), format!("{st}: find_all_matches failed: {e}"))), Err(p) => return Err(bad(&p.class(), format!("{st}: find_all_matches panicked at {}: {}", p.loc, p.msg))) };
            let mut g: Vec<usize> = ms.iter().map(|m| m.dict_position).collect(); g.sort();
            ensure!(g == occ && ms.iter().all(|m| m.length == plen), format!("{st}:dict_find_all"), "{st}: find_all_matches({}) = {:?}.. ({}) but scan finds {:?}.. ({}); dict={}", show(pat), &g[..g.len().min(10)], g.len(), &occ[..occ.len().min(10)], occ.len(), show(text));
            c.ev(1);
        }
    }
    Ok(())
}
/// dictionaries around the Adaptive threshold (10 000) that every construction algorithm sorts quickly: random over 4 / 16 / 256 symbols, or X c X d
fn gap_big_text(r: &mut Rng) -> Vec<u8> {
    let l = *r.pick(&[9_999usize, 10_000, 10_001, 12_000]);
    match r.below(4) { 0 => { let a = alphabet(r, 4); (0..l).map(|_| *r.pick(&a)).collect() } 1 => { let a = alphabet(r, 16); (0..l).map(|_| *r.pick(&a)).collect() } 2 => r.bytes(l),
        _ => { let a = alphabet(r, 8); let x: Vec<u8> = (0..l / 2 - 1).map(|_| *r.pick(&a)).collect(); let mut t = x.clone(); t.push(r.next() as u8); t.extend_from_slice(&x); t.push(r.next() as u8); t } }
}
fn gap_new_dict(text: &[u8], cfg: SuffixArrayDictionaryConfig) -> Result<SuffixArrayDictionary, Fail> {
    match catch(|| SuffixArrayDictionary::new(text, cfg)) { Ok(Ok(d)) => Ok(d), Ok(Err(e)) => Err(bad("ctor_err", format!("SuffixArrayDictionary::new failed: {e}; text={}", show(text)))), Err(p) => Err(bad(&p.class(), format!("SuffixArrayDictionary::new panicked at {}: {}; text={}", p.loc, p.msg, show(text)))) }
}

fn case_dict_io(c: &mut Case, name: &str, text: Vec<u8>) -> Res {
    c.input("dict", &text); let n = text.len(); len_note(c, n);
    let cfg = gap_cfg(c, name, &text); let (minl, maxl) = (cfg.min_pattern_length, cfg.max_pattern_length);
    // the loaded dictionary rebuilds its suffix array with SuffixArray::new (default configuration)
    tag_for_cfg(c, &ACfg::default(), &text);
    let mut d = gap_new_dict(&text, cfg)?;
    let o = DictOracle { sa: naive_sa(&text), text: text.clone() };
    let qs = gap_queries(c, &text, 8, 300);
    match catch(|| d.validate()) { Ok(Ok(())) => c.note("validate_ok", 1), Ok(Err(_)) => c.note("validate_err", 1), Err(p) => return Err(bad(&p.class(), format!("validate panicked at {}: {}", p.loc, p.msg))) }
    gap_check_dict(c, &mut d, &o, minl, maxl, &qs, "built")?;
    // serialize -> deserialize
    let bytes = match catch(|| d.serialize()) { Ok(Ok(b)) => b, Ok(Err(_)) => { c.note("serialize_refused", 1); return Ok(()); } Err(p) => return Err(bad(&p.class(), format!("serialize panicked at {}: {}; dict={}", p.loc, p.msg, show(&text)))) };
    match catch(|| SuffixArrayDictionary::deserialize(&bytes)) {
        Ok(Ok(mut d2)) => { c.note("deserialize_ok", 1);
            ensure!(d2.config().min_pattern_length == minl && d2.config().max_pattern_length == maxl, "loaded:dict_cfg", "deserialize: pattern length limits ({},{}) want ({minl},{maxl})", d2.config().min_pattern_length, d2.config().max_pattern_length);
            gap_check_dict(c, &mut d2, &o, minl, maxl, &qs, "loaded")?;
            // the original is unaffected by having been serialized
            gap_check_dict(c, &mut d, &o, minl, maxl, &qs[..qs.len().min(2)], "built")?; }
        Ok(Err(_)) => c.note("deserialize_refused", 1),
        Err(p) => return Err(bad(&p.class(), format!("deserialize panicked at {}: {}; dict={}", p.loc, p.msg, show(&text)))),
    }
    // save_to_file -> load_from_file
    let dir = match tempfile::tempdir() { Ok(d) => d, Err(e) => return crate::ctx::inconclusive(format!("tempdir: {e}")) };
    let path = dir.path().join("dict.bin");
    match catch(|| d.save_to_file(&path)) { Ok(Ok(())) => {} Ok(Err(_)) => { c.note("save_refused", 1); return Ok(()); } Err(p) => return Err(bad(&p.class(), format!("save_to_file panicked at {}: {}", p.loc, p.msg))) }
    match catch(|| SuffixArrayDictionary::load_from_file(&path)) {
        Ok(Ok(mut d3)) => { c.note("load_ok", 1); gap_check_dict(c, &mut d3, &o, minl, maxl, &qs, "loaded")?; }
        Ok(Err(_)) => c.note("load_refused", 1),
        Err(p) => return Err(bad(&p.class(), format!("load_from_file panicked at {}: {}; dict={}", p.loc, p.msg, show(&text)))),
    }
    // truncated / foreign bytes: the API has an error channel, so a panic is a violation; whatever loads must hold SOME text it answers exactly for
    // (not asserted: documentation says nothing about corrupt input beyond the Result) -> only the no-panic part is a verdict
    if !bytes.is_empty() { let cut = c.rng.usize_below(bytes.len());
        match catch(|| SuffixArrayDictionary::deserialize(&bytes[..cut]).is_ok()) { Ok(ok) => c.note(if ok { "truncated_loaded" } else { "truncated_refused" }, 1), Err(p) => return Err(bad(&p.class(), format!("deserialize of a truncated image ({cut} of {} bytes) panicked at {}: {}", bytes.len(), p.loc, p.msg))) } }
    Ok(())
}

fn case_dict_opt(c: &mut Case, name: &str, text: Vec<u8>) -> Res {
    c.input("dict", &text); let n = text.len(); len_note(c, n);
    let cfg = gap_cfg(c, name, &text); let (minl, maxl, minf) = (cfg.min_pattern_length, cfg.max_pattern_length, cfg.min_frequency);
    let mut d = gap_new_dict(&text, cfg)?;
    let o = DictOracle { sa: naive_sa(&text), text: text.clone() };
    let qs = gap_queries(c, &text, 8, 300);
    gap_check_dict(c, &mut d, &o, minl, maxl, &qs[..qs.len().min(3)], "built")?;     // warms the statistics
    if let Err(p) = catch(|| d.reset_stats()) { return Err(bad(&p.class(), format!("reset_stats panicked at {}: {}", p.loc, p.msg))); }
    gap_check_dict(c, &mut d, &o, minl, maxl, &qs, "after_reset")?;
    for round in 0..2 {
        match catch(|| d.optimize_cache()) { Ok(Ok(())) => c.note("optimize_ok", 1), Ok(Err(_)) => c.note("optimize_refused", 1), Err(p) => return Err(bad(&p.class(), format!("optimize_cache (round {round}, min_frequency {minf}) panicked at {}: {}; dict={}", p.loc, p.msg, show(&text)))) }
        gap_check_dict(c, &mut d, &o, minl, maxl, &qs, "optimized")?;
    }
    match catch(|| d.validate()) { Ok(Ok(())) => c.note("validate_ok", 1), Ok(Err(_)) => c.note("validate_err", 1), Err(p) => return Err(bad(&p.class(), format!("validate panicked at {}: {}", p.loc, p.msg))) }
    // a clone is the same matcher
    let mut d2 = d.clone(); gap_check_dict(c, &mut d2, &o, minl, maxl, &qs[..qs.len().min(3)], "cloned")?;
    Ok(())
}

fn case_dict_conc(c: &mut Case, name: &str, text: Vec<u8>) -> Res {
    c.input("dict", &text); let n = text.len(); len_note(c, n);
    let cfg = gap_cfg(c, name, &text); let minl = cfg.min_pattern_length;
    let d = match catch(|| ConcurrentSuffixArrayDictionary::new(&text, cfg)) { Ok(Ok(d)) => d, Ok(Err(e)) => return Err(bad("ctor_err", format!("ConcurrentSuffixArrayDictionary::new failed: {e}; text={}", show(&text)))), Err(p) => return Err(bad(&p.class(), format!("ConcurrentSuffixArrayDictionary::new panicked at {}: {}; text={}", p.loc, p.msg, show(&text)))) };
    let o = DictOracle { sa: naive_sa(&text), text: text.clone() };
    let qs = gap_queries(c, &text, 12, 300);
    for (input, pos) in &qs {
        let (pos, q) = (*pos, &input[*pos..]); let want = o.longest(q);
        let got = match catch(|| d.find_longest_match(input, pos, usize::MAX)) { Ok(Ok(x)) => x, Ok(Err(e)) => return Err(bad("conc:dict_longest_err", format!("concurrent find_longest_match failed: {e}"))), Err(p) => return Err(bad(&p.class(), format!("concurrent find_longest_match panicked at {}: {}; dict={} q={}", p.loc, p.msg, show(&text), show(q)))) };
        match &got {
            Some(m) => {
                ensure!(m.dict_position + m.length <= n && m.length <= q.len() && text[m.dict_position..m.dict_position + m.length] == q[..m.length], "conc:dict_longest_unsound", "concurrent find_longest_match reports length {} at dict position {} but the bytes differ / run out; dict={} q={}", m.length, m.dict_position, show(&text), show(q));
                ensure!(m.length == want && m.length >= minl && m.input_position == pos, "conc:dict_longest_len", "concurrent find_longest_match (length {}, input_position {}) but brute force finds {want} at {pos} (min {minl}); dict={} q={}", m.length, m.input_position, show(&text), show(q));
                c.note("dict_match", 1); }
            None => { ensure!(want < minl, "conc:dict_longest_len", "concurrent find_longest_match found nothing but the dictionary holds a match of length {want} (>= min {minl}); dict={} q={}", show(&text), show(q)); c.note("dict_nomatch", 1); }
        }
        c.ev(1);
    }
    Ok(())
}

// ------------------------------------------------------------------------------------------------------------------
pub fn run(ctx: &mut Ctx) {
    let exh_max = if ctx.quick() || ctx.pinned { 6 } else { 9 };   // lengths 0..=3 are the DESIGN's small scope; 4.. extend it
    let algs = ["sais", "dc3", "divsufsort", "ls", "adaptive"];
    // ---- complete small-scope enumeration over {a,b,c} (gen name carries the exact sub-space)
    for len in 0..=exh_max {
        let g = format!("exhaustive_abc_len{len}");
        for idx in 0..pow3(len) {
            for a in algs.iter().chain(["sais_noopt", "new"].iter()) { ctx.case(&format!("sa/{a}"), &g, idx, |c| { c.note("exhaustive", 1); case_sa(c, a, exh_text(len, idx)) }); }
            for a in algs { ctx.case(&format!("lcp/{a}"), &g, idx, |c| { c.note("exhaustive", 1); case_lcp(c, a, exh_text(len, idx)) }); }
            for a in algs { ctx.case(&format!("search/{a}"), &g, idx, |c| { c.note("exhaustive", 1); case_search(c, a, exh_text(len, idx), exh_patterns((len + 1).min(4))) }); }
            ctx.case("esa/lcp", &g, idx, |c| { c.note("exhaustive", 1); case_esa_lcp(c, exh_text(len, idx)) });
            ctx.case("esa/bwt", &g, idx, |c| { c.note("exhaustive", 1); case_esa_bwt(c, exh_text(len, idx)) });
            if len <= 5 || !ctx.quick() {
                for k in ["default", "dict", "large", "realtime"] { ctx.case(&format!("csa/{k}"), &g, idx, |c| { c.note("exhaustive", 1); c.tag("no_sentinel"); case_csa(c, k, exh_text(len, idx)) }); }
                for k in ["default", "dict"] { ctx.case(&format!("csa_search/{k}"), &g, idx, |c| { c.note("exhaustive", 1); c.tag("no_sentinel"); case_csa_search(c, k, exh_text(len, idx), exh_patterns((len + 1).min(4))) }); }
                // same sub-space with a unique minimal terminator (the shape the module documentation asks for)
                let gs = format!("exhaustive_abc_len{len}_sentinel");
                for k in ["default", "dict", "large", "realtime"] { ctx.case(&format!("csa/{k}"), &gs, idx, |c| { c.note("exhaustive", 1); c.tag("sentinel_terminated"); let mut t = exh_text(len, idx); t.push(0); case_csa(c, k, t) }); }
                for k in ["default", "dict"] { ctx.case(&format!("csa_search/{k}"), &gs, idx, |c| { c.note("exhaustive", 1); c.tag("sentinel_terminated"); let mut t = exh_text(len, idx); t.push(0); case_csa_search(c, k, t, exh_patterns((len + 1).min(4))) }); }
            }
            if len <= 4 || !ctx.quick() { for k in ["default", "cfg", "sais"] { ctx.case(&format!("dict/{k}"), &g, idx, |c| { c.note("exhaustive", 1); case_dict(c, k, exh_text(len, idx)) }); } }
        }
    }
    // ---- fixed witnesses
    for idx in 0..WITNESS.len() as u64 {
        let w = || WITNESS[idx as usize].to_vec(); let g = "witness";
        for a in algs.iter().chain(["sais_noopt", "new"].iter()) { ctx.case(&format!("sa/{a}"), g, idx, |c| case_sa(c, a, w())); }
        for a in algs { ctx.case(&format!("lcp/{a}"), g, idx, |c| case_lcp(c, a, w())); }
        for a in algs { ctx.case(&format!("search/{a}"), g, idx, |c| { let t = w(); let p = patterns_for(&mut c.rng, &t); case_search(c, a, t, p) }); }
        ctx.case("esa/lcp", g, idx, |c| case_esa_lcp(c, w()));
        ctx.case("esa/bwt", g, idx, |c| case_esa_bwt(c, w()));
        for k in ["default", "dict", "large", "realtime"] { ctx.case(&format!("csa/{k}"), g, idx, |c| { sentinel_tag(c, &w()); case_csa(c, k, w()) }); }
        for k in ["default", "dict"] { ctx.case(&format!("csa_search/{k}"), g, idx, |c| { let t = w(); sentinel_tag(c, &t); let p = patterns_for(&mut c.rng, &t); case_csa_search(c, k, t, p) }); }
        for k in ["default", "cfg", "sais"] { ctx.case(&format!("dict/{k}"), g, idx, |c| case_dict(c, k, w())); }
    }
    // ---- random / directed families
    let per = ctx.n(220, 8500);
    for fam in FAMS {
        let big = *fam == "big";
        let cnt = if big { ctx.n(12, 250) } else { per } as u64;
        let maxlen = 2500;
        for idx in 0..cnt {
            for a in algs.iter().chain(["sais_noopt", "new"].iter()) { ctx.case(&format!("sa/{a}"), fam, idx, |c| { let t = text_of(&mut c.rng, fam, maxlen); case_sa(c, a, t) }); }
            for a in algs { ctx.case(&format!("lcp/{a}"), fam, idx, |c| { let t = text_of(&mut c.rng, fam, maxlen); case_lcp(c, a, t) }); }
            for a in algs { ctx.case(&format!("search/{a}"), fam, idx, |c| { let t = text_of(&mut c.rng, fam, maxlen); let p = patterns_for(&mut c.rng, &t); case_search(c, a, t, p) }); }
            ctx.case("esa/lcp", fam, idx, |c| { let t = text_of(&mut c.rng, fam, maxlen); case_esa_lcp(c, t) });
            ctx.case("esa/bwt", fam, idx, |c| { let t = text_of(&mut c.rng, fam, maxlen); case_esa_bwt(c, t) });
            for k in ["default", "dict", "large", "realtime"] { ctx.case(&format!("csa/{k}"), fam, idx, |c| { let t = text_of(&mut c.rng, fam, maxlen); let t = maybe_sentinel(c, t, idx); case_csa(c, k, t) }); }
            for k in ["default", "dict"] { ctx.case(&format!("csa_search/{k}"), fam, idx, |c| { let t = text_of(&mut c.rng, fam, maxlen); let t = maybe_sentinel(c, t, idx); let p = patterns_for(&mut c.rng, &t); case_csa_search(c, k, t, p) }); }
            // dictionaries: <= 800 bytes, plus one "big" one per seed (>= the Adaptive threshold, up to 50 003 bytes)
            if !big || idx < 1 { for k in ["default", "cfg", "sais"] { ctx.case(&format!("dict/{k}"), fam, idx, |c| { let t = text_of(&mut c.rng, fam, 800); case_dict(c, k, t) }); } }
        }
    }
    // ---- huge inputs (see `Huge`): a handful per target; comparison-sort algorithms skip the shapes that cost them O(n^2 log n)
    for fam in HUGE_FAMS {
        let (periodic, m1) = (*fam == "huge_periodic", *fam == "huge_1m");
        let cnt = if m1 { ctx.n(1, 6) } else { ctx.n(1, 24) } as u64;
        for idx in 0..cnt {
            for a in algs.iter().chain(["sais_noopt", "new"].iter()) {
                if periodic && ["dc3", "divsufsort", "ls"].contains(a) { continue; }
                if m1 && ctx.quick() && !["sais", "ls", "adaptive"].contains(a) { continue; }
                ctx.case(&format!("sa/{a}"), fam, idx, |c| case_sa_huge(c, a, fam));
            }
            if m1 && ctx.quick() { ctx.case("csa/default", fam, idx, |c| case_csa_huge(c, "default", fam, false)); continue; }
            let long_lcp = ["huge_xcxd", "huge_akb", "huge_runs", "huge_periodic"].contains(fam);
            if long_lcp || !ctx.quick() { for a in algs { if periodic && ["dc3", "divsufsort", "ls"].contains(&a) { continue; } ctx.case(&format!("lcp/{a}"), fam, idx, |c| case_lcp_huge(c, a, fam)); } }
            if ["huge_xcxd", "huge_akb", "huge_runs"].contains(fam) || !ctx.quick() { for a in algs { if periodic && ["dc3", "divsufsort", "ls"].contains(&a) { continue; } ctx.case(&format!("search/{a}"), fam, idx, |c| case_search_huge(c, a, fam)); } }
            if ["huge_xcxd", "huge_akb", "huge_periodic"].contains(fam) || !ctx.quick() { ctx.case("esa/lcp", fam, idx, |c| case_esa_huge(c, false, fam)); ctx.case("esa/bwt", fam, idx, |c| case_esa_huge(c, true, fam)); }
            for k in ["default", "dict", "large", "realtime"] { if ctx.quick() && !long_lcp && k != "dict" { continue; } ctx.case(&format!("csa/{k}"), fam, idx, |c| case_csa_huge(c, k, fam, false)); }
            if ["huge_xcxd", "huge_akb", "huge_periodic"].contains(fam) || !ctx.quick() { for k in ["default", "dict"] { ctx.case(&format!("csa_search/{k}"), fam, idx, |c| case_csa_huge(c, k, fam, true)); } }
            if ["huge_xcxd", "huge_akb", "huge_runs"].contains(fam) { for k in ["default", "cfg", "sais"] { ctx.case(&format!("dict/{k}"), fam, idx, |c| case_dict_huge(c, k, fam)); } }
        }
    }
    // ---- gap families: dictionary persistence, cache optimisation, concurrent wrapper (new targets, new generators)
    let gap_kinds: [(&str, &[&str]); 3] = [("dict_io", &["default", "cfg", "sais"]), ("dict_opt", &["default", "cfg", "sais"]), ("dict_conc", &["default", "cfg"])];
    let gap_case = |c: &mut Case, kind: &str, k: &str, t: Vec<u8>| -> Res { match kind { "dict_io" => case_dict_io(c, k, t), "dict_opt" => case_dict_opt(c, k, t), _ => case_dict_conc(c, k, t) } };
    for len in 0..=(if ctx.quick() || ctx.pinned { 4 } else { 7 }) {
        let g = format!("gap_exhaustive_abc_len{len}");
        for idx in 0..pow3(len) { for (kind, ks) in gap_kinds.iter() { for k in ks.iter() { ctx.case(&format!("{kind}/{k}"), &g, idx, |c| { c.note("exhaustive", 1); gap_case(c, kind, k, exh_text(len, idx)) }); } } }
    }
    for idx in 0..WITNESS.len() as u64 { for (kind, ks) in gap_kinds.iter() { for k in ks.iter() { ctx.case(&format!("{kind}/{k}"), "gap_witness", idx, |c| gap_case(c, kind, k, WITNESS[idx as usize].to_vec())); } } }
    let gap_per = ctx.n(40, 1200) as u64;
    for fam in FAMS {
        if *fam == "big" { continue; }
        let g = format!("gap_{fam}");
        for idx in 0..gap_per { for (kind, ks) in gap_kinds.iter() { for k in ks.iter() { ctx.case(&format!("{kind}/{k}"), &g, idx, |c| { let t = text_of(&mut c.rng, fam, 800); gap_case(c, kind, k, t) }); } } }
    }
    // one dictionary above the Adaptive threshold per target
    for (kind, ks) in gap_kinds.iter() { for k in ks.iter() { for idx in 0..ctx.n(1, 12) as u64 { ctx.case(&format!("{kind}/{k}"), "gap_big", idx, |c| { let t = gap_big_text(&mut c.rng); gap_case(c, kind, k, t) }); } } }
}
