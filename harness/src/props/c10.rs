//! C10 — vectors, queues and string vectors match their standard-library models.
//! Oracle: Vec<u64> / VecDeque<u64> / Vec<String> executing the same operation; compared after every operation.
//! Element type for generic containers is mon::Tracked (exact drop accounting): after every operation the number of
//! live tracked values must equal the number of elements the models hold; at the end of a history it must be zero.
use crate::ctx::{catch, Case, Ctx, Fail, Res};
use crate::mon::{self, Tracked};
use crate::rng::Rng;
use std::collections::VecDeque;
use zipora::containers::specialized::{
    AdvancedStringConfig, AdvancedStringVec, AutoGrowCircularQueue, BitPackedStringVec32, BitPackedStringVec64,
    FixedCircularQueue, FixedLenStrVec, SortableStrVec, ValVec32, ZoSortedStrVec,
};
use zipora::containers::FastVec;
use zipora::memory::bump::{BumpAllocator, BumpVec};
use zipora::memory::{CacheAlignedVec, MmapVec, MmapVecConfig, PooledVec};

fn bad(oracle: &str, d: String) -> Fail { Fail { oracle: oracle.to_string(), detail: d } }

// ---------------------------------------------------------------------------------------------
// element types
// ---------------------------------------------------------------------------------------------
pub trait Elem: Clone + PartialEq + 'static {
    const TRACKED: bool;
    fn mk(id: u64) -> Self;
    /// what `mk(id).id()` returns, without creating a value
    fn norm(id: u64) -> u64;
    fn id(&self) -> u64;
    fn ok(&self) -> bool { true }
}
impl Elem for Tracked {
    const TRACKED: bool = true;
    fn mk(id: u64) -> Self { Tracked::new(id) }
    fn norm(id: u64) -> u64 { id }
    fn id(&self) -> u64 { self.id }
    fn ok(&self) -> bool { self.intact() }
}
impl Elem for u64 {
    const TRACKED: bool = false;
    fn mk(id: u64) -> Self { Self::norm(id) }
    fn norm(id: u64) -> u64 { id.wrapping_mul(0x9E37_79B9_7F4A_7C15) | 1 }
    fn id(&self) -> u64 { *self }
}
impl Elem for u8 {
    const TRACKED: bool = false;
    fn mk(id: u64) -> Self { Self::norm(id) as u8 }
    fn norm(id: u64) -> u64 { (id.wrapping_mul(37).wrapping_add(id >> 8) as u8) as u64 }
    fn id(&self) -> u64 { *self as u64 }
}

/// live-value accounting after an operation (only meaningful for Tracked elements)
fn live_check(expected: usize, what: &str) -> Res {
    let errs = mon::tracked_errors();
    if !errs.is_empty() { return Err(bad("double_drop", format!("{what}: {}", errs[0]))); }
    let live = mon::tracked_live();
    if live > expected { return Err(bad("leak", format!("{what}: {live} tracked values alive, models hold {expected}"))); }
    if live < expected { return Err(bad("dropped_while_held", format!("{what}: {live} tracked values alive, models hold {expected}"))); }
    Ok(())
}

// ---------------------------------------------------------------------------------------------
// vector histories
// ---------------------------------------------------------------------------------------------
#[derive(Clone, Copy, PartialEq, Eq, Debug)]
pub enum K { Push, Pop, Insert, Remove, Resize, ResizeWith, Extend, Clear, Shrink, Reserve, EnsureCap, Clone, Set, Truncate, Mutate, Fill, CopyFrom, ExtendSlice, PushN, PopBulk, Probe }
fn kcode(k: K) -> &'static str {
    match k { K::Push => "pu", K::Pop => "po", K::Insert => "in", K::Remove => "rm", K::Resize => "rs", K::ResizeWith => "rw", K::Extend => "ex", K::Clear => "cl", K::Shrink => "sh", K::Reserve => "rv",
        K::EnsureCap => "ec", K::Clone => "CL", K::Set => "st", K::Truncate => "tr", K::Mutate => "mu", K::Fill => "fi", K::CopyFrom => "cf", K::ExtendSlice => "es", K::PushN => "pn", K::PopBulk => "pb", K::Probe => "pr" }
}
#[derive(Clone, Copy, Debug)]
pub struct VOp { pub k: K, pub a: usize, pub b: usize }
#[derive(Clone, Copy, Debug)]
pub struct Step { pub on_b: bool, pub op: VOp }
fn encode_steps(s: &[Step]) -> String {
    let mut o = String::with_capacity(s.len() * 5);
    for st in s { if st.on_b { o.push('b'); } o.push_str(kcode(st.op.k)); match st.op.k { K::Push | K::Pop | K::Clear | K::Shrink | K::Clone | K::Probe => {} K::Fill => o.push_str(&format!("{}-{}", st.op.a, st.op.b)), _ => o.push_str(&st.op.a.to_string()) } o.push(' '); }
    o
}

#[derive(Clone, Copy, PartialEq, Eq, Debug)]
pub enum Fam { Mixed, Growth, Ends, Shrink, CloneDiv, Micro }
const FAMS: &[Fam] = &[Fam::Mixed, Fam::Growth, Fam::Ends, Fam::Shrink, Fam::CloneDiv, Fam::Micro];
fn fam_name(f: Fam) -> &'static str { match f { Fam::Mixed => "mixed", Fam::Growth => "growth", Fam::Ends => "ends", Fam::Shrink => "shrink", Fam::CloneDiv => "clone_diverge", Fam::Micro => "micro" } }

fn fam_mult(f: Fam, k: K) -> u32 {
    match (f, k) {
        (Fam::Growth, K::Push) | (Fam::Growth, K::Extend) | (Fam::Growth, K::Insert) | (Fam::Growth, K::ExtendSlice) | (Fam::Growth, K::PushN) | (Fam::Growth, K::Reserve) => 4,
        (Fam::Ends, K::Insert) | (Fam::Ends, K::Remove) => 6,
        (Fam::Shrink, K::Resize) | (Fam::Shrink, K::ResizeWith) | (Fam::Shrink, K::Truncate) | (Fam::Shrink, K::Shrink) | (Fam::Shrink, K::Clear) | (Fam::Shrink, K::PopBulk) => 4,
        (Fam::Shrink, K::Push) | (Fam::Shrink, K::Extend) => 3,
        (Fam::CloneDiv, K::Clone) => 5,
        _ => 1,
    }
}

/// Generate a history. Tracks only the lengths of the two copies; arguments may deliberately be out of range.
pub fn gen_vec_steps(r: &mut Rng, kinds: &[(K, u32)], fam: Fam, fixed_cap: Option<usize>) -> Vec<Step> {
    let (n_ops, max_len) = match fam { Fam::Micro => (r.urange(30, 150), 40usize), Fam::Growth => (r.urange(150, 500), 700), Fam::Mixed => (r.urange(80, 400), 120), _ => (r.urange(60, 300), 100) };
    let has = |k: K| kinds.iter().any(|x| x.0 == k);
    let mut la = 0usize; let mut lb: Option<usize> = None;
    let mut out = Vec::with_capacity(n_ops);
    let ends = fam == Fam::Ends;
    for step in 0..n_ops {
        let on_b = lb.is_some() && r.bool();
        let len = if on_b { lb.unwrap() } else { la };
        let k = if fam == Fam::CloneDiv && step < 12 { K::Push }
            else if fam == Fam::CloneDiv && step == 12 && has(K::Clone) { K::Clone }
            else if len > max_len { let sh: Vec<K> = [K::Pop, K::Remove, K::Clear, K::Truncate, K::Resize, K::PopBulk].into_iter().filter(|&k| has(k)).collect(); if sh.is_empty() { K::Pop } else { *r.pick(&sh) } }
            else { let total: u32 = kinds.iter().map(|&(k, w)| w * fam_mult(fam, k)).sum(); let mut x = r.below(total as u64) as u32; let mut sel = kinds[0].0; for &(k, w) in kinds { let w = w * fam_mult(fam, k); if x < w { sel = k; break; } x -= w; } sel };
        let bulk = |r: &mut Rng| -> usize { if fam != Fam::Micro && r.chance(1, 10) { return r.urange(60, 140); } match r.below(6) { 0 => 0, 1 => 1, 2 => r.urange(7, 17), 3 if fam == Fam::Growth => r.urange(20, 90), _ => r.urange(2, 12) } };
        let (a, b) = match k {
            K::Insert => (if ends || r.chance(1, 3) { *r.pick(&[0, len, len / 2, len + 1, len.saturating_sub(1), 1]) } else { r.usize_below(len + 2) }, 0),
            K::Remove | K::Set => (if ends || r.chance(1, 3) { *r.pick(&[0, len.saturating_sub(1), len, len / 2, len + 1]) } else { r.usize_below(len + 1) }, 0),
            K::Mutate => (r.usize_below(len + 1), 0),
            K::Resize | K::ResizeWith => (if len > max_len || (fam == Fam::Shrink && r.bool()) { r.usize_below(len + 1) } else { match r.below(4) { 0 => len, 1 => r.usize_below(len + 1), _ => len + bulk(r) } }, 0),
            K::Truncate => (match r.below(4) { 0 => len, 1 => len + 3, _ => r.usize_below(len + 1) }, 0),
            K::Extend | K::ExtendSlice | K::PushN => (bulk(r), 0),
            K::Reserve | K::EnsureCap => (match r.below(4) { 0 => 0, 1 => 1, _ => r.usize_below(50) }, 0),
            K::Fill => { let x = r.usize_below(len + 2); let y = r.usize_below(len + 2); if r.chance(5, 6) { (x.min(y), x.max(y)) } else { (x, y) } }
            K::CopyFrom => (len.max(1) + if r.bool() { 0 } else { bulk(r) }, 0),
            K::PopBulk => (match r.below(5) { 0 => 0, 1 => len, 2 => len + 1, _ => r.usize_below(len + 1) }, 0),
            _ => (0, 0),
        };
        // length bookkeeping (approximate is fine: the driver interprets arguments against the real model)
        let cap = fixed_cap.unwrap_or(usize::MAX);
        let nl = match k {
            K::Push => if len < cap { len + 1 } else { len }, K::Pop => len.saturating_sub(1),
            K::Insert => if a <= len { len + 1 } else { len }, K::Remove => if a < len { len - 1 } else { len },
            K::Resize | K::ResizeWith => a, K::Truncate => a.min(len), K::Extend | K::ExtendSlice | K::PushN => len + a, K::Clear => 0,
            K::CopyFrom => a, K::PopBulk => if a <= len { len - a } else { len }, _ => len,
        };
        if k == K::Clone { lb = Some(la); } else if on_b { lb = Some(nl); } else { la = nl; }
        out.push(Step { on_b, op: VOp { k, a, b } });
    }
    out
}

pub trait VecSut: Sized {
    type E: Elem;
    const KINDS: &'static [(K, u32)];
    const NCFG: usize;
    /// cap on history length (file-backed containers are slow)
    const MAX_STEPS: usize = usize::MAX;
    /// construct configuration `cfg`; returns the container and the model of its initial content
    fn create(cfg: usize, next: &mut u64) -> Result<(Self, Vec<u64>), Fail>;
    fn fixed_cap(_cfg: usize) -> Option<usize> { None }
    fn apply(&mut self, op: &VOp, m: &mut Vec<u64>, next: &mut u64, c: &mut Case) -> Res;
    /// element ids in order (Err if an element is not intact)
    fn snapshot(&self) -> Result<Vec<u64>, Fail>;
    fn sut_len(&self) -> usize;
    /// a copy made with the container's own clone facility, if it has one
    fn try_clone(&self) -> Result<Option<Self>, Fail> { Ok(None) }
    fn tags(_c: &mut Case, _cfg: usize, _steps: &[Step]) {}
}

fn snap_slice<E: Elem>(s: &[E]) -> Result<Vec<u64>, Fail> {
    let mut v = Vec::with_capacity(s.len());
    for (i, e) in s.iter().enumerate() { if !e.ok() { return Err(bad("element_corrupt", format!("element {i} (id {}) is not intact (dropped or overwritten while held)", e.id()))); } v.push(e.id()); }
    Ok(v)
}
fn cmp_model(what: &str, got: &[u64], want: &[u64]) -> Res {
    if got.len() != want.len() { return Err(bad("len", format!("{what}: len {} want {}", got.len(), want.len()))); }
    for i in 0..got.len() { if got[i] != want[i] { return Err(bad("content", format!("{what}: element {i} is {:#x} want {:#x} (len {})", got[i], want[i], got.len()))); } }
    Ok(())
}
fn fresh<E: Elem>(n: usize, next: &mut u64, m: Option<&mut Vec<u64>>) -> Vec<E> {
    let mut v = Vec::with_capacity(n); let mut ids = Vec::with_capacity(n);
    for _ in 0..n { let id = *next; *next += 1; v.push(E::mk(id)); ids.push(E::norm(id)); }
    if let Some(m) = m { m.extend(ids); }
    v
}
fn nid(next: &mut u64) -> u64 { let id = *next; *next += 1; id }

fn run_vec_steps<S: VecSut>(c: &mut Case, cfg: usize, steps: &[Step]) -> Res {
    let mut next = 1u64;
    let (mut a, mut ma) = S::create(cfg, &mut next)?;
    let mut b: Option<(S, Vec<u64>)> = None;
    cmp_model("after construction", &a.snapshot()?, &ma)?;
    for (i, st) in steps.iter().enumerate() {
        let ctxs = |f: Fail| Fail { oracle: f.oracle, detail: format!("step {i} {}{}({},{}): {}", if st.on_b { "clone." } else { "" }, kcode(st.op.k), st.op.a, st.op.b, f.detail) };
        if st.op.k == K::Clone {
            match a.try_clone().map_err(ctxs)? {
                Some(cl) => { cmp_model("fresh clone", &cl.snapshot().map_err(ctxs)?, &ma).map_err(|f| ctxs(Fail { oracle: format!("clone_{}", f.oracle), detail: f.detail }))?; b = Some((cl, ma.clone())); c.note("clones", 1); }
                None => {}
            }
        } else {
            let (s, m) = match b.as_mut() { Some(x) if st.on_b => (&mut x.0, &mut x.1), _ => (&mut a, &mut ma) };
            s.apply(&st.op, m, &mut next, c).map_err(ctxs)?;
        }
        cmp_model("original", &a.snapshot().map_err(ctxs)?, &ma).map_err(ctxs)?;
        if a.sut_len() != ma.len() { return Err(ctxs(bad("len", format!("len() {} want {}", a.sut_len(), ma.len())))); }
        let mut held = ma.len();
        if let Some((sb, mb)) = b.as_ref() { cmp_model("clone", &sb.snapshot().map_err(ctxs)?, mb).map_err(ctxs)?; held += mb.len(); c.ev(mb.len() as u64 + 1); }
        if S::E::TRACKED { live_check(held, "after op").map_err(ctxs)?; }
        c.ev(ma.len() as u64 + 2);
    }
    drop(b);
    if S::E::TRACKED { live_check(ma.len(), "after dropping the clone")?; }
    drop(a);
    if S::E::TRACKED { live_check(0, "after dropping the container")?; }
    Ok(())
}

fn drive_vec<S: VecSut>(c: &mut Case, fam: Fam) -> Res {
    mon::tracked_reset();
    let cfg = c.rng.usize_below(S::NCFG);
    let mut steps = gen_vec_steps(&mut c.rng, S::KINDS, fam, S::fixed_cap(cfg)); steps.truncate(S::MAX_STEPS);
    c.input_str("cfg", &cfg.to_string()); c.input_str("ops", &encode_steps(&steps));
    c.set_nontrivial(steps.len() >= 8);
    S::tags(c, cfg, &steps);
    let r = catch(|| run_vec_steps::<S>(c, cfg, &steps));
    let r = match r { Ok(r) => r, Err(p) => Err(bad(&p.class(), format!("panic at {}: {}", p.loc, p.msg))) };
    r?;
    if S::E::TRACKED { live_check(0, "end of history")?; }
    Ok(())
}

// ---- FastVec ---------------------------------------------------------------------------------
fn must<T, E: std::fmt::Display>(r: Result<T, E>, what: &str) -> Result<T, Fail> { r.map_err(|e| bad("op_err", format!("{what} returned Err on an in-contract call: {e}"))) }

fn fv_common<E: Elem>(v: &mut FastVec<E>, op: &VOp, m: &mut Vec<u64>, next: &mut u64, c: &mut Case) -> Result<bool, Fail> {
    match op.k {
        K::Push => { let id = nid(next); must(v.push(E::mk(id)), "push")?; m.push(E::norm(id)); }
        K::Pop => { let g = v.pop(); let w = m.pop(); match (&g, w) { (None, None) => { c.note("pop_empty", 1); } (Some(t), Some(w)) if t.id() == w && t.ok() => {} _ => return Err(bad("pop", format!("pop returned {:?} want {:?}", g.as_ref().map(|t| t.id()), w))) } }
        K::Insert => { let id = nid(next); let r = v.insert(op.a, E::mk(id)); if op.a <= m.len() { must(r, "insert")?; m.insert(op.a, E::norm(id)); } else { if r.is_ok() { return Err(bad("oob_accepted", format!("insert({}) accepted with len {}", op.a, m.len()))); } c.note("oob_refused", 1); } }
        K::Remove => { let r = v.remove(op.a); if op.a < m.len() { let t = must(r, "remove")?; let w = m.remove(op.a); if t.id() != w || !t.ok() { return Err(bad("remove", format!("remove({}) returned {:#x} want {:#x}", op.a, t.id(), w))); } } else { if r.is_ok() { return Err(bad("oob_accepted", format!("remove({}) accepted with len {}", op.a, m.len()))); } c.note("oob_refused", 1); } }
        K::Resize => { let id = nid(next); must(v.resize(op.a, E::mk(id)), "resize")?; if op.a < m.len() { c.note("resize_shrink", 1); } m.resize(op.a, E::norm(id)); }
        K::ResizeWith => { let mut ids = vec![]; must(v.resize_with(op.a, || { let id = nid(next); ids.push(E::norm(id)); E::mk(id) }), "resize_with")?; if op.a <= m.len() { m.truncate(op.a); } else { m.extend(ids); } }
        K::Extend => { let items: Vec<E> = fresh(op.a, next, Some(m)); must(v.extend(items), "extend")?; }
        K::Clear => { v.clear(); m.clear(); }
        K::Shrink => { must(v.shrink_to_fit(), "shrink_to_fit")?; }
        K::Reserve => { must(v.reserve(op.a), "reserve")?; if v.capacity() < m.len() + op.a { return Err(bad("capacity", format!("capacity {} after reserve({}) with len {}", v.capacity(), op.a, m.len()))); } }
        K::EnsureCap => { must(v.ensure_capacity(m.len() + op.a), "ensure_capacity")?; }
        K::Mutate => { if op.a < m.len() { let id = nid(next); if op.a % 2 == 0 { v.as_mut_slice()[op.a] = E::mk(id); } else { v[op.a] = E::mk(id); } m[op.a] = E::norm(id); } }
        K::Probe => { if !m.is_empty() { let i = m.len() - 1; if v[i].id() != m[i] { return Err(bad("content", format!("index[{i}]"))); } } if v.is_empty() != m.is_empty() { return Err(bad("len", "is_empty".into())); } }
        _ => return Ok(false),
    }
    Ok(true)
}
fn fv_create<E: Elem>(cfg: usize, next: &mut u64) -> Result<(FastVec<E>, Vec<u64>), Fail> {
    Ok(match cfg { 0 => (FastVec::new(), vec![]), 1 => (must(FastVec::with_capacity(1), "with_capacity")?, vec![]), 2 => (must(FastVec::with_capacity(7), "with_capacity")?, vec![]),
        _ => { let id = nid(next); (must(FastVec::with_size(5, E::mk(id)), "with_size")?, vec![E::norm(id); 5]) } })
}
fn fv_clone<E: Elem>(v: &FastVec<E>) -> Result<Option<FastVec<E>>, Fail> { let cl = v.clone(); if !(cl == *v) { return Err(bad("clone_eq", "clone != original".into())); } Ok(Some(cl)) }

const FV_KINDS: &[(K, u32)] = &[(K::Push, 10), (K::Pop, 5), (K::Insert, 5), (K::Remove, 5), (K::Resize, 2), (K::ResizeWith, 2), (K::Extend, 3), (K::Clear, 1), (K::Shrink, 2), (K::Reserve, 1), (K::EnsureCap, 1), (K::Clone, 1), (K::Mutate, 2), (K::Probe, 1)];
impl VecSut for FastVec<Tracked> {
    type E = Tracked; const KINDS: &'static [(K, u32)] = FV_KINDS; const NCFG: usize = 4;
    fn create(cfg: usize, next: &mut u64) -> Result<(Self, Vec<u64>), Fail> { fv_create(cfg, next) }
    fn apply(&mut self, op: &VOp, m: &mut Vec<u64>, next: &mut u64, c: &mut Case) -> Res { if fv_common(self, op, m, next, c)? { Ok(()) } else { Err(bad("driver", format!("unsupported op {:?}", op.k))) } }
    fn snapshot(&self) -> Result<Vec<u64>, Fail> { snap_slice(self.as_slice()) }
    fn sut_len(&self) -> usize { self.len() }
    fn try_clone(&self) -> Result<Option<Self>, Fail> { fv_clone(self) }
}
const FVC_KINDS: &[(K, u32)] = &[(K::Push, 10), (K::Pop, 5), (K::Insert, 5), (K::Remove, 5), (K::Resize, 2), (K::ResizeWith, 1), (K::Extend, 3), (K::Clear, 1), (K::Shrink, 2), (K::Reserve, 1), (K::EnsureCap, 1), (K::Clone, 1), (K::Mutate, 1), (K::Probe, 1), (K::Fill, 3), (K::CopyFrom, 1), (K::ExtendSlice, 4)];
macro_rules! fastvec_copy { ($t:ty) => {
    impl VecSut for FastVec<$t> {
        type E = $t; const KINDS: &'static [(K, u32)] = FVC_KINDS; const NCFG: usize = 4;
        fn create(cfg: usize, next: &mut u64) -> Result<(Self, Vec<u64>), Fail> { fv_create(cfg, next) }
        fn apply(&mut self, op: &VOp, m: &mut Vec<u64>, next: &mut u64, c: &mut Case) -> Res {
            if fv_common(self, op, m, next, c)? { return Ok(()); }
            match op.k {
                K::Fill => { let id = nid(next); let r = self.fill_range_fast(op.a, op.b, <$t>::mk(id)); if op.a <= op.b && op.b <= m.len() { must(r, "fill_range_fast")?; for x in &mut m[op.a..op.b] { *x = <$t>::norm(id); } if (op.b - op.a) * std::mem::size_of::<$t>() >= 64 { c.note("simd_sized", 1); } } else { if r.is_ok() { return Err(bad("oob_accepted", format!("fill_range_fast({},{}) accepted with len {}", op.a, op.b, m.len()))); } c.note("oob_refused", 1); } }
                K::CopyFrom => { let mut mm = vec![]; let src: Vec<$t> = fresh(op.a.max(m.len()).max(1), next, Some(&mut mm)); must(self.copy_from_slice_fast(&src), "copy_from_slice_fast")?; *m = mm; }
                K::ExtendSlice => { let src: Vec<$t> = fresh(op.a, next, Some(m)); must(self.extend_from_slice_fast(&src), "extend_from_slice_fast")?; if op.a * std::mem::size_of::<$t>() >= 64 { c.note("simd_sized", 1); } }
                _ => return Err(bad("driver", format!("unsupported op {:?}", op.k))),
            }
            Ok(())
        }
        fn snapshot(&self) -> Result<Vec<u64>, Fail> { snap_slice(self.as_slice()) }
        fn sut_len(&self) -> usize { self.len() }
        fn try_clone(&self) -> Result<Option<Self>, Fail> { fv_clone(self) }
    }
} }
fastvec_copy!(u64);
fastvec_copy!(u8);

// ---- ValVec32 --------------------------------------------------------------------------------
fn vv_common<E: Elem>(v: &mut ValVec32<E>, op: &VOp, m: &mut Vec<u64>, next: &mut u64, c: &mut Case) -> Result<bool, Fail> {
    match op.k {
        K::Push => { let id = nid(next); if id % 3 == 0 { v.push_panic(E::mk(id)); } else { must(v.push(E::mk(id)), "push")?; } m.push(E::norm(id)); }
        K::Pop => { let g = v.pop(); let w = m.pop(); match (&g, w) { (None, None) => { c.note("pop_empty", 1); } (Some(t), Some(w)) if t.id() == w && t.ok() => {} _ => return Err(bad("pop", format!("pop returned {:?} want {:?}", g.as_ref().map(|t| t.id()), w))) } }
        K::Set => { let id = nid(next); let r = v.set(op.a as u32, E::mk(id)); if op.a < m.len() { must(r, "set")?; m[op.a] = E::norm(id); } else { if r.is_ok() { return Err(bad("oob_accepted", format!("set({}) accepted with len {}", op.a, m.len()))); } c.note("oob_refused", 1); } }
        K::Mutate => { if op.a < m.len() { let id = nid(next); if op.a % 2 == 0 { *v.get_mut(op.a as u32).ok_or_else(|| bad("get", "get_mut in range returned None".into()))? = E::mk(id); } else { v[op.a] = E::mk(id); } m[op.a] = E::norm(id); } }
        K::Extend => { let items: Vec<E> = fresh(op.a, next, None); must(v.extend_from_slice(&items), "extend_from_slice")?; m.extend(items.iter().map(|t| t.id())); }
        K::Clear => { v.clear(); m.clear(); }
        K::Reserve => { must(v.reserve(op.a as u32), "reserve")?; if (v.capacity() as usize) < m.len() + op.a { return Err(bad("capacity", format!("capacity {} after reserve({}) with len {}", v.capacity(), op.a, m.len()))); } }
        K::Probe => {
            let n = m.len();
            if v.get(n as u32).is_some() || v.get(u32::MAX).is_some() || v.get_mut(n as u32).is_some() { return Err(bad("oob_accepted", format!("get({n}) with len {n} returned Some"))); }
            for i in 0..n { match v.get(i as u32) { Some(t) if t.id() == m[i] => {} _ => return Err(bad("get", format!("get({i}) wrong"))) } }
            let it: Vec<u64> = v.iter().map(|t| t.id()).collect(); cmp_model("iter", &it, m)?;
            if n > 0 && v[(n - 1) as u32].id() != m[n - 1] { return Err(bad("content", "index".into())); }
            if v.is_empty() != m.is_empty() || v.len_usize() != n { return Err(bad("len", "is_empty/len_usize".into())); }
            c.note("oob_refused", 1);
        }
        _ => return Ok(false),
    }
    Ok(true)
}
fn vv_create<E: Elem>(cfg: usize) -> Result<(ValVec32<E>, Vec<u64>), Fail> {
    Ok((match cfg { 0 => ValVec32::new(), 1 => must(ValVec32::with_capacity(1), "with_capacity")?, 2 => must(ValVec32::with_capacity(10), "with_capacity")?, _ => must(ValVec32::with_capacity(100), "with_capacity")? }, vec![]))
}
fn vv_clone<E: Elem>(v: &ValVec32<E>) -> Result<Option<ValVec32<E>>, Fail> { let cl = v.clone(); if !(cl == *v) { return Err(bad("clone_eq", "clone != original".into())); } Ok(Some(cl)) }
const VV_KINDS: &[(K, u32)] = &[(K::Push, 12), (K::Pop, 6), (K::Set, 2), (K::Mutate, 2), (K::Extend, 3), (K::Clear, 1), (K::Reserve, 2), (K::Clone, 1), (K::Probe, 2)];
const VV_KINDS_NOSET: &[(K, u32)] = &[(K::Push, 12), (K::Pop, 6), (K::Mutate, 3), (K::Extend, 3), (K::Clear, 1), (K::Reserve, 2), (K::Clone, 1), (K::Probe, 2)];
impl VecSut for ValVec32<Tracked> {
    type E = Tracked; const KINDS: &'static [(K, u32)] = VV_KINDS; const NCFG: usize = 4;
    fn create(cfg: usize, _next: &mut u64) -> Result<(Self, Vec<u64>), Fail> { vv_create(cfg) }
    fn apply(&mut self, op: &VOp, m: &mut Vec<u64>, next: &mut u64, c: &mut Case) -> Res { if vv_common(self, op, m, next, c)? { Ok(()) } else { Err(bad("driver", format!("unsupported op {:?}", op.k))) } }
    fn snapshot(&self) -> Result<Vec<u64>, Fail> { snap_slice(self.as_slice()) }
    fn sut_len(&self) -> usize { self.len() as usize }
    fn try_clone(&self) -> Result<Option<Self>, Fail> { vv_clone(self) }
    // root cause of the known leak: ValVec32::set overwrites the slot without dropping the old value
    fn tags(c: &mut Case, _cfg: usize, steps: &[Step]) { if steps.iter().any(|s| s.op.k == K::Set) { c.tag("vv32_set_nondrop_elem"); } }
}
/// Same container, histories without `set` (so that everything else is still checked despite the `set` leak).
pub struct VvNoSet(ValVec32<Tracked>);
impl VecSut for VvNoSet {
    type E = Tracked; const KINDS: &'static [(K, u32)] = VV_KINDS_NOSET; const NCFG: usize = 4;
    fn create(cfg: usize, _next: &mut u64) -> Result<(Self, Vec<u64>), Fail> { vv_create(cfg).map(|(v, m)| (VvNoSet(v), m)) }
    fn apply(&mut self, op: &VOp, m: &mut Vec<u64>, next: &mut u64, c: &mut Case) -> Res { if vv_common(&mut self.0, op, m, next, c)? { Ok(()) } else { Err(bad("driver", format!("unsupported op {:?}", op.k))) } }
    fn snapshot(&self) -> Result<Vec<u64>, Fail> { snap_slice(self.0.as_slice()) }
    fn sut_len(&self) -> usize { self.0.len() as usize }
    fn try_clone(&self) -> Result<Option<Self>, Fail> { Ok(vv_clone(&self.0)?.map(VvNoSet)) }
}
const VVC_KINDS: &[(K, u32)] = &[(K::Push, 12), (K::Pop, 6), (K::Set, 2), (K::Mutate, 1), (K::Extend, 2), (K::Clear, 1), (K::Reserve, 2), (K::Clone, 1), (K::Probe, 2), (K::ExtendSlice, 4), (K::PushN, 4)];
impl VecSut for ValVec32<u64> {
    type E = u64; const KINDS: &'static [(K, u32)] = VVC_KINDS; const NCFG: usize = 4;
    fn create(cfg: usize, _next: &mut u64) -> Result<(Self, Vec<u64>), Fail> { vv_create(cfg) }
    fn apply(&mut self, op: &VOp, m: &mut Vec<u64>, next: &mut u64, c: &mut Case) -> Res {
        if vv_common(self, op, m, next, c)? { return Ok(()); }
        match op.k {
            K::ExtendSlice => { let src: Vec<u64> = fresh(op.a, next, Some(m)); must(self.extend_from_slice_copy(&src), "extend_from_slice_copy")?; }
            K::PushN => { let n = if op.a % 3 == 0 { op.a * 3 } else { op.a }; let id = nid(next); must(self.push_n_copy(n as u32, u64::mk(id)), "push_n_copy")?; for _ in 0..n { m.push(u64::norm(id)); } if n > 16 { c.note("push_n_doubling", 1); } }
            _ => return Err(bad("driver", format!("unsupported op {:?}", op.k))),
        }
        Ok(())
    }
    fn snapshot(&self) -> Result<Vec<u64>, Fail> { snap_slice(self.as_slice()) }
    fn sut_len(&self) -> usize { self.len() as usize }
    fn try_clone(&self) -> Result<Option<Self>, Fail> { vv_clone(self) }
}

// ---- CacheAlignedVec -------------------------------------------------------------------------
const CV_KINDS: &[(K, u32)] = &[(K::Push, 12), (K::Pop, 6), (K::Truncate, 3), (K::Mutate, 2), (K::Clear, 1), (K::Reserve, 2), (K::Probe, 2)];
impl VecSut for CacheAlignedVec<Tracked> {
    type E = Tracked; const KINDS: &'static [(K, u32)] = CV_KINDS; const NCFG: usize = 3;
    // with_numa_node avoids the /sys probe (file I/O) of CacheAlignedVec::new()
    fn create(cfg: usize, _next: &mut u64) -> Result<(Self, Vec<u64>), Fail> { Ok((match cfg { 0 => CacheAlignedVec::with_numa_node(0), 1 => { let mut v = CacheAlignedVec::with_numa_node(0); must(v.reserve(3), "reserve")?; v } _ => if cfg!(miri) { CacheAlignedVec::with_numa_node(0) } else { must(CacheAlignedVec::with_capacity(9), "with_capacity")? } }, vec![])) }
    fn apply(&mut self, op: &VOp, m: &mut Vec<u64>, next: &mut u64, c: &mut Case) -> Res {
        match op.k {
            K::Push => { let id = nid(next); must(self.push(Tracked::mk(id)), "push")?; m.push(id); }
            K::Pop => { let g = self.pop(); let w = m.pop(); match (&g, w) { (None, None) => { c.note("pop_empty", 1); } (Some(t), Some(w)) if t.id == w && t.ok() => {} _ => return Err(bad("pop", format!("pop returned {:?} want {:?}", g.as_ref().map(|t| t.id), w))) } }
            K::Truncate => { self.truncate(op.a); m.truncate(op.a); }
            K::Mutate => { if op.a < m.len() { let id = nid(next); *self.get_mut(op.a).ok_or_else(|| bad("get", "get_mut in range returned None".into()))? = Tracked::mk(id); m[op.a] = id; } }
            K::Clear => { self.clear(); m.clear(); }
            K::Reserve => { must(self.reserve(op.a), "reserve")?; if self.capacity() < m.len() + op.a { return Err(bad("capacity", format!("capacity {} after reserve({}) len {}", self.capacity(), op.a, m.len()))); } }
            K::Probe => { let n = m.len(); if self.get(n).is_some() || self.get(usize::MAX).is_some() || self.get_mut(n).is_some() { return Err(bad("oob_accepted", format!("get({n}) with len {n} returned Some"))); } for i in 0..n { match self.get(i) { Some(t) if t.id == m[i] => {} _ => return Err(bad("get", format!("get({i}) wrong"))) } } if self.is_empty() != m.is_empty() { return Err(bad("len", "is_empty".into())); } c.note("oob_refused", 1); }
            _ => return Err(bad("driver", format!("unsupported op {:?}", op.k))),
        }
        Ok(())
    }
    fn snapshot(&self) -> Result<Vec<u64>, Fail> { snap_slice(self.as_slice()) }
    fn sut_len(&self) -> usize { self.len() }
}

// ---- MmapVec (Copy elements, file backed: never in the micro family) --------------------------
pub struct Mv<T: Elem + Copy> { v: MmapVec<T>, dir: std::sync::Arc<tempfile::TempDir>, seq: usize }
fn mv_config(cfg: usize) -> MmapVecConfig {
    let b = MmapVecConfig::builder();
    match cfg { 0 => b.with_initial_capacity(0).build(), 1 => b.with_initial_capacity(1).with_growth_factor(1.0).build(), 2 => b.with_initial_capacity(5).with_growth_factor(1.5).build(),
        3 => b.with_initial_capacity(16).with_growth_factor(2.0).with_sync_on_write(true).build(), _ => b.with_initial_capacity(64).build() }
}
const MV_KINDS: &[(K, u32)] = &[(K::Push, 12), (K::Pop, 6), (K::Clear, 1), (K::Reserve, 2), (K::Shrink, 2), (K::Extend, 3), (K::Truncate, 2), (K::Resize, 3), (K::Mutate, 2), (K::ExtendSlice, 4), (K::PopBulk, 3), (K::Fill, 3), (K::Clone, 1), (K::Probe, 2)];
macro_rules! mmapvec_impl { ($t:ty) => {
    impl VecSut for Mv<$t> {
        type E = $t; const KINDS: &'static [(K, u32)] = MV_KINDS; const NCFG: usize = 5; const MAX_STEPS: usize = 160;
        fn create(cfg: usize, _next: &mut u64) -> Result<(Self, Vec<u64>), Fail> {
            let dir = std::sync::Arc::new(tempfile::tempdir().map_err(|e| bad("__inconclusive", format!("tempdir: {e}")))?);
            let v = must(MmapVec::<$t>::create(dir.path().join("a.mv"), mv_config(cfg)), "MmapVec::create")?;
            Ok((Mv { v, dir, seq: cfg }, vec![]))
        }
        fn apply(&mut self, op: &VOp, m: &mut Vec<u64>, next: &mut u64, c: &mut Case) -> Res {
            let v = &mut self.v;
            match op.k {
                K::Push => { let id = nid(next); must(v.push(<$t>::mk(id)), "push")?; m.push(<$t>::norm(id)); }
                K::Pop => { let g = v.pop(); let w = m.pop(); if g.map(|t| t.id()) != w { return Err(bad("pop", format!("pop returned {:?} want {:?}", g.map(|t| t.id()), w))); } if w.is_none() { c.note("pop_empty", 1); } }
                K::Clear => { must(v.clear(), "clear")?; m.clear(); }
                K::Reserve => { must(v.reserve(op.a), "reserve")?; if v.capacity() < m.len() + op.a { return Err(bad("capacity", format!("capacity {} after reserve({}) len {}", v.capacity(), op.a, m.len()))); } }
                K::Shrink => { must(v.shrink_to_fit(), "shrink_to_fit")?; }
                K::Extend => { let items: Vec<$t> = fresh(op.a, next, Some(m)); must(v.extend(items.into_iter()), "extend")?; }
                K::Truncate => { must(v.truncate(op.a), "truncate")?; m.truncate(op.a); }
                K::Resize => { let id = nid(next); must(v.resize(op.a, <$t>::mk(id)), "resize")?; m.resize(op.a, <$t>::norm(id)); }
                K::Mutate => { if op.a < m.len() { let id = nid(next); *v.get_mut(op.a).ok_or_else(|| bad("get", "get_mut in range returned None".into()))? = <$t>::mk(id); m[op.a] = <$t>::norm(id); } }
                K::ExtendSlice => { let src: Vec<$t> = fresh(op.a, next, Some(m)); must(v.push_bulk_simd(&src), "push_bulk_simd")?; if op.a * std::mem::size_of::<$t>() >= 64 { c.note("simd_sized", 1); } }
                K::PopBulk => { let r = v.pop_bulk_simd(op.a); if op.a <= m.len() { let got = must(r, "pop_bulk_simd")?; let want = m.split_off(m.len() - op.a); cmp_model("pop_bulk_simd result", &got.iter().map(|t| t.id()).collect::<Vec<_>>(), &want)?; } else { if r.is_ok() { return Err(bad("oob_accepted", format!("pop_bulk_simd({}) accepted with len {}", op.a, m.len()))); } c.note("oob_refused", 1); } }
                K::Fill => { let id = nid(next); let r = v.fill_range_simd(op.a..op.b, <$t>::mk(id)); if op.b <= m.len() { must(r, "fill_range_simd")?; if op.a < op.b { for x in &mut m[op.a..op.b] { *x = <$t>::norm(id); } } } else { if r.is_ok() { return Err(bad("oob_accepted", format!("fill_range_simd({}..{}) accepted with len {}", op.a, op.b, m.len()))); } c.note("oob_refused", 1); } }
                K::Probe => { let n = m.len(); if v.get(n).is_some() || v.get(usize::MAX).is_some() || v.get_mut(n).is_some() { return Err(bad("oob_accepted", format!("get({n}) with len {n} returned Some"))); } for i in 0..n { if v.get(i).map(|t| t.id()) != Some(m[i]) { return Err(bad("get", format!("get({i}) wrong"))); } }
                    let it: Vec<u64> = (&*v).into_iter().map(|t| t.id()).collect(); cmp_model("iter", &it, m)?; if v.is_empty() != m.is_empty() { return Err(bad("len", "is_empty".into())); } c.note("oob_refused", 1); }
                _ => return Err(bad("driver", format!("unsupported op {:?}", op.k))),
            }
            Ok(())
        }
        fn snapshot(&self) -> Result<Vec<u64>, Fail> { snap_slice(self.v.as_slice()) }
        fn sut_len(&self) -> usize { self.v.len() }
        /// MmapVec has no Clone; copy_from_simd into a second file-backed vector is its copy facility
        fn try_clone(&self) -> Result<Option<Self>, Fail> {
            let seq = self.seq + 7;
            let mut v = must(MmapVec::<$t>::create(self.dir.path().join(format!("c{seq}.mv")), mv_config(seq % 5)), "MmapVec::create")?;
            if seq % 2 == 0 { for i in 0..(seq % 40) { must(v.push(<$t>::mk(i as u64 + 1000)), "push")?; } }
            must(v.copy_from_simd(&self.v), "copy_from_simd")?;
            let n = self.v.len().min(v.len());
            if n > 0 { match v.compare_range_simd(0..n, &self.v) { Ok(true) => {} o => return Err(bad("clone_eq", format!("compare_range_simd(0..{n}) of a fresh copy = {o:?}"))) } }
            Ok(Some(Mv { v, dir: self.dir.clone(), seq }))
        }
    }
} }
mmapvec_impl!(u64);
mmapvec_impl!(u8);

// ---- BumpVec / PooledVec (fixed capacity, push/pop only) ---------------------------------------
fn drive_bumpvec(c: &mut Case, micro: bool) -> Res {
    mon::tracked_reset();
    let cap_a = c.rng.urange(1, 24); let cap_b = c.rng.urange(1, 24); let pad = c.rng.usize_below(3);
    let n_ops = if micro { c.rng.urange(30, 150) } else { c.rng.urange(60, 400) };
    let ops: Vec<u8> = (0..n_ops).map(|_| c.rng.below(8) as u8).collect();
    c.input_str("caps", &format!("{cap_a},{cap_b},{pad}")); c.input("ops", &ops); c.set_nontrivial(true);
    let r = catch(|| -> Res {
        let arena = must(BumpAllocator::new(4096), "BumpAllocator::new")?;
        for _ in 0..pad { must(arena.alloc::<u8>(), "alloc")?; }
        let mut a: BumpVec<Tracked> = must(BumpVec::new_in(&arena, cap_a), "BumpVec::new_in")?;
        let mut b: BumpVec<Tracked> = must(BumpVec::new_in(&arena, cap_b), "BumpVec::new_in")?;
        if BumpVec::<Tracked>::new_in(&arena, 0).is_ok() { return Err(bad("ctor", "capacity 0 accepted although documented as an error".into())); }
        let (mut ma, mut mb): (Vec<u64>, Vec<u64>) = (vec![], vec![]); let mut next = 1u64;
        for (i, &o) in ops.iter().enumerate() {
            let (v, m, cap) = if o & 1 == 0 { (&mut a, &mut ma, cap_a) } else { (&mut b, &mut mb, cap_b) };
            if o < 5 { let id = nid(&mut next); let r = v.push(Tracked::new(id)); if m.len() < cap { must(r, "push")?; m.push(id); } else { if r.is_ok() { return Err(bad("full_accepted", format!("step {i}: push accepted at len {} == capacity", m.len()))); } c.note("full_refused", 1); } }
            else { let g = v.pop().map(|t| t.id); let w = m.pop(); if g != w { return Err(bad("pop", format!("step {i}: pop {g:?} want {w:?}"))); } if w.is_none() { c.note("pop_empty", 1); } }
            cmp_model("a", &snap_slice(a.as_slice())?, &ma)?; cmp_model("b", &snap_slice(b.as_slice())?, &mb)?;
            if a.len() != ma.len() || b.len() != mb.len() || a.is_empty() != ma.is_empty() || a.capacity() != cap_a { return Err(bad("len", format!("step {i}: len/capacity"))); }
            live_check(ma.len() + mb.len(), "after op")?; c.ev((ma.len() + mb.len() + 2) as u64);
        }
        drop(a); live_check(mb.len(), "after dropping a")?; drop(b); live_check(0, "after dropping b")
    });
    match r { Ok(r) => r, Err(p) => Err(bad(&p.class(), format!("panic at {}: {}", p.loc, p.msg))) }
}

fn drive_pooledvec(c: &mut Case, micro: bool) -> Res {
    mon::tracked_reset();
    let n_ops = if micro { c.rng.urange(30, 120) } else { c.rng.urange(40, 160) };
    let ops: Vec<u8> = (0..n_ops).map(|_| c.rng.below(8) as u8).collect();
    c.input("ops", &ops); c.set_nontrivial(true);
    let r = catch(|| -> Res {
        let mut vs: Vec<(PooledVec<Tracked>, Vec<u64>)> = vec![]; let mut next = 1u64;
        for _ in 0..2 { vs.push((must(PooledVec::new(), "PooledVec::new")?, vec![])); }
        for (i, &o) in ops.iter().enumerate() {
            if o == 7 { if vs.len() > 1 { let k = i % vs.len(); vs.remove(k); } else { vs.push((must(PooledVec::new(), "PooledVec::new")?, vec![])); } }
            else if o == 6 && vs.len() < 4 { vs.push((must(PooledVec::new(), "PooledVec::new")?, vec![])); }
            else { let k = (o as usize) % vs.len(); let (v, m) = &mut vs[k]; let cap = v.capacity(); let id = nid(&mut next); let r = v.push(Tracked::new(id));
                if m.len() < cap { must(r, "push")?; m.push(id); } else { if r.is_ok() { return Err(bad("full_accepted", format!("step {i}: push accepted at len == capacity {cap}"))); } c.note("full_refused", 1); } }
            let mut held = 0; for (v, m) in &vs { cmp_model("pooled", &snap_slice(v.as_slice())?, m)?; if v.len() != m.len() || v.is_empty() != m.is_empty() { return Err(bad("len", format!("step {i}"))); } held += m.len(); }
            live_check(held, "after op")?; c.ev(held as u64 + 1);
        }
        // fill one vector completely: the capacity-exceeding push must be refused
        let (v, m) = &mut vs[0]; let cap = v.capacity(); while m.len() < cap { let id = nid(&mut next); must(v.push(Tracked::new(id)), "push")?; m.push(id); }
        if v.push(Tracked::new(0)).is_ok() { return Err(bad("full_accepted", format!("push accepted at len == capacity {cap}"))); } c.note("full_refused", 1);
        cmp_model("pooled full", &snap_slice(v.as_slice())?, m)?;
        vs.clear(); live_check(0, "after dropping all")
    });
    match r { Ok(r) => r, Err(p) => Err(bad(&p.class(), format!("panic at {}: {}", p.loc, p.msg))) }
}

// ---------------------------------------------------------------------------------------------
// queues
// ---------------------------------------------------------------------------------------------
#[derive(Clone, Copy, Debug, PartialEq, Eq)]
pub enum Q { Push, Pop, PushBulk(usize), PopBulk(usize), Reserve(usize), Clear, Clone, Deep }
#[derive(Clone, Copy, Debug)]
pub struct QStep { on_b: bool, op: Q }
fn encode_q(s: &[QStep]) -> String {
    let mut o = String::new();
    for st in s { if st.on_b { o.push('b'); } match st.op { Q::Push => o.push('+'), Q::Pop => o.push('-'), Q::PushBulk(k) => o.push_str(&format!("B{k}")), Q::PopBulk(k) => o.push_str(&format!("P{k}")), Q::Reserve(k) => o.push_str(&format!("R{k}")), Q::Clear => o.push('C'), Q::Clone => o.push_str("CL"), Q::Deep => o.push('D') } o.push(' '); }
    o
}
/// capacity policy of AutoGrowCircularQueue as documented (power of two; push_back grows at len == cap-1;
/// reserve/push_bulk grow only when len+k > cap) — used only to compute the input-only tag `autoq_exact_full`.
fn agq_pow2(n: usize) -> usize { if n == 0 { 4 } else { n.next_power_of_two() } }
struct AgqModel { cap: usize, len: usize }
impl AgqModel {
    fn new(c0: usize) -> Self { AgqModel { cap: agq_pow2(c0), len: 0 } }
    fn push(&mut self) { if self.len + 1 >= self.cap { if self.cap * 2 > self.cap { self.cap = (self.cap * 2).max(4); } } self.len += 1; }
    fn reserve(&mut self, k: usize) { if self.len + k > self.cap { self.cap = agq_pow2(self.len + k); } }
    fn full(&self) -> bool { self.len == self.cap }
}
fn random_q_ops(r: &mut Rng, n: usize, max_len: usize, out: &mut Vec<QStep>, has_b: &mut bool, la: &mut usize, lb: &mut usize, allow_clone: bool) {
    let phase_len = r.urange(5, 40); let mut pushy = true;
    for i in 0..n {
        if i % phase_len == 0 { pushy = r.chance(3, 5); }
        let on_b = *has_b && r.bool(); let len = if on_b { *lb } else { *la };
        let x = r.below(100);
        let op = if len > max_len { if r.bool() { Q::Pop } else { Q::PopBulk(r.urange(1, len)) } }
            else if x < if pushy { 45 } else { 25 } { Q::Push } else if x < 65 { Q::Pop }
            else if x < 75 { Q::PushBulk(match r.below(4) { 0 => 0, 1 => 1, _ => r.urange(2, 20) }) }
            else if x < 85 { Q::PopBulk(match r.below(5) { 0 => 0, 1 => len, 2 => len + 2, _ => r.usize_below(len + 1) }) }
            else if x < 90 { Q::Reserve(r.usize_below(20)) } else if x < 92 { Q::Clear } else if x < 95 && allow_clone { Q::Clone } else { Q::Deep };
        let nl = match op { Q::Push => len + 1, Q::Pop => len.saturating_sub(1), Q::PushBulk(k) => len + k, Q::PopBulk(k) => len - k.min(len), Q::Clear => 0, _ => len };
        if op == Q::Clone { *has_b = true; *lb = *la; } else if on_b { *lb = nl; } else { *la = nl; }
        out.push(QStep { on_b, op });
    }
}

struct AQ { q: AutoGrowCircularQueue<Tracked>, m: VecDeque<u64> }
fn aq_deep(x: &AQ, c: &mut Case) -> Res {
    // whole-content observation: the queue has no iterator, so clone it and drain the clone
    let mut cl = x.q.clone();
    if cl.len() != x.m.len() { return Err(bad("clone_len", format!("clone has len {} want {} (capacity {})", cl.len(), x.m.len(), x.q.capacity()))); }
    if !(cl == x.q) { return Err(bad("clone_eq", "clone != original".into())); }
    for (i, &w) in x.m.iter().enumerate() { match cl.pop_front() { Some(t) if t.id == w && t.intact() => {} o => return Err(bad("clone_content", format!("clone element {i} is {:?} want {w}", o.map(|t| t.id)))) } }
    if cl.pop_front().is_some() { return Err(bad("clone_len", "clone holds extra elements".into())); }
    c.ev(x.m.len() as u64 + 1); c.note("deep_checks", 1);
    Ok(())
}
fn aq_observe(x: &AQ) -> Res {
    if x.q.len() != x.m.len() || x.q.is_empty() != x.m.is_empty() { return Err(bad("len", format!("len {} want {}", x.q.len(), x.m.len()))); }
    let f = x.q.front(); if f.map(|t| t.id) != x.m.front().copied() || f.map_or(false, |t| !t.intact()) { return Err(bad("front", format!("front {:?} want {:?}", f.map(|t| t.id), x.m.front()))); }
    let b = x.q.back(); if b.map(|t| t.id) != x.m.back().copied() || b.map_or(false, |t| !t.intact()) { return Err(bad("back", format!("back {:?} want {:?}", b.map(|t| t.id), x.m.back()))); }
    if x.q.capacity() < x.q.len() { return Err(bad("capacity", format!("capacity {} < len {}", x.q.capacity(), x.q.len()))); }
    Ok(())
}
fn aq_apply(x: &mut AQ, op: Q, next: &mut u64, c: &mut Case) -> Res {
    match op {
        Q::Push => { let id = nid(next); must(x.q.push_back(Tracked::new(id)), "push_back")?; x.m.push_back(id); }
        Q::Pop => { let g = x.q.pop_front(); let w = x.m.pop_front(); match (&g, w) { (None, None) => { c.note("pop_empty", 1); } (Some(t), Some(w)) if t.id == w && t.intact() => {} _ => return Err(bad("pop_front", format!("pop_front {:?} want {w:?}", g.as_ref().map(|t| t.id)))) } }
        Q::PushBulk(k) => { let wrapped_before = { let s = x.q.performance_stats(); s.length > 0 && s.head_index >= s.tail_index }; let items: Vec<Tracked> = (0..k).map(|_| Tracked::new(nid(next))).collect(); let n = must(x.q.push_bulk(&items), "push_bulk")?; if n != k { return Err(bad("push_bulk", format!("push_bulk returned {n} want {k}"))); } x.m.extend(items.iter().map(|t| t.id)); if wrapped_before && k > 0 { c.note("bulk_push_while_wrapped", 1); } }
        Q::PopBulk(k) => { let s = x.q.performance_stats(); let mut out: Vec<Tracked> = (0..k).map(|_| Tracked::new(0)).collect(); let n = x.q.pop_bulk(&mut out); let want = k.min(x.m.len()); if n != want { return Err(bad("pop_bulk", format!("pop_bulk returned {n} want {want}"))); }
            if want > 0 && s.head_index + want > s.capacity { c.note("bulk_pop_straddles_wrap", 1); }
            for i in 0..n { let w = x.m.pop_front().unwrap(); if out[i].id != w || !out[i].intact() { return Err(bad("pop_bulk", format!("pop_bulk output[{i}] = {} want {w}", out[i].id))); } } for t in &out[n..] { if t.id != 0 || !t.intact() { return Err(bad("pop_bulk", "untouched output slot modified".into())); } } }
        Q::Reserve(k) => { must(x.q.reserve(k), "reserve")?; if x.q.capacity() < x.m.len() + k { return Err(bad("capacity", format!("capacity {} after reserve({k}) len {}", x.q.capacity(), x.m.len()))); } }
        Q::Clear => { x.q.clear(); x.m.clear(); }
        Q::Deep => aq_deep(x, c)?,
        Q::Clone => unreachable!(),
    }
    Ok(())
}
fn run_autoq(c: &mut Case, cap0: usize, steps: &[QStep]) -> Res {
    let mut next = 1u64;
    let mut a = AQ { q: if cap0 == usize::MAX { AutoGrowCircularQueue::new() } else { AutoGrowCircularQueue::with_capacity(cap0) }, m: VecDeque::new() };
    let mut b: Option<AQ> = None;
    let mut last_cap = a.q.capacity();
    for (i, st) in steps.iter().enumerate() {
        let ctxs = |f: Fail| Fail { oracle: f.oracle, detail: format!("step {i} {}{:?}: {}", if st.on_b { "clone." } else { "" }, st.op, f.detail) };
        if st.op == Q::Clone { aq_deep(&a, c).map_err(ctxs)?; b = Some(AQ { q: a.q.clone(), m: a.m.clone() }); c.note("clones", 1); }
        else { let x = match b.as_mut() { Some(x) if st.on_b => x, _ => &mut a };
            let s0 = x.q.performance_stats();
            aq_apply(x, st.op, &mut next, c).map_err(ctxs)?;
            if !st.on_b && x.q.capacity() != last_cap { last_cap = x.q.capacity(); c.note("growths", 1); if s0.length > 0 && s0.head_index >= s0.tail_index { c.note("growth_while_wrapped", 1); } }
            if matches!(st.op, Q::PushBulk(_) | Q::Reserve(_)) && x.q.len() <= 64 && i % 2 == 0 { aq_deep(x, c).map_err(ctxs)?; } }
        aq_observe(&a).map_err(ctxs)?; let mut held = a.m.len();
        if let Some(xb) = b.as_ref() { aq_observe(xb).map_err(ctxs)?; held += xb.m.len(); }
        live_check(held, "after op").map_err(ctxs)?; c.ev(6);
    }
    // end of history: whole content through the queue's own pops
    if let Some(mut xb) = b.take() { aq_deep(&xb, c)?; if c.rng.bool() { xb.q.clear(); xb.m.clear(); live_check(a.m.len(), "after clear of the clone")?; } drop(xb); live_check(a.m.len(), "after dropping the clone")?; }
    aq_deep(&a, c)?;
    let keep = c.rng.usize_below(a.m.len() + 1);
    while a.m.len() > keep { let w = a.m.pop_front().unwrap(); match a.q.pop_front() { Some(t) if t.id == w && t.intact() => {} o => return Err(bad("drain", format!("final drain got {:?} want {w}", o.map(|t| t.id)))) } c.ev(1); }
    live_check(a.m.len(), "after partial drain")?;
    drop(a); live_check(0, "after dropping the queue")
}
fn autoq_caps() -> &'static [usize] { &[usize::MAX, 0, 1, 2, 3, 4, 5, 8, 16, 17, 64] }
/// directed prefixes: (initial capacity, head offset, variant)
fn autoq_directed(idx: u64) -> (usize, usize, usize) {
    let mut combos = vec![]; for cap0 in [2usize, 4, 8, 16] { for h in 0..cap0 { for v in 0..4 { combos.push((cap0, h, v)); } } }
    combos[(idx as usize) % combos.len()]
}
/// input-only tag: does the history ever fill a queue to exactly its capacity (only bulk pushes can)?
fn autoq_tag(c: &mut Case, cap0: usize, steps: &[QStep]) {
    let mk = |c0: usize| AgqModel::new(if c0 == usize::MAX { 4 } else { c0 }); let mut ma = mk(cap0); let mut mb: Option<AgqModel> = None; let mut full = false;
    for st in steps { if st.op == Q::Clone { let mut n = AgqModel { cap: ma.cap, len: 0 }; for _ in 0..ma.len { n.push(); } mb = Some(n); continue; }
        let m = match mb.as_mut() { Some(m) if st.on_b => m, _ => &mut ma };
        match st.op { Q::Push => m.push(), Q::Pop => m.len = m.len.saturating_sub(1), Q::PushBulk(k) => { if k > 0 { m.reserve(k); m.len += k; } } Q::PopBulk(k) => m.len -= k.min(m.len), Q::Reserve(k) => m.reserve(k), Q::Clear => m.len = 0, _ => {} }
        if m.len > 0 && m.full() { full = true; } }
    if full { c.tag("autoq_exact_full"); }
}
fn drive_autoq(c: &mut Case, fam: &str, idx: u64) -> Res {
    mon::tracked_reset();
    let mut steps: Vec<QStep> = vec![]; let (mut has_b, mut la, mut lb) = (false, 0usize, 0usize);
    let cap0;
    let p = |op: Q| QStep { on_b: false, op };
    match fam {
        "wrap_grow" => {
            let (c0, h, v) = autoq_directed(idx); cap0 = c0;
            // move head to offset h (queue empty, head == tail == h), then fill so that the content wraps
            for _ in 0..h { steps.push(p(Q::Push)); steps.push(p(Q::Pop)); }
            let usable = c0 - 1; // push_back keeps one slot free
            match v {
                0 => { for _ in 0..(2 * c0 + 3) { steps.push(p(Q::Push)); } }                                   // growth by push_back (twice)
                1 => { let pre = c.rng.usize_below(usable + 1); for _ in 0..pre { steps.push(p(Q::Push)); } steps.push(p(Q::PushBulk(c0 + 1 + c.rng.usize_below(c0)))); } // growth by push_bulk
                2 => { let pre = c.rng.usize_below(usable + 1); for _ in 0..pre { steps.push(p(Q::Push)); } steps.push(p(Q::PushBulk(c0 - pre)));                   // bulk fill to exactly capacity
                       steps.push(p(*c.rng.pick(&[Q::Deep, Q::Clear, Q::Push, Q::Pop, Q::PopBulk(3), Q::Clone, Q::Reserve(1)]))); }
                _ => { let pre = c.rng.usize_below(usable + 1); for _ in 0..pre { steps.push(p(Q::Push)); } steps.push(p(Q::Reserve(c0 - pre + 1 + c.rng.usize_below(3)))); for _ in 0..c0 { steps.push(p(Q::Push)); } } // growth by reserve
            }
            la = steps.iter().fold(0usize, |l, s| match s.op { Q::Push => l + 1, Q::Pop => l.saturating_sub(1), Q::PushBulk(k) => l + k, Q::PopBulk(k) => l - k.min(l), Q::Clear => 0, _ => l });
            if steps.iter().any(|s| s.op == Q::Clone) { has_b = true; lb = la; }
            steps.push(p(Q::Deep));
            let n = c.rng.urange(10, 60); random_q_ops(&mut c.rng, n, 80, &mut steps, &mut has_b, &mut la, &mut lb, true);
        }
        "bulk_straddle" => {
            cap0 = *c.rng.pick(&[8usize, 16, 32]);
            // head near the end of the buffer, then bulk pushes / pops that cross the wrap point without growth
            let h = cap0 - 1 - c.rng.usize_below(3.min(cap0 - 1));
            for _ in 0..h { steps.push(p(Q::Push)); steps.push(p(Q::Pop)); }
            for _ in 0..c.rng.urange(2, 8) { let k = c.rng.urange(2, cap0 - 2); steps.push(p(Q::PushBulk(k))); steps.push(p(Q::Deep)); let j = c.rng.urange(1, k); steps.push(p(Q::PopBulk(j))); steps.push(p(Q::PopBulk(k - j + c.rng.usize_below(2)))); }
            let n = c.rng.urange(10, 40); random_q_ops(&mut c.rng, n, 60, &mut steps, &mut has_b, &mut la, &mut lb, true);
        }
        _ => { cap0 = *c.rng.pick(autoq_caps()); let (n, ml) = match fam { "micro" => (c.rng.urange(30, 140), 40), "growth" => (c.rng.urange(150, 500), 600), _ => (c.rng.urange(80, 350), 100) }; random_q_ops(&mut c.rng, n, ml, &mut steps, &mut has_b, &mut la, &mut lb, true); }
    }
    c.input_str("cap0", &if cap0 == usize::MAX { "new".to_string() } else { cap0.to_string() }); c.input_str("ops", &encode_q(&steps)); c.set_nontrivial(steps.len() >= 8);
    autoq_tag(c, cap0, &steps);
    let r = catch(|| run_autoq(c, cap0, &steps));
    let r = match r { Ok(r) => r, Err(p) => Err(bad(&p.class(), format!("panic at {}: {}", p.loc, p.msg))) };
    r?; live_check(0, "end of history")
}

fn drive_fixedq<const N: usize>(c: &mut Case, micro: bool) -> Res {
    mon::tracked_reset();
    let n_ops = if micro { c.rng.urange(30, 150) } else { c.rng.urange(60, 400) };
    // phases of filling / draining so that the queue is repeatedly full and empty at every head offset
    let mut ops: Vec<u8> = Vec::with_capacity(n_ops); let mut bias = 5u64; for i in 0..n_ops { if i % (N + 3) == 0 { bias = *c.rng.pick(&[2u64, 5, 8]); } ops.push(if c.rng.chance(1, 40) { 2 } else if c.rng.below(10) < bias { 0 } else { 1 }); }
    c.input("ops", &ops); c.set_nontrivial(true);
    let r = catch(|| -> Res {
        let mut q: FixedCircularQueue<Tracked, N> = FixedCircularQueue::new(); let mut m: VecDeque<u64> = VecDeque::new(); let mut next = 1u64;
        if q.capacity() != N { return Err(bad("capacity", "capacity() != N".into())); }
        for (i, &o) in ops.iter().enumerate() {
            match o {
                0 => { let id = nid(&mut next); let r = if id % 2 == 0 { q.push_back(Tracked::new(id)) } else { q.push(Tracked::new(id)) }; if m.len() < N { must(r, "push_back")?; m.push_back(id); } else { if r.is_ok() { return Err(bad("full_accepted", format!("step {i}: push_back accepted on a full queue (N={N})"))); } c.note("full_refused", 1); } }
                1 => { let g = if i % 2 == 0 { q.pop_front() } else { q.pop() }; let w = m.pop_front(); match (&g, w) { (None, None) => { c.note("pop_empty", 1); } (Some(t), Some(w)) if t.id == w && t.intact() => {} _ => return Err(bad("pop_front", format!("step {i}: pop_front {:?} want {w:?}", g.as_ref().map(|t| t.id)))) } }
                _ => { q.clear(); m.clear(); }
            }
            if q.len() != m.len() || q.is_empty() != m.is_empty() || q.is_full() != (m.len() == N) { return Err(bad("len", format!("step {i}: len {} want {} / is_full {}", q.len(), m.len(), q.is_full()))); }
            let f = q.front(); if f.map(|t| t.id) != m.front().copied() || f.map_or(false, |t| !t.intact()) { return Err(bad("front", format!("step {i}: front {:?} want {:?}", f.map(|t| t.id), m.front()))); }
            let b = q.back(); if b.map(|t| t.id) != m.back().copied() || b.map_or(false, |t| !t.intact()) { return Err(bad("back", format!("step {i}: back {:?} want {:?}", b.map(|t| t.id), m.back()))); }
            live_check(m.len(), "after op")?; c.ev(5);
        }
        let keep = c.rng.usize_below(m.len() + 1);
        while m.len() > keep { let w = m.pop_front().unwrap(); match q.pop_front() { Some(t) if t.id == w => {} o => return Err(bad("drain", format!("final drain got {:?} want {w}", o.map(|t| t.id)))) } c.ev(1); }
        drop(q); live_check(0, "after dropping the queue")
    });
    match r { Ok(r) => r, Err(p) => Err(bad(&p.class(), format!("panic at {}: {}", p.loc, p.msg))) }
}

// ---------------------------------------------------------------------------------------------
// string vectors
// ---------------------------------------------------------------------------------------------
/// String pools: tiny alphabets (shared prefixes, overlaps, duplicates), multi-byte UTF-8, empty strings, boundary lengths.
fn gen_strings(r: &mut Rng, n: usize, max_len: usize, allow_nul: bool) -> Vec<String> {
    let mode = r.below(6);
    let mut out: Vec<String> = Vec::with_capacity(n);
    for _ in 0..n {
        if !out.is_empty() && r.chance(1, 7) { let s = r.pick(&out).clone(); out.push(s); continue; }          // duplicate
        let len = match r.below(8) { 0 => 0, 1 => 1, 2 => max_len, 3 => max_len.saturating_sub(1), _ => r.usize_below(max_len.min(24) + 1) };
        let mut s = String::new();
        match mode {
            0 => { while s.len() < len { s.push((b'a' + r.below(3) as u8) as char); } }
            1 => { let pat = ["abc", "ab", "abcd", "xyz", "abcab"][r.usize_below(5)]; while s.len() < len { s.push_str(pat); } s.truncate(len); }   // periodic: suffix/prefix overlaps
            2 => { const W: &[&str] = &["é", "ß", "日", "本", "🦀", "a", "z", "Ω", "\u{7f}", " "]; loop { let w = r.pick(W); if s.len() + w.len() > len { break; } s.push_str(w); } }
            3 => { if !out.is_empty() && r.bool() { let b = r.pick(&out).clone(); let cut = (0..=b.len()).filter(|&i| b.is_char_boundary(i)).last().map(|_| { let mut i = r.usize_below(b.len() + 1); while !b.is_char_boundary(i) { i -= 1; } i }).unwrap_or(0); s.push_str(&b[..cut]); } while s.len() < len { s.push((b'a' + r.below(26) as u8) as char); } let mut l = len.min(s.len()); while !s.is_char_boundary(l) { l -= 1; } s.truncate(l); }
            4 => { while s.len() < len { s.push((0x20 + r.below(0x5f) as u8) as char); } }
            _ => { while s.len() < len { s.push((b'0' + r.below(2) as u8) as char); } }
        }
        if allow_nul && r.chance(1, 5) { let mut i = r.usize_below(s.len() + 1); while !s.is_char_boundary(i) { i -= 1; } s.insert(i, '\0'); if s.len() > max_len && max_len > 0 { let mut l = max_len; while !s.is_char_boundary(l) { l -= 1; } s.truncate(l); } }
        out.push(s);
    }
    out
}
fn record_strings(c: &mut Case, ss: &[String]) { let mut b = Vec::new(); for s in ss { b.extend_from_slice(&(s.len() as u32).to_le_bytes()); b.extend_from_slice(s.as_bytes()); } c.input("strings", &b); }
fn opt_eq(what: &str, i: usize, got: Option<&str>, want: Option<&str>) -> Res { if got != want { let cut = |s: Option<&str>| s.map(|x| x.chars().take(40).collect::<String>()); return Err(bad("content", format!("{what}({i}) = {:?} want {:?}", cut(got), cut(want)))); } Ok(()) }
fn wrap_panic(r: Result<Res, crate::ctx::PanicInfo>) -> Res { match r { Ok(r) => r, Err(p) => Err(bad(&p.class(), format!("panic at {}: {}", p.loc, p.msg))) } }
fn lower_bound(v: &[String], x: &str) -> usize { v.partition_point(|s| s.as_str() < x) }

fn drive_sortable(c: &mut Case, micro: bool) -> Res {
    let n = if micro { c.rng.urange(5, 40) } else if c.rng.chance(1, 12) { c.rng.urange(520, 900) } else { c.rng.urange(5, 150) };
    let ml = *c.rng.pick(&[4usize, 16, 40, 300]); let ss = gen_strings(&mut c.rng, n, ml, true);
    let ops: Vec<u8> = (0..n + n / 2).map(|_| c.rng.below(20) as u8).collect();
    let ctor = c.rng.below(3);
    record_strings(c, &ss); c.input("ops", &ops); c.input_str("ctor", &ctor.to_string()); c.set_nontrivial(n >= 2);
    wrap_panic(catch(|| -> Res {
        let mut v = match ctor { 0 => SortableStrVec::new(), 1 => SortableStrVec::with_capacity(3), _ => SortableStrVec::default() };
        let mut m: Vec<String> = vec![]; let mut b: Option<(SortableStrVec, Vec<String>)> = None; let mut it = ss.iter();
        let check = |v: &SortableStrVec, m: &Vec<String>, c: &mut Case| -> Res {
            if v.len() != m.len() || v.is_empty() != m.is_empty() { return Err(bad("len", format!("len {} want {}", v.len(), m.len()))); }
            for i in 0..m.len() { opt_eq("get", i, v.get(i), Some(&m[i]))?; } opt_eq("get", m.len(), v.get(m.len()), None)?; opt_eq("get_by_id", usize::MAX, v.get_by_id(usize::MAX), None)?;
            let itv: Vec<&str> = v.iter().collect(); if itv.len() != m.len() || itv.iter().zip(m.iter()).any(|(a, b)| *a != b.as_str()) { return Err(bad("iter", "iter() differs from the model".into())); }
            c.ev(2 * m.len() as u64 + 2); Ok(()) };
        for (step, &o) in ops.iter().enumerate() {
            let on_b = b.is_some() && step % 2 == 1;
            let (cv, cm) = match b.as_mut() { Some(x) if on_b => (&mut x.0, &mut x.1), _ => (&mut v, &mut m) };
            match o {
                0..=9 => { if let Some(s) = it.next() { let id = if o % 2 == 0 { must(cv.push_str(s), "push_str")? } else { must(cv.push(s.clone()), "push")? }; if id != cm.len() { return Err(bad("push_id", format!("push returned id {id} want {}", cm.len()))); } cm.push(s.clone()); } }
                10 | 11 | 12 | 13 => {
                    let mut sorted = cm.clone();
                    match o { 10 => { must(cv.sort(), "sort")?; sorted.sort(); } 11 => { must(cv.radix_sort(), "radix_sort")?; sorted.sort(); c.note("radix_sort", 1); } 12 => { must(cv.sort_by(|a, b| b.cmp(a)), "sort_by")?; sorted.sort_by(|a, b| b.cmp(a)); } _ => { must(cv.sort_by_length(), "sort_by_length")?; sorted.sort_by_key(|s| s.len()); } }
                    for i in 0..sorted.len() { let g = cv.get_sorted(i); if o == 13 { if g.map(|s| s.len()) != Some(sorted[i].len()) { return Err(bad("sorted_order", format!("sort_by_length: position {i} has len {:?} want {}", g.map(|s| s.len()), sorted[i].len()))); } } else { opt_eq("get_sorted", i, g, Some(&sorted[i])).map_err(|f| bad("sorted_order", f.detail))?; } }
                    opt_eq("get_sorted", sorted.len(), cv.get_sorted(sorted.len()), None)?;
                    let mut multi: Vec<&str> = cv.iter_sorted().collect(); if multi.len() != sorted.len() { return Err(bad("sorted_order", "iter_sorted length".into())); } multi.sort(); let mut w: Vec<&str> = sorted.iter().map(|s| s.as_str()).collect(); w.sort(); if multi != w { return Err(bad("sorted_multiset", "sorted view is not a permutation of the content".into())); }
                    if o == 10 || o == 11 { // binary search on the lexicographic order
                        let mut needles: Vec<String> = sorted.iter().take(40).cloned().collect(); needles.push(String::new()); needles.push("zzzz".into()); needles.push("ab".into()); if let Some(l) = sorted.last() { needles.push(format!("{l}x")); }
                        for nd in &needles { match cv.binary_search(nd) { Ok(i) => { if cv.get_sorted(i) != Some(nd.as_str()) { return Err(bad("binary_search", format!("Ok({i}) but element differs from the needle"))); } } Err(i) => { if sorted.binary_search(nd).is_ok() { return Err(bad("binary_search", format!("Err({i}) for a stored string {:?}", nd.chars().take(30).collect::<String>()))); } if i != lower_bound(&sorted, nd) { return Err(bad("binary_search", format!("Err({i}) want insertion point {}", lower_bound(&sorted, nd)))); } } } c.ev(1); }
                        if sorted.len() > 512 { c.note("block_binary_search", 1); }
                    }
                    c.ev(sorted.len() as u64); c.note("sorts", 1);
                }
                14 => { if step % 5 == 0 { cv.clear(); cm.clear(); c.note("clears", 1); } }
                15 => { cv.reserve(step % 17); }
                16 => { cv.shrink_to_fit(); }
                17 => { let cl = v.clone(); check(&cl, &m, c).map_err(|f| bad(&format!("clone_{}", f.oracle), f.detail))?; b = Some((cl, m.clone())); c.note("clones", 1); }
                _ => {}
            }
            check(&v, &m, c).map_err(|f| bad(&f.oracle, format!("step {step} op {o}: {}", f.detail)))?;
            if let Some((bv, bm)) = b.as_ref() { check(bv, bm, c).map_err(|f| bad(&f.oracle, format!("step {step} op {o} (clone): {}", f.detail)))?; }
        }
        // from_iter constructor
        let fi = must(SortableStrVec::from_iter(m.iter()), "from_iter")?; check(&fi, &m, c)
    }))
}

fn drive_sortable_huge(c: &mut Case, idx: u64) -> Res {
    // a single string at / above the 20-bit length field of the packed index entry
    let len = (1usize << 20) - 2 + idx as usize; c.input_str("len", &len.to_string()); c.set_nontrivial(true);
    if len >= 1 << 20 { c.tag("sortable_str_len_ge_1MiB"); }
    wrap_panic(catch(|| -> Res {
        let s: String = (0..len).map(|i| (b'a' + (i % 23) as u8) as char).collect();
        let mut v = SortableStrVec::new(); must(v.push_str("first"), "push_str")?;
        match v.push_str(&s) { Err(_) => { c.note("refused", 1); opt_eq("get", 0, v.get(0), Some("first"))?; if v.len() != 1 { return Err(bad("len", "len after refused push".into())); } return Ok(()); } Ok(_) => {} }
        must(v.push_str("last"), "push_str")?;
        opt_eq("get", 0, v.get(0), Some("first"))?; opt_eq("get", 2, v.get(2), Some("last"))?;
        match v.get(1) { Some(g) if g == s => Ok(()), g => Err(bad("content", format!("get(1) of an accepted {len}-byte string has len {:?}", g.map(|x| x.len())))) }
    }))
}

fn drive_fixedlen<const N: usize>(c: &mut Case, micro: bool) -> Res {
    let n = if micro { c.rng.urange(5, 40) } else { c.rng.urange(5, 200) };
    let ss = gen_strings(&mut c.rng, n, N + 2, true);
    record_strings(c, &ss); let ctor = c.rng.bool(); c.input_str("ctor", if ctor { "with_capacity" } else { "new" }); c.set_nontrivial(n >= 2);
    wrap_panic(catch(|| -> Res {
        let mut v: FixedLenStrVec<N> = if ctor { FixedLenStrVec::with_capacity(n / 2) } else { FixedLenStrVec::new() };
        let mut m: Vec<&str> = vec![];
        for (i, s) in ss.iter().enumerate() {
            let r = v.push(s);
            if s.len() <= N && s.len() <= 255 { must(r, "push")?; m.push(s); } else { if r.is_ok() { return Err(bad("oversize_accepted", format!("push of {} bytes accepted by FixedLenStrVec<{N}>", s.len()))); } c.note("oversize_refused", 1); }
            if v.len() != m.len() || v.is_empty() != m.is_empty() { return Err(bad("len", format!("after push {i}: len {} want {}", v.len(), m.len()))); }
            if i % 4 == 0 || i + 1 == ss.len() { for j in 0..m.len() { opt_eq("get", j, v.get(j), Some(m[j]))?; if v.get_bytes(j) != Some(m[j].as_bytes()) { return Err(bad("content", format!("get_bytes({j})"))); } } opt_eq("get", m.len(), v.get(m.len()), None)?; if v.get_bytes(m.len()).is_some() { return Err(bad("oob_accepted", "get_bytes(len)".into())); } c.ev(2 * m.len() as u64 + 2); }
        }
        for s in ss.iter().take(30).map(|s| s.as_str()).chain(["", "a", "ab", "zzzzzzzzzzzzzzzzzzzzzzz"]) {
            let w = m.iter().position(|x| *x == s); let g = v.find_exact(s); if g != w { return Err(bad("find_exact", format!("find_exact = {g:?} want {w:?}"))); }
            let mut p = s.len().min(3); while !s.is_char_boundary(p) { p -= 1; } let pre = &s[..p]; let wc = m.iter().filter(|x| x.starts_with(pre)).count(); let gc = v.count_prefix(pre); if gc != wc { return Err(bad("count_prefix", format!("count_prefix = {gc} want {wc}"))); } c.ev(2);
        }
        Ok(())
    }))
}

fn drive_zosorted(c: &mut Case, micro: bool) -> Res {
    let n = if micro { c.rng.urange(0, 40) } else if c.rng.chance(1, 10) { c.rng.urange(300, 900) } else { c.rng.urange(0, 150) };
    let allow_nul = c.rng.chance(1, 6);
    let ml = *c.rng.pick(&[4usize, 16, 40, 300]); let ss = gen_strings(&mut c.rng, n, ml, allow_nul);
    let ctor = c.rng.below(3);
    record_strings(c, &ss); c.input_str("ctor", &ctor.to_string()); c.set_nontrivial(n >= 2);
    if ss.iter().any(|s| s.contains('\0')) { c.tag("zo_str_contains_nul"); }
    wrap_panic(catch(|| -> Res {
        let mut m = ss.clone(); m.sort();
        let v = match ctor {
            0 => { m.dedup(); must(ZoSortedStrVec::from_strings(ss.clone()), "from_strings")? }
            1 => { if n >= 2 && ss.windows(2).any(|w| w[0] > w[1]) && ZoSortedStrVec::from_sorted_strings(ss.clone()).is_ok() { return Err(bad("unsorted_accepted", "from_sorted_strings accepted unsorted input".into())); } must(ZoSortedStrVec::from_sorted_strings(m.clone()), "from_sorted_strings")? }
            _ => { let mut sv = SortableStrVec::new(); for s in &ss { must(sv.push_str(s), "push_str")?; } must(ZoSortedStrVec::from_sortable_str_vec(sv), "from_sortable_str_vec")? }
        };
        let v2 = v.clone();
        for v in [&v, &v2] {
            if v.len() != m.len() || v.is_empty() != m.is_empty() { return Err(bad("len", format!("len {} want {}", v.len(), m.len()))); }
            for i in 0..m.len() { opt_eq("get", i, v.get(i), Some(&m[i]))?; } opt_eq("get", m.len(), v.get(m.len()), None)?;
            let itv: Vec<&str> = v.iter().collect(); if itv.len() != m.len() || itv.iter().zip(m.iter()).any(|(a, b)| *a != b.as_str()) { return Err(bad("iter", "iter() differs".into())); }
            c.ev(2 * m.len() as u64 + 1);
        }
        let mut needles: Vec<String> = m.iter().take(40).cloned().collect(); needles.push(String::new()); needles.push("ab".into()); needles.push("zzzz".into()); needles.push("b".into());
        for nd in &needles { match v.binary_search(nd) { Ok(i) => { if m.get(i) != Some(nd) { return Err(bad("binary_search", format!("Ok({i}) but element differs"))); } } Err(i) => { if m.binary_search(nd).is_ok() || i != lower_bound(&m, nd) { return Err(bad("binary_search", format!("Err({i}) want {:?}", m.binary_search(nd)))); } } }
            if v.contains(nd) != m.binary_search(nd).is_ok() { return Err(bad("contains", "contains".into())); } c.ev(2); }
        for k in 0..needles.len().min(12) { let (a, b) = (&needles[k], &needles[(k * 7 + 3) % needles.len()]); let (a, b) = if a <= b { (a, b) } else { (b, a) };
            // with duplicated bound strings binary_search may legitimately return any of the equal positions; range() is then not determined by the property
            if m.iter().filter(|s| *s == a).count() > 1 || m.iter().filter(|s| *s == b).count() > 1 { c.note("range_skipped_dup_bound", 1); continue; }
            let got: Vec<&str> = v.range(a, b).collect(); let want: Vec<&str> = m[lower_bound(&m, a)..lower_bound(&m, b)].iter().map(|s| s.as_str()).collect(); if got != want { return Err(bad("range", format!("range yields {} items want {}", got.len(), want.len()))); } c.ev(1); }
        Ok(())
    }))
}

trait StrPushGet { fn spush(&mut self, s: &str) -> Result<usize, String>; fn sget(&self, i: usize) -> Option<&str>; fn sget_bytes(&self, i: usize) -> Option<&[u8]>; fn slen(&self) -> usize; fn siter(&self) -> Vec<&str>; fn sfind(&self, s: &str) -> Option<usize>; }
macro_rules! bitpacked_impl { ($t:ty) => { impl StrPushGet for $t {
    fn spush(&mut self, s: &str) -> Result<usize, String> { self.push(s).map_err(|e| e.to_string()) } fn sget(&self, i: usize) -> Option<&str> { self.get(i) } fn sget_bytes(&self, i: usize) -> Option<&[u8]> { self.get_bytes(i) }
    fn slen(&self) -> usize { self.len() } fn siter(&self) -> Vec<&str> { self.iter().collect() } fn sfind(&self, s: &str) -> Option<usize> { self.find_simd(s) } } } }
bitpacked_impl!(BitPackedStringVec32);
bitpacked_impl!(BitPackedStringVec64);
fn drive_bitpacked<V: StrPushGet + Clone>(c: &mut Case, micro: bool, mk: fn(usize) -> V) -> Res {
    let n = if micro { c.rng.urange(5, 40) } else { c.rng.urange(5, 250) };
    let ml = *c.rng.pick(&[4usize, 16, 40, 300]); let ss = gen_strings(&mut c.rng, n, ml, true);
    let ctor = c.rng.usize_below(4); record_strings(c, &ss); c.input_str("ctor", &ctor.to_string()); c.set_nontrivial(n >= 2);
    wrap_panic(catch(|| -> Res {
        let mut v = mk(ctor); let mut m: Vec<&str> = vec![]; let mut b: Option<(V, Vec<&str>)> = None;
        let check = |v: &V, m: &Vec<&str>, c: &mut Case| -> Res {
            if v.slen() != m.len() { return Err(bad("len", format!("len {} want {}", v.slen(), m.len()))); }
            for j in 0..m.len() { opt_eq("get", j, v.sget(j), Some(m[j]))?; if v.sget_bytes(j) != Some(m[j].as_bytes()) { return Err(bad("content", format!("get_bytes({j})"))); } }
            opt_eq("get", m.len(), v.sget(m.len()), None)?; if v.sget_bytes(m.len()).is_some() || v.sget(usize::MAX).is_some() { return Err(bad("oob_accepted", "get(len)".into())); }
            if v.siter() != *m { return Err(bad("iter", "iter() differs".into())); } c.ev(3 * m.len() as u64 + 2); Ok(()) };
        for (i, s) in ss.iter().enumerate() {
            let on_b = b.is_some() && i % 3 == 0;
            let (cv, cm) = match b.as_mut() { Some(x) if on_b => (&mut x.0, &mut x.1), _ => (&mut v, &mut m) };
            let id = cv.spush(s).map_err(|e| bad("op_err", format!("push: {e}")))?; if id != cm.len() { return Err(bad("push_id", format!("push returned {id} want {}", cm.len()))); } cm.push(s);
            if i == ss.len() / 3 { let cl = v.clone(); check(&cl, &m, c).map_err(|f| bad(&format!("clone_{}", f.oracle), f.detail))?; b = Some((cl, m.clone())); }
            if i % 4 == 0 || i + 1 == ss.len() { check(&v, &m, c)?; if let Some((bv, bm)) = b.as_ref() { check(bv, bm, c)?; } }
        }
        if !micro { for s in ss.iter().take(20).map(|s| s.as_str()).chain(["", "nope-not-present-0123456789"]) { let w = m.iter().position(|x| *x == s); let g = v.sfind(s); if g != w { return Err(bad("find", format!("find_simd = {g:?} want {w:?}"))); } c.ev(1); } }
        Ok(())
    }))
}

/// AdvancedStringVec is a handle store: push returns an index (an existing one for a duplicate at level >= 1);
/// the index -> string mapping must behave like a Vec<String> indexed by the returned handles.
fn drive_advstr(c: &mut Case, micro: bool, level: u8) -> Res {
    let n = if micro { c.rng.urange(5, 40) } else { c.rng.urange(5, 250) };
    let ml = *c.rng.pick(&[6usize, 16, 40, 300]); let ss = gen_strings(&mut c.rng, n, ml, true);
    let preset = c.rng.usize_below(3); record_strings(c, &ss); c.input_str("preset", &preset.to_string()); c.set_nontrivial(n >= 2);
    let cfg = { let mut k = match (level, preset) { (_, 0) => AdvancedStringConfig::default(), (3, _) => AdvancedStringConfig::memory_optimized(), (2, _) => AdvancedStringConfig::balanced(), (_, 1) => AdvancedStringConfig::performance_optimized(), _ => AdvancedStringConfig::default() }; k.compression_level = level; k };
    if level == 3 { // input-only predicate of the level-3 overlap path: an earlier string with the same 3-byte prefix whose suffix equals a proper prefix of the new string
        let mo = cfg.min_overlap_length; let mut hit = false;
        'o: for (i, s) in ss.iter().enumerate() { let s = s.as_bytes(); if s.len() < 3 || s.len() < mo { continue; } for e in &ss[..i] { let e = e.as_bytes(); if e.len() < 3 || e[..3] != s[..3] || e == s { continue; } if e.windows(s.len()).any(|w| w == s) { continue; } for k in mo..e.len().min(s.len()) { if e[e.len() - k..] == s[..k] { hit = true; break 'o; } } } }
        if hit { c.tag("adv_l3_suffix_prefix_overlap"); }
    }
    wrap_panic(catch(|| -> Res {
        let mut v = AdvancedStringVec::with_config(cfg.clone()); let mut m: Vec<&str> = vec![]; let mut b: Option<(AdvancedStringVec, Vec<&str>)> = None;
        let check = |v: &AdvancedStringVec, m: &Vec<&str>, c: &mut Case| -> Res {
            if v.len() != m.len() || v.is_empty() != m.is_empty() { return Err(bad("len", format!("len {} want {} handles", v.len(), m.len()))); }
            for j in 0..m.len() { opt_eq("get", j, v.get(j), Some(m[j]))?; if v.get_bytes(j) != Some(m[j].as_bytes()) { return Err(bad("content", format!("get_bytes({j})"))); } }
            opt_eq("get", m.len(), v.get(m.len()), None)?; if v.get_bytes(m.len()).is_some() { return Err(bad("oob_accepted", "get_bytes(len)".into())); }
            let itv: Vec<&str> = v.iter().collect(); if itv != *m { return Err(bad("iter", "iter() differs".into())); } c.ev(3 * m.len() as u64 + 2); Ok(()) };
        for (i, s) in ss.iter().enumerate() {
            let on_b = b.is_some() && i % 3 == 0;
            let (cv, cm) = match b.as_mut() { Some(x) if on_b => (&mut x.0, &mut x.1), _ => (&mut v, &mut m) };
            let id = must(cv.push(s), "push")?;
            if id == cm.len() { cm.push(s); } else if id < cm.len() { if level == 0 { return Err(bad("push_id", format!("level 0 push returned existing handle {id}"))); } if cm[id] != s.as_str() { return Err(bad("dedup_wrong", format!("push returned handle {id} which holds a different string"))); } c.note("dedup_hits", 1); } else { return Err(bad("push_id", format!("push returned handle {id} > len {}", cm.len()))); }
            opt_eq("get", id, cv.get(id), Some(s.as_str())).map_err(|f| bad("get_after_push", f.detail))?;
            if i == ss.len() / 3 { let cl = v.clone(); check(&cl, &m, c).map_err(|f| bad(&format!("clone_{}", f.oracle), f.detail))?; b = Some((cl, m.clone())); }
            if i % 4 == 0 || i + 1 == ss.len() { check(&v, &m, c)?; if let Some((bv, bm)) = b.as_ref() { check(bv, bm, c)?; } }
        }
        Ok(())
    }))
}

// ---------------------------------------------------------------------------------------------
// process-killing probes (each in its own tiny family, executed last)
// ---------------------------------------------------------------------------------------------
/// FastVec::copy_from_slice_fast with a source shorter than the current length (replace-content call).
fn drive_fastvec_copy_shorter(c: &mut Case) -> Res {
    let len = c.rng.urange(2, 40); let k = c.rng.urange(1, len - 1); c.input_str("len,src", &format!("{len},{k}")); c.set_nontrivial(true); c.tag("fastvec_copy_from_shorter_src");
    wrap_panic(catch(|| -> Res {
        let mut v: FastVec<u64> = FastVec::new(); for i in 0..len { must(v.push(i as u64), "push")?; }
        let src: Vec<u64> = (0..k as u64).map(|x| x + 1000).collect();
        must(v.copy_from_slice_fast(&src), "copy_from_slice_fast")?;   // aborts the process (zipora_verify_ge!(min_cap, self.len))
        cmp_model("after copy_from_slice_fast", v.as_slice(), &src)
    }))
}
/// MmapVec::with_capacity_simd(capacity): the mapping is sized for the default 1024 elements (64 KiB minimum), the zero-fill for `capacity`.
/// To observe an out-of-bounds fill deterministically, all free 64 KiB gaps above a sentinel region are occupied first, so that the
/// library's mapping (top-down mmap placement) lands directly below the sentinel, which must then stay untouched.
/// When the placement does not work out nothing is observable and the case only checks the content.
fn drive_mmap_simd_ctor(c: &mut Case, idx: u64) -> Res {
    let cap = [0usize, 1, 8, 100, 1024, 4000, 8182, 8183, 9000, 20000][idx as usize % 10]; c.input_str("capacity", &cap.to_string()); c.set_nontrivial(true);
    if cap * 8 + 80 > 64 * 1024 { c.tag("mmap_simd_ctor_capacity_gt_mapping"); }
    wrap_panic(catch(|| -> Res {
        const HOLE: usize = 64 * 1024; const SENT: usize = 1 << 20;
        let map = |n: usize| unsafe { libc::mmap(std::ptr::null_mut(), n, libc::PROT_READ | libc::PROT_WRITE, libc::MAP_PRIVATE | libc::MAP_ANONYMOUS, -1, 0) };
        // find a sentinel position with a free 64 KiB slot directly below it
        let mut fillers: Vec<(usize, usize)> = vec![]; let mut p = 0usize;
        for _ in 0..64 {
            let sp = map(SENT); if sp == libc::MAP_FAILED { break; } let g = map(HOLE); if g == libc::MAP_FAILED { fillers.push((sp as usize, SENT)); break; }
            if g as usize + HOLE == sp as usize { unsafe { libc::munmap(g, HOLE); } p = sp as usize; break; }
            fillers.push((sp as usize, SENT)); fillers.push((g as usize, HOLE));
        }
        if p != 0 { unsafe { std::ptr::write_bytes(p as *mut u8, 0xAA, SENT); } }
        let nfill = fillers.len(); 
        let r = (|| -> Res {
            let mut v: MmapVec<u64> = must(MmapVec::with_capacity_simd(cap), "with_capacity_simd")?;
            let mut m = vec![]; for i in 0..300u64 { must(v.push(u64::mk(i)), "push")?; m.push(u64::norm(i)); }
            cmp_model("after pushes", v.as_slice(), &m)?; c.ev(300);
            let base = v.as_slice().as_ptr() as usize - 80;
            c.log(format!("sentinel {p:#x} mapping base {base:#x} fillers {}", nfill)); if p != 0 && base + HOLE == p { c.note("placement_hit", 1); let s = unsafe { std::slice::from_raw_parts(p as *const u8, SENT) }; if let Some(i) = s.iter().position(|&b| b != 0xAA) { let n = s.iter().filter(|&&b| b != 0xAA).count(); return Err(bad("oob_write", format!("with_capacity_simd({cap}) wrote {n} bytes beyond its 64 KiB mapping (first at mapping_end+{i})"))); } c.ev(1); } else { c.note("placement_miss", 1); }
            Ok(())
        })();
        unsafe { for (g, n) in fillers { libc::munmap(g as *mut libc::c_void, n); } if p != 0 { libc::munmap(p as *mut libc::c_void, SENT); } }
        r
    }))
}

// ---------------------------------------------------------------------------------------------
// huge_ families: large element counts (> 65536, > 131072), capacity arguments just above powers of two, sizes around
// the 16/20/24-bit limits of packed index entries. Oracles are the same models, but the whole-content comparison is
// made at checkpoints only; between checkpoints every operation is followed by O(1) checks (len, sampled positions,
// live-value accounting).
// ---------------------------------------------------------------------------------------------
const HUGE_CAPS: &[usize] = &[65537, 131073, 131074, 196609, 262145, 262146, 262147, 262148];
const HUGE_SAMPLES: &[usize] = &[0, 1, 255, 256, 65534, 65535, 65536, 65537, 131071, 131072, 131073, 262143, 262144];

pub trait VecHuge: VecSut {
    /// construct with an explicit capacity argument (None: the container has no such constructor)
    fn create_cap(_cap: usize) -> Result<Option<(Self, Vec<u64>)>, Fail> { Ok(None) }
    fn create_small() -> Result<(Self, Vec<u64>), Fail> { let mut n = 1u64; Self::create(0, &mut n) }
    fn peek(&self, i: usize) -> Option<u64>;
    /// largest element count the huge histories may reach
    const MAX_N: usize;
}
impl VecHuge for FastVec<Tracked> { const MAX_N: usize = 140_000; fn create_cap(cap: usize) -> Result<Option<(Self, Vec<u64>)>, Fail> { Ok(Some((must(FastVec::with_capacity(cap), "with_capacity")?, vec![]))) } fn peek(&self, i: usize) -> Option<u64> { self.as_slice().get(i).map(|t| t.id()) } }
impl VecHuge for FastVec<u64> { const MAX_N: usize = 270_000; fn create_cap(cap: usize) -> Result<Option<(Self, Vec<u64>)>, Fail> { Ok(Some((must(FastVec::with_capacity(cap), "with_capacity")?, vec![]))) } fn peek(&self, i: usize) -> Option<u64> { self.as_slice().get(i).map(|t| t.id()) } }
impl VecHuge for FastVec<u8> { const MAX_N: usize = 1_100_000; fn create_cap(cap: usize) -> Result<Option<(Self, Vec<u64>)>, Fail> { Ok(Some((must(FastVec::with_capacity(cap), "with_capacity")?, vec![]))) } fn peek(&self, i: usize) -> Option<u64> { self.as_slice().get(i).map(|t| t.id()) } }
impl VecHuge for ValVec32<Tracked> { const MAX_N: usize = 140_000; fn create_cap(cap: usize) -> Result<Option<(Self, Vec<u64>)>, Fail> { Ok(Some((must(ValVec32::with_capacity(cap as u32), "with_capacity")?, vec![]))) } fn peek(&self, i: usize) -> Option<u64> { self.get(i as u32).map(|t| t.id()) } }
impl VecHuge for VvNoSet { const MAX_N: usize = 140_000; fn create_cap(cap: usize) -> Result<Option<(Self, Vec<u64>)>, Fail> { Ok(Some((VvNoSet(must(ValVec32::with_capacity(cap as u32), "with_capacity")?), vec![]))) } fn peek(&self, i: usize) -> Option<u64> { self.0.get(i as u32).map(|t| t.id()) } }
impl VecHuge for ValVec32<u64> { const MAX_N: usize = 270_000; fn create_cap(cap: usize) -> Result<Option<(Self, Vec<u64>)>, Fail> { Ok(Some((must(ValVec32::with_capacity(cap as u32), "with_capacity")?, vec![]))) } fn peek(&self, i: usize) -> Option<u64> { self.get(i as u32).map(|t| t.id()) } }
impl VecHuge for CacheAlignedVec<Tracked> { const MAX_N: usize = 140_000; fn create_cap(cap: usize) -> Result<Option<(Self, Vec<u64>)>, Fail> { Ok(Some((must(CacheAlignedVec::with_capacity(cap), "with_capacity")?, vec![]))) } fn peek(&self, i: usize) -> Option<u64> { self.get(i).map(|t| t.id()) } }
macro_rules! mmapvec_huge { ($t:ty, $max:expr) => { impl VecHuge for Mv<$t> {
    const MAX_N: usize = $max;
    // growth factor 1.0 / sync_on_write configurations rewrite the whole file on every push: only the cheap configurations here
    fn create_small() -> Result<(Self, Vec<u64>), Fail> { let mut n = 1u64; Self::create(4, &mut n) }
    fn create_cap(cap: usize) -> Result<Option<(Self, Vec<u64>)>, Fail> {
        let dir = std::sync::Arc::new(tempfile::tempdir().map_err(|e| bad("__inconclusive", format!("tempdir: {e}")))?);
        let v = if cap % 2 == 1 { must(MmapVec::<$t>::with_capacity_simd(cap), "with_capacity_simd")? } else { must(MmapVec::<$t>::create(dir.path().join("h.mv"), MmapVecConfig::builder().with_initial_capacity(cap).with_growth_factor(1.5).build()), "MmapVec::create")? };
        if cap % 2 == 0 && v.capacity() < cap { return Err(bad("capacity", format!("capacity {} after create with initial_capacity {cap}", v.capacity()))); }
        Ok(Some((Mv { v, dir, seq: 4 }, vec![])))
    }
    fn peek(&self, i: usize) -> Option<u64> { self.v.get(i).map(|t| t.id()) }
} } }
mmapvec_huge!(u64, 140_000);
mmapvec_huge!(u8, 1_100_000);

#[derive(Clone, Copy)]
struct HStep { st: Step, checkpoint: bool }
fn encode_hsteps(s: &[HStep]) -> String {
    // run-length encoded (histories have > 10^5 single pushes)
    let mut o = String::new(); let mut i = 0;
    while i < s.len() { let mut j = i; while j + 1 < s.len() && s[j + 1].st.op.k == s[i].st.op.k && s[j + 1].st.op.a == s[i].st.op.a && s[j + 1].st.on_b == s[i].st.on_b && !s[j].checkpoint { j += 1; }
        let st = s[i].st; if st.on_b { o.push('b'); } o.push_str(kcode(st.op.k)); match st.op.k { K::Push | K::Pop | K::Clear | K::Shrink | K::Clone | K::Probe => {} K::Fill => o.push_str(&format!("{}-{}", st.op.a, st.op.b)), _ => o.push_str(&st.op.a.to_string()) }
        if j > i { o.push_str(&format!("x{}", j - i + 1)); } if s[j].checkpoint { o.push('!'); } o.push(' '); i = j + 1; }
    o
}

/// History: grow from `start_len` to `target` elements through every boundary (single pushes across 65535..65537 and
/// 131071..131074, bulk operations elsewhere), then the operations that re-index / move / reallocate at that size.
fn huge_vec_script(r: &mut Rng, kinds: &[(K, u32)], start_len: usize, target: usize, elem_size: usize) -> Vec<HStep> {
    let has = |k: K| kinds.iter().any(|x| x.0 == k);
    let mut out: Vec<HStep> = Vec::new(); let mut len = start_len;
    let push = |out: &mut Vec<HStep>, k: K, a: usize, b: usize, on_b: bool, cp: bool| out.push(HStep { st: Step { on_b, op: VOp { k, a, b } }, checkpoint: cp });
    let bulk_kinds: Vec<K> = [K::Extend, K::ExtendSlice, K::PushN, K::Resize, K::ResizeWith].into_iter().filter(|&k| has(k)).collect();
    let borders = [65535usize, 131071, 262143, 1 << 20];
    while len < target {
        // next border that has to be crossed with single pushes
        let nb = borders.iter().copied().find(|&b| b + 4 > len && b < target);
        if let Some(b) = nb { if len + 1 >= b { push(&mut out, K::Push, 0, 0, false, false); len += 1; continue; } }
        let room = nb.map(|b| b.saturating_sub(1) - len).filter(|&x| x > 0).unwrap_or(target - len).min(target - len).max(1);
        let mut k = match r.below(5) { 0 => r.urange(1, 3000), 1 => r.urange(3000, 40000), 2 => room, _ => r.urange(1000, 70000) }.min(room);
        let kind = if bulk_kinds.is_empty() || r.chance(1, 4) { K::Push } else { *r.pick(&bulk_kinds) };
        match kind {
            K::Push => { let n = k.min(r.urange(500, 20000)); for _ in 0..n { push(&mut out, K::Push, 0, 0, false, false); } len += n; }
            K::Resize | K::ResizeWith => { if elem_size > 8 { k = k.min(20000); } push(&mut out, kind, len + k, 0, false, false); len += k; }
            K::PushN => { if k % 3 == 0 { k += 1; } push(&mut out, kind, k, 0, false, false); len += k; }   // (a % 3 == 0 means 3a in the ValVec32<u64> driver)
            _ => { push(&mut out, kind, k, 0, false, false); len += k; }
        }
        if has(K::Reserve) && r.chance(1, 6) { let np = (len + 1).next_power_of_two(); push(&mut out, K::Reserve, np + 1 - len, 0, false, false); }
    }
    if let Some(l) = out.last_mut() { l.checkpoint = true; }
    // operations at that size
    let b16 = 65536usize.min(len.saturating_sub(1));
    let mut ops: Vec<(K, usize, usize)> = vec![];
    if has(K::Insert) { ops.extend([(K::Insert, 0, 0), (K::Insert, b16, 0), (K::Insert, usize::MAX, 0), (K::Insert, usize::MAX - 1, 0)]); }      // MAX = len, MAX-1 = len+1 (resolved below)
    if has(K::Remove) { ops.extend([(K::Remove, 0, 0), (K::Remove, 65535.min(len - 1), 0), (K::Remove, usize::MAX - 2, 0), (K::Remove, usize::MAX, 0)]); } // MAX-2 = len-1
    if has(K::Mutate) { ops.extend([(K::Mutate, b16, 0), (K::Mutate, usize::MAX - 2, 0), (K::Mutate, 65535.min(len - 1), 0)]); }
    if has(K::Set) { ops.extend([(K::Set, b16, 0), (K::Set, usize::MAX, 0), (K::Set, usize::MAX - 2, 0)]); }
    if has(K::Fill) { ops.extend([(K::Fill, 65000.min(len / 2), 66000.min(len), ), (K::Fill, 0, usize::MAX), (K::Fill, usize::MAX, usize::MAX - 1), (K::Fill, 65535.min(len - 1), 65537.min(len))]); }
    if has(K::Pop) { for _ in 0..r.urange(3, 300) { ops.push((K::Pop, 0, 0)); } }
    if has(K::PopBulk) { ops.extend([(K::PopBulk, 1000, 0), (K::PopBulk, usize::MAX - 1, 0)]); }
    if has(K::Truncate) { ops.push((K::Truncate, usize::MAX - 3, 0)); }
    if has(K::Reserve) { ops.push((K::Reserve, 70000, 0)); }
    if has(K::EnsureCap) { ops.push((K::EnsureCap, 1, 0)); }
    if has(K::Shrink) { ops.push((K::Shrink, 0, 0)); }
    if has(K::Probe) { ops.push((K::Probe, 0, 0)); }
    if has(K::Extend) { ops.push((K::Extend, 70000.min(if elem_size > 8 { 5000 } else { 70000 }), 0)); }
    if has(K::ExtendSlice) { ops.push((K::ExtendSlice, 66000, 0)); }
    if has(K::CopyFrom) { ops.push((K::CopyFrom, usize::MAX - 4, 0)); }
    r.shuffle(&mut ops);
    let clone_at = if has(K::Clone) { r.usize_below(ops.len().max(1)) } else { usize::MAX };
    let mut lb: Option<usize> = None;
    for (i, &(k, a, b)) in ops.iter().enumerate() {
        if i == clone_at { push(&mut out, K::Clone, 0, 0, false, true); lb = Some(len); }
        let on_b = lb.is_some() && r.chance(1, 3); let l = if on_b { lb.unwrap() } else { len };
        let res = |x: usize| match x { usize::MAX => l, x if x == usize::MAX - 1 => l + 1, x if x == usize::MAX - 2 => l.saturating_sub(1), x if x == usize::MAX - 3 => l.saturating_sub(1000), x if x == usize::MAX - 4 => l + 3, x => x };
        let (a, b) = (res(a), res(b));
        let nl = match k { K::Insert => if a <= l { l + 1 } else { l }, K::Remove => if a < l { l - 1 } else { l }, K::Pop => l.saturating_sub(1), K::PopBulk => if a <= l { l - a } else { l }, K::Truncate => a.min(l), K::Extend | K::ExtendSlice => l + a, K::CopyFrom => a.max(l).max(1), _ => l };
        if on_b { lb = Some(nl); } else { len = nl; }
        push(&mut out, k, a, b, on_b, i % 4 == 3);
    }
    // shrink below the 16-bit border again, then a final growth step
    if has(K::Resize) { push(&mut out, K::Resize, 65537.min(len), 0, false, false); push(&mut out, K::Resize, 65535.min(len), 0, false, true); }
    else if has(K::Truncate) { push(&mut out, K::Truncate, 65537.min(len), 0, false, false); push(&mut out, K::Truncate, 65535.min(len), 0, false, true); }
    for _ in 0..5 { push(&mut out, K::Push, 0, 0, false, false); }
    if has(K::Clear) { push(&mut out, K::Clear, 0, 0, r.bool() && lb.is_some(), true); for _ in 0..3 { push(&mut out, K::Push, 0, 0, false, false); } }
    if let Some(l) = out.last_mut() { l.checkpoint = true; }
    out
}

fn huge_sample_check<S: VecHuge>(s: &S, m: &[u64], what: &str) -> Res {
    if s.sut_len() != m.len() { return Err(bad("len", format!("{what}: len() {} want {}", s.sut_len(), m.len()))); }
    let n = m.len();
    for &i in HUGE_SAMPLES.iter().chain([n.wrapping_sub(1), n / 2, n.wrapping_sub(2)].iter()) { if i < n { let g = s.peek(i); if g != Some(m[i]) { return Err(bad("content", format!("{what}: element {i} is {g:?} want {:#x} (len {n})", m[i]))); } } }
    if s.peek(n).is_some() { return Err(bad("oob_accepted", format!("{what}: element at index len={n} is visible"))); }
    Ok(())
}
fn run_vec_huge<S: VecHuge>(c: &mut Case, cap: Option<usize>, steps: &[HStep]) -> Res {
    let mut next = 1u64;
    let (mut a, mut ma) = match cap { Some(cap) => match S::create_cap(cap)? { Some(x) => x, None => S::create_small()? }, None => S::create_small()? };
    let mut b: Option<(S, Vec<u64>)> = None;
    for (i, h) in steps.iter().enumerate() {
        let st = &h.st;
        let ctxs = |f: Fail| Fail { oracle: f.oracle, detail: format!("step {i} {}{}({},{}): {}", if st.on_b { "clone." } else { "" }, kcode(st.op.k), st.op.a, st.op.b, f.detail) };
        if st.op.k == K::Clone {
            if let Some(cl) = a.try_clone().map_err(ctxs)? { cmp_model("fresh clone", &cl.snapshot().map_err(ctxs)?, &ma).map_err(|f| ctxs(Fail { oracle: format!("clone_{}", f.oracle), detail: f.detail }))?; c.ev(ma.len() as u64); b = Some((cl, ma.clone())); c.note("clones", 1); }
        } else {
            let (s, m) = match b.as_mut() { Some(x) if st.on_b => (&mut x.0, &mut x.1), _ => (&mut a, &mut ma) };
            s.apply(&st.op, m, &mut next, c).map_err(ctxs)?;
        }
        huge_sample_check(&a, &ma, "original").map_err(ctxs)?; let mut held = ma.len();
        if let Some((sb, mb)) = b.as_ref() { huge_sample_check(sb, mb, "clone").map_err(ctxs)?; held += mb.len(); }
        if S::E::TRACKED { live_check(held, "after op").map_err(ctxs)?; }
        c.ev(8);
        if h.checkpoint {
            cmp_model("original", &a.snapshot().map_err(ctxs)?, &ma).map_err(ctxs)?; c.ev(ma.len() as u64);
            if let Some((sb, mb)) = b.as_ref() { cmp_model("clone", &sb.snapshot().map_err(ctxs)?, mb).map_err(ctxs)?; c.ev(mb.len() as u64); }
            c.note("checkpoints", 1);
        }
        if ma.len() > 65536 { c.note("ops_above_65536", 1); } if ma.len() > 131072 { c.note("ops_above_131072", 1); }
    }
    drop(b);
    if S::E::TRACKED { live_check(ma.len(), "after dropping the clone")?; }
    drop(a);
    if S::E::TRACKED { live_check(0, "after dropping the container")?; }
    Ok(())
}
/// `with_cap`: family huge_cap (capacity argument just above a power of two) / huge_grow (start empty, grow through every resize step)
fn drive_vec_huge<S: VecHuge>(c: &mut Case, with_cap: bool, idx: u64) -> Res {
    mon::tracked_reset();
    let esz = std::mem::size_of::<S::E>();
    let (cap, target) = if with_cap {
        let cap = HUGE_CAPS[(idx as usize + c.rng.usize_below(2) * 4) % HUGE_CAPS.len()];
        // fill to the requested capacity and one beyond (first reallocation) where affordable, else past 65537
        (Some(cap), if cap + 2 <= S::MAX_N { cap + 1 + c.rng.usize_below(2) } else { 65537 + c.rng.usize_below(3000) })
    } else {
        let t = *c.rng.pick(&[65537usize, 70_000, 131_073, 131_074, 140_000, 262_145, (1 << 20) + 1]); (None, t.min(S::MAX_N) + c.rng.usize_below(3))
    };
    let steps = huge_vec_script(&mut c.rng, S::KINDS, 0, target, esz);
    c.input_str("cap", &format!("{cap:?}")); c.input_str("target", &target.to_string()); c.input_str("ops", &encode_hsteps(&steps)); c.set_nontrivial(true);
    S::tags(c, 0, &steps.iter().map(|h| h.st).collect::<Vec<_>>());
    let r = catch(|| run_vec_huge::<S>(c, cap, &steps));
    let r = match r { Ok(r) => r, Err(p) => Err(bad(&p.class(), format!("panic at {}: {}", p.loc, p.msg))) };
    r?;
    if S::E::TRACKED { live_check(0, "end of history")?; }
    Ok(())
}

fn drive_bumpvec_huge(c: &mut Case) -> Res {
    mon::tracked_reset();
    let cap_a = *c.rng.pick(&[65535usize, 65536, 65537]); let cap_b = *c.rng.pick(&[131073usize, 131074, 70000]); let pad = c.rng.usize_below(7);
    c.input_str("caps", &format!("{cap_a},{cap_b},{pad}")); c.set_nontrivial(true);
    let seed = c.rng.next();
    wrap_panic(catch(|| -> Res {
        let mut r = Rng::new(seed);
        let arena = must(BumpAllocator::new(8 << 20), "BumpAllocator::new")?;
        for _ in 0..pad { must(arena.alloc::<u8>(), "alloc")?; }
        let mut a: BumpVec<Tracked> = must(BumpVec::new_in(&arena, cap_a), "BumpVec::new_in")?;
        let mut b: BumpVec<u64> = must(BumpVec::new_in(&arena, cap_b), "BumpVec::new_in")?;
        let (mut ma, mut mb): (Vec<u64>, Vec<u64>) = (vec![], vec![]); let mut next = 1u64;
        let mut phase_push = true; let mut refusals = 0u64;
        for step in 0..(cap_a + cap_b) * 2 + 4000 {
            if step % 4096 == 0 { phase_push = step < (cap_a + cap_b) * 3 / 2 || r.bool(); }
            let pushing = if phase_push { !r.chance(1, 9) } else { r.chance(1, 9) };
            if r.bool() { if pushing { let id = nid(&mut next); let res = a.push(Tracked::new(id)); if ma.len() < cap_a { must(res, "push")?; ma.push(id); } else { if res.is_ok() { return Err(bad("full_accepted", format!("push accepted at len {} == capacity", ma.len()))); } refusals += 1; } } else { let g = a.pop().map(|t| t.id); if g != ma.pop() { return Err(bad("pop", format!("step {step}: pop {g:?}"))); } } }
            else { if pushing { let id = nid(&mut next); let res = b.push(u64::mk(id)); if mb.len() < cap_b { must(res, "push")?; mb.push(u64::norm(id)); } else { if res.is_ok() { return Err(bad("full_accepted", format!("push accepted at len {} == capacity", mb.len()))); } refusals += 1; } } else { let g = b.pop(); if g != mb.pop() { return Err(bad("pop", format!("step {step}: pop {g:?}"))); } } }
            if a.len() != ma.len() || b.len() != mb.len() || a.as_slice().last().map(|t| t.id) != ma.last().copied() || b.as_slice().last() != mb.last() { return Err(bad("content", format!("step {step}: len/last element differ (lens {} {})", ma.len(), mb.len()))); }
            live_check(ma.len(), "after op")?; c.ev(4);
            if step % 50_000 == 49_999 { cmp_model("a", &snap_slice(a.as_slice())?, &ma)?; cmp_model("b", &snap_slice(b.as_slice())?, &mb)?; c.ev((ma.len() + mb.len()) as u64); c.note("checkpoints", 1); }
        }
        cmp_model("a", &snap_slice(a.as_slice())?, &ma)?; cmp_model("b", &snap_slice(b.as_slice())?, &mb)?; c.note("full_refused", refusals); c.note("max_len", ma.len().max(mb.len()) as u64);
        drop(a); live_check(0, "after dropping a")?; drop(b); Ok(())
    }))
}

// ---- huge queues -------------------------------------------------------------------------------
/// capacity arguments just above powers of two, then enough traffic to bring head/tail to the end of the ring and wrap
fn drive_autoq_huge(c: &mut Case, fam: &str, idx: u64) -> Res {
    mon::tracked_reset();
    let mut steps: Vec<QStep> = vec![]; let p = |op: Q| QStep { on_b: false, op };
    let cap0; let mut desc = String::new();
    if fam == "huge_cap_wrap" {
        const CAPS: &[usize] = &[65535, 65536, 65537, 131073, 131074, 196609, 262145, 262146, 262147, 262148];
        cap0 = CAPS[(idx as usize + c.rng.usize_below(5) * 2) % CAPS.len()];
        let ring = cap0.next_power_of_two();
        // advance head to just below the end of the ring with modest live size
        let chunk = *c.rng.pick(&[4096usize, 8191, 8192, 10000]); let stop = ring - 1 - c.rng.usize_below(3000); let mut head = 0usize;
        while head + chunk < stop { steps.push(p(Q::PushBulk(chunk))); if c.rng.bool() { steps.push(p(Q::PopBulk(chunk))); } else { let j = c.rng.urange(1, chunk - 1); steps.push(p(Q::PopBulk(j))); steps.push(p(Q::PopBulk(chunk - j))); } head += chunk; }
        while head < stop { steps.push(p(Q::Push)); steps.push(p(Q::Pop)); head += 1; }
        // wrap: bulk push straddling the end, singles, bulk pop straddling the end
        let k = c.rng.urange(3001, 9000); steps.push(p(Q::PushBulk(k))); steps.push(p(Q::Deep));
        for _ in 0..20 { steps.push(p(Q::Push)); } for _ in 0..10 { steps.push(p(Q::Pop)); }
        steps.push(p(Q::PopBulk(k / 2))); steps.push(p(Q::Clone)); steps.push(QStep { on_b: true, op: Q::PopBulk(k) }); steps.push(QStep { on_b: true, op: Q::Push });
        // growth while wrapped at an offset > 65535 (only for the rings where a full ring of elements is affordable)
        if ring <= 131072 { steps.push(p(Q::Reserve(ring + 1))); for _ in 0..10 { steps.push(p(Q::Push)); } steps.push(p(Q::PushBulk(ring / 2))); steps.push(p(Q::PopBulk(ring / 2 - 7))); }
        else { let live = k - k / 2 + 10; steps.push(p(Q::Reserve(ring - live + 2))); for _ in 0..10 { steps.push(p(Q::Push)); } steps.push(p(Q::PopBulk(100))); }
        desc = format!("chunk {chunk} stop {stop} k {k}");
    } else {
        // huge_grow: start small, grow through every doubling past 65536 / 131072 elements with pops interleaved (ring wrapped at each growth)
        cap0 = *c.rng.pick(&[usize::MAX, 4usize, 17, 1000]); let target = *c.rng.pick(&[65537usize, 70000, 131073, 131074]) + c.rng.usize_below(5);
        let pat = c.rng.urange(2, 6); let mut len = 0usize; let mut i = 0usize;
        while len < target { i += 1; if i % (pat + 1) == 0 && len > 0 { steps.push(p(Q::Pop)); len -= 1; } else if i % 5003 == 0 { let k = c.rng.urange(100, 3000); steps.push(p(Q::PushBulk(k))); len += k; } else if i % 7001 == 0 { let k = c.rng.urange(1, 500).min(len); steps.push(p(Q::PopBulk(k))); len -= k; } else if i % 9001 == 0 { steps.push(p(Q::Reserve((len + 1).next_power_of_two() - len))); } else { steps.push(p(Q::Push)); len += 1; } }
        steps.push(p(Q::Clone));
        for _ in 0..200 { let on_b = c.rng.bool(); steps.push(QStep { on_b, op: *c.rng.pick(&[Q::Push, Q::Pop, Q::PushBulk(70), Q::PopBulk(1000), Q::Reserve(3)]) }); }
        steps.push(QStep { on_b: true, op: Q::Clear }); steps.push(QStep { on_b: true, op: Q::Push }); steps.push(p(Q::PopBulk(66000)));
        desc.push_str(&format!("target {target} pat {pat}"));
    }
    c.input_str("cap0", &if cap0 == usize::MAX { "new".to_string() } else { cap0.to_string() }); c.input_str("shape", &desc); c.input_str("nsteps", &steps.len().to_string()); c.set_nontrivial(true);
    { let mut h = 0u64; for st in &steps { let v = match st.op { Q::Push => 1, Q::Pop => 2, Q::PushBulk(k) => 3 + 8 * k as u64, Q::PopBulk(k) => 4 + 8 * k as u64, Q::Reserve(k) => 5 + 8 * k as u64, Q::Clear => 6, Q::Clone => 7, Q::Deep => 8 }; h = (h ^ v ^ st.on_b as u64).wrapping_mul(0x100000001b3); } c.hash_more(&h.to_le_bytes()); }
    autoq_tag(c, cap0, &steps);
    let r = catch(|| -> Res {
        if cap0 != usize::MAX { let q: AutoGrowCircularQueue<Tracked> = AutoGrowCircularQueue::with_capacity(cap0); if q.capacity() < cap0 { return Err(bad("capacity", format!("with_capacity({cap0}) has capacity {}", q.capacity()))); } }
        run_autoq(c, cap0, &steps)
    });
    let r = match r { Ok(r) => r, Err(p) => Err(bad(&p.class(), format!("panic at {}: {}", p.loc, p.msg))) };
    r?; live_check(0, "end of history")
}

/// FixedCircularQueue with N just above 2^16: several trips around the ring, full / empty at large offsets.
fn drive_fixedq_huge(c: &mut Case) -> Res {
    const N: usize = 65537;
    let seed = c.rng.next(); c.input_str("N", &N.to_string()); c.input_str("seed", &seed.to_string()); c.set_nontrivial(true);
    // the queue lives inline (N * 24 bytes): run the case on a thread with a large stack; Tracked accounting is thread local
    let res = std::thread::scope(|sc| std::thread::Builder::new().stack_size(64 << 20).spawn_scoped(sc, || -> Result<(u64, u64, u64), Fail> {
        mon::tracked_reset();
        let r = catch(|| -> Result<(u64, u64, u64), Fail> {
            let mut r = Rng::new(seed);
            let mut q: Box<FixedCircularQueue<Tracked, N>> = Box::new(FixedCircularQueue::new()); let mut m: VecDeque<u64> = VecDeque::new(); let mut next = 1u64;
            let (mut ev, mut refused, mut empties) = (0u64, 0u64, 0u64);
            // phases: fill completely, drain partly, refill across the wrap point, drain completely, partial fills at random offsets
            let phases: Vec<(usize, bool)> = vec![(N + 3, true), (r.urange(30000, 60000), false), (N, true), (N + 2, false), (r.urange(1, N), true), (r.urange(1, N), false), (N, true), (3, false), (5, true)];
            for (n, pushing) in phases { for _ in 0..n {
                let do_push = if r.chance(1, 64) { !pushing } else { pushing };
                if do_push { let id = nid(&mut next); let res = q.push_back(Tracked::new(id)); if m.len() < N { must(res, "push_back")?; m.push_back(id); } else { if res.is_ok() { return Err(bad("full_accepted", format!("push_back accepted on a full queue (N={N})"))); } refused += 1; } }
                else { let g = q.pop_front(); let w = m.pop_front(); match (&g, w) { (None, None) => { empties += 1; } (Some(t), Some(w)) if t.id == w && t.intact() => {} _ => return Err(bad("pop_front", format!("pop_front {:?} want {w:?}", g.as_ref().map(|t| t.id)))) } }
                if q.len() != m.len() || q.is_empty() != m.is_empty() || q.is_full() != (m.len() == N) { return Err(bad("len", format!("len {} want {} / is_full {}", q.len(), m.len(), q.is_full()))); }
                let f = q.front(); if f.map(|t| t.id) != m.front().copied() { return Err(bad("front", format!("front {:?} want {:?}", f.map(|t| t.id), m.front()))); }
                let b = q.back(); if b.map(|t| t.id) != m.back().copied() { return Err(bad("back", format!("back {:?} want {:?}", b.map(|t| t.id), m.back()))); }
                live_check(m.len(), "after op")?; ev += 5;
            } }
            if r.bool() { q.clear(); m.clear(); live_check(0, "after clear")?; }
            drop(q); live_check(0, "after dropping the queue")?;
            Ok((ev, refused, empties))
        });
        match r { Ok(r) => r, Err(p) => Err(bad(&p.class(), format!("panic at {}: {}", p.loc, p.msg))) }
    }).map(|h| h.join()));
    match res { Ok(Ok(r)) => { let (ev, refused, empties) = r?; c.ev(ev); c.note("full_refused", refused); c.note("pop_empty", empties); Ok(()) } Ok(Err(_)) => Err(bad("panic:thread", "worker thread panicked".into())), Err(e) => crate::ctx::inconclusive(format!("cannot spawn thread: {e}")) }
}

// ---- huge string vectors -----------------------------------------------------------------------
/// deterministic string number `i` of a huge pool; `shape` selects the distribution (many duplicates / dominant value / distinct)
fn huge_str(i: usize, shape: u32, seed: u64) -> String {
    let h = (i as u64 ^ seed).wrapping_mul(0x9E37_79B9_7F4A_7C15) >> 17;
    match shape % 4 {
        0 => format!("{:06}{}", i % 50_000, ["", "x", "yz", "é", "abcabc"][(h % 5) as usize]),          // > 65536 entries, duplicates beyond the 50000th
        1 => if h % 10 < 8 { "dominant".to_string() } else { format!("k{:x}", h % 100_000) },              // one value 80 % of the time
        2 => format!("{:x}", h),                                                                             // practically distinct, unsorted
        _ => { let l = (h % 24) as usize; let b = (b'a' + (h % 3) as u8) as char; let mut s: String = std::iter::repeat(b).take(l).collect(); s.push_str(&format!("{}", i % 7)); s } // long runs of one symbol, short
    }
}
fn huge_positions(n: usize, r: &mut Rng, k: usize) -> Vec<usize> {
    let mut v: Vec<usize> = HUGE_SAMPLES.iter().copied().filter(|&i| i < n).collect(); if n > 0 { v.push(n - 1); v.push(n / 2); } for _ in 0..k { if n > 0 { v.push(r.usize_below(n)); } } v
}
fn huge_pool(c: &mut Case) -> (usize, u32, u64, Vec<String>) {
    let n = *c.rng.pick(&[65537usize, 70_000, 131_073, 131_074]) + c.rng.usize_below(3); let shape = c.rng.below(4) as u32; let seed = c.rng.next();
    c.input_str("n", &n.to_string()); c.input_str("shape", &shape.to_string()); c.input_str("seed", &seed.to_string()); c.set_nontrivial(true);
    (n, shape, seed, (0..n).map(|i| huge_str(i, shape, seed)).collect())
}

fn drive_sortable_huge_count(c: &mut Case) -> Res {
    let (n, _shape, _seed, mut m) = huge_pool(c);
    // a few long strings around the 16-bit and (allowed side of the) 20-bit length limits, at large arena offsets
    let longs = [65535usize, 65536, 65537, (1 << 20) - 1]; let lp = c.rng.usize_below(n);
    wrap_panic(catch(|| -> Res {
        let mut r = c.rng.fork();
        for (j, &l) in longs.iter().enumerate() { let pos = (lp + j * 1000) % m.len(); m[pos] = std::iter::repeat((b'A' + j as u8) as char).take(l).collect(); }
        let mut v = SortableStrVec::with_capacity(if r.bool() { 65537 } else { 0 });
        for (i, s) in m.iter().enumerate() { let id = must(v.push_str(s), "push_str")?; if id != i { return Err(bad("push_id", format!("push returned id {id} want {i}"))); } }
        let check = |v: &SortableStrVec, r: &mut Rng, c: &mut Case| -> Res {
            if v.len() != m.len() { return Err(bad("len", format!("len {} want {}", v.len(), m.len()))); }
            for i in huge_positions(m.len(), r, 3000) { opt_eq("get", i, v.get(i), Some(&m[i]))?; } opt_eq("get", m.len(), v.get(m.len()), None)?;
            let mut k = 0; for (i, s) in v.iter().enumerate() { if s != m[i] { return Err(bad("iter", format!("iter() element {i} differs"))); } k += 1; } if k != m.len() { return Err(bad("iter", "iter() length".into())); }
            c.ev(m.len() as u64 + 3000); Ok(()) };
        check(&v, &mut r, c)?;
        let mut sorted: Vec<&str> = m.iter().map(|s| s.as_str()).collect(); sorted.sort_unstable();
        for which in 0..2 { if which == 0 { must(v.sort(), "sort")?; } else { must(v.radix_sort(), "radix_sort")?; }
            for i in 0..sorted.len() { if v.get_sorted(i) != Some(sorted[i]) { return Err(bad("sorted_order", format!("{}: position {i} differs", if which == 0 { "sort" } else { "radix_sort" }))); } }
            opt_eq("get_sorted", sorted.len(), v.get_sorted(sorted.len()), None)?; c.ev(sorted.len() as u64);
            for i in huge_positions(sorted.len(), &mut r, 300) { let nd = sorted[i]; match v.binary_search(nd) { Ok(j) => { if v.get_sorted(j) != Some(nd) { return Err(bad("binary_search", format!("Ok({j}) but element differs"))); } } Err(j) => return Err(bad("binary_search", format!("Err({j}) for a stored string"))) } c.ev(1); }
            for nd in ["", "zzzzzzzzzz", "00", "dominanu"] { match v.binary_search(nd) { Ok(j) => { if v.get_sorted(j) != Some(nd) { return Err(bad("binary_search", format!("Ok({j}) but element differs"))); } } Err(j) => { let lb = sorted.partition_point(|s| *s < nd); if sorted.binary_search(&nd).is_ok() || j != lb { return Err(bad("binary_search", format!("Err({j}) want insertion point {lb}"))); } } } }
            check(&v, &mut r, c)?; }
        must(v.sort_by_length(), "sort_by_length")?; let mut lens: Vec<usize> = m.iter().map(|s| s.len()).collect(); lens.sort_unstable();
        for i in 0..lens.len() { if v.get_sorted(i).map(|s| s.len()) != Some(lens[i]) { return Err(bad("sorted_order", format!("sort_by_length: position {i}"))); } }
        let cl = v.clone(); check(&cl, &mut r, c).map_err(|f| bad(&format!("clone_{}", f.oracle), f.detail))?;
        v.clear(); if v.len() != 0 || v.get(0).is_some() { return Err(bad("len", "after clear".into())); } must(v.push_str("again"), "push_str")?; opt_eq("get", 0, v.get(0), Some("again"))?;
        check(&cl, &mut r, c)
    }))
}

fn drive_zosorted_huge(c: &mut Case) -> Res {
    // ZoSortedStrVec::get costs two select1 calls whose hint search is linear in the sample distance: positions are sampled
    let n = *c.rng.pick(&[65537usize, 65538, 70_000]); let ctor = c.rng.below(3); let shape = if ctor == 0 { 2 } else { c.rng.below(4) as u32 }; let seed = c.rng.next();
    c.input_str("n", &n.to_string()); c.input_str("shape", &shape.to_string()); c.input_str("seed", &seed.to_string()); c.input_str("ctor", &ctor.to_string()); c.set_nontrivial(true);
    wrap_panic(catch(|| -> Res {
        let ss: Vec<String> = (0..n).map(|i| huge_str(i, shape, seed)).collect();
        let mut r = c.rng.fork(); let mut m = ss.clone(); m.sort();
        let v = match ctor { 0 => { m.dedup(); must(ZoSortedStrVec::from_strings(ss.clone()), "from_strings")? } 1 => must(ZoSortedStrVec::from_sorted_strings(m.clone()), "from_sorted_strings")?,
            _ => { let mut sv = SortableStrVec::new(); for s in &ss { must(sv.push_str(s), "push_str")?; } must(ZoSortedStrVec::from_sortable_str_vec(sv), "from_sortable_str_vec")? } };
        if v.len() != m.len() { return Err(bad("len", format!("len {} want {}", v.len(), m.len()))); }
        c.note("strings", m.len() as u64);
        for i in huge_positions(m.len(), &mut r, 110) { opt_eq("get", i, v.get(i), Some(&m[i]))?; c.ev(1); } opt_eq("get", m.len(), v.get(m.len()), None)?;
        for (i, s) in v.iter().take(40).enumerate() { if s != m[i] { return Err(bad("iter", format!("iter() element {i} differs"))); } }
        for i in [65535usize, 65536, m.len() - 1, r.usize_below(m.len())].into_iter().filter(|&i| i < m.len()) { let nd = &m[i]; match v.binary_search(nd) { Ok(j) => { if m.get(j) != Some(nd) { return Err(bad("binary_search", format!("Ok({j}) but element differs"))); } } Err(j) => return Err(bad("binary_search", format!("Err({j}) for a stored string"))) } c.ev(1); }
        for nd in ["", "zzzzzzzzzz", "dominanu"] { if let Err(j) = v.binary_search(nd) { if m.binary_search_by(|s| s.as_str().cmp(nd)).is_ok() || j != lower_bound(&m, nd) { return Err(bad("binary_search", format!("Err({j}) want {}", lower_bound(&m, nd)))); } } }
        let cl = v.clone(); for i in [65536usize, m.len() - 1, r.usize_below(m.len())].into_iter().filter(|&i| i < m.len()) { opt_eq("get", i, cl.get(i), Some(&m[i])).map_err(|f| bad("clone_content", f.detail))?; }
        Ok(())
    }))
}

fn drive_fixedlen_huge<const N: usize>(c: &mut Case, arena_limit: bool) -> Res {
    // huge_count: > 65536 / > 131072 strings (arena offsets far beyond 2^16);
    // huge_arena_limit: 255-byte strings until the documented 16 MiB arena limit is reached: the push that would exceed it must be refused, content intact
    let n = if arena_limit { 66_000 } else { *c.rng.pick(&[65537usize, 131_074]) + c.rng.usize_below(3) }; let seed = c.rng.next();
    c.input_str("n", &n.to_string()); c.input_str("seed", &seed.to_string()); c.input_str("arena_limit", &arena_limit.to_string()); c.set_nontrivial(true);
    wrap_panic(catch(|| -> Res {
        let mut r = c.rng.fork();
        let mk = |i: usize| -> String { if arena_limit { let mut s = format!("{i:08}"); let b = (b'a' + (i % 26) as u8) as char; while s.len() < 255.min(N) { s.push(b); } s } else { let s = huge_str(i, 0, seed); s.chars().take(N.min(s.len())).filter(|ch| ch.is_ascii()).collect() } };
        let mut v: FixedLenStrVec<N> = if r.bool() { FixedLenStrVec::with_capacity(65537) } else { FixedLenStrVec::new() };
        let mut stored = 0usize; let mut bytes = 0usize; let mut refused = 0u64;
        for i in 0..n { let s = mk(i); let res = v.push(&s);
            if bytes + s.len() >= (1 << 24) { if res.is_ok() { return Err(bad("limit_accepted", format!("push accepted with arena at {bytes} + {} bytes (documented limit 16 MiB)", s.len()))); } refused += 1; if stored != i { continue; } }
            else { must(res, "push")?; if stored != i { return Err(bad("driver", "accepted after refusal".into())); } stored += 1; bytes += s.len(); }
            if v.len() != stored { return Err(bad("len", format!("len {} want {stored}", v.len()))); }
            if i % 8192 == 0 || i == 65535 || i == 65536 || i == 65537 { opt_eq("get", stored - 1, v.get(stored - 1), Some(&mk(stored - 1)))?; opt_eq("get", stored, v.get(stored), None)?; c.ev(2); } }
        if arena_limit && N >= 255 && refused == 0 { return Err(bad("driver", "arena limit not reached".into())); }
        c.note("limit_refused", refused);
        // end game at the limit: walk the arena to exactly 2^24 - 1 bytes, then offer 1-byte and empty strings. Whether a push is
        // accepted there is the container's business; every ACCEPTED push must read back, and nothing stored earlier may change
        let mut tail: Vec<(usize, String)> = Vec::new();
        if arena_limit && (1usize << 24) - bytes <= 600 {
            let mut offer = |v: &mut FixedLenStrVec<N>, s: String, stored: &mut usize, bytes: &mut usize, tail: &mut Vec<(usize, String)>| -> Res {
                if v.push(&s).is_ok() { let i = *stored; *stored += 1; *bytes += s.len(); if v.len() != *stored { return Err(bad("len", format!("len {} want {} after a push at arena size {}", v.len(), *stored, *bytes - s.len()))); }
                    if v.get(i) != Some(s.as_str()) { return Err(bad("content", format!("push({s:?}) accepted with the arena at {} bytes, get({i}) = {:?}", *bytes - s.len(), v.get(i)))); } tail.push((i, s)); }
                else if v.len() != *stored { return Err(bad("len", format!("len {} want {} after a refused push", v.len(), *stored))); }
                Ok(()) };
            while (1usize << 24) - bytes > 1 { let l = ((1usize << 24) - bytes - 1).min(N).min(255); let before = bytes; offer(&mut v, "z".repeat(l), &mut stored, &mut bytes, &mut tail)?; if bytes == before { break; } }
            c.note("endgame_arena_bytes_below_limit", ((1usize << 24) - bytes) as u64);
            for s in ["q", "", "", "r", "", "st", ""] { offer(&mut v, s.to_string(), &mut stored, &mut bytes, &mut tail)?; c.ev(1); }
            for (i, s) in &tail { if v.get(*i) != Some(s.as_str()) { return Err(bad("content", format!("get({i}) = {:?} want {s:?} (stored during the end game at the arena limit)", v.get(*i)))); } if v.get_bytes(*i) != Some(s.as_bytes()) { return Err(bad("content", format!("get_bytes({i}) after the end game"))); } }
            opt_eq("get", stored, v.get(stored), None)?;
        }
        let stored_main = stored - tail.len(); let stored = stored_main;
        for i in huge_positions(stored, &mut r, 4000) { let w = mk(i); opt_eq("get", i, v.get(i), Some(&w))?; if v.get_bytes(i) != Some(w.as_bytes()) { return Err(bad("content", format!("get_bytes({i})"))); } c.ev(2); }
        if arena_limit { for i in [0usize, stored - 1, stored / 2] { let w = mk(i); if v.find_exact(&w) != Some(i) { return Err(bad("find_exact", format!("find_exact of string {i} = {:?}", v.find_exact(&w)))); } } }
        Ok(())
    }))
}

fn drive_bitpacked_huge<V: StrPushGet + Clone>(c: &mut Case, mk: fn() -> V) -> Res {
    let (n, _shape, _seed, mut m) = huge_pool(c); let lp = c.rng.usize_below(n);
    wrap_panic(catch(|| -> Res {
        let mut r = c.rng.fork();
        for (j, &l) in [65535usize, 65536, 65537, (1 << 20) + 1].iter().enumerate() { let pos = (lp + j * 1000) % m.len(); m[pos] = std::iter::repeat((b'A' + j as u8) as char).take(l).collect(); }
        let mut v = mk();
        for (i, s) in m.iter().enumerate() { let id = v.spush(s).map_err(|e| bad("op_err", format!("push: {e}")))?; if id != i { return Err(bad("push_id", format!("push returned {id} want {i}"))); } }
        let check = |v: &V, r: &mut Rng, c: &mut Case| -> Res {
            if v.slen() != m.len() { return Err(bad("len", format!("len {} want {}", v.slen(), m.len()))); }
            for i in huge_positions(m.len(), r, 4000) { opt_eq("get", i, v.sget(i), Some(&m[i]))?; if v.sget_bytes(i) != Some(m[i].as_bytes()) { return Err(bad("content", format!("get_bytes({i})"))); } }
            opt_eq("get", m.len(), v.sget(m.len()), None)?;
            let it = v.siter(); if it.len() != m.len() { return Err(bad("iter", "iter() length".into())); } for i in 0..it.len() { if it[i] != m[i] { return Err(bad("iter", format!("iter() element {i} differs"))); } }
            c.ev(m.len() as u64 + 8000); Ok(()) };
        check(&v, &mut r, c)?;
        let mut cl = v.clone(); let id = cl.spush("only in the clone").map_err(|e| bad("op_err", e))?; if id != m.len() || cl.sget(id) != Some("only in the clone") || v.slen() != m.len() { return Err(bad("clone_content", "clone diverge".into())); }
        check(&v, &mut r, c)?;
        let w = m.iter().position(|x| x == &m[m.len() - 1]); if v.sfind(&m[m.len() - 1]) != w { return Err(bad("find", "find_simd of the last string".into())); }
        Ok(())
    }))
}

fn drive_advstr_huge(c: &mut Case, level: u8) -> Res {
    let n = if level >= 2 { 66_000 } else { *c.rng.pick(&[65537usize, 131_074]) } + c.rng.usize_below(3); let seed = c.rng.next(); let shape = if level >= 2 { 0 } else { c.rng.below(3) as u32 };
    c.input_str("n", &n.to_string()); c.input_str("shape", &shape.to_string()); c.input_str("seed", &seed.to_string()); c.set_nontrivial(true);
    let cfg = { let mut k = match level { 3 => AdvancedStringConfig::memory_optimized(), 2 => AdvancedStringConfig::balanced(), _ => AdvancedStringConfig::default() }; k.compression_level = level; k };
    wrap_panic(catch(|| -> Res {
        let mut r = c.rng.fork();
        let mut v = AdvancedStringVec::with_config(cfg.clone()); let mut m: Vec<String> = Vec::with_capacity(n); let mut dedup = 0u64;
        for i in 0..n { let s = huge_str(i, shape, seed); let id = must(v.push(&s), "push")?;
            if id == m.len() { m.push(s); } else if id < m.len() { if level == 0 { return Err(bad("push_id", format!("level 0 push returned existing handle {id}"))); } if m[id] != s { return Err(bad("dedup_wrong", format!("push {i} returned handle {id} which holds a different string"))); } dedup += 1; } else { return Err(bad("push_id", format!("push returned handle {id} > len {}", m.len()))); }
            if i % 4096 == 0 || (65534..65539).contains(&i) { opt_eq("get", id, v.get(id), Some(&m[id])).map_err(|f| bad("get_after_push", f.detail))?; if v.len() != m.len() { return Err(bad("len", format!("len {} want {} handles", v.len(), m.len()))); } c.ev(2); } }
        c.note("dedup_hits", dedup); c.note("handles", m.len() as u64);
        let check = |v: &AdvancedStringVec, r: &mut Rng, c: &mut Case| -> Res {
            if v.len() != m.len() { return Err(bad("len", format!("len {} want {} handles", v.len(), m.len()))); }
            for i in huge_positions(m.len(), r, 4000) { opt_eq("get", i, v.get(i), Some(&m[i]))?; if v.get_bytes(i) != Some(m[i].as_bytes()) { return Err(bad("content", format!("get_bytes({i})"))); } }
            opt_eq("get", m.len(), v.get(m.len()), None)?;
            let mut k = 0; for (i, s) in v.iter().enumerate() { if s != m[i] { return Err(bad("iter", format!("iter() element {i} differs"))); } k += 1; } if k != m.len() { return Err(bad("iter", "iter() length".into())); }
            c.ev(m.len() as u64 + 8000); Ok(()) };
        check(&v, &mut r, c)?;
        let cl = v.clone(); check(&cl, &mut r, c).map_err(|f| bad(&format!("clone_{}", f.oracle), f.detail))
    }))
}

// ---------------------------------------------------------------------------------------------
// gap_ families: API variants of the same containers that the families above never call (unchecked / slice / iterator
// accessors, alias methods, alternative constructors and presets, sync + reopen, batch variants). Oracles are the same models.
// ---------------------------------------------------------------------------------------------
/// FastVec<Tracked>; element access through get_unchecked / get_unchecked_mut (index always in range).
pub struct FvGap(FastVec<Tracked>);
impl VecSut for FvGap {
    type E = Tracked; const KINDS: &'static [(K, u32)] = FV_KINDS; const NCFG: usize = 4;
    fn create(cfg: usize, next: &mut u64) -> Result<(Self, Vec<u64>), Fail> { fv_create(cfg, next).map(|(v, m)| (FvGap(v), m)) }
    fn apply(&mut self, op: &VOp, m: &mut Vec<u64>, next: &mut u64, c: &mut Case) -> Res {
        match op.k {
            K::Mutate => { if op.a < m.len() { let id = nid(next); unsafe { *self.0.get_unchecked_mut(op.a) = Tracked::mk(id); } m[op.a] = id; c.note("unchecked_mut", 1); } Ok(()) }
            K::Probe => { for i in 0..m.len() { let t = unsafe { self.0.get_unchecked(i) }; if t.id != m[i] || !t.intact() { return Err(bad("content", format!("get_unchecked({i}) is {} want {}", t.id, m[i]))); } }
                if m.len() >= 2 { let (i, j) = (0, m.len() - 1); let a = std::mem::replace(unsafe { self.0.get_unchecked_mut(i) }, Tracked::mk(0)); let b = std::mem::replace(unsafe { self.0.get_unchecked_mut(j) }, a); drop(std::mem::replace(unsafe { self.0.get_unchecked_mut(i) }, b)); m.swap(i, j); }
                c.ev(m.len() as u64); Ok(()) }
            _ => if fv_common(&mut self.0, op, m, next, c)? { Ok(()) } else { Err(bad("driver", format!("unsupported op {:?}", op.k))) },
        }
    }
    fn snapshot(&self) -> Result<Vec<u64>, Fail> { snap_slice(self.0.as_slice()) }
    fn sut_len(&self) -> usize { self.0.len() }
    fn try_clone(&self) -> Result<Option<Self>, Fail> { Ok(fv_clone(&self.0)?.map(FvGap)) }
}

fn vv_gap_create<E: Elem>(cfg: usize) -> Result<(ValVec32<E>, Vec<u64>), Fail> {
    let pool = must(zipora::memory::SecureMemoryPool::new(zipora::memory::SecurePoolConfig::small_secure()), "SecureMemoryPool::new")?;
    let v = must(ValVec32::with_secure_pool([0u32, 1, 10, 100][cfg % 4], pool), "with_secure_pool")?;
    Ok((v, vec![]))
}
fn vv_gap_probe<E: Elem>(v: &mut ValVec32<E>, m: &[u64]) -> Res {
    if v.capacity_usize() != v.capacity() as usize || v.capacity_usize() < m.len() { return Err(bad("capacity", format!("capacity_usize {} capacity {} len {}", v.capacity_usize(), v.capacity(), m.len()))); }
    let got: Vec<u64> = v.iter_mut().map(|t| t.id()).collect(); cmp_model("iter_mut", &got, m)?;
    let got: Vec<u64> = v.as_mut_slice().iter().map(|t| t.id()).collect(); cmp_model("as_mut_slice", &got, m)
}
/// ValVec32<Tracked>: with_secure_pool constructor, unchecked_push when there is spare capacity, mutation through
/// as_mut_slice / iter_mut (no `set`: see valvec32_set).
pub struct VvGap(ValVec32<Tracked>);
impl VecSut for VvGap {
    type E = Tracked; const KINDS: &'static [(K, u32)] = VV_KINDS_NOSET; const NCFG: usize = 4;
    fn create(cfg: usize, _next: &mut u64) -> Result<(Self, Vec<u64>), Fail> { vv_gap_create(cfg).map(|(v, m)| (VvGap(v), m)) }
    fn apply(&mut self, op: &VOp, m: &mut Vec<u64>, next: &mut u64, c: &mut Case) -> Res {
        let v = &mut self.0;
        match op.k {
            K::Push if v.len() < v.capacity() => { let id = nid(next); unsafe { v.unchecked_push(Tracked::mk(id)); } m.push(id); c.note("unchecked_push", 1); Ok(()) }
            K::Mutate => { if op.a < m.len() { let id = nid(next); if op.a % 2 == 0 { v.as_mut_slice()[op.a] = Tracked::mk(id); } else { *v.iter_mut().nth(op.a).ok_or_else(|| bad("iter_mut", format!("iter_mut().nth({}) is None with len {}", op.a, m.len())))? = Tracked::mk(id); } m[op.a] = id; } Ok(()) }
            K::Probe => { vv_gap_probe(v, m)?; if vv_common(v, op, m, next, c)? { Ok(()) } else { Err(bad("driver", "probe".into())) } }
            _ => if vv_common(v, op, m, next, c)? { Ok(()) } else { Err(bad("driver", format!("unsupported op {:?}", op.k))) },
        }
    }
    fn snapshot(&self) -> Result<Vec<u64>, Fail> { snap_slice(self.0.as_slice()) }
    fn sut_len(&self) -> usize { self.0.len() as usize }
    fn try_clone(&self) -> Result<Option<Self>, Fail> { Ok(vv_clone(&self.0)?.map(VvGap)) }
}
/// ValVec32<u64>: unchecked_push_copy, as_mut_slice / iter_mut.
pub struct VvGapU64(ValVec32<u64>);
impl VecSut for VvGapU64 {
    type E = u64; const KINDS: &'static [(K, u32)] = VVC_KINDS; const NCFG: usize = 4;
    fn create(cfg: usize, _next: &mut u64) -> Result<(Self, Vec<u64>), Fail> { vv_gap_create(cfg).map(|(v, m)| (VvGapU64(v), m)) }
    fn apply(&mut self, op: &VOp, m: &mut Vec<u64>, next: &mut u64, c: &mut Case) -> Res {
        let v = &mut self.0;
        match op.k {
            K::Push if v.len() < v.capacity() => { let id = nid(next); unsafe { v.unchecked_push_copy(u64::mk(id)); } m.push(u64::norm(id)); c.note("unchecked_push", 1); Ok(()) }
            K::Mutate => { if op.a < m.len() { let id = nid(next); if op.a % 2 == 0 { v.as_mut_slice()[op.a] = u64::mk(id); } else { *v.iter_mut().nth(op.a).ok_or_else(|| bad("iter_mut", format!("iter_mut().nth({}) is None with len {}", op.a, m.len())))? = u64::mk(id); } m[op.a] = u64::norm(id); } Ok(()) }
            K::Probe => { vv_gap_probe(v, m)?; <ValVec32<u64> as VecSut>::apply(v, op, m, next, c) }
            _ => <ValVec32<u64> as VecSut>::apply(v, op, m, next, c),
        }
    }
    fn snapshot(&self) -> Result<Vec<u64>, Fail> { snap_slice(self.0.as_slice()) }
    fn sut_len(&self) -> usize { self.0.len() as usize }
    fn try_clone(&self) -> Result<Option<Self>, Fail> { Ok(vv_clone(&self.0)?.map(VvGapU64)) }
}
/// CacheAlignedVec<Tracked>: mutation through as_mut_slice.
pub struct CvGap(CacheAlignedVec<Tracked>);
impl VecSut for CvGap {
    type E = Tracked; const KINDS: &'static [(K, u32)] = CV_KINDS; const NCFG: usize = 3;
    fn create(cfg: usize, next: &mut u64) -> Result<(Self, Vec<u64>), Fail> { <CacheAlignedVec<Tracked> as VecSut>::create(cfg, next).map(|(v, m)| (CvGap(v), m)) }
    fn apply(&mut self, op: &VOp, m: &mut Vec<u64>, next: &mut u64, c: &mut Case) -> Res {
        match op.k {
            K::Mutate => { let s = self.0.as_mut_slice(); if s.len() != m.len() { return Err(bad("len", format!("as_mut_slice().len() {} want {}", s.len(), m.len()))); } if op.a < m.len() { let id = nid(next); s[op.a] = Tracked::mk(id); m[op.a] = id; if m.len() >= 2 { let l = m.len() - 1; s.swap(0, l); m.swap(0, l); } } Ok(()) }
            _ => <CacheAlignedVec<Tracked> as VecSut>::apply(&mut self.0, op, m, next, c),
        }
    }
    fn snapshot(&self) -> Result<Vec<u64>, Fail> { snap_slice(self.0.as_slice()) }
    fn sut_len(&self) -> usize { self.0.len() }
}

/// AutoGrowCircularQueue through the alias methods push / pop (single steps and the expansion of bulk steps).
fn drive_autoq_alias(c: &mut Case) -> Res {
    mon::tracked_reset();
    let cap0 = *c.rng.pick(autoq_caps()); let n = c.rng.urange(60, 320);
    let mut steps: Vec<QStep> = vec![]; let (mut has_b, mut la, mut lb) = (false, 0usize, 0usize);
    random_q_ops(&mut c.rng, n, 100, &mut steps, &mut has_b, &mut la, &mut lb, false);
    c.input_str("cap0", &if cap0 == usize::MAX { "new".to_string() } else { cap0.to_string() }); c.input_str("ops", &encode_q(&steps)); c.set_nontrivial(steps.len() >= 8);
    autoq_tag(c, cap0, &steps);
    wrap_panic(catch(|| -> Res {
        let mut q: AutoGrowCircularQueue<Tracked> = if cap0 == usize::MAX { AutoGrowCircularQueue::new() } else { AutoGrowCircularQueue::with_capacity(cap0) };
        let mut m: VecDeque<u64> = VecDeque::new(); let mut next = 1u64;
        let pop1 = |q: &mut AutoGrowCircularQueue<Tracked>, m: &mut VecDeque<u64>, c: &mut Case, i: usize| -> Res { let g = q.pop(); let w = m.pop_front(); match (&g, w) { (None, None) => { c.note("pop_empty", 1); Ok(()) } (Some(t), Some(w)) if t.id == w && t.intact() => Ok(()), _ => Err(bad("pop", format!("step {i}: pop {:?} want {w:?}", g.as_ref().map(|t| t.id)))) } };
        for (i, st) in steps.iter().enumerate() {
            match st.op {
                Q::Push => { let id = nid(&mut next); must(q.push(Tracked::new(id)), "push")?; m.push_back(id); }
                Q::Pop => pop1(&mut q, &mut m, c, i)?,
                Q::PushBulk(k) => { if i % 2 == 0 { for _ in 0..k { let id = nid(&mut next); must(q.push(Tracked::new(id)), "push")?; m.push_back(id); } } else { let items: Vec<Tracked> = (0..k).map(|_| Tracked::new(nid(&mut next))).collect(); let n = must(q.push_bulk(&items), "push_bulk")?; if n != k { return Err(bad("push_bulk", format!("step {i}: push_bulk returned {n} want {k}"))); } m.extend(items.iter().map(|t| t.id)); } }
                Q::PopBulk(k) => { for _ in 0..k.min(m.len() + 1) { pop1(&mut q, &mut m, c, i)?; } }
                Q::Reserve(k) => { must(q.reserve(k), "reserve")?; }
                Q::Clear => { q.clear(); m.clear(); }
                Q::Deep | Q::Clone => { let mut cl = q.clone(); for (j, &w) in m.iter().enumerate() { match cl.pop() { Some(t) if t.id == w && t.intact() => {} o => return Err(bad("clone_content", format!("step {i}: clone element {j} is {:?} want {w}", o.map(|t| t.id)))) } } if cl.pop().is_some() { return Err(bad("clone_len", format!("step {i}: clone holds extra elements"))); } c.ev(m.len() as u64 + 1); }
            }
            if q.len() != m.len() || q.is_empty() != m.is_empty() { return Err(bad("len", format!("step {i} {:?}: len {} want {}", st.op, q.len(), m.len()))); }
            if q.front().map(|t| t.id) != m.front().copied() || q.back().map(|t| t.id) != m.back().copied() { return Err(bad("front", format!("step {i} {:?}: front/back {:?}/{:?} want {:?}/{:?}", st.op, q.front().map(|t| t.id), q.back().map(|t| t.id), m.front(), m.back()))); }
            live_check(m.len(), "after op").map_err(|f| bad(&f.oracle, format!("step {i} {:?}: {}", st.op, f.detail)))?; c.ev(4);
        }
        let keep = c.rng.usize_below(m.len() + 1);
        while m.len() > keep { pop1(&mut q, &mut m, c, usize::MAX)?; c.ev(1); }
        live_check(m.len(), "after partial drain")?; drop(q); live_check(0, "after dropping the queue")
    }))
}

/// Several BumpVecs living in one arena together with raw alloc_bytes / alloc_slice blocks: every vector must keep its own
/// sequence (mutation through as_mut_slice included), raw blocks keep their fill pattern (no overlap), and after all vectors are
/// gone and the arena is reset() a new generation of vectors behaves the same.
fn drive_bumpvec_arena(c: &mut Case) -> Res {
    mon::tracked_reset();
    let arena_sz = *c.rng.pick(&[512usize, 2048, 8192, 65536]); let n_ops = c.rng.urange(60, 320);
    let ops: Vec<(u8, u16)> = (0..n_ops).map(|_| (c.rng.below(16) as u8, c.rng.below(1 << 16) as u16)).collect();
    c.input_str("arena", &arena_sz.to_string()); c.input("ops", &ops.iter().flat_map(|o| [o.0, o.1 as u8, (o.1 >> 8) as u8]).collect::<Vec<u8>>()); c.set_nontrivial(true);
    wrap_panic(catch(|| -> Res {
        let arena = must(BumpAllocator::new(arena_sz), "BumpAllocator::new")?;
        let mut next = 1u64;
        for generation in 0..2 {
            let mut ts: Vec<(BumpVec<Tracked>, Vec<u64>, usize)> = vec![]; let mut us: Vec<(BumpVec<u64>, Vec<u64>, usize)> = vec![];
            let mut blocks: Vec<(*mut u8, usize, u8)> = vec![];
            for (i, &(o, x)) in ops.iter().enumerate() {
                let x = x as usize;
                match o {
                    0 => { let cap = 1 + x % 20; let pred = arena.can_allocate(cap * std::mem::size_of::<Tracked>(), std::mem::align_of::<Tracked>()); match BumpVec::<Tracked>::new_in(&arena, cap) { Ok(v) => { if v.capacity() != cap || !v.is_empty() { return Err(bad("ctor", format!("step {i}: new_in({cap}) has capacity {} len {}", v.capacity(), v.len()))); } if !pred { c.note("can_allocate_disagrees", 1); } ts.push((v, vec![], cap)); } Err(_) => { c.note("arena_full_refused", 1); if pred { c.note("can_allocate_disagrees", 1); } } } }
                    1 => { let cap = 1 + x % 33; match BumpVec::<u64>::new_in(&arena, cap) { Ok(v) => us.push((v, vec![], cap)), Err(_) => { c.note("arena_full_refused", 1); } } }
                    2 => { let size = 1 + x % 48; let align = 1usize << (x % 7); if let Ok(p) = arena.alloc_bytes(size, align) { if (p.as_ptr() as usize) % align != 0 { return Err(bad("alignment", format!("step {i}: alloc_bytes({size},{align}) returned a misaligned pointer"))); } let pat = 0x80 | (i as u8); unsafe { std::ptr::write_bytes(p.as_ptr(), pat, size); } blocks.push((p.as_ptr(), size, pat)); } else { c.note("arena_full_refused", 1); } }
                    3 => { let k = 1 + x % 12; if let Ok(p) = arena.alloc_slice::<u32>(k) { let pat = 0x40 | (i as u8 & 0x3f); let raw = p.as_ptr() as *mut u8; if p.len() != k { return Err(bad("len", format!("step {i}: alloc_slice({k}) has len {}", p.len()))); } unsafe { std::ptr::write_bytes(raw, pat, k * 4); } blocks.push((raw, k * 4, pat)); } else { c.note("arena_full_refused", 1); } }
                    4..=9 => { let id = nid(&mut next); if o % 2 == 0 { if !ts.is_empty() { let k = x % ts.len(); let (v, m, cap) = &mut ts[k]; let r = v.push(Tracked::new(id)); if m.len() < *cap { must(r, "push")?; m.push(id); } else { if r.is_ok() { return Err(bad("full_accepted", format!("step {i}: push accepted at len {} == capacity", m.len()))); } c.note("full_refused", 1); } } }
                        else if !us.is_empty() { let k = x % us.len(); let (v, m, cap) = &mut us[k]; let r = v.push(u64::mk(id)); if m.len() < *cap { must(r, "push")?; m.push(u64::norm(id)); } else { if r.is_ok() { return Err(bad("full_accepted", format!("step {i}: push accepted at len {} == capacity", m.len()))); } c.note("full_refused", 1); } } }
                    10 | 11 => { if o == 10 { if !ts.is_empty() { let k = x % ts.len(); let (v, m, _) = &mut ts[k]; let g = v.pop().map(|t| t.id); let w = m.pop(); if g != w { return Err(bad("pop", format!("step {i}: pop {g:?} want {w:?}"))); } if w.is_none() { c.note("pop_empty", 1); } } }
                        else if !us.is_empty() { let k = x % us.len(); let (v, m, _) = &mut us[k]; let g = v.pop(); let w = m.pop(); if g != w { return Err(bad("pop", format!("step {i}: pop {g:?} want {w:?}"))); } if w.is_none() { c.note("pop_empty", 1); } } }
                    12 | 13 => { let id = nid(&mut next); if o == 12 { if !ts.is_empty() { let k = x % ts.len(); let (v, m, _) = &mut ts[k]; let s = v.as_mut_slice(); if s.len() != m.len() { return Err(bad("len", format!("step {i}: as_mut_slice().len() {} want {}", s.len(), m.len()))); } if !m.is_empty() { let j = (x / 7) % m.len(); s[j] = Tracked::new(id); m[j] = id; let l = m.len() - 1; s.swap(0, l); m.swap(0, l); c.note("as_mut_slice_writes", 1); } } }
                        else if !us.is_empty() { let k = x % us.len(); let (v, m, _) = &mut us[k]; let s = v.as_mut_slice(); if s.len() != m.len() { return Err(bad("len", format!("step {i}: as_mut_slice().len() {} want {}", s.len(), m.len()))); } if !m.is_empty() { let j = (x / 7) % m.len(); s[j] = u64::mk(id); m[j] = u64::norm(id); s.reverse(); m.reverse(); c.note("as_mut_slice_writes", 1); } } }
                    14 => { if !ts.is_empty() && x % 3 == 0 { let k = x % ts.len(); ts.remove(k); } }
                    _ => { if !us.is_empty() && x % 3 == 0 { let k = x % us.len(); us.remove(k); } }
                }
                let mut held = 0;
                for (k, (v, m, cap)) in ts.iter().enumerate() { cmp_model(&format!("step {i}: tracked vec {k}"), &snap_slice(v.as_slice())?, m)?; if v.len() != m.len() || v.capacity() != *cap || v.is_empty() != m.is_empty() { return Err(bad("len", format!("step {i}: len/capacity of tracked vec {k}"))); } held += m.len(); }
                for (k, (v, m, cap)) in us.iter().enumerate() { cmp_model(&format!("step {i}: u64 vec {k}"), v.as_slice(), m)?; if v.len() != m.len() || v.capacity() != *cap { return Err(bad("len", format!("step {i}: len/capacity of u64 vec {k}"))); } }
                for &(p, n, pat) in &blocks { let s = unsafe { std::slice::from_raw_parts(p, n) }; if s.iter().any(|&b| b != pat) { return Err(bad("arena_overlap", format!("step {i}: a raw block of {n} bytes allocated from the same arena was overwritten by vector operations"))); } }
                live_check(held, "after op").map_err(|f| bad(&f.oracle, format!("step {i} (generation {generation}): {}", f.detail)))?; c.ev(held as u64 + 2);
            }
            let held: usize = ts.iter().map(|t| t.1.len()).sum();
            if !ts.is_empty() { let (_, m, _) = ts.remove(0); live_check(held - m.len(), "after dropping one vector")?; }
            ts.clear(); us.clear(); blocks.clear(); live_check(0, "after dropping all vectors")?;
            // no outstanding allocation is used any more: reset() and run the same history on the recycled arena
            unsafe { arena.reset(); }
            if arena.remaining_bytes() != arena.capacity() || arena.allocated_bytes() != 0 { c.note("reset_counters_off", 1); }
        }
        Ok(())
    }))
}

/// MmapVec: configuration presets and builder switches; sync() + open() must give back the element sequence, histories
/// continue on the reopened vector; finally a read-only open (refused mutations leave the content alone).
fn mmap_gap_config(k: usize) -> MmapVecConfig {
    match k % 9 { 0 => MmapVecConfig::memory_optimized(), 1 => MmapVecConfig::performance_optimized(), 2 => MmapVecConfig::realtime(), 3 => MmapVecConfig::persistent_cache(), 4 => MmapVecConfig::large_dataset(),
        5 => MmapVecConfig::builder().with_initial_capacity(3).with_populate_pages(true).with_huge_pages(false).build(), 6 => MmapVecConfig::builder().with_initial_capacity(0).with_huge_pages(true).with_growth_factor(1.3).build(),
        7 => MmapVecConfig::builder().with_initial_capacity(7).with_read_only(false).with_populate_pages(false).build(), _ => MmapVecConfig::default() }
}
fn drive_mmap_reopen<T: Elem + Copy>(c: &mut Case, idx: u64) -> Res {
    let k0 = idx as usize % 9; let phases = c.rng.urange(2, 4);
    let heavy = k0 == 3 || k0 == 4; // sync_on_write / 1M-element files: short histories
    let plan: Vec<(usize, Vec<(u8, usize)>)> = (0..phases).map(|_| { let k = if c.rng.bool() { k0 } else { c.rng.usize_below(9) }; let k = if k == 4 && k0 != 4 { 0 } else { k }; let n = if heavy { c.rng.urange(5, 14) } else { c.rng.urange(10, 50) }; (k, (0..n).map(|_| (c.rng.below(12) as u8, c.rng.usize_below(64))).collect()) }).collect();
    c.input_str("preset", &k0.to_string()); c.input_str("plan", &format!("{plan:?}")); c.set_nontrivial(true);
    wrap_panic(catch(|| -> Res {
        let dir = tempfile::tempdir().map_err(|e| bad("__inconclusive", format!("tempdir: {e}")))?; let path = dir.path().join("r.mv");
        let mut v = match MmapVec::<T>::create(&path, mmap_gap_config(k0)) { Ok(v) => v, Err(_) => { c.note("create_refused", 1); return Ok(()); } };
        let mut m: Vec<u64> = vec![]; let mut next = 1u64;
        for (ph, (k, ops)) in plan.iter().enumerate() {
            if ph > 0 {
                must(v.sync(), "sync")?; drop(v);
                v = must(MmapVec::<T>::open(&path, mmap_gap_config(*k)), "MmapVec::open (after sync)")?;
                if v.path() != path.as_path() { return Err(bad("path", "path() differs from the path given to open".into())); }
                cmp_model("reopened", &snap_slice(v.as_slice())?, &m).map_err(|f| bad(&format!("reopen_{}", f.oracle), format!("phase {ph} preset {k}: {}", f.detail)))?;
                if v.len() != m.len() || v.capacity() < m.len() { return Err(bad("reopen_len", format!("phase {ph}: len {} capacity {} want len {}", v.len(), v.capacity(), m.len()))); }
                c.note("reopens", 1); c.ev(m.len() as u64 + 1);
            }
            for (i, &(o, x)) in ops.iter().enumerate() {
                let ctxs = |f: Fail| Fail { oracle: f.oracle, detail: format!("phase {ph} step {i} op {o}({x}): {}", f.detail) };
                match o {
                    0..=3 => { let id = nid(&mut next); must(v.push(T::mk(id)), "push").map_err(ctxs)?; m.push(T::norm(id)); }
                    4 => { let g = v.pop().map(|t| t.id()); let w = m.pop(); if g != w { return Err(ctxs(bad("pop", format!("pop {g:?} want {w:?}")))); } }
                    5 => { let items: Vec<T> = fresh(x % 40, &mut next, Some(&mut m)); must(v.extend(items.into_iter()), "extend").map_err(ctxs)?; }
                    6 => { let n = x % (m.len() + 3); must(v.truncate(n), "truncate").map_err(ctxs)?; m.truncate(n); }
                    7 => { let s = v.as_mut_slice(); if s.len() != m.len() { return Err(ctxs(bad("len", format!("as_mut_slice().len() {} want {}", s.len(), m.len())))); } if !m.is_empty() { let j = x % m.len(); let id = nid(&mut next); s[j] = T::mk(id); m[j] = T::norm(id); s.reverse(); m.reverse(); } }
                    8 => { let id = nid(&mut next); let n = if heavy { x % 40 } else { x * 3 }; must(v.resize(n, T::mk(id)), "resize").map_err(ctxs)?; m.resize(n, T::norm(id)); }
                    9 => { must(v.reserve(x), "reserve").map_err(ctxs)?; if v.capacity() < m.len() + x { return Err(ctxs(bad("capacity", format!("capacity {} after reserve({x}) len {}", v.capacity(), m.len())))); } }
                    10 => { must(v.shrink_to_fit(), "shrink_to_fit").map_err(ctxs)?; }
                    _ => { let src: Vec<T> = fresh(x % 30, &mut next, Some(&mut m)); must(v.push_bulk_simd(&src), "push_bulk_simd").map_err(ctxs)?; }
                }
                cmp_model("content", &snap_slice(v.as_slice())?, &m).map_err(ctxs)?; if v.len() != m.len() || v.is_empty() != m.is_empty() { return Err(ctxs(bad("len", format!("len {} want {}", v.len(), m.len())))); } c.ev(m.len() as u64 + 1);
            }
        }
        must(v.sync(), "sync")?; drop(v);
        let ro = if c.rng.bool() { MmapVecConfig::read_only() } else { MmapVecConfig::builder().with_read_only(true).build() };
        let mut v = must(MmapVec::<T>::open(&path, ro), "MmapVec::open read-only (after sync)")?;
        cmp_model("read-only reopened", &snap_slice(v.as_slice())?, &m).map_err(|f| bad(&format!("reopen_{}", f.oracle), f.detail))?;
        for i in 0..m.len().min(50) { if v.get(i).map(|t| t.id()) != Some(m[i]) { return Err(bad("get", format!("read-only get({i})"))); } } if v.get(m.len()).is_some() { return Err(bad("oob_accepted", "read-only get(len)".into())); }
        // mutation attempts on a read-only vector: whatever is accepted must follow the model, whatever is refused must leave the content alone
        if v.push(T::mk(9_999_999)).is_ok() { m.push(T::norm(9_999_999)); c.note("ro_mutation_accepted", 1); } else { c.note("ro_mutation_refused", 1); }
        if let Some(t) = v.pop() { if Some(t.id()) != m.pop() { return Err(bad("pop", "read-only pop returned a value that is not the last element".into())); } c.note("ro_mutation_accepted", 1); } else { c.note("ro_mutation_refused", 1); }
        if v.clear().is_ok() { m.clear(); c.note("ro_mutation_accepted", 1); } else { c.note("ro_mutation_refused", 1); }
        if v.truncate(m.len() / 2).is_ok() { m.truncate(m.len() / 2); c.note("ro_mutation_accepted", 1); } else { c.note("ro_mutation_refused", 1); }
        if v.get_mut(0).is_some() { c.note("ro_mutation_accepted", 1); }
        cmp_model("read-only after mutation attempts", &snap_slice(v.as_slice())?, &m)?; if v.len() != m.len() { return Err(bad("len", format!("read-only len {} want {}", v.len(), m.len()))); }
        c.ev(m.len() as u64 + 60); Ok(())
    }))
}

/// ZoSortedStrVec persistence API: save_to_file / from_mmap. A refusal (Err) is held; an accepted save must load back equal.
fn drive_zosorted_save_load(c: &mut Case) -> Res {
    let n = c.rng.urange(0, 60); let ss = gen_strings(&mut c.rng, n, 24, false); record_strings(c, &ss); c.set_nontrivial(n >= 2);
    wrap_panic(catch(|| -> Res {
        let mut m = ss.clone(); m.sort(); m.dedup();
        let v = must(ZoSortedStrVec::from_strings(ss.clone()), "from_strings")?;
        let dir = tempfile::tempdir().map_err(|e| bad("__inconclusive", format!("tempdir: {e}")))?; let path = dir.path().join("z.bin");
        match v.save_to_file(&path) {
            Err(_) => { c.note("save_refused", 1); }
            Ok(()) => { let f = std::fs::File::open(&path).map_err(|e| bad("save_no_file", format!("save_to_file returned Ok but the file cannot be opened: {e}")))?;
                let l = must(ZoSortedStrVec::from_mmap(f), "from_mmap of a file written by save_to_file")?;
                if l.len() != m.len() { return Err(bad("load_len", format!("loaded len {} want {}", l.len(), m.len()))); } for i in 0..m.len() { opt_eq("loaded get", i, l.get(i), Some(&m[i]))?; } c.note("save_load_roundtrips", 1); c.ev(m.len() as u64); }
        }
        // a file that was not written by save_to_file: Err or a usable vector, never a panic
        std::fs::write(&path, c.rng.bytes(n * 3)).map_err(|e| bad("__inconclusive", format!("write: {e}")))?;
        if let Ok(f) = std::fs::File::open(&path) { match ZoSortedStrVec::from_mmap(f) { Err(_) => { c.note("load_refused", 1); } Ok(l) => { for i in 0..l.len().min(100) { let _ = l.get(i); } c.note("load_garbage_accepted", 1); } } }
        // the vector itself is unaffected by the save attempt
        if v.len() != m.len() { return Err(bad("len", format!("len {} want {}", v.len(), m.len()))); } for i in 0..m.len() { opt_eq("get", i, v.get(i), Some(&m[i]))?; } c.ev(m.len() as u64 + 1);
        Ok(())
    }))
}

/// BitPackedStringVec: extend(iter) == the sequence of single pushes (returned ids included), is_empty, the large_dataset preset.
trait StrExtend: StrPushGet { fn sextend(&mut self, ss: &[String]) -> Result<Vec<usize>, String>; fn sempty(&self) -> bool; }
impl StrExtend for BitPackedStringVec32 { fn sextend(&mut self, ss: &[String]) -> Result<Vec<usize>, String> { self.extend(ss.iter()).map_err(|e| e.to_string()) } fn sempty(&self) -> bool { self.is_empty() } }
impl StrExtend for BitPackedStringVec64 { fn sextend(&mut self, ss: &[String]) -> Result<Vec<usize>, String> { self.extend(ss.iter()).map_err(|e| e.to_string()) } fn sempty(&self) -> bool { self.is_empty() } }
fn drive_bitpacked_extend<V: StrExtend + Clone>(c: &mut Case, mk: fn(usize) -> V) -> Res {
    let n = c.rng.urange(0, 120); let ml = *c.rng.pick(&[4usize, 16, 40, 300]); let ss = gen_strings(&mut c.rng, n, ml, true);
    let ctor = c.rng.usize_below(3); let cuts: Vec<usize> = { let mut v: Vec<usize> = (0..c.rng.urange(1, 5)).map(|_| c.rng.usize_below(n + 1)).collect(); v.push(0); v.push(n); v.sort(); v };
    record_strings(c, &ss); c.input_str("ctor", &ctor.to_string()); c.input_str("cuts", &format!("{cuts:?}")); c.set_nontrivial(n >= 2);
    wrap_panic(catch(|| -> Res {
        let mut a = mk(ctor); let mut b = mk(ctor);
        if !a.sempty() || a.slen() != 0 { return Err(bad("len", "a new vector is not empty".into())); }
        for w in cuts.windows(2) {
            let chunk = &ss[w[0]..w[1]]; let before = a.slen();
            let ids = a.sextend(chunk).map_err(|e| bad("op_err", format!("extend: {e}")))?;
            let want: Vec<usize> = (before..before + chunk.len()).collect(); if ids != want { return Err(bad("extend_ids", format!("extend of {} strings at len {before} returned {:?}..", chunk.len(), ids.iter().take(5).collect::<Vec<_>>()))); }
            for s in chunk { b.spush(s).map_err(|e| bad("op_err", format!("push: {e}")))?; }
            if a.slen() != b.slen() || a.slen() != w[1] || a.sempty() != (w[1] == 0) { return Err(bad("len", format!("len after extend {} / after pushes {} want {}", a.slen(), b.slen(), w[1]))); }
        }
        for i in 0..n { opt_eq("get", i, a.sget(i), Some(&ss[i]))?; if a.sget_bytes(i) != b.sget_bytes(i) { return Err(bad("extend_vs_push", format!("get_bytes({i}) differs between extend and push"))); } }
        opt_eq("get", n, a.sget(n), None)?; if a.siter() != ss.iter().map(|s| s.as_str()).collect::<Vec<_>>() { return Err(bad("iter", "iter() after extend differs".into())); }
        let mut cl = a.clone(); let ids = cl.sextend(&ss[..n.min(3)]).map_err(|e| bad("op_err", format!("extend: {e}")))?; if ids != (n..n + n.min(3)).collect::<Vec<_>>() || a.slen() != n { return Err(bad("clone_content", "extend on a clone".into())); }
        for s in ss.iter().take(10) { let w = ss.iter().position(|x| x == s); if a.sfind(s) != w { return Err(bad("find", format!("find_simd = {:?} want {w:?}", a.sfind(s)))); } }
        c.ev(3 * n as u64 + 12); Ok(())
    }))
}

/// AdvancedStringVec::new / with_capacity (default configuration: level 1, handle store with exact-duplicate sharing).
fn drive_advstr_ctor(c: &mut Case) -> Res {
    let n = c.rng.urange(5, 200); let ml = *c.rng.pick(&[6usize, 16, 40, 300]); let ss = gen_strings(&mut c.rng, n, ml, true);
    let ctor = c.rng.usize_below(4); let cap = *c.rng.pick(&[0usize, 1, 7, 1000]); record_strings(c, &ss); c.input_str("ctor", &format!("{ctor},{cap}")); c.set_nontrivial(n >= 2);
    wrap_panic(catch(|| -> Res {
        let mut v = if ctor == 0 { AdvancedStringVec::new() } else { AdvancedStringVec::with_capacity(cap) };
        let mut r = AdvancedStringVec::with_config(AdvancedStringConfig::default());
        if !v.is_empty() || v.len() != 0 || v.get(0).is_some() { return Err(bad("len", "a new vector is not empty".into())); }
        let mut m: Vec<&str> = vec![];
        for (i, s) in ss.iter().enumerate() {
            let id = must(v.push(s), "push")?; let idr = must(r.push(s), "push")?;
            if id != idr { return Err(bad("ctor_vs_with_config", format!("push {i} returned handle {id}, the same push on with_config(default()) returned {idr}"))); }
            if id == m.len() { m.push(s); } else if id < m.len() { if m[id] != s.as_str() { return Err(bad("dedup_wrong", format!("push returned handle {id} which holds a different string"))); } c.note("dedup_hits", 1); } else { return Err(bad("push_id", format!("push returned handle {id} > len {}", m.len()))); }
            opt_eq("get", id, v.get(id), Some(s.as_str())).map_err(|f| bad("get_after_push", f.detail))?;
        }
        if v.len() != m.len() { return Err(bad("len", format!("len {} want {} handles", v.len(), m.len()))); }
        for j in 0..m.len() { opt_eq("get", j, v.get(j), Some(m[j]))?; if v.get_bytes(j) != Some(m[j].as_bytes()) { return Err(bad("content", format!("get_bytes({j})"))); } } opt_eq("get", m.len(), v.get(m.len()), None)?;
        let itv: Vec<&str> = v.iter().collect(); if itv != m { return Err(bad("iter", "iter() differs".into())); }
        let cl = v.clone(); for j in 0..m.len() { opt_eq("get", j, cl.get(j), Some(m[j])).map_err(|f| bad("clone_content", f.detail))?; }
        c.ev(4 * m.len() as u64 + n as u64); Ok(())
    }))
}

/// FixedLenStrVec searches with long needles / prefixes (>= 16 / >= 8 bytes: the vectorised paths), strings sharing long prefixes.
fn drive_fixedlen_long<const N: usize>(c: &mut Case) -> Res {
    let n = c.rng.urange(5, 160);
    let stems: Vec<String> = (0..c.rng.urange(1, 4)).map(|_| { let l = c.rng.urange(6, N.min(40)); (0..l).map(|_| (b'a' + c.rng.below(3) as u8) as char).collect() }).collect();
    let ss: Vec<String> = (0..n).map(|_| { if c.rng.chance(1, 6) { return gen_strings(&mut c.rng, 1, N, false).pop().unwrap(); } let mut s = c.rng.pick(&stems).clone(); let cut = c.rng.usize_below(s.len() + 1); if c.rng.chance(1, 4) { s.truncate(cut); } let extra = c.rng.usize_below(N.saturating_sub(s.len()).min(30) + 1); for _ in 0..extra { s.push((b'a' + c.rng.below(2) as u8) as char); } s }).collect();
    record_strings(c, &ss); c.set_nontrivial(true);
    wrap_panic(catch(|| -> Res {
        let mut v: FixedLenStrVec<N> = FixedLenStrVec::new(); let mut m: Vec<&str> = vec![];
        for s in &ss { let r = v.push(s); if s.len() <= N && s.len() <= 255 { must(r, "push")?; m.push(s); } else if r.is_ok() { return Err(bad("oversize_accepted", format!("push of {} bytes accepted by FixedLenStrVec<{N}>", s.len()))); } }
        let mut needles: Vec<String> = m.iter().take(40).map(|s| s.to_string()).collect();
        for s in m.iter().take(12) { if s.len() > 1 { let mut t = s.to_string(); t.pop(); t.push('#'); needles.push(t); let mut u = s.to_string(); u.insert(0, 'Q'); let mut l = s.len(); while !u.is_char_boundary(l) { l -= 1; } u.truncate(l); needles.push(u); } }   // same length, last / first byte differs
        for st in &stems { needles.push(st.clone()); }
        let (mut long_f, mut long_p) = (0u64, 0u64);
        for nd in &needles {
            let w = m.iter().position(|x| *x == nd.as_str()); let g = v.find_exact(nd); if g != w { return Err(bad("find_exact", format!("find_exact({nd:?}) = {g:?} want {w:?}"))); } if nd.len() >= 16 { long_f += 1; }
            for pl in [nd.len(), 8, 9, 15, 16, 17, 31, 32, 33, nd.len().saturating_sub(1)] { if pl > nd.len() { continue; } let mut pl = pl; while !nd.is_char_boundary(pl) { pl -= 1; } let pre = &nd[..pl]; let wc = m.iter().filter(|x| x.starts_with(pre)).count(); let gc = v.count_prefix(pre); if gc != wc { return Err(bad("count_prefix", format!("count_prefix({pre:?}) = {gc} want {wc}"))); } if pl >= 8 { long_p += 1; } c.ev(1); }
            c.ev(1);
        }
        c.note("long_needles", long_f); c.note("long_prefixes", long_p); Ok(())
    }))
}

fn gap_cases(ctx: &mut Ctx) {
    let gn = ctx.n(100, 1500) as u64;
    macro_rules! gap_vec { ($name:expr, $t:ty, $n:expr) => { for &fam in &[Fam::Mixed, Fam::Growth, Fam::Shrink, Fam::CloneDiv] { for idx in 0..$n { ctx.case($name, &format!("gap_{}", fam_name(fam)), idx, |c| drive_vec::<$t>(c, fam)); } } } }
    gap_vec!("fastvec", FvGap, gn); gap_vec!("valvec32", VvGap, gn); gap_vec!("valvec32_u64", VvGapU64, gn); gap_vec!("cachevec", CvGap, gn / 2);
    for idx in 0..gn * 3 { ctx.case("autoq", "gap_alias", idx, |c| drive_autoq_alias(c)); }
    for idx in 0..gn * 3 { ctx.case("bumpvec", "gap_arena", idx, |c| drive_bumpvec_arena(c)); }
    for idx in 0..ctx.n(18, 270) as u64 { ctx.case("mmapvec_u64", "gap_reopen", idx, |c| drive_mmap_reopen::<u64>(c, idx)); ctx.case("mmapvec_u8", "gap_reopen", idx, |c| drive_mmap_reopen::<u8>(c, idx)); }
    for idx in 0..ctx.n(8, 40) as u64 { ctx.case("zosorted", "gap_save_load", idx, |c| drive_zosorted_save_load(c)); }
    for idx in 0..gn * 2 {
        ctx.case("bitpacked32", "gap_extend", idx, |c| drive_bitpacked_extend::<BitPackedStringVec32>(c, |k| match k { 0 => BitPackedStringVec32::new(), 1 => BitPackedStringVec32::with_config(zipora::containers::specialized::BitPackedConfig::large_dataset()), _ => BitPackedStringVec32::with_capacity(1) }));
        ctx.case("bitpacked64", "gap_extend", idx, |c| drive_bitpacked_extend::<BitPackedStringVec64>(c, |k| match k { 0 => BitPackedStringVec64::new(), 1 => BitPackedStringVec64::with_config(zipora::containers::specialized::BitPackedConfig::large_dataset()), _ => BitPackedStringVec64::with_capacity(1) }));
        ctx.case("advstr_l1", "gap_ctor", idx, |c| drive_advstr_ctor(c));
        ctx.case("fixedlen_n64", "gap_long_needles", idx, |c| drive_fixedlen_long::<64>(c)); ctx.case("fixedlen_n300", "gap_long_needles", idx, |c| drive_fixedlen_long::<300>(c));
    }
    for idx in 0..gn { ctx.case("fixedlen_n16", "gap_long_needles", idx, |c| drive_fixedlen_long::<16>(c)); }
}

// ---------------------------------------------------------------------------------------------
pub fn run(ctx: &mut Ctx) {
    let per = ctx.n(120, 2800) as u64;           // histories per (target, family)
    let micro = ctx.n(16, 64) as u64;
    macro_rules! vec_target { ($name:expr, $t:ty, $scale:expr, $with_micro:expr) => {
        for &fam in FAMS { if fam == Fam::Micro && !$with_micro { continue; } let n = if fam == Fam::Micro { micro } else { (per / $scale).max(4) };
            for idx in 0..n { ctx.case($name, fam_name(fam), idx, |c| drive_vec::<$t>(c, fam)); } }
    } }
    vec_target!("fastvec", FastVec<Tracked>, 1, true);
    vec_target!("fastvec_u64", FastVec<u64>, 1, true);
    vec_target!("fastvec_u8", FastVec<u8>, 2, true);
    vec_target!("valvec32", VvNoSet, 1, true);
    vec_target!("valvec32_set", ValVec32<Tracked>, 3, true);
    vec_target!("valvec32_u64", ValVec32<u64>, 2, true);
    vec_target!("cachevec", CacheAlignedVec<Tracked>, 2, true);
    vec_target!("mmapvec_u64", Mv<u64>, 10, false);
    vec_target!("mmapvec_u8", Mv<u8>, 10, false);
    for idx in 0..per { ctx.case("bumpvec", "mixed", idx, |c| drive_bumpvec(c, false)); ctx.case("pooledvec", "mixed", idx, |c| drive_pooledvec(c, false)); }
    for idx in 0..micro { ctx.case("bumpvec", "micro", idx, |c| drive_bumpvec(c, true)); ctx.case("pooledvec", "micro", idx, |c| drive_pooledvec(c, true)); }

    // queues
    for fam in ["mixed", "growth", "bulk_straddle"] { for idx in 0..per * 2 { ctx.case("autoq", fam, idx, |c| drive_autoq(c, fam, idx)); } }
    for idx in 0..ctx.n(120, 1200) as u64 { ctx.case("autoq", "wrap_grow", idx, |c| drive_autoq(c, "wrap_grow", idx)); }
    for idx in 0..micro { ctx.case("autoq", "micro", idx, |c| drive_autoq(c, "micro", idx)); }
    macro_rules! fixedq { ($name:expr, $n:expr) => {
        for idx in 0..per * 2 { ctx.case($name, "mixed", idx, |c| drive_fixedq::<$n>(c, false)); }
        for idx in 0..micro { ctx.case($name, "micro", idx, |c| drive_fixedq::<$n>(c, true)); }
    } }
    fixedq!("fixedq_n1", 1); fixedq!("fixedq_n2", 2); fixedq!("fixedq_n5", 5); fixedq!("fixedq_n16", 16);

    // string vectors
    for idx in 0..per * 2 {
        ctx.case("sortable", "mixed", idx, |c| drive_sortable(c, false));
        ctx.case("zosorted", "mixed", idx, |c| drive_zosorted(c, false));
        ctx.case("bitpacked32", "mixed", idx, |c| drive_bitpacked::<BitPackedStringVec32>(c, false, |k| match k { 0 => BitPackedStringVec32::new(), 1 => BitPackedStringVec32::with_capacity(2), 2 => BitPackedStringVec32::with_config(zipora::containers::specialized::BitPackedConfig::memory_optimized()), _ => BitPackedStringVec32::default() }));
        ctx.case("bitpacked64", "mixed", idx, |c| drive_bitpacked::<BitPackedStringVec64>(c, false, |k| match k { 0 => BitPackedStringVec64::new(), 1 => BitPackedStringVec64::with_capacity(2), 2 => BitPackedStringVec64::with_config(zipora::containers::specialized::BitPackedConfig::performance_optimized()), _ => BitPackedStringVec64::default() }));
    }
    for idx in 0..per {
        ctx.case("fixedlen_n4", "mixed", idx, |c| drive_fixedlen::<4>(c, false)); ctx.case("fixedlen_n16", "mixed", idx, |c| drive_fixedlen::<16>(c, false));
        ctx.case("fixedlen_n64", "mixed", idx, |c| drive_fixedlen::<64>(c, false)); ctx.case("fixedlen_n300", "mixed", idx, |c| drive_fixedlen::<300>(c, false));
        for lv in 0..4u8 { ctx.case(&format!("advstr_l{lv}"), "mixed", idx, |c| drive_advstr(c, false, lv)); }
    }
    for idx in 0..micro {
        ctx.case("sortable", "micro", idx, |c| drive_sortable(c, true)); ctx.case("zosorted", "micro", idx, |c| drive_zosorted(c, true));
        ctx.case("bitpacked32", "micro", idx, |c| drive_bitpacked::<BitPackedStringVec32>(c, true, |_| BitPackedStringVec32::with_capacity(2)));
        ctx.case("bitpacked64", "micro", idx, |c| drive_bitpacked::<BitPackedStringVec64>(c, true, |_| BitPackedStringVec64::with_capacity(2)));
        ctx.case("fixedlen_n16", "micro", idx, |c| drive_fixedlen::<16>(c, true));
        for lv in 0..4u8 { ctx.case(&format!("advstr_l{lv}"), "micro", idx, |c| drive_advstr(c, true, lv)); }
    }
    for idx in 0..4 { ctx.case("sortable", "huge_string", idx, |c| drive_sortable_huge(c, idx)); }

    // huge_ families (large counts / capacities just above powers of two); a handful of cases each
    let hn = ctx.n(2, 30) as u64; let hn_mmap = ctx.n(2, 10) as u64;
    macro_rules! vec_huge { ($name:expr, $t:ty, $n:expr) => { for idx in 0..$n { ctx.case($name, "huge_cap", idx, |c| drive_vec_huge::<$t>(c, true, idx)); ctx.case($name, "huge_grow", idx, |c| drive_vec_huge::<$t>(c, false, idx)); } } }
    vec_huge!("fastvec", FastVec<Tracked>, hn); vec_huge!("fastvec_u64", FastVec<u64>, hn); vec_huge!("fastvec_u8", FastVec<u8>, hn);
    vec_huge!("valvec32", VvNoSet, hn); vec_huge!("valvec32_set", ValVec32<Tracked>, hn); vec_huge!("valvec32_u64", ValVec32<u64>, hn);
    vec_huge!("cachevec", CacheAlignedVec<Tracked>, hn); vec_huge!("mmapvec_u64", Mv<u64>, hn_mmap); vec_huge!("mmapvec_u8", Mv<u8>, hn_mmap);
    for idx in 0..hn { ctx.case("bumpvec", "huge_fill", idx, |c| drive_bumpvec_huge(c)); }
    for idx in 0..ctx.n(4, 40) as u64 { ctx.case("autoq", "huge_cap_wrap", idx, |c| drive_autoq_huge(c, "huge_cap_wrap", idx)); }
    for idx in 0..hn { ctx.case("autoq", "huge_grow", idx, |c| drive_autoq_huge(c, "huge_grow", idx)); ctx.case("fixedq_n65537", "huge_wrap", idx, |c| drive_fixedq_huge(c)); }
    for idx in 0..hn {
        ctx.case("sortable", "huge_count", idx, |c| drive_sortable_huge_count(c)); ctx.case("zosorted", "huge_count", idx, |c| drive_zosorted_huge(c));
        ctx.case("bitpacked32", "huge_count", idx, |c| drive_bitpacked_huge::<BitPackedStringVec32>(c, || BitPackedStringVec32::with_capacity(65537)));
        ctx.case("bitpacked64", "huge_count", idx, |c| drive_bitpacked_huge::<BitPackedStringVec64>(c, || BitPackedStringVec64::new()));
        ctx.case("fixedlen_n4", "huge_count", idx, |c| drive_fixedlen_huge::<4>(c, false)); ctx.case("fixedlen_n16", "huge_count", idx, |c| drive_fixedlen_huge::<16>(c, false));
        ctx.case("fixedlen_n300", "huge_arena_limit", idx, |c| drive_fixedlen_huge::<300>(c, true));
        for lv in 0..4u8 { ctx.case(&format!("advstr_l{lv}"), "huge_count", idx, |c| drive_advstr_huge(c, lv)); }
    }

    // gap_ families (API variants)
    gap_cases(ctx);

    // process-killing probes last (a death is reported by the orchestrator as an unfinished case)
    for idx in 0..10 { ctx.case("mmapvec_u64", "simd_ctor", idx, |c| drive_mmap_simd_ctor(c, idx)); }
    for idx in 0..2 { ctx.case("fastvec_u64", "copy_shorter", idx, |c| drive_fastvec_copy_shorter(c)); }
}
