//! C14 — accelerated (SIMD / BMI2 / POPCNT / CRC32 instruction) code paths compute the same function as the
//! portable scalar definition, for every length / alignment / tier.
//!
//! Oracle: the definition written out longhand in this file (or the std function the statement names).
//! The CPU tier is forced from outside (env ZIPORA_VERIF_CPU_TIER), nothing is cached across cases here.
//!
//! Families (per target): `len` (every length 0..=200), `align` (every src alignment 0..63 x dst alignment),
//! `big` (around 256 / 1024 / 4096 / 8192), `micro` (tiny, the only family run under Miri), `guard`
//! (operands end exactly at the end of a page followed by a PROT_NONE page, or start right after one; the whole
//! check runs in a forked child so an over-read is reported as a verdict instead of killing the worker),
//! plus property specific families (needle positions, UTF-8 corpus, bit patterns ...).
#![allow(clippy::all)]
use crate::ctx::{catch, Case, Ctx, Fail, Res};
use crate::gen;
use crate::rng::Rng;
use std::cmp::Ordering;

fn bad(oracle: &str, d: String) -> Fail { Fail { oracle: oracle.to_string(), detail: d } }
fn np<T>(what: &str, f: impl FnOnce() -> T) -> Result<T, Fail> {
    mark(what);
    catch(f).map_err(|p| Fail { oracle: p.class(), detail: format!("{what}: panic at {}: {}", p.loc, p.msg) })
}
/// repetition count, reduced under Miri
fn reps(n: usize) -> usize { if cfg!(miri) { (n / 5).max(1) } else { n } }
fn sgn_ord(o: Ordering) -> i32 { match o { Ordering::Less => -1, Ordering::Equal => 0, Ordering::Greater => 1 } }
fn sgn(x: i32) -> i32 { x.signum() }
fn first_diff(a: &[u8], b: &[u8]) -> usize { a.iter().zip(b.iter()).position(|(x, y)| x != y).unwrap_or(a.len().min(b.len())) }

// ------------------------------------------------------------------------------------------------
// memory placement: aligned sub-slices with canaries, and page-boundary placement with guard pages
// ------------------------------------------------------------------------------------------------
const CANARY: u8 = 0xC9;
pub struct ABuf { v: Vec<u8>, off: usize, len: usize }
impl ABuf {
    fn new(data: &[u8], align: usize) -> ABuf {
        let len = data.len();
        let mut v = vec![CANARY; len + 64 + 64 + 64 + 64];
        let base = v.as_ptr() as usize;
        let mut off = 64;
        while (base + off) % 64 != align % 64 { off += 1; }
        v[off..off + len].copy_from_slice(data);
        ABuf { v, off, len }
    }
    fn s(&self) -> &[u8] { &self.v[self.off..self.off + self.len] }
    fn m(&mut self) -> &mut [u8] { let (o, l) = (self.off, self.len); &mut self.v[o..o + l] }
    fn intact(&self) -> bool { self.v[..self.off].iter().all(|&b| b == CANARY) && self.v[self.off + self.len..].iter().all(|&b| b == CANARY) }
}

#[cfg(not(miri))]
pub struct Guard { map: *mut u8, map_len: usize, data: *mut u8, data_len: usize, start: usize, len: usize }
#[cfg(not(miri))]
impl Guard {
    fn page() -> usize { unsafe { libc::sysconf(libc::_SC_PAGESIZE) as usize } }
    /// [PROT_NONE][n data pages][PROT_NONE]; payload ends at the end of the data pages (`at_end`) or starts at their start.
    fn new(data: &[u8], at_end: bool) -> Guard {
        let pg = Self::page();
        let n = (data.len() + pg - 1) / pg + 1;
        let map_len = (n + 2) * pg;
        unsafe {
            let map = libc::mmap(std::ptr::null_mut(), map_len, libc::PROT_READ | libc::PROT_WRITE, libc::MAP_PRIVATE | libc::MAP_ANONYMOUS, -1, 0);
            assert!(map != libc::MAP_FAILED, "mmap failed");
            let map = map as *mut u8;
            let d = map.add(pg); let data_len = n * pg;
            std::ptr::write_bytes(d, CANARY, data_len);
            let start = if at_end { data_len - data.len() } else { 0 };
            std::ptr::copy_nonoverlapping(data.as_ptr(), d.add(start), data.len());
            assert!(libc::mprotect(map as *mut libc::c_void, pg, libc::PROT_NONE) == 0);
            assert!(libc::mprotect(map.add(pg + data_len) as *mut libc::c_void, pg, libc::PROT_NONE) == 0);
            Guard { map, map_len, data: d, data_len, start, len: data.len() }
        }
    }
    fn s(&self) -> &[u8] { unsafe { std::slice::from_raw_parts(self.data.add(self.start), self.len) } }
    fn m(&mut self) -> &mut [u8] { unsafe { std::slice::from_raw_parts_mut(self.data.add(self.start), self.len) } }
    fn intact(&self) -> bool { let all = unsafe { std::slice::from_raw_parts(self.data, self.data_len) }; all[..self.start].iter().all(|&b| b == CANARY) && all[self.start + self.len..].iter().all(|&b| b == CANARY) }
}
#[cfg(not(miri))]
impl Drop for Guard { fn drop(&mut self) { unsafe { libc::munmap(self.map as *mut libc::c_void, self.map_len); } } }

pub enum Mem { A(ABuf), #[cfg(not(miri))] G(Guard) }
impl Mem {
    fn s(&self) -> &[u8] { match self { Mem::A(a) => a.s(), #[cfg(not(miri))] Mem::G(g) => g.s() } }
    fn m(&mut self) -> &mut [u8] { match self { Mem::A(a) => a.m(), #[cfg(not(miri))] Mem::G(g) => g.m() } }
    fn intact(&self) -> bool { match self { Mem::A(a) => a.intact(), #[cfg(not(miri))] Mem::G(g) => g.intact() } }
}
#[derive(Clone, Copy, Debug, PartialEq)]
pub enum Place { Align(usize), GuardEnd, GuardStart }
fn place(p: Place, data: &[u8]) -> Mem {
    match p {
        Place::Align(a) => Mem::A(ABuf::new(data, a)),
        #[cfg(not(miri))] Place::GuardEnd => Mem::G(Guard::new(data, true)),
        #[cfg(not(miri))] Place::GuardStart => Mem::G(Guard::new(data, false)),
        #[cfg(miri)] _ => Mem::A(ABuf::new(data, 0)),
    }
}

// ---- forked execution of guard-page cases -----------------------------------------------------------
// The child runs the check; verdict, event count and a progress marker travel through a MAP_SHARED page.
static MARK: std::sync::atomic::AtomicPtr<u8> = std::sync::atomic::AtomicPtr::new(std::ptr::null_mut());
const MARK_OFF: usize = 3000; const MARK_MAX: usize = 1000;
/// progress marker (which library entry point is about to be called) — shown when the child dies on a signal
fn mark(s: &str) {
    let p = MARK.load(std::sync::atomic::Ordering::Relaxed);
    if p.is_null() { return; }
    let b = s.as_bytes(); let n = b.len().min(MARK_MAX - 2);
    unsafe { *(p.add(MARK_OFF) as *mut u16) = n as u16; std::ptr::copy_nonoverlapping(b.as_ptr(), p.add(MARK_OFF + 2), n); }
}
#[cfg(miri)]
fn forked(c: &mut Case, f: impl FnOnce(&mut Case) -> Res) -> Res { f(c) }
#[cfg(not(miri))]
fn forked(c: &mut Case, f: impl FnOnce(&mut Case) -> Res) -> Res {
    unsafe {
        let sh = libc::mmap(std::ptr::null_mut(), 4096, libc::PROT_READ | libc::PROT_WRITE, libc::MAP_SHARED | libc::MAP_ANONYMOUS, -1, 0);
        if sh == libc::MAP_FAILED { return crate::ctx::inconclusive("mmap shared failed"); }
        let sh = sh as *mut u8;
        *sh = 0xFF;
        let pid = libc::fork();
        if pid < 0 { libc::munmap(sh as *mut libc::c_void, 4096); return crate::ctx::inconclusive("fork failed"); }
        if pid == 0 {
            let lim = libc::rlimit { rlim_cur: 0, rlim_max: 0 }; libc::setrlimit(libc::RLIMIT_CORE, &lim);
            MARK.store(sh, std::sync::atomic::Ordering::Relaxed);
            let r = std::panic::catch_unwind(std::panic::AssertUnwindSafe(|| f(c)));
            let (st, o, d) = match r {
                Ok(Ok(())) => (0u8, String::new(), String::new()),
                Ok(Err(e)) => (1u8, e.oracle, e.detail),
                Err(_) => { let (loc, msg) = crate::ctx::take_panic().unwrap_or(("?".into(), "?".into())); let p = crate::ctx::PanicInfo { loc, msg }; (1u8, p.class(), format!("panic at {}: {}", p.loc, p.msg)) }
            };
            *(sh.add(8) as *mut u64) = c.events;
            let ob = o.as_bytes(); let on = ob.len().min(200); *(sh.add(16) as *mut u16) = on as u16; std::ptr::copy_nonoverlapping(ob.as_ptr(), sh.add(18), on);
            let db = d.as_bytes(); let dn = db.len().min(1500); *(sh.add(300) as *mut u16) = dn as u16; std::ptr::copy_nonoverlapping(db.as_ptr(), sh.add(302), dn);
            std::sync::atomic::fence(std::sync::atomic::Ordering::SeqCst);
            *sh = st;
            libc::_exit(0);
        }
        let mut status: libc::c_int = 0;
        loop { let r = libc::waitpid(pid, &mut status, 0); if r == pid { break; } if r < 0 && *libc::__errno_location() != libc::EINTR { break; } }
        let rd = |off: usize| -> String { let n = *(sh.add(off) as *const u16) as usize; String::from_utf8_lossy(std::slice::from_raw_parts(sh.add(off + 2), n.min(1500))).into_owned() };
        let st = *sh; let mk = rd(MARK_OFF);
        let res = if libc::WIFSIGNALED(status) {
            let sig = libc::WTERMSIG(status);
            let name = match sig { libc::SIGSEGV => "sigsegv", libc::SIGBUS => "sigbus", libc::SIGABRT => "sigabrt", libc::SIGILL => "sigill", _ => "signal" };
            Err(bad(&format!("guard_{name}"), format!("child killed by signal {sig} during: {mk}")))
        } else if st == 0xFF {
            Err(bad("guard_child_died", format!("child exit status {} without verdict during: {mk}", libc::WEXITSTATUS(status))))
        } else {
            c.events += *(sh.add(8) as *const u64);
            if st == 0 { Ok(()) } else { Err(Fail { oracle: rd(16), detail: rd(300) }) }
        };
        libc::munmap(sh as *mut libc::c_void, 4096);
        res
    }
}

// ------------------------------------------------------------------------------------------------
// shapes
// ------------------------------------------------------------------------------------------------
const BLENS: &[usize] = &[1, 7, 8, 9, 15, 16, 17, 31, 32, 33, 47, 48, 63, 64, 65, 95, 96, 97, 127, 128, 129, 191, 192, 193, 200];
const BIGLENS: &[usize] = &[255, 256, 257, 511, 512, 513, 1023, 1024, 1025, 2047, 2048, 2049, 4095, 4096, 4097, 8191, 8192, 8193];
const MICROLENS: &[usize] = &[0, 1, 2, 3, 7, 8, 9, 15, 16, 17, 31, 32, 33, 40];
const FAMS_NATIVE: &[&str] = &["len", "align", "big", "micro", "guard"];
const FAMS_MIRI: &[&str] = &["micro"];
fn fams() -> &'static [&'static str] { if cfg!(miri) { FAMS_MIRI } else { FAMS_NATIVE } }
fn fam_count(ctx: &Ctx, fam: &str) -> u64 {
    (match fam { "len" => ctx.n(402, 201 * 8), "align" => ctx.n(128, 64 * 64), "big" => ctx.n(36, 18 * 12), "micro" => ctx.n(14, 14 * 8), "guard" => ctx.n(60, 600), _ => ctx.n(40, 800) }) as u64
}
pub struct Shape { len: usize, p1: Place, p2: Place, kind: u32 }
fn byte_kind(r: &mut Rng) -> u32 { match r.below(8) { 0 | 1 => 11, 2 => 3, 3 => 0, 4 => 10, 5 => 2, _ => r.below(gen::BYTE_KINDS as u64) as u32 } }
fn shape(c: &mut Case, fam: &str, idx: u64) -> Shape {
    let r = &mut c.rng;
    let kind = byte_kind(r);
    let (len, p1, p2) = match fam {
        "len" => ((idx % 201) as usize, Place::Align(r.usize_below(64)), Place::Align(r.usize_below(64))),
        "align" => { let a1 = (idx % 64) as usize; let a2 = if idx < 64 { (a1 * 37 + 11) % 64 } else if idx < 128 { a1 } else { ((idx / 64) % 64) as usize }; (*r.pick(BLENS), Place::Align(a1), Place::Align(a2)) }
        "big" => { let b = BIGLENS[(idx as usize) % BIGLENS.len()]; (b, Place::Align(r.usize_below(64)), Place::Align(r.usize_below(64))) }
        "micro" => (MICROLENS[(idx as usize) % MICROLENS.len()], Place::Align(r.usize_below(16)), Place::Align(r.usize_below(16))),
        "guard" => { let l = match idx % 4 { 0 => *r.pick(BLENS), 1 => r.usize_below(80), 2 => *r.pick(&[255usize, 256, 257, 1024, 4095, 4096, 4097, 4160]), _ => r.usize_below(300) };
            let p = if idx % 5 == 4 { Place::GuardStart } else { Place::GuardEnd }; (l, p, p) }
        _ => (r.usize_below(200), Place::Align(r.usize_below(64)), Place::Align(r.usize_below(64))),
    };
    c.input_str("shape", &format!("len={len} p1={p1:?} p2={p2:?} kind={}", gen::byte_kind_name(kind)));
    Shape { len, p1, p2, kind }
}
fn data_for(c: &mut Case, sh: &Shape) -> Vec<u8> { let d = gen::bytes_kind(&mut c.rng, sh.kind, sh.len); c.input("data", &d); c.set_nontrivial(sh.len >= 1); d }
/// run `f` directly, or in a forked child for the guard family
fn run_shape(c: &mut Case, fam: &str, f: impl FnOnce(&mut Case) -> Res) -> Res { if fam == "guard" { forked(c, f) } else { f(c) } }
/// a byte value that does not occur in `h` (None if all 256 occur)
fn absent_byte(h: &[u8], r: &mut Rng) -> Option<u8> { let mut seen = [false; 256]; for &b in h { seen[b as usize] = true; } let s = r.usize_below(256); (0..256).map(|i| (i + s) % 256).find(|&i| !seen[i]).map(|i| i as u8) }
fn positions(len: usize, r: &mut Rng) -> Vec<usize> {
    if len == 0 { return vec![]; }
    if len <= 300 { return (0..len).collect(); }
    let mut ps = vec![0, len - 1, len / 2];
    for b in [16usize, 32, 64] { for k in 1..=(len / b).min(4) { for d in [-1i64, 0, 1] { let p = (k * b) as i64 + d; if p >= 0 && (p as usize) < len { ps.push(p as usize); } } } for d in 0..3 { let p = (len / b) * b; if p + d < len { ps.push(p + d); } if p >= 1 + d { ps.push(p - 1 - d); } } }
    for _ in 0..24 { ps.push(r.usize_below(len)); }
    ps.sort(); ps.dedup(); ps
}

// ------------------------------------------------------------------------------------------------
// generic checks against the definition
// ------------------------------------------------------------------------------------------------
type ZR<T> = zipora::error::Result<T>;

/// copy: dst == src afterwards, nothing outside dst written, src untouched. `must_ok`: an Err is a violation.
fn chk_copy(c: &mut Case, name: &str, f: &dyn Fn(&[u8], &mut [u8]) -> ZR<()>, data: &[u8], p1: Place, p2: Place, must_ok: bool) -> Res {
    let src = place(p1, data);
    let pre: Vec<u8> = data.iter().map(|b| !b).collect(); // every destination byte differs from what must be written
    let mut dst = place(p2, &pre);
    let r = np(name, || f(src.s(), dst.m()))?;
    match r {
        Err(e) => { if must_ok { return Err(bad("copy_err", format!("{name}: len={} {p1:?}->{p2:?}: Err({e})", data.len()))); } return Ok(()); }
        Ok(()) => {}
    }
    if dst.s() != data { let i = first_diff(dst.s(), data); return Err(bad("copy_mismatch", format!("{name}: len={} {p1:?}->{p2:?}: first wrong byte at {i}: got {:#04x} want {:#04x}", data.len(), dst.s()[i], data[i]))); }
    ensure!(dst.intact(), "copy_oob_write", "{name}: len={} wrote outside the destination slice", data.len());
    ensure!(src.s() == data && src.intact(), "copy_src_modified", "{name}: len={} source changed", data.len());
    c.ev(1); Ok(())
}
fn chk_fill(c: &mut Case, name: &str, f: &dyn Fn(&mut [u8], u8), len: usize, p: Place, val: u8) -> Res {
    let mut dst = place(p, &vec![!val; len]);
    np(name, || f(dst.m(), val))?;
    if let Some(i) = dst.s().iter().position(|&b| b != val) { return Err(bad("fill_mismatch", format!("{name}: len={len} {p:?} value={val:#04x}: byte {i} = {:#04x}", dst.s()[i]))); }
    ensure!(dst.intact(), "fill_oob_write", "{name}: len={len} wrote outside the slice");
    c.ev(1); Ok(())
}
/// pairs (a, b) derived from `data` exercising sign traps, tails and length differences
fn cmp_pairs(r: &mut Rng, data: &[u8]) -> Vec<(Vec<u8>, Vec<u8>)> {
    let n = data.len(); let mut out = vec![(data.to_vec(), data.to_vec())];
    let mut ps = positions(n, r); let cap = reps(40); if ps.len() > cap { r.shuffle(&mut ps); ps.truncate(cap); ps.push(0); ps.push(n - 1); }
    for p in ps {
        let mut b = data.to_vec();
        let (x, y) = match r.below(5) { 0 => (0x7Fu8, 0x80u8), 1 => (0x00, 0xFF), 2 => (0x01, 0x81), 3 => { let x = r.next() as u8; (x, x.wrapping_add(1 + r.below(255) as u8)) } _ => (data[p], data[p] ^ (1 << r.below(8))) };
        let mut a = data.to_vec(); a[p] = x; b[p] = y;
        // make the bytes after p disagree the other way round so that a wrong "first difference" flips the sign
        if p + 1 < n && r.bool() { a[p + 1] = y; b[p + 1] = x; }
        out.push((a, b));
    }
    if n > 0 { let k = r.usize_below(n); out.push((data[..k].to_vec(), data.to_vec())); out.push((data.to_vec(), data[..n - 1].to_vec())); let mut l = data.to_vec(); l.push(0); out.push((data.to_vec(), l)); }
    out
}
fn chk_cmp_sign(c: &mut Case, name: &str, f: &dyn Fn(&[u8], &[u8]) -> i32, data: &[u8], p1: Place, p2: Place, equal_len_only: bool) -> Res {
    for (a, b) in cmp_pairs(&mut c.rng, data) {
        if equal_len_only && a.len() != b.len() { continue; }
        let (ma, mb) = (place(p1, &a), place(p2, &b));
        let want = sgn_ord(a.cmp(&b));
        let got = np(name, || f(ma.s(), mb.s()))?;
        if sgn(got) != want { return Err(bad("compare_sign", format!("{name}: lens {}/{} first diff at {} ({:?} vs {:?}): got {got} want sign {want}", a.len(), b.len(), first_diff(&a, &b), a.get(first_diff(&a, &b)), b.get(first_diff(&a, &b))))); }
        let got2 = np(name, || f(mb.s(), ma.s()))?;
        if sgn(got2) != -want { return Err(bad("compare_sign", format!("{name} (swapped): lens {}/{} first diff at {}: got {got2} want sign {}", b.len(), a.len(), first_diff(&a, &b), -want))); }
        c.ev(2);
    }
    Ok(())
}
/// first-occurrence search for one byte: needle at every position (or a boundary sample), duplicates, absent, 0x00 / >=0x80 needles
fn chk_find_byte(c: &mut Case, name: &str, f: &dyn Fn(&[u8], u8) -> Option<usize>, data: &[u8], p: Place) -> Res {
    let n = data.len();
    let one = |c: &mut Case, h: &[u8], nd: u8| -> Res {
        let m = place(p, h); let want = h.iter().position(|&b| b == nd);
        let got = np(name, || f(m.s(), nd))?;
        if got != want { return Err(bad("find_byte", format!("{name}: len={} {p:?} needle={nd:#04x}: got {got:?} want {want:?}", h.len()))); }
        c.ev(1); Ok(())
    };
    // natural needles
    for nd in [0u8, 0x80, 0xFF, c.rng.next() as u8] { one(c, data, nd)?; }
    if n > 0 { let nd = data[c.rng.usize_below(n)]; one(c, data, nd)?; let nd = data[n - 1]; one(c, data, nd)?; }
    // planted unique needle at each position
    let mut base = data.to_vec();
    let nd = match absent_byte(&base, &mut c.rng) { Some(b) => b, None => { let b = c.rng.next() as u8; for x in base.iter_mut() { if *x == b { *x = b.wrapping_add(1); } } b } };
    one(c, &base, nd)?; // absent
    for pos in positions(n, &mut c.rng) {
        let mut h = base.clone(); h[pos] = nd;
        if c.rng.chance(1, 3) && pos + 1 < n { let q = pos + 1 + c.rng.usize_below(n - pos - 1); h[q] = nd; }
        one(c, &h, nd)?;
    }
    Ok(())
}
fn naive_find(h: &[u8], nd: &[u8]) -> Option<usize> { if nd.is_empty() { return Some(0); } if nd.len() > h.len() { return None; } (0..=h.len() - nd.len()).find(|&i| &h[i..i + nd.len()] == nd) }
const NLENS: &[usize] = &[1, 2, 3, 4, 5, 7, 8, 9, 15, 16, 17, 20, 31, 32, 33, 40, 64, 65];
const NLENS_LONG: &[usize] = &[33, 34, 40, 48, 64, 65];
/// guard family: even idx = long needles only (kernels that never load a partial vector), odd idx = all lengths
fn guard_nlens(c: &mut Case, fam: &str, idx: u64) -> &'static [usize] { if fam == "guard" { if idx % 2 == 0 { c.tag("guard_needle_gt32"); NLENS_LONG } else { c.tag("guard_needle_any"); NLENS } } else { NLENS } }
/// substring search: planted needles (start, end, straddling 16/32/64 boundaries), near misses, periodic text, absent
fn chk_strstr(c: &mut Case, name: &str, f: &dyn Fn(&[u8], &[u8]) -> Option<usize>, data: &[u8], p1: Place, p2: Place, empty_needle: bool, nlens: &[usize]) -> Res {
    let n = data.len();
    let one = |c: &mut Case, h: &[u8], nd: &[u8]| -> Res {
        let (mh, mn) = (place(p1, h), place(p2, nd)); let want = naive_find(h, nd);
        let got = np(name, || f(mh.s(), mn.s()))?;
        if got != want { return Err(bad("substring_search", format!("{name}: hay len={} {p1:?} needle len={} ({}): got {got:?} want {want:?}", h.len(), nd.len(), gen::abbrev(nd)))); }
        c.ev(1); Ok(())
    };
    if empty_needle { one(c, data, &[])?; }
    let nrep = reps(if n > 600 { 6 } else { 14 });
    for _ in 0..nrep {
        let nl = *c.rng.pick(nlens);
        // needle taken from the haystack itself (first-occurrence semantics on repetitive data)
        if nl <= n { let s = match c.rng.below(3) { 0 => 0, 1 => n - nl, _ => c.rng.usize_below(n - nl + 1) }; let nd = data[s..s + nl].to_vec(); one(c, data, &nd)?; }
        // planted random needle
        let mut nd = c.rng.bytes(nl); if c.rng.chance(1, 4) { nd[0] = 0; } if c.rng.chance(1, 4) { let i = c.rng.usize_below(nl); nd[i] |= 0x80; }
        one(c, data, &nd)?; // most likely absent
        if nl <= n {
            let mut spots = vec![0usize, n - nl];
            for b in [16usize, 32, 64] { let k = 1 + c.rng.usize_below((n / b).max(1)); let e = k * b; for d in [1usize, nl / 2, nl.saturating_sub(1)] { if e >= d && e - d + nl <= n { spots.push(e - d); } } }
            spots.push(c.rng.usize_below(n - nl + 1));
            let s = *c.rng.pick(&spots);
            let mut h = data.to_vec(); h[s..s + nl].copy_from_slice(&nd); one(c, &h, &nd)?;
            // near miss before the real match: needle with last byte altered planted earlier
            if nl >= 2 && s >= nl { let q = c.rng.usize_below(s - nl + 1); let mut h2 = h.clone(); h2[q..q + nl].copy_from_slice(&nd); h2[q + nl - 1] ^= 0x01; one(c, &h2, &nd)?; }
        }
        // periodic text: aaaa..ab
        if nl >= 2 && nl <= n { let a = c.rng.next() as u8; let b = a ^ 0x80; let mut h = vec![a; n]; h[n - 1] = b; let mut nd2 = vec![a; nl]; nd2[nl - 1] = b; one(c, &h, &nd2)?; let nd3 = vec![a; nl]; one(c, &h, &nd3)?; }
    }
    Ok(())
}
/// character-set search; `all`: the API returns every position instead of the first
fn charset(r: &mut Rng, data: &[u8], sz: usize) -> Vec<u8> {
    let mut s: Vec<u8> = Vec::new();
    while s.len() < sz { let b = match r.below(6) { 0 => 0u8, 1 => 0x80 | r.next() as u8, 2 if !data.is_empty() => data[r.usize_below(data.len())], _ => r.next() as u8 }; if !s.contains(&b) { s.push(b); } }
    s
}
const SETLENS: &[usize] = &[1, 2, 3, 5, 8, 12, 15, 16];
const SETLENS_WIDE: &[usize] = &[17, 18, 24, 32, 40];
fn chk_any_of(c: &mut Case, name: &str, f: &dyn Fn(&[u8], &[u8]) -> Option<usize>, data: &[u8], p1: Place, p2: Place, wide: bool) -> Res {
    let n = data.len();
    let one = |c: &mut Case, h: &[u8], set: &[u8]| -> Res {
        let (mh, ms) = (place(p1, h), place(p2, set)); let want = h.iter().position(|b| set.contains(b));
        let got = np(name, || f(mh.s(), ms.s()))?;
        if got != want { return Err(bad("charset_search", format!("{name}: hay len={} {p1:?} set len={} ({}): got {got:?} want {want:?}", h.len(), set.len(), gen::abbrev(set)))); }
        c.ev(1); Ok(())
    };
    one(c, data, &[])?;
    for _ in 0..reps(10) {
        let sz = if wide { *c.rng.pick(SETLENS_WIDE) } else { *c.rng.pick(SETLENS) }; let set = charset(&mut c.rng, data, sz);
        one(c, data, &set)?;
        // scrub the haystack of set members, then plant exactly the LAST member of the set at a chosen position
        let mut h = data.to_vec(); let repl = (0..=255u8).find(|b| !set.contains(b)).unwrap(); for x in h.iter_mut() { if set.contains(x) { *x = repl; } }
        one(c, &h, &set)?;
        if n > 0 { let ps = positions(n, &mut c.rng); let pos = *c.rng.pick(&ps); let which = if c.rng.bool() { sz - 1 } else { c.rng.usize_below(sz) }; h[pos] = set[which]; one(c, &h, &set)?; }
    }
    Ok(())
}
fn chk_ord(c: &mut Case, name: &str, f: &dyn Fn(&[u8], &[u8]) -> Ordering, data: &[u8], p1: Place, p2: Place) -> Res {
    chk_cmp_sign(c, name, &|a, b| sgn_ord(f(a, b)), data, p1, p2, false)
}

// ------------------------------------------------------------------------------------------------
// group: memory::simd_ops  (SimdMemOps + fast_* wrappers)
// ------------------------------------------------------------------------------------------------
fn g_memops(ctx: &mut Ctx) {
    use zipora::memory::simd_ops::*;
    for &fam in fams() { for idx in 0..fam_count(ctx, fam) {
        ctx.case("memops/copy", fam, idx, |c| { let sh = shape(c, fam, idx); let d = data_for(c, &sh); run_shape(c, fam, |c| {
            let ops = SimdMemOps::new(); c.note(&format!("tier:{:?}", ops.tier()), 1);
            chk_copy(c, "SimdMemOps::copy_nonoverlapping", &|s, d| ops.copy_nonoverlapping(s, d), &d, sh.p1, sh.p2, true)?;
            chk_copy(c, "fast_copy", &|s, d| fast_copy(s, d), &d, sh.p1, sh.p2, true) }) });
        ctx.case("memops/copy_cacheopt", fam, idx, |c| { let sh = shape(c, fam, idx); let d = data_for(c, &sh); run_shape(c, fam, |c| {
            let ops = SimdMemOps::new();
            chk_copy(c, "SimdMemOps::copy_cache_optimized", &|s, d| ops.copy_cache_optimized(s, d), &d, sh.p1, sh.p2, true)?;
            chk_copy(c, "fast_copy_cache_optimized", &|s, d| fast_copy_cache_optimized(s, d), &d, sh.p1, sh.p2, true)?;
            // both operands cache-line aligned: takes the aligned kernels
            let (q1, q2) = if fam == "guard" { (Place::GuardStart, Place::GuardStart) } else { (Place::Align(0), Place::Align(0)) };
            chk_copy(c, "SimdMemOps::copy_cache_optimized(aligned)", &|s, d| ops.copy_cache_optimized(s, d), &d, q1, q2, true)?;
            chk_copy(c, "SimdMemOps::copy_aligned", &|s, d| ops.copy_aligned(s, d), &d, q1, q2, true)?;
            // misaligned operands to copy_aligned: refusal is fine, but if it copies it must copy correctly
            chk_copy(c, "SimdMemOps::copy_aligned(misaligned)", &|s, d| ops.copy_aligned(s, d), &d, sh.p1, sh.p2, false) }) });
        ctx.case("memops/compare", fam, idx, |c| { let sh = shape(c, fam, idx); let d = data_for(c, &sh); run_shape(c, fam, |c| {
            let ops = SimdMemOps::new();
            chk_cmp_sign(c, "SimdMemOps::compare", &|a, b| ops.compare(a, b), &d, sh.p1, sh.p2, false)?;
            chk_cmp_sign(c, "fast_compare", &|a, b| fast_compare(a, b), &d, sh.p1, sh.p2, false)?;
            chk_cmp_sign(c, "fast_compare_cache_optimized", &|a, b| fast_compare_cache_optimized(a, b), &d, sh.p1, sh.p2, false) }) });
        ctx.case("memops/find_byte", fam, idx, |c| { let sh = shape(c, fam, idx); let d = data_for(c, &sh); run_shape(c, fam, |c| {
            let ops = SimdMemOps::new();
            chk_find_byte(c, "SimdMemOps::find_byte", &|h, n| ops.find_byte(h, n), &d, sh.p1)?;
            chk_find_byte(c, "fast_find_byte", &|h, n| fast_find_byte(h, n), &d, sh.p1) }) });
        ctx.case("memops/fill", fam, idx, |c| { let sh = shape(c, fam, idx); let v = c.rng.next() as u8; c.input("value", &[v]); c.set_nontrivial(sh.len >= 1); run_shape(c, fam, |c| {
            let ops = SimdMemOps::new();
            for val in [v, 0, 0xFF, 0x80] { chk_fill(c, "SimdMemOps::fill", &|s, x| ops.fill(s, x), sh.len, sh.p1, val)?; }
            chk_fill(c, "fast_fill", &|s, x| fast_fill(s, x), sh.len, sh.p2, v)?;
            // prefetch helpers must be harmless on any slice
            let m = place(sh.p1, &vec![v; sh.len]); np("fast_prefetch_range", || { fast_prefetch_range(m.s()); ops.prefetch_range(m.s()); })?; Ok(()) }) });
    } }
}

// ------------------------------------------------------------------------------------------------
// group: io::simd_memory::copy
// ------------------------------------------------------------------------------------------------
fn g_iocopy(ctx: &mut Ctx) {
    use zipora::io::simd_memory::copy::*;
    for &fam in fams() { for idx in 0..fam_count(ctx, fam) {
        ctx.case("iocopy/large", fam, idx, |c| { let sh = shape(c, fam, idx); let d = data_for(c, &sh); if sh.len % 16 >= 9 { c.tag("len_mod16_in_9_15"); } run_shape(c, fam, |c| {
            c.note(&format!("tier:{:?}", SimdCopy::new().tier()), 1);
            chk_copy(c, "copy_large_simd", &|s, d| copy_large_simd(d, s), &d, sh.p1, sh.p2, true) }) });
        ctx.case("iocopy/small", fam, idx, |c| { let sh = shape(c, fam, idx); let d = data_for(c, &sh); run_shape(c, fam, |c| {
            chk_copy(c, "copy_small_simd", &|s, d| copy_small_simd(d, s), &d, sh.p1, sh.p2, sh.len <= 256) }) });
        ctx.case("iocopy/aligned", fam, idx, |c| { let sh = shape(c, fam, idx); let d = data_for(c, &sh); run_shape(c, fam, |c| {
            let (q1, q2) = if fam == "guard" { (Place::GuardStart, Place::GuardStart) } else { (Place::Align(0), Place::Align(0)) };
            chk_copy(c, "copy_aligned_simd", &|s, d| copy_aligned_simd(d, s), &d, q1, q2, true)?;
            chk_copy(c, "copy_aligned_simd(misaligned)", &|s, d| copy_aligned_simd(d, s), &d, sh.p1, sh.p2, false) }) });
    } }
}

// ------------------------------------------------------------------------------------------------
// group: io::simd_memory::search  (auto dispatch / sse42_* / scalar_* / all-disabled config)
// ------------------------------------------------------------------------------------------------
fn g_iosearch(ctx: &mut Ctx) {
    use zipora::io::simd_memory::search as S;
    let off = || S::SimdStringSearch::with_config(S::SearchConfig { enable_sse42: false, enable_avx2: false, enable_avx512: false, enable_neon: false });
    for &fam in fams() { for idx in 0..fam_count(ctx, fam) {
        // ---- single byte
        ctx.case("iosearch/strchr.auto", fam, idx, |c| { let sh = shape(c, fam, idx); let d = data_for(c, &sh); run_shape(c, fam, |c| {
            let s = S::SimdStringSearch::new(); c.note(&format!("tier:{:?}", s.tier()), 1);
            chk_find_byte(c, "SimdStringSearch::find_char", &|h, n| s.find_char(h, n), &d, sh.p1)?;
            chk_find_byte(c, "search::find_char", &|h, n| S::find_char(h, n), &d, sh.p1) }) });
        ctx.case("iosearch/strchr.sse42", fam, idx, |c| { let sh = shape(c, fam, idx); let d = data_for(c, &sh); run_shape(c, fam, |c| chk_find_byte(c, "sse42_strchr", &|h, n| S::sse42_strchr(h, n), &d, sh.p1)) });
        ctx.case("iosearch/strchr.scalar", fam, idx, |c| { let sh = shape(c, fam, idx); let d = data_for(c, &sh); run_shape(c, fam, |c| {
            chk_find_byte(c, "scalar_strchr", &|h, n| S::scalar_strchr(h, n), &d, sh.p1)?;
            let s = off(); ensure!(s.tier() == S::SearchTier::Scalar, "config_ignored", "all tiers disabled but tier() = {:?}", s.tier());
            chk_find_byte(c, "SimdStringSearch(all off)::find_char", &|h, n| s.find_char(h, n), &d, sh.p1) }) });
        // ---- substring
        ctx.case("iosearch/strstr.auto", fam, idx, |c| { let sh = shape(c, fam, idx); let d = data_for(c, &sh); let nl = guard_nlens(c, fam, idx); run_shape(c, fam, |c| {
            let s = S::SimdStringSearch::new();
            chk_strstr(c, "SimdStringSearch::find_pattern", &|h, n| s.find_pattern(h, n), &d, sh.p1, sh.p2, true, nl)?;
            chk_strstr(c, "search::find_pattern", &|h, n| S::find_pattern(h, n), &d, sh.p1, sh.p2, true, nl) }) });
        ctx.case("iosearch/strstr.sse42", fam, idx, |c| { let sh = shape(c, fam, idx); let d = data_for(c, &sh); let nl = guard_nlens(c, fam, idx); run_shape(c, fam, |c| chk_strstr(c, "sse42_strstr", &|h, n| S::sse42_strstr(h, n), &d, sh.p1, sh.p2, true, nl)) });
        ctx.case("iosearch/strstr.scalar", fam, idx, |c| { let sh = shape(c, fam, idx); let d = data_for(c, &sh); let nl = guard_nlens(c, fam, idx); run_shape(c, fam, |c| {
            chk_strstr(c, "scalar_strstr", &|h, n| S::scalar_strstr(h, n), &d, sh.p1, sh.p2, true, nl)?;
            let s = off(); chk_strstr(c, "SimdStringSearch(all off)::find_pattern", &|h, n| s.find_pattern(h, n), &d, sh.p1, sh.p2, true, nl) }) });
        // ---- character set
        ctx.case("iosearch/anyof.auto", fam, idx, |c| { let sh = shape(c, fam, idx); let d = data_for(c, &sh); if idx % 3 == 2 { c.tag("charset_gt16"); } run_shape(c, fam, |c| {
            let s = S::SimdStringSearch::new();
            chk_any_of(c, "SimdStringSearch::find_any_of", &|h, n| s.find_any_of(h, n), &d, sh.p1, sh.p2, idx % 3 == 2)?;
            chk_any_of(c, "search::find_any_of", &|h, n| S::find_any_of(h, n), &d, sh.p1, sh.p2, idx % 3 == 2) }) });
        ctx.case("iosearch/anyof.sse42", fam, idx, |c| { let sh = shape(c, fam, idx); let d = data_for(c, &sh); if idx % 3 == 2 { c.tag("charset_gt16"); } run_shape(c, fam, |c| chk_any_of(c, "sse42_multi_search", &|h, n| S::sse42_multi_search(h, n), &d, sh.p1, sh.p2, idx % 3 == 2)) });
        ctx.case("iosearch/anyof.scalar", fam, idx, |c| { let sh = shape(c, fam, idx); let d = data_for(c, &sh); if idx % 3 == 2 { c.tag("charset_gt16"); } run_shape(c, fam, |c| {
            chk_any_of(c, "scalar_multi_search", &|h, n| S::scalar_multi_search(h, n), &d, sh.p1, sh.p2, idx % 3 == 2)?;
            let s = off(); chk_any_of(c, "SimdStringSearch(all off)::find_any_of", &|h, n| s.find_any_of(h, n), &d, sh.p1, sh.p2, idx % 3 == 2) }) });
        // ---- comparison
        ctx.case("iosearch/strcmp.auto", fam, idx, |c| { let sh = shape(c, fam, idx); let d = data_for(c, &sh); run_shape(c, fam, |c| {
            let s = S::SimdStringSearch::new();
            chk_ord(c, "SimdStringSearch::compare_strings", &|a, b| s.compare_strings(a, b), &d, sh.p1, sh.p2)?;
            chk_ord(c, "search::compare_strings", &|a, b| S::compare_strings(a, b), &d, sh.p1, sh.p2) }) });
        ctx.case("iosearch/strcmp.sse42", fam, idx, |c| { let sh = shape(c, fam, idx); let d = data_for(c, &sh); run_shape(c, fam, |c| chk_ord(c, "sse42_strcmp", &|a, b| S::sse42_strcmp(a, b), &d, sh.p1, sh.p2)) });
        ctx.case("iosearch/strcmp.scalar", fam, idx, |c| { let sh = shape(c, fam, idx); let d = data_for(c, &sh); run_shape(c, fam, |c| {
            chk_ord(c, "scalar_strcmp", &|a, b| S::scalar_strcmp(a, b), &d, sh.p1, sh.p2)?;
            let s = off(); chk_ord(c, "SimdStringSearch(all off)::compare_strings", &|a, b| s.compare_strings(a, b), &d, sh.p1, sh.p2) }) });
    } }
}

// ------------------------------------------------------------------------------------------------
// group: string::simd_search  (tier chosen from get_cpu_features())
// ------------------------------------------------------------------------------------------------
fn g_strsearch(ctx: &mut Ctx) {
    use zipora::string::simd as T;
    for &fam in fams() { for idx in 0..fam_count(ctx, fam) {
        ctx.case("strsearch/strchr", fam, idx, |c| { let sh = shape(c, fam, idx); let d = data_for(c, &sh); if (33..=35).contains(&sh.len) { c.tag("hay_len_33_35"); } run_shape(c, fam, |c| {
            let s = T::SimdStringSearch::new(); c.note(&format!("tier:{:?}", s.tier()), 1);
            chk_find_byte(c, "string::SimdStringSearch::sse42_strchr", &|h, n| s.sse42_strchr(h, n), &d, sh.p1)?;
            chk_find_byte(c, "string::sse42_strchr", &|h, n| T::sse42_strchr(h, n), &d, sh.p1) }) });
        // empty needle is not exercised here: this API documents no convention and returns None for it on every tier
        ctx.case("strsearch/strstr", fam, idx, |c| { let sh = shape(c, fam, idx); let d = data_for(c, &sh); let nl = guard_nlens(c, fam, idx); run_shape(c, fam, |c| {
            let s = T::SimdStringSearch::new();
            chk_strstr(c, "string::SimdStringSearch::sse42_strstr", &|h, n| s.sse42_strstr(h, n), &d, sh.p1, sh.p2, false, nl)?;
            chk_strstr(c, "string::sse42_strstr", &|h, n| T::sse42_strstr(h, n), &d, sh.p1, sh.p2, false, nl) }) });
        ctx.case("strsearch/multi", fam, idx, |c| { let sh = shape(c, fam, idx); let d = data_for(c, &sh); run_shape(c, fam, |c| {
            let s = T::SimdStringSearch::new();
            for rep in 0..8 {
                let sz = if rep >= 6 { *c.rng.pick(SETLENS_WIDE) } else { *c.rng.pick(SETLENS) }; let set = charset(&mut c.rng, &d, sz);
                let mut h = d.clone();
                if rep % 2 == 1 { let repl = (0..=255u8).find(|b| !set.contains(b)).unwrap(); for x in h.iter_mut() { if set.contains(x) { *x = repl; } } for _ in 0..3 { if !h.is_empty() { let ps = positions(h.len(), &mut c.rng); let p = *c.rng.pick(&ps); h[p] = set[c.rng.usize_below(sz)]; } } }
                let (mh, ms) = (place(sh.p1, &h), place(sh.p2, &set));
                let want_pos: Vec<usize> = (0..h.len()).filter(|&i| set.contains(&h[i])).collect(); let want_ch: Vec<u8> = want_pos.iter().map(|&i| h[i]).collect();
                for (nm, r) in [("SimdStringSearch::sse42_multi_search", np("multi", || s.sse42_multi_search(mh.s(), ms.s()))?), ("string::sse42_multi_search", np("multi", || T::sse42_multi_search(mh.s(), ms.s()))?)] {
                    if r.positions != want_pos { let i = r.positions.iter().zip(&want_pos).position(|(a, b)| a != b).unwrap_or(r.positions.len().min(want_pos.len())); return Err(bad("charset_search_all", format!("{nm}: hay len={} set len={sz}: {} positions, want {}; first difference at result #{i} ({:?} vs {:?})", h.len(), r.positions.len(), want_pos.len(), r.positions.get(i), want_pos.get(i)))); }
                    ensure!(r.characters == want_ch, "charset_search_chars", "{nm}: characters differ from haystack bytes at the reported positions");
                    c.ev(1);
                }
            }
            Ok(()) }) });
        ctx.case("strsearch/strcmp", fam, idx, |c| { let sh = shape(c, fam, idx); let d = data_for(c, &sh); run_shape(c, fam, |c| {
            let s = T::SimdStringSearch::new();
            // equal lengths: must agree with the lexicographic order on every tier
            chk_cmp_sign(c, "string::SimdStringSearch::sse42_strcmp", &|a, b| sgn_ord(s.sse42_strcmp(a, b)), &d, sh.p1, sh.p2, true)?;
            chk_cmp_sign(c, "string::sse42_strcmp", &|a, b| sgn_ord(T::sse42_strcmp(a, b)), &d, sh.p1, sh.p2, true) }) });
        // different lengths: the function orders by length first (the repository's own test `test_strcmp_different_lengths`
        // pins that, e.g. "short" < "longer"), so the portable definition here is shortlex; C14 only demands that every tier
        // computes that same function. Disagreement with the plain lexicographic order is recorded as a note, not asserted.
        ctx.case("strsearch/strcmp_lens", fam, idx, |c| { let sh = shape(c, fam, idx); let d = data_for(c, &sh); run_shape(c, fam, |c| {
            let s = T::SimdStringSearch::new();
            let mut pairs = cmp_pairs(&mut c.rng, &d);
            // unequal lengths that are not prefixes of each other (byte order and length order disagree in about half of them)
            for _ in 0..reps(10) { let k = c.rng.usize_below(d.len() + 8); let kind = byte_kind(&mut c.rng); let o = gen::bytes_kind(&mut c.rng, kind, k); if c.rng.bool() { pairs.push((d.clone(), o)); } else { pairs.push((o, d.clone())); } }
            for (a, b) in pairs { if a.len() == b.len() { continue; }
                let (ma, mb) = (place(sh.p1, &a), place(sh.p2, &b)); let got = np("sse42_strcmp", || s.sse42_strcmp(ma.s(), mb.s()))?;
                let want = a.len().cmp(&b.len());
                if got != want { return Err(bad("strcmp_unequal_len", format!("sse42_strcmp(len {}, len {}) = {got:?}, length-first order is {want:?}", a.len(), b.len()))); }
                if got != a.cmp(&b) { c.note("differs_from_lexicographic", 1); }
                c.ev(1); }
            Ok(()) }) });
    } }
}

// ------------------------------------------------------------------------------------------------
// UTF-8 corpus
// ------------------------------------------------------------------------------------------------
const BAD_SEQS: &[(&str, &[u8])] = &[
    ("overlong2_c080", &[0xC0, 0x80]), ("overlong2_c1bf", &[0xC1, 0xBF]), ("overlong3_e08080", &[0xE0, 0x80, 0x80]), ("overlong3_e09fbf", &[0xE0, 0x9F, 0xBF]),
    ("overlong4_f0808080", &[0xF0, 0x80, 0x80, 0x80]), ("overlong4_f08fbfbf", &[0xF0, 0x8F, 0xBF, 0xBF]), ("surrogate_d800", &[0xED, 0xA0, 0x80]), ("surrogate_dfff", &[0xED, 0xBF, 0xBF]),
    ("gt10ffff_f4908080", &[0xF4, 0x90, 0x80, 0x80]), ("lead_f5", &[0xF5, 0x80, 0x80, 0x80]), ("lead_f8", &[0xF8, 0x88, 0x80, 0x80, 0x80]), ("stray_cont_80", &[0x80]), ("stray_cont_bf", &[0xBF]),
    ("byte_fe", &[0xFE]), ("byte_ff", &[0xFF]), ("trunc2", &[0xC3]), ("trunc3", &[0xE2, 0x82]), ("trunc4", &[0xF0, 0x9F, 0x98]), ("bad_cont3", &[0xE2, 0x28, 0xA1]), ("bad_cont2", &[0xC2, 0x41]),
    ("cont_c0plus", &[0xE2, 0x82, 0xC0]), ("f4_then_ascii", &[0xF4, 0x41, 0x80, 0x80]),
];
const EDGE_CHARS: &[u32] = &[0x00, 0x7F, 0x80, 0x7FF, 0x800, 0xFFF, 0x1000, 0xCFFF, 0xD000, 0xD7FF, 0xE000, 0xFFFD, 0xFFFF, 0x10000, 0x3FFFF, 0x40000, 0xFFFFF, 0x100000, 0x10FFFF];
fn rand_char(r: &mut Rng, w: usize) -> char {
    if r.chance(1, 5) { let cs: Vec<u32> = EDGE_CHARS.iter().copied().filter(|&u| char::from_u32(u).map(|c| c.len_utf8() == w).unwrap_or(false)).collect(); if !cs.is_empty() { return char::from_u32(*r.pick(&cs)).unwrap(); } }
    loop {
        let u = match w { 1 => if r.chance(1, 30) { r.below(0x80) as u32 } else { 0x20 + r.below(0x5F) as u32 }, 2 => 0x80 + r.below(0x780) as u32, 3 => 0x800 + r.below(0xF800) as u32, _ => 0x10000 + r.below(0x100000) as u32 };
        if let Some(ch) = char::from_u32(u) { if ch.len_utf8() == w { return ch; } }
    }
}
/// valid UTF-8 of exactly `n` bytes; `mb` = percentage of multi-byte characters
fn valid_exact(r: &mut Rng, n: usize, mb: u64) -> Vec<u8> {
    let mut out = Vec::with_capacity(n); let mut buf = [0u8; 4];
    while out.len() < n { let rem = n - out.len(); let w = if r.below(100) < mb { (2 + r.usize_below(3)).min(rem) } else { 1 }; out.extend_from_slice(rand_char(r, w).encode_utf8(&mut buf).as_bytes()); }
    out
}
fn valid_string(r: &mut Rng, n: usize, mb: u64) -> String { String::from_utf8(valid_exact(r, n, mb)).expect("generator produces valid utf-8") }
/// (bytes, name of the injected defect or "valid")
fn utf8_case(c: &mut Case, fam: &str, idx: u64) -> (Vec<u8>, &'static str) {
    let r = &mut c.rng;
    let (v, tag): (Vec<u8>, &'static str) = match fam {
        "ascii" => (valid_exact(r, (idx % 201) as usize, 0), "valid"),
        "valid" => { let n = (idx % 201) as usize; let mb = *r.pick(&[5u64, 30, 100]); (valid_exact(r, n, mb), "valid") }
        "invalid" => { // defect at a chosen offset relative to a 16/32/64-byte boundary
            let (name, seq) = BAD_SEQS[(idx as usize) % BAD_SEQS.len()];
            let b = *r.pick(&[16usize, 32, 64]); let k = r.usize_below(5); let d = r.usize_below(7) as i64 - 5; let pre = ((b * k) as i64 + d).max(0) as usize;
            let mb = *r.pick(&[0u64, 0, 20, 100]); let mut v = valid_exact(r, pre, mb); v.extend_from_slice(seq);
            let suf = match r.below(4) { 0 => 0, 1 => r.usize_below(4), 2 => r.usize_below(40), _ => 64 + r.usize_below(80) }; v.extend(valid_exact(r, suf, mb)); (v, name) }
        "cut" => { let n = 8 + r.usize_below(190); let mut v = valid_exact(r, n, 100); let k = r.usize_below(v.len() + 1); if r.bool() { v.truncate(k); } else { v.drain(..k); } (v, "cut") }
        "big" => { let n = BIGLENS[(idx as usize) % BIGLENS.len()]; let mb = *r.pick(&[0u64, 0, 10, 100]); let mut v = valid_exact(r, n, mb); let t = if r.chance(1, 2) { let (name, seq) = *r.pick(BAD_SEQS); let p = r.usize_below(n); let e = (p + seq.len()).min(n); v.splice(p..e, seq.iter().copied()); name } else { "valid" }; (v, t) }
        "micro" => { let n = MICROLENS[(idx as usize) % MICROLENS.len()]; let mut v = valid_exact(r, n, 50); let t = if idx % 3 == 2 { let (name, seq) = BAD_SEQS[(idx as usize / 3) % BAD_SEQS.len()]; v.extend_from_slice(seq); v.extend(valid_exact(r, (idx % 5) as usize, 0)); name } else { "valid" }; (v, t) }
        _ /* guard */ => { let n = *r.pick(&[7usize, 8, 9, 15, 16, 17, 31, 32, 33, 63, 64, 65, 100, 4096]); let mb = *r.pick(&[0u64, 30, 100]); let mut v = valid_exact(r, n, mb); let t = if r.chance(1, 2) { let (name, seq) = *r.pick(BAD_SEQS); v.extend_from_slice(seq); name } else { "valid" }; (v, t) }
    };
    c.input("bytes", &v); c.input_str("defect", tag); c.set_nontrivial(!v.is_empty());
    (v, tag)
}
const UTF8_FAMS: &[&str] = &["ascii", "valid", "invalid", "cut", "big", "micro", "guard"];
fn utf8_fams() -> &'static [&'static str] { if cfg!(miri) { &["micro"] } else { UTF8_FAMS } }
fn utf8_count(ctx: &Ctx, fam: &str) -> u64 { (match fam { "ascii" => ctx.n(201, 402), "valid" => ctx.n(402, 201 * 20), "invalid" => ctx.n(BAD_SEQS.len() * 24, BAD_SEQS.len() * 600), "cut" => ctx.n(150, 4000), "big" => ctx.n(36, 360), "micro" => ctx.n(42, 200), _ => ctx.n(60, 600) }) as u64 }
fn utf8_place(c: &mut Case, fam: &str) -> Place { if fam == "guard" { if c.rng.chance(1, 5) { Place::GuardStart } else { Place::GuardEnd } } else { Place::Align(c.rng.usize_below(64)) } }

fn g_utf8(ctx: &mut Ctx) {
    use zipora::io::simd_validation::utf8 as U;
    use zipora::string::bmi2 as B;
    for &fam in utf8_fams() { for idx in 0..utf8_count(ctx, fam) {
        ctx.case("utf8/validator", fam, idx, |c| { let (v, _) = utf8_case(c, fam, idx); let p = utf8_place(c, fam); run_shape(c, fam, |c| {
            let m = place(p, &v); let want = std::str::from_utf8(&v).is_ok();
            let val = U::Utf8Validator::new_unmonitored(); c.note(&format!("tier:{:?}", val.tier()), 1);
            let got = np("Utf8Validator::validate_utf8", || val.validate_utf8(m.s()))?;
            match got { Ok(g) if g == want => {} other => return Err(bad("utf8_verdict", format!("Utf8Validator::validate_utf8: len={} {p:?}: got {other:?}, std says valid={want}", v.len()))) } c.ev(1);
            // the global (monitored) entry points initialise AdaptiveSimdSelector::global(), whose start-up micro-benchmarks take minutes under Miri
            if !cfg!(miri) {
                let got = np("utf8::validate_utf8", || U::validate_utf8(m.s()))?;
                match got { Ok(g) if g == want => {} other => return Err(bad("utf8_verdict", format!("utf8::validate_utf8: len={} {p:?}: got {other:?}, std says valid={want}", v.len()))) }
                let g = np("is_valid_utf8", || U::is_valid_utf8(m.s()))?; ensure!(g == want, "utf8_verdict", "is_valid_utf8: len={} got {g}, std says {want}", v.len()); c.ev(2);
            }
            Ok(()) }) });
        ctx.case("bmi2/validate_utf8", fam, idx, |c| { let (v, _) = utf8_case(c, fam, idx); let p = utf8_place(c, fam); run_shape(c, fam, |c| {
            let m = place(p, &v); let want = std::str::from_utf8(&v).is_ok(); let pr = B::Bmi2StringProcessor::new(); c.note(if pr.is_bmi2_available() { "bmi2:on" } else { "bmi2:off" }, 1);
            let g = np("validate_utf8_bmi2", || pr.validate_utf8_bmi2(m.s()))?; ensure!(g == want, "utf8_verdict", "Bmi2StringProcessor::validate_utf8_bmi2: len={} got {g}, std says {want}", v.len());
            let g = np("validate_utf8_bmi2(global)", || B::validate_utf8_bmi2(m.s()))?; ensure!(g == want, "utf8_verdict", "validate_utf8_bmi2: len={} got {g}, std says {want}", v.len());
            c.ev(2); Ok(()) }) });
        ctx.case("bmi2/count_chars", fam, idx, |c| { let (v, _) = utf8_case(c, fam, idx); let p = utf8_place(c, fam); run_shape(c, fam, |c| {
            let m = place(p, &v); let want = std::str::from_utf8(&v).ok().map(|s| s.chars().count()); let pr = B::Bmi2StringProcessor::new();
            for (nm, got) in [("Bmi2StringProcessor::count_utf8_chars_bmi2", np("count_utf8_chars_bmi2", || pr.count_utf8_chars_bmi2(m.s()))?), ("count_utf8_chars_bmi2", np("count_utf8_chars_bmi2(global)", || B::count_utf8_chars_bmi2(m.s()))?)] {
                if got.as_ref().ok().copied() != want { return Err(bad("utf8_count", format!("{nm}: len={}: got {got:?}, std says {want:?}", v.len()))); } c.ev(1);
            }
            Ok(()) }) });
        ctx.case("unicode/validate_count", fam, idx, |c| { let (v, _) = utf8_case(c, fam, idx); let p = utf8_place(c, fam); run_shape(c, fam, |c| {
            let m = place(p, &v); let want = std::str::from_utf8(&v).ok().map(|s| s.chars().count());
            let got = np("validate_utf8_and_count_chars", || zipora::string::validate_utf8_and_count_chars(m.s()))?;
            if got.as_ref().ok().copied() != want { return Err(bad("utf8_count", format!("validate_utf8_and_count_chars: len={}: got {got:?}, std says {want:?}", v.len()))); }
            // leading-byte length table against the encoding definition
            if let Ok(s) = std::str::from_utf8(&v) { for (i, ch) in s.char_indices() { let w = zipora::string::utf8_byte_count(v[i]); ensure!(w == ch.len_utf8(), "utf8_byte_count", "utf8_byte_count({:#04x}) = {w}, char is {} bytes", v[i], ch.len_utf8()); } }
            c.ev(1); Ok(()) }) });
        // decoding / transcoding: the BMI2 branch (len >= 8) against the std fallback the same function uses for short input
        ctx.case("bmi2/extract_chars", fam, idx, |c| { let (v, t) = utf8_case(c, fam, idx); let p = utf8_place(c, fam);
            let _ = t; if v.len() >= 8 { if std::str::from_utf8(&v).is_ok() && !v.is_ascii() { c.tag("multibyte_len_ge8"); } if std::str::from_utf8(&v).is_err() { c.tag("invalid_len_ge8"); } }
            run_shape(c, fam, |c| {
            let m = place(p, &v); let want: Option<Vec<u32>> = std::str::from_utf8(&v).ok().map(|s| s.chars().map(|x| x as u32).collect()); let pr = B::Bmi2StringProcessor::new();
            let got = np("extract_utf8_chars_bmi2", || pr.extract_utf8_chars_bmi2(m.s()))?;
            match (&got, &want) { (Ok(g), Some(w)) if g == w => {} (Err(_), None) => {}
                (Err(e), Some(w)) => return Err(bad("utf8_decode_rejects_valid", format!("extract_utf8_chars_bmi2: len={} valid UTF-8 with {} chars rejected: {e}", v.len(), w.len()))),
                (Ok(g), None) => return Err(bad("utf8_decode_accepts_invalid", format!("extract_utf8_chars_bmi2: len={} invalid UTF-8 decoded to {} code points", v.len(), g.len()))),
                (Ok(g), Some(w)) => return Err(bad("utf8_decode_mismatch", format!("extract_utf8_chars_bmi2: len={}: {} code points, want {}", v.len(), g.len(), w.len()))) }
            c.ev(1); Ok(()) }) });
        ctx.case("bmi2/utf8_to_utf16", fam, idx, |c| { let (v, t) = utf8_case(c, fam, idx); let p = utf8_place(c, fam);
            let _ = t; if v.len() >= 8 { if std::str::from_utf8(&v).is_ok() && !v.is_ascii() { c.tag("multibyte_len_ge8"); } if std::str::from_utf8(&v).is_err() { c.tag("invalid_len_ge8"); } }
            run_shape(c, fam, |c| {
            let m = place(p, &v); let want: Option<Vec<u16>> = std::str::from_utf8(&v).ok().map(|s| s.encode_utf16().collect()); let pr = B::Bmi2StringProcessor::new();
            let got = np("utf8_to_utf16_bmi2", || pr.utf8_to_utf16_bmi2(m.s()))?;
            match (&got, &want) { (Ok(g), Some(w)) if g == w => {} (Err(_), None) => {}
                (Err(e), Some(w)) => return Err(bad("utf8_decode_rejects_valid", format!("utf8_to_utf16_bmi2: len={} valid UTF-8 ({} units) rejected: {e}", v.len(), w.len()))),
                (Ok(g), None) => return Err(bad("utf8_decode_accepts_invalid", format!("utf8_to_utf16_bmi2: len={} invalid UTF-8 transcoded to {} units", v.len(), g.len()))),
                (Ok(g), Some(w)) => return Err(bad("utf8_decode_mismatch", format!("utf8_to_utf16_bmi2: len={}: {} units, want {}", v.len(), g.len(), w.len()))) }
            c.ev(1); Ok(()) }) });
    } }
}

// ------------------------------------------------------------------------------------------------
// group: CRC32C
// ------------------------------------------------------------------------------------------------
fn crc32c_def(data: &[u8], mut crc: u32) -> u32 { for &b in data { crc ^= b as u32; for _ in 0..8 { crc = if crc & 1 != 0 { (crc >> 1) ^ 0x82F6_3B78 } else { crc >> 1 }; } } crc }
fn g_crc(ctx: &mut Ctx) {
    use zipora::io::simd_validation::checksum as K;
    for &fam in fams() { for idx in 0..fam_count(ctx, fam) {
        ctx.case("crc32c", fam, idx, |c| { let sh = shape(c, fam, idx); let d = data_for(c, &sh); run_shape(c, fam, |c| {
            c.note(&format!("impl:{:?}", K::detect_crc32c_impl()), 1);
            let m = place(sh.p1, &d);
            if fam == "micro" { let h = K::crc32c_hash(b"123456789").map_err(|e| bad("crc_err", e.to_string()))?; ensure!(h == 0xE306_9283, "crc32c_check_value", "crc32c_hash(\"123456789\") = {h:#x}"); }
            let h = np("crc32c_hash", || K::crc32c_hash(m.s()))?.map_err(|e| bad("crc_err", e.to_string()))?;
            let want = !crc32c_def(&d, 0xFFFF_FFFF); ensure!(h == want, "crc32c_oneshot", "crc32c_hash len={} {:?}: {h:#010x} want {want:#010x}", d.len(), sh.p1); c.ev(1);
            for init in [0u32, 0xFFFF_FFFF, c.rng.next() as u32] {
                let g = np("crc32c", || K::crc32c(m.s(), init))?.map_err(|e| bad("crc_err", e.to_string()))?; let w = crc32c_def(&d, init);
                ensure!(g == w, "crc32c_raw", "crc32c(len={}, init={init:#x}) = {g:#010x} want {w:#010x}", d.len()); c.ev(1);
                // incremental == one shot, at every split for short inputs, boundary splits otherwise
                let mut splits = positions(d.len() + 1, &mut c.rng); if splits.len() > 70 { splits.truncate(70); }
                for k in splits { let a = np("crc32c_update", || K::crc32c_update(init, &m.s()[..k]))?.map_err(|e| bad("crc_err", e.to_string()))?; let b = K::crc32c_update(a, &m.s()[k..]).map_err(|e| bad("crc_err", e.to_string()))?;
                    ensure!(b == w, "crc32c_incremental", "split {k}/{}: {b:#010x} want {w:#010x}", d.len()); ensure!(K::crc32c_finalize(b) == !w, "crc32c_finalize", "finalize"); c.ev(1); }
                // three-way split with odd piece sizes
                if d.len() >= 3 { let i = 1 + c.rng.usize_below(d.len() - 2); let j = i + 1 + c.rng.usize_below(d.len() - i - 1); let mut x = init; for part in [&m.s()[..i], &m.s()[i..j], &m.s()[j..]] { x = K::crc32c(part, x).map_err(|e| bad("crc_err", e.to_string()))?; } ensure!(x == w, "crc32c_incremental", "3-way split {i},{j}/{}", d.len()); c.ev(1); }
            }
            Ok(()) }) });
    } }
}

// ------------------------------------------------------------------------------------------------
// group: Base64 (RFC 4648 written out) and hex
// ------------------------------------------------------------------------------------------------
const B64_STD: &[u8; 64] = b"ABCDEFGHIJKLMNOPQRSTUVWXYZabcdefghijklmnopqrstuvwxyz0123456789+/";
const B64_URL: &[u8; 64] = b"ABCDEFGHIJKLMNOPQRSTUVWXYZabcdefghijklmnopqrstuvwxyz0123456789-_";
fn b64_def(data: &[u8], url: bool, pad: bool) -> String {
    let al = if url { B64_URL } else { B64_STD }; let mut out = String::new();
    for ch in data.chunks(3) {
        let b = [ch[0], *ch.get(1).unwrap_or(&0), *ch.get(2).unwrap_or(&0)];
        let q = [b[0] >> 2, ((b[0] & 3) << 4) | (b[1] >> 4), ((b[1] & 15) << 2) | (b[2] >> 6), b[2] & 63];
        for i in 0..4 { if i <= ch.len() { out.push(al[q[i] as usize] as char); } else if pad { out.push('='); } }
    }
    out
}
fn g_codec(ctx: &mut Ctx) {
    use zipora::io::simd_encoding::base64 as IB;
    use zipora::system::base64 as SB;
    for &fam in fams() { if fam == "guard" { continue; } for idx in 0..fam_count(ctx, fam) {
        ctx.case("b64/io", fam, idx, |c| { let sh = shape(c, fam, idx); let d = data_for(c, &sh); let m = place(sh.p1, &d);
            let want = b64_def(&d, false, true);
            let e = np("encode_base64", || IB::encode_base64(m.s()))?.map_err(|e| bad("b64_err", e.to_string()))?; ensure!(e == want, "b64_encode", "encode_base64 len={}: {:?} want {:?}", d.len(), &e[..e.len().min(40)], &want[..want.len().min(40)]);
            ensure!(IB::calculate_encoded_len(d.len()) == want.len(), "b64_len", "calculate_encoded_len({}) = {} want {}", d.len(), IB::calculate_encoded_len(d.len()), want.len());
            let dec = np("decode_base64", || IB::decode_base64(&want))?.map_err(|e| bad("b64_decode_err", format!("canonical encoding of len {} rejected: {e}", d.len())))?; ensure!(dec == d, "b64_roundtrip", "decode(encode(x)) != x, len={}", d.len());
            let mut ob = place(sh.p2, &vec![0u8; want.len()]); let n = np("encode_base64_to_buffer", || IB::encode_base64_to_buffer(m.s(), ob.m()))?.map_err(|e| bad("b64_err", e.to_string()))?; ensure!(n == want.len() && ob.s() == want.as_bytes() && ob.intact(), "b64_encode", "encode_base64_to_buffer len={}", d.len());
            let mut db = place(sh.p2, &vec![0u8; d.len()]); let eb = place(sh.p1, want.as_bytes()); let n = np("decode_base64_from_buffer", || IB::decode_base64_from_buffer(eb.s(), db.m()))?.map_err(|e| bad("b64_decode_err", e.to_string()))?; ensure!(n == d.len() && db.s() == &d[..] && db.intact(), "b64_roundtrip", "decode_base64_from_buffer len={}", d.len());
            ensure!(IB::calculate_decoded_len(want.len()) >= d.len(), "b64_len", "calculate_decoded_len({}) < {}", want.len(), d.len());
            // a character outside the alphabet must be rejected
            if !want.is_empty() { let mut w = want.clone().into_bytes(); let i = c.rng.usize_below(w.len()); w[i] = *c.rng.pick(b"!*-_ \n~"); let s = String::from_utf8(w).unwrap(); ensure!(IB::decode_base64(&s).is_err(), "b64_accepts_invalid", "decode_base64 accepted {:?}", &s[..s.len().min(40)]); }
            c.ev(6); Ok(()) });
        ctx.case("b64/system", fam, idx, |c| { let sh = shape(c, fam, idx); let d = data_for(c, &sh); let m = place(sh.p1, &d);
            for url in [false, true] { for pad in [true, false] { for force in [None, Some(SB::SimdImplementation::Scalar), Some(SB::SimdImplementation::SSE42), Some(SB::SimdImplementation::AVX2), Some(SB::SimdImplementation::AVX512)] {
                let cfg = SB::Base64Config { url_safe: url, padding: pad, force_implementation: force };
                let codec = SB::AdaptiveBase64::with_config(cfg.clone()); let want = b64_def(&d, url, pad);
                let e = np("AdaptiveBase64::encode", || codec.encode(m.s()))?; ensure!(e == want, "b64_encode", "AdaptiveBase64(url={url},pad={pad},force={force:?}) len={}: {:?} want {:?}", d.len(), &e[..e.len().min(40)], &want[..want.len().min(40)]);
                let dec = np("AdaptiveBase64::decode", || codec.decode(&want))?.map_err(|e| bad("b64_decode_err", format!("AdaptiveBase64(url={url},pad={pad},force={force:?}) rejects its own canonical encoding of len {}: {e}", d.len())))?; ensure!(dec == d, "b64_roundtrip", "AdaptiveBase64(url={url},pad={pad}) len={}", d.len());
                let e2 = SB::SimdBase64Encoder::with_config(cfg.clone()).encode(m.s()); ensure!(e2 == want, "b64_encode", "SimdBase64Encoder(url={url},pad={pad})"); let d2 = SB::SimdBase64Decoder::with_config(cfg).decode(&want).map_err(|e| bad("b64_decode_err", e.to_string()))?; ensure!(d2 == d, "b64_roundtrip", "SimdBase64Decoder");
                c.ev(4);
            } } }
            let want = b64_def(&d, false, true); ensure!(SB::base64_encode_simd(m.s()) == want, "b64_encode", "base64_encode_simd"); ensure!(SB::base64_decode_simd(&want).map_err(|e| bad("b64_decode_err", e.to_string()))? == d, "b64_roundtrip", "base64_decode_simd");
            ensure!(SB::SimdBase64Encoder::new().encode(m.s()) == want && SB::AdaptiveBase64::new().encode(m.s()) == want, "b64_encode", "default codecs");
            if !want.is_empty() { let mut w = want.clone().into_bytes(); let i = c.rng.usize_below(w.len()); w[i] = b'*'; let s = String::from_utf8(w).unwrap(); ensure!(SB::base64_decode_simd(&s).is_err() && SB::AdaptiveBase64::new().decode(&s).is_err(), "b64_accepts_invalid", "accepted {:?}", &s[..s.len().min(40)]); }
            c.ev(3); Ok(()) });
        ctx.case("hex", fam, idx, |c| { use zipora::string as H; let sh = shape(c, fam, idx); let d = data_for(c, &sh); let m = place(sh.p1, &d);
            let lo: String = d.iter().map(|b| format!("{:02x}", b)).collect(); let up: String = d.iter().map(|b| format!("{:02X}", b)).collect();
            ensure!(np("hex_encode", || H::hex_encode(m.s()))? == lo, "hex_encode", "hex_encode len={}", d.len()); ensure!(H::hex_encode_upper(m.s()) == up, "hex_encode", "hex_encode_upper"); ensure!(H::hex_encode_to_bytes(m.s()) == lo.as_bytes(), "hex_encode", "hex_encode_to_bytes");
            let mut ob = place(sh.p2, &vec![0u8; lo.len()]); let n = H::hex_encode_to_slice(m.s(), ob.m()).map_err(|e| bad("hex_err", e.to_string()))?; ensure!(n == lo.len() && ob.s() == lo.as_bytes() && ob.intact(), "hex_encode", "hex_encode_to_slice");
            let mixed: String = lo.chars().map(|ch| if c.rng.bool() { ch.to_ascii_uppercase() } else { ch }).collect();
            for s in [&lo, &up, &mixed] { let g = np("hex_decode", || H::hex_decode(s))?.map_err(|e| bad("hex_decode_err", e.to_string()))?; ensure!(g == d, "hex_roundtrip", "hex_decode len={}", d.len()); ensure!(H::hex_decode_bytes(s.as_bytes()).map_err(|e| bad("hex_decode_err", e.to_string()))? == d, "hex_roundtrip", "hex_decode_bytes"); ensure!(H::is_valid_hex(s), "hex_valid", "is_valid_hex false on valid"); c.ev(3); }
            let mut db = place(sh.p2, &vec![0u8; d.len()]); let hb = place(sh.p1, mixed.as_bytes()); let n = H::hex_decode_to_slice(hb.s(), db.m()).map_err(|e| bad("hex_decode_err", e.to_string()))?; ensure!(n == d.len() && db.s() == &d[..] && db.intact(), "hex_roundtrip", "hex_decode_to_slice");
            if !lo.is_empty() { let mut w = lo.clone().into_bytes(); let i = c.rng.usize_below(w.len()); w[i] = *c.rng.pick(b"gG/:@`x \0"); ensure!(H::hex_decode_bytes(&w).is_err() && !H::is_valid_hex(std::str::from_utf8(&w).unwrap()), "hex_accepts_invalid", "accepted {:?}", String::from_utf8_lossy(&w)); ensure!(H::hex_decode(&lo[1..]).is_err(), "hex_accepts_odd", "odd length accepted"); }
            for b in 0..=255u8 { let want = match b { b'0'..=b'9' => Some(b - b'0'), b'a'..=b'f' => Some(b - b'a' + 10), b'A'..=b'F' => Some(b - b'A' + 10), _ => None }; ensure!(H::hex_char_to_nibble(b) == want, "hex_nibble", "hex_char_to_nibble({b})"); }
            c.ev(5); Ok(()) });
    } }
}

// ------------------------------------------------------------------------------------------------
// group: entropy::bit_ops
// ------------------------------------------------------------------------------------------------
fn pdep_def(src: u64, mask: u64) -> u64 { let (mut r, mut k) = (0u64, 0u32); for i in 0..64 { if mask >> i & 1 == 1 { if src >> k & 1 == 1 { r |= 1u64 << i; } k += 1; } } r }
fn pext_def(src: u64, mask: u64) -> u64 { let (mut r, mut k) = (0u64, 0u32); for i in 0..64 { if mask >> i & 1 == 1 { if src >> i & 1 == 1 { r |= 1u64 << k; } k += 1; } } r }
fn select_def(x: u64, k: u32) -> Option<u32> { let mut n = 0; for i in 0..64 { if x >> i & 1 == 1 { if n == k { return Some(i); } n += 1; } } None }
fn rev_def(x: u64, w: u32) -> u64 { let mut r = 0u64; for i in 0..w { if x >> i & 1 == 1 { r |= 1u64 << (w - 1 - i); } } r }
fn popc_def(x: u64) -> u32 { (0..64).filter(|i| x >> i & 1 == 1).count() as u32 }
fn tz_def(x: u64, w: u32) -> u32 { (0..w).find(|&i| x >> i & 1 == 1).unwrap_or(w) }
fn word(r: &mut Rng) -> u64 {
    match r.below(12) { 0 => 0, 1 => u64::MAX, 2 => 1u64 << r.below(64), 3 => !(1u64 << r.below(64)), 4 => r.next() & r.next() & r.next(), 5 => r.next() | r.next() | r.next(), 6 => 0x5555_5555_5555_5555, 7 => 0xAAAA_AAAA_AAAA_AAAA,
        8 => (r.next() as u8 as u64) * 0x0101_0101_0101_0101, 9 => { let a = r.below(64); let b = r.below(64 - a) + 1; (if b == 64 { u64::MAX } else { (1u64 << b) - 1 }) << a } 10 => r.next() as u32 as u64, _ => r.next() }
}
/// mask with at most 32 set bits (results are u32 symbols)
fn mask32(r: &mut Rng) -> u64 { let mut m = word(r); while popc_def(m) > 32 { m &= r.next(); } m }
/// `lenient`: configuration whose contract is ambiguous (hardware disabled AND software_fallback=false): divergences of the
/// fallback-dependent operations are recorded as notes (`diverge:<class>`) instead of violations.
fn chk_bitops(c: &mut Case, b: &zipora::entropy::bit_ops::BitOps, label: &str, lenient: bool) -> Res {
    let n = if cfg!(miri) { 6 } else { 48 };
    let mut words = Vec::new();
    for _ in 0..n {
        let (x, m) = (word(&mut c.rng), word(&mut c.rng)); words.push(x);
        let (x32, m32) = (x as u32, m as u32);
        macro_rules! eqv { ($cls:expr, $got:expr, $want:expr, $($a:tt)*) => {{ let g = np($cls, || $got)?; let w = $want; if g != w { if lenient && matches!($cls, "pdep" | "pext" | "select_in_word" | "bzhi" | "pext_multi") { c.note(&format!("diverge:{}", $cls), 1); } else { return Err(bad($cls, format!("{label}: {} = {:?} want {:?}", format!($($a)*), g, w))); } } c.ev(1); }}; }
        eqv!("popcount", b.popcount64(x), popc_def(x), "popcount64({x:#x})"); eqv!("popcount", b.popcount32(x32), popc_def(x32 as u64), "popcount32({x32:#x})");
        eqv!("trailing_zeros", b.trailing_zeros64(x), tz_def(x, 64), "trailing_zeros64({x:#x})"); eqv!("trailing_zeros", b.trailing_zeros32(x32), tz_def(x32 as u64, 32), "trailing_zeros32({x32:#x})");
        eqv!("pdep", b.parallel_deposit64(x, m), pdep_def(x, m), "parallel_deposit64({x:#x},{m:#x})"); eqv!("pdep", b.parallel_deposit32(x32, m32), pdep_def(x32 as u64, m32 as u64) as u32, "parallel_deposit32({x32:#x},{m32:#x})"); eqv!("pdep", b.pdep_u64(x, m), pdep_def(x, m), "pdep_u64");
        eqv!("pext", b.parallel_extract64(x, m), pext_def(x, m), "parallel_extract64({x:#x},{m:#x})"); eqv!("pext", b.parallel_extract32(x32, m32), pext_def(x32 as u64, m32 as u64) as u32, "parallel_extract32({x32:#x},{m32:#x})"); eqv!("pext", b.pext_u64(x, m), pext_def(x, m), "pext_u64");
        eqv!("bit_reverse", b.reverse_bits64(x), rev_def(x, 64), "reverse_bits64({x:#x})"); eqv!("bit_reverse", b.reverse_bits32(x32), rev_def(x32 as u64, 32) as u32, "reverse_bits32({x32:#x})"); eqv!("bit_reverse", b.bit_reverse_bmi2(x), rev_def(x, 64), "bit_reverse_bmi2({x:#x})");
        let pc = popc_def(x); for k in [0u32, 1, pc / 2, pc.saturating_sub(1), pc, pc + 1, c.rng.below(70) as u32] { eqv!("select_in_word", b.select_bit64(x, k), select_def(x, k), "select_bit64({x:#x},{k})"); }
        let pc = popc_def(x32 as u64); for k in [0u32, pc.saturating_sub(1), pc, c.rng.below(40) as u32] { eqv!("select_in_word", b.select_bit32(x32, k), select_def(x32 as u64, k), "select_bit32({x32:#x},{k})"); }
        for i in [0u32, 1, 31, 32, 33, 63, 64, c.rng.below(70) as u32] {
            eqv!("bzhi", b.zero_high_bits64(x, i), if i >= 64 { x } else { x & ((1u64 << i) - 1) }, "zero_high_bits64({x:#x},{i})");
            eqv!("bzhi", b.zero_high_bits32(x32, i), if i >= 32 { x32 } else { x32 & ((1u32 << i) - 1) }, "zero_high_bits32({x32:#x},{i})");
        }
        let (lo, hi) = (x as u32, (x >> 32) as u32); eqv!("interleave", b.bit_interleaving_bmi2(lo, hi), pdep_def(lo as u64, 0x5555_5555_5555_5555) | pdep_def(hi as u64, 0xAAAA_AAAA_AAAA_AAAA), "bit_interleaving_bmi2({lo:#x},{hi:#x})");
        let masks = [m, word(&mut c.rng), word(&mut c.rng)];
        eqv!("pext_multi", b.parallel_bit_extract_bmi2(x, &masks), masks.iter().map(|&k| pext_def(x, k)).collect::<Vec<u64>>(), "parallel_bit_extract_bmi2({x:#x})");
        eqv!("pext_multi", b.extract_huffman_symbols_bmi2(x, &masks), masks.iter().map(|&k| pext_def(x, k) as u32).collect::<Vec<u32>>(), "extract_huffman_symbols_bmi2({x:#x})");
        eqv!("pext_multi", b.decode_rans_symbols_bmi2(x, m), pext_def(x, m) as u32, "decode_rans_symbols_bmi2"); let so = c.rng.next() as u32; eqv!("pext_multi", b.fse_decode_bmi2(x, m, so), (pext_def(x, m) as u32).wrapping_add(so), "fse_decode_bmi2");
        // in-range variable length fields (start+len <= 64, 1 <= len <= 32)
        let len = 1 + c.rng.below(32) as u32; let start = c.rng.below((64 - len + 1) as u64) as u32; let fm = if len == 32 { u32::MAX } else { (1u32 << len) - 1 };
        eqv!("varlen", b.decode_variable_length_bmi2(x, start, len).ok(), Some(((x >> start) as u32) & fm), "decode_variable_length_bmi2({x:#x},{start},{len})");
        eqv!("varlen", b.encode_variable_length_bmi2(x32, len).ok(), Some((x32 & fm) as u64), "encode_variable_length_bmi2({x32:#x},{len})");
    }
    for extra in [0usize, 1, 3, 4, 5, 8, 9] { let ws: Vec<u64> = (0..extra).map(|_| word(&mut c.rng)).collect(); let g = np("vectorized_popcount", || b.vectorized_popcount(&ws))?; let w: Vec<u32> = ws.iter().map(|&x| popc_def(x)).collect(); if g != w { return Err(bad("popcount_vec", format!("{label}: vectorized_popcount({ws:x?}) = {g:?} want {w:?}"))); } c.ev(1); }
    let g = b.vectorized_popcount(&words); ensure!(g == words.iter().map(|&x| popc_def(x)).collect::<Vec<u32>>(), "popcount_vec", "{label}: vectorized_popcount over {} words", words.len()); c.ev(1);
    Ok(())
}
fn g_bitops(ctx: &mut Ctx) {
    use zipora::entropy::bit_ops::*;
    let n = if cfg!(miri) { 3 } else { ctx.n(120, 4000) } as u64;
    let gname = if cfg!(miri) { "micro" } else { "words" };
    for idx in 0..n {
        ctx.case("bitops/default", gname, idx, |c| { c.input_str("cfg", "default"); c.hash_more(&idx.to_le_bytes()); c.nontrivial(); let b = BitOps::new(); c.note(if b.has_bmi2() { "bmi2:on" } else { "bmi2:off" }, 1); chk_bitops(c, &b, "BitOps::new()", false) });
        ctx.case("bitops/forced_sw", gname, idx, |c| { c.input_str("cfg", "bmi2/avx2/popcnt disabled, software_fallback"); c.hash_more(&idx.to_le_bytes()); c.nontrivial();
            let cfg = BitOpsConfig { enable_bmi2: false, enable_avx2: false, enable_popcnt: false, software_fallback: true, ..BitOpsConfig::default() }; let b = BitOps::with_config(cfg); ensure!(!b.has_bmi2(), "config_ignored", "has_bmi2 with enable_bmi2=false"); chk_bitops(c, &b, "BitOps(forced software)", false) });
        // partial enables: each hardware feature on its own
        ctx.case("bitops/partial", gname, idx, |c| { let (p, a, m) = (idx & 1 == 1, idx & 2 == 2, idx & 4 == 4); c.input_str("cfg", &format!("popcnt={p} avx2={a} bmi2={m}")); c.hash_more(&idx.to_le_bytes()); c.nontrivial();
            let cfg = BitOpsConfig { enable_bmi2: m, enable_avx2: a, enable_popcnt: p, software_fallback: true, ..BitOpsConfig::default() }; chk_bitops(c, &BitOps::with_config(cfg), "BitOps(partial)", false) });
        // hardware disabled and software_fallback=false: the documented "basic fallback" (source & mask / None) is what the caller asked
        // for, so PDEP/PEXT/select/BZHI divergences are only noted; everything that does not depend on the flag is still asserted
        ctx.case("bitops/no_fallback", gname, idx, |c| { c.input_str("cfg", "bmi2/avx2/popcnt disabled, software_fallback=false"); c.hash_more(&idx.to_le_bytes()); c.nontrivial();
            let cfg = BitOpsConfig { enable_bmi2: false, enable_avx2: false, enable_popcnt: false, software_fallback: false, ..BitOpsConfig::default() }; chk_bitops(c, &BitOps::with_config(cfg), "BitOps(no hw, no fallback)", true) });
        ctx.case("bitops/entropy", gname, idx, |c| { c.hash_more(&idx.to_le_bytes()); c.nontrivial();
            let hw = EntropyBitOps::new(); let sw = EntropyBitOps::with_config(BitOpsConfig { enable_bmi2: false, enable_avx2: false, enable_popcnt: false, software_fallback: true, ..BitOpsConfig::default() });
            for _ in 0..64 { let x = word(&mut c.rng) as u32; let w = rev_def(x as u64, 32) as u32; let (g1, g2) = (np("EntropyBitOps::reverse_bits32", || hw.reverse_bits32(x))?, sw.reverse_bits32(x)); ensure!(g1 == w, "bit_reverse", "EntropyBitOps(default)::reverse_bits32({x:#x}) = {g1:#x} want {w:#x}"); ensure!(g2 == w, "bit_reverse", "EntropyBitOps(sw)::reverse_bits32({x:#x}) = {g2:#x} want {w:#x}");
                let (s, o, wd) = (word(&mut c.rng), c.rng.below(20) as u32, c.rng.below(20) as u32); ensure!(hw.extract_bits(s, o, wd) == sw.extract_bits(s, o, wd), "tier_divergence", "EntropyBitOps::extract_bits({s:#x},{o},{wd}) differs between default and software config"); c.ev(3); }
            Ok(()) });
        ctx.case("bitops/dispatcher", gname, idx, |c| { c.hash_more(&idx.to_le_bytes()); c.nontrivial();
            let sw_cfg = BitOpsConfig { enable_bmi2: false, enable_avx2: false, enable_popcnt: false, software_fallback: true, enable_compression_optimizations: false, enable_entropy_acceleration: false, enable_variable_length_decoding: false };
            for (label, d) in [("default", CompressionBmi2Dispatcher::new()), ("accel_off", CompressionBmi2Dispatcher::with_config(sw_cfg))] {
                let ws: Vec<u64> = (0..9).map(|_| word(&mut c.rng)).collect();
                for (op, f) in [(CompressionOperation::PopCount, (|x: u64| popc_def(x) as u64) as fn(u64) -> u64), (CompressionOperation::LeadingZeros, |x: u64| tz_def(rev_def(x, 64), 64) as u64), (CompressionOperation::TrailingZeros, |x: u64| tz_def(x, 64) as u64), (CompressionOperation::BitReverse, |x: u64| rev_def(x, 64))] {
                    let g = np("dispatch_bit_stream_process", || d.dispatch_bit_stream_process(&ws, op))?; let w: Vec<u64> = ws.iter().map(|&x| f(x)).collect(); if g != w { return Err(bad("dispatcher_stream", format!("CompressionBmi2Dispatcher({label})::dispatch_bit_stream_process({op:?}) on {ws:x?}: {g:x?} want {w:x?}"))); } c.ev(1); }
                let x = word(&mut c.rng); let masks = [mask32(&mut c.rng), mask32(&mut c.rng)]; let g = np("dispatch_variable_length_decode", || d.dispatch_variable_length_decode(x, &masks))?; ensure!(g == masks.iter().map(|&m| pext_def(x, m) as u32).collect::<Vec<u32>>(), "dispatcher_pext", "CompressionBmi2Dispatcher({label})::dispatch_variable_length_decode({x:#x})"); c.ev(1);
                let len = 1 + c.rng.below(32) as u32; let start = c.rng.below((64 - len + 1) as u64) as u32; let fm = if len == 32 { u32::MAX } else { (1u32 << len) - 1 }; let g = np("dispatch_entropy_extract", || d.dispatch_entropy_extract(x, start, len))?; ensure!(g == ((x >> start) as u32) & fm, "dispatcher_field", "CompressionBmi2Dispatcher({label})::dispatch_entropy_extract({x:#x},{start},{len}) = {g:#x}"); c.ev(1);
            }
            Ok(()) });
    }
    // symbol masks with more than 32 set bits: the PEXT path truncates to u32, the software path shifts a u32 by >= 32
    for idx in 0..(if cfg!(miri) { 1 } else { ctx.n(20, 200) } as u64) {
        ctx.case("bitops/dispatcher", "wide_mask", idx, |c| { c.tag("mask_popcount_gt32"); c.nontrivial(); let x = word(&mut c.rng); let mut m = c.rng.next() | c.rng.next(); while popc_def(m) <= 32 { m |= c.rng.next(); } c.input_str("x,mask", &format!("{x:#x},{m:#x}"));
            let sw_cfg = BitOpsConfig { enable_bmi2: false, enable_avx2: false, enable_popcnt: false, software_fallback: true, enable_compression_optimizations: false, enable_entropy_acceleration: false, enable_variable_length_decoding: false };
            for (label, d) in [("default", CompressionBmi2Dispatcher::new()), ("accel_off", CompressionBmi2Dispatcher::with_config(sw_cfg))] { let g = np("dispatch_variable_length_decode", || d.dispatch_variable_length_decode(x, &[m]))?; ensure!(g == vec![pext_def(x, m) as u32], "dispatcher_pext", "CompressionBmi2Dispatcher({label})::dispatch_variable_length_decode({x:#x},[{m:#x}]) = {g:x?} want low 32 bits of PEXT {:#x}", pext_def(x, m) as u32); c.ev(1); }
            Ok(()) });
    }
    // BZHI index beyond the operand width: hardware uses index[7:0], the software path saturates
    for idx in 0..(if cfg!(miri) { 1 } else { ctx.n(20, 200) } as u64) {
        ctx.case("bitops/default", "bzhi_wide_index", idx, |c| { c.tag("bzhi_index_gt255"); c.nontrivial(); let b = BitOps::new(); let x = word(&mut c.rng) | 0xF0F0_0000_0000_F0F0; let i = 256 + c.rng.below(64) as u32 + 256 * c.rng.below(3) as u32; c.input_str("x,index", &format!("{x:#x},{i}"));
            let g = np("zero_high_bits64", || b.zero_high_bits64(x, i))?; ensure!(g == x, "bzhi", "zero_high_bits64({x:#x},{i}) = {g:#x}: index >= 64 must clear nothing (software path returns the source)");
            let g = b.zero_high_bits32(x as u32, i); ensure!(g == x as u32, "bzhi", "zero_high_bits32({:#x},{i}) = {g:#x}", x as u32); c.ev(2); Ok(()) });
    }
}

// ------------------------------------------------------------------------------------------------
// group: hash_map::simd_string_ops
// ------------------------------------------------------------------------------------------------
fn prefix_def(b: &[u8]) -> u64 { let mut p = 0u64; for (i, &x) in b.iter().take(8).enumerate() { p |= (x as u64) << (i * 8); } p }
/// the portable definition in the module: 8-byte little-endian words, then single bytes
fn hm_hash_def(b: &[u8], mut h: u64) -> u64 { let ch = b.len() / 8; for i in 0..ch { h = h.rotate_left(5).wrapping_add(u64::from_le_bytes(b[i * 8..i * 8 + 8].try_into().unwrap())); } for &x in &b[ch * 8..] { h = h.rotate_left(5).wrapping_add(x as u64); } h }
const STR_FAMS: &[&str] = &["len", "big", "micro"];
fn str_fams() -> &'static [&'static str] { if cfg!(miri) { &["micro"] } else { STR_FAMS } }
fn str_case(c: &mut Case, fam: &str, idx: u64) -> String {
    let n = match fam { "len" => (idx % 201) as usize, "big" => BIGLENS[(idx as usize) % BIGLENS.len()], _ => MICROLENS[(idx as usize) % MICROLENS.len()] };
    let mb = *c.rng.pick(&[0u64, 0, 10, 60]); let s = valid_string(&mut c.rng, n, mb); c.input_str("s", &s); c.hash_more(&n.to_le_bytes()); c.set_nontrivial(n >= 1); s
}
fn g_hmstr(ctx: &mut Ctx) {
    use zipora::hash_map::SimdStringOps;
    for &fam in str_fams() { for idx in 0..fam_count(ctx, fam) {
        ctx.case("hmstr/compare", fam, idx, |c| { let s = str_case(c, fam, idx); let ops = SimdStringOps::new(); c.note(&format!("tier:{:?}", ops.tier()), 1);
            let mut others = vec![s.clone()];
            // same length, one ASCII position changed (keeps UTF-8 validity): every ASCII position for short strings
            let ascii_pos: Vec<usize> = s.bytes().enumerate().filter(|(_, b)| b.is_ascii()).map(|(i, _)| i).collect();
            let mut ps = ascii_pos.clone(); if ps.len() > 64 { c.rng.shuffle(&mut ps); ps.truncate(60); ps.push(*ascii_pos.last().unwrap()); ps.push(ascii_pos[0]); }
            for p in ps { let mut b = s.clone().into_bytes(); b[p] = if b[p] == b'z' { b'y' } else { b'z' }; others.push(String::from_utf8(b).unwrap()); }
            if !s.is_empty() { others.push(format!("{s}x")); let k = s.char_indices().last().unwrap().0; others.push(s[..k].to_string()); }
            for o in &others { let want = *o == s;
                for cached in [0u64, prefix_def(o.as_bytes())] { for (a, b) in [(&s, o), (o, &s)] { let cp = if cached == 0 { 0 } else { prefix_def(b.as_bytes()) };
                    let g = np("fast_string_compare", || ops.fast_string_compare(a, b, cp))?; if g != want { return Err(bad("string_equality", format!("fast_string_compare(len {}, len {}, cached_prefix={cp:#x}) = {g}, want {want} (first difference at byte {})", a.len(), b.len(), first_diff(a.as_bytes(), b.as_bytes())))); } c.ev(1); } } }
            Ok(()) });
        ctx.case("hmstr/hash", fam, idx, |c| { let s = str_case(c, fam, idx); let n = s.len(); if (n >= 32 && n % 32 >= 8) || (n >= 16 && n % 16 >= 8) { c.tag("hash_vec_tail_ge8"); } let ops = SimdStringOps::new();
            for base in [0u64, 0xcbf2_9ce4_8422_2325, c.rng.next()] { let g = np("fast_string_hash", || ops.fast_string_hash(&s, base))?; let w = hm_hash_def(s.as_bytes(), base);
                if g != w { return Err(bad("hash_tier_divergence", format!("fast_string_hash(len {n}, base {base:#x}) on tier {:?} = {g:#018x}; the module's scalar definition gives {w:#018x}", ops.tier()))); } c.ev(1); }
            Ok(()) });
        ctx.case("hmstr/prefix", fam, idx, |c| { let s = str_case(c, fam, idx); let ops = SimdStringOps::new(); let g = np("extract_prefix_simd", || ops.extract_prefix_simd(&s))?; let w = prefix_def(s.as_bytes());
            ensure!(g == w, "prefix", "extract_prefix_simd(len {}) = {g:#x} want {w:#x}", s.len()); let g2 = zipora::hash_map::get_global_simd_ops().extract_prefix_simd(&s); ensure!(g2 == w, "prefix", "global extract_prefix_simd"); c.ev(2); Ok(()) });
    } }
}

// ------------------------------------------------------------------------------------------------
// group: string::bmi2_string_ops — operations beyond UTF-8 (each compared with the fallback definition in the same function)
// ------------------------------------------------------------------------------------------------
fn wild_def(t: &[char], p: &[char]) -> bool { // '*' any sequence, '?' any single character
    let mut dp = vec![false; t.len() + 1]; dp[0] = true;
    for &pc in p { let mut nx = vec![false; t.len() + 1]; if pc == '*' { let mut any = false; for i in 0..=t.len() { any |= dp[i]; nx[i] = any; } } else { for i in 1..=t.len() { nx[i] = dp[i - 1] && (pc == '?' || pc == t[i - 1]); } } dp = nx; }
    dp[t.len()]
}
fn ascii_text(r: &mut Rng, n: usize, alpha: &[u8]) -> String { (0..n).map(|_| *r.pick(alpha) as char).collect() }
fn g_bmi2x(ctx: &mut Ctx) {
    use zipora::string::bmi2 as B;
    for &fam in str_fams() { for idx in 0..fam_count(ctx, fam) {
        ctx.case("bmi2/search", fam, idx, |c| { let s = str_case(c, fam, idx); let pr = B::Bmi2StringProcessor::new(); c.note(if pr.is_bmi2_available() { "bmi2:on" } else { "bmi2:off" }, 1);
            let bounds: Vec<usize> = s.char_indices().map(|(i, _)| i).chain(std::iter::once(s.len())).collect();
            for rep in 0..24 { let (i, j) = { let a = c.rng.usize_below(bounds.len()); let b = c.rng.usize_below(bounds.len()); (bounds[a.min(b)], bounds[a.max(b)]) };
                let mut nd = s[i..j].to_string(); if rep % 3 == 2 { nd.push('#'); } if rep % 8 == 7 { nd = ascii_text(&mut c.rng, 4 + rep % 5, b"ab"); }
                let want = s.find(&nd); let g = np("search_bmi2", || pr.search_bmi2(&s, &nd))?; if g != want { return Err(bad("substring_search", format!("search_bmi2(hay len {}, needle len {}) = {g:?} want {want:?}", s.len(), nd.len()))); }
                let g = B::search_string_bmi2(&s, &nd); ensure!(g == want, "substring_search", "search_string_bmi2 = {g:?} want {want:?}"); c.ev(2); }
            Ok(()) });
        ctx.case("bmi2/histogram", fam, idx, |c| { let s = str_case(c, fam, idx); let pr = B::Bmi2StringProcessor::new(); let a = np("analyze_compression_bmi2", || pr.analyze_compression_bmi2(&s))?;
            let mut h = [0u32; 256]; for b in s.bytes() { h[b as usize] += 1; }
            for v in 0..256usize { let g = a.char_frequencies.get(&(v as u8)).copied().unwrap_or(0); ensure!(g == h[v], "histogram", "analyze_compression_bmi2(len {}): count[{v:#04x}] = {g} want {}", s.len(), h[v]); }
            ensure!(a.total_chars == s.len() && a.unique_chars == h.iter().filter(|&&x| x > 0).count(), "histogram", "totals: total_chars={} unique={} for len {}", a.total_chars, a.unique_chars, s.len()); c.ev(256); Ok(()) });
        ctx.case("bmi2/case", fam, idx, |c| { let s = str_case(c, fam, idx); let pr = B::Bmi2StringProcessor::new();
            let g = np("to_lowercase_ascii_bmi2", || pr.to_lowercase_ascii_bmi2(&s))?; ensure!(g == s.to_ascii_lowercase(), "ascii_case", "to_lowercase_ascii_bmi2(len {}) differs from str::to_ascii_lowercase at byte {}", s.len(), first_diff(g.as_bytes(), s.to_ascii_lowercase().as_bytes()));
            let g = np("to_uppercase_ascii_bmi2", || pr.to_uppercase_ascii_bmi2(&s))?; ensure!(g == s.to_ascii_uppercase(), "ascii_case", "to_uppercase_ascii_bmi2(len {}) differs at byte {}", s.len(), first_diff(g.as_bytes(), s.to_ascii_uppercase().as_bytes()));
            ensure!(B::to_lowercase_ascii_bmi2(&s) == s.to_ascii_lowercase() && B::to_uppercase_ascii_bmi2(&s) == s.to_ascii_uppercase(), "ascii_case", "global wrappers"); c.ev(4); Ok(()) });
        ctx.case("bmi2/runs", fam, idx, |c| { let n = match fam { "len" => (idx % 201) as usize, "big" => BIGLENS[(idx as usize) % BIGLENS.len()], _ => MICROLENS[(idx as usize) % MICROLENS.len()] }; let s = { let mut t = String::new(); while t.len() < n { let ch = *c.rng.pick(b"abc\0 ~") as char; let mx = if c.rng.chance(1, 4) { 40 } else { 4 }; let k = 1 + c.rng.usize_below(mx); for _ in 0..k { if t.len() < n { t.push(ch); } } } t };
            c.input_str("s", &s); c.set_nontrivial(n >= 1); let pr = B::Bmi2StringProcessor::new(); let g = np("detect_runs_bmi2", || pr.detect_runs_bmi2(&s))?;
            let mut want: Vec<(u8, usize, usize)> = vec![]; for (i, b) in s.bytes().enumerate() { match want.last_mut() { Some(l) if l.0 == b => l.2 += 1, _ => want.push((b, i, 1)) } }
            let got: Vec<(u8, usize, usize)> = g.iter().map(|r| (r.character, r.start, r.length)).collect(); ensure!(got == want, "runs", "detect_runs_bmi2(len {n}): {} runs want {}", got.len(), want.len()); ensure!(B::detect_runs_bmi2(&s).len() == want.len(), "runs", "global"); c.ev(1); Ok(()) });
        // hash_string_bmi2: the >= 8 byte BMI2 branch is a different mixing function from the fallback and nothing documents them as
        // equal, so only the short-input branch (the byte-wise definition on every tier) and determinism are asserted
        ctx.case("bmi2/hash", fam, idx, |c| { let s = str_case(c, fam, idx); let pr = B::Bmi2StringProcessor::new();
            for seed in [0u64, c.rng.next()] { let g = np("hash_string_bmi2", || pr.hash_string_bmi2(&s, seed))?; let w = s.bytes().fold(seed, |h, b| h.rotate_left(5).wrapping_add(b as u64));
                ensure!(pr.hash_string_bmi2(&s, seed) == g && B::hash_string_bmi2(&s, seed) == g, "hash_unstable", "hash_string_bmi2(len {}) not deterministic", s.len());
                if g != w { if s.len() >= 8 { c.note("differs_from_bytewise_definition", 1); } else { return Err(bad("hash_short_input", format!("hash_string_bmi2(len {}, seed {seed:#x}) = {g:#018x}; byte-wise definition gives {w:#018x}", s.len()))); } } c.ev(2); }
            Ok(()) });
        ctx.case("bmi2/filter", fam, idx, |c| { let s = str_case(c, fam, idx); let pr = B::Bmi2StringProcessor::new();
            for f in [B::CharFilter::AlphaOnly, B::CharFilter::DigitOnly, B::CharFilter::AlnumOnly, B::CharFilter::NoWhitespace, B::CharFilter::KeepChars(b"aeiou xyz".to_vec()), B::CharFilter::RemoveChars(b"aeiou ".to_vec())] {
                let want: String = s.chars().filter(|&ch| f.matches(ch)).collect(); let g = np("filter_chars_bmi2", || pr.filter_chars_bmi2(&s, f.clone()))?;
                // non-ASCII text: the byte kernel and the char fallback are documented nowhere as equal -> note only
                if !s.is_ascii() { if g != want { c.note("non_ascii_differs", 1); } continue; }
                if g != want { return Err(bad("filter", format!("filter_chars_bmi2(len {}, {f:?}): {} bytes kept, the fallback definition keeps {}", s.len(), g.len(), want.len()))); } c.ev(1); }
            Ok(()) });
        ctx.case("bmi2/char_class", fam, idx, |c| { let s = str_case(c, fam, idx); let pr = B::Bmi2StringProcessor::new();
            let cls = vec![B::CharClass::Digit, B::CharClass::Range(b'a', b'm'), B::CharClass::Custom(b"XYZ ".to_vec())];
            let want: Vec<bool> = s.chars().map(|ch| cls.iter().any(|k| k.matches(ch))).collect(); let g = np("char_class_match_bmi2", || pr.char_class_match_bmi2(&s, &cls))?;
            if !s.is_ascii() { if g != want { c.note("non_ascii_differs", 1); } return Ok(()); }
            if g != want { return Err(bad("char_class", format!("char_class_match_bmi2(len {} bytes / {} chars): {} results, the fallback definition gives {}", s.len(), s.chars().count(), g.len(), want.len()))); } c.ev(1); Ok(()) });
        ctx.case("bmi2/wildcard", fam, idx, |c| { let n = match fam { "len" => (idx % 201) as usize % 48, "big" => 60, _ => MICROLENS[(idx as usize) % MICROLENS.len()] % 24 };
            let t = ascii_text(&mut c.rng, n, b"ab"); let pl = c.rng.usize_below(9); let mut p = ascii_text(&mut c.rng, pl, b"ab*?ab");
            if c.rng.bool() && n >= 3 { let i = c.rng.usize_below(n - 2); p = format!("*{}{}", &t[i..i + 2 + c.rng.usize_below(n - i - 1).min(3)], if c.rng.bool() { "*" } else { "" }); }
            c.input_str("text", &t); c.input_str("pattern", &p); c.set_nontrivial(n >= 1); if t.len() >= 8 && p.len() >= 4 { c.tag("text_ge8_pattern_ge4"); }
            let pr = B::Bmi2StringProcessor::new(); let want = wild_def(&t.chars().collect::<Vec<_>>(), &p.chars().collect::<Vec<_>>());
            let g = np("wildcard_match_bmi2", || pr.wildcard_match_bmi2(&t, &p))?; if g != want { return Err(bad("wildcard", format!("wildcard_match_bmi2({t:?}, {p:?}) = {g}, glob semantics of the scalar fallback give {want}"))); }
            ensure!(B::wildcard_match_bmi2(&t, &p) == want, "wildcard", "global wrapper"); c.ev(2); Ok(()) });
        ctx.case("bmi2/bulk", fam, idx, |c| { let s = str_case(c, fam, idx); let pr = B::Bmi2StringProcessor::new();
            let mut t = s.clone(); if !t.is_empty() && t.is_char_boundary(t.len() - 1) { t.pop(); t.push('#'); }
            let strs: Vec<&str> = vec![&s, &t, "", "abcdefgh", &s]; let v = np("validate_bulk_bmi2", || pr.validate_bulk_bmi2(&strs))?; ensure!(v == vec![true; 5], "bulk_validate", "validate_bulk_bmi2 on valid strs: {v:?}");
            let pairs: Vec<(&str, &str)> = vec![(&s, &s), (&s, &t), (&t, &s), ("", ""), (&t, &t)]; let g = np("compare_bulk_bmi2", || pr.compare_bulk_bmi2(&pairs))?; let w: Vec<bool> = pairs.iter().map(|(a, b)| a == b).collect(); ensure!(g == w, "bulk_compare", "compare_bulk_bmi2(len {}) = {g:?} want {w:?}", s.len());
            let seed = c.rng.next(); let hb = np("hash_bulk_bmi2", || pr.hash_bulk_bmi2(&strs, seed))?; let hs: Vec<u64> = strs.iter().map(|x| pr.hash_string_bmi2(x, seed)).collect(); ensure!(hb == hs, "bulk_hash", "hash_bulk_bmi2 differs from per-string hash_string_bmi2");
            // extract_substrings on char boundaries
            let bounds: Vec<usize> = s.char_indices().map(|(i, _)| i).chain(std::iter::once(s.len())).collect(); let mut ranges = vec![]; for _ in 0..6 { let a = c.rng.usize_below(bounds.len()); let b = c.rng.usize_below(bounds.len()); ranges.push((bounds[a.min(b)], bounds[a.max(b)] - bounds[a.min(b)])); }
            let g = np("extract_substrings_bmi2", || pr.extract_substrings_bmi2(&s, &ranges))?.map_err(|e| bad("substrings_err", e.to_string()))?; let w: Vec<String> = ranges.iter().map(|&(a, l)| s[a..a + l].to_string()).collect(); ensure!(g == w, "substrings", "extract_substrings_bmi2");
            // dictionary lookup == naive multi-pattern scan
            let words: Vec<String> = (0..4).map(|k| { let a = c.rng.usize_below(bounds.len()); let b = (a + 1 + k * 3).min(bounds.len() - 1); s[bounds[a]..bounds[b.max(a)]].to_string() }).filter(|w| !w.is_empty()).collect();
            let dict = B::StringDictionary::new(words.clone()); let g = np("dictionary_lookup_bmi2", || pr.dictionary_lookup_bmi2(&s, &dict))?; let mut w = vec![]; for i in 0..s.len() { for (k, wd) in words.iter().enumerate() { if s.as_bytes()[i..].starts_with(wd.as_bytes()) { w.push((i, wd.len(), k)); } } }
            let gg: Vec<(usize, usize, usize)> = g.iter().map(|m| (m.position, m.length, m.dictionary_index)).collect(); ensure!(gg == w, "dictionary_lookup", "dictionary_lookup_bmi2(len {}): {} matches want {}", s.len(), gg.len(), w.len());
            c.ev(6); Ok(()) });
    } }
}

// ------------------------------------------------------------------------------------------------
// group: adaptive selector, its FastVec consumers, and tier consistency of every dispatcher
// ------------------------------------------------------------------------------------------------
fn g_adaptive(ctx: &mut Ctx) {
    use zipora::simd::{AdaptiveSimdSelector, Operation, SimdImpl};
    let n = if cfg!(miri) { 2 } else { ctx.n(60, 1500) } as u64; let gname = if cfg!(miri) { "micro" } else { "sizes" };
    for idx in 0..n {
        ctx.case("adaptive/select", gname, idx, |c| { c.hash_more(&idx.to_le_bytes()); c.nontrivial();
            let sel = AdaptiveSimdSelector::new(); let f = zipora::system::get_cpu_features(); c.note(&format!("hw:{:?}", sel.hardware_tier()), 1);
            for _ in 0..40 { let op = *c.rng.pick(&[Operation::Rank, Operation::Select, Operation::Popcount, Operation::Search, Operation::Hash, Operation::StringSearch, Operation::BitManip, Operation::MemZero, Operation::Copy, Operation::Utf8Validation, Operation::Encode, Operation::Decode]);
                let size = match c.rng.below(4) { 0 => c.rng.usize_below(130), 1 => 1usize << c.rng.below(24), 2 => gen::pick_len(&mut c.rng, 100_000), _ => c.rng.usize_below(10_000_000) }; let dens = match c.rng.below(3) { 0 => None, 1 => Some(c.rng.f64()), _ => Some(*c.rng.pick(&[0.0, 0.05, 0.5, 0.95, 1.0])) };
                let a = np("select_optimal_impl", || sel.select_optimal_impl(op, size, dens))?; let b = sel.select_optimal_impl(op, size, dens); ensure!(a == b, "selector_unstable", "select_optimal_impl({op:?},{size},{dens:?}) = {a:?} then {b:?}");
                let ok = match a { SimdImpl::Avx512 => f.has_avx512f && f.has_avx512bw && f.has_avx512vl, SimdImpl::Avx2 => f.has_avx2, SimdImpl::Bmi2 => f.has_bmi2, SimdImpl::Sse42 => f.has_sse42, SimdImpl::Neon => f.has_neon, SimdImpl::Sse2 | SimdImpl::Scalar => true };
                ensure!(ok, "selector_unsupported_impl", "select_optimal_impl({op:?},{size},{dens:?}) = {a:?} but get_cpu_features() lacks it (avx512f={} avx2={} bmi2={} sse42={})", f.has_avx512f, f.has_avx2, f.has_bmi2, f.has_sse42);
                c.note(&format!("impl:{a:?}"), 1); c.ev(2); }
            Ok(()) });
        if !cfg!(miri) { ctx.case("fastvec/fast_ops", gname, idx, |c| { use zipora::containers::FastVec; c.nontrivial();
            let n = if cfg!(miri) { c.rng.usize_below(80) } else { gen::pick_len(&mut c.rng, 5000) }; let d = c.rng.bytes(n); c.input("data", &d);
            let mut fv: FastVec<u8> = FastVec::new(); let mut model: Vec<u8> = vec![];
            np("copy_from_slice_fast", || fv.copy_from_slice_fast(&d))?.map_err(|e| bad("fastvec_err", e.to_string()))?; model.clear(); model.extend_from_slice(&d); ensure!(fv.as_slice() == &model[..], "copy_mismatch", "FastVec::copy_from_slice_fast len={n}");
            let el = gen::pick_len(&mut c.rng, 600); let ext = c.rng.bytes(el); np("extend_from_slice_fast", || fv.extend_from_slice_fast(&ext))?.map_err(|e| bad("fastvec_err", e.to_string()))?; model.extend_from_slice(&ext); ensure!(fv.as_slice() == &model[..], "copy_mismatch", "FastVec::extend_from_slice_fast {}+{}", n, ext.len());
            for _ in 0..4 { if model.is_empty() { break; } let a = c.rng.usize_below(model.len() + 1); let b = a + c.rng.usize_below(model.len() - a + 1); let v = c.rng.next() as u8; np("fill_range_fast", || fv.fill_range_fast(a, b, v))?.map_err(|e| bad("fastvec_err", e.to_string()))?; for x in &mut model[a..b] { *x = v; } ensure!(fv.as_slice() == &model[..], "fill_mismatch", "FastVec::fill_range_fast({a},{b}) len={}", model.len()); c.ev(1); }
            let d32: Vec<u32> = (0..n.min(1200)).map(|_| c.rng.next() as u32).collect(); let mut f32v: FastVec<u32> = FastVec::new(); f32v.copy_from_slice_fast(&d32).map_err(|e| bad("fastvec_err", e.to_string()))?; f32v.extend_from_slice_fast(&d32).map_err(|e| bad("fastvec_err", e.to_string()))?; let mut m32 = d32.clone(); m32.extend_from_slice(&d32); ensure!(f32v.as_slice() == &m32[..], "copy_mismatch", "FastVec<u32> copy/extend len={}", d32.len());
            if !m32.is_empty() { let a = c.rng.usize_below(m32.len()); f32v.fill_range_fast(a, m32.len(), 0xDEAD_BEEF).map_err(|e| bad("fastvec_err", e.to_string()))?; for x in &mut m32[a..] { *x = 0xDEAD_BEEF; } ensure!(f32v.as_slice() == &m32[..], "fill_mismatch", "FastVec<u32>::fill_range_fast"); }
            c.ev(4); Ok(()) }); }
    }
    // one case that records which tier every dispatcher picked and checks it is backed by the (possibly forced) feature set
    ctx.case("dispatch/tiers", "once", 0, |c| { c.nontrivial(); let f = zipora::system::get_cpu_features();
        c.input_str("features", &format!("sse42={} avx2={} bmi2={} popcnt={} avx512f={} bw={} vl={}", f.has_sse42, f.has_avx2, f.has_bmi2, f.has_popcnt, f.has_avx512f, f.has_avx512bw, f.has_avx512vl));
        let a512 = f.has_avx512f && f.has_avx512vl && f.has_avx512bw;
        { use zipora::memory::simd_ops::{SimdMemOps, SimdTier}; let t = SimdMemOps::new().tier(); c.note(&format!("memops:{t:?}"), 1); ensure!(match t { SimdTier::Avx512 => a512, SimdTier::Avx2 => f.has_avx2, SimdTier::Sse2 => f.has_sse41 && f.has_sse42, SimdTier::Scalar => true }, "tier_unsupported", "SimdMemOps tier {t:?}"); }
        { use zipora::io::simd_memory::copy::{SimdCopy, SimdCopyTier}; let t = SimdCopy::new().tier(); c.note(&format!("iocopy:{t:?}"), 1); ensure!(match t { SimdCopyTier::Avx512 => a512, SimdCopyTier::Avx2 => f.has_avx2, _ => true }, "tier_unsupported", "SimdCopy tier {t:?}"); }
        { use zipora::io::simd_memory::search::{SimdStringSearch, SearchTier}; let t = SimdStringSearch::new().tier(); c.note(&format!("iosearch:{t:?}"), 1); ensure!(match t { SearchTier::AVX512 => f.has_avx512f, SearchTier::AVX2 => f.has_avx2, SearchTier::SSE42 => f.has_sse42, _ => true }, "tier_unsupported", "io SimdStringSearch tier {t:?}"); }
        { use zipora::string::simd::{SimdStringSearch, SearchTier}; let t = SimdStringSearch::new().tier(); c.note(&format!("strsearch:{t:?}"), 1); ensure!(match t { SearchTier::Avx2 => f.has_avx2, SearchTier::Sse42 => f.has_sse42, SearchTier::Scalar => true }, "tier_unsupported", "string SimdStringSearch tier {t:?}"); }
        { use zipora::io::simd_validation::utf8::{Utf8Validator, Utf8SimdTier}; let t = Utf8Validator::new_unmonitored().tier(); c.note(&format!("utf8:{t:?}"), 1); ensure!(match t { Utf8SimdTier::Avx512 => a512, Utf8SimdTier::Avx2 => f.has_avx2, Utf8SimdTier::Sse42 => f.has_sse42, _ => true }, "tier_unsupported", "Utf8Validator tier {t:?}"); }
        { use zipora::io::simd_validation::checksum::{detect_crc32c_impl, Crc32cImpl}; let t = detect_crc32c_impl(); c.note(&format!("crc:{t:?}"), 1); ensure!(match t { Crc32cImpl::Sse42 => f.has_sse42, _ => true }, "tier_unsupported", "crc impl {t:?}"); }
        { let t = zipora::hash_map::SimdStringOps::new().tier(); c.note(&format!("hmstr:{t:?}"), 1); }
        { let b = zipora::entropy::bit_ops::BitOps::new(); c.note(if b.has_bmi2() { "bitops:bmi2" } else { "bitops:sw" }, 1); ensure!(b.has_bmi2() == f.has_bmi2, "tier_unsupported", "BitOps::has_bmi2 {} vs features {}", b.has_bmi2(), f.has_bmi2); }
        { let p = zipora::string::bmi2::Bmi2StringProcessor::new(); ensure!(p.is_bmi2_available() == f.has_bmi2, "tier_unsupported", "Bmi2StringProcessor bmi2 {} vs features {}", p.is_bmi2_available(), f.has_bmi2); }
        c.ev(9); Ok(()) });
}


// ================================================================================================
// LARGE-INPUT FAMILIES (`huge_*`): >= 64 KiB .. several MiB. Directed, exactly known expectations (no super-linear oracle).
//   huge_align : 2 MiB + k and 3 MiB operands for EVERY destination/source (or haystack) alignment 0..63, canaries around the destination
//   huge_size  : sizes just around 2^16 / 2^17 (65535..65537, 131071..131074) through the ordinary full checks
//   huge_shape : X c X d with |X| >= 64 KiB, one dominant symbol, all-equal, short periods
//   huge_mib   : multi-MiB CRC32C / Base64 / hex / UTF-8 / histogram / hashes / word arrays, boundaries 2^16, 2^20 (+-1)
//   huge_guard : 2 MiB + k operands ending exactly at a PROT_NONE page (forked child)
// Not generated under Miri.
// ================================================================================================
const MIB: usize = 1 << 20;
const HK: &[usize] = &[0, 1, 15, 16, 17, 31, 32, 33, 63, 64, 65, 127, 129, 4095, 4097];
const HSIZES: &[usize] = &[65535, 65536, 65537, 131071, 131072, 131073, 131074];
fn fast_bytes(r: &mut Rng, n: usize) -> Vec<u8> { let mut v = Vec::with_capacity(n + 8); while v.len() < n { v.extend_from_slice(&r.next().to_le_bytes()); } v.truncate(n); v }
/// shapes at large sizes: 0 random, 1 all-equal, 2 one dominant symbol (60-99%), 3 short period, 4 long runs, 5 high bytes
fn huge_shape_bytes(r: &mut Rng, kind: u64, n: usize) -> Vec<u8> {
    match kind % 6 {
        0 => fast_bytes(r, n), 1 => vec![r.next() as u8; n],
        2 => { let dom = r.next() as u8; let pct = 60 + r.below(40); let mut v = fast_bytes(r, n); let mut x = r.next() | 1; for b in v.iter_mut() { x ^= x << 13; x ^= x >> 7; x ^= x << 17; if x % 100 < pct { *b = dom; } } v }
        3 => { let p = 1 + r.usize_below(7); let pat = r.bytes(p); (0..n).map(|i| pat[i % p]).collect() }
        4 => { let mut v = Vec::with_capacity(n); while v.len() < n { let b = r.next() as u8; let k = (1 + r.usize_below(200_000)).min(n - v.len()); v.resize(v.len() + k, b); } v }
        _ => { let mut v = fast_bytes(r, n); for b in v.iter_mut() { *b |= 0x80; } v }
    }
}
/// over-allocated buffer whose index `base` is 64-byte aligned; windows `w(a, len)` start at alignment `a`
struct Arena { v: Vec<u8>, base: usize }
impl Arena {
    fn new(cap: usize, fill: u8) -> Arena { let v = vec![fill; cap + 512]; let p = v.as_ptr() as usize; let mut base = 128; while (p + base) % 64 != 0 { base += 1; } Arena { v, base } }
    fn from(data: &[u8]) -> Arena { let mut a = Arena::new(data.len() + 64, 0); let b = a.base; a.v[b..b + data.len()].copy_from_slice(data); a }
    fn w(&self, a: usize, len: usize) -> &[u8] { &self.v[self.base + a..self.base + a + len] }
    fn wm(&mut self, a: usize, len: usize) -> &mut [u8] { let b = self.base + a; &mut self.v[b..b + len] }
    fn stamp(&mut self, a: usize, len: usize) { let s = self.base + a; for x in &mut self.v[s - 64..s] { *x = CANARY; } for x in &mut self.v[s + len..s + len + 64] { *x = CANARY; } }
    fn intact(&self, a: usize, len: usize) -> bool { let s = self.base + a; self.v[s - 64..s].iter().all(|&b| b == CANARY) && self.v[s + len..s + len + 64].iter().all(|&b| b == CANARY) }
}
fn huge_len(i: usize, j: usize) -> usize { if i % 16 == 7 { 3 * MIB } else { 2 * MIB + HK[(i + j) % HK.len()] } }
/// copy of 2 MiB + k / 3 MiB for destination alignment `a_dst` x every source alignment
fn huge_copy_sweep(c: &mut Case, name: &str, f: &dyn Fn(&[u8], &mut [u8]) -> ZR<()>, a_dst: usize) -> Res {
    let src = Arena::from(&fast_bytes(&mut c.rng, 3 * MIB + 128)); let mut dst = Arena::new(3 * MIB + 128, 0);
    for a_src in 0..64 {
        let len = huge_len(a_src, a_dst);
        dst.stamp(a_dst, len);
        let r = np(name, || f(src.w(a_src, len), dst.wm(a_dst, len)))?;
        if let Err(e) = r { return Err(bad("copy_err", format!("{name}: len={len} src align {a_src} -> dst align {a_dst}: Err({e})"))); }
        if dst.w(a_dst, len) != src.w(a_src, len) { let i = first_diff(dst.w(a_dst, len), src.w(a_src, len)); return Err(bad("copy_mismatch", format!("{name}: len={len} src align {a_src} -> dst align {a_dst}: first wrong byte at {i}"))); }
        ensure!(dst.intact(a_dst, len), "copy_oob_write", "{name}: len={len} src align {a_src} -> dst align {a_dst}: wrote outside the destination slice");
        c.ev(1);
    }
    Ok(())
}
fn huge_fill_sweep(c: &mut Case, name: &str, f: &dyn Fn(&mut [u8], u8), a: usize) -> Res {
    let mut dst = Arena::new(3 * MIB + 128, 0x33); let mut val = c.rng.next() as u8;
    for (i, &k) in HK.iter().enumerate().chain(std::iter::once((99, &MIB))) {
        let len = 2 * MIB + k; val = val.wrapping_add(1 + (i as u8 % 7)); if i % 5 == 0 { val = [0u8, 0xFF, 0x80, 0x7F][i / 5 % 4]; } if dst.w(a, 1)[0] == val { val ^= 0x55; }
        for x in dst.wm(a, len).iter_mut().step_by(4093) { *x = !val; }
        dst.stamp(a, len);
        np(name, || f(dst.wm(a, len), val))?;
        if let Some(p) = dst.w(a, len).iter().position(|&b| b != val) { return Err(bad("fill_mismatch", format!("{name}: len={len} align {a} value={val:#04x}: byte {p} = {:#04x}", dst.w(a, len)[p]))); }
        ensure!(dst.intact(a, len), "fill_oob_write", "{name}: len={len} align {a} wrote outside the slice");
        c.ev(1);
    }
    Ok(())
}
/// sign of compare on equal 2 MiB + k operands and with a single difference far from the start, alignment `a_al` x `b_als`
fn huge_cmp_sweep(c: &mut Case, name: &str, f: &dyn Fn(&[u8], &[u8]) -> i32, a_al: usize, b_als: &[usize]) -> Res {
    let a = Arena::from(&fast_bytes(&mut c.rng, 3 * MIB + 128)); let mut b = Arena::new(3 * MIB + 128, 0);
    for &b_al in b_als {
        let len = huge_len(b_al, a_al);
        b.wm(b_al, len).copy_from_slice(a.w(a_al, len));
        // equal operands on a quarter of the pairs (the late difference below already scans the full length on every pair)
        if (a_al + b_al) % 4 == 0 || b_als.len() < 64 { let g = np(name, || f(a.w(a_al, len), b.w(b_al, len)))?; ensure!(g == 0, "compare_sign", "{name}: equal operands len={len} aligns {a_al}/{b_al}: got {g}"); c.ev(1); }
        // one late difference per operand pair (full-length scan), two early ones (cheap)
        for p in [if (a_al + b_al) % 2 == 0 { len - 1 } else { len - 1 - (b_al % 70) }, 65536 + b_al, MIB + 1 + a_al] {
            let old = b.w(b_al, len)[p]; let (nw, want) = match (p + b_al) % 4 { 0 => (old ^ 0x80, if old & 0x80 != 0 { 1 } else { -1 }), 1 => (old.wrapping_add(1), if old == 0xFF { 1 } else { -1 }), 2 => (old.wrapping_sub(1), if old == 0 { -1 } else { 1 }), _ => (!old, if old > !old { 1 } else { -1 }) };
            b.wm(b_al, len)[p] = nw;
            // bytes after the first difference disagree the other way round
            let q = p + 1; let oldq = if q < len { let o = b.w(b_al, len)[q]; b.wm(b_al, len)[q] = if want > 0 { 0xFF } else { 0 }; Some(o) } else { None };
            let g = np(name, || f(a.w(a_al, len), b.w(b_al, len)))?; let g2 = if p < 2 * MIB { f(b.w(b_al, len), a.w(a_al, len)) } else { -g };
            if let Some(o) = oldq { b.wm(b_al, len)[q] = o; } b.wm(b_al, len)[p] = old;
            if sgn(g) != want || sgn(g2) != -want { return Err(bad("compare_sign", format!("{name}: len={len} aligns {a_al}/{b_al} first difference at {p} ({old:#04x} vs {nw:#04x}): got {g} / swapped {g2}, want sign {want}"))); }
            c.ev(2);
        }
    }
    Ok(())
}
/// haystack of random bytes that never contains `R`; returns (arena, reserved byte)
fn huge_hay(c: &mut Case, n: usize) -> (Arena, u8) { let r = c.rng.next() as u8; let mut d = fast_bytes(&mut c.rng, n); for x in d.iter_mut() { if *x == r { *x = r ^ 1; } } (Arena::from(&d), r) }
fn huge_find_sweep(c: &mut Case, name: &str, f: &dyn Fn(&[u8], u8) -> Option<usize>, al: usize) -> Res {
    let (mut h, r) = huge_hay(c, 3 * MIB + 128);
    for j in 0..3 {
        let len = if j == 2 && al % 8 == 3 { 3 * MIB } else { 2 * MIB + HK[(al + j * 5) % HK.len()] };
        let g = np(name, || f(h.w(al, len), r))?; ensure!(g.is_none(), "find_byte", "{name}: len={len} align {al}: absent needle {r:#04x} found at {g:?}"); c.ev(1);
        for ps in [vec![len - 1], vec![len - 1 - (al % 40), len - 1], vec![65536 + al, MIB + 1, len - 1], vec![MIB + 1 + al]] {
            for &p in &ps { h.wm(al, len)[p] = r; }
            let g = np(name, || f(h.w(al, len), r))?;
            for &p in &ps { h.wm(al, len)[p] = r ^ 1; }
            ensure!(g == Some(ps[0]), "find_byte", "{name}: len={len} align {al} needle {r:#04x} planted at {ps:?}: got {g:?}"); c.ev(1);
        }
    }
    Ok(())
}
fn huge_strstr_sweep(c: &mut Case, name: &str, f: &dyn Fn(&[u8], &[u8]) -> Option<usize>, al: usize, short_needles: bool) -> Res {
    let (mut h, r) = huge_hay(c, 2 * MIB + 4200);
    let len = 2 * MIB + HK[al % HK.len()];
    let mut needles: Vec<Vec<u8>> = vec![];
    if short_needles { let nl = [2usize, 5, 15, 16][al % 4]; let mut nd = c.rng.bytes(nl); for x in nd.iter_mut() { if *x == r { *x = r ^ 1; } } nd[nl / 2] = r; needles.push(nd); }
    for nl in [17usize, 40, 65537] { let mut nd = fast_bytes(&mut c.rng, nl); for x in nd.iter_mut() { if *x == r { *x = r ^ 1; } } nd[nl - 1] = r; nd[0] = h.w(al, len)[7]; needles.push(nd); }
    for (i, nd) in needles.iter().enumerate() {
        let nl = nd.len(); let na = ABuf::new(nd, (al * 7 + i) % 64);
        if i == 0 { let g = np(name, || f(h.w(al, len), na.s()))?; ensure!(g.is_none(), "substring_search", "{name}: hay len={len} align {al}: absent needle (len {nl}) found at {g:?}"); c.ev(1); }
        let pos = match i % 3 { 0 => len - nl, 1 => MIB + 3 + al, _ => (65536 + al).min(len - nl) };
        let saved = h.w(al, len)[pos..pos + nl].to_vec(); h.wm(al, len)[pos..pos + nl].copy_from_slice(nd);
        let g = np(name, || f(h.w(al, len), na.s()))?;
        h.wm(al, len)[pos..pos + nl].copy_from_slice(&saved);
        ensure!(g == Some(pos), "substring_search", "{name}: hay len={len} align {al} needle len {nl} planted at {pos}: got {g:?}"); c.ev(1);
    }
    Ok(())
}
fn huge_anyof_sweep(c: &mut Case, name: &str, f: &dyn Fn(&[u8], &[u8]) -> Option<usize>, al: usize, wide: bool) -> Res {
    // haystack over the low half of the byte range, set members from the high half
    let mut d = fast_bytes(&mut c.rng, 2 * MIB + 4200); for x in d.iter_mut() { *x &= 0x7F; } let mut h = Arena::from(&d);
    let len = 2 * MIB + HK[(al * 3) % HK.len()]; let sz = if wide { 17 + al % 20 } else { 1 + al % 16 }; let set: Vec<u8> = (0..sz).map(|i| 0x80 + ((i * 5 + al) % 128) as u8).collect();
    let mut set = set; set.sort(); set.dedup(); let sa = ABuf::new(&set, (al * 11) % 64);
    let g = np(name, || f(h.w(al, len), sa.s()))?; ensure!(g.is_none(), "charset_search", "{name}: len={len} align {al}: no member present but got {g:?}"); c.ev(1);
    for ps in [vec![len - 1], vec![MIB + 1 + al, len - 1], vec![65535 + al]] {
        for (k, &p) in ps.iter().enumerate() { h.wm(al, len)[p] = set[(set.len() - 1 + k) % set.len()]; }
        let g = np(name, || f(h.w(al, len), sa.s()))?;
        for &p in &ps { h.wm(al, len)[p] = 0x11; }
        ensure!(g == Some(ps[0]), "charset_search", "{name}: len={len} align {al} set len {} member planted at {ps:?}: got {g:?}", set.len()); c.ev(1);
    }
    Ok(())
}
fn huge_tag(c: &mut Case, what: &str, idx: u64) { c.input_str("huge", &format!("{what} idx={idx}")); c.hash_more(&idx.to_le_bytes()); c.nontrivial(); }

fn g_huge_bytes(ctx: &mut Ctx) {
    use zipora::memory::simd_ops::*;
    use zipora::io::simd_memory::copy::*;
    use zipora::io::simd_memory::search as S;
    use zipora::string::simd as T;
    let off = || S::SimdStringSearch::with_config(S::SearchConfig { enable_sse42: false, enable_avx2: false, enable_avx512: false, enable_neon: false });
    // ---- every alignment 0..63
    for idx in 0..ctx.n(64, 256) as u64 { let al = (idx % 64) as usize;
        ctx.case("memops/copy", "huge_align", idx, |c| { huge_tag(c, "copy 2MiB+k/3MiB, dst align = idx, all src aligns", idx); let ops = SimdMemOps::new();
            if idx % 2 == 0 { huge_copy_sweep(c, "SimdMemOps::copy_nonoverlapping", &|s, d| ops.copy_nonoverlapping(s, d), al) } else { huge_copy_sweep(c, "fast_copy", &|s, d| fast_copy(s, d), al) } });
        ctx.case("memops/copy_cacheopt", "huge_align", idx, |c| { huge_tag(c, "copy_cache_optimized 2MiB+k/3MiB", idx); let ops = SimdMemOps::new();
            if idx % 2 == 0 { huge_copy_sweep(c, "SimdMemOps::copy_cache_optimized", &|s, d| ops.copy_cache_optimized(s, d), al) } else { huge_copy_sweep(c, "fast_copy_cache_optimized", &|s, d| fast_copy_cache_optimized(s, d), al) } });
        ctx.case("iocopy/large", "huge_align", idx, |c| { huge_tag(c, "copy_large_simd 2MiB+k/3MiB", idx); huge_copy_sweep(c, "copy_large_simd", &|s, d| copy_large_simd(d, s), al) });
        ctx.case("memops/fill", "huge_align", idx, |c| { huge_tag(c, "fill 2MiB+k/3MiB", idx); let ops = SimdMemOps::new();
            if idx % 2 == 0 { huge_fill_sweep(c, "SimdMemOps::fill", &|s, v| ops.fill(s, v), al) } else { huge_fill_sweep(c, "fast_fill", &|s, v| fast_fill(s, v), al) } });
        ctx.case("memops/compare", "huge_align", idx, |c| { huge_tag(c, "compare 2MiB+k/3MiB, all operand aligns", idx); let ops = SimdMemOps::new(); let all: Vec<usize> = (0..64).collect();
            match idx % 3 { 0 => huge_cmp_sweep(c, "SimdMemOps::compare", &|a, b| ops.compare(a, b), al, &all), 1 => huge_cmp_sweep(c, "fast_compare", &|a, b| fast_compare(a, b), al, &all), _ => huge_cmp_sweep(c, "fast_compare_cache_optimized", &|a, b| fast_compare_cache_optimized(a, b), al, &all) } });
        let few = [al, (al * 37 + 11) % 64, 0, 63];
        ctx.case("iosearch/strcmp.auto", "huge_align", idx, |c| { huge_tag(c, "compare_strings 2MiB+k", idx); let s = S::SimdStringSearch::new(); huge_cmp_sweep(c, "SimdStringSearch::compare_strings", &|a, b| sgn_ord(s.compare_strings(a, b)), al, &few) });
        ctx.case("iosearch/strcmp.sse42", "huge_align", idx, |c| { huge_tag(c, "sse42_strcmp 2MiB+k", idx); huge_cmp_sweep(c, "sse42_strcmp", &|a, b| sgn_ord(S::sse42_strcmp(a, b)), al, &few) });
        ctx.case("iosearch/strcmp.scalar", "huge_align", idx, |c| { huge_tag(c, "scalar_strcmp 2MiB+k", idx); huge_cmp_sweep(c, "scalar_strcmp", &|a, b| sgn_ord(S::scalar_strcmp(a, b)), al, &few) });
        ctx.case("strsearch/strcmp", "huge_align", idx, |c| { huge_tag(c, "string sse42_strcmp 2MiB+k (equal lengths)", idx); let s = T::SimdStringSearch::new(); huge_cmp_sweep(c, "string::SimdStringSearch::sse42_strcmp", &|a, b| sgn_ord(s.sse42_strcmp(a, b)), al, &few) });
        ctx.case("memops/find_byte", "huge_align", idx, |c| { huge_tag(c, "find_byte 2MiB+k", idx); let ops = SimdMemOps::new();
            if idx % 2 == 0 { huge_find_sweep(c, "SimdMemOps::find_byte", &|h, n| ops.find_byte(h, n), al) } else { huge_find_sweep(c, "fast_find_byte", &|h, n| fast_find_byte(h, n), al) } });
        ctx.case("iosearch/strchr.auto", "huge_align", idx, |c| { huge_tag(c, "find_char 2MiB+k", idx); let s = S::SimdStringSearch::new(); huge_find_sweep(c, "SimdStringSearch::find_char", &|h, n| s.find_char(h, n), al) });
        ctx.case("iosearch/strchr.sse42", "huge_align", idx, |c| { huge_tag(c, "sse42_strchr 2MiB+k", idx); huge_find_sweep(c, "sse42_strchr", &|h, n| S::sse42_strchr(h, n), al) });
        ctx.case("iosearch/strchr.scalar", "huge_align", idx, |c| { huge_tag(c, "scalar_strchr 2MiB+k", idx); let s = off(); if idx % 2 == 0 { huge_find_sweep(c, "scalar_strchr", &|h, n| S::scalar_strchr(h, n), al) } else { huge_find_sweep(c, "SimdStringSearch(all off)::find_char", &|h, n| s.find_char(h, n), al) } });
        ctx.case("strsearch/strchr", "huge_align", idx, |c| { huge_tag(c, "string sse42_strchr 2MiB+k", idx); let s = T::SimdStringSearch::new(); huge_find_sweep(c, "string::SimdStringSearch::sse42_strchr", &|h, n| s.sse42_strchr(h, n), al) });
        ctx.case("iosearch/strstr.auto", "huge_align", idx, |c| { huge_tag(c, "find_pattern 2MiB+k", idx); let s = S::SimdStringSearch::new(); huge_strstr_sweep(c, "SimdStringSearch::find_pattern", &|h, n| s.find_pattern(h, n), al, true) });
        ctx.case("iosearch/strstr.sse42", "huge_align", idx, |c| { huge_tag(c, "sse42_strstr 2MiB+k", idx); huge_strstr_sweep(c, "sse42_strstr", &|h, n| S::sse42_strstr(h, n), al, true) });
        ctx.case("iosearch/strstr.scalar", "huge_align", idx, |c| { huge_tag(c, "scalar_strstr 2MiB+k", idx); huge_strstr_sweep(c, "scalar_strstr", &|h, n| S::scalar_strstr(h, n), al, true) });
        ctx.case("strsearch/strstr", "huge_align", idx, |c| { huge_tag(c, "string sse42_strstr 2MiB+k", idx); let s = T::SimdStringSearch::new(); huge_strstr_sweep(c, "string::SimdStringSearch::sse42_strstr", &|h, n| s.sse42_strstr(h, n), al, true) });
        ctx.case("iosearch/anyof.auto", "huge_align", idx, |c| { huge_tag(c, "find_any_of 2MiB+k", idx); if idx % 3 == 2 { c.tag("charset_gt16"); } let s = S::SimdStringSearch::new(); huge_anyof_sweep(c, "SimdStringSearch::find_any_of", &|h, n| s.find_any_of(h, n), al, idx % 3 == 2) });
        ctx.case("iosearch/anyof.sse42", "huge_align", idx, |c| { huge_tag(c, "sse42_multi_search 2MiB+k", idx); if idx % 3 == 2 { c.tag("charset_gt16"); } huge_anyof_sweep(c, "sse42_multi_search", &|h, n| S::sse42_multi_search(h, n), al, idx % 3 == 2) });
        ctx.case("iosearch/anyof.scalar", "huge_align", idx, |c| { huge_tag(c, "scalar_multi_search 2MiB+k", idx); if idx % 3 == 2 { c.tag("charset_gt16"); } huge_anyof_sweep(c, "scalar_multi_search", &|h, n| S::scalar_multi_search(h, n), al, idx % 3 == 2) });
    }
}


/// sizes around 2^16 / 2^17 through the ordinary (full) checks, random alignments, large-scale data shapes
fn g_huge_sizes(ctx: &mut Ctx) {
    use zipora::memory::simd_ops::*;
    use zipora::io::simd_memory::copy::*;
    use zipora::io::simd_memory::search as S;
    use zipora::string::simd as T;
    let n = ctx.n(HSIZES.len(), HSIZES.len() * 6) as u64;
    let mk = |c: &mut Case, idx: u64| -> (Vec<u8>, Place, Place) { let len = HSIZES[(idx as usize) % HSIZES.len()]; let kind = idx / HSIZES.len() as u64 + c.rng.below(6); let d = huge_shape_bytes(&mut c.rng, kind, len);
        let (p1, p2) = (Place::Align(c.rng.usize_below(64)), Place::Align(c.rng.usize_below(64))); c.input_str("huge", &format!("len={len} shape={} {p1:?} {p2:?}", kind % 6)); c.input("data", &d); c.nontrivial(); (d, p1, p2) };
    for idx in 0..n {
        ctx.case("memops/copy", "huge_size", idx, |c| { let (d, p1, p2) = mk(c, idx); let ops = SimdMemOps::new(); chk_copy(c, "SimdMemOps::copy_nonoverlapping", &|s, d| ops.copy_nonoverlapping(s, d), &d, p1, p2, true)?; chk_copy(c, "fast_copy", &|s, d| fast_copy(s, d), &d, p1, p2, true) });
        ctx.case("memops/copy_cacheopt", "huge_size", idx, |c| { let (d, p1, p2) = mk(c, idx); let ops = SimdMemOps::new(); chk_copy(c, "SimdMemOps::copy_cache_optimized", &|s, d| ops.copy_cache_optimized(s, d), &d, p1, p2, true)?;
            chk_copy(c, "SimdMemOps::copy_cache_optimized(aligned)", &|s, d| ops.copy_cache_optimized(s, d), &d, Place::Align(0), Place::Align(0), true)?; chk_copy(c, "SimdMemOps::copy_aligned", &|s, d| ops.copy_aligned(s, d), &d, Place::Align(0), Place::Align(0), true) });
        ctx.case("iocopy/large", "huge_size", idx, |c| { let (d, p1, p2) = mk(c, idx); chk_copy(c, "copy_large_simd", &|s, d| copy_large_simd(d, s), &d, p1, p2, true) });
        ctx.case("iocopy/aligned", "huge_size", idx, |c| { let (d, _, _) = mk(c, idx); chk_copy(c, "copy_aligned_simd", &|s, d| copy_aligned_simd(d, s), &d, Place::Align(0), Place::Align(0), true) });
        ctx.case("memops/compare", "huge_size", idx, |c| { let (d, p1, p2) = mk(c, idx); let ops = SimdMemOps::new(); chk_cmp_sign(c, "SimdMemOps::compare", &|a, b| ops.compare(a, b), &d, p1, p2, false) });
        ctx.case("memops/find_byte", "huge_size", idx, |c| { let (d, p1, _) = mk(c, idx); let ops = SimdMemOps::new(); chk_find_byte(c, "SimdMemOps::find_byte", &|h, n| ops.find_byte(h, n), &d, p1) });
        ctx.case("memops/fill", "huge_size", idx, |c| { let (d, p1, _) = mk(c, idx); let ops = SimdMemOps::new(); chk_fill(c, "SimdMemOps::fill", &|s, x| ops.fill(s, x), d.len(), p1, d[0]) });
        ctx.case("iosearch/strchr.auto", "huge_size", idx, |c| { let (d, p1, _) = mk(c, idx); let s = S::SimdStringSearch::new(); chk_find_byte(c, "SimdStringSearch::find_char", &|h, n| s.find_char(h, n), &d, p1) });
        ctx.case("iosearch/strchr.sse42", "huge_size", idx, |c| { let (d, p1, _) = mk(c, idx); chk_find_byte(c, "sse42_strchr", &|h, n| S::sse42_strchr(h, n), &d, p1) });
        ctx.case("strsearch/strchr", "huge_size", idx, |c| { let (d, p1, _) = mk(c, idx); let s = T::SimdStringSearch::new(); chk_find_byte(c, "string::SimdStringSearch::sse42_strchr", &|h, n| s.sse42_strchr(h, n), &d, p1) });
        ctx.case("iosearch/strcmp.auto", "huge_size", idx, |c| { let (d, p1, p2) = mk(c, idx); let s = S::SimdStringSearch::new(); chk_ord(c, "SimdStringSearch::compare_strings", &|a, b| s.compare_strings(a, b), &d, p1, p2) });
        ctx.case("iosearch/strcmp.sse42", "huge_size", idx, |c| { let (d, p1, p2) = mk(c, idx); chk_ord(c, "sse42_strcmp", &|a, b| S::sse42_strcmp(a, b), &d, p1, p2) });
        ctx.case("strsearch/strcmp", "huge_size", idx, |c| { let (d, p1, p2) = mk(c, idx); let s = T::SimdStringSearch::new(); chk_cmp_sign(c, "string::SimdStringSearch::sse42_strcmp", &|a, b| sgn_ord(s.sse42_strcmp(a, b)), &d, p1, p2, true) });
    }
    // ---- X c X d : two identical halves of >= 64 KiB, then one differing byte
    for idx in 0..ctx.n(4, 40) as u64 {
        let xcxd = |c: &mut Case| -> (Vec<u8>, usize) { let xl = *c.rng.pick(&[65536usize, 65537, 131073, MIB + 1]); let kind = c.rng.below(6); let x = huge_shape_bytes(&mut c.rng, kind, xl); let cb = c.rng.next() as u8; let mut v = x.clone(); v.push(cb); v.extend_from_slice(&x); v.push(cb ^ 0x80);
            c.input_str("huge", &format!("X c X d, |X|={xl} shape={kind}")); c.hash_more(&v[..64.min(v.len())]); c.nontrivial(); (v, xl) };
        ctx.case("memops/compare", "huge_shape", idx, |c| { let (v, xl) = xcxd(c); let ops = SimdMemOps::new(); let (a, b) = (place(Place::Align(c.rng.usize_below(64)), &v[..xl + 1]), place(Place::Align(c.rng.usize_below(64)), &v[xl + 1..]));
            let want = sgn_ord(v[..xl + 1].cmp(&v[xl + 1..])); let g = np("compare", || ops.compare(a.s(), b.s()))?; ensure!(sgn(g) == want && sgn(fast_compare(b.s(), a.s())) == -want, "compare_sign", "X c vs X d (|X|={xl}): got {g} want sign {want}"); c.ev(2); Ok(()) });
        for (t, which) in [("iosearch/strstr.auto", 0), ("iosearch/strstr.sse42", 1), ("iosearch/strstr.scalar", 2), ("strsearch/strstr", 3)] {
            ctx.case(t, "huge_shape", idx, |c| { let (v, xl) = xcxd(c); let s = S::SimdStringSearch::new(); let ts = T::SimdStringSearch::new();
                let f = |h: &[u8], n: &[u8]| match which { 0 => s.find_pattern(h, n), 1 => S::sse42_strstr(h, n), 2 => S::scalar_strstr(h, n), _ => ts.sse42_strstr(h, n) };
                let h = place(Place::Align(c.rng.usize_below(64)), &v);
                // needle = X d : the candidate at 0 fails only at its last byte, the match starts at |X|+1
                let nd = place(Place::Align(c.rng.usize_below(64)), &v[xl + 1..]); let want = if v[..xl + 1] == v[xl + 1..] { Some(0) } else { Some(xl + 1) };
                let g = np("strstr(X d)", || f(h.s(), nd.s()))?; ensure!(g == want, "substring_search", "{t}: needle X d (len {}) in X c X d: got {g:?} want {want:?}", xl + 1); c.ev(1);
                // short needle = last 9 bytes (occurs at the end; also inside the first half only if X c ends the same way)
                let tail = &v[v.len() - 9..]; let want = naive_find(&v[..], tail); let g = np("strstr(tail)", || f(h.s(), tail))?; ensure!(g == want, "substring_search", "{t}: 9-byte tail needle: got {g:?} want {want:?}"); c.ev(1); Ok(()) });
        }
    }
}

fn crc32c_tab(data: &[u8], mut crc: u32) -> u32 { // exact: table derived from the bitwise definition
    static T: std::sync::OnceLock<[u32; 256]> = std::sync::OnceLock::new();
    let t = T.get_or_init(|| { let mut t = [0u32; 256]; for i in 0..256u32 { t[i as usize] = crc32c_def(&[i as u8], 0); } t });
    for &b in data { crc = (crc >> 8) ^ t[((crc as u8) ^ b) as usize]; } crc
}
/// valid UTF-8 of about `n` bytes built from a repeated valid block (fast)
fn huge_text(r: &mut Rng, n: usize, mb: u64) -> Vec<u8> { let blk = valid_exact(r, 4096, mb); let mut v = Vec::with_capacity(n + 4096); while v.len() + blk.len() <= n { v.extend_from_slice(&blk); } let rest = n - v.len(); v.extend(valid_exact(r, rest, 0)); v }
const MSIZES: &[usize] = &[65535, 65536, 65537, MIB - 1, MIB, MIB + 1, 2 * MIB + 1, 3 * MIB + 5];
fn g_huge_mib(ctx: &mut Ctx) {
    use zipora::string::bmi2 as B;
    let n = ctx.n(MSIZES.len(), MSIZES.len() * 5) as u64;
    for idx in 0..n { let len = MSIZES[(idx as usize) % MSIZES.len()];
        ctx.case("crc32c", "huge_mib", idx, |c| { use zipora::io::simd_validation::checksum as K; let kind = c.rng.below(6); let d = huge_shape_bytes(&mut c.rng, kind, len); let al = c.rng.usize_below(64); c.input_str("huge", &format!("len={len} shape={kind} align={al}")); c.hash_more(&d[..64]); c.nontrivial();
            let m = Arena::from(&d); let _ = al; let a = ABuf::new(&d, al); let s = a.s(); let _ = m;
            ensure!(crc32c_tab(&d[..1000], 7) == crc32c_def(&d[..1000], 7), "oracle_selfcheck", "table oracle != bitwise definition");
            let want = !crc32c_tab(&d, 0xFFFF_FFFF); let h = np("crc32c_hash", || K::crc32c_hash(s))?.map_err(|e| bad("crc_err", e.to_string()))?; ensure!(h == want, "crc32c_oneshot", "crc32c_hash len={len} align {al}: {h:#010x} want {want:#010x}"); c.ev(1);
            let init = c.rng.next() as u32; let w = crc32c_tab(&d, init);
            for k in [1usize, 65535, 65536, 65537, len / 2, MIB - 1, MIB, MIB + 1, len - 1, len - 7] { if k > len { continue; } let x = K::crc32c_update(init, &s[..k]).map_err(|e| bad("crc_err", e.to_string()))?; let y = K::crc32c_update(x, &s[k..]).map_err(|e| bad("crc_err", e.to_string()))?; ensure!(y == w, "crc32c_incremental", "len={len} split {k}: {y:#010x} want {w:#010x}"); c.ev(1); }
            // many small unaligned pieces
            let mut x = init; let mut p = 0; while p < len { let k = (1 + c.rng.usize_below(70_000)).min(len - p); x = K::crc32c(&s[p..p + k], x).map_err(|e| bad("crc_err", e.to_string()))?; p += k; } ensure!(x == w, "crc32c_incremental", "len={len} random pieces"); c.ev(1); Ok(()) });
        ctx.case("b64/io", "huge_mib", idx, |c| { use zipora::io::simd_encoding::base64 as IB; let len = len + (idx as usize / MSIZES.len()) % 3; let kind = c.rng.below(6); let d = huge_shape_bytes(&mut c.rng, kind, len); c.input_str("huge", &format!("len={len} shape={kind}")); c.hash_more(&d[..64]); c.nontrivial();
            let want = b64_def(&d, false, true); let e = np("encode_base64", || IB::encode_base64(&d))?.map_err(|e| bad("b64_err", e.to_string()))?; if e != want { let i = first_diff(e.as_bytes(), want.as_bytes()); return Err(bad("b64_encode", format!("encode_base64 len={len}: first difference at output byte {i} (lengths {} / {})", e.len(), want.len()))); }
            ensure!(IB::calculate_encoded_len(len) == want.len(), "b64_len", "calculate_encoded_len({len})");
            let dec = np("decode_base64", || IB::decode_base64(&want))?.map_err(|e| bad("b64_decode_err", format!("canonical encoding of len {len} rejected: {e}")))?; ensure!(dec == d, "b64_roundtrip", "decode(encode(x)) != x, len={len}, first difference at {}", first_diff(&dec, &d));
            let mut ob = vec![0u8; want.len()]; let n = IB::encode_base64_to_buffer(&d, &mut ob).map_err(|e| bad("b64_err", e.to_string()))?; ensure!(n == want.len() && ob == want.as_bytes(), "b64_encode", "encode_base64_to_buffer len={len}");
            let mut db = vec![0u8; len]; let n = IB::decode_base64_from_buffer(want.as_bytes(), &mut db).map_err(|e| bad("b64_decode_err", e.to_string()))?; ensure!(n == len && db == d, "b64_roundtrip", "decode_base64_from_buffer len={len}");
            let mut w = want.into_bytes(); let i = w.len() - 1 - c.rng.usize_below(70_000.min(w.len() - 1)); w[i] = b'!'; ensure!(IB::decode_base64(std::str::from_utf8(&w).unwrap()).is_err(), "b64_accepts_invalid", "invalid byte at {i} of {} accepted", w.len()); c.ev(5); Ok(()) });
        ctx.case("b64/system", "huge_mib", idx, |c| { use zipora::system::base64 as SB; let len = len + 1 + (idx as usize / MSIZES.len()) % 3; let kind = c.rng.below(6); let d = huge_shape_bytes(&mut c.rng, kind, len); c.input_str("huge", &format!("len={len} shape={kind}")); c.hash_more(&d[..64]); c.nontrivial();
            let (url, pad) = (idx % 2 == 1, idx % 4 < 2); let force = [None, Some(SB::SimdImplementation::AVX2), Some(SB::SimdImplementation::SSE42), Some(SB::SimdImplementation::AVX512), Some(SB::SimdImplementation::Scalar)][(idx % 5) as usize];
            let codec = SB::AdaptiveBase64::with_config(SB::Base64Config { url_safe: url, padding: pad, force_implementation: force }); let want = b64_def(&d, url, pad);
            let e = np("AdaptiveBase64::encode", || codec.encode(&d))?; if e != want { return Err(bad("b64_encode", format!("AdaptiveBase64(url={url},pad={pad},force={force:?}) len={len}: first difference at output byte {}", first_diff(e.as_bytes(), want.as_bytes())))); }
            let dec = np("AdaptiveBase64::decode", || codec.decode(&want))?.map_err(|e| bad("b64_decode_err", format!("AdaptiveBase64(url={url},pad={pad},force={force:?}) rejects its own canonical encoding of len {len}: {e}")))?; ensure!(dec == d, "b64_roundtrip", "AdaptiveBase64(url={url},pad={pad}) len={len}");
            if !url && pad { ensure!(SB::base64_encode_simd(&d) == want && SB::base64_decode_simd(&want).map_err(|e| bad("b64_decode_err", e.to_string()))? == d, "b64_roundtrip", "base64_*_simd len={len}"); }
            c.ev(3); Ok(()) });
        ctx.case("hex", "huge_mib", idx, |c| { use zipora::string as H; let kind = c.rng.below(6); let d = huge_shape_bytes(&mut c.rng, kind, len); c.input_str("huge", &format!("len={len} shape={kind}")); c.hash_more(&d[..64]); c.nontrivial();
            const LO: &[u8; 16] = b"0123456789abcdef"; let mut lo = Vec::with_capacity(2 * len); for &b in &d { lo.push(LO[(b >> 4) as usize]); lo.push(LO[(b & 15) as usize]); }
            let e = np("hex_encode", || H::hex_encode(&d))?; ensure!(e.as_bytes() == &lo[..], "hex_encode", "hex_encode len={len}: first difference at {}", first_diff(e.as_bytes(), &lo)); ensure!(H::hex_encode_upper(&d).to_ascii_lowercase().as_bytes() == &lo[..], "hex_encode", "hex_encode_upper len={len}");
            let g = np("hex_decode_bytes", || H::hex_decode_bytes(&lo))?.map_err(|e| bad("hex_decode_err", e.to_string()))?; ensure!(g == d, "hex_roundtrip", "hex_decode_bytes len={len}");
            let mut ob = vec![0u8; 2 * len]; ensure!(H::hex_encode_to_slice(&d, &mut ob).map_err(|e| bad("hex_err", e.to_string()))? == 2 * len && ob == lo, "hex_encode", "hex_encode_to_slice"); let mut db = vec![0u8; len]; ensure!(H::hex_decode_to_slice(&lo, &mut db).map_err(|e| bad("hex_decode_err", e.to_string()))? == len && db == d, "hex_roundtrip", "hex_decode_to_slice");
            let mut w = lo.clone(); let i = w.len() - 1 - c.rng.usize_below(1000); w[i] = b'g'; ensure!(H::hex_decode_bytes(&w).is_err(), "hex_accepts_invalid", "invalid digit at {i} accepted"); c.ev(5); Ok(()) });
        // ---- UTF-8 at multi-MiB: valid (ASCII / mixed), one multi-byte char or one defect far from the start
        for t in ["utf8/validator", "bmi2/validate_utf8", "bmi2/count_chars", "unicode/validate_count", "bmi2/extract_chars", "bmi2/utf8_to_utf16"] {
            ctx.case(t, "huge_mib", idx, |c| { let variant = (idx / MSIZES.len() as u64 + c.rng.below(6)) % 6; let mb = if variant == 1 { 40 } else { 0 };
                let mut v = huge_text(&mut c.rng, len, mb); let n = v.len();
                let desc = match variant {
                    0 => "ascii".to_string(), 1 => "mixed".to_string(),
                    2 => { let p = [65535usize, 65534, n - 3, n / 2][c.rng.usize_below(4)].min(n - 3); v[p..p + 3].copy_from_slice("\u{20AC}".as_bytes()); format!("3-byte char at {p}") }
                    3 => { let p = [n - 1, 65536, 65535, MIB.min(n - 1), n - 2][c.rng.usize_below(5)].min(n - 1); let (nm, seq) = *c.rng.pick(BAD_SEQS); let e = (p + seq.len()).min(n); v[p..e].copy_from_slice(&seq[..e - p]); format!("{nm} at {p}") }
                    4 => { v[n - 1] = 0xC3; "truncated 2-byte sequence at the end".to_string() }
                    _ => { let dom = b'e'; for (i, b) in v.iter_mut().enumerate() { if i % 10 != 0 { *b = dom; } } "dominant symbol 90%".to_string() } };
                let al = c.rng.usize_below(64); c.input_str("huge", &format!("len={n} {desc} align={al}")); c.hash_more(&v[n - 64..]); c.nontrivial();
                let a = ABuf::new(&v, al); let s = a.s(); let std_ok = std::str::from_utf8(&v); let want_n = std_ok.as_ref().ok().map(|x| x.chars().count());
                match t {
                    "utf8/validator" => { use zipora::io::simd_validation::utf8 as U; let val = U::Utf8Validator::new_unmonitored(); for (nm, g) in [("Utf8Validator::validate_utf8", np("validate_utf8", || val.validate_utf8(s))?), ("utf8::validate_utf8", np("validate_utf8(global)", || U::validate_utf8(s))?)] { match g { Ok(x) if x == std_ok.is_ok() => {} other => return Err(bad("utf8_verdict", format!("{nm}: len={n} ({desc}): got {other:?}, std says valid={}", std_ok.is_ok()))) } c.ev(1); } }
                    "bmi2/validate_utf8" => { let g = np("validate_utf8_bmi2", || B::Bmi2StringProcessor::new().validate_utf8_bmi2(s))?; ensure!(g == std_ok.is_ok(), "utf8_verdict", "validate_utf8_bmi2: len={n} ({desc}): got {g}"); c.ev(1); }
                    "bmi2/count_chars" => { let g = np("count_utf8_chars_bmi2", || B::Bmi2StringProcessor::new().count_utf8_chars_bmi2(s))?; if g.as_ref().ok().copied() != want_n { return Err(bad("utf8_count", format!("count_utf8_chars_bmi2: len={n} ({desc}): got {g:?}, std says {want_n:?}"))); } c.ev(1); }
                    "unicode/validate_count" => { let g = np("validate_utf8_and_count_chars", || zipora::string::validate_utf8_and_count_chars(s))?; if g.as_ref().ok().copied() != want_n { return Err(bad("utf8_count", format!("validate_utf8_and_count_chars: len={n} ({desc}): got {g:?}, std says {want_n:?}"))); } c.ev(1); }
                    "bmi2/extract_chars" => { let g = np("extract_utf8_chars_bmi2", || B::Bmi2StringProcessor::new().extract_utf8_chars_bmi2(s))?; match (&g, &std_ok) { (Ok(x), Ok(st)) => { ensure!(x.len() == want_n.unwrap() && x.iter().zip(st.chars()).all(|(a, b)| *a == b as u32), "utf8_decode_mismatch", "extract_utf8_chars_bmi2: len={n} ({desc})"); } (Err(_), Err(_)) => {} (Err(e), Ok(_)) => return Err(bad("utf8_decode_rejects_valid", format!("extract_utf8_chars_bmi2: len={n} ({desc}) rejected: {e}"))), (Ok(x), Err(_)) => return Err(bad("utf8_decode_accepts_invalid", format!("extract_utf8_chars_bmi2: len={n} ({desc}) decoded to {} code points", x.len()))) } c.ev(1); }
                    _ => { let g = np("utf8_to_utf16_bmi2", || B::Bmi2StringProcessor::new().utf8_to_utf16_bmi2(s))?; match (&g, &std_ok) { (Ok(x), Ok(st)) => { ensure!(x.iter().copied().eq(st.encode_utf16()), "utf8_decode_mismatch", "utf8_to_utf16_bmi2: len={n} ({desc})"); } (Err(_), Err(_)) => {} (Err(e), Ok(_)) => return Err(bad("utf8_decode_rejects_valid", format!("utf8_to_utf16_bmi2: len={n} ({desc}) rejected: {e}"))), (Ok(x), Err(_)) => return Err(bad("utf8_decode_accepts_invalid", format!("utf8_to_utf16_bmi2: len={n} ({desc}) transcoded to {} units", x.len()))) } c.ev(1); }
                }
                Ok(()) });
        }
        // ---- histogram with one symbol occurring > 65535 times; string ops on multi-MiB &str
        ctx.case("bmi2/histogram", "huge_mib", idx, |c| { let variant = c.rng.below(4); let mut v = huge_text(&mut c.rng, len, if variant == 3 { 30 } else { 0 });
            match variant { 0 => { let dom = b'a' + c.rng.below(26) as u8; let pct = 60 + c.rng.below(40); for b in v.iter_mut() { if c.rng.below(100) < pct { *b = dom; } } } 1 => { let x = v[0]; for b in v.iter_mut() { *b = x; } } _ => {} }
            let s = String::from_utf8(v).map_err(|_| bad("gen", "generator produced invalid utf-8".into()))?; c.input_str("huge", &format!("len={} variant={variant}", s.len())); c.hash_more(&s.as_bytes()[..64]); c.nontrivial();
            let a = np("analyze_compression_bmi2", || B::Bmi2StringProcessor::new().analyze_compression_bmi2(&s))?; let mut h = [0u32; 256]; for b in s.bytes() { h[b as usize] += 1; }
            for x in 0..256usize { let g = a.char_frequencies.get(&(x as u8)).copied().unwrap_or(0); ensure!(g == h[x], "histogram", "analyze_compression_bmi2(len {}): count[{x:#04x}] = {g} want {}", s.len(), h[x]); }
            ensure!(a.total_chars == s.len() && a.unique_chars == h.iter().filter(|&&x| x > 0).count(), "histogram", "totals for len {}", s.len()); c.note(&format!("max_count_gt_65535:{}", h.iter().any(|&x| x > 65535)), 1); c.ev(256); Ok(()) });
        ctx.case("bmi2/runs", "huge_mib", idx, |c| { let mut s = String::with_capacity(len + 8); let mut want: Vec<(u8, usize, usize)> = vec![]; while s.len() < len { let ch = *c.rng.pick(b"abc\0 ~"); if want.last().map(|l| l.0) == Some(ch) { continue; } let k = (if c.rng.chance(1, 3) { 65536 + c.rng.usize_below(70_000) } else { 1 + c.rng.usize_below(3000) }).min(len - s.len()); want.push((ch, s.len(), k)); for _ in 0..k { s.push(ch as char); } }
            c.input_str("huge", &format!("len={len} runs={}", want.len())); c.hash_more(&(want.len() as u64).to_le_bytes()); c.nontrivial();
            let g = np("detect_runs_bmi2", || B::Bmi2StringProcessor::new().detect_runs_bmi2(&s))?; let got: Vec<(u8, usize, usize)> = g.iter().map(|r| (r.character, r.start, r.length)).collect(); ensure!(got == want, "runs", "detect_runs_bmi2(len {len}): {} runs want {} (longest {})", got.len(), want.len(), want.iter().map(|r| r.2).max().unwrap_or(0)); c.ev(1); Ok(()) });
        ctx.case("bmi2/case", "huge_mib", idx, |c| { let s = String::from_utf8(huge_text(&mut c.rng, len, if idx % 2 == 0 { 0 } else { 20 })).unwrap(); c.input_str("huge", &format!("len={}", s.len())); c.hash_more(&s.as_bytes()[..64]); c.nontrivial(); let pr = B::Bmi2StringProcessor::new();
            ensure!(np("to_lowercase_ascii_bmi2", || pr.to_lowercase_ascii_bmi2(&s))? == s.to_ascii_lowercase(), "ascii_case", "to_lowercase_ascii_bmi2(len {})", s.len()); ensure!(np("to_uppercase_ascii_bmi2", || pr.to_uppercase_ascii_bmi2(&s))? == s.to_ascii_uppercase(), "ascii_case", "to_uppercase_ascii_bmi2(len {})", s.len()); c.ev(2); Ok(()) });
        ctx.case("bmi2/search", "huge_mib", idx, |c| { let mut v = huge_text(&mut c.rng, len, 0); for b in v.iter_mut() { if *b == b'#' { *b = b'.'; } } let n = v.len(); let nd = "ab#cd#ef"; let pos = [n - nd.len(), 65536, n / 2][(idx % 3) as usize].min(n - nd.len()); v[pos..pos + nd.len()].copy_from_slice(nd.as_bytes());
            let s = String::from_utf8(v).unwrap(); c.input_str("huge", &format!("len={n} needle at {pos}")); c.hash_more(&s.as_bytes()[..64]); c.nontrivial(); let pr = B::Bmi2StringProcessor::new();
            let g = np("search_bmi2", || pr.search_bmi2(&s, nd))?; ensure!(g == Some(pos), "substring_search", "search_bmi2(hay len {n}): got {g:?} want Some({pos})"); let g = pr.search_bmi2(&s, "ab#cd#eg"); ensure!(g.is_none(), "substring_search", "search_bmi2 absent needle: got {g:?}"); c.ev(2); Ok(()) });
        ctx.case("hmstr/hash", "huge_mib", idx, |c| { let s = String::from_utf8(huge_text(&mut c.rng, len + (idx as usize * 3) % 40, 10)).unwrap(); c.input_str("huge", &format!("len={}", s.len())); c.hash_more(&s.as_bytes()[..64]); c.nontrivial(); let ops = zipora::hash_map::SimdStringOps::new();
            let base = c.rng.next(); let g = np("fast_string_hash", || ops.fast_string_hash(&s, base))?; let w = hm_hash_def(s.as_bytes(), base); ensure!(g == w, "hash_tier_divergence", "fast_string_hash(len {}) on tier {:?} = {g:#018x}; scalar definition {w:#018x}", s.len(), ops.tier()); ensure!(ops.extract_prefix_simd(&s) == prefix_def(s.as_bytes()), "prefix", "extract_prefix_simd"); c.ev(2); Ok(()) });
        ctx.case("hmstr/compare", "huge_mib", idx, |c| { let s = String::from_utf8(huge_text(&mut c.rng, len, 0)).unwrap(); let n = s.len(); c.input_str("huge", &format!("len={n}")); c.hash_more(&s.as_bytes()[..64]); c.nontrivial(); let ops = zipora::hash_map::SimdStringOps::new();
            let t = s.clone(); ensure!(np("fast_string_compare", || ops.fast_string_compare(&s, &t, prefix_def(t.as_bytes())))? && ops.fast_string_compare(&s, &t, 0), "string_equality", "equal strings of len {n} reported different");
            for p in [n - 1, n - 2, 65536, 65535, 0, n / 2, 9] { if p >= n { continue; } let mut b = s.clone().into_bytes(); b[p] = if b[p] == b'z' { b'y' } else { b'z' }; let o = String::from_utf8(b).unwrap(); for cp in [0u64, prefix_def(o.as_bytes())] { let g = ops.fast_string_compare(&s, &o, cp); ensure!(!g, "string_equality", "fast_string_compare: strings of len {n} differing at byte {p} reported equal (cached_prefix={cp:#x})"); c.ev(1); } }
            Ok(()) });
        ctx.case("strsearch/multi", "huge_mib", idx, |c| { use zipora::string::simd as T; let mut d = fast_bytes(&mut c.rng, len); for x in d.iter_mut() { *x &= 0x7F; } let sz = if idx % 2 == 0 { 5 } else { 20 }; let set: Vec<u8> = (0..sz).map(|i| 0x80 + 3 * i as u8).collect();
            let mut want = vec![]; let dense = idx % 4 == 3; if dense { for i in (0..len).step_by(2) { d[i] = set[i % sz]; want.push(i); } } else { for p in [0usize, 15, 16, 65535, 65536, len / 2, len - 17, len - 1] { if p < len && !want.contains(&p) { d[p] = set[p % sz]; want.push(p); } } want.sort(); }
            c.input_str("huge", &format!("len={len} set={sz} matches={}", want.len())); c.hash_more(&d[..64]); c.nontrivial();
            let r = np("sse42_multi_search", || T::SimdStringSearch::new().sse42_multi_search(&d, &set))?; ensure!(r.positions == want, "charset_search_all", "sse42_multi_search(len {len}): {} positions want {}", r.positions.len(), want.len()); ensure!(r.characters.iter().zip(&want).all(|(ch, &p)| *ch == d[p]), "charset_search_chars", "characters"); c.ev(1); Ok(()) });
    }
    // ---- word arrays > 65536 / > 10^5 elements
    for idx in 0..ctx.n(4, 24) as u64 {
        ctx.case("bitops/default", "huge_words", idx, |c| { use zipora::entropy::bit_ops::*; let n = [65537usize, 100_001, 131_073, 262_145][(idx % 4) as usize]; let ws: Vec<u64> = (0..n).map(|i| if i % 1000 == 999 { word(&mut c.rng) } else { c.rng.next() }).collect(); c.input_str("huge", &format!("words={n}")); c.hash_more(&ws[0].to_le_bytes()); c.nontrivial();
            let want: Vec<u32> = ws.iter().map(|x| x.count_ones()).collect(); ensure!(popc_def(ws[0]) == ws[0].count_ones(), "oracle_selfcheck", "popcount");
            for (label, b) in [("default", BitOps::new()), ("forced_sw", BitOps::with_config(BitOpsConfig { enable_bmi2: false, enable_avx2: false, enable_popcnt: false, software_fallback: true, ..BitOpsConfig::default() }))] { let g = np("vectorized_popcount", || b.vectorized_popcount(&ws))?; if g != want { let i = g.iter().zip(&want).position(|(a, b)| a != b).unwrap_or(g.len().min(want.len())); return Err(bad("popcount_vec", format!("BitOps({label})::vectorized_popcount over {n} words: first difference at word {i} (lengths {} / {})", g.len(), want.len()))); } c.ev(1); }
            Ok(()) });
        ctx.case("bitops/dispatcher", "huge_words", idx, |c| { use zipora::entropy::bit_ops::*; let n = [65537usize, 100_001, 131_073, 262_145][(idx % 4) as usize]; let ws: Vec<u64> = (0..n).map(|_| c.rng.next() & c.rng.next()).collect(); c.input_str("huge", &format!("words={n}")); c.hash_more(&ws[0].to_le_bytes()); c.nontrivial();
            let d = CompressionBmi2Dispatcher::new(); for (op, f) in [(CompressionOperation::PopCount, (|x: u64| x.count_ones() as u64) as fn(u64) -> u64), (CompressionOperation::LeadingZeros, |x: u64| x.leading_zeros() as u64), (CompressionOperation::TrailingZeros, |x: u64| x.trailing_zeros() as u64), (CompressionOperation::BitReverse, |x: u64| x.reverse_bits())] { let g = np("dispatch_bit_stream_process", || d.dispatch_bit_stream_process(&ws, op))?; ensure!(g.len() == n && g.iter().zip(&ws).all(|(a, &x)| *a == f(x)), "dispatcher_stream", "dispatch_bit_stream_process({op:?}) over {n} words"); c.ev(1); }
            Ok(()) });
        ctx.case("fastvec/fast_ops", "huge_mib", idx, |c| { use zipora::containers::FastVec; let n = [65537usize, 131_073, 2 * MIB + 1, MIB + 7][(idx % 4) as usize]; let d = fast_bytes(&mut c.rng, n); c.input_str("huge", &format!("len={n}")); c.hash_more(&d[..64]); c.nontrivial();
            let mut fv: FastVec<u8> = FastVec::new(); np("copy_from_slice_fast", || fv.copy_from_slice_fast(&d))?.map_err(|e| bad("fastvec_err", e.to_string()))?; ensure!(fv.as_slice() == &d[..], "copy_mismatch", "FastVec::copy_from_slice_fast len={n}");
            let ext = fast_bytes(&mut c.rng, 65537 + (idx as usize) * 13); np("extend_from_slice_fast", || fv.extend_from_slice_fast(&ext))?.map_err(|e| bad("fastvec_err", e.to_string()))?; let mut model = d.clone(); model.extend_from_slice(&ext); ensure!(fv.as_slice() == &model[..], "copy_mismatch", "FastVec::extend_from_slice_fast {n}+{}", ext.len());
            let (a, b) = (c.rng.usize_below(70_000), model.len() - c.rng.usize_below(70)); np("fill_range_fast", || fv.fill_range_fast(a, b, 0xA7))?.map_err(|e| bad("fastvec_err", e.to_string()))?; for x in &mut model[a..b] { *x = 0xA7; } ensure!(fv.as_slice() == &model[..], "fill_mismatch", "FastVec::fill_range_fast({a},{b}) len={}", model.len());
            let d32: Vec<u32> = (0..[65537usize, 100_001, 131_073, 262_145][(idx % 4) as usize]).map(|_| c.rng.next() as u32).collect(); let mut f32v: FastVec<u32> = FastVec::new(); f32v.copy_from_slice_fast(&d32).map_err(|e| bad("fastvec_err", e.to_string()))?; f32v.extend_from_slice_fast(&d32).map_err(|e| bad("fastvec_err", e.to_string()))?; let mut m32 = d32.clone(); m32.extend_from_slice(&d32); ensure!(f32v.as_slice() == &m32[..], "copy_mismatch", "FastVec<u32> copy/extend {} elements", d32.len());
            f32v.fill_range_fast(65535, m32.len() - 1, 0xDEAD_BEEF).map_err(|e| bad("fastvec_err", e.to_string()))?; let l = m32.len(); for x in &mut m32[65535..l - 1] { *x = 0xDEAD_BEEF; } ensure!(f32v.as_slice() == &m32[..], "fill_mismatch", "FastVec<u32>::fill_range_fast over {} elements", l); c.ev(5); Ok(()) });
        ctx.case("adaptive/select", "huge_sizes", idx, |c| { use zipora::simd::{AdaptiveSimdSelector, Operation, SimdImpl}; c.hash_more(&idx.to_le_bytes()); c.nontrivial(); let sel = AdaptiveSimdSelector::new(); let f = zipora::system::get_cpu_features();
            for sh in [16u32, 17, 20, 21, 24, 31, 32, 33, 40, 62] { for d in [-1i64, 0, 1] { let size = ((1u64 << sh) as i64 + d) as usize; for dens in [None, Some(0.01), Some(0.99)] { let op = *c.rng.pick(&[Operation::Copy, Operation::MemZero, Operation::Search, Operation::Popcount, Operation::Utf8Validation]);
                let a = np("select_optimal_impl", || sel.select_optimal_impl(op, size, dens))?; ensure!(a == sel.select_optimal_impl(op, size, dens), "selector_unstable", "select_optimal_impl({op:?},{size},{dens:?}) not stable");
                let ok = match a { SimdImpl::Avx512 => f.has_avx512f && f.has_avx512bw && f.has_avx512vl, SimdImpl::Avx2 => f.has_avx2, SimdImpl::Bmi2 => f.has_bmi2, SimdImpl::Sse42 => f.has_sse42, SimdImpl::Neon => f.has_neon, SimdImpl::Sse2 | SimdImpl::Scalar => true }; ensure!(ok, "selector_unsupported_impl", "select_optimal_impl({op:?},{size},{dens:?}) = {a:?} not supported by the feature set"); c.ev(2); } } }
            Ok(()) });
    }
    // ---- 2 MiB + k operands ending exactly at a PROT_NONE page (forked child)
    for idx in 0..ctx.n(3, 24) as u64 {
        let len = 2 * MIB + HK[(idx as usize * 4 + 1) % HK.len()];
        ctx.case("memops/copy", "huge_guard", idx, |c| { huge_tag(c, &format!("len={len} at page end"), idx); let d = fast_bytes(&mut c.rng, len); forked(c, |c| { let ops = zipora::memory::simd_ops::SimdMemOps::new(); chk_copy(c, "SimdMemOps::copy_nonoverlapping", &|s, d| ops.copy_nonoverlapping(s, d), &d, Place::GuardEnd, Place::GuardEnd, true) }) });
        ctx.case("iocopy/large", "huge_guard", idx, |c| { huge_tag(c, &format!("len={len} at page end"), idx); let d = fast_bytes(&mut c.rng, len); forked(c, |c| chk_copy(c, "copy_large_simd", &|s, d| zipora::io::simd_memory::copy::copy_large_simd(d, s), &d, Place::GuardEnd, Place::GuardEnd, true)) });
        ctx.case("memops/find_byte", "huge_guard", idx, |c| { huge_tag(c, &format!("len={len} at page end"), idx); let r = c.rng.next() as u8; let mut d = fast_bytes(&mut c.rng, len); for x in d.iter_mut() { if *x == r { *x = r ^ 1; } } forked(c, |c| { let ops = zipora::memory::simd_ops::SimdMemOps::new(); let m = place(Place::GuardEnd, &d); let g = np("find_byte", || ops.find_byte(m.s(), r))?; ensure!(g.is_none(), "find_byte", "absent needle found at {g:?}"); let mut d2 = d.clone(); d2[len - 1] = r; let m = place(Place::GuardEnd, &d2); let g = np("find_byte", || ops.find_byte(m.s(), r))?; ensure!(g == Some(len - 1), "find_byte", "needle at last byte of {len}: got {g:?}"); c.ev(2); Ok(()) }) });
        ctx.case("iosearch/strstr.sse42", "huge_guard", idx, |c| { huge_tag(c, &format!("len={len} at page end"), idx); c.tag("guard_needle_any"); let r = c.rng.next() as u8; let mut d = fast_bytes(&mut c.rng, len); for x in d.iter_mut() { if *x == r { *x = r ^ 1; } } let nd = vec![d[3], r, d[5]]; forked(c, |c| { let m = place(Place::GuardEnd, &d); let g = np("sse42_strstr", || zipora::io::simd_memory::search::sse42_strstr(m.s(), &nd))?; ensure!(g.is_none(), "substring_search", "absent needle found at {g:?}"); let mut d2 = d.clone(); d2[len - 3..].copy_from_slice(&nd); let m = place(Place::GuardEnd, &d2); let g = np("sse42_strstr", || zipora::io::simd_memory::search::sse42_strstr(m.s(), &nd))?; ensure!(g == Some(len - 3), "substring_search", "needle at the end of {len}: got {g:?}"); c.ev(2); Ok(()) }) });
        ctx.case("crc32c", "huge_guard", idx, |c| { huge_tag(c, &format!("len={len} at page end"), idx); let d = fast_bytes(&mut c.rng, len); forked(c, |c| { let m = place(Place::GuardEnd, &d); let h = np("crc32c_hash", || zipora::io::simd_validation::checksum::crc32c_hash(m.s()))?.map_err(|e| bad("crc_err", e.to_string()))?; ensure!(h == !crc32c_tab(&d, 0xFFFF_FFFF), "crc32c_oneshot", "crc32c_hash len={len} at page end"); c.ev(1); Ok(()) }) });
        ctx.case("utf8/validator", "huge_guard", idx, |c| { huge_tag(c, &format!("len={len} at page end"), idx); let mut v = huge_text(&mut c.rng, len, 0); if idx % 2 == 1 { let n = v.len(); v[n - 1] = 0xE2; } forked(c, |c| { let m = place(Place::GuardEnd, &v); let g = np("validate_utf8", || zipora::io::simd_validation::utf8::Utf8Validator::new_unmonitored().validate_utf8(m.s()))?; match g { Ok(x) if x == std::str::from_utf8(&v).is_ok() => {} other => return Err(bad("utf8_verdict", format!("len={len} at page end: got {other:?}"))) } c.ev(1); Ok(()) }) });
    }
}


// ================================================================================================
// GAP FAMILIES (`gap_*`): entry points of the anchor files that no other family reaches — alternative constructors
// (with_cache_config / with_config / set_thresholds / default codecs), global convenience wrappers, parse_hex_byte,
// dictionary hash lookup, the bidirectional UTF-8 iterator, Unicode analysis / utils, pack_bits, and the
// feature -> variant selection tables of system::cpu_features on synthetic feature sets.
// ================================================================================================
fn g_gap_memops(ctx: &mut Ctx) {
    use zipora::memory::simd_ops::*;
    use zipora::memory::{CacheLayoutConfig, PrefetchHint};
    for idx in 0..ctx.n(160, 3000) as u64 {
        ctx.case("memops/cachecfg", "gap_cfg", idx, |c| {
            let mut cfg = match idx % 6 { 0 => CacheLayoutConfig::new(), 1 => CacheLayoutConfig::sequential(), 2 => CacheLayoutConfig::random(), 3 => CacheLayoutConfig::write_heavy(), 4 => CacheLayoutConfig::read_heavy(), _ => CacheLayoutConfig::default() };
            if c.rng.bool() { cfg.enable_prefetch = c.rng.bool(); }
            // 0 is excluded for both sizes (a zero step / modulus is a degenerate configuration, not a tier question)
            if c.rng.chance(2, 3) { cfg.prefetch_distance = *c.rng.pick(&[1usize, 7, 16, 63, 64, 65, 256, 4096, 1 << 20]); }
            if c.rng.chance(1, 2) { cfg.cache_line_size = *c.rng.pick(&[1usize, 8, 16, 32, 48, 64, 128, 4096]); }
            let pd = cfg.prefetch_distance;
            let len = match c.rng.below(5) { 0 => *c.rng.pick(BLENS), 1 => c.rng.usize_below(300), 2 => *c.rng.pick(BIGLENS), 3 => (pd.min(9000) + c.rng.usize_below(3)).saturating_sub(1), _ => cfg.cache_line_size.min(5000) * (1 + c.rng.usize_below(3)) + c.rng.usize_below(2) };
            let al = |r: &mut Rng| if r.bool() { 16 * r.usize_below(4) } else { r.usize_below(64) };
            let (a1, a2) = (al(&mut c.rng), al(&mut c.rng)); let (p1, p2) = (Place::Align(a1), Place::Align(a2));
            let kind = byte_kind(&mut c.rng); let d = gen::bytes_kind(&mut c.rng, kind, len);
            c.input_str("cfg", &format!("base={} prefetch={} distance={} line={} len={len} {p1:?} {p2:?}", idx % 6, cfg.enable_prefetch, cfg.prefetch_distance, cfg.cache_line_size)); c.input("data", &d); c.set_nontrivial(len >= 1);
            let cls = cfg.cache_line_size;
            // operands aligned to the configured line size but not to 64 bytes, long enough for the "aligned" branch
            let line_lt64 = len >= cls && len > 0 && a1 % cls == 0 && a2 % cls == 0 && (a1 % 64 != 0 || a2 % 64 != 0);
            if line_lt64 { c.tag("cacheline_aligned_not_64_aligned"); }
            let ops = SimdMemOps::with_cache_config(cfg.clone());
            let g = ops.cache_config(); ensure!(g.enable_prefetch == cfg.enable_prefetch && g.prefetch_distance == cfg.prefetch_distance && g.cache_line_size == cfg.cache_line_size && g.access_pattern == cfg.access_pattern, "config_ignored", "with_cache_config: cache_config() differs from the configuration passed in");
            ensure!(ops.tier() == SimdMemOps::new().tier(), "tier_depends_on_cache_config", "tier {:?} vs {:?}", ops.tier(), SimdMemOps::new().tier());
            ensure!(std::ptr::eq(ops.cpu_features(), zipora::system::get_cpu_features()), "tier_unsupported", "SimdMemOps::cpu_features() is not the process-wide feature set");
            chk_copy(c, "SimdMemOps(cfg)::copy_nonoverlapping", &|s, d| ops.copy_nonoverlapping(s, d), &d, p1, p2, true)?;
            chk_copy(c, "SimdMemOps(cfg)::copy_cache_optimized", &|s, d| ops.copy_cache_optimized(s, d), &d, p1, p2, !line_lt64)?;
            if line_lt64 { let src = place(p1, &d); let mut dst = place(p2, &vec![0u8; len]); let r = np("copy_cache_optimized", || ops.copy_cache_optimized(src.s(), dst.m()))?;
                if let Err(e) = r { return Err(bad("cacheopt_copy_refused_line_lt64", format!("copy_cache_optimized(len={len}, src align {a1}, dst align {a2}) with cache_line_size={cls}: Err({e})"))); } c.ev(1); }
            chk_copy(c, "SimdMemOps(cfg)::copy_cache_optimized(aligned)", &|s, d| ops.copy_cache_optimized(s, d), &d, Place::Align(0), Place::Align(0), true)?;
            chk_copy(c, "SimdMemOps(cfg)::copy_aligned", &|s, d| ops.copy_aligned(s, d), &d, Place::Align(0), Place::Align(0), true)?;
            chk_cmp_sign(c, "SimdMemOps(cfg)::compare", &|a, b| ops.compare(a, b), &d, p1, p2, false)?;
            chk_cmp_sign(c, "SimdMemOps(cfg)::compare_cache_optimized", &|a, b| ops.compare_cache_optimized(a, b), &d, p1, p2, false)?;
            chk_find_byte(c, "SimdMemOps(cfg)::find_byte", &|h, n| ops.find_byte(h, n), &d, p1)?;
            let v = c.rng.next() as u8; chk_fill(c, "SimdMemOps(cfg)::fill", &|s, x| ops.fill(s, x), len, p2, v)?;
            // prefetch hints are advisory: harmless on any reference, and they must not change the data
            let m = place(p1, &d);
            np("prefetch", || { ops.prefetch_range(m.s()); for h in [PrefetchHint::T0, PrefetchHint::T1, PrefetchHint::T2, PrefetchHint::NTA] { ops.prefetch(m.s().as_ptr(), h); fast_prefetch(m.s(), h); fast_prefetch(&len, h); fast_prefetch(&d, h); } })?;
            ensure!(m.s() == &d[..] && m.intact(), "copy_src_modified", "prefetch changed the data"); c.ev(1);
            Ok(()) });
    }
}

fn g_gap_strings(ctx: &mut Ctx) {
    use zipora::string::bmi2 as B;
    // ---- hash_map::simd_string_ops global instance == a fresh instance, i.e. the methods the other families check
    for idx in 0..ctx.n(210, 2000) as u64 {
        ctx.case("hmstr/global", "gap_global", idx, |c| { let G = zipora::hash_map::get_global_simd_ops(); // the free functions fast_string_compare / fast_string_hash / extract_string_prefix live in a private module; this is what they forward to
            let n = if idx < 201 { idx as usize } else { BIGLENS[(idx as usize) % BIGLENS.len()] }; let mb = *c.rng.pick(&[0u64, 0, 10, 60]); let s = valid_string(&mut c.rng, n, mb); c.input_str("s", &s); c.set_nontrivial(n >= 1);
            let ops = zipora::hash_map::SimdStringOps::new();
            for base in [0u64, c.rng.next()] { let (g, w) = (np("fast_string_hash(global)", || G.fast_string_hash(&s, base))?, ops.fast_string_hash(&s, base)); ensure!(g == w, "global_wrapper", "fast_string_hash(len {n}, base {base:#x}) = {g:#x}, SimdStringOps::fast_string_hash gives {w:#x}"); c.ev(1); }
            let g = np("extract_string_prefix", || G.extract_prefix_simd(&s))?; ensure!(g == prefix_def(s.as_bytes()), "prefix", "extract_string_prefix(len {n}) = {g:#x} want {:#x}", prefix_def(s.as_bytes())); c.ev(1);
            let mut others = vec![s.clone(), format!("{s}x")];
            let ascii_pos: Vec<usize> = s.bytes().enumerate().filter(|(_, b)| b.is_ascii()).map(|(i, _)| i).collect();
            for _ in 0..6 { if ascii_pos.is_empty() { break; } let p = match c.rng.below(3) { 0 => ascii_pos[0], 1 => *ascii_pos.last().unwrap(), _ => *c.rng.pick(&ascii_pos) }; let mut b = s.clone().into_bytes(); b[p] = if b[p] == b'z' { b'y' } else { b'z' }; others.push(String::from_utf8(b).unwrap()); }
            for o in &others { let want = *o == s; for cp in [0u64, prefix_def(o.as_bytes())] { let g = np("fast_string_compare(global)", || G.fast_string_compare(&s, o, cp))?;
                if g != want { return Err(bad("string_equality", format!("hash_map::fast_string_compare(len {}, len {}, cached_prefix={cp:#x}) = {g}, want {want} (first difference at byte {})", s.len(), o.len(), first_diff(s.as_bytes(), o.as_bytes())))); }
                ensure!(g == ops.fast_string_compare(&s, o, cp), "global_wrapper", "fast_string_compare differs from the instance method"); c.ev(2); } }
            Ok(()) });
    }
    // ---- parse_hex_byte: every pair of bytes, against the digit definition and against hex_decode
    for idx in 0..ctx.n(2, 8) as u64 {
        ctx.case("hex", "gap_parse_byte", idx, |c| { use zipora::string as H; c.input_str("pairs", "all 65536 (high, low) byte pairs"); c.hash_more(&idx.to_le_bytes()); c.nontrivial();
            let nib = |b: u8| -> Option<u8> { match b { b'0'..=b'9' => Some(b - b'0'), b'a'..=b'f' => Some(b - b'a' + 10), b'A'..=b'F' => Some(b - b'A' + 10), _ => None } };
            for hi in 0..=255u8 { for lo in 0..=255u8 { let want = match (nib(hi), nib(lo)) { (Some(h), Some(l)) => Some(h << 4 | l), _ => None }; let g = H::parse_hex_byte(hi, lo); if g != want { return Err(bad("hex_parse_byte", format!("parse_hex_byte({hi:#04x}, {lo:#04x}) = {g:?} want {want:?}"))); } } } c.ev(65536);
            // consistent with the slice decoder on random digit pairs (valid and invalid)
            for _ in 0..400 { let pr = [*c.rng.pick(b"0123456789abcdefABCDEFgG/:@`x \0\xff"), *c.rng.pick(b"0123456789abcdefABCDEFgG/:@`x \0\xff")]; let a = H::parse_hex_byte(pr[0], pr[1]); let b = H::hex_decode_bytes(&pr).ok().map(|v| v[0]); ensure!(a == b, "hex_parse_byte", "parse_hex_byte({:?}) = {a:?} but hex_decode_bytes gives {b:?}", pr); c.ev(1); }
            Ok(()) });
    }
    // ---- StringDictionary::lookup_by_hash: the documented pre-computed hash is the byte-wise rotate/add hash
    for idx in 0..ctx.n(60, 1000) as u64 {
        ctx.case("bmi2/dictionary", "gap_lookup_by_hash", idx, |c| {
            let k = 1 + c.rng.usize_below(12); let mut words: Vec<String> = (0..k).map(|_| { let n = c.rng.usize_below(20); let mb = *c.rng.pick(&[0u64, 0, 50]); valid_string(&mut c.rng, n, mb) }).collect();
            if k >= 2 && c.rng.bool() { let w = words[0].clone(); words.push(w); } // duplicate entry
            c.input_str("words", &words.join("\u{1}")); c.nontrivial();
            let h = |s: &str| s.bytes().fold(0u64, |a, b| a.rotate_left(5).wrapping_add(b as u64));
            let dict = np("StringDictionary::new", || B::StringDictionary::new(words.clone()))?; let pr = B::Bmi2StringProcessor::new();
            for (i, w) in words.iter().enumerate() { let e = np("lookup_by_hash", || dict.lookup_by_hash(h(w)).cloned())?;
                let e = match e { Some(e) => e, None => return Err(bad("dictionary_lookup_hash", format!("lookup_by_hash(hash of entry #{i} {w:?}) = None"))) };
                ensure!(e.hash == h(w) && h(&e.text) == h(w) && words.get(e.index) == Some(&e.text), "dictionary_lookup_hash", "lookup_by_hash(hash of {w:?}) returned entry #{} {:?} with hash {:#x}", e.index, e.text, e.hash);
                if w.len() < 8 { ensure!(pr.hash_string_bmi2(w, 0) == e.hash, "hash_short_input", "hash_string_bmi2({w:?}, 0) differs from the dictionary's pre-computed hash"); } c.ev(1); }
            for _ in 0..8 { let x = c.rng.next(); if words.iter().all(|w| h(w) != x) { ensure!(dict.lookup_by_hash(x).is_none(), "dictionary_lookup_hash", "lookup_by_hash({x:#x}) found an entry for a hash no word has"); c.ev(1); } }
            Ok(()) });
    }
}

fn g_gap_unicode(ctx: &mut Ctx) {
    use zipora::string::{UnicodeProcessor, Utf8ToUtf32Iterator};
    use zipora::string::utils::unicode_utils as UU;
    for idx in 0..ctx.n(300, 6000) as u64 {
        // ---- bidirectional UTF-8 -> UTF-32 iterator against str::chars / char_indices
        ctx.case("unicode/iter", "gap_valid", idx, |c| { let n = (idx % 150) as usize; let mb = *c.rng.pick(&[0u64, 30, 100]); let s = valid_string(&mut c.rng, n, mb); let al = c.rng.usize_below(64); c.input_str("s", &s); c.set_nontrivial(n >= 1);
            let m = ABuf::new(s.as_bytes(), al); let chars: Vec<char> = s.chars().collect(); let bounds: Vec<usize> = s.char_indices().map(|(i, _)| i).chain(std::iter::once(s.len())).collect();
            let mut it = match np("Utf8ToUtf32Iterator::new", || Utf8ToUtf32Iterator::new(m.s()))? { Ok(it) => it, Err(e) => return Err(bad("utf8_decode_rejects_valid", format!("Utf8ToUtf32Iterator::new: valid UTF-8 of len {n} rejected: {e}"))) };
            ensure!(it.byte_position() == 0 && it.current().is_none(), "utf8_iter", "fresh iterator: position {} current {:?}", it.byte_position(), it.current());
            for (k, &ch) in chars.iter().enumerate() { let g = np("next_char", || it.next_char())?; if g != Some(ch) || it.current() != Some(ch) || it.byte_position() != bounds[k + 1] { return Err(bad("utf8_iter", format!("forward step {k}: next_char = {g:?} current = {:?} position = {}; want {ch:?} at {}", it.current(), it.byte_position(), bounds[k + 1]))); } c.ev(1); }
            ensure!(it.next_char().is_none() && it.current().is_none() && it.byte_position() == s.len(), "utf8_iter", "at the end: next_char must be None and the position stay at {}", s.len());
            for k in (0..chars.len()).rev() { let g = np("prev_char", || it.prev_char())?; if g != Some(chars[k]) || it.current() != Some(chars[k]) || it.byte_position() != bounds[k] { return Err(bad("utf8_iter", format!("backward step to char {k}: prev_char = {g:?} position = {}; want {:?} at {}", it.byte_position(), chars[k], bounds[k]))); } c.ev(1); }
            ensure!(it.prev_char().is_none() && it.byte_position() == 0, "utf8_iter", "at the start: prev_char must be None");
            // random walk with resets against an index model
            let mut i = 0usize;
            for step in 0..(3 * chars.len() + 8) { match c.rng.below(9) {
                0..=3 => { let w = if i < chars.len() { i += 1; Some(chars[i - 1]) } else { None }; let g = it.next_char(); ensure!(g == w && it.current() == w, "utf8_iter", "walk step {step}: next_char = {g:?} want {w:?}"); }
                4..=7 => { let w = if i > 0 { i -= 1; Some(chars[i]) } else { None }; let g = it.prev_char(); ensure!(g == w && it.current() == w, "utf8_iter", "walk step {step}: prev_char = {g:?} want {w:?}"); }
                _ => { it.reset(); i = 0; ensure!(it.current().is_none(), "utf8_iter", "current() after reset = {:?}", it.current()); } }
                ensure!(it.byte_position() == bounds[i], "utf8_iter", "walk step {step}: byte_position = {} want {}", it.byte_position(), bounds[i]); c.ev(1); }
            ensure!(m.intact(), "copy_src_modified", "iterator wrote to its input"); Ok(()) });
        ctx.case("unicode/iter", "gap_invalid", idx, |c| { let (name, seq) = BAD_SEQS[(idx as usize) % BAD_SEQS.len()]; let pre = c.rng.usize_below(70); let mb = *c.rng.pick(&[0u64, 50]); let mut v = valid_exact(&mut c.rng, pre, mb); v.extend_from_slice(seq); let suf = c.rng.usize_below(40); v.extend(valid_exact(&mut c.rng, suf, mb));
            c.input("bytes", &v); c.input_str("defect", name); c.nontrivial(); let want = std::str::from_utf8(&v).is_ok();
            let g = np("Utf8ToUtf32Iterator::new", || Utf8ToUtf32Iterator::new(&v).is_ok())?; ensure!(g == want, "utf8_verdict", "Utf8ToUtf32Iterator::new(len {}, {name} at {pre}): accepted = {g}, std says valid = {want}", v.len()); c.ev(1); Ok(()) });
        // ---- analysis counters and the std-backed utilities
        ctx.case("unicode/analyze", "gap_valid", idx, |c| { let n = (idx % 150) as usize; let mb = *c.rng.pick(&[0u64, 0, 30, 100]); let mut s = valid_string(&mut c.rng, n, mb); if c.rng.chance(1, 4) { for ch in ["\t", "\u{7}", "\u{4E2D}", "\u{85}", "A\u{30A}", "\u{130}", "\u{DF}"] { if c.rng.bool() { let b: Vec<usize> = s.char_indices().map(|(i, _)| i).chain(std::iter::once(s.len())).collect(); let p = *c.rng.pick(&b); s.insert_str(p, ch); } } }
            c.input_str("s", &s); c.set_nontrivial(!s.is_empty());
            let a = np("UnicodeProcessor::analyze", || UnicodeProcessor::new().analyze(&s))?; let nch = s.chars().count(); let nas = s.chars().filter(|x| x.is_ascii()).count();
            ensure!(a.char_count == nch && a.byte_count == s.len() && a.ascii_count == nas, "utf8_count", "analyze(len {}): chars {} bytes {} ascii {}; std says {nch} / {} / {nas}", s.len(), a.char_count, a.byte_count, a.ascii_count, s.len());
            ensure!(a.basic_latin == nas && a.basic_latin + a.latin_supplement + a.extended_latin + a.other_unicode == nch, "utf8_count", "analyze: block counts {}+{}+{}+{} do not add up to {nch} characters", a.basic_latin, a.latin_supplement, a.extended_latin, a.other_unicode);
            ensure!(a.is_ascii() == s.is_ascii(), "utf8_count", "UnicodeAnalysis::is_ascii() = {} but str::is_ascii() = {}", a.is_ascii(), s.is_ascii());
            let avg = a.avg_bytes_per_char(); let wavg = if nch == 0 { 0.0 } else { s.len() as f64 / nch as f64 }; ensure!((avg - wavg).abs() < 1e-9, "utf8_count", "avg_bytes_per_char = {avg} want {wavg}");
            let cs = a.complexity_score(); ensure!(cs >= 0.0 && cs <= 1.0 + 1e-9 && (!s.is_ascii() || cs == 0.0), "utf8_count", "complexity_score = {cs} (documented range 0.0 = ASCII .. 1.0)"); c.ev(5);
            let g = np("extract_codepoints", || UU::extract_codepoints(&s))?; ensure!(g == s.chars().map(|x| x as u32).collect::<Vec<u32>>(), "utf8_decode_mismatch", "extract_codepoints(len {}): {} code points, std gives {nch}", s.len(), g.len());
            ensure!(np("to_lowercase_unicode", || UU::to_lowercase_unicode(&s))? == s.to_lowercase() && np("to_uppercase_unicode", || UU::to_uppercase_unicode(&s))? == s.to_uppercase(), "unicode_case", "to_lowercase_unicode / to_uppercase_unicode differ from std for {s:?}"); c.ev(3);
            // processor: no option = identity; case folding of ASCII is ASCII lower-casing; everything the docs leave open is only noted
            let p0 = np("UnicodeProcessor::process", || UnicodeProcessor::new().process(&s))?.map_err(|e| bad("unicode_process_err", e.to_string()))?; ensure!(p0 == s, "unicode_process", "process() with no option enabled changed the string");
            let p1 = UnicodeProcessor::new().with_case_folding(true).process(&s).map_err(|e| bad("unicode_process_err", e.to_string()))?; if s.is_ascii() { ensure!(p1 == s.to_ascii_lowercase(), "unicode_process", "case folding of ASCII text {s:?} gave {p1:?}"); } else if p1 != s.to_lowercase() { c.note("casefold_differs_from_to_lowercase", 1); }
            let p2 = UnicodeProcessor::new().with_normalization(true).with_case_folding(false).process(&s).map_err(|e| bad("unicode_process_err", e.to_string()))?; if s.is_ascii() { ensure!(p2 == s, "unicode_process", "normalisation changed ASCII text"); } else if p2 != s { c.note("normalization_changed_text", 1); } c.ev(3);
            // display width / printability: only the unambiguous cases are asserted
            let ctl = s.chars().any(|x| x.is_control()); let ctl_other = s.chars().any(|x| x.is_control() && !matches!(x, '\t' | '\n' | '\r'));
            let pr = np("is_printable", || UU::is_printable(&s))?; if !ctl { ensure!(pr, "unicode_printable", "is_printable = false for text without control characters"); } else if ctl_other { ensure!(!pr, "unicode_printable", "is_printable = true for text with a control character other than TAB/LF/CR"); } else { c.note(if pr { "tab_lf_cr_printable" } else { "tab_lf_cr_not_printable" }, 1); }
            let w = np("display_width", || UU::display_width(&s))?; if s.is_ascii() && !ctl { ensure!(w == s.len(), "unicode_width", "display_width of printable ASCII (len {}) = {w}", s.len()); } else { ensure!(w <= 2 * nch, "unicode_width", "display_width {w} > 2 x {nch} characters"); } c.ev(2);
            Ok(()) });
    }
}

fn g_gap_codec_bits(ctx: &mut Ctx) {
    use zipora::system::base64 as SB;
    use zipora::entropy::bit_ops::*;
    // ---- default-constructed Base64 codecs (SimdBase64Decoder::new, Default impls) == RFC 4648 standard alphabet with padding
    for idx in 0..ctx.n(210, 2000) as u64 {
        ctx.case("b64/system", "gap_default", idx, |c| { let n = if idx < 201 { idx as usize } else { BIGLENS[(idx as usize) % BIGLENS.len()] }; let kind = byte_kind(&mut c.rng); let d = gen::bytes_kind(&mut c.rng, kind, n); let al = c.rng.usize_below(64); c.input("data", &d); c.set_nontrivial(n >= 1);
            let m = ABuf::new(&d, al); let want = b64_def(&d, false, true);
            let dec = np("SimdBase64Decoder::new", || SB::SimdBase64Decoder::new().decode(&want))?.map_err(|e| bad("b64_decode_err", format!("SimdBase64Decoder::new() rejects the canonical encoding of len {n}: {e}")))?; ensure!(dec == d, "b64_roundtrip", "SimdBase64Decoder::new().decode len={n}");
            let dec = SB::SimdBase64Decoder::default().decode(&want).map_err(|e| bad("b64_decode_err", e.to_string()))?; ensure!(dec == d, "b64_roundtrip", "SimdBase64Decoder::default().decode len={n}");
            ensure!(SB::SimdBase64Encoder::default().encode(m.s()) == want && SB::AdaptiveBase64::default().encode(m.s()) == want, "b64_encode", "Default codecs len={n}");
            let a = SB::AdaptiveBase64::new(); c.note(&format!("impl:{:?}", a.selected_implementation()), 1);
            if !want.is_empty() { let mut w = want.clone().into_bytes(); let i = c.rng.usize_below(w.len()); w[i] = *c.rng.pick(b"!*-_ \n~"); let s = String::from_utf8(w).unwrap(); ensure!(SB::SimdBase64Decoder::new().decode(&s).is_err(), "b64_accepts_invalid", "SimdBase64Decoder::new() accepted {:?}", &s[..s.len().min(40)]); }
            c.ev(4); Ok(()) });
    }
    // ---- EntropyBitOps::pack_bits (in-range fields) and the accessors of the configured instances
    for idx in 0..ctx.n(60, 1500) as u64 {
        ctx.case("bitops/entropy", "gap_pack_bits", idx, |c| { c.hash_more(&idx.to_le_bytes()); c.nontrivial();
            let sw_cfg = BitOpsConfig { enable_bmi2: false, enable_avx2: false, enable_popcnt: false, software_fallback: true, ..BitOpsConfig::default() };
            let (hw, sw) = (EntropyBitOps::new(), EntropyBitOps::with_config(sw_cfg.clone()));
            ensure!(!sw.bit_ops().config().enable_bmi2 && !sw.bit_ops().has_bmi2() && sw.bit_ops().config().software_fallback, "config_ignored", "EntropyBitOps::with_config: bit_ops().config() does not reflect the configuration");
            let f = zipora::system::get_cpu_features(); ensure!(hw.bit_ops().features().has_bmi2 == f.has_bmi2 && hw.bit_ops().features().has_avx2 == f.has_avx2 && hw.bit_ops().features().has_popcnt == f.has_popcnt, "tier_unsupported", "BitOps::features() differs from get_cpu_features()");
            for _ in 0..64 {
                let width = match c.rng.below(4) { 0 => 32, 1 => 1, _ => c.rng.below(33) as u32 }; let offset = c.rng.below((64 - width + 1) as u64) as u32; let value = word(&mut c.rng) as u32; let s0 = if c.rng.bool() { 0 } else { word(&mut c.rng) };
                let mask = if width == 32 { 0xFFFF_FFFFu64 } else { (1u64 << width) - 1 }; let want = if width == 0 { s0 } else { s0 | ((value as u64 & mask) << (64 - offset - width)) };
                for (label, e) in [("default", &hw), ("software", &sw)] { let mut st = s0; let r = np("pack_bits", || e.pack_bits(&mut st, value, offset, width))?; if let Err(er) = r { return Err(bad("pack_bits", format!("EntropyBitOps({label})::pack_bits(offset {offset}, width {width}) refused an in-range field: {er}"))); }
                    ensure!(st == want, "pack_bits", "EntropyBitOps({label})::pack_bits({s0:#x}, {value:#x}, offset {offset}, width {width}) = {st:#x} want {want:#x}"); c.ev(1); }
                // the instance returned by bit_ops() computes the same functions
                let x = word(&mut c.rng); ensure!(hw.bit_ops().popcount64(x) == popc_def(x) && sw.bit_ops().popcount64(x) == popc_def(x) && sw.bit_ops().reverse_bits64(x) == rev_def(x, 64), "popcount", "EntropyBitOps::bit_ops() popcount64/reverse_bits64({x:#x})"); c.ev(1);
            }
            // parameters the function documents as invalid must come back as Err; offset + width > 64 with offset <= 64 is not documented -> note only
            let mut st = 0u64; ensure!(hw.pack_bits(&mut st, 1, 0, 33).is_err() && hw.pack_bits(&mut st, 1, 65, 1).is_err() && st == 0, "pack_bits", "width 33 / offset 65 accepted");
            let (o, w) = (40 + c.rng.below(25) as u32, 1 + c.rng.below(32) as u32); if o + w > 64 { match catch(|| { let mut st = 0u64; hw.pack_bits(&mut st, u32::MAX, o, w).map(|_| st) }) { Err(_) => c.note("pack_bits_field_past_bit64_panics", 1), Ok(Err(_)) => c.note("pack_bits_field_past_bit64_err", 1), Ok(Ok(_)) => c.note("pack_bits_field_past_bit64_ok", 1) } }
            // dispatcher report reflects its configuration
            let off = BitOpsConfig { enable_compression_optimizations: false, enable_entropy_acceleration: false, enable_variable_length_decoding: false, ..sw_cfg.clone() };
            let r = np("optimization_report", || CompressionBmi2Dispatcher::with_config(off).optimization_report())?; ensure!(!r.entropy_acceleration && !r.variable_length_acceleration && !r.compression_optimization, "config_ignored", "optimization_report of a dispatcher with every acceleration disabled: {r:?}"); c.ev(1);
            Ok(()) });
    }
}

fn g_gap_selection(ctx: &mut Ctx) {
    use zipora::simd::adaptive::{AdaptiveSelectorConfig, SelectionThresholds};
    use zipora::simd::{AdaptiveSimdSelector, Operation, SimdImpl};
    use zipora::system::cpu_features as F;
    const OPS: &[Operation] = &[Operation::Rank, Operation::Select, Operation::Popcount, Operation::Search, Operation::Hash, Operation::StringSearch, Operation::BitManip, Operation::MemZero, Operation::Copy, Operation::Utf8Validation, Operation::Encode, Operation::Decode];
    for idx in 0..ctx.n(60, 1500) as u64 {
        // ---- custom selector configuration / thresholds: still a supported implementation, stable, threshold change takes effect
        ctx.case("adaptive/select", "gap_cfg", idx, |c| { c.hash_more(&idx.to_le_bytes()); c.nontrivial(); let f = zipora::system::get_cpu_features();
            let supported = |a: SimdImpl| match a { SimdImpl::Avx512 => f.has_avx512f && f.has_avx512bw && f.has_avx512vl, SimdImpl::Avx2 => f.has_avx2, SimdImpl::Bmi2 => f.has_bmi2, SimdImpl::Sse42 => f.has_sse42, SimdImpl::Neon => f.has_neon, SimdImpl::Sse2 | SimdImpl::Scalar => true };
            let cfg = AdaptiveSelectorConfig { enable_startup_benchmarks: false, enable_monitoring: c.rng.bool(), enable_adaptation: c.rng.bool(), max_cache_entries: *c.rng.pick(&[1024usize, 4096, 1 << 20]) /* a full cache is the gap_evict family */, ..AdaptiveSelectorConfig::default() };
            let mk_t = |r: &mut Rng| { let mut v: Vec<usize> = (0..4).map(|_| match r.below(4) { 0 => 0, 1 => r.usize_below(70), 2 => 1usize << r.below(24), _ => r.usize_below(5000) }).collect(); v.sort(); SelectionThresholds { sse2_min_size: v[0], bmi2_min_size: v[1], avx2_min_size: v[2], avx512_min_size: v[3], ..SelectionThresholds::default() } };
            let t = mk_t(&mut c.rng); c.input_str("cfg", &format!("cache={} thresholds sse2>={} bmi2>={} avx2>={} avx512>={}", cfg.max_cache_entries, t.sse2_min_size, t.bmi2_min_size, t.avx2_min_size, t.avx512_min_size));
            let mut sel = np("AdaptiveSimdSelector::with_config", || AdaptiveSimdSelector::with_config(cfg.clone()))?;
            ensure!(sel.hardware_tier() == AdaptiveSimdSelector::new().hardware_tier() && std::ptr::eq(sel.cpu_features() as *const _ as *const u8, f as *const _ as *const u8) || sel.cpu_features().has_avx2 == f.has_avx2, "tier_unsupported", "with_config: hardware tier / features differ from the defaults");
            let mut asked = vec![];
            for _ in 0..12 { let op = *c.rng.pick(OPS); let size = match c.rng.below(3) { 0 => c.rng.usize_below(130), 1 => 1usize << c.rng.below(24), _ => c.rng.usize_below(6000) }; let dens = match c.rng.below(3) { 0 => None, 1 => Some(c.rng.f64()), _ => Some(*c.rng.pick(&[0.0, 0.05, 0.5, 0.95, 1.0])) };
                let a = np("select_optimal_impl", || sel.select_optimal_impl(op, size, dens))?; ensure!(supported(a), "selector_unsupported_impl", "with_config selector: select_optimal_impl({op:?},{size},{dens:?}) = {a:?} not in the feature set"); ensure!(sel.select_optimal_impl(op, size, dens) == a, "selector_unstable", "select_optimal_impl({op:?},{size},{dens:?}) changed on repetition"); asked.push((op, size, dens)); c.ev(2); }
            np("set_thresholds", || sel.set_thresholds(t.clone()))?;
            let g = sel.thresholds(); ensure!(g.avx512_min_size == t.avx512_min_size && g.avx2_min_size == t.avx2_min_size && g.bmi2_min_size == t.bmi2_min_size && g.sse2_min_size == t.sse2_min_size, "config_ignored", "thresholds() after set_thresholds");
            // every earlier question again: the answer must be the one a fresh selector with these thresholds gives (no stale cache entry)
            // (decisions are cached per (operation, size bucket, density bucket) by design: only the first question of each bucket is repeated)
            let mut seen = std::collections::HashSet::new(); asked.retain(|&(op, size, dens)| seen.insert(zipora::simd::SelectionKey::new(op, size, dens)));
            for (op, size, dens) in asked { let mut fresh = AdaptiveSimdSelector::with_config(cfg.clone()); fresh.set_thresholds(t.clone()); let (a, w) = (sel.select_optimal_impl(op, size, dens), fresh.select_optimal_impl(op, size, dens));
                ensure!(a == w, "selector_stale_cache", "after set_thresholds select_optimal_impl({op:?},{size},{dens:?}) = {a:?}, a fresh selector with the same thresholds says {w:?}"); ensure!(supported(a), "selector_unsupported_impl", "{a:?} not in the feature set");
                // documented meaning of the thresholds ("minimum size for X") on an uncached, density-free question
                if dens.is_none() { let min = match w { SimdImpl::Avx512 => t.avx512_min_size, SimdImpl::Avx2 => t.avx2_min_size, SimdImpl::Bmi2 => t.bmi2_min_size, SimdImpl::Sse2 => t.sse2_min_size, _ => 0 }; ensure!(size >= min, "selector_below_min_size", "fresh selector: select_optimal_impl({op:?},{size},None) = {w:?} although its minimum size is {min}"); }
                c.ev(2); }
            Ok(()) });
        // ---- feature -> variant tables on synthetic feature sets: never name an instruction set the features lack
        ctx.case("dispatch/strategy", "gap_synth", idx, |c| { c.nontrivial(); let mut f = F::CpuFeatures::new(); let bits = if idx < 4 { [0u64, u64::MAX, 0x5555_5555, 0xAAAA_AAAA][idx as usize] } else { c.rng.next() & c.rng.next() | if c.rng.bool() { c.rng.next() } else { 0 } }; let b = |i: u32| bits >> i & 1 == 1;
            f.has_sse41 = b(0); f.has_sse42 = b(1); f.has_avx = b(2); f.has_avx2 = b(3); f.has_avx512f = b(4); f.has_avx512vl = b(5); f.has_avx512bw = b(6); f.has_avx512vpopcntdq = b(7); f.has_bmi1 = b(8); f.has_bmi2 = b(9); f.has_popcnt = b(10); f.has_lzcnt = b(11); f.has_tzcnt = b(12); f.has_prefetchw = b(13); f.has_neon = b(14); f.has_crc32 = b(15);
            c.input_str("features", &format!("{:#06x}", bits & 0xFFFF)); np("detect_and_configure_simd", || f.detect_and_configure_simd())?;
            let rs = f.optimal_rank_select_variant(); ensure!(match rs { "avx512_popcnt" => f.has_avx512f && f.has_avx512bw && f.has_avx512vpopcntdq, "bmi2_avx2" => f.has_bmi2 && f.has_avx2, "avx2" => f.has_avx2, "bmi2" => f.has_bmi2, "popcnt" => f.has_popcnt, "neon" => f.has_neon, "scalar" => true, _ => false }, "variant_unsupported", "optimal_rank_select_variant = {rs:?} for features {:#06x}", bits & 0xFFFF);
            let ss = f.optimal_string_search_variant(); ensure!(match ss { "sse42_pcmpestri" => f.has_sse42, "avx2_search" => f.has_avx2, "neon_search" => f.has_neon, "scalar" => true, _ => false }, "variant_unsupported", "optimal_string_search_variant = {ss:?} for features {:#06x}", bits & 0xFFFF);
            let mc = f.optimal_memcpy_variant(); ensure!(match mc { "avx512_memcpy" => f.has_avx512f, "avx2_memcpy" => f.has_avx2, "neon_memcpy" => f.has_neon, "scalar_memcpy" => true, _ => false }, "variant_unsupported", "optimal_memcpy_variant = {mc:?} for features {:#06x}", bits & 0xFFFF);
            let b6 = f.optimal_base64_variant(); ensure!(match b6 { "avx2" => f.has_avx2, "sse42" => f.has_sse42, "neon" => f.has_neon, "scalar" => true, _ => false }, "variant_unsupported", "optimal_base64_variant = {b6:?} for features {:#06x}", bits & 0xFFFF);
            let ra = f.recommended_alignment(); ensure!(ra.is_power_of_two() && (ra < 64 || f.has_avx512f) && (ra < 32 || f.has_avx2 || f.has_avx512f), "variant_unsupported", "recommended_alignment = {ra} for features {:#06x}", bits & 0xFFFF);
            let ch = f.recommended_chunk_size(); ensure!(ch.is_power_of_two() && ch >= 4096, "variant_unsupported", "recommended_chunk_size = {ch}"); let _ = (f.should_use_prefetch(), f.has_optimal_memory_access());
            for (ft, w) in [(F::CpuFeature::SSE4_1, f.has_sse41), (F::CpuFeature::SSE4_2, f.has_sse42), (F::CpuFeature::AVX, f.has_avx), (F::CpuFeature::AVX2, f.has_avx2), (F::CpuFeature::BMI1, f.has_bmi1), (F::CpuFeature::BMI2, f.has_bmi2), (F::CpuFeature::POPCNT, f.has_popcnt), (F::CpuFeature::LZCNT, f.has_lzcnt), (F::CpuFeature::TZCNT, f.has_tzcnt), (F::CpuFeature::AVX512F, f.has_avx512f), (F::CpuFeature::AVX512VL, f.has_avx512vl), (F::CpuFeature::AVX512BW, f.has_avx512bw), (F::CpuFeature::AVX512VPOPCNTDQ, f.has_avx512vpopcntdq), (F::CpuFeature::NEON, f.has_neon)] { ensure!(f.has_feature(ft) == w, "feature_query", "CpuFeatures::has_feature({ft:?}) = {} but the field is {w}", f.has_feature(ft)); c.ev(1); }
            // legacy map-based set
            let mut map = std::collections::HashMap::new(); for (i, ft) in [F::CpuFeature::SSE2, F::CpuFeature::SSE4_2, F::CpuFeature::AVX2, F::CpuFeature::BMI2, F::CpuFeature::POPCNT, F::CpuFeature::AVX512F, F::CpuFeature::AVX512BW, F::CpuFeature::NEON, F::CpuFeature::UnalignedAccess].into_iter().enumerate() { match (bits >> (20 + 2 * i)) & 3 { 0 => {} 1 => { map.insert(ft, false); } _ => { map.insert(ft, true); } } }
            let set = F::CpuFeatureSet { features: map.clone(), vendor: String::new(), model: String::new(), logical_cores: 1, physical_cores: 1, cache_line_size: if b(40) { 64 } else { 32 }, l1_cache_size: 32768, l2_cache_size: 262144, l3_cache_size: 8 << 20, simd_tier: 0 };
            let has = |ft: F::CpuFeature| map.get(&ft).copied().unwrap_or(false);
            for ft in [F::CpuFeature::SSE2, F::CpuFeature::SSE4_2, F::CpuFeature::AVX2, F::CpuFeature::BMI2, F::CpuFeature::POPCNT, F::CpuFeature::AVX512F, F::CpuFeature::AVX512BW, F::CpuFeature::NEON, F::CpuFeature::AES] { ensure!(set.has_feature(ft) == has(ft), "feature_query", "CpuFeatureSet::has_feature({ft:?})"); }
            let rs = set.optimal_rank_select_variant(); ensure!(match rs { "avx512" => has(F::CpuFeature::AVX512F) && has(F::CpuFeature::AVX512BW), "bmi2_avx2" => has(F::CpuFeature::BMI2) && has(F::CpuFeature::AVX2), "avx2" => has(F::CpuFeature::AVX2), "popcnt" => has(F::CpuFeature::POPCNT), "neon" => has(F::CpuFeature::NEON), "scalar" => true, _ => false }, "variant_unsupported", "CpuFeatureSet::optimal_rank_select_variant = {rs:?}");
            let b6 = set.optimal_base64_variant(); ensure!(match b6 { "avx2" => has(F::CpuFeature::AVX2), "sse42" => has(F::CpuFeature::SSE4_2), "neon" => has(F::CpuFeature::NEON), "scalar" => true, _ => false }, "variant_unsupported", "CpuFeatureSet::optimal_base64_variant = {b6:?}");
            let st = set.get_simd_tier(); ensure!(match st { 4 => has(F::CpuFeature::AVX512F), 3 => has(F::CpuFeature::BMI2) && has(F::CpuFeature::AVX2), 2 => has(F::CpuFeature::AVX2), 1 => has(F::CpuFeature::POPCNT) || has(F::CpuFeature::NEON), 0 => true, _ => false }, "variant_unsupported", "CpuFeatureSet::get_simd_tier = {st}");
            let ra = set.recommended_alignment(); ensure!(ra.is_power_of_two() && (ra < 64 || has(F::CpuFeature::AVX512F)) && (ra < 32 || has(F::CpuFeature::AVX2) || has(F::CpuFeature::AVX512F)), "variant_unsupported", "CpuFeatureSet::recommended_alignment = {ra}"); let _ = set.has_optimal_memory_access();
            c.ev(10); Ok(()) });
    }
    // ---- the process-wide feature set seen through every accessor
    ctx.case("dispatch/strategy", "gap_global", 0, |c| { c.nontrivial(); let f = zipora::system::get_cpu_features(); c.input_str("features", &format!("sse42={} avx2={} bmi2={} popcnt={} avx512f={}", f.has_sse42, f.has_avx2, f.has_bmi2, f.has_popcnt, f.has_avx512f));
        ensure!(std::ptr::eq(F::detect_and_configure_simd(), f), "feature_query", "detect_and_configure_simd() is not get_cpu_features()");
        for (ft, w) in [(F::CpuFeature::SSE4_2, f.has_sse42), (F::CpuFeature::AVX2, f.has_avx2), (F::CpuFeature::BMI2, f.has_bmi2), (F::CpuFeature::POPCNT, f.has_popcnt), (F::CpuFeature::AVX512F, f.has_avx512f), (F::CpuFeature::AVX512BW, f.has_avx512bw), (F::CpuFeature::NEON, f.has_neon)] { ensure!(F::has_cpu_feature(ft) == w, "feature_query", "has_cpu_feature({ft:?}) = {} but get_cpu_features() says {w}", F::has_cpu_feature(ft)); c.ev(1); }
        let s = np("get_optimal_simd_strategy", || F::get_optimal_simd_strategy())?;
        ensure!(s.rank_select_variant == f.optimal_rank_select_variant() && s.string_search_variant == f.optimal_string_search_variant() && s.memcpy_variant == f.optimal_memcpy_variant() && s.chunk_size == f.recommended_chunk_size() && s.alignment == f.recommended_alignment() && s.use_prefetch == f.should_use_prefetch() && s.optimization_tier == f.optimization_tier, "feature_query", "get_optimal_simd_strategy() differs from the per-field getters");
        ensure!(match s.memcpy_variant { "avx512_memcpy" => f.has_avx512f, "avx2_memcpy" => f.has_avx2, "neon_memcpy" => f.has_neon, _ => true } && match s.string_search_variant { "sse42_pcmpestri" => f.has_sse42, "avx2_search" => f.has_avx2, "neon_search" => f.has_neon, _ => true }, "variant_unsupported", "strategy {:?}/{:?} not backed by the (possibly forced) feature set", s.memcpy_variant, s.string_search_variant);
        // the per-object accessors show the same (possibly forced) feature set
        let u = zipora::io::simd_validation::utf8::Utf8Validator::new_unmonitored(); ensure!(u.cpu_features().has_avx2 == f.has_avx2 && u.cpu_features().has_sse42 == f.has_sse42, "tier_unsupported", "Utf8Validator::cpu_features()");
        let p = zipora::string::bmi2::Bmi2StringProcessor::new(); ensure!(p.capabilities().has_bmi2 == p.is_bmi2_available(), "tier_unsupported", "Bmi2StringProcessor::capabilities()");
        let sel = AdaptiveSimdSelector::new(); ensure!(sel.cpu_features().has_avx2 == f.has_avx2 && sel.cpu_features().has_bmi2 == f.has_bmi2, "tier_unsupported", "AdaptiveSimdSelector::cpu_features()"); let t = sel.thresholds(); ensure!(t.sse2_min_size <= t.avx2_min_size && t.avx2_min_size <= t.avx512_min_size, "feature_query", "default thresholds not ordered");
        c.ev(6); Ok(()) });
}


/// Run `f` on a helper thread. `Err(Some(d))`: no answer within 1.5 s AND the helper thread is asleep with no CPU time and no
/// context switch over the following 0.5 s (it is blocked for good: the state predicate, not the delay, is the verdict; the thread
/// is leaked). `Err(None)`: no answer but the thread is still doing something (undecided).
#[cfg(not(miri))]
fn run_or_blocked<T: Send + 'static>(f: impl FnOnce() -> T + Send + 'static) -> Result<Result<T, String>, Option<String>> {
    use std::sync::mpsc; use std::time::Duration;
    let (tx, rx) = mpsc::channel::<Result<T, String>>(); let (ttx, trx) = mpsc::channel::<u64>();
    let h = std::thread::Builder::new().name("c14-select".into()).spawn(move || { let _ = ttx.send(unsafe { libc::syscall(libc::SYS_gettid) } as u64);
        let r = std::panic::catch_unwind(std::panic::AssertUnwindSafe(f)).map_err(|e| e.downcast_ref::<String>().cloned().or_else(|| e.downcast_ref::<&str>().map(|s| s.to_string())).unwrap_or_else(|| "panic".into())); let _ = tx.send(r); });
    if h.is_err() { return Err(None); }
    let tid = match trx.recv_timeout(Duration::from_secs(5)) { Ok(t) => t, Err(_) => return Err(None) };
    match rx.recv_timeout(Duration::from_millis(1500)) { Ok(r) => return Ok(r), Err(mpsc::RecvTimeoutError::Disconnected) => return Err(None), Err(_) => {} }
    let snap = || -> Option<(char, u64, u64)> { let stat = std::fs::read_to_string(format!("/proc/self/task/{tid}/stat")).ok()?; let rest = &stat[stat.rfind(')')? + 2..]; let f: Vec<&str> = rest.split(' ').collect(); let cpu = f.get(11)?.parse::<u64>().ok()? + f.get(12)?.parse::<u64>().ok()?;
        let status = std::fs::read_to_string(format!("/proc/self/task/{tid}/status")).ok()?; let mut cs = 0u64; for l in status.lines() { if l.starts_with("voluntary_ctxt_switches") || l.starts_with("nonvoluntary_ctxt_switches") { cs += l.split_whitespace().last()?.parse::<u64>().ok()?; } } Some((f.first()?.chars().next()?, cpu, cs)) };
    let a = snap(); for _ in 0..2 { std::thread::sleep(Duration::from_millis(250)); if let Ok(r) = rx.try_recv() { return Ok(r); } if snap() != a { return Err(None); } }
    match a { Some(('S', cpu, cs)) => Err(Some(format!("helper thread asleep, cpu ticks {cpu} and context switches {cs} unchanged over 0.5 s"))), _ => Err(None) }
}

/// selection cache at capacity: the next distinct (operation, size bucket, density bucket) question has to evict an entry
#[cfg(not(miri))]
fn g_gap_evict(ctx: &mut Ctx) {
    use zipora::simd::adaptive::AdaptiveSelectorConfig;
    use zipora::simd::{AdaptiveSimdSelector, Operation, SimdImpl};
    const OPS: &[Operation] = &[Operation::Rank, Operation::Select, Operation::Popcount, Operation::Search, Operation::Hash, Operation::StringSearch, Operation::BitManip, Operation::MemZero, Operation::Copy, Operation::Utf8Validation, Operation::Encode, Operation::Decode];
    for idx in 0..ctx.n(5, 20) as u64 {
        ctx.case("adaptive/select", "gap_evict", idx, |c| { c.tag("selection_cache_full"); c.nontrivial();
            let cap = [0usize, 1, 2, 5, 1024][(idx % 5) as usize]; c.input_str("cfg", &format!("max_cache_entries={cap}"));
            // distinct cache keys: every (operation, size bucket) and, for the default capacity, enough density buckets to pass 1024
            let mut qs: Vec<(Operation, usize, Option<f64>)> = vec![]; for &op in OPS { for sz in [10usize, 100, 500, 2000, 100_000] { qs.push((op, sz + c.rng.usize_below(20), None)); } }
            if cap >= 1024 { for k in 0..20u32 { for &op in OPS { for sz in [10usize, 100, 500, 2000, 100_000] { qs.push((op, sz, Some((k as f64 * 12.0 + 3.0) / 255.0))); } } } }
            c.rng.shuffle(&mut qs); let nq = qs.len(); c.hash_more(&(nq as u64).to_le_bytes());
            let f = zipora::system::get_cpu_features();
            let r = run_or_blocked(move || { let cfg = AdaptiveSelectorConfig { enable_startup_benchmarks: false, max_cache_entries: cap, ..AdaptiveSelectorConfig::default() }; let sel = AdaptiveSimdSelector::with_config(cfg.clone());
                let mut out = Vec::with_capacity(qs.len()); for &(op, sz, d) in &qs { let a = sel.select_optimal_impl(op, sz, d); let mut fresh = AdaptiveSimdSelector::with_config(AdaptiveSelectorConfig { max_cache_entries: 1 << 20, ..cfg.clone() }); let _ = &mut fresh; out.push((op, sz, d, a, fresh.select_optimal_impl(op, sz, d))); } out });
            match r {
                Err(Some(d)) => Err(bad("selector_deadlock_cache_full", format!("select_optimal_impl never returns once the selection cache holds max_cache_entries={cap} entries and a new key arrives ({nq} distinct keys asked): {d}"))),
                Err(None) => crate::ctx::inconclusive("selection thread neither answered nor provably blocked"),
                Ok(Err(p)) => Err(bad("selector_panic", format!("select_optimal_impl with max_cache_entries={cap}: panic: {p}"))),
                Ok(Ok(out)) => { for (op, sz, d, a, w) in out { let ok = match a { SimdImpl::Avx512 => f.has_avx512f && f.has_avx512bw && f.has_avx512vl, SimdImpl::Avx2 => f.has_avx2, SimdImpl::Bmi2 => f.has_bmi2, SimdImpl::Sse42 => f.has_sse42, SimdImpl::Neon => f.has_neon, SimdImpl::Sse2 | SimdImpl::Scalar => true };
                        ensure!(ok, "selector_unsupported_impl", "full cache: select_optimal_impl({op:?},{sz},{d:?}) = {a:?} not in the feature set"); ensure!(a == w, "selector_stale_cache", "full cache (capacity {cap}): select_optimal_impl({op:?},{sz},{d:?}) = {a:?}, an uncached selector says {w:?}"); c.ev(2); } Ok(()) }
            } });
    }
}

fn g_gap(ctx: &mut Ctx) {
    if cfg!(miri) { return; }
    g_gap_memops(ctx);
    g_gap_strings(ctx);
    g_gap_unicode(ctx);
    g_gap_codec_bits(ctx);
    g_gap_selection(ctx);
    #[cfg(not(miri))] g_gap_evict(ctx);
}

pub fn run(ctx: &mut Ctx) {
    g_memops(ctx);
    g_iocopy(ctx);
    g_iosearch(ctx);
    g_strsearch(ctx);
    g_utf8(ctx);
    g_crc(ctx);
    g_codec(ctx);
    g_bitops(ctx);
    g_hmstr(ctx);
    g_bmi2x(ctx);
    g_adaptive(ctx);
    if !cfg!(miri) { g_huge_bytes(ctx); g_huge_sizes(ctx); g_huge_mib(ctx); }
    g_gap(ctx);
}
