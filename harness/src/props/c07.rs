//! C07 — live allocations from any pool never overlap, keep their contents, are aligned, lie inside the pool's
//! memory; over-capacity requests are refused with Err; validated bad frees are reported and leave the pool usable.
//! SEQUENTIAL driver (the concurrent version is C08).  Oracle: shadow interval map (mon::Shadow) of live ranges +
//! per-allocation fill pattern; exact offset model for the bump allocators; documented capacities for bounds.
//! No H2 hooks are used (free-list walks are not available to this driver).
use crate::ctx::{catch, take_panic, Case, Ctx, Fail, PanicInfo, Res};
use crate::mon::Shadow;
use crate::rng::Rng;
use std::collections::HashMap;
use std::ptr::NonNull;
use std::sync::Arc;
use zipora::memory::bump::BumpVec;
use zipora::memory::fixed_capacity_pool::*;
use zipora::memory::five_level_pool::*;
use zipora::memory::lockfree_pool::*;
use zipora::memory::threadlocal_pool::*;
use zipora::memory::*;

fn bad(oracle: &str, d: String) -> Fail { Fail { oracle: oracle.to_string(), detail: d } }
fn pfail(what: &str, p: PanicInfo) -> Fail { Fail { oracle: p.class(), detail: format!("{what}: panic at {}: {}", p.loc, p.msg) } }

// ------------------------------------------------------------------------------------------------
// operations / histories
// ------------------------------------------------------------------------------------------------
#[derive(Clone, Copy, Debug, PartialEq)]
pub enum Op {
    /// allocate(size, align) — align is only meaningful for pools whose API takes one
    A(usize, usize),
    /// free the (k mod live)-th live block (insertion order)
    F(u32),
    FNew,
    FOld,
    FAll,
    /// allocate `size` until the pool refuses or `max` blocks were obtained
    Fill(usize, u32),
    /// like Fill, but the number of blocks obtained must be >= the number obtained by the previous Fill of that size
    Refill(usize, u32),
    /// request that exceeds the documented capacity: must be refused with Err
    Refuse(usize),
    /// free a pointer into the harness's own heap with this size: must be refused with Err
    Foreign(usize),
    /// verify every live block + the pool's own integrity check
    V,
    // ---- compact ops of the huge_ families (histories with > 10^5 operations stay printable) ----
    /// allocate `n` blocks, the i-th with size sizes[i % 4]
    AMany(u32, [u32; 4]),
    /// `n` frees of pseudo-randomly chosen live blocks (swap_remove order, LCG seeded with `seed`)
    FMany(u32, u32),
    /// free every live block, newest first / oldest first (linear time)
    FAllLifo,
    FAllFifo,
}
fn ops_str(ops: &[Op]) -> String {
    let mut s = String::new();
    for o in ops {
        match *o {
            Op::A(n, 0) => s += &format!("a{n} "), Op::A(n, a) => s += &format!("a{n}/{a} "), Op::F(k) => s += &format!("f{k} "), Op::FNew => s += "fn ", Op::FOld => s += "fo ",
            Op::FAll => s += "fall ", Op::Fill(n, m) => s += &format!("fill{n}x{m} "), Op::Refill(n, m) => s += &format!("refill{n}x{m} "), Op::Refuse(n) => s += &format!("refuse{n:#x} "),
            Op::Foreign(n) => s += &format!("foreign{n} "), Op::V => s += "v ",
            Op::AMany(n, z) => s += &format!("amany{n}x{z:?} "), Op::FMany(n, sd) => s += &format!("fmany{n}s{sd} "), Op::FAllLifo => s += "fall_lifo ", Op::FAllFifo => s += "fall_fifo ",
        }
    }
    s
}

/// What the adapter knows about the pool from its documentation / configuration.
#[derive(Clone, Debug, Default)]
pub struct Props {
    /// returned addresses are real memory the client may write
    pub mem: bool,
    /// every returned address/offset must be a multiple of this
    pub min_align: usize,
    /// all blocks must fit in one window of this many bytes (size of the single backing arena)
    pub window: Option<usize>,
    /// offsets are absolute: offset + size <= this
    pub abs_cap: Option<usize>,
    /// any single request larger than this must be refused
    pub cap_req: Option<usize>,
    /// at most this many blocks can be live (fixed-capacity pools)
    pub cap_blocks: Option<usize>,
    /// fixed-chunk pool: every block has this size, the requested size is ignored
    pub fixed: Option<usize>,
}
pub struct Got { pub addr: usize, pub usable: usize, pub align: usize }

pub trait Pool {
    fn props(&self) -> Props;
    fn alloc(&mut self, id: u64, size: usize, align: usize) -> Result<Got, String>;
    fn free(&mut self, id: u64, addr: usize, req: usize) -> Result<(), String>;
    fn selfcheck(&mut self) -> Result<(), String> { Ok(()) }
    fn foreign_free(&mut self, _p: NonNull<u8>, _size: usize) -> Option<Result<(), String>> { None }
    /// after a failure the pool may be corrupt: by default leak it instead of running destructors
    fn abandon(self: Box<Self>) { std::mem::forget(self) }
    fn notes(&self, _c: &mut Case) {}
}

#[derive(Clone, Copy)]
struct Blk { id: u64, addr: usize, usable: usize, req: usize }
#[derive(Default)]
struct St { sh: Shadow, live: Vec<Blk>, next_id: u64, lo: usize, hi: usize, allocs: u64, refused: u64, frees: u64, reused: u64, freed_addrs: std::collections::HashSet<usize>, last_fill: HashMap<usize, u32>, live_bytes: usize, since_verify: usize, after_bad_free: Option<u64>, deferred: Option<Fail>, misaligned: u64, sparse: bool }

const DENSE: usize = 8192;
fn pat_for(id: u64) -> u8 { (id % 251) as u8 + 1 }
/// fill a block: dense for small blocks, head/tail windows + stride for large ones
unsafe fn fill(addr: usize, n: usize, pat: u8) {
    let p = addr as *mut u8;
    unsafe {
        if n <= DENSE { std::ptr::write_bytes(p, pat, n); return; }
        std::ptr::write_bytes(p, pat, 512); std::ptr::write_bytes(p.add(n - 512), pat, 512);
        let mut o = 4096; while o < n - 512 { *p.add(o) = pat; o += 4096; }
    }
}
unsafe fn first_bad(addr: usize, n: usize, pat: u8) -> Option<(usize, u8)> {
    let p = addr as *const u8;
    unsafe {
        let chk = |a: usize, b: usize| -> Option<(usize, u8)> { for o in a..b { let v = *p.add(o); if v != pat { return Some((o, v)); } } None };
        if n <= DENSE { return chk(0, n); }
        if let Some(x) = chk(0, 512) { return Some(x); }
        let mut o = 4096; while o < n - 512 { let v = *p.add(o); if v != pat { return Some((o, v)); } o += 4096; }
        chk(n - 512, n)
    }
}

fn verify_blk(c: &mut Case, st: &mut St, b: &Blk, mem: bool, when: &str) -> Res {
    if !mem { return Ok(()); }
    c.ev(1); st.sh.checks += 1;
    if let Some((o, v)) = unsafe { first_bad(b.addr, b.usable, pat_for(b.id)) } {
        return Err(bad("content_corrupt", format!("{when}: live block #{} [+{:#x},+{}) (requested {}) byte +{o} = {v:#04x}, want {:#04x}", b.id, b.addr.wrapping_sub(st.lo), b.usable, b.req, pat_for(b.id))));
    }
    Ok(())
}
fn verify_all(c: &mut Case, st: &mut St, mem: bool, when: &str) -> Res {
    if !mem { return Ok(()); }
    st.since_verify = 0;
    let blks: Vec<Blk> = st.live.clone();
    for b in &blks { verify_blk(c, st, b, mem, when)?; }
    Ok(())
}

fn do_alloc(c: &mut Case, pool: &mut dyn Pool, pr: &Props, st: &mut St, size: usize, align: usize, must_refuse: bool, when: &str) -> Result<bool, Fail> {
    let id = st.next_id; st.next_id += 1;
    let r = catch(|| pool.alloc(id, size, align)).map_err(|p| pfail(&format!("{when}: allocate({size})"), p))?;
    let g = match r { Err(_) => { st.refused += 1; return Ok(false); } Ok(g) => g };
    if must_refuse { return Err(bad("capacity_not_refused", format!("{when}: allocate({size:#x}) returned Ok(+{:#x}, usable {}) although the request exceeds the documented capacity {:?}/{:?} blocks", g.addr.wrapping_sub(st.lo), g.usable, pr.cap_req, pr.cap_blocks))); }
    ensure!(g.usable >= size, "short_block", "{when}: allocate({size}) returned a block of usable size {}", g.usable);
    let al = g.align.max(pr.min_align).max(1);
    c.ev(1);
    if g.addr % al != 0 {
        // recorded, reported at the end of the history unless something worse happens first (keeps the other oracles running)
        st.misaligned += 1;
        if st.deferred.is_none() { st.deferred = Some(bad("misaligned", format!("{when}: allocate({size}) returned address/offset {:#x}, not a multiple of the required alignment {al}", g.addr))); }
    }
    if let Some(cap) = pr.abs_cap { ensure!(g.addr.checked_add(g.usable).map_or(false, |e| e <= cap), "out_of_arena", "{when}: allocate({size}) returned offset {} (+{}), beyond the pool capacity {cap}", g.addr, g.usable); }
    if let Some(w) = pr.window {
        let (lo, hi) = if st.allocs == 0 { (g.addr, g.addr + g.usable) } else { (st.lo.min(g.addr), st.hi.max(g.addr.saturating_add(g.usable))) };
        ensure!(hi - lo <= w, "out_of_arena", "{when}: allocate({size}) returned {:#x}; blocks now span {} bytes, more than the {w}-byte arena", g.addr, hi - lo);
        st.lo = lo; st.hi = hi;
    } else if st.allocs == 0 { st.lo = g.addr; st.hi = g.addr + g.usable; } else { st.lo = st.lo.min(g.addr); st.hi = st.hi.max(g.addr + g.usable); }
    if let Some(o) = st.sh.overlap(g.addr, g.usable) { return Err(bad("overlap", format!("{when}: allocate({size}) -> {o} (arena-relative new +{:#x})", g.addr.wrapping_sub(st.lo)))); }
    c.ev(3);
    if st.freed_addrs.contains(&g.addr) { st.reused += 1; }
    let pat = pat_for(id);
    if pr.mem { if g.usable <= DENSE { unsafe { st.sh.insert_fill(g.addr, g.usable, pat); } } else { unsafe { fill(g.addr, g.usable, pat); } st.sh.live.insert(g.addr, (g.usable, pat)); } }
    else { st.sh.live.insert(g.addr, (g.usable, 0)); }
    st.live.push(Blk { id, addr: g.addr, usable: g.usable, req: size }); st.allocs += 1; st.live_bytes += g.usable;
    if let Some(n) = st.after_bad_free.as_mut() { *n += 1; }
    Ok(true)
}

fn do_free(c: &mut Case, pool: &mut dyn Pool, pr: &Props, st: &mut St, idx: usize, when: &str) -> Res {
    let b = st.live.remove(idx);
    do_free_blk(c, pool, pr, st, b, when)
}
fn do_free_blk(c: &mut Case, pool: &mut dyn Pool, pr: &Props, st: &mut St, b: Blk, when: &str) -> Res {
    verify_blk(c, st, &b, pr.mem, &format!("{when}: before free of #{}", b.id))?;
    st.sh.remove(b.addr); st.live_bytes -= b.usable; st.freed_addrs.insert(b.addr);
    let r = catch(|| pool.free(b.id, b.addr, b.req)).map_err(|p| pfail(&format!("{when}: free(#{} size {})", b.id, b.req), p))?;
    if let Err(e) = r { return Err(bad("free_err", format!("{when}: free of valid live block #{} (size {}) returned Err: {e}", b.id, b.req))); }
    st.frees += 1; st.since_verify += 1;
    // "freeing returns the block without disturbing any other live block"
    // huge_ histories: each block is still verified right before its own free; the sweep over ALL live blocks is
    // amortised to a handful per drain (it would be quadratic with > 10^5 live blocks)
    if st.sparse { if st.since_verify >= st.live.len() / 3 + 4096 { verify_all(c, st, pr.mem, &format!("{when}: after free of #{} (size {})", b.id, b.req))?; } return Ok(()); }
    if st.live_bytes <= 1 << 16 || st.since_verify.saturating_mul(1 << 16) >= st.live_bytes { verify_all(c, st, pr.mem, &format!("{when}: after free of #{} (size {})", b.id, b.req))?; }
    Ok(())
}

/// Execute a history against a pool. All oracles of the property are checked here.
fn exec(c: &mut Case, pool: &mut dyn Pool, ops: &[Op], st: &mut St) -> Res {
    let pr = pool.props();
    let mut foreign_box: Vec<Box<[u64; 2048]>> = Vec::new();
    for (k, op) in ops.iter().enumerate() {
        let when = format!("op {k} {:?}", op);
        match *op {
            Op::A(size, align) => {
                let must_refuse = pr.cap_req.map_or(false, |cap| size > cap) || pr.cap_blocks.map_or(false, |n| st.live.len() >= n);
                do_alloc(c, pool, &pr, st, size, align, must_refuse, &when)?;
            }
            Op::F(i) => if !st.live.is_empty() { let idx = i as usize % st.live.len(); do_free(c, pool, &pr, st, idx, &when)?; },
            Op::FNew => if !st.live.is_empty() { let idx = st.live.len() - 1; do_free(c, pool, &pr, st, idx, &when)?; },
            Op::FOld => if !st.live.is_empty() { do_free(c, pool, &pr, st, 0, &when)?; },
            Op::FAll => { while !st.live.is_empty() { let idx = if k % 2 == 0 { st.live.len() - 1 } else { 0 }; do_free(c, pool, &pr, st, idx, &when)?; } }
            Op::Fill(size, max) | Op::Refill(size, max) => {
                let mut n = 0u32;
                while n < max {
                    let must_refuse = pr.cap_blocks.map_or(false, |nb| st.live.len() >= nb);
                    if !do_alloc(c, pool, &pr, st, size, 0, must_refuse, &when)? { break; }
                    n += 1;
                }
                c.note("fill_blocks", n as u64);
                if n < max { c.note("exhausted", 1); }
                if let Op::Refill(..) = *op {
                    if let Some(&prev) = st.last_fill.get(&size) {
                        c.ev(1);
                        ensure!(n >= prev.min(max), "no_reuse_after_free", "{when}: {prev} blocks of size {size} were obtained before, all were freed, but only {n} can be obtained now: freed blocks are not returned for reuse");
                    }
                }
                st.last_fill.insert(size, n);
                verify_all(c, st, pr.mem, &when)?;
            }
            Op::Refuse(size) => {
                if pr.cap_req.map_or(false, |cap| size > cap) { c.ev(1); do_alloc(c, pool, &pr, st, size, 0, true, &when)?; }
            }
            Op::Foreign(size) => {
                foreign_box.push(Box::new([0x5a5a_5a5a_5a5a_5a5a; 2048]));
                let p = NonNull::new(foreign_box.last_mut().unwrap().as_mut_ptr() as *mut u8).unwrap();
                if let Some(r) = catch(|| pool.foreign_free(p, size)).map_err(|p| pfail(&format!("{when}: free of foreign pointer"), p))? {
                    c.ev(1); c.note("foreign_free", 1);
                    ensure!(r.is_err(), "foreign_free_accepted", "{when}: deallocate(pointer into the harness heap, size {size}) returned Ok(())");
                    st.after_bad_free = Some(0);
                }
            }
            Op::AMany(n, sizes) => {
                let mut got = 0u64;
                for i in 0..n as usize {
                    let size = sizes[i % 4] as usize;
                    let must_refuse = pr.cap_req.map_or(false, |cap| size > cap) || pr.cap_blocks.map_or(false, |nb| st.live.len() >= nb);
                    if do_alloc(c, pool, &pr, st, size, 0, must_refuse, &when)? { got += 1; }
                }
                c.note("amany_blocks", got); if st.live.len() > 65536 { c.note("live_gt_65536", 1); } if st.live.len() > 100_000 { c.note("live_gt_100000", 1); }
                verify_all(c, st, pr.mem, &when)?;
            }
            Op::FMany(n, seed) => {
                let mut x = seed as u64 | 1;
                for _ in 0..n { if st.live.is_empty() { break; } x = x.wrapping_mul(6364136223846793005).wrapping_add(1442695040888963407); let idx = (x >> 33) as usize % st.live.len(); let b = st.live.swap_remove(idx); do_free_blk(c, pool, &pr, st, b, &when)?; }
            }
            Op::FAllLifo => { while let Some(b) = st.live.pop() { do_free_blk(c, pool, &pr, st, b, &when)?; } }
            Op::FAllFifo => { st.live.reverse(); while let Some(b) = st.live.pop() { do_free_blk(c, pool, &pr, st, b, &when)?; } }
            Op::V => {
                verify_all(c, st, pr.mem, &when)?;
                let r = catch(|| pool.selfcheck()).map_err(|p| pfail(&format!("{when}: pool self-check"), p))?;
                if let Err(e) = r { return Err(bad("pool_validate_err", format!("{when}: the pool's own integrity check failed while every live block is intact: {e}"))); }
            }
        }
    }
    verify_all(c, st, pr.mem, "end of history")?;
    if let Some(n) = st.after_bad_free { ensure!(n > 0, "pool_unusable_after_bad_free", "no allocation succeeded after the rejected foreign free ({} refused in the whole history)", st.refused); }
    // release everything through the pool
    while !st.live.is_empty() { let idx = st.live.len() - 1; do_free(c, pool, &pr, st, idx, "final cleanup")?; }
    Ok(())
}

// ------------------------------------------------------------------------------------------------
// history generators
// ------------------------------------------------------------------------------------------------
#[derive(Clone, Debug, Default)]
pub struct SizeTab {
    /// size-class boundaries of the pool (sizes b-1, b, b+1 are the interesting ones)
    pub bounds: Vec<usize>,
    /// largest ordinary request
    pub max: usize,
    /// occasional large requests (huge / skip-list / mmap paths)
    pub big: Vec<usize>,
    /// alignments to request (pools whose API takes one)
    pub aligns: Vec<usize>,
    /// smallest request
    pub min: usize,
    /// upper bound for the sum of live bytes (keeps histories inside one arena where that matters)
    pub live_bytes: usize,
    /// only the class sizes themselves are requested (no +-delta, no random sizes)
    pub exact: bool,
}
#[derive(Clone, Copy, PartialEq, Debug)]
pub enum Fam { Mixed, Pairs, Exhaust, Refuse, Foreign, Micro }
impl Fam { fn name(self) -> &'static str { match self { Fam::Mixed => "mixed", Fam::Pairs => "pairs", Fam::Exhaust => "exhaust", Fam::Refuse => "refuse", Fam::Foreign => "foreign", Fam::Micro => "micro" } } }

fn pick_size(r: &mut Rng, t: &SizeTab, allow_big: bool) -> usize {
    let lo = t.min.max(1);
    if t.exact && !t.bounds.is_empty() { return *r.pick(&t.bounds); }
    let s = match r.below(10) {
        0..=4 if !t.bounds.is_empty() => { let b = *r.pick(&t.bounds) as i64; let d = *r.pick(&[-1i64, 0, 1, -1, 0, 1, -7, -8, 7, 8, 9, -9, -15, 16]); (b + d).max(1) as usize }
        5 | 6 => 1 + r.usize_below(64),
        7 if allow_big && !t.big.is_empty() => return *r.pick(&t.big),
        _ => 1 + r.usize_below(t.max.max(1)),
    };
    s.clamp(lo, t.max.max(lo))
}
fn pick_align(r: &mut Rng, t: &SizeTab) -> usize { if t.aligns.is_empty() { 0 } else { *r.pick(&t.aligns) } }

pub fn refuse_sizes(cap: usize) -> Vec<usize> {
    vec![cap + 1, cap + 8, cap.saturating_mul(2), 1usize << 31, 0x7fff_f000, 0xffff_fff8, 1usize << 32, (1usize << 32) + 8, usize::MAX / 2, usize::MAX - 4095, usize::MAX - 7, usize::MAX]
}

fn gen_ops(r: &mut Rng, fam: Fam, t: &SizeTab, pr: &Props, quick: bool) -> Vec<Op> {
    let mut ops = Vec::new();
    let bias = r.below(4); // 0,1 random free, 2 newest (stack), 3 oldest (queue)
    let free_op = |r: &mut Rng| match bias { 2 if r.chance(3, 4) => Op::FNew, 3 if r.chance(3, 4) => Op::FOld, _ => Op::F(r.next() as u32) };
    let mixed = |r: &mut Rng, ops: &mut Vec<Op>, n: usize, max_live: usize, t: &SizeTab, allow_big: bool| {
        let mut live = 0usize; let mut bytes = 0usize; let mut sizes: Vec<usize> = Vec::new();
        for i in 0..n {
            let want_alloc = live == 0 || (live < max_live && r.chance(3, 5));
            if want_alloc { let s = pick_size(r, t, allow_big); if t.live_bytes > 0 && bytes.saturating_add(s) > t.live_bytes { ops.push(free_op(r)); if live > 0 { live -= 1; bytes = bytes.saturating_sub(sizes.pop().unwrap_or(0)); } continue; } ops.push(Op::A(s, pick_align(r, t))); live += 1; bytes = bytes.saturating_add(s); sizes.push(s); }
            else { ops.push(free_op(r)); live -= 1; bytes = bytes.saturating_sub(sizes.pop().unwrap_or(0)); }
            if i % 61 == 60 { ops.push(Op::V); }
        }
    };
    match fam {
        Fam::Mixed => { let n = if quick { 200 + r.usize_below(600) } else { 200 + r.usize_below(4800) }; let ml = *r.pick(&[4usize, 16, 40, 120]); mixed(r, &mut ops, n, ml, t, true); }
        Fam::Micro => { let n = 30 + r.usize_below(70); mixed(r, &mut ops, n, 8, t, false); }
        Fam::Pairs => {
            // few sizes from one or two neighbouring classes: a block freed under one size is re-requested under a
            // neighbouring size of the same class as often as possible
            let n = if quick { 150 + r.usize_below(350) } else { 200 + r.usize_below(2000) };
            let mut tt = t.clone(); tt.big.clear();
            if !t.bounds.is_empty() {
                let i = r.usize_below(t.bounds.len()); let hi = t.bounds[i]; let lo = if i > 0 { t.bounds[i - 1] + 1 } else { t.min.max(1) };
                let mut set = vec![hi, hi, lo.min(hi), (lo + hi) / 2, hi.saturating_sub(1).max(lo), hi.saturating_sub(7).max(lo), hi.saturating_sub(8).max(lo)];
                if r.bool() && i + 1 < t.bounds.len() { set.push(t.bounds[i + 1]); set.push(hi + 1); }
                if r.chance(1, 3) { set.push(1 + r.usize_below(16)); }
                set.retain(|&s| s >= t.min.max(1) && s <= t.max.max(1)); if set.is_empty() { set.push(t.max.max(1)); }
                let mut live = 0usize; let ml = *r.pick(&[3usize, 6, 12]);
                for i in 0..n { if live == 0 || (live < ml && r.chance(1, 2)) { ops.push(Op::A(*r.pick(&set), pick_align(r, t))); live += 1; } else { ops.push(free_op(r)); live -= 1; } if i % 61 == 60 { ops.push(Op::V); } }
            } else { mixed(r, &mut ops, n, 8, &tt, false); }
        }
        Fam::Exhaust => {
            // allocate to exhaustion, free everything, allocate the same size to exhaustion again (arena wrap)
            let cap = pr.cap_blocks.map(|b| b * t.max.max(1)).or(pr.window).or(pr.abs_cap).unwrap_or(1 << 20);
            let floor = (cap / 6000).max(t.min.max(1));
            let mut tt = t.clone(); tt.min = floor.min(t.max.max(1));
            let rounds = 1 + r.usize_below(3);
            for k in 0..rounds {
                let bigs: Vec<usize> = t.big.iter().copied().filter(|&b| b <= cap / 3).collect();
                let s = if k == 0 && !bigs.is_empty() && r.chance(1, 3) { *r.pick(&bigs) } else { pick_size(r, &tt, false).max(floor) };
                let pre = r.usize_below(20); mixed(r, &mut ops, pre, 8, &tt, false);
                ops.push(Op::Fill(s, 12000));
                // the over-capacity requests themselves
                ops.push(Op::A(s, 0)); ops.push(Op::A(tt.min, 0)); ops.push(Op::V);
                // only frees between the two fills: every block is handed back under the size it was requested with
                for _ in 0..r.usize_below(40) { ops.push(free_op(r)); }
                ops.push(Op::FAll); ops.push(Op::Refill(s, 12000)); ops.push(Op::A(s, 0)); ops.push(Op::V);
                if r.bool() { for _ in 0..r.usize_below(30) { ops.push(free_op(r)); } let m = r.usize_below(30); mixed(r, &mut ops, m, 64, &tt, false); }
                ops.push(Op::FAll);
            }
        }
        Fam::Refuse => {
            let cap = pr.cap_req.unwrap_or(usize::MAX / 4);
            let pre = 20 + r.usize_below(100); mixed(r, &mut ops, pre, 40, t, false);
            let rs = refuse_sizes(cap);
            match r.below(3) {
                0 => { ops.push(Op::Refuse(*r.pick(&rs))); }
                1 => { for _ in 0..1 + r.usize_below(4) { ops.push(Op::Refuse(*r.pick(&rs))); } }
                _ => { // two refused requests whose sizes add up to just under 2^32 (32-bit offset arithmetic)
                    let back = *r.pick(&[8usize, 64, 1024, 4096, 65536]); ops.push(Op::Refuse(1usize << 31)); ops.push(Op::Refuse((1usize << 31) - back)); }
            }
            let post = 20 + r.usize_below(100); mixed(r, &mut ops, post, 40, t, false);
        }
        Fam::Foreign => {
            let pre = 5 + r.usize_below(40); mixed(r, &mut ops, pre, 16, t, false);
            let s = if r.chance(1, 4) { *r.pick(&[8200usize, 16384, 100_000]) } else { pick_size(r, t, false).min(8192) };
            ops.push(Op::Foreign(s));
            let mut tt = t.clone(); tt.max = tt.max.min(512);
            ops.push(Op::A(pick_size(r, &tt, false), 0));
            let post = 10 + r.usize_below(60); mixed(r, &mut ops, post, 16, &tt, false);
        }
    }
    ops
}

pub type Tagger = Box<dyn Fn(&[Op], &mut Case)>;
pub struct Setup { pub pool: Box<dyn Pool>, pub tab: SizeTab, pub tagger: Tagger }
fn no_tags() -> Tagger { Box::new(|_, _| {}) }
/// Run one history case: build the pool, generate the ops from the case rng, execute, clean up.
fn history(c: &mut Case, fam: Fam, mk: impl FnOnce(&mut Case) -> Result<Setup, Fail>) -> Res {
    let quick = c.tier == crate::ctx::Tier::Quick;
    history_ops(c, mk, false, |r, tab, pr| gen_ops(r, fam, tab, pr, quick))
}
fn history_ops(c: &mut Case, mk: impl FnOnce(&mut Case) -> Result<Setup, Fail>, sparse: bool, gen: impl FnOnce(&mut Rng, &SizeTab, &Props) -> Vec<Op>) -> Res {
    let Setup { mut pool, tab, tagger } = mk(c)?;
    let pr = pool.props();
    let tab = match pr.fixed { Some(ch) => fixed_tab(ch), None => tab };
    let ops = gen(&mut c.rng, &tab, &pr);
    c.input_str("ops", &ops_str(&ops));
    tagger(&ops, c);
    for o in &ops { if let Op::Refuse(s) = *o { if s > usize::MAX - 4096 { c.tag("size_near_usize_max"); } } }
    let mut st = St::default(); st.sparse = sparse;
    let r = exec(c, &mut *pool, &ops, &mut st);
    c.note("allocs", st.allocs); c.note("frees", st.frees); c.note("refused", st.refused); c.note("reused_addr", st.reused); c.note("content_checks", st.sh.checks);
    c.set_nontrivial(st.allocs >= 2 && st.frees >= 1);
    pool.notes(c);
    c.note("misaligned_blocks", st.misaligned);
    match r { Ok(()) => { drop(pool); match st.deferred.take() { Some(mut f) => { f.detail += &format!(" ({} of {} blocks misaligned)", st.misaligned, st.allocs); Err(f) } None => Ok(()) } } Err(e) => { pool.abandon(); Err(e) } }
}

// ------------------------------------------------------------------------------------------------
// huge_ families: > 65536 / > 10^5 live blocks, sizes around 2^16 / 2^17 / 2^20 / MiB, many exhaust-refill rounds,
// rare configuration combinations. Same oracles; the all-blocks sweep is amortised (St::sparse).
// ------------------------------------------------------------------------------------------------
#[derive(Clone, Copy, PartialEq, Debug)]
pub enum Huge { Live, Cycle, Sizes, Cfg }
impl Huge { fn name(self) -> &'static str { match self { Huge::Live => "huge_live", Huge::Cycle => "huge_cycle", Huge::Sizes => "huge_sizes", Huge::Cfg => "huge_cfg" } } }
pub const HUGE_SIZES: &[usize] = &[65535, 65536, 65537, 131071, 131072, 131073, 131074, (1 << 20) - 1, 1 << 20, (1 << 20) + 1, (2 << 20) - 1, 2 << 20, (2 << 20) + 1, 3 << 20];
pub const HUGE_COUNTS: &[usize] = &[65_537, 100_003, 131_073];

fn gen_huge(r: &mut Rng, kind: Huge, t: &SizeTab, pr: &Props) -> Vec<Op> {
    let mut ops = Vec::new();
    let drain = |r: &mut Rng| if r.bool() { Op::FAllLifo } else { Op::FAllFifo };
    match kind {
        Huge::Live => {
            // very many live blocks of a few small sizes, random frees, refill, drain, reuse
            let mut n = *r.pick(HUGE_COUNTS);
            if let Some(nb) = pr.cap_blocks { n = n.min(nb + 3); }
            let small: Vec<usize> = t.bounds.iter().copied().filter(|&b| b >= t.min.max(1) && b <= 64.max(t.min)).collect();
            let mut pick4 = |r: &mut Rng| -> [u32; 4] { let mut z = [0u32; 4]; for x in z.iter_mut() { *x = if small.is_empty() { t.min.max(1).max(t.max.min(64)) } else if r.chance(1, 4) { (*r.pick(&small)).saturating_sub(1).max(t.min.max(1)) } else { *r.pick(&small) } as u32; } z };
            let z = pick4(r);
            ops.push(Op::AMany(n as u32, z)); ops.push(Op::A(z[0] as usize, 0)); ops.push(Op::V);
            ops.push(Op::FMany((n / 2) as u32, r.next() as u32));
            let z2 = pick4(r); ops.push(Op::AMany((n / 4) as u32, z2)); ops.push(Op::V);
            ops.push(Op::FMany((n / 8) as u32, r.next() as u32)); ops.push(drain(r));
            ops.push(Op::AMany(2000, z)); ops.push(Op::V); ops.push(drain(r));
        }
        Huge::Cycle => {
            // exhaust and refill the arena several times with one size (every block is handed back under that size)
            let cap = pr.cap_blocks.map(|b| b * t.max.max(1)).or(pr.window).or(pr.abs_cap).unwrap_or(1 << 22);
            let blocks = *r.pick(&[6_000usize, 20_000, 66_000]);
            let s = if pr.cap_blocks.is_some() { pick_size(r, t, false) } else { (cap / blocks).clamp(t.min.max(1), t.max.max(1)) };
            let max = 200_000u32;
            ops.push(Op::Fill(s, max)); ops.push(Op::A(s, 0)); ops.push(Op::V);
            ops.push(Op::FMany(r.usize_below(5000) as u32, r.next() as u32)); ops.push(drain(r));
            for k in 0..5 + r.usize_below(4) {
                ops.push(Op::Refill(s, max)); ops.push(Op::A(s, 0));
                if k % 2 == 1 { ops.push(Op::FMany(r.usize_below(3000) as u32, r.next() as u32)); }
                ops.push(drain(r));
            }
        }
        Huge::Sizes => {
            // requests just below / at / above 2^16, 2^17, 2^20, 2 MiB (+ a few MiB), few live at a time
            let lim = t.max.max(1);
            let mut tt = t.clone();
            tt.bounds = HUGE_SIZES.iter().copied().filter(|&b| b <= lim).collect();
            if tt.bounds.is_empty() { tt.bounds = vec![lim]; }
            tt.big.clear(); tt.exact = r.chance(2, 3); tt.live_bytes = 24 << 20; tt.min = tt.min.max(1);
            let n = 60 + r.usize_below(120);
            let mut live = 0usize; let mut bytes = 0usize; let mut sizes: Vec<usize> = Vec::new();
            for i in 0..n {
                if live == 0 || (live < 6 && r.chance(3, 5)) {
                    let sz = pick_size(r, &tt, false);
                    if bytes + sz > tt.live_bytes && live > 0 { ops.push(Op::FOld); live -= 1; bytes -= sizes.remove(0); continue; }
                    ops.push(Op::A(sz, pick_align(r, &tt))); live += 1; bytes += sz; sizes.push(sz);
                } else { ops.push(Op::FOld); live -= 1; bytes -= sizes.remove(0); }
                if i % 31 == 30 { ops.push(Op::V); }
            }
            ops.push(Op::V); ops.push(Op::FAllLifo);
        }
        Huge::Cfg => {
            let fam = *r.pick(&[Fam::Mixed, Fam::Mixed, Fam::Pairs, Fam::Exhaust]);
            let fam = if fam == Fam::Exhaust && pr.cap_blocks.is_none() && pr.window.is_none() && pr.abs_cap.is_none() { Fam::Mixed } else { fam };
            ops = gen_ops(r, fam, t, pr, true);
        }
    }
    ops
}
fn history_huge(c: &mut Case, kind: Huge, mk: impl FnOnce(&mut Case) -> Result<Setup, Fail>) -> Res {
    history_ops(c, mk, kind == Huge::Live || kind == Huge::Cycle, |r, tab, pr| gen_huge(r, kind, tab, pr))
}

/// Run `f` on a fresh thread (thread-local pool caches are per-thread statics that survive the pool and cannot be
/// reset through the public API; a fresh thread per case keeps cases independent). Still strictly sequential.
fn in_thread(c: &mut Case, f: impl FnOnce(&mut Case) -> Res + Send) -> Res {
    let r = std::thread::scope(|s| s.spawn(move || f(c)).join());
    match r { Ok(r) => r, Err(_) => { let (loc, msg) = take_panic().unwrap_or(("?".into(), "?".into())); Err(pfail("history on fresh thread", PanicInfo { loc, msg })) } }
}

// ------------------------------------------------------------------------------------------------
// adapters
// ------------------------------------------------------------------------------------------------
const LF_BINS: &[usize] = &[8, 16, 24, 32, 40, 48, 56, 64, 72, 80, 88, 96, 104, 112, 120, 128, 144, 160, 176, 192, 208, 224, 240, 256, 288, 320, 352, 384, 416, 448, 480, 512,
    576, 640, 704, 768, 832, 896, 960, 1024, 1152, 1280, 1408, 1536, 1664, 1792, 1920, 2048, 2304, 2560, 2816, 3072, 3328, 3584, 3840, 4096, 4608, 5120, 5632, 6144, 6656, 7168, 7680, 8192];
const TL_CLASSES: &[usize] = &[16, 32, 48, 64, 96, 128, 192, 256, 384, 512, 768, 1024, 1536, 2048, 3072, 4096];
fn up8(n: usize) -> usize { n.saturating_add(7) & !7 }
fn class_of(tab: &[usize], n: usize) -> Option<usize> { tab.iter().position(|&b| n <= b) }
/// input-only predicate: the history requests two sizes that fall in the same size class but are carved with
/// different (8-byte rounded) lengths
fn mixed_carve_in_class(ops: &[Op], classes: &[usize], raw_class: bool) -> bool {
    let mut seen: HashMap<usize, usize> = HashMap::new(); let mut hit = false;
    let mut all: Vec<usize> = Vec::new();
    for o in ops { match *o { Op::A(s, _) | Op::Fill(s, _) | Op::Refill(s, _) => all.push(s), Op::AMany(_, z) => all.extend(z.iter().map(|&x| x as usize)), _ => {} } }
    for s in all { let carve = up8(s); if let Some(k) = class_of(classes, if raw_class { s } else { carve }) { match seen.get(&k) { Some(&c0) if c0 != carve => hit = true, Some(_) => {}, None => { seen.insert(k, carve); } } } }
    hit && ops.iter().any(|o| matches!(o, Op::F(_) | Op::FNew | Op::FOld | Op::FAll | Op::FMany(..) | Op::FAllLifo | Op::FAllFifo))
}

// ---- LockFreeMemoryPool ----
struct LfAd { guards: HashMap<u64, LockFreeAllocation>, pool: Arc<LockFreeMemoryPool>, msize: usize, mode: u8 }
impl Pool for LfAd {
    fn props(&self) -> Props { Props { mem: true, min_align: 8, window: Some(self.msize), cap_req: Some(self.msize), ..Default::default() } }
    fn alloc(&mut self, id: u64, size: usize, _a: usize) -> Result<Got, String> {
        let p = if self.mode == 3 { self.pool.allocate_bulk_simd(&[size]).map(|v| v[0]) } else { self.pool.allocate(size) }.map_err(|e| e.to_string())?;
        if self.mode == 1 { self.guards.insert(id, LockFreeAllocation::new(p, size, self.pool.clone())); }
        Ok(Got { addr: p.as_ptr() as usize, usable: size, align: 8 })
    }
    fn free(&mut self, id: u64, addr: usize, req: usize) -> Result<(), String> {
        let p = NonNull::new(addr as *mut u8).unwrap();
        match self.mode { 1 => { drop(self.guards.remove(&id)); Ok(()) } 2 => self.pool.deallocate_with_zero(p, req).map_err(|e| e.to_string()), _ => self.pool.deallocate(p, req).map_err(|e| e.to_string()) }
    }
    fn foreign_free(&mut self, p: NonNull<u8>, size: usize) -> Option<Result<(), String>> { Some(self.pool.deallocate(p, size).map_err(|e| e.to_string())) }
    fn abandon(mut self: Box<Self>) { for (_, g) in self.guards.drain() { std::mem::forget(g); } /* dropping the pool only releases the arena */ }
    fn notes(&self, c: &mut Case) { if let Some(s) = self.pool.stats() { use std::sync::atomic::Ordering::Relaxed; c.note("lf_fast_allocs", s.fast_allocs.load(Relaxed)); c.note("lf_fast_deallocs", s.fast_deallocs.load(Relaxed)); c.note("lf_skip_deallocs", s.skip_deallocs.load(Relaxed)); } }
}
fn lf_cfg(c: &mut Case, which: &str) -> LockFreePoolConfig {
    let mut cfg = match which { "default" => LockFreePoolConfig::default(), "highperf" => LockFreePoolConfig::high_performance(), "compact" => LockFreePoolConfig::compact(),
        // huge_cfg: arena sizes just above powers of two (not multiples of 8 / of any bin size)
        "huge_cfg" => { let mut k = LockFreePoolConfig::compact(); k.memory_size = *c.rng.pick(&[65_537usize, 131_073, 196_609, 262_145, (1 << 20) + 1, (1 << 20) + 7]); k.zero_on_free = c.rng.bool(); k.enable_simd_optimization = c.rng.bool(); k.enable_stats = c.rng.bool(); k }
        _ => { let mut k = LockFreePoolConfig::compact(); k.memory_size = *c.rng.pick(&[16384usize, 32768, 65536, 100_000, 262_144]); k.zero_on_free = c.rng.bool(); k.enable_simd_optimization = c.rng.bool(); k } };
    cfg.backoff_strategy = BackoffStrategy::None;
    cfg
}
fn lf_mk(c: &mut Case, which: &str) -> Result<Box<dyn Pool>, Fail> {
    let cfg = lf_cfg(c, which); let mode = c.rng.below(4) as u8; let msize = cfg.memory_size;
    c.input_str("cfg", &format!("{which} memory_size={msize} zero_on_free={} mode={}", cfg.zero_on_free, ["raw", "raii", "dealloc_with_zero", "bulk"][mode as usize]));
    let pool = match catch(|| LockFreeMemoryPool::new(cfg)) { Ok(Ok(p)) => p, Ok(Err(e)) => return crate::ctx::inconclusive(format!("LockFreeMemoryPool::new: {e}")), Err(p) => return Err(pfail("LockFreeMemoryPool::new", p)) };
    Ok(Box::new(LfAd { guards: HashMap::new(), pool: Arc::new(pool), msize, mode }))
}
fn lf_tab(small: bool) -> SizeTab { SizeTab { bounds: LF_BINS.to_vec(), max: if small { 2048 } else { 8192 }, big: if small { vec![4096, 8192, 8193, 9000] } else { vec![8193, 9000, 16384, 65536, 300_000] }, aligns: vec![], min: 1, live_bytes: 0, exact: false } }
fn lf_tags(ops: &[Op], c: &mut Case) {
    if mixed_carve_in_class(ops, LF_BINS, false) { c.tag("lf_class_mixed_sizes"); }
    if ops.iter().any(|o| matches!(o, Op::A(s, _) | Op::Fill(s, _) | Op::Refill(s, _) if up8(*s) > 8192)) { c.tag("lf_large_gt8192"); }
    let refused: u128 = ops.iter().map(|o| if let Op::Refuse(s) = *o { (up8(s) as u128) & 0xffff_ffff } else { 0 }).sum();
    if refused >= (1u128 << 32) - (1 << 28) { c.tag("lf_refused_sum_wraps_u32"); }
    if ops.iter().any(|o| matches!(o, Op::Foreign(s) if up8(*s) > 8192)) { c.tag("lf_foreign_large"); }
}

// ---- SecureMemoryPool ----
struct SecAd { guards: HashMap<u64, SecurePooledPtr>, pool: Arc<SecureMemoryPool>, chunk: usize, align: usize, flip: u64 }
impl Pool for SecAd {
    fn props(&self) -> Props { Props { mem: true, min_align: self.align, fixed: Some(self.chunk), ..Default::default() } }
    fn alloc(&mut self, id: u64, _size: usize, _a: usize) -> Result<Got, String> {
        self.flip += 1;
        let g = match self.flip % 5 { 0 => self.pool.allocate_with_hint(true), 1 => self.pool.allocate_bulk_with_prefetch(&[self.chunk]).map(|mut v| v.pop().unwrap()), _ => self.pool.allocate() }.map_err(|e| e.to_string())?;
        let got = Got { addr: g.as_ptr() as usize, usable: g.size(), align: self.align };
        if let Err(e) = g.validate() { return Err(format!("fresh chunk fails validate(): {e}")); }
        self.guards.insert(id, g); Ok(got)
    }
    fn free(&mut self, id: u64, _addr: usize, _req: usize) -> Result<(), String> { drop(self.guards.remove(&id)); Ok(()) }
    fn selfcheck(&mut self) -> Result<(), String> { self.pool.validate().map_err(|e| e.to_string())?; for g in self.guards.values() { g.validate().map_err(|e| e.to_string())?; } Ok(()) }
    fn abandon(mut self: Box<Self>) { for (_, g) in self.guards.drain() { std::mem::forget(g); } }
    fn notes(&self, c: &mut Case) { let s = self.pool.stats(); c.note("sec_pool_hits", s.pool_hits); c.note("sec_pool_misses", s.pool_misses); c.note("sec_local_hits", s.local_cache_hits); c.note("sec_global_pops", s.cross_thread_steals); c.note("sec_double_free_detected", s.double_free_detected); c.note("sec_corruption_detected", s.corruption_detected); }
}
fn sec_cfg(c: &mut Case, which: &str) -> SecurePoolConfig {
    match which {
        "small" => SecurePoolConfig::small_secure(), "medium" => SecurePoolConfig::medium_secure(), "large" => SecurePoolConfig::large_secure(),
        "huge_cfg" => SecurePoolConfig::new(*c.rng.pick(&[1usize, 7, 100, 1001, 4097, 65_537]), *c.rng.pick(&[1usize, 3, 100]), *c.rng.pick(&[16usize, 64, 256, 4096])).with_local_cache_size(*c.rng.pick(&[0usize, 1, 3, 64])).with_zero_on_free(c.rng.bool()).with_zero_on_alloc(c.rng.bool()).with_simd_ops(c.rng.bool()),
        "huge_live" => SecurePoolConfig::new(*c.rng.pick(&[8usize, 64]), 100, 8).with_local_cache_size(*c.rng.pick(&[0usize, 4, 64])).with_zero_on_free(c.rng.bool()),
        "huge_sizes" => SecurePoolConfig::new(*c.rng.pick(HUGE_SIZES), 8, *c.rng.pick(&[8usize, 8, 64, 4096])).with_local_cache_size(*c.rng.pick(&[1usize, 4])).with_zero_on_alloc(c.rng.bool()),
        "a8" => SecurePoolConfig::new(*c.rng.pick(&[8usize, 64, 256, 1000]), 16, 8),
        "odd_chunk" => SecurePoolConfig::new(*c.rng.pick(&[1usize, 7, 100, 1001]), 16, 8),
        "a16" => SecurePoolConfig::new(*c.rng.pick(&[16usize, 64, 256, 1000]), 16, 16),
        "a64" => SecurePoolConfig::new(*c.rng.pick(&[64usize, 256, 4096]), 16, 64),
        "a4096" => SecurePoolConfig::new(*c.rng.pick(&[4096usize, 8192]), 8, 4096),
        "cache0" => SecurePoolConfig::new(256, 16, 8).with_local_cache_size(0),
        "cache1" => SecurePoolConfig::new(256, 16, 8).with_local_cache_size(1),
        _ => SecurePoolConfig::new(*c.rng.pick(&[64usize, 256, 4096]), *c.rng.pick(&[1usize, 4, 100]), 8).with_local_cache_size(*c.rng.pick(&[2usize, 3, 8, 64])).with_zero_on_free(c.rng.bool()).with_zero_on_alloc(c.rng.bool()).with_simd_ops(c.rng.bool()),
    }
}
fn sec_mk(c: &mut Case, which: &str) -> Result<Box<dyn Pool>, Fail> {
    let cfg = sec_cfg(c, which);
    c.input_str("cfg", &format!("{which} chunk={} align={} local_cache={} max_chunks={} zero_free={} zero_alloc={}", cfg.chunk_size, cfg.alignment, cfg.local_cache_size, cfg.max_chunks, cfg.zero_on_free, cfg.zero_on_alloc));
    if cfg.alignment > 8 { c.tag("secure_align_gt8"); }
    if cfg.local_cache_size == 0 { c.tag("secure_cache0"); }
    if cfg.chunk_size % 8 != 0 { c.tag("secure_chunk_not_multiple_of_8"); }
    let (chunk, align) = (cfg.chunk_size, cfg.alignment);
    let pool = match catch(|| SecureMemoryPool::new(cfg)) { Ok(Ok(p)) => p, Ok(Err(e)) => return Err(bad("ctor_err", format!("SecureMemoryPool::new: {e}"))), Err(p) => return Err(pfail("SecureMemoryPool::new", p)) };
    Ok(Box::new(SecAd { guards: HashMap::new(), pool, chunk, align, flip: c.rng.below(5) }))
}
fn fixed_tab(chunk: usize) -> SizeTab { SizeTab { bounds: vec![], max: chunk.max(1), big: vec![], aligns: vec![], min: chunk.max(1), live_bytes: 16 << 20, exact: false } }

// ---- ThreadLocalMemoryPool ----
struct TlAd { guards: HashMap<u64, ThreadLocalAllocation>, pool: Arc<ThreadLocalMemoryPool> }
impl Pool for TlAd {
    fn props(&self) -> Props { Props { mem: true, min_align: 8, ..Default::default() } }
    fn alloc(&mut self, id: u64, size: usize, _a: usize) -> Result<Got, String> {
        let g = self.pool.allocate(size).map_err(|e| e.to_string())?;
        let got = Got { addr: g.as_ptr() as usize, usable: g.size(), align: 8 }; self.guards.insert(id, g); Ok(got)
    }
    fn free(&mut self, id: u64, _addr: usize, _req: usize) -> Result<(), String> { drop(self.guards.remove(&id)); Ok(()) }
    fn abandon(mut self: Box<Self>) { for (_, g) in self.guards.drain() { std::mem::forget(g); } }
    fn notes(&self, c: &mut Case) { if let Some(s) = self.pool.stats() { use std::sync::atomic::Ordering::Relaxed; c.note("tl_cache_hits", s.cache_hits.load(Relaxed)); c.note("tl_hot_allocs", s.hot_allocations.load(Relaxed)); c.note("tl_arenas", s.arena_allocations.load(Relaxed)); c.note("tl_cache_misses", s.cache_misses.load(Relaxed)); } }
}
impl Drop for TlAd { fn drop(&mut self) { self.guards.clear(); self.pool.clear_caches(); } }
fn tl_cfg(which: &str) -> ThreadLocalPoolConfig { match which { "default" => ThreadLocalPoolConfig::default(), "highperf" => ThreadLocalPoolConfig::high_performance(), _ => ThreadLocalPoolConfig::compact() } }
/// huge_cfg: arena sizes just above powers of two, tiny / empty class caches
fn tl_custom_cfg(c: &mut Case) -> ThreadLocalPoolConfig {
    ThreadLocalPoolConfig { arena_size: *c.rng.pick(&[65_537usize, 131_073, 262_145, (1 << 20) + 1]), max_threads: 4, enable_stats: c.rng.bool(), sync_threshold: *c.rng.pick(&[1isize, 4096, 256 * 1024]), max_cached_chunks: *c.rng.pick(&[0usize, 1, 64]), use_secure_memory: c.rng.bool() }
}
fn tl_mk_cfg(c: &mut Case, which: &str, cfg: ThreadLocalPoolConfig) -> Result<Box<dyn Pool>, Fail> {
    c.input_str("cfg", &format!("{which} arena={} max_cached={} secure={} sync={}", cfg.arena_size, cfg.max_cached_chunks, cfg.use_secure_memory, cfg.sync_threshold));
    let pool = match catch(|| ThreadLocalMemoryPool::new(cfg)) { Ok(Ok(p)) => p, Ok(Err(e)) => return Err(bad("ctor_err", format!("ThreadLocalMemoryPool::new: {e}"))), Err(p) => return Err(pfail("ThreadLocalMemoryPool::new", p)) };
    Ok(Box::new(TlAd { guards: HashMap::new(), pool }))
}
fn tl_mk(c: &mut Case, which: &str) -> Result<Box<dyn Pool>, Fail> {
    let cfg = tl_cfg(which); c.input_str("cfg", &format!("{which} arena={} max_cached={} secure={}", cfg.arena_size, cfg.max_cached_chunks, cfg.use_secure_memory));
    let pool = match catch(|| ThreadLocalMemoryPool::new(cfg)) { Ok(Ok(p)) => p, Ok(Err(e)) => return Err(bad("ctor_err", format!("ThreadLocalMemoryPool::new: {e}"))), Err(p) => return Err(pfail("ThreadLocalMemoryPool::new", p)) };
    Ok(Box::new(TlAd { guards: HashMap::new(), pool }))
}
/// ordinary histories stay inside one hot arena (sum of all carved bytes < arena); "roll" histories cross it
fn tl_tab(arena: usize, roll: bool) -> SizeTab {
    if roll { SizeTab { bounds: TL_CLASSES.to_vec(), max: 4096, big: vec![4097, 8192, arena / 8, arena / 4], aligns: vec![], min: 1, live_bytes: 0, exact: false } }
    else { SizeTab { bounds: TL_CLASSES[..10].to_vec(), max: 600, big: vec![1024, 2048, 4096, 4097, 5000], aligns: vec![], min: 1, live_bytes: 0, exact: false } }
}
fn tl_tags(arena: usize) -> impl Fn(&[Op], &mut Case) {
    move |ops, c| {
        if mixed_carve_in_class(ops, TL_CLASSES, true) { c.tag("tl_class_mixed_sizes"); }
        let total: usize = ops.iter().map(|o| match *o { Op::A(s, _) => up8(s), Op::Fill(s, m) | Op::Refill(s, m) => up8(s).saturating_mul(m as usize), Op::AMany(n, z) => (n as usize).saturating_mul(up8(*z.iter().max().unwrap() as usize)), _ => 0 }).fold(0usize, |a, b| a.saturating_add(b));
        if total > arena { c.tag("tl_arena_roll"); }
        if ops.iter().any(|o| matches!(o, Op::A(s, _) if *s > arena / 4)) { c.tag("tl_size_gt_quarter_arena"); }
    }
}

// ---- FixedCapacityMemoryPool ----
struct FcAd { guards: HashMap<u64, FixedCapacityAllocation>, pool: Box<FixedCapacityMemoryPool>, cfg: FixedCapacityPoolConfig, limit_blocks: usize }
impl Pool for FcAd {
    fn props(&self) -> Props { Props { mem: true, min_align: self.cfg.alignment, window: Some(self.pool.total_capacity()), cap_req: Some(self.cfg.max_block_size), cap_blocks: Some(self.cfg.total_blocks), ..Default::default() } }
    fn alloc(&mut self, id: u64, size: usize, _a: usize) -> Result<Got, String> {
        if self.guards.len() >= self.limit_blocks { return Err("harness limit (tiny-block config: the last block is never taken)".into()); }
        let g = self.pool.allocate(size).map_err(|e| e.to_string())?;
        let got = Got { addr: g.as_ptr() as usize, usable: g.size(), align: self.cfg.alignment }; self.guards.insert(id, g); Ok(got)
    }
    fn free(&mut self, id: u64, _addr: usize, _req: usize) -> Result<(), String> { drop(self.guards.remove(&id)); Ok(()) }
    fn abandon(mut self: Box<Self>) { for (_, g) in self.guards.drain() { std::mem::forget(g); } std::mem::forget(self); }
    fn notes(&self, c: &mut Case) { if let Some(s) = self.pool.stats() { use std::sync::atomic::Ordering::Relaxed; c.note("fc_alloc_failures", s.allocation_failures.load(Relaxed)); c.note("fc_peak_blocks", s.peak_blocks.load(Relaxed) as u64); } }
}
fn fc_classes(max_size: usize, alignment: usize) -> Vec<usize> {
    // the documented class schedule (FixedCapacityMemoryPool::generate_size_classes)
    let mut v = Vec::new(); let mut cur = alignment;
    while cur <= max_size { v.push(cur); if cur < 128 { cur += alignment } else if cur < 1024 { cur = cur * 3 / 2 } else { cur *= 2 } cur = (cur + alignment - 1) & !(alignment - 1); }
    if v.last() != Some(&max_size) { v.push(max_size); }
    v
}
fn fc_cfg(c: &mut Case, which: &str) -> FixedCapacityPoolConfig {
    match which {
        "small" => FixedCapacityPoolConfig::small_objects(), "medium" => FixedCapacityPoolConfig::medium_objects(), "realtime" => FixedCapacityPoolConfig::realtime(), "secure" => FixedCapacityPoolConfig::secure(),
        // huge_: more than 2^16 / 10^5 / 2^17 blocks
        "huge_blocks" => FixedCapacityPoolConfig { max_block_size: *c.rng.pick(&[16usize, 24, 40, 48]), total_blocks: *c.rng.pick(HUGE_COUNTS), alignment: *c.rng.pick(&[8usize, 16]), enable_stats: c.rng.bool(), eager_allocation: c.rng.bool(), secure_clear: c.rng.bool() },
        // huge_: lazy/eager x block size not a multiple of the alignment x alignment 16..4096
        "huge_cfg" => FixedCapacityPoolConfig { max_block_size: *c.rng.pick(&[24usize, 100, 1000, 4097, 5000, 65_537]), total_blocks: *c.rng.pick(&[3usize, 17, 64]), alignment: *c.rng.pick(&[16usize, 64, 256, 4096]), enable_stats: c.rng.bool(), eager_allocation: c.rng.bool(), secure_clear: c.rng.bool() },
        // huge_: blocks just above 2^16 / 2^17
        "huge_sizes" => FixedCapacityPoolConfig { max_block_size: *c.rng.pick(&[65_536usize, 65_537, 131_073, (1 << 20) + 1]), total_blocks: *c.rng.pick(&[3usize, 9]), alignment: *c.rng.pick(&[8usize, 16, 64]), enable_stats: true, eager_allocation: c.rng.bool(), secure_clear: false },
        // blocks smaller than the 16-byte free-list header. Block counts are chosen so that the header the constructor
        // writes into the LAST block (8 resp. 4 bytes past the arena) still lands in malloc's size-class slack.
        "tiny_block" => { let (max_block_size, total_blocks) = *c.rng.pick(&[(8usize, 8usize), (8, 50), (12, 8)]); FixedCapacityPoolConfig { max_block_size, total_blocks, alignment: if max_block_size == 12 { 4 } else { 8 }, enable_stats: true, eager_allocation: c.rng.bool(), secure_clear: false } }
        "lazy" => FixedCapacityPoolConfig { eager_allocation: false, total_blocks: *c.rng.pick(&[1usize, 2, 7, 64]), max_block_size: *c.rng.pick(&[64usize, 1024, 4096]), secure_clear: c.rng.bool(), ..Default::default() },
        _ => { let alignment = *c.rng.pick(&[8usize, 8, 16, 64]);
            let max_block_size = *c.rng.pick(&[16usize, 24, 40, 100, 128, 1000, 1024, 4096, 5000]);
            FixedCapacityPoolConfig { max_block_size, total_blocks: *c.rng.pick(&[2usize, 3, 8, 50, 300]), alignment, enable_stats: c.rng.bool(), eager_allocation: c.rng.bool(), secure_clear: c.rng.bool() } }
    }
}
fn fc_mk(c: &mut Case, which: &str) -> Result<(Box<dyn Pool>, SizeTab), Fail> {
    let cfg = fc_cfg(c, which);
    c.input_str("cfg", &format!("{which} max_block={} blocks={} align={} eager={} clear={}", cfg.max_block_size, cfg.total_blocks, cfg.alignment, cfg.eager_allocation, cfg.secure_clear));
    // a free block carries a 16-byte header (size_class, magic, next, padding)
    let tiny = cfg.max_block_size < 16;
    if tiny { c.tag("fc_block_lt_header"); }
    if cfg.max_block_size % cfg.alignment != 0 { c.tag("fc_block_not_multiple_of_align"); }
    let tab = SizeTab { bounds: fc_classes(cfg.max_block_size, cfg.alignment), max: cfg.max_block_size, big: vec![], aligns: vec![], min: 1, live_bytes: 0, exact: false };
    let cfg2 = cfg.clone();
    let pool = match catch(|| FixedCapacityMemoryPool::new(cfg2)) { Ok(Ok(p)) => p, Ok(Err(e)) => return Err(bad("ctor_err", format!("FixedCapacityMemoryPool::new: {e}"))), Err(p) => return Err(pfail("FixedCapacityMemoryPool::new", p)) };
    // with blocks smaller than the free-list header the header of the LAST block would be written past the arena
    // (harness-heap corruption): never take the last block in those configurations
    let limit_blocks = if tiny { cfg.total_blocks - 2 } else { usize::MAX };
    Ok((Box::new(FcAd { guards: HashMap::new(), pool: Box::new(pool), cfg, limit_blocks }), tab))
}

// ---- MemoryPool ----
struct MpAd { pool: Arc<MemoryPool>, chunk: usize, align: usize }
impl Pool for MpAd {
    fn props(&self) -> Props { Props { mem: true, min_align: self.align, fixed: Some(self.chunk), ..Default::default() } }
    fn alloc(&mut self, _id: u64, _size: usize, _a: usize) -> Result<Got, String> { let p = self.pool.allocate().map_err(|e| e.to_string())?; Ok(Got { addr: p.as_ptr() as usize, usable: self.chunk, align: self.align }) }
    fn free(&mut self, _id: u64, addr: usize, _req: usize) -> Result<(), String> { self.pool.deallocate(NonNull::new(addr as *mut u8).unwrap()).map_err(|e| e.to_string()) }
    fn notes(&self, c: &mut Case) { let s = self.pool.stats(); c.note("mp_hits", s.pool_hits); c.note("mp_misses", s.pool_misses); }
}
fn mp_mk(c: &mut Case, which: &str) -> Result<Box<dyn Pool>, Fail> {
    let cfg = match which { "small" => PoolConfig::small(), "medium" => PoolConfig::medium(), "large" => PoolConfig::large(),
        "huge_cfg" => PoolConfig::new(*c.rng.pick(&[1usize, 7, 100, 4097, 65_537]), *c.rng.pick(&[0usize, 1, 3]), *c.rng.pick(&[16usize, 64, 4096])),
        "huge_live" => PoolConfig::new(*c.rng.pick(&[8usize, 24]), *c.rng.pick(&[0usize, 100, 200_000]), 8),
        "huge_sizes" => PoolConfig::new(*c.rng.pick(HUGE_SIZES), *c.rng.pick(&[1usize, 4]), *c.rng.pick(&[8usize, 64])),
        _ => PoolConfig::new(*c.rng.pick(&[1usize, 8, 24, 100, 4096, 70_000]), *c.rng.pick(&[0usize, 1, 2, 16, 100]), *c.rng.pick(&[1usize, 8, 16, 64, 4096])) };
    c.input_str("cfg", &format!("{which} chunk={} max_chunks={} align={}", cfg.chunk_size, cfg.max_chunks, cfg.alignment));
    let (chunk, align) = (cfg.chunk_size, cfg.alignment);
    let pool = match catch(|| MemoryPool::new(cfg)) { Ok(Ok(p)) => p, Ok(Err(e)) => return Err(bad("ctor_err", format!("MemoryPool::new: {e}"))), Err(p) => return Err(pfail("MemoryPool::new", p)) };
    Ok(Box::new(MpAd { pool: Arc::new(pool), chunk, align }))
}

// ---- TieredMemoryAllocator ----
struct TierAd { allocs: HashMap<u64, TieredAllocation>, t: Option<TieredMemoryAllocator> }
impl Pool for TierAd {
    fn props(&self) -> Props { Props { mem: true, min_align: 8, ..Default::default() } }
    fn alloc(&mut self, id: u64, size: usize, _a: usize) -> Result<Got, String> {
        let a = match &self.t { Some(t) => t.allocate(size), None => tiered_allocate(size) }.map_err(|e| e.to_string())?;
        // documented pool configurations: small pool 8-byte, medium pools 16-byte aligned, mmap page aligned
        let align = match &a { TieredAllocation::Small(..) => 8, TieredAllocation::Medium(..) => 16, _ => 4096 };
        let got = Got { addr: a.as_ptr::<u8>() as usize, usable: a.size(), align }; self.allocs.insert(id, a); Ok(got)
    }
    fn free(&mut self, id: u64, _addr: usize, _req: usize) -> Result<(), String> {
        let a = self.allocs.remove(&id).unwrap();
        match &self.t { Some(t) => t.deallocate(a), None => tiered_deallocate(a) }.map_err(|e| e.to_string())
    }
    fn notes(&self, c: &mut Case) { if let Some(t) = &self.t { let s = t.stats(); c.note("tier_small", s.small_allocations); c.note("tier_medium", s.medium_allocations); c.note("tier_large", s.large_allocations); c.note("tier_huge", s.huge_allocations); c.note("tier_mmap_cache_hits", s.mmap_stats.cache_hits); } }
}
fn tier_mk(c: &mut Case, which: &str) -> Result<Box<dyn Pool>, Fail> {
    if which == "global" { c.input_str("cfg", "global"); return Ok(Box::new(TierAd { allocs: HashMap::new(), t: None })); }
    let mut cfg = TieredConfig::default();
    if which != "default" { cfg.enable_small_pools = c.rng.bool(); cfg.enable_medium_pools = c.rng.bool(); cfg.enable_mmap_large = c.rng.chance(3, 4); cfg.enable_hugepages = c.rng.bool(); cfg.mmap_threshold = *c.rng.pick(&[1usize, 4096, 16 * 1024]); }
    c.input_str("cfg", &format!("{cfg:?}"));
    let t = match catch(|| TieredMemoryAllocator::new(cfg)) { Ok(Ok(p)) => p, Ok(Err(e)) => return Err(bad("ctor_err", format!("TieredMemoryAllocator::new: {e}"))), Err(p) => return Err(pfail("TieredMemoryAllocator::new", p)) };
    Ok(Box::new(TierAd { allocs: HashMap::new(), t: Some(t) }))
}
fn tier_tab(micro: bool) -> SizeTab { if micro { SizeTab { bounds: vec![1024, 2048, 4096, 8192, 16384], max: 16384, ..Default::default() } } else { SizeTab { bounds: vec![1024, 2048, 4096, 8192, 16384], max: 20000, big: vec![16385, 65536, 100_000, 1 << 20, (2 << 20) - 1, 2 << 20, (2 << 20) + 1], aligns: vec![], min: 1, live_bytes: 0, exact: false } } }

// ---- MemoryMappedAllocator ----
struct MmAd { allocs: HashMap<u64, MmapAllocation>, m: MemoryMappedAllocator }
impl Pool for MmAd {
    fn props(&self) -> Props { Props { mem: true, min_align: 4096, ..Default::default() } }
    fn alloc(&mut self, id: u64, size: usize, _a: usize) -> Result<Got, String> {
        let a = self.m.allocate(size).map_err(|e| e.to_string())?;
        if a.actual_size() < a.size() || a.actual_size() % 4096 != 0 { return Ok(Got { addr: a.as_ptr::<u8>() as usize, usable: a.actual_size().min(a.size().saturating_sub(1)), align: 4096 }); }
        let got = Got { addr: a.as_ptr::<u8>() as usize, usable: a.size(), align: 4096 }; self.allocs.insert(id, a); Ok(got)
    }
    fn free(&mut self, id: u64, _addr: usize, _req: usize) -> Result<(), String> { let a = self.allocs.remove(&id).unwrap(); self.m.deallocate(a).map_err(|e| e.to_string()) }
    fn notes(&self, c: &mut Case) { let s = self.m.stats(); c.note("mmap_calls", s.mmap_calls); c.note("mmap_cache_hits", s.cache_hits); c.note("munmap_calls", s.munmap_calls); }
}
fn mm_mk(c: &mut Case) -> Result<(Box<dyn Pool>, SizeTab), Fail> {
    let min = *c.rng.pick(&[1usize, 4096, 16 * 1024]); c.input_str("cfg", &format!("min_mmap_size={min}"));
    let tab = SizeTab { bounds: vec![4096, 8192, 16384, 65536], max: 70_000, big: vec![1 << 20, 3 << 20], aligns: vec![], min, live_bytes: 0, exact: false };
    Ok((Box::new(MmAd { allocs: HashMap::new(), m: MemoryMappedAllocator::new(min) }), tab))
}

// ---- NUMA helpers ----
struct NumaAd { aligns: HashMap<u64, usize>, pools: bool }
impl Pool for NumaAd {
    fn props(&self) -> Props { Props { mem: true, min_align: 64, ..Default::default() } }
    fn alloc(&mut self, id: u64, size: usize, a: usize) -> Result<Got, String> { let p = numa_alloc_aligned(size, a, 0).map_err(|e| e.to_string())?; self.aligns.insert(id, a); Ok(Got { addr: p.as_ptr() as usize, usable: size, align: a.max(64) }) }
    fn free(&mut self, id: u64, addr: usize, req: usize) -> Result<(), String> { let a = self.aligns.remove(&id).unwrap(); numa_dealloc(NonNull::new(addr as *mut u8).unwrap(), req, a, 0).map_err(|e| e.to_string()) }
}
impl Drop for NumaAd { fn drop(&mut self) { if self.pools { let _ = clear_numa_pools(); } } }

// ---- five-level family (offset handles, no client-visible memory) ----
enum FivePool { L1(NoLockingPool), L2(MutexBasedPool), L3(LockFreePool), L4(ThreadLocalPool), L5(FixedCapacityPool), Ad(AdaptiveFiveLevelPool) }
struct FiveAd { p: FivePool, offs: HashMap<u64, MemOffset>, cfg: FiveLevelPoolConfig, cap: usize }
fn off_value(o: MemOffset) -> usize { let s = format!("{o:?}"); s.trim_start_matches("MemOffset(").trim_end_matches(')').parse::<u64>().map(|v| v as usize).unwrap_or(usize::MAX) }
impl Pool for FiveAd {
    fn props(&self) -> Props { Props { mem: false, min_align: self.cfg.alignment, abs_cap: Some(self.cap), cap_req: Some(self.cap), ..Default::default() } }
    fn alloc(&mut self, id: u64, size: usize, _a: usize) -> Result<Got, String> {
        let o = match &mut self.p { FivePool::L1(p) => p.alloc(size), FivePool::L2(p) => p.alloc(size), FivePool::L3(p) => p.alloc(size), FivePool::L4(p) => p.alloc(size), FivePool::L5(p) => p.alloc(size), FivePool::Ad(p) => p.alloc(size) }.map_err(|e| e.to_string())?;
        self.offs.insert(id, o); Ok(Got { addr: off_value(o), usable: size, align: self.cfg.alignment })
    }
    fn free(&mut self, id: u64, _addr: usize, req: usize) -> Result<(), String> {
        let o = self.offs.remove(&id).unwrap();
        match &mut self.p { FivePool::L1(p) => p.free(o, req), FivePool::L2(p) => p.free(o, req), FivePool::L3(p) => p.free(o, req), FivePool::L4(p) => p.free(o, req), FivePool::L5(p) => p.free(o, req), FivePool::Ad(p) => p.free(o, req) }.map_err(|e| e.to_string())
    }
    fn abandon(self: Box<Self>) {}
    fn notes(&self, c: &mut Case) { let s = match &self.p { FivePool::L1(p) => p.stats(), FivePool::L2(p) => p.stats(), FivePool::L3(p) => p.stats(), FivePool::L4(p) => p.stats(), FivePool::L5(p) => p.stats(), FivePool::Ad(p) => p.stats() }; c.note("five_used", s.used_memory as u64); c.note("five_huge_nodes", s.huge_node_count as u64); }
}
fn five_cfg(c: &mut Case) -> (FiveLevelPoolConfig, &'static str) {
    let k = c.rng.below(4);
    match k { 0 => (FiveLevelPoolConfig::default(), "default"), 1 => (FiveLevelPoolConfig::performance_optimized(), "performance"), 2 => (FiveLevelPoolConfig::memory_optimized(), "memory"), _ => (FiveLevelPoolConfig::realtime(), "realtime") }
}
fn five_mk(c: &mut Case, which: &str) -> Result<Setup, Fail> { five_mk_with(c, which, 0) }
/// mode 0: the presets; 1: huge_ (room for > 131073 blocks); 2: huge_cfg (rare alignment / capacity combinations)
fn five_mk_with(c: &mut Case, which: &str, mode: u8) -> Result<Setup, Fail> {
    let (mut cfg, mut name) = five_cfg(c);
    if mode == 1 {
        cfg = if c.rng.bool() { name = "huge/performance"; FiveLevelPoolConfig::performance_optimized() } else { name = "huge/realtime"; FiveLevelPoolConfig::realtime() };
        cfg.initial_capacity = cfg.initial_capacity.max(8 << 20) + *c.rng.pick(&[0usize, 8, 65_536]);
    } else if mode == 2 {
        name = "huge_cfg";
        cfg.alignment = *c.rng.pick(&[4usize, 16, 64, 256, 4096]);
        cfg.max_fast_block_size = cfg.alignment * *c.rng.pick(&[2usize, 8, 64]);
        cfg.initial_capacity = *c.rng.pick(&[65_537usize, 131_073, 196_609, 262_145, (1 << 20) + 1]);
        cfg.arena_size = *c.rng.pick(&[65_537usize, 131_073, 1 << 20]);
        cfg.fixed_capacity = if c.rng.bool() { Some(*c.rng.pick(&[65_537usize, 131_073, 262_145])) } else { None };
    }
    let level = match which { "ad_l1" => Some(ConcurrencyLevel::SingleThread), "ad_l2" => Some(ConcurrencyLevel::MultiThreadMutex), "ad_l3" => Some(ConcurrencyLevel::MultiThreadLockFree), "ad_l4" => Some(ConcurrencyLevel::ThreadLocal), "ad_l5" => Some(ConcurrencyLevel::FixedCapacity), _ => None };
    let fixedcap = which == "fixed" || which == "ad_l5" || (which == "ad_new" && cfg.fixed_capacity.is_some());
    let mut cap = if fixedcap { cfg.fixed_capacity.unwrap_or(cfg.initial_capacity) } else { cfg.initial_capacity };
    if which == "tlocal" || which == "ad_l4" || which == "ad_new" { cap = cap.max(cfg.arena_size); }
    c.input_str("cfg", &format!("{which} preset={name} align={} max_fast={} capacity={cap} arena={}", cfg.alignment, cfg.max_fast_block_size, cfg.arena_size));
    let a = cfg.alignment; let mf = cfg.max_fast_block_size;
    let mut bounds: Vec<usize> = (1..=16).map(|i| i * a).collect(); bounds.extend_from_slice(&[256, 512, 1024, 4096, mf / 2, mf - a, mf]);
    let tab = SizeTab { bounds, max: 2048, big: vec![mf - 1, mf, mf + 1, mf + a, mf * 2, cap / 8], aligns: vec![], min: 1, live_bytes: 0, exact: false };
    let cf = cfg.clone();
    let p = catch(|| -> Result<FivePool, String> { Ok(match which {
        "nolock" => FivePool::L1(NoLockingPool::new(cf).map_err(|e| e.to_string())?), "mutex" => FivePool::L2(MutexBasedPool::new(cf).map_err(|e| e.to_string())?), "lockfree" => FivePool::L3(LockFreePool::new(cf).map_err(|e| e.to_string())?),
        "tlocal" => FivePool::L4(ThreadLocalPool::new(cf).map_err(|e| e.to_string())?), "fixed" => FivePool::L5(FixedCapacityPool::new(cf).map_err(|e| e.to_string())?),
        "ad_new" => FivePool::Ad(AdaptiveFiveLevelPool::new(cf).map_err(|e| e.to_string())?),
        _ => FivePool::Ad(AdaptiveFiveLevelPool::with_level(cf, level.unwrap()).map_err(|e| e.to_string())?) }) });
    let p = match p { Ok(Ok(p)) => p, Ok(Err(e)) => return Err(bad("ctor_err", format!("five-level {which}: {e}"))), Err(pi) => return Err(pfail("five-level constructor", pi)) };
    if let FivePool::Ad(ad) = &p { c.note(&format!("level:{:?}", ad.current_level()), 1); }
    let tagger = five_tagger(which, &cfg);
    Ok(Setup { pool: Box::new(FiveAd { p, offs: HashMap::new(), cfg, cap }), tab, tagger })
}
fn five_tagger(which: &str, cfg: &FiveLevelPoolConfig) -> Tagger {
    let (a, mf, hot) = (cfg.alignment, cfg.max_fast_block_size, cfg.arena_size / 2);
    let tl = which == "tlocal" || which == "ad_l4" || which == "ad_new";
    Box::new(move |ops, c| {
        let up = |s: usize| s.saturating_add(a - 1) & !(a - 1);
        if ops.iter().any(|o| matches!(o, Op::A(s, _) | Op::Fill(s, _) | Op::Refill(s, _) if up(*s) > mf)) { c.tag("five_huge_block"); }
        if tl {
            // the thread-local hot area and the global pool both number their blocks from offset 0
            let total: usize = ops.iter().map(|o| match *o { Op::A(s, _) => up(s), Op::Fill(s, m) | Op::Refill(s, m) => up(s).saturating_mul(m as usize), Op::AMany(n, z) => (n as usize).saturating_mul(up(*z.iter().max().unwrap() as usize)), _ => 0 }).fold(0usize, |x, y| x.saturating_add(y));
            if total > hot || ops.iter().any(|o| matches!(o, Op::A(s, _) | Op::Fill(s, _) | Op::Refill(s, _) if up(*s) > mf)) { c.tag("tl5_local_and_global_offsets"); }
        }
    })
}

// ------------------------------------------------------------------------------------------------
// special drivers
// ------------------------------------------------------------------------------------------------


/// BumpAllocator / BumpArena / BumpScope / BumpVec with an exact offset model.
fn bump_case(c: &mut Case, scoped: bool, micro: bool) -> Res {
    let cap = *c.rng.pick(&[1usize, 7, 8, 64, 100, 1000, 4096, 65536, 1 << 20]);
    let n_ops = if micro { 20 + c.rng.usize_below(80) } else { 50 + c.rng.usize_below(400) };
    let wide = c.rng.chance(1, 3); let near_max = c.rng.chance(1, 3);
    // 16 is what the system allocator gives anyway; 4096/65536 are practically never met by accident, 32..256 would make the
    // verdict depend on where malloc happened to place the buffer
    let aligns: &[usize] = if wide { &[1usize, 1, 2, 4, 8, 8, 16, 4096, 4096, 65536] } else { &[1usize, 2, 4, 8] };
    // script: (kind, size, align)  kind 0 alloc_bytes, 1 typed u64, 2 slice u32, 3 BumpVec<u64>, 4 reset / scope-open, 5 scope-close, 6 refuse
    let mut script: Vec<(u8, usize, usize)> = Vec::new();
    for _ in 0..n_ops {
        let k = match c.rng.below(20) { 0..=11 => 0, 12 => 1, 13 => 2, 14 => 3, 15 | 16 => 4, 17 | 18 => 5, _ => 6 };
        let size = match c.rng.below(4) { 0 => 1 + c.rng.usize_below(16), 1 => 1 + c.rng.usize_below(cap.min(300)), 2 => 1 + c.rng.usize_below(cap), _ => (cap / 4).max(1) };
        let size = if k == 6 { let rs = refuse_sizes(cap); if near_max { *c.rng.pick(&rs) } else { rs[c.rng.usize_below(8)] } } else { size };
        script.push((k, size, *c.rng.pick(aligns)));
    }
    let txt: String = script.iter().map(|&(k, s, a)| match k { 0 => format!("b{s}/{a} "), 1 => "t ".into(), 2 => format!("s{} ", s / 4 + 1), 3 => format!("v{} ", s / 8 + 1), 4 => if scoped { "open ".into() } else { "reset ".into() }, 5 => "close ".into(), _ => format!("refuse{s:#x}/{a} ") }).collect();
    c.input_str("cfg", &format!("capacity={cap} scoped={scoped}")); c.input_str("ops", &txt);
    if script.iter().any(|&(k, _, a)| k == 0 && a > 8) { c.tag("bump_align_gt_base"); }
    if script.iter().any(|&(k, s, _)| k == 6 && s > usize::MAX - 4096) { c.tag("size_near_usize_max"); }
    let arena = if scoped { Some(BumpArena::new(cap).map_err(|e| bad("ctor_err", e.to_string()))?) } else { None };
    let plain = if scoped { None } else { Some(BumpAllocator::new(cap).map_err(|e| bad("ctor_err", e.to_string()))?) };
    let mut scopes: Vec<(zipora::memory::bump::BumpScope<'_>, usize, usize)> = Vec::new(); // (scope, live mark, model cur)
    let mut vecs: Vec<BumpVec<'_, u64>> = Vec::new();
    let mut sh = Shadow::new(); let mut live: Vec<(usize, usize, u8)> = Vec::new();
    let mut base: Option<usize> = None;
    let (mut allocs, mut refusals, mut resets) = (0u64, 0u64, 0u64);
    let check_all = |sh: &mut Shadow, c: &mut Case, when: &str| -> Res { if let Some((a, s)) = unsafe { sh.verify_all() } { return Err(bad("content_corrupt", format!("{when}: live bump block at {a:#x} (+{s}) lost its contents"))); } c.ev(sh.len() as u64); Ok(()) };
    for (i, &(k, size, align)) in script.iter().enumerate() {
        let when = format!("op {i}");
        match k {
            0 | 1 | 2 | 3 | 6 => {
                let (size, align) = match k { 1 => (8, 8), 2 => ((size / 4 + 1) * 4, 4), 3 => ((size / 8 + 1) * 8, 8), _ => (size, align) };
                let r: Result<Result<usize, String>, PanicInfo> = catch(|| {
                    let es = |e: zipora::error::ZiporaError| e.to_string();
                    match (k, &arena, &plain, scopes.last()) {
                        (1, _, Some(b), _) => b.alloc::<u64>().map(|p| p.as_ptr() as usize).map_err(es),
                        (2, _, Some(b), _) => b.alloc_slice::<u32>(size / 4).map(|p| p.as_ptr() as *mut u32 as usize).map_err(es),
                        (3, _, Some(b), _) => BumpVec::<u64>::new_in(b, size / 8).map_err(es).and_then(|mut v| { let pat = pat_for(allocs); for _ in 0..size / 8 { v.push(u64::from_ne_bytes([pat; 8])).map_err(es)?; } if v.push(0).is_ok() { return Err("BUMPVEC_OVER_CAPACITY".into()); } let a = v.as_slice().as_ptr() as usize; vecs.push(v); Ok(a) }),
                        (_, _, Some(b), _) => b.alloc_bytes(size, align).map(|p| p.as_ptr() as usize).map_err(es),
                        (1, Some(_), _, Some((s, _, _))) => s.alloc::<u64>().map(|p| p.as_ptr() as usize).map_err(es),
                        (2, Some(_), _, Some((s, _, _))) => s.alloc_slice::<u32>(size / 4).map(|p| p.as_ptr() as *mut u32 as usize).map_err(es),
                        (_, Some(_), _, Some((s, _, _))) => s.alloc_bytes(size, align).map(|p| p.as_ptr() as usize).map_err(es),
                        (1, Some(a), _, None) => a.alloc::<u64>().map(|p| p.as_ptr() as usize).map_err(es),
                        (2, Some(a), _, None) => a.alloc_slice::<u32>(size / 4).map(|p| p.as_ptr() as *mut u32 as usize).map_err(es),
                        (_, Some(a), _, None) => a.alloc_bytes(size, align).map(|p| p.as_ptr() as usize).map_err(es),
                        _ => unreachable!(),
                    }
                });
                let r = r.map_err(|p| pfail(&format!("{when}: bump alloc(size {size:#x}, align {align}) cap {cap}"), p))?;
                // the bump offset after the call, as reported by the public API
                let used = match (&arena, &plain, scopes.last()) { (_, Some(b), _) => cap - b.remaining_bytes(), (_, _, Some((s, _, _))) => cap - s.stats().remaining_bytes, (Some(a), _, None) => cap - a.stats().remaining_bytes, _ => 0 };
                c.ev(1);
                match r {
                    Err(e) => { if e == "BUMPVEC_OVER_CAPACITY" { return Err(bad("capacity_not_refused", format!("{when}: BumpVec accepted a push beyond its capacity"))); } refusals += 1; }
                    Ok(addr) => {
                        ensure!(size <= cap, "capacity_not_refused", "{when}: alloc(size {size:#x}, align {align}) returned Ok from a {cap}-byte allocator");
                        // the block just handed out ends at the bump offset: that locates the buffer
                        let b = *base.get_or_insert((addr + size).wrapping_sub(used));
                        ensure!(addr % align == 0, "misaligned", "{when}: alloc_bytes({size}, align {align}) returned {addr:#x} (offset {} in a buffer whose base is {b:#x})", addr.wrapping_sub(b));
                        ensure!(addr >= b && addr + size <= b + cap, "out_of_arena", "{when}: block [{:#x},+{size}) outside the {cap}-byte buffer at {b:#x}", addr);
                        if let Some(o) = sh.overlap(addr, size) { return Err(bad("overlap", format!("{when}: alloc(size {size}, align {align}): {o}"))); }
                        let pat = pat_for(allocs); if k == 3 && !scoped { sh.live.insert(addr, (size, pat)); } else { unsafe { sh.insert_fill(addr, size, pat); } }
                        live.push((addr, size, pat)); allocs += 1; c.ev(3);
                    }
                }
            }
            4 if !scoped => { check_all(&mut sh, c, &when)?; vecs.clear(); unsafe { plain.as_ref().unwrap().reset(); } sh = Shadow::new(); live.clear(); resets += 1; }
            4 => { if scopes.len() < 6 { let a = arena.as_ref().unwrap(); scopes.push((a.scope(), live.len(), 0)); } }
            5 if scoped => { if let Some((s, mark, _)) = scopes.pop() { check_all(&mut sh, c, &when)?; drop(s); for (a, _, _) in live.drain(mark..) { sh.remove(a); } resets += 1; } }
            _ => {}
        }
        if i % 16 == 15 { check_all(&mut sh, c, &when)?; }
    }
    check_all(&mut sh, c, "end")?;
    while let Some((s, _, _)) = scopes.pop() { drop(s); }
    drop(vecs);
    c.note("allocs", allocs); c.note("refused", refusals); c.note("resets", resets); c.set_nontrivial(allocs >= 2);
    Ok(())
}

trait PatT: Copy + PartialEq + std::fmt::Debug { fn mk(p: u8) -> Self; }
impl PatT for u8 { fn mk(p: u8) -> u8 { p } }
impl PatT for u64 { fn mk(p: u8) -> u64 { u64::from_ne_bytes([p; 8]) } }
impl PatT for [u8; 24] { fn mk(p: u8) -> [u8; 24] { [p; 24] } }
impl PatT for [u16; 50] { fn mk(p: u8) -> [u16; 50] { [p as u16 * 257; 50] } }
/// CacheAlignedVec<T>: several vectors live at once; storage 64-byte aligned, disjoint, contents retained across growth.
fn cachevec_case<T: PatT>(c: &mut Case, micro: bool) -> Res {
    let n_ops = if micro { 30 + c.rng.usize_below(70) } else { 100 + c.rng.usize_below(600) };
    let esz = std::mem::size_of::<T>();
    let mut vecs: Vec<(CacheAlignedVec<T>, Vec<T>)> = Vec::new();
    let mut script = String::new(); let mut pushes = 0u64;
    let mut plan: Vec<(u8, usize, usize)> = Vec::new();
    for _ in 0..n_ops { let m = if c.rng.chance(1, 8) { 600 } else { 20 }; plan.push((c.rng.below(12) as u8, c.rng.usize_below(6), 1 + c.rng.usize_below(m))); }
    for &(k, v, n) in &plan { script += &format!("{k}:{v}:{n} "); }
    c.input_str("cfg", &format!("elem_size={esz}")); c.input_str("ops", &script);
    for (i, &(k, vi, n)) in plan.iter().enumerate() {
        if vecs.is_empty() || (k == 0 && vecs.len() < 6) { let v = if k % 2 == 0 { CacheAlignedVec::<T>::new() } else { match catch(|| CacheAlignedVec::<T>::with_capacity(n)) { Ok(Ok(v)) => v, Ok(Err(e)) => return Err(bad("ctor_err", e.to_string())), Err(p) => return Err(pfail("with_capacity", p)) } }; vecs.push((v, Vec::new())); }
        let vi = vi % vecs.len();
        let r = catch(|| -> Result<(), String> {
            let (v, m) = &mut vecs[vi];
            match k {
                1..=6 => { for j in 0..n { let x = T::mk(((i + j) % 251) as u8 + 1); v.push(x).map_err(|e| e.to_string())?; m.push(x); } }
                7 => { v.reserve(n).map_err(|e| e.to_string())?; }
                8 => { for _ in 0..n.min(m.len()) { let a = v.pop(); let b = m.pop(); if a != b { return Err(format!("POP {a:?} want {b:?}")); } } }
                9 => { let l = m.len().saturating_sub(n); v.truncate(l); m.truncate(l); }
                10 => { if n % 3 == 0 { v.clear(); m.clear(); } }
                _ => {}
            }
            Ok(())
        }).map_err(|p| pfail(&format!("op {i} kind {k} on vec {vi}"), p))?;
        if let Err(e) = r { if e.starts_with("POP") { return Err(bad("content_corrupt", format!("op {i}: {e}"))); } return Err(bad("alloc_err", format!("op {i}: {e}"))); }
        if k == 11 && vecs.len() > 1 { vecs.remove(vi); continue; }
        pushes += n as u64;
        // oracles on the touched vector + disjointness against the others
        let (v, m) = &vecs[vi];
        ensure!(v.len() == m.len() && v.capacity() >= v.len(), "short_block", "op {i}: len {} model {} capacity {}", v.len(), m.len(), v.capacity());
        if v.capacity() > 0 {
            let a = v.as_slice().as_ptr() as usize;
            ensure!(a % 64 == 0, "misaligned", "op {i}: storage at {a:#x} is not cache-line (64) aligned");
            ensure!(v.as_slice() == &m[..], "content_corrupt", "op {i}: vec {vi} (len {}) lost its contents after op kind {k}", m.len());
            c.ev(2 + m.len() as u64 / 8);
            let (lo, hi) = (a, a + v.capacity() * esz);
            for (j, (o, _)) in vecs.iter().enumerate() { if j != vi && o.capacity() > 0 { let b = o.as_slice().as_ptr() as usize; let (l2, h2) = (b, b + o.capacity() * esz); ensure!(hi <= l2 || h2 <= lo, "overlap", "op {i}: storage of vec {vi} [{lo:#x},{hi:#x}) overlaps vec {j} [{l2:#x},{h2:#x})"); } }
        }
    }
    for (v, m) in &vecs { ensure!(v.as_slice() == &m[..], "content_corrupt", "end: a vector lost its contents"); }
    c.note("pushes", pushes); c.set_nontrivial(pushes >= 2);
    Ok(())
}

/// PooledBuffer / PooledVec<u64> on the global MemoryPools.
fn pooled_case(c: &mut Case, micro: bool) -> Res { pooled_case_m(c, micro, false) }
fn pooled_case_m(c: &mut Case, micro: bool, huge: bool) -> Res {
    let n_ops = if huge { 60 + c.rng.usize_below(100) } else if micro { 30 + c.rng.usize_below(70) } else { 100 + c.rng.usize_below(500) };
    let sizes = [1usize, 8, 100, 1023, 1024, 1025, 4096, 65535, 65536, 65537, 200_000, (1 << 20) - 1, 1 << 20, (1 << 20) + 1, 3 << 19];
    let mut plan: Vec<(u8, usize)> = Vec::new(); let over = !micro && !huge && c.rng.chance(1, 4);
    // huge_sizes: only buffers at the 2^16 / 2^17 / 2^20 limits (the medium / large global pools)
    let hs = [65_535usize, 65_536, 65_537, 131_071, 131_072, 131_073, 131_074, (1 << 20) - 1, 1 << 20, (1 << 20) + 1];
    for _ in 0..n_ops { let k = c.rng.below(10) as u8; if huge { plan.push((if k == 4 || k == 5 { 0 } else { k }, *c.rng.pick(&hs))); continue; } let s = if micro || c.rng.chance(2, 3) { sizes[c.rng.usize_below(7)] } else if over { *c.rng.pick(&sizes) } else { sizes[c.rng.usize_below(13)] }; plan.push((k, s)); }
    c.input_str("ops", &plan.iter().map(|&(k, s)| match k { 0..=3 => format!("buf{s} "), 4 | 5 => "vec ".to_string(), _ => format!("drop{s} ") }).collect::<String>());
    if plan.iter().any(|&(k, s)| k <= 3 && s > 1 << 20) { c.tag("pooledbuf_gt_1mb"); }
    enum Obj { B(PooledBuffer), V(PooledVec<u64>) }
    let mut objs: Vec<(Obj, usize, usize, u8)> = Vec::new(); let mut sh = Shadow::new(); let mut made = 0u64;
    let chunk_for = |s: usize| if s <= 1024 { (1024usize, 8usize) } else if s <= 64 * 1024 { (64 * 1024, 16) } else { (1 << 20, 32) };
    for (i, &(k, s)) in plan.iter().enumerate() {
        let when = format!("op {i}");
        if k >= 6 || objs.len() >= 12 {
            if !objs.is_empty() { let j = s % objs.len(); let (o, a, n, p) = objs.remove(j); if let Some((off, v)) = unsafe { first_bad(a, n, p) } { return Err(bad("content_corrupt", format!("{when}: pooled object at {a:#x} (+{n}) byte +{off} = {v:#x}, want {p:#x}"))); } sh.remove(a); drop(o); c.ev(1); }
            continue;
        }
        let pat = pat_for(made); made += 1;
        if k <= 3 {
            let mut b = match catch(|| PooledBuffer::new(s)) { Ok(Ok(b)) => b, Ok(Err(_)) => continue, Err(p) => return Err(pfail(&format!("{when}: PooledBuffer::new({s})"), p)) };
            let (chunk, al) = chunk_for(s);
            ensure!(b.len() == s, "short_block", "{when}: PooledBuffer::new({s}).len() = {}", b.len());
            // the documented chunk size of the pool that serves this size is all the memory behind the buffer
            ensure!(s <= chunk, "short_block", "{when}: PooledBuffer::new({s}) succeeded and exposes {s} bytes, but it is backed by one {chunk}-byte chunk of the large pool");
            let a = b.as_slice().as_ptr() as usize;
            ensure!(a % al == 0, "misaligned", "{when}: PooledBuffer({s}) at {a:#x}, pool alignment {al}");
            if let Some(o) = sh.overlap(a, s.max(1)) { return Err(bad("overlap", format!("{when}: PooledBuffer({s}): {o}"))); }
            unsafe { fill(b.as_mut_slice().as_mut_ptr() as usize, s, pat); } sh.live.insert(a, (s.max(1), pat)); c.ev(4);
            objs.push((Obj::B(b), a, s, pat));
        } else {
            let mut v = match catch(|| PooledVec::<u64>::new()) { Ok(Ok(v)) => v, Ok(Err(_)) => continue, Err(p) => return Err(pfail(&format!("{when}: PooledVec::new"), p)) };
            ensure!(v.capacity() * 8 <= 1024, "short_block", "{when}: PooledVec<u64> capacity {} exceeds the 1024-byte chunk", v.capacity());
            let n = if s % 2 == 0 { v.capacity() } else { 1 + s % v.capacity().max(1) };
            for _ in 0..n { v.push(u64::from_ne_bytes([pat; 8])).map_err(|e| bad("alloc_err", format!("{when}: push within capacity failed: {e}")))?; }
            if n == v.capacity() { ensure!(v.push(0).is_err(), "capacity_not_refused", "{when}: PooledVec accepted a push beyond its capacity"); }
            let a = v.as_slice().as_ptr() as usize;
            ensure!(a % 8 == 0, "misaligned", "{when}: PooledVec<u64> at {a:#x}");
            if let Some(o) = sh.overlap(a, n * 8) { return Err(bad("overlap", format!("{when}: PooledVec: {o}"))); }
            sh.live.insert(a, (n * 8, pat)); c.ev(4);
            objs.push((Obj::V(v), a, n * 8, pat));
        }
        if i % 8 == 7 { for (_, a, n, p) in &objs { if let Some((off, v)) = unsafe { first_bad(*a, *n, *p) } { return Err(bad("content_corrupt", format!("{when}: pooled object at {a:#x} (+{n}) byte +{off} = {v:#x}, want {p:#x}"))); } c.ev(1); } }
    }
    c.note("objects", made); c.set_nontrivial(made >= 2);
    Ok(())
}

fn heap_in_use() -> Option<usize> {
    #[cfg(all(target_os = "linux", target_env = "gnu", not(miri)))]
    { let m = unsafe { libc::mallinfo2() }; let v = m.uordblks as usize + m.hblkhd as usize; if v == 0 { None } else { Some(v) } }
    #[cfg(not(all(target_os = "linux", target_env = "gnu", not(miri))))]
    { None }
}
/// SecureMemoryPool: more blocks freed than the thread-local cache holds. "Freeing returns the block for reuse":
/// a freed chunk must end up reusable (cache / global stack) or released, not lost.
fn secure_overflow_case(c: &mut Case, native: bool) -> Res {
    let cache = *c.rng.pick(&[1usize, 2, 4, 16]); let extra = 2 + c.rng.usize_below(12); let chunk = *c.rng.pick(&[4096usize, 16384]); let rounds = 6 + c.rng.usize_below(6);
    let k = cache + extra;
    c.input_str("cfg", &format!("chunk={chunk} local_cache={cache} live={k} rounds={rounds}")); c.tag("secure_cache_overflow");
    let pool = SecureMemoryPool::new(SecurePoolConfig::new(chunk, 1000, 8).with_local_cache_size(cache)).map_err(|e| bad("ctor_err", e.to_string()))?;
    let mut held: Vec<SecurePooledPtr> = Vec::with_capacity(k);
    let mut sh = Shadow::new();
    let cycle = |c: &mut Case, sh: &mut Shadow, held: &mut Vec<SecurePooledPtr>, r: usize| -> Res {
        for j in 0..k {
            let g = catch(|| pool.allocate()).map_err(|p| pfail("allocate", p))?.map_err(|e| bad("alloc_err", format!("round {r}: allocate failed: {e}")))?;
            let a = g.as_ptr() as usize; ensure!(g.size() >= chunk, "short_block", "size {}", g.size());
            if let Some(o) = sh.overlap(a, chunk) { return Err(bad("overlap", format!("round {r} block {j}: {o}"))); }
            unsafe { sh.insert_fill(a, chunk, pat_for((r * k + j) as u64)); } held.push(g); c.ev(2);
        }
        if let Some((a, s)) = unsafe { sh.verify_all() } { return Err(bad("content_corrupt", format!("round {r}: block {a:#x}+{s}"))); }
        while let Some(g) = held.pop() { sh.remove(g.as_ptr() as usize); catch(|| drop(g)).map_err(|p| pfail("drop of SecurePooledPtr", p))?; if let Some((a, s)) = unsafe { sh.verify_all() } { return Err(bad("content_corrupt", format!("round {r}: block {a:#x}+{s} disturbed by a free"))); } }
        Ok(())
    };
    cycle(c, &mut sh, &mut held, 0)?; cycle(c, &mut sh, &mut held, 1)?;
    let m0 = heap_in_use();
    for r in 0..rounds { cycle(c, &mut sh, &mut held, r + 2)?; }
    let m1 = heap_in_use();
    let s = pool.stats(); c.note("sec_pool_misses", s.pool_misses); c.note("sec_pool_hits", s.pool_hits); c.set_nontrivial(true);
    if let (true, Some(a), Some(b)) = (native, m0, m1) {
        c.ev(1); c.note("heap_growth_bytes", b.saturating_sub(a) as u64);
        ensure!(b < a + 2 * chunk, "free_leaks_block", "{rounds} rounds of allocate {k} / free {k} (thread-local cache holds {cache}) grew the heap by {} bytes (= {} chunks of {chunk}); pool_misses={} — chunks freed while the thread-local cache is full are neither reusable nor released", b - a, (b - a) / chunk, s.pool_misses);
    } else { c.note("leak_check_skipped", 1); }
    Ok(())
}

/// huge_: bump capacities just above powers of two; > 65536 / > 10^5 / > 2^17 tiny blocks until the allocator refuses; blocks of
/// 2^16 +- 1 bytes with large alignments; alloc_slice / BumpVec with > 65536 elements.
fn bump_huge_case(c: &mut Case, scoped: bool) -> Res {
    let cap = *c.rng.pick(&[65_537usize, 131_073, 196_609, 262_145, (1 << 20) + 1, (4 << 20) + 3]);
    let mode = c.rng.below(3);
    c.input_str("cfg", &format!("capacity={cap} scoped={scoped} mode={}", ["tiny_blocks", "big_blocks", "typed"][mode as usize]));
    let arena = if scoped { Some(BumpArena::new(cap).map_err(|e| bad("ctor_err", e.to_string()))?) } else { None };
    let plain = if scoped { None } else { Some(BumpAllocator::new(cap).map_err(|e| bad("ctor_err", e.to_string()))?) };
    let scope = arena.as_ref().map(|a| a.scope());
    let alloc = |size: usize, align: usize| -> Result<Result<usize, String>, PanicInfo> { catch(|| match (&plain, &scope) { (Some(b), _) => b.alloc_bytes(size, align), (_, Some(s)) => s.alloc_bytes(size, align), _ => unreachable!() }.map(|p| p.as_ptr() as usize).map_err(|e| e.to_string())) };
    let remaining = || match (&plain, &scope) { (Some(b), _) => b.remaining_bytes(), (_, Some(s)) => s.stats().remaining_bytes, _ => 0 };
    let mut sh = Shadow::new(); let mut base: Option<usize> = None; let mut n = 0u64;
    let mut script = String::new();
    let mut put = |c: &mut Case, sh: &mut Shadow, size: usize, align: usize, addr: usize, n: u64| -> Res {
        let used = cap - remaining();
        let b = *base.get_or_insert((addr + size).wrapping_sub(used));
        ensure!(addr % align == 0, "misaligned", "block {n}: alloc_bytes({size}, align {align}) returned {addr:#x}");
        ensure!(addr >= b && addr + size <= b + cap, "out_of_arena", "block {n}: [{addr:#x},+{size}) outside the {cap}-byte buffer at {b:#x}");
        if let Some(o) = sh.overlap(addr, size) { return Err(bad("overlap", format!("block {n}: alloc_bytes({size}, {align}): {o}"))); }
        let pat = pat_for(n); unsafe { sh.insert_fill(addr, size, pat); }
        c.ev(3); Ok(())
    };
    match mode {
        0 => { // tiny blocks until refusal: capacity / size live blocks (> 65536 for every capacity here with size 1)
            let size = (*c.rng.pick(&[1usize, 1, 2, 3])).max((cap + 262_143) / 262_144); let align = *c.rng.pick(&[1usize, 1, 2]); script = format!("b{size}/{align} until refused");
            loop {
                match alloc(size, align).map_err(|p| pfail("alloc_bytes", p))? { Err(_) => break, Ok(a) => { put(c, &mut sh, size, align, a, n)?; n += 1; } }
                ensure!(n as usize <= cap, "capacity_not_refused", "{n} blocks of {size} byte(s) handed out by a {cap}-byte allocator");
            }
        }
        1 => { // blocks around 2^16 / 2^17 with alignments up to 65536, until refusal
            for i in 0..200u64 {
                let size = *c.rng.pick(&[65_535usize, 65_536, 65_537, 131_071, 131_073, 1]); let align = *c.rng.pick(&[1usize, 8, 16, 4096, 65_536]); script += &format!("b{size}/{align} ");
                match alloc(size, align).map_err(|p| pfail("alloc_bytes", p))? { Err(_) => { if i > 3 && c.rng.bool() { break; } } Ok(a) => { put(c, &mut sh, size, align, a, n)?; n += 1; } }
            }
        }
        _ => { // > 65536 elements through the typed API
            if let Some(b) = &plain {
                let cnt = *c.rng.pick(&[65_537usize, 100_003]).min(&(cap / 16)); script = format!("slice_u32x{cnt} bumpvec_u64x{}", cnt / 2);
                if let Ok(p) = catch(|| b.alloc_slice::<u32>(cnt)).map_err(|p| pfail("alloc_slice", p))? { put(c, &mut sh, cnt * 4, 4, p.as_ptr() as *mut u32 as usize, n)?; n += 1; }
                if let Ok(mut v) = catch(|| BumpVec::<u64>::new_in(b, cnt / 2)).map_err(|p| pfail("BumpVec::new_in", p))? {
                    for i in 0..cnt / 2 { v.push(i as u64 ^ 0x5555).map_err(|e| bad("alloc_err", format!("push {i} within capacity: {e}")))?; }
                    ensure!(v.push(0).is_err(), "capacity_not_refused", "BumpVec accepted a push beyond its capacity {}", cnt / 2);
                    let a = v.as_slice().as_ptr() as usize; ensure!(a % 8 == 0, "misaligned", "BumpVec<u64> storage at {a:#x}");
                    if let Some(o) = sh.overlap(a, cnt / 2 * 8) { return Err(bad("overlap", format!("BumpVec storage: {o}"))); }
                    ensure!(v.as_slice().iter().enumerate().all(|(i, &x)| x == i as u64 ^ 0x5555), "content_corrupt", "BumpVec with {} elements lost its contents", cnt / 2); c.ev(cnt as u64 / 2); n += 1;
                }
            } else { let s = scope.as_ref().unwrap(); let cnt = 65_537usize.min(cap / 8); script = format!("scope slice_u32x{cnt}");
                if let Ok(p) = catch(|| s.alloc_slice::<u32>(cnt)).map_err(|p| pfail("alloc_slice", p))? { put(c, &mut sh, cnt * 4, 4, p.as_ptr() as *mut u32 as usize, n)?; n += 1; } }
            // then tiny blocks to the end
            let fsz = (remaining() / 100_000).max(1);
            loop { match alloc(fsz, 1).map_err(|p| pfail("alloc_bytes", p))? { Err(_) => break, Ok(a) => { put(c, &mut sh, fsz, 1, a, n)?; n += 1; } } ensure!(n as usize <= cap + 2, "capacity_not_refused", "{n} blocks from a {cap}-byte allocator"); }
        }
    }
    c.input_str("ops", &script);
    if let Some((a, sz)) = unsafe { sh.verify_all() } { return Err(bad("content_corrupt", format!("bump block at {a:#x} (+{sz}) lost its contents ({n} blocks live)"))); }
    c.ev(sh.len() as u64); c.note("allocs", n); if n > 65_536 { c.note("live_gt_65536", 1); } if n > 100_000 { c.note("live_gt_100000", 1); }
    c.set_nontrivial(n >= 2);
    Ok(())
}

/// huge_: CacheAlignedVec grown past 2^16 / 10^5 / 2^17 elements (every doubling step re-allocates and copies), then
/// pop / truncate / clear / regrow. Exact oracle: a std Vec model compared at checkpoints (linear).
fn cachevec_huge_case<T: PatT>(c: &mut Case) -> Res {
    let target_len = *c.rng.pick(&[65_537usize, 100_003, 131_073]);
    let pre = if c.rng.bool() { *c.rng.pick(&[0usize, 65_536, 65_537, 131_073]) } else { 0 };
    c.input_str("cfg", &format!("elem_size={} len={target_len} with_capacity={pre}", std::mem::size_of::<T>()));
    let mut v = if pre == 0 { CacheAlignedVec::<T>::new() } else { catch(|| CacheAlignedVec::<T>::with_capacity(pre)).map_err(|p| pfail("with_capacity", p))?.map_err(|e| bad("ctor_err", e.to_string()))? };
    let mut m: Vec<T> = Vec::new(); let mut reallocs = 0u64; let mut last_ptr = 0usize;
    let mut check = |c: &mut Case, v: &CacheAlignedVec<T>, m: &Vec<T>, when: &str| -> Res {
        ensure!(v.len() == m.len() && v.capacity() >= v.len(), "short_block", "{when}: len {} model {} capacity {}", v.len(), m.len(), v.capacity());
        if v.capacity() > 0 { let a = v.as_slice().as_ptr() as usize; ensure!(a % 64 == 0, "misaligned", "{when}: storage at {a:#x} is not 64-byte aligned"); }
        if let Some(i) = (0..m.len()).find(|&i| v.as_slice()[i] != m[i]) { return Err(bad("content_corrupt", format!("{when}: element {i} of {} is {:?}, want {:?}", m.len(), v.as_slice()[i], m[i]))); }
        c.ev(1 + m.len() as u64 / 64); Ok(())
    };
    for i in 0..target_len {
        let x = T::mk((i % 251) as u8 + 1);
        catch(|| v.push(x)).map_err(|p| pfail(&format!("push #{i}"), p))?.map_err(|e| bad("alloc_err", format!("push #{i}: {e}")))?; m.push(x);
        let p = v.as_slice().as_ptr() as usize;
        if p != last_ptr { last_ptr = p; reallocs += 1; check(c, &v, &m, &format!("after the re-allocation at len {}", m.len()))?; }
        else if i == 65_535 || i == 65_536 || i == 99_999 || i == 131_071 || i + 1 == target_len { check(c, &v, &m, &format!("at len {}", m.len()))?; }
    }
    // shrink below the thresholds and grow again
    for _ in 0..1000 { let a = v.pop(); let b = m.pop(); ensure!(a == b, "content_corrupt", "pop returned {a:?}, want {b:?}"); }
    let keep = *c.rng.pick(&[65_536usize, 65_537, 1000, 0]).min(&m.len()); v.truncate(keep); m.truncate(keep); check(c, &v, &m, "after truncate")?;
    catch(|| v.reserve(target_len)).map_err(|p| pfail("reserve", p))?.map_err(|e| bad("alloc_err", e.to_string()))?; check(c, &v, &m, "after reserve")?;
    for i in 0..70_000usize { let x = T::mk((i % 199) as u8 + 3); v.push(x).map_err(|e| bad("alloc_err", e.to_string()))?; m.push(x); }
    check(c, &v, &m, "after regrow")?;
    v.clear(); m.clear(); check(c, &v, &m, "after clear")?;
    c.note("reallocs", reallocs); c.note("pushes", target_len as u64 + 70_000); c.set_nontrivial(true);
    Ok(())
}

fn hugepage_case(c: &mut Case) -> Res {
    #[cfg(target_os = "linux")]
    {
        let n = 1 + c.rng.usize_below(3); c.input_str("cfg", &format!("hugepages x{n}"));
        let al = HugePageAllocator::new().map_err(|e| bad("ctor_err", e.to_string()))?;
        ensure!(al.allocate(4096).is_err(), "capacity_not_refused", "HugePageAllocator handed out a 4096-byte request below its documented minimum");
        let mut pages = Vec::new(); let mut sh = Shadow::new();
        for i in 0..n {
            let size = (2 << 20) + i * 12345;
            match al.allocate(size) {
                Err(e) => { if pages.is_empty() { return crate::ctx::inconclusive(format!("kernel grants no huge pages: {e}")); } break; }
                Ok(mut p) => { let a = p.as_slice().as_ptr() as usize; ensure!(p.size() >= size, "short_block", "size {}", p.size()); ensure!(a % (2 << 20) == 0, "misaligned", "huge page at {a:#x}");
                    if let Some(o) = sh.overlap(a, size) { return Err(bad("overlap", o)); } unsafe { fill(p.as_mut_slice().as_mut_ptr() as usize, size, pat_for(i as u64)); } sh.live.insert(a, (size, pat_for(i as u64))); c.ev(3); pages.push((p, a, size, pat_for(i as u64))); }
            }
        }
        for (_, a, n, p) in &pages { ensure!(unsafe { first_bad(*a, *n, *p) }.is_none(), "content_corrupt", "huge page lost contents"); }
        c.set_nontrivial(pages.len() >= 2); return Ok(());
    }
    #[allow(unreachable_code)]
    { let _ = c; crate::ctx::inconclusive("not linux") }
}

#[repr(align(64))]
#[derive(Clone, Copy)]
struct Over64([u8; 64]);
/// PooledVec<T> with align_of::<T>() above the pool's 8-byte alignment. A misaligned element pointer makes the
/// library's own `ptr.write` hit the debug precondition check (non-unwinding panic => worker death): this case is last.
fn pooledvec_overalign_case(c: &mut Case) -> Res {
    c.input_str("cfg", "PooledVec<#[repr(align(64))] [u8;64]> x8"); c.tag("pooledvec_align_gt_pool");
    let mut vs = Vec::new();
    for i in 0..8u8 {
        // refusing an element type the pool cannot align is a valid outcome ("with an error, never by handing out memory")
        let mut v = match PooledVec::<Over64>::new() { Ok(v) => v, Err(_) => { c.note("refused", 1); c.ev(1); continue; } };
        v.push(Over64([i; 64])).map_err(|e| bad("alloc_err", e.to_string()))?;
        let a = v.as_slice().as_ptr() as usize; c.ev(1);
        ensure!(a % 64 == 0, "misaligned", "PooledVec<T> with align_of::<T>() = 64 stores its elements at {a:#x}");
        vs.push(v);
    }
    c.set_nontrivial(true); Ok(())
}

// ================================================================================================
// gap-coverage families: slice views of the RAII guards (views), capacity / fit queries (query), free-list walks
// against the live set (walk), builder-made configurations (builder), five-level handles (handle_*).
// All cases below live in NEW generator families; nothing above draws differently because of them.
// ================================================================================================
trait View {
    fn vptr(&self) -> usize; fn vsize(&self) -> usize; fn vs(&self) -> &[u8]; fn vm(&mut self) -> &mut [u8];
    /// alignment this particular block must have (documented per tier), 1 = nothing beyond the pool's own
    fn valign(&self) -> usize { 1 }
    /// further accessor-consistency checks of the guard
    fn vextra(&mut self) -> Result<(), String> { Ok(()) }
}
impl View for LockFreeAllocation { fn vptr(&self) -> usize { self.as_ptr() as usize } fn vsize(&self) -> usize { self.size() } fn vs(&self) -> &[u8] { self.as_slice() } fn vm(&mut self) -> &mut [u8] { self.as_mut_slice() } }
impl View for ThreadLocalAllocation { fn vptr(&self) -> usize { self.as_ptr() as usize } fn vsize(&self) -> usize { self.size() } fn vs(&self) -> &[u8] { self.as_slice() } fn vm(&mut self) -> &mut [u8] { self.as_mut_slice() } }
impl View for FixedCapacityAllocation { fn vptr(&self) -> usize { self.as_ptr() as usize } fn vsize(&self) -> usize { self.size() } fn vs(&self) -> &[u8] { self.as_slice() } fn vm(&mut self) -> &mut [u8] { self.as_mut_slice() } }
impl View for SecurePooledPtr {
    fn vptr(&self) -> usize { self.as_ptr() as usize } fn vsize(&self) -> usize { self.size() } fn vs(&self) -> &[u8] { self.as_slice() } fn vm(&mut self) -> &mut [u8] { self.as_mut_slice() }
    fn vextra(&mut self) -> Result<(), String> {
        match self.as_non_null() { Some(p) if p.as_ptr() == self.as_ptr() => {} o => return Err(format!("as_non_null() = {o:?} but as_ptr() = {:p}", self.as_ptr())) }
        self.validate().map_err(|e| format!("live guard (generation {}) fails validate(): {e}", self.generation()))
    }
}
impl View for MmapAllocation {
    fn vptr(&self) -> usize { self.as_ptr::<u8>() as usize } fn vsize(&self) -> usize { self.size() } fn vs(&self) -> &[u8] { self.as_slice() } fn vm(&mut self) -> &mut [u8] { self.as_mut_slice() }
    fn valign(&self) -> usize { 4096 }
    fn vextra(&mut self) -> Result<(), String> {
        if self.as_mut_ptr() as usize != self.as_ptr::<u8>() as usize { return Err(format!("as_mut_ptr() = {:p} but as_ptr() = {:p}", self.as_mut_ptr(), self.as_ptr::<u8>())); }
        if self.actual_size() < self.size() { return Err(format!("actual_size() {} < size() {}", self.actual_size(), self.size())); }
        Ok(())
    }
}
impl View for TieredAllocation {
    fn vptr(&self) -> usize { self.as_ptr::<u8>() as usize } fn vsize(&self) -> usize { self.size() } fn vs(&self) -> &[u8] { self.as_slice() } fn vm(&mut self) -> &mut [u8] { self.as_mut_slice() }
    fn valign(&self) -> usize { match self { TieredAllocation::Small(..) => 8, TieredAllocation::Medium(..) => 16, _ => 4096 } }
}
#[cfg(target_os = "linux")]
impl View for HugePage { fn vptr(&self) -> usize { self.as_slice().as_ptr() as usize } fn vsize(&self) -> usize { self.size() } fn vs(&self) -> &[u8] { self.as_slice() } fn vm(&mut self) -> &mut [u8] { self.as_mut_slice() } fn valign(&self) -> usize { self.page_size().max(1) } }

/// script entry: (0, size) allocate | (1, k) free the k-th live guard | (2, _) sweep
fn views_script(r: &mut Rng, n: usize, max_live: usize, mut size: impl FnMut(&mut Rng) -> usize) -> Vec<(u8, usize)> {
    let mut v = Vec::new(); let mut live = 0usize;
    for i in 0..n { if live == 0 || (live < max_live && r.chance(3, 5)) { v.push((0u8, size(r).max(1))); live += 1; } else { v.push((1u8, r.usize_below(1 << 20))); live -= 1; } if i % 17 == 16 { v.push((2, 0)); } }
    v
}
fn views_str(s: &[(u8, usize)]) -> String { s.iter().map(|&(k, x)| match k { 0 => format!("a{x} "), 1 => format!("f{x} "), _ => "v ".to_string() }).collect() }
fn view_check<G: View>(c: &mut Case, g: &G, pat: u8, when: &str) -> Res {
    let s = g.vs(); c.ev(1);
    ensure!(s.as_ptr() as usize == g.vptr() && s.len() == g.vsize(), "view_mismatch", "{when}: as_slice() = [{:#x},+{}) but as_ptr()/size() = [{:#x},+{})", s.as_ptr() as usize, s.len(), g.vptr(), g.vsize());
    if let Some(i) = s.iter().position(|&b| b != pat) { return Err(bad("content_corrupt", format!("{when}: live block [{:#x},+{}) byte +{i} = {:#04x}, want {pat:#04x} (read through as_slice())", g.vptr(), s.len(), s[i]))); }
    Ok(())
}
/// Generic history over RAII guards. Blocks are written through as_mut_slice() and read back through as_slice().
/// `pre(size, live)` = Ok(true) when the request must be refused, Err(..) when a capacity query contradicts the model;
/// `post(live ranges)` = structural checks (free lists vs. live set, capacity accounting) after every operation.
fn views_run<G: View>(c: &mut Case, script: &[(u8, usize)], align: usize,
    alloc: &mut dyn FnMut(usize) -> Result<G, String>, free: &mut dyn FnMut(G) -> Result<(), String>,
    pre: &mut dyn FnMut(usize, usize) -> Result<bool, String>, post: &mut dyn FnMut(&[(usize, usize)]) -> Result<(), (String, String)>) -> Result<Vec<usize>, Fail> {
    let mut live: Vec<(G, usize, u8)> = Vec::new(); let mut sh = Shadow::new(); let mut ever: Vec<usize> = Vec::new();
    let (mut allocs, mut frees, mut refused) = (0u64, 0u64, 0u64);
    for (i, &(k, x)) in script.iter().enumerate() {
        let when = format!("op {i}");
        match k {
            0 => {
                let must_refuse = pre(x, live.len()).map_err(|e| bad("capacity_query_mismatch", format!("{when}: before allocate({x}) with {} live: {e}", live.len())))?;
                match catch(|| alloc(x)).map_err(|p| pfail(&format!("{when}: allocate({x})"), p))? {
                    Err(_) => { refused += 1; }
                    Ok(mut g) => {
                        ensure!(!must_refuse, "capacity_not_refused", "{when}: allocate({x}) returned Ok although the pool's own capacity query says it cannot be served ({} live)", live.len());
                        let (a, n) = (g.vptr(), g.vsize()); let al = align.max(g.valign()).max(1); c.ev(4);
                        ensure!(n >= x, "short_block", "{when}: allocate({x}) returned a guard of size() {n}");
                        ensure!(a != 0 && a % al == 0, "misaligned", "{when}: allocate({x}) returned {a:#x}, not a multiple of the required alignment {al}");
                        if let Some(o) = sh.overlap(a, n.max(1)) { return Err(bad("overlap", format!("{when}: allocate({x}) -> {o}"))); }
                        if let Err(e) = g.vextra() { return Err(bad("view_mismatch", format!("{when}: allocate({x}): {e}"))); }
                        let pat = pat_for(allocs); let m = g.vm();
                        ensure!(m.as_mut_ptr() as usize == a && m.len() == n, "view_mismatch", "{when}: as_mut_slice() = [{:#x},+{}) but as_ptr()/size() = [{a:#x},+{n})", m.as_mut_ptr() as usize, m.len());
                        m.fill(pat); sh.live.insert(a, (n.max(1), pat)); ever.push(a); live.push((g, x, pat)); allocs += 1;
                    }
                }
            }
            1 => if !live.is_empty() {
                let (g, req, pat) = live.remove(x % live.len());
                view_check(c, &g, pat, &format!("{when}: before free of the block requested with size {req}"))?;
                sh.remove(g.vptr());
                if let Err(e) = catch(|| free(g)).map_err(|p| pfail(&format!("{when}: free (size {req})"), p))? { return Err(bad("free_err", format!("{when}: free of a valid live block (size {req}) returned Err: {e}"))); }
                frees += 1;
                for (g, _, pat) in &live { view_check(c, g, *pat, &format!("{when}: after free of a block of size {req}"))?; }
            },
            _ => { for (g, _, pat) in &live { view_check(c, g, *pat, &format!("{when}: sweep"))?; } }
        }
        let ranges: Vec<(usize, usize)> = live.iter().map(|(g, _, _)| (g.vptr(), g.vsize().max(1))).collect();
        if let Err((oracle, e)) = post(&ranges) { return Err(bad(&oracle, format!("{when} ({}): {e}", match k { 0 => format!("allocate({x})"), 1 => "free".to_string(), _ => "sweep".to_string() }))); }
    }
    while let Some((g, req, pat)) = live.pop() {
        view_check(c, &g, pat, "final cleanup")?; sh.remove(g.vptr());
        if let Err(e) = catch(|| free(g)).map_err(|p| pfail(&format!("final cleanup: free (size {req})"), p))? { return Err(bad("free_err", format!("final cleanup: free of a valid live block (size {req}) returned Err: {e}"))); }
        frees += 1;
        for (g, _, pat) in &live { view_check(c, g, *pat, "final cleanup: after a free")?; }
    }
    if let Err((oracle, e)) = post(&[]) { return Err(bad(&oracle, format!("after everything was freed: {e}"))); }
    c.note("allocs", allocs); c.note("frees", frees); c.note("refused", refused); c.set_nontrivial(allocs >= 2 && frees >= 1);
    Ok(ever)
}
/// free-list entries (address, length) against the live ranges: inside the arena, pairwise distinct, disjoint from every live block
fn free_vs_live(entries: &[(usize, usize)], live: &[(usize, usize)], arena: Option<(usize, usize)>) -> Result<(), (String, String)> {
    let mut seen = std::collections::HashSet::new();
    for &(a, n) in entries {
        if !seen.insert(a) { return Err(("block_parked_twice".into(), format!("block {a:#x} appears twice in the pool's free lists"))); }
        if let Some((base, size)) = arena { if a < base || a + n > base + size { return Err(("free_block_out_of_arena".into(), format!("free-list block [+{:#x},+{n}) lies outside the {size}-byte arena", a.wrapping_sub(base)))); } }
        for &(l, m) in live { if a < l + m && l < a + n { return Err(("live_block_in_free_list".into(), format!("free-list block [{a:#x},+{n}) overlaps the live block [{l:#x},+{m}): the next allocation of that class would hand out live memory"))); } }
    }
    Ok(())
}
fn no_pre() -> impl FnMut(usize, usize) -> Result<bool, String> { |_, _| Ok(false) }
fn no_post() -> impl FnMut(&[(usize, usize)]) -> Result<(), (String, String)> { |_| Ok(()) }

fn views_lf_case(c: &mut Case) -> Res {
    let mut cfg = LockFreePoolConfig::compact(); cfg.memory_size = *c.rng.pick(&[65_536usize, 100_000, 262_144]); cfg.zero_on_free = c.rng.bool(); cfg.enable_stats = c.rng.bool(); cfg.backoff_strategy = BackoffStrategy::None;
    c.input_str("cfg", &format!("memory_size={} zero_on_free={} stats={}", cfg.memory_size, cfg.zero_on_free, cfg.enable_stats));
    let tab = lf_tab(true); let n = 60 + c.rng.usize_below(160);
    let script = views_script(&mut c.rng, n, 12, |r| pick_size(r, &tab, false)); c.input_str("ops", &views_str(&script));
    let pool = match catch(|| LockFreeMemoryPool::new(cfg)) { Ok(Ok(p)) => Arc::new(p), Ok(Err(e)) => return crate::ctx::inconclusive(format!("LockFreeMemoryPool::new: {e}")), Err(p) => return Err(pfail("LockFreeMemoryPool::new", p)) };
    let (p1, p2) = (pool.clone(), pool.clone());
    let mut alloc = move |s: usize| p1.allocate(s).map(|p| LockFreeAllocation::new(p, s, p1.clone())).map_err(|e| e.to_string());
    let mut free = |g: LockFreeAllocation| { drop(g); Ok(()) };
    let mut post = move |live: &[(usize, usize)]| -> Result<(), (String, String)> {
        let lists = p2.verif_walk_free_lists().map_err(|e| ("free_structure_malformed".to_string(), e))?; let (base, size) = p2.verif_arena();
        let ent: Vec<(usize, usize)> = lists.iter().flat_map(|(bs, offs)| offs.iter().map(move |&o| (base + o as usize, *bs))).collect();
        free_vs_live(&ent, live, Some((base, size)))
    };
    let ever = views_run(c, &script, 8, &mut alloc, &mut free, &mut no_pre(), &mut post)?;
    // quiescent: every block ever handed out by the fast bins is parked exactly once
    let lists = pool.verif_walk_free_lists().map_err(|e| bad("free_structure_malformed", e))?; let (base, _) = pool.verif_arena();
    let parked: std::collections::HashSet<usize> = lists.iter().flat_map(|(_, offs)| offs.iter().map(|&o| base + o as usize)).collect();
    let distinct: std::collections::HashSet<usize> = ever.iter().copied().collect(); c.ev(2);
    for a in &parked { ensure!(distinct.contains(a), "unknown_block_parked", "block +{:#x} is in a free list but was never handed out", a - base); }
    ensure!(parked.len() == distinct.len(), "block_lost", "{} distinct blocks were handed out and all were freed, but the free lists hold {}", distinct.len(), parked.len());
    Ok(())
}
fn views_tl_case(c: &mut Case) -> Res {
    let which = *c.rng.pick(&["default", "compact"]); let cfg = tl_cfg(which); let arena = cfg.arena_size; c.input_str("cfg", &format!("{which} arena={arena}"));
    let tab = tl_tab(arena, false); let n = 60 + c.rng.usize_below(160);
    let script = views_script(&mut c.rng, n, 12, |r| pick_size(r, &tab, false)); c.input_str("ops", &views_str(&script));
    let pool = match catch(|| ThreadLocalMemoryPool::new(cfg)) { Ok(Ok(p)) => p, Ok(Err(e)) => return Err(bad("ctor_err", format!("ThreadLocalMemoryPool::new: {e}"))), Err(p) => return Err(pfail("ThreadLocalMemoryPool::new", p)) };
    let p1 = pool.clone();
    let mut alloc = move |s: usize| p1.allocate(s).map_err(|e| e.to_string());
    let mut free = |g: ThreadLocalAllocation| { drop(g); Ok(()) };
    let r = views_run(c, &script, 8, &mut alloc, &mut free, &mut no_pre(), &mut no_post());
    c.note("tl_memory_usage", pool.memory_usage() as u64);
    if r.is_ok() { pool.clear_caches(); }
    r.map(|_| ())
}
fn views_fc_case(c: &mut Case) -> Res {
    let mut cfg = fc_cfg(c, "custom"); cfg.enable_stats = c.rng.chance(3, 4);
    c.input_str("cfg", &format!("max_block={} blocks={} align={} eager={} clear={} stats={}", cfg.max_block_size, cfg.total_blocks, cfg.alignment, cfg.eager_allocation, cfg.secure_clear, cfg.enable_stats));
    if cfg.max_block_size % cfg.alignment != 0 { c.tag("fc_block_not_multiple_of_align"); }
    let tab = SizeTab { bounds: fc_classes(cfg.max_block_size, cfg.alignment), max: cfg.max_block_size + 9, big: vec![], aligns: vec![], min: 1, live_bytes: 0, exact: false };
    let n = 60 + c.rng.usize_below(160); let max_live = cfg.total_blocks + 2;
    let script = views_script(&mut c.rng, n, max_live.min(24), |r| pick_size(r, &tab, false)); c.input_str("ops", &views_str(&script));
    let cfg2 = cfg.clone();
    let pool = match catch(|| FixedCapacityMemoryPool::new(cfg2)) { Ok(Ok(p)) => Box::new(p), Ok(Err(e)) => return Err(bad("ctor_err", format!("FixedCapacityMemoryPool::new: {e}"))), Err(p) => return Err(pfail("FixedCapacityMemoryPool::new", p)) };
    let pool: &FixedCapacityMemoryPool = &pool; let (total, maxb, stats_on) = (cfg.total_blocks, cfg.max_block_size, cfg.enable_stats);
    let mut alloc = |s: usize| pool.allocate(s).map_err(|e| e.to_string());
    let mut free = |g: FixedCapacityAllocation| { drop(g); Ok(()) };
    let mut pre = |size: usize, live: usize| -> Result<bool, String> {
        let has = pool.has_capacity(size);
        if size > maxb { if has { return Err(format!("has_capacity({size}) = true for a request above max_block_size {maxb}")); } return Ok(true); }
        if stats_on { let want = live < total; if has != want { return Err(format!("has_capacity({size}) = {has} with {live} of {total} blocks live")); } return Ok(!want); }
        Ok(live >= total)
    };
    let mut post = |live: &[(usize, usize)]| -> Result<(), (String, String)> {
        if stats_on {
            let av = pool.available_capacity(); let want = (total - live.len().min(total)) * maxb;
            if av != want { return Err(("capacity_query_mismatch".into(), format!("available_capacity() = {av} with {} of {total} blocks live (max_block_size {maxb}): expected {want}", live.len()))); }
            if let Some(s) = pool.stats() { let at = s.is_at_capacity(total); if at != (live.len() >= total) { return Err(("capacity_query_mismatch".into(), format!("stats().is_at_capacity({total}) = {at} with {} blocks live", live.len()))); } }
        }
        let lists = pool.verif_walk_free_lists().map_err(|e| ("free_structure_malformed".to_string(), e))?;
        let arena = pool.verif_arena(); let base = arena.map_or(0, |a| a.0);
        let ent: Vec<(usize, usize)> = lists.iter().flat_map(|(cs, offs)| offs.iter().map(move |&o| (base + o as usize, (*cs).max(1)))).collect();
        free_vs_live(&ent, live, arena)?;
        if let Some((b, sz)) = arena { for &(l, m) in live { if l < b || l + m > b + sz { return Err(("out_of_arena".into(), format!("live block [{l:#x},+{m}) outside the arena [{b:#x},+{sz})"))); } } }
        Ok(())
    };
    views_run(c, &script, cfg.alignment, &mut alloc, &mut free, &mut pre, &mut post).map(|_| ())
}
const SEC_CLASSES: &[usize] = &[8, 16, 32, 48, 64, 80, 96, 112, 128, 160, 192, 224, 256, 320, 384, 448, 512, 640, 768, 896, 1024, 1280, 1536, 1792, 2048, 2560, 3072, 3584, 4096, 5120, 6144, 7168, 8192];
fn views_secure_case(c: &mut Case) -> Res {
    // configuration made with the builder methods only
    let chunk = *c.rng.pick(&[8usize, 64, 100, 256, 1000, 4096, 16_384]); let maxc = *c.rng.pick(&[1usize, 4, 100]); let align = *c.rng.pick(&[8usize, 8, 16, 64, 4096]);
    let (guard, batch, simd_thr, cache_al, numa, hotcold, hot_thr, hugep, huge_thr, pf) = (c.rng.bool(), *c.rng.pick(&[0usize, 1, 8, 64]), *c.rng.pick(&[0usize, 1, 64, 1 << 20]), c.rng.bool(), c.rng.bool(), c.rng.bool(), *c.rng.pick(&[0usize, 1, 1000]), c.rng.bool(), *c.rng.pick(&[0usize, 4096, 2 << 20]), *c.rng.pick(&[0usize, 1, 8, 1000]));
    let pat_k = c.rng.below(7); let lcache = *c.rng.pick(&[0usize, 1, 3, 64]); let (zf, za, simd) = (c.rng.bool(), c.rng.bool(), c.rng.bool());
    let mut cfg = SecurePoolConfig::new(chunk, maxc, 8).with_alignment(align).with_guard_pages(guard).with_batch_size(batch).with_simd_threshold(simd_thr).with_cache_alignment(cache_al)
        .with_numa_awareness(numa).with_hot_cold_separation(hotcold).with_hot_data_threshold(hot_thr).with_huge_pages(hugep).with_huge_page_threshold(huge_thr).with_prefetch_distance(pf)
        .with_local_cache_size(lcache).with_zero_on_free(zf).with_zero_on_alloc(za).with_simd_ops(simd);
    cfg = match pat_k { 0 => cfg.with_cache_config(None), 1 => cfg.with_cache_config(Some(CacheLayoutConfig::new())), 2 => cfg.with_access_pattern(AccessPattern::Sequential), 3 => cfg.with_access_pattern(AccessPattern::Random), 4 => cfg.with_access_pattern(AccessPattern::WriteHeavy), 5 => cfg.with_access_pattern(AccessPattern::ReadHeavy), _ => cfg.with_access_pattern(AccessPattern::Mixed) };
    c.input_str("cfg", &format!("builder chunk={chunk} max_chunks={maxc} align={align} guard={guard} batch={batch} simd_thr={simd_thr} cache_align={cache_al} numa={numa} hot_cold={hotcold} hot_thr={hot_thr} huge={hugep} huge_thr={huge_thr} prefetch={pf} cache_cfg={pat_k} local_cache={lcache} zero_free={zf} zero_alloc={za} simd={simd}"));
    if align > 8 { c.tag("secure_align_gt8"); } if lcache == 0 { c.tag("secure_cache0"); } if chunk % 8 != 0 { c.tag("secure_chunk_not_multiple_of_8"); }
    // builder == plain field assignment
    ensure!(cfg.chunk_size == chunk && cfg.alignment == align && cfg.use_guard_pages == guard && cfg.batch_size == batch && cfg.simd_threshold == simd_thr && cfg.enable_cache_alignment == cache_al && cfg.enable_numa_awareness == numa && cfg.enable_hot_cold_separation == hotcold && cfg.hot_data_threshold == hot_thr && cfg.enable_huge_pages == hugep && cfg.huge_page_threshold == huge_thr && cfg.prefetch_distance == pf && cfg.local_cache_size == lcache && cfg.cache_config.is_some() == (pat_k != 0),
        "builder_field_mismatch", "SecurePoolConfig built with the with_* methods does not carry the values given: {cfg:?}");
    // size classes: the class of a request is the smallest class that holds it
    for _ in 0..16 { let s = 1 + c.rng.usize_below(8192); let k = size_to_class(s); c.ev(1); ensure!(k < SEC_CLASSES.len() && SEC_CLASSES[k] >= s && (k == 0 || SEC_CLASSES[k - 1] < s), "size_class_wrong", "size_to_class({s}) = {k} (class size {:?})", SEC_CLASSES.get(k)); }
    let n = 50 + c.rng.usize_below(120); let script = views_script(&mut c.rng, n, 14, |_| chunk); c.input_str("ops", &views_str(&script));
    let mut pool = match catch(|| SecureMemoryPool::new(cfg)) { Ok(Ok(p)) => p, Ok(Err(e)) => return Err(bad("ctor_err", format!("SecureMemoryPool::new: {e}"))), Err(p) => return Err(pfail("SecureMemoryPool::new", p)) };
    let ever = {
        let p1 = pool.clone(); let p2 = pool.clone(); let mut flip = 0u64;
        let mut alloc = move |_s: usize| { flip += 1; let g = match flip % 3 { 0 => p1.allocate_with_hint(flip % 2 == 0), 1 => p1.allocate_bulk_with_prefetch(&[chunk]).map(|mut v| v.pop().unwrap()), _ => p1.allocate() }.map_err(|e| e.to_string())?;
            // a block the client has not written yet: verify_zeroed_simd must agree with a plain scan
            let plain = g.as_slice().iter().all(|&b| b == 0); match p1.verify_zeroed_simd(g.as_slice()) { Ok(v) if v == plain => {} o => { let e = format!("VERIFY_ZEROED verify_zeroed_simd = {o:?}, plain scan says {plain}"); std::mem::forget(g); return Err(e); } }
            Ok(g) };
        let mut free = |g: SecurePooledPtr| { drop(g); Ok(()) };
        let mut post = move |_: &[(usize, usize)]| p2.validate().map_err(|e| ("pool_validate_err".to_string(), e.to_string()));
        views_run(c, &script, align, &mut alloc, &mut free, &mut no_pre(), &mut post)?
    };
    // quiescent: parked chunks are pairwise distinct and were handed out before
    let s = pool.stats(); c.note("sec_pool_misses", s.pool_misses);
    ensure!(s.double_free_detected == 0 && s.corruption_detected == 0, "pool_reported_corruption", "double_free_detected={} corruption_detected={} in a history without bad frees", s.double_free_detected, s.corruption_detected);
    if let Some(inner) = Arc::get_mut(&mut pool) {
        let parked = inner.verif_free_chunks().map_err(|e| bad("free_structure_malformed", e))?; let set: std::collections::HashSet<usize> = parked.iter().copied().collect(); c.ev(2);
        ensure!(set.len() == parked.len(), "block_parked_twice", "{} parked chunks but only {} distinct addresses", parked.len(), set.len());
        for a in &set { ensure!(ever.contains(a), "unknown_block_parked", "chunk {a:#x} is parked in the pool but was never handed out"); }
    } else { c.note("pool_still_shared", 1); }
    Ok(())
}
fn views_mmap_case(c: &mut Case) -> Res {
    let dflt = c.rng.bool(); let min = if dflt { 16 * 1024 } else { *c.rng.pick(&[1usize, 4096, 16 * 1024, 65_536]) };
    c.input_str("cfg", &format!("{} min_mmap_size={min}", if dflt { "default()" } else { "new" }));
    let m = if dflt { MemoryMappedAllocator::default() } else { MemoryMappedAllocator::new(min) };
    let sizes = [1usize, 100, 4095, 4096, 4097, 8192, 16_383, 16_384, 16_385, 65_535, 65_536, 65_537, 70_000, 300_000, 1 << 20];
    let n = 40 + c.rng.usize_below(80); let script = views_script(&mut c.rng, n, 8, |r| if r.chance(1, 4) { min.saturating_sub(1 + r.usize_below(8)).max(1) } else { *r.pick(&sizes) }); c.input_str("ops", &views_str(&script));
    let mut alloc = |s: usize| m.allocate(s).map_err(|e| e.to_string());
    let mut free = |g: MmapAllocation| m.deallocate(g).map_err(|e| e.to_string());
    // should_use_mmap(size) == false  <=>  the request is below the documented minimum and is refused
    let mut pre = |size: usize, _live: usize| -> Result<bool, String> { let u = m.should_use_mmap(size); if u != (size >= min) { return Err(format!("should_use_mmap({size}) = {u} with min_mmap_size {min}")); } Ok(!u) };
    views_run(c, &script, 4096, &mut alloc, &mut free, &mut pre, &mut no_post()).map(|_| ())
}
fn views_tiered_case(c: &mut Case, global: bool) -> Res {
    c.input_str("cfg", if global { "global" } else { "default" });
    let t = if global { None } else { Some(match catch(|| TieredMemoryAllocator::new(TieredConfig::default())) { Ok(Ok(p)) => p, Ok(Err(e)) => return Err(bad("ctor_err", format!("TieredMemoryAllocator::new: {e}"))), Err(p) => return Err(pfail("TieredMemoryAllocator::new", p)) }) };
    let mut tab = tier_tab(false); tab.big = vec![16_385, 65_536, 100_000, 1 << 20];
    let n = 50 + c.rng.usize_below(120); let script = views_script(&mut c.rng, n, 10, |r| pick_size(r, &tab, true)); c.input_str("ops", &views_str(&script));
    let mut alloc = |s: usize| match &t { Some(t) => t.allocate(s), None => tiered_allocate(s) }.map_err(|e| e.to_string());
    let mut free = |g: TieredAllocation| match &t { Some(t) => t.deallocate(g), None => tiered_deallocate(g) }.map_err(|e| e.to_string());
    let mut k = 0u64;
    // pattern analysis / optimisation run in the middle of the history; the sweep that follows shows they disturbed nothing
    let mut post = |_: &[(usize, usize)]| -> Result<(), (String, String)> { k += 1; if k % 7 == 0 { match &t { Some(t) => { t.get_allocation_pattern().map_err(|e| ("optimize_err".to_string(), e.to_string()))?; t.optimize_for_pattern().map_err(|e| ("optimize_err".to_string(), e.to_string()))?; } None => { let _ = get_tiered_stats(); } } } Ok(()) };
    views_run(c, &script, 8, &mut alloc, &mut free, &mut no_pre(), &mut post).map(|_| ())
}
fn hugepage_direct_case(c: &mut Case) -> Res {
    #[cfg(target_os = "linux")]
    {
        use zipora::memory::hugepage::{get_hugepage_count, get_hugepage_info, hugepages_available, init_hugepage_support};
        let plan: Vec<(bool, usize)> = (0..1 + c.rng.usize_below(3)).map(|_| (c.rng.chance(1, 5), *c.rng.pick(&[1usize, 4096, (2 << 20) - 1, 2 << 20, (2 << 20) + 1, 5 << 20]))).collect();
        c.input_str("ops", &plan.iter().map(|&(g, s)| format!("{}:{s} ", if g { "1gb" } else { "2mb" })).collect::<String>());
        let avail = catch(|| (hugepages_available(), init_hugepage_support().is_ok(), get_hugepage_info(2 << 20).map(|i| i.free_pages).unwrap_or(0), get_hugepage_count())).map_err(|p| pfail("hugepage queries", p))?;
        c.note("hugepages_available", avail.0 as u64); c.note("free_2mb_pages", avail.2 as u64);
        let mut held: Vec<(HugePage, u8)> = Vec::new(); let mut sh = Shadow::new();
        for (i, &(gb, size)) in plan.iter().enumerate() {
            let r = catch(|| if gb { HugePage::new_1gb(size) } else { HugePage::new_2mb(size) }).map_err(|p| pfail(&format!("HugePage::new ({size})"), p))?;
            let Ok(mut p) = r else { c.note("refused", 1); continue };
            let (a, n) = (p.vptr(), p.vsize()); let pat = pat_for(i as u64); c.ev(3);
            ensure!(n >= size, "short_block", "HugePage of {size} bytes has size() {n}");
            ensure!(p.page_size() == if gb { 1 << 30 } else { 2 << 20 } && a % p.page_size() == 0, "misaligned", "huge page at {a:#x}, page_size() {}", p.page_size());
            if let Some(o) = sh.overlap(a, n) { return Err(bad("overlap", o)); }
            let m = p.vm(); ensure!(m.as_mut_ptr() as usize == a && m.len() == n, "view_mismatch", "as_mut_slice() differs from as_slice()");
            unsafe { fill(a, n, pat); } sh.live.insert(a, (n, pat)); held.push((p, pat));
        }
        for (p, pat) in &held { ensure!(unsafe { first_bad(p.vptr(), p.vsize(), *pat) }.is_none(), "content_corrupt", "huge page lost its contents"); }
        c.set_nontrivial(held.len() >= 2); return Ok(());
    }
    #[allow(unreachable_code)]
    { let _ = c; crate::ctx::inconclusive("not linux") }
}
/// BumpAllocator::can_allocate must predict alloc_bytes (single thread); BumpVec push / pop / len / capacity / as_mut_slice
/// against a Vec model while other bump blocks are live around it.
fn bump_query_case(c: &mut Case) -> Res {
    let cap = *c.rng.pick(&[1usize, 7, 8, 64, 100, 1000, 4096, 65_536]); let n = 30 + c.rng.usize_below(120);
    let plan: Vec<(u8, usize, usize, u64)> = (0..n).map(|_| { let size = match c.rng.below(4) { 0 => 1 + c.rng.usize_below(16), 1 => 1 + c.rng.usize_below(cap.min(300)), 2 => 1 + c.rng.usize_below(cap + 8), _ => (cap / 4).max(1) }; (c.rng.below(10) as u8, if c.rng.chance(1, 12) { *c.rng.pick(&refuse_sizes(cap)) } else { size }, *c.rng.pick(&[1usize, 1, 2, 4, 8, 8, 16, 3, 4096]), c.rng.next()) }).collect();
    c.input_str("cfg", &format!("capacity={cap}")); c.input_str("ops", &plan.iter().map(|&(k, s, a, _)| match k { 0..=5 => format!("b{s:#x}/{a} "), 6 | 7 => format!("vec{} ", s % 40 + 1), 8 => "vecops ".to_string(), _ => "reset ".to_string() }).collect::<String>());
    if plan.iter().any(|&(k, s, _, _)| k <= 5 && s > usize::MAX - 4096) { c.tag("size_near_usize_max"); }
    let b = BumpAllocator::new(cap).map_err(|e| bad("ctor_err", e.to_string()))?;
    ensure!(b.capacity() == cap, "short_block", "BumpAllocator::new({cap}).capacity() = {}", b.capacity());
    let mut sh = Shadow::new(); let mut vecs: Vec<(BumpVec<'_, u64>, Vec<u64>)> = Vec::new(); let (mut allocs, mut agree) = (0u64, 0u64);
    let vec_ok = |v: &BumpVec<'_, u64>, m: &Vec<u64>, when: &str| -> Res { ensure!(v.len() == m.len() && v.is_empty() == m.is_empty() && v.as_slice() == &m[..], "content_corrupt", "{when}: BumpVec (len {}) differs from its model (len {})", v.len(), m.len()); Ok(()) };
    for (i, &(k, size, align, x)) in plan.iter().enumerate() {
        let when = format!("op {i}");
        match k {
            0..=5 => {
                let can = catch(|| b.can_allocate(size, align)).map_err(|p| pfail(&format!("{when}: can_allocate({size:#x}, {align})"), p))?;
                let r = catch(|| b.alloc_bytes(size, align)).map_err(|p| pfail(&format!("{when}: alloc_bytes({size:#x}, {align})"), p))?; c.ev(1);
                ensure!(can == r.is_ok(), "can_allocate_mismatch", "{when}: can_allocate({size:#x}, {align}) = {can} but alloc_bytes returned {} ({} of {cap} bytes remaining)", if r.is_ok() { "Ok" } else { "Err" }, b.remaining_bytes());
                agree += 1;
                if let Ok(p) = r { let a = p.as_ptr() as usize; ensure!(a % align == 0, "misaligned", "{when}: alloc_bytes({size}, {align}) returned {a:#x}"); if let Some(o) = sh.overlap(a, size) { return Err(bad("overlap", format!("{when}: {o}"))); } unsafe { sh.insert_fill(a, size, pat_for(allocs)); } allocs += 1; c.ev(2); }
            }
            6 | 7 => {
                let want = size % 40 + 1;
                if let Ok(mut v) = catch(|| BumpVec::<u64>::new_in(&b, want)).map_err(|p| pfail(&format!("{when}: BumpVec::new_in({want})"), p))? {
                    ensure!(v.capacity() == want && v.len() == 0 && v.is_empty(), "short_block", "{when}: BumpVec::new_in(.., {want}): capacity {} len {}", v.capacity(), v.len());
                    let mut m = Vec::new(); for j in 0..(x as usize % (want + 1)) { let e = x.wrapping_mul(j as u64 + 3); v.push(e).map_err(|e| bad("alloc_err", format!("{when}: push within capacity: {e}")))?; m.push(e); }
                    let a = v.as_slice().as_ptr() as usize; if !m.is_empty() { ensure!(a % 8 == 0, "misaligned", "{when}: BumpVec<u64> storage at {a:#x}"); }
                    // the whole capacity belongs to the vector
                    if let Some(o) = sh.overlap(v.as_mut_slice().as_mut_ptr() as usize, want * 8) { return Err(bad("overlap", format!("{when}: BumpVec storage: {o}"))); }
                    sh.live.insert(v.as_mut_slice().as_mut_ptr() as usize, (want * 8, 0)); vecs.push((v, m)); allocs += 1; c.ev(2);
                }
            }
            8 => if !vecs.is_empty() {
                let j = x as usize % vecs.len(); let (v, m) = &mut vecs[j];
                for r in 0..(x >> 8) % 12 { match (x >> (16 + r)) & 3 {
                    0 => { let (a, w) = (v.pop(), m.pop()); ensure!(a == w, "content_corrupt", "{when}: BumpVec::pop() = {a:?}, model {w:?}"); }
                    1 => { let e = x ^ r; let ok = v.push(e).is_ok(); ensure!(ok == (m.len() < v.capacity()), "capacity_not_refused", "{when}: push at len {} capacity {} returned ok={ok}", m.len(), v.capacity()); if ok { m.push(e); } }
                    2 => { if !m.is_empty() { let q = x as usize % m.len(); v.as_mut_slice()[q] = !x; m[q] = !x; } ensure!(v.as_mut_slice().len() == m.len(), "content_corrupt", "{when}: as_mut_slice().len() {} model {}", v.as_mut_slice().len(), m.len()); }
                    _ => {} } c.ev(1); }
                vec_ok(v, m, &when)?;
            },
            _ => { for (v, m) in &vecs { vec_ok(v, m, &when)?; } sh.live.retain(|_, v| v.1 != 0); if let Some((a, s)) = unsafe { sh.verify_all() } { return Err(bad("content_corrupt", format!("{when}: bump block at {a:#x} (+{s}) lost its contents"))); } vecs.clear(); sh = Shadow::new(); unsafe { b.reset(); } }
        }
        if i % 8 == 7 { for (v, m) in &vecs { vec_ok(v, m, &when)?; } }
    }
    for (v, m) in &vecs { vec_ok(v, m, "end")?; }
    sh.live.retain(|_, v| v.1 != 0); if let Some((a, s)) = unsafe { sh.verify_all() } { return Err(bad("content_corrupt", format!("end: bump block at {a:#x} (+{s}) lost its contents"))); }
    c.note("allocs", allocs); c.note("can_allocate_checks", agree); c.set_nontrivial(allocs >= 2);
    Ok(())
}
/// CacheAlignedVec::with_numa_node + element accessors (get / get_mut / as_mut_slice / is_empty) against a Vec model.
fn cachevec_access_case(c: &mut Case) -> Res {
    let n_ops = 60 + c.rng.usize_below(200); let plan: Vec<(u8, usize, u64)> = (0..n_ops).map(|_| (c.rng.below(10) as u8, c.rng.usize_below(4), c.rng.next())).collect();
    c.input_str("ops", &plan.iter().map(|&(k, v, x)| format!("{k}:{v}:{} ", x % 1000)).collect::<String>());
    let mut vecs: Vec<(CacheAlignedVec<u64>, Vec<u64>)> = (0..4).map(|i| (if i % 2 == 0 { CacheAlignedVec::with_numa_node(0) } else { CacheAlignedVec::new() }, Vec::new())).collect();
    ensure!(vecs[0].0.numa_node() == Some(0), "builder_field_mismatch", "with_numa_node(0).numa_node() = {:?}", vecs[0].0.numa_node());
    let mut pushes = 0u64;
    for (i, &(k, vi, x)) in plan.iter().enumerate() {
        let (v, m) = &mut vecs[vi];
        match k {
            0..=3 => { for j in 0..1 + x % 40 { let e = x.wrapping_add(j); catch(|| v.push(e)).map_err(|p| pfail(&format!("op {i}: push"), p))?.map_err(|e| bad("alloc_err", format!("op {i}: push: {e}")))?; m.push(e); pushes += 1; } }
            4 => if !m.is_empty() { let q = x as usize % m.len(); match v.get_mut(q) { Some(r) => { *r = !x; m[q] = !x; } None => return Err(bad("content_corrupt", format!("op {i}: get_mut({q}) = None with len {}", m.len()))) } },
            5 => if !m.is_empty() { let q = x as usize % m.len(); let s = v.as_mut_slice(); ensure!(s.len() == m.len(), "content_corrupt", "op {i}: as_mut_slice().len() = {} model {}", s.len(), m.len()); s[q] = x ^ 0xff; m[q] = x ^ 0xff; },
            6 => { for _ in 0..x % 8 { let (a, w) = (v.pop(), m.pop()); ensure!(a == w, "content_corrupt", "op {i}: pop() = {a:?}, model {w:?}"); } }
            7 => { if x % 5 == 0 { v.clear(); m.clear(); } }
            _ => {}
        }
        c.ev(3);
        ensure!(v.len() == m.len() && v.is_empty() == m.is_empty(), "content_corrupt", "op {i}: len {} / is_empty {} but the model has {} elements", v.len(), v.is_empty(), m.len());
        ensure!(v.get(m.len()).is_none() && v.get_mut(m.len() + (x % 3) as usize).is_none(), "out_of_arena", "op {i}: get({}) beyond the length returned Some", m.len());
        if !m.is_empty() { let q = x as usize % m.len(); ensure!(v.get(q) == Some(&m[q]), "content_corrupt", "op {i}: get({q}) = {:?}, model {}", v.get(q), m[q]); }
        if v.capacity() > 0 { let a = v.as_slice().as_ptr() as usize; ensure!(a % 64 == 0, "misaligned", "op {i}: storage at {a:#x} is not 64-byte aligned"); }
        if i % 8 == 7 { let rs: Vec<(usize, usize)> = vecs.iter().filter(|(v, _)| v.capacity() > 0).map(|(v, _)| (v.as_slice().as_ptr() as usize, v.capacity() * 8)).collect();
            for (p, &(a, n)) in rs.iter().enumerate() { for &(b2, n2) in &rs[p + 1..] { ensure!(a + n <= b2 || b2 + n2 <= a, "overlap", "op {i}: vector storages [{a:#x},+{n}) and [{b2:#x},+{n2}) overlap"); } }
            for (v, m) in &vecs { ensure!(v.as_slice() == &m[..], "content_corrupt", "op {i}: a vector lost its contents"); } }
    }
    for (v, m) in &vecs { ensure!(v.as_slice() == &m[..], "content_corrupt", "end: a vector lost its contents"); }
    c.note("pushes", pushes); c.set_nontrivial(pushes >= 2);
    Ok(())
}
/// PooledBuffer::is_empty, PooledVec::len / is_empty; init_global_pools must not disturb live pooled objects.
fn pooled_query_case(c: &mut Case) -> Res {
    let plan: Vec<(u8, usize)> = (0..20 + c.rng.usize_below(40)).map(|_| (c.rng.below(8) as u8, *c.rng.pick(&[0usize, 1, 8, 100, 1024, 1025, 4096, 65_536]))).collect();
    c.input_str("ops", &plan.iter().map(|&(k, s)| format!("{k}:{s} ")).collect::<String>());
    let mut bufs: Vec<(PooledBuffer, u8)> = Vec::new(); let mut vecs: Vec<(PooledVec<u64>, Vec<u64>)> = Vec::new(); let mut made = 0u64;
    for (i, &(k, s)) in plan.iter().enumerate() {
        match k {
            0..=2 => if let Ok(mut b) = catch(|| PooledBuffer::new(s)).map_err(|p| pfail(&format!("op {i}: PooledBuffer::new({s})"), p))? {
                ensure!(b.len() == s && b.is_empty() == (s == 0), "short_block", "op {i}: PooledBuffer::new({s}): len {} is_empty {}", b.len(), b.is_empty());
                let pat = pat_for(made); made += 1; b.as_mut_slice().fill(pat); bufs.push((b, pat)); c.ev(1); },
            3 | 4 => if let Ok(mut v) = catch(|| PooledVec::<u64>::new()).map_err(|p| pfail(&format!("op {i}: PooledVec::new"), p))? {
                ensure!(v.len() == 0 && v.is_empty(), "short_block", "op {i}: fresh PooledVec has len {}", v.len());
                let mut m = Vec::new(); for j in 0..(s % 50).min(v.capacity()) { v.push(j as u64 ^ s as u64).map_err(|e| bad("alloc_err", e.to_string()))?; m.push(j as u64 ^ s as u64); ensure!(v.len() == m.len() && !v.is_empty(), "content_corrupt", "op {i}: len() {} after {} pushes", v.len(), m.len()); }
                made += 1; vecs.push((v, m)); c.ev(1); },
            5 => { let r = catch(|| zipora::memory::pool::init_global_pools(s, 1 + s)).map_err(|p| pfail("init_global_pools", p))?; if s == 0 { ensure!(r.is_err(), "capacity_not_refused", "init_global_pools(0, ..) accepted a zero chunk size"); } }
            6 => { if !bufs.is_empty() { bufs.remove(s % bufs.len()); } }
            _ => { if !vecs.is_empty() { vecs.remove(s % vecs.len()); } }
        }
        for (b, pat) in &bufs { ensure!(b.as_slice().iter().all(|x| x == pat), "content_corrupt", "op {i}: a PooledBuffer of {} bytes lost its contents", b.len()); }
        for (v, m) in &vecs { ensure!(v.as_slice() == &m[..] && v.len() == m.len(), "content_corrupt", "op {i}: a PooledVec lost its contents"); }
        c.ev(1);
    }
    let _ = zipora::memory::pool::get_global_pool_stats();
    c.note("objects", made); c.set_nontrivial(made >= 2);
    Ok(())
}

// ---- five-level: FixedCapacityPool capacity queries, AdaptiveFiveLevelPool handles, LockFreePool free-list walk ----
enum FiveX { Cap(FixedCapacityPool), Handle(AdaptiveFiveLevelPool, FiveLevelPoolHandle), Walk(LockFreePool) }
struct FiveXAd { p: FiveX, offs: HashMap<u64, MemOffset>, live: HashMap<usize, usize>, cfg: FiveLevelPoolConfig, cap: usize, flip: u64, fault: Option<String>, beyond: u64 }
impl Pool for FiveXAd {
    fn props(&self) -> Props { Props { mem: false, min_align: self.cfg.alignment, abs_cap: Some(self.cap), cap_req: Some(self.cap), ..Default::default() } }
    fn alloc(&mut self, id: u64, size: usize, _a: usize) -> Result<Got, String> {
        self.flip += 1; let flip = self.flip; let cap = self.cap; let a = self.cfg.alignment;
        let o = match &mut self.p {
            FiveX::Cap(p) => {
                let (r, at) = (p.remaining_capacity(), p.is_at_capacity());
                if at != (r == 0) || r > cap { self.fault.get_or_insert(format!("remaining_capacity() = {r}, is_at_capacity() = {at}, capacity {cap}")); }
                let res = p.alloc(size);
                if res.is_ok() && (size.saturating_add(a - 1) & !(a - 1)) > r { self.beyond += 1; }
                res
            }
            FiveX::Handle(ad, h) => if flip % 2 == 0 { h.alloc(size) } else { ad.alloc(size) },
            FiveX::Walk(p) => p.alloc(size),
        }.map_err(|e| e.to_string())?;
        self.offs.insert(id, o); self.live.insert(off_value(o), size); Ok(Got { addr: off_value(o), usable: size, align: a })
    }
    fn free(&mut self, id: u64, _addr: usize, req: usize) -> Result<(), String> {
        let o = self.offs.remove(&id).unwrap(); self.live.remove(&off_value(o)); let flip = self.flip;
        match &mut self.p { FiveX::Cap(p) => p.free(o, req), FiveX::Handle(ad, h) => if (flip / 2) % 2 == 0 { h.free(o, req) } else { ad.free(o, req) }, FiveX::Walk(p) => p.free(o, req) }.map_err(|e| e.to_string())
    }
    fn selfcheck(&mut self) -> Result<(), String> {
        if let Some(f) = self.fault.take() { return Err(f); }
        match &self.p {
            FiveX::Handle(ad, h) => { let (a, b) = (ad.stats(), h.stats()); if a.used_memory != b.used_memory || a.total_capacity != b.total_capacity { return Err(format!("the handle and the pool it was taken from disagree: used {} vs {}, capacity {} vs {}", b.used_memory, a.used_memory, b.total_capacity, a.total_capacity)); } }
            FiveX::Walk(p) => {
                let lists = p.verif_walk_free_lists()?; let live: Vec<(usize, usize)> = self.live.iter().map(|(&o, &s)| (o, s.max(1))).collect();
                let ent: Vec<(usize, usize)> = lists.iter().flat_map(|(bs, offs)| offs.iter().map(move |&o| (o as usize, *bs))).collect();
                free_vs_live(&ent, &live, Some((0, p.stats().total_capacity.max(self.cap)))).map_err(|(o, e)| format!("{o}: {e}"))?;
            }
            FiveX::Cap(_) => {}
        }
        Ok(())
    }
    fn abandon(self: Box<Self>) {}
    fn notes(&self, c: &mut Case) { c.note("five_ok_beyond_remaining", self.beyond); if let FiveX::Handle(_, h) = &self.p { c.note("five_used", h.stats().used_memory as u64); } }
}
fn fivex_mk(c: &mut Case, which: &str) -> Result<Setup, Fail> {
    let (cfg, name) = five_cfg(c);
    let cap = match which { "cap" => cfg.fixed_capacity.unwrap_or(cfg.initial_capacity), "handle_l4" => cfg.initial_capacity.max(cfg.arena_size), _ => cfg.initial_capacity };
    c.input_str("cfg", &format!("{which} preset={name} align={} max_fast={} capacity={cap} arena={}", cfg.alignment, cfg.max_fast_block_size, cfg.arena_size));
    let a = cfg.alignment; let mf = cfg.max_fast_block_size;
    let mut bounds: Vec<usize> = (1..=16).map(|i| i * a).collect(); bounds.extend_from_slice(&[256, 512, 1024, 4096, mf / 2, mf - a, mf]);
    // fast blocks only: the huge-block paths are covered (and known to misbehave) in the existing five/* families
    let tab = SizeTab { bounds, max: 2048, big: vec![], aligns: vec![], min: 1, live_bytes: 0, exact: false };
    let cf = cfg.clone();
    let p = catch(|| -> Result<FiveX, String> { Ok(match which {
        "cap" => FiveX::Cap(FixedCapacityPool::new(cf).map_err(|e| e.to_string())?),
        "walk" => FiveX::Walk(LockFreePool::new(cf).map_err(|e| e.to_string())?),
        _ => { let lvl = match which { "handle_l2" => ConcurrencyLevel::MultiThreadMutex, "handle_l3" => ConcurrencyLevel::MultiThreadLockFree, _ => ConcurrencyLevel::ThreadLocal };
            // levels without shared ownership must refuse to hand out a handle (Err, not a panic)
            for l in [ConcurrencyLevel::SingleThread, ConcurrencyLevel::FixedCapacity] { let p1 = AdaptiveFiveLevelPool::with_level(cf.clone(), l).map_err(|e| e.to_string())?; if p1.get_handle().is_ok() { return Err(format!("HANDLE get_handle() on a {l:?} pool returned Ok")); } }
            let ad = AdaptiveFiveLevelPool::with_level(cf, lvl).map_err(|e| e.to_string())?; let h = ad.get_handle().map_err(|e| format!("HANDLE get_handle() on a {lvl:?} pool: {e}"))?; FiveX::Handle(ad, h) } }) });
    let p = match p { Ok(Ok(p)) => p, Ok(Err(e)) if e.starts_with("HANDLE") => return Err(bad("handle_unavailable", e)), Ok(Err(e)) => return Err(bad("ctor_err", format!("five-level {which}: {e}"))), Err(pi) => return Err(pfail("five-level constructor", pi)) };
    Ok(Setup { pool: Box::new(FiveXAd { p, offs: HashMap::new(), live: HashMap::new(), cfg, cap, flip: 0, fault: None, beyond: 0 }), tab, tagger: no_tags() })
}
fn fivex_case(c: &mut Case, which: &str, fam: Fam) -> Res {
    history_ops(c, |c| fivex_mk(c, which), false, |r, tab, pr| { let mut ops = gen_ops(r, fam, tab, pr, true); ops.push(Op::V); ops })
}

// ------------------------------------------------------------------------------------------------
// registration
// ------------------------------------------------------------------------------------------------
pub fn run(ctx: &mut Ctx) {
    let native = ctx.variant == "fast" && !cfg!(miri);
    let k = |ctx: &Ctx, q: usize, t: usize| if q == t { q as u64 } else { ctx.n(q * 2, t) as u64 }; // q == t marks the fixed-size micro family
    let general = [Fam::Mixed, Fam::Pairs];

    // ---- LockFreeMemoryPool ----
    for which in ["default", "highperf", "compact", "small"] {
        let target = format!("lf/{which}"); let small = which == "small";
        for fam in [Fam::Mixed, Fam::Pairs, Fam::Refuse, Fam::Foreign, Fam::Exhaust, Fam::Micro] {
            let n = match fam { Fam::Mixed => k(ctx, 14, 500), Fam::Pairs => k(ctx, 12, 400), Fam::Refuse => k(ctx, 6, 120), Fam::Foreign => k(ctx, 5, 100), Fam::Exhaust => if small { k(ctx, 8, 150) } else if which == "compact" { k(ctx, 2, 20) } else { 0 }, Fam::Micro => if small { k(ctx, 4, 4) } else { 0 } }; // micro (Miri/ASan family) only on the small arena
            for idx in 0..n { ctx.case(&target, fam.name(), idx, |c| history(c, fam, |c| Ok(Setup { pool: lf_mk(c, which)?, tab: lf_tab(small || fam == Fam::Micro), tagger: Box::new(lf_tags) }))); }
        }
    }
    // ---- SecureMemoryPool ----
    for which in ["small", "medium", "large", "a8", "a16", "a64", "a4096", "cache0", "cache1", "rand", "global"] {
        let target = format!("secure/{which}");
        for fam in [Fam::Mixed, Fam::Micro] {
            let n = if fam == Fam::Mixed { k(ctx, 10, 300) } else { k(ctx, 3, 3) };
            if which == "global" && fam == Fam::Micro { continue; }
            for idx in 0..n { ctx.case(&target, fam.name(), idx, |c| history(c, fam, |c| {
                if which == "global" { let sz = *c.rng.pick(&[100usize, 1024, 1025, 65536, 65537]); let p = get_global_pool_for_size(sz).clone(); c.input_str("cfg", &format!("global pool for size {sz}")); let (chunk, align) = (p.config().chunk_size, p.config().alignment); if align > 8 { c.tag("secure_align_gt8"); }
                    return Ok(Setup { pool: Box::new(SecAd { guards: HashMap::new(), pool: p, chunk, align, flip: 2 }), tab: fixed_tab(chunk), tagger: no_tags() }); }
                let pool = sec_mk(c, which)?; Ok(Setup { pool, tab: fixed_tab(1 << 16), tagger: no_tags() }) })); }
        }
    }
    for idx in 0..k(ctx, 10, 200) { ctx.case("secure/rand", "overflow", idx, |c| secure_overflow_case(c, native)); }
    // ---- ThreadLocalMemoryPool (fresh thread per case) ----
    for which in ["default", "highperf", "compact"] {
        let target = format!("tlmp/{which}"); let arena = tl_cfg(which).arena_size;
        for fam in [Fam::Mixed, Fam::Pairs, Fam::Micro] {
            let n = match fam { Fam::Mixed => k(ctx, 10, 300), Fam::Pairs => k(ctx, 10, 300), _ => k(ctx, 4, 4) };
            for idx in 0..n { ctx.case(&target, fam.name(), idx, |c| in_thread(c, |c| history(c, fam, |c| { let mut tab = tl_tab(arena, false); if fam == Fam::Micro { tab.big.clear(); } Ok(Setup { pool: tl_mk(c, which)?, tab, tagger: Box::new(tl_tags(arena)) }) }))); }
        }
        // sizes that are exactly the class sizes: blocks are carved with the class size, class recycling is harmless
        for idx in 0..k(ctx, 8, 200) { ctx.case(&target, "exact", idx, |c| in_thread(c, |c| history(c, Fam::Mixed, |c| { let mut tab = tl_tab(arena, false); tab.bounds = TL_CLASSES[..12].to_vec(); tab.exact = true; Ok(Setup { pool: tl_mk(c, which)?, tab, tagger: Box::new(tl_tags(arena)) }) }))); }
        // more live bytes than one hot arena holds (exact class size, so nothing else interferes)
        for idx in 0..k(ctx, 1, 10) { ctx.case(&target, "roll", idx, |c| in_thread(c, |c| {
            let mut pool = tl_mk(c, which)?; let n = (arena / 4096 + 2 + c.rng.usize_below(8)) as u32; let ops = vec![Op::A(4096, 0), Op::A(64, 0), Op::Fill(4096, n), Op::V, Op::F(3), Op::A(4096, 0), Op::V, Op::FAll];
            c.input_str("ops", &ops_str(&ops)); tl_tags(arena)(&ops, c);
            let mut st = St::default(); let r = exec(c, &mut *pool, &ops, &mut st); c.set_nontrivial(true);
            match r { Ok(()) => Ok(()), Err(e) => { pool.abandon(); Err(e) } } })); }
        for idx in 0..k(ctx, 2, 10) { ctx.case(&target, "quarter", idx, |c| in_thread(c, |c| {
            // one request above arena_size/4 (documented to be served by the global fallback) among ordinary ones
            let pool = tl_mk(c, which)?; let big = arena / 4 + 1 + c.rng.usize_below(4096); let ops = vec![Op::A(big, 0), Op::A(64, 0), Op::A(big, 0), Op::V, Op::FAll];
            c.input_str("ops", &ops_str(&ops)); tl_tags(arena)(&ops, c);
            let mut pool = pool; let mut st = St::default(); let r = exec(c, &mut *pool, &ops, &mut st); c.set_nontrivial(true);
            match r { Ok(()) => Ok(()), Err(e) => { pool.abandon(); Err(e) } } })); }
    }
    // non-preset ThreadLocalPoolConfig with small / odd arena sizes: arena_size/4 (the "large request" threshold) then falls
    // between a request size and its size class, and the hot arena rolls over after a handful of blocks
    for fam in [Fam::Mixed, Fam::Pairs] { for idx in 0..k(ctx, 12, 300) { ctx.case("tlmp/custom", &format!("small_arena_{}", fam.name()), idx, |c| in_thread(c, |c| history(c, fam, |c| {
        let arena = match c.rng.below(4) { 0 => *c.rng.pick(&[4096usize, 8192, 16384, 12288]), 1 => 4097 + c.rng.usize_below(12_288), 2 => *c.rng.pick(&[5000usize, 6000, 10_000, 12_345, 16_383, 20_000, 40_000]), _ => 16_385 + c.rng.usize_below(50_000) };
        let cfg = ThreadLocalPoolConfig { arena_size: arena, max_threads: 4, enable_stats: c.rng.bool(), sync_threshold: *c.rng.pick(&[1isize, 4096, 256 * 1024]), max_cached_chunks: *c.rng.pick(&[0usize, 1, 64]), use_secure_memory: c.rng.bool() };
        let q = arena / 4; let mut tab = tl_tab(arena, false);
        tab.big = vec![q.saturating_sub(9).max(1), q.saturating_sub(1).max(1), q.max(1), q + 1, q + 8, (q * 3 / 4).max(1), (arena / 8).max(1), 1024, 2048, 4096];
        Ok(Setup { pool: tl_mk_cfg(c, "custom", cfg)?, tab, tagger: Box::new(tl_tags(arena)) }) }))); } }
    // ---- FixedCapacityMemoryPool ----
    for which in ["small", "medium", "realtime", "secure", "lazy", "custom"] {
        let target = format!("fc/{which}");
        for fam in [Fam::Mixed, Fam::Pairs, Fam::Exhaust, Fam::Refuse, Fam::Micro] {
            let n = match fam { Fam::Mixed => k(ctx, 10, 300), Fam::Pairs => k(ctx, 6, 150), Fam::Exhaust => if which == "custom" || which == "lazy" { k(ctx, 10, 200) } else { k(ctx, 3, 40) }, Fam::Refuse => k(ctx, 3, 40), _ => if which == "lazy" || which == "custom" { k(ctx, 4, 4) } else { 0 } }; // presets pre-touch 8-64 MB arenas: no micro
            for idx in 0..n { ctx.case(&target, fam.name(), idx, |c| history(c, fam, |c| { let (pool, tab) = fc_mk(c, which)?; Ok(Setup { pool, tab, tagger: no_tags() }) })); }
        }
    }
    // ---- MemoryPool ----
    for which in ["small", "medium", "large", "custom"] {
        let target = format!("mempool/{which}");
        for fam in [Fam::Mixed, Fam::Micro] { let n = if fam == Fam::Mixed { k(ctx, 10, 300) } else { k(ctx, 3, 3) };
            for idx in 0..n { ctx.case(&target, fam.name(), idx, |c| history(c, fam, |c| Ok(Setup { pool: mp_mk(c, which)?, tab: fixed_tab(1 << 16), tagger: no_tags() }))); } }
    }
    for idx in 0..k(ctx, 14, 300) { ctx.case("pooled", "script", idx, |c| pooled_case(c, false)); }
    for idx in 0..k(ctx, 3, 3) { ctx.case("pooled", "micro", idx, |c| pooled_case(c, true)); }
    // ---- bump ----
    for (target, scoped) in [("bump/alloc", false), ("bump/arena_scope", true)] {
        for idx in 0..k(ctx, 30, 1500) { ctx.case(target, "script", idx, |c| bump_case(c, scoped, false)); }
        for idx in 0..k(ctx, 4, 4) { ctx.case(target, "micro", idx, |c| bump_case(c, scoped, true)); }
    }
    // ---- tiered / mmap ----
    for which in ["default", "rand", "global"] {
        let target = format!("tiered/{which}");
        for idx in 0..k(ctx, 12, 300) { ctx.case(&target, "mixed", idx, |c| history(c, Fam::Mixed, |c| Ok(Setup { pool: tier_mk(c, which)?, tab: tier_tab(false), tagger: no_tags() }))); }
        for idx in 0..k(ctx, 4, 60) { ctx.case(&target, "refuse", idx, |c| history(c, Fam::Mixed, |c| { let pool = tier_mk(c, which)?; let mut tab = tier_tab(true); tab.big = vec![1usize << 46, usize::MAX / 2, usize::MAX - 4095, usize::MAX]; c.tag("size_near_usize_max"); Ok(Setup { pool, tab, tagger: no_tags() }) })); }
        if which != "rand" { for idx in 0..k(ctx, 3, 3) { ctx.case(&target, "micro", idx, |c| history(c, Fam::Micro, |c| Ok(Setup { pool: tier_mk(c, which)?, tab: tier_tab(true), tagger: no_tags() }))); } } // rand configs may route small sizes to mmap
    }
    for idx in 0..k(ctx, 12, 300) { ctx.case("mmap", "mixed", idx, |c| history(c, Fam::Mixed, |c| { let (pool, tab) = mm_mk(c)?; Ok(Setup { pool, tab, tagger: no_tags() }) })); }
    for idx in 0..k(ctx, 3, 40) { ctx.case("mmap", "refuse", idx, |c| history(c, Fam::Mixed, |c| { let (pool, mut tab) = mm_mk(c)?; tab.big = vec![1usize << 46, usize::MAX / 2, usize::MAX - 4095, usize::MAX]; c.tag("size_near_usize_max"); Ok(Setup { pool, tab, tagger: no_tags() }) })); }
    // ---- CacheAlignedVec / NUMA helpers ----
    for idx in 0..k(ctx, 8, 200) {
        ctx.case("cachevec/u8", "script", idx, |c| cachevec_case::<u8>(c, false)); ctx.case("cachevec/u64", "script", idx, |c| cachevec_case::<u64>(c, false));
        ctx.case("cachevec/b24", "script", idx, |c| cachevec_case::<[u8; 24]>(c, false)); ctx.case("cachevec/w100", "script", idx, |c| cachevec_case::<[u16; 50]>(c, false));
    }
    for idx in 0..k(ctx, 2, 2) { ctx.case("cachevec/u64", "micro", idx, |c| cachevec_case::<u64>(c, true)); ctx.case("cachevec/b24", "micro", idx, |c| cachevec_case::<[u8; 24]>(c, true)); }
    for (target, pools) in [("numa/plain", false), ("numa/pools", true)] {
        let tab = SizeTab { bounds: vec![64, 1024, 65536], max: 5000, big: vec![65535, 65536, 70_000, 1 << 20], aligns: vec![1, 8, 64, 128, 4096], min: 1, live_bytes: 0, exact: false };
        for idx in 0..k(ctx, 8, 200) { let tab = tab.clone(); ctx.case(target, "mixed", idx, move |c| history(c, Fam::Mixed, |c| { c.input_str("cfg", &format!("init_numa_pools={pools}")); let _ = clear_numa_pools(); if pools { let _ = init_numa_pools(); } Ok(Setup { pool: Box::new(NumaAd { aligns: HashMap::new(), pools }), tab, tagger: no_tags() }) })); }
        if !pools { for idx in 0..k(ctx, 3, 3) { let mut tab = tab.clone(); tab.big.clear(); ctx.case(target, "micro", idx, move |c| history(c, Fam::Micro, |c| { c.input_str("cfg", "init_numa_pools=false"); Ok(Setup { pool: Box::new(NumaAd { aligns: HashMap::new(), pools: false }), tab, tagger: no_tags() }) })); } }
    }
    // ---- five-level family ----
    for which in ["nolock", "mutex", "lockfree", "tlocal", "fixed", "ad_l1", "ad_l2", "ad_l3", "ad_l4", "ad_l5", "ad_new"] {
        let target = format!("five/{which}"); let threaded = matches!(which, "tlocal" | "ad_l4" | "ad_new");
        for fam in [general[0], general[1], Fam::Exhaust, Fam::Refuse, Fam::Micro] {
            let n = match fam { Fam::Mixed => k(ctx, 10, 300), Fam::Pairs => k(ctx, 5, 100), Fam::Exhaust => k(ctx, 5, 100), Fam::Refuse => k(ctx, 4, 60), _ => k(ctx, 3, 3) };
            for idx in 0..n { ctx.case(&target, fam.name(), idx, |c| { if threaded { in_thread(c, |c| history(c, fam, |c| five_mk(c, which))) } else { history(c, fam, |c| five_mk(c, which)) } }); }
        }
    }
    // ---- huge_ families (large-input coverage): a handful of cases per target ----
    let h = ctx.n(2, 30) as u64;
    let big_tab = |mut t: SizeTab| { t.max = 3 << 20; t };
    for idx in 0..h {
        // LockFreeMemoryPool
        for which in ["default", "compact"] { ctx.case(&format!("lf/{which}"), "huge_live", idx, |c| history_huge(c, Huge::Live, |c| Ok(Setup { pool: lf_mk(c, which)?, tab: lf_tab(true), tagger: Box::new(lf_tags) }))); }
        for which in ["compact", "small"] { ctx.case(&format!("lf/{which}"), "huge_cycle", idx, |c| history_huge(c, Huge::Cycle, |c| Ok(Setup { pool: lf_mk(c, which)?, tab: lf_tab(false), tagger: Box::new(lf_tags) }))); }
        for which in ["default", "highperf"] { ctx.case(&format!("lf/{which}"), "huge_sizes", idx, |c| history_huge(c, Huge::Sizes, |c| Ok(Setup { pool: lf_mk(c, which)?, tab: big_tab(lf_tab(false)), tagger: Box::new(lf_tags) }))); }
        for j in 0..2 { ctx.case("lf/small", "huge_cfg", idx * 2 + j, |c| history_huge(c, Huge::Cfg, |c| Ok(Setup { pool: lf_mk(c, "huge_cfg")?, tab: lf_tab(true), tagger: Box::new(lf_tags) }))); }
        // SecureMemoryPool
        ctx.case("secure/rand", "huge_live", idx, |c| history_huge(c, Huge::Live, |c| Ok(Setup { pool: sec_mk(c, "huge_live")?, tab: fixed_tab(8), tagger: no_tags() })));
        ctx.case("secure/rand", "huge_sizes", idx, |c| history_huge(c, Huge::Cfg, |c| Ok(Setup { pool: sec_mk(c, "huge_sizes")?, tab: fixed_tab(8), tagger: no_tags() })));
        for j in 0..3 { ctx.case("secure/rand", "huge_cfg", idx * 3 + j, |c| history_huge(c, Huge::Cfg, |c| Ok(Setup { pool: sec_mk(c, "huge_cfg")?, tab: fixed_tab(8), tagger: no_tags() }))); }
        // ThreadLocalMemoryPool
        for which in ["default", "compact"] { let arena = tl_cfg(which).arena_size; ctx.case(&format!("tlmp/{which}"), "huge_live", idx, |c| in_thread(c, |c| history_huge(c, Huge::Live, |c| Ok(Setup { pool: tl_mk(c, which)?, tab: tl_tab(arena, false), tagger: Box::new(tl_tags(arena)) })))); }
        for which in ["default", "highperf"] { let arena = tl_cfg(which).arena_size; ctx.case(&format!("tlmp/{which}"), "huge_sizes", idx, |c| in_thread(c, |c| history_huge(c, Huge::Sizes, |c| Ok(Setup { pool: tl_mk(c, which)?, tab: big_tab(tl_tab(arena, false)), tagger: Box::new(tl_tags(arena)) })))); }
        for j in 0..2 { ctx.case("tlmp/custom", "huge_cfg", idx * 2 + j, |c| in_thread(c, |c| history_huge(c, Huge::Cfg, |c| { let cfg = tl_custom_cfg(c); let arena = cfg.arena_size; let mut tab = tl_tab(arena, false); tab.big.extend_from_slice(&[arena / 4, arena / 4 + 1, arena / 2]); Ok(Setup { pool: tl_mk_cfg(c, "custom", cfg)?, tab, tagger: Box::new(tl_tags(arena)) }) }))); }
        // FixedCapacityMemoryPool
        for (target, which) in [("fc/custom", "huge_blocks"), ("fc/small", "small")] { ctx.case(target, "huge_live", idx, |c| history_huge(c, Huge::Live, |c| { let (pool, tab) = fc_mk(c, which)?; Ok(Setup { pool, tab, tagger: no_tags() }) })); }
        for (target, which) in [("fc/custom", "huge_blocks"), ("fc/small", "small"), ("fc/secure", "secure")] { ctx.case(target, "huge_cycle", idx, |c| history_huge(c, Huge::Cycle, |c| { let (pool, tab) = fc_mk(c, which)?; Ok(Setup { pool, tab, tagger: no_tags() }) })); }
        for (target, which) in [("fc/custom", "huge_sizes"), ("fc/medium", "medium")] { ctx.case(target, "huge_sizes", idx, |c| history_huge(c, Huge::Sizes, |c| { let (pool, tab) = fc_mk(c, which)?; Ok(Setup { pool, tab, tagger: no_tags() }) })); }
        for j in 0..3 { ctx.case("fc/custom", "huge_cfg", idx * 3 + j, |c| history_huge(c, Huge::Cfg, |c| { let (pool, tab) = fc_mk(c, "huge_cfg")?; Ok(Setup { pool, tab, tagger: no_tags() }) })); }
        // MemoryPool
        ctx.case("mempool/custom", "huge_live", idx, |c| history_huge(c, Huge::Live, |c| Ok(Setup { pool: mp_mk(c, "huge_live")?, tab: fixed_tab(8), tagger: no_tags() })));
        ctx.case("mempool/custom", "huge_sizes", idx, |c| history_huge(c, Huge::Cfg, |c| Ok(Setup { pool: mp_mk(c, "huge_sizes")?, tab: fixed_tab(8), tagger: no_tags() })));
        for j in 0..2 { ctx.case("mempool/custom", "huge_cfg", idx * 2 + j, |c| history_huge(c, Huge::Cfg, |c| Ok(Setup { pool: mp_mk(c, "huge_cfg")?, tab: fixed_tab(8), tagger: no_tags() }))); }
        ctx.case("pooled", "huge_sizes", idx, |c| pooled_case_m(c, false, true));
        // bump / CacheAlignedVec
        ctx.case("bump/alloc", "huge_script", idx, |c| bump_huge_case(c, false)); ctx.case("bump/alloc", "huge_script", idx + h, |c| bump_huge_case(c, false)); ctx.case("bump/arena_scope", "huge_script", idx, |c| bump_huge_case(c, true));
        ctx.case("cachevec/u64", "huge_grow", idx, cachevec_huge_case::<u64>); ctx.case("cachevec/b24", "huge_grow", idx, cachevec_huge_case::<[u8; 24]>); ctx.case("cachevec/u8", "huge_grow", idx, cachevec_huge_case::<u8>);
        // tiered / mmap / NUMA helpers
        for which in ["default", "global"] { ctx.case(&format!("tiered/{which}"), "huge_sizes", idx, |c| history_huge(c, Huge::Sizes, |c| Ok(Setup { pool: tier_mk(c, which)?, tab: big_tab(tier_tab(false)), tagger: no_tags() }))); }
        ctx.case("mmap", "huge_sizes", idx, |c| history_huge(c, Huge::Sizes, |c| { let (pool, tab) = mm_mk(c)?; Ok(Setup { pool, tab: big_tab(tab), tagger: no_tags() }) }));
        ctx.case("numa/plain", "huge_sizes", idx, |c| history_huge(c, Huge::Sizes, |c| { c.input_str("cfg", "init_numa_pools=false"); Ok(Setup { pool: Box::new(NumaAd { aligns: HashMap::new(), pools: false }), tab: SizeTab { bounds: vec![], max: 3 << 20, big: vec![], aligns: vec![1, 64, 4096, 65536], min: 1, live_bytes: 0, exact: false }, tagger: no_tags() }) }));
        // five-level family
        for which in ["nolock", "mutex", "lockfree", "fixed", "tlocal"] { let threaded = which == "tlocal"; ctx.case(&format!("five/{which}"), "huge_live", idx, |c| { if threaded { in_thread(c, |c| history_huge(c, Huge::Live, |c| five_mk_with(c, which, 1))) } else { history_huge(c, Huge::Live, |c| five_mk_with(c, which, 1)) } }); }
        for which in ["nolock", "lockfree", "fixed", "ad_l2"] { ctx.case(&format!("five/{which}"), "huge_cycle", idx, |c| history_huge(c, Huge::Cycle, |c| five_mk_with(c, which, 1))); }
        for which in ["nolock", "mutex", "lockfree", "fixed", "ad_l1", "ad_l3", "ad_l5"] { ctx.case(&format!("five/{which}"), "huge_sizes", idx, |c| history_huge(c, Huge::Sizes, |c| { let mut s = five_mk_with(c, which, 1)?; s.tab = big_tab(s.tab); Ok(s) })); }
        for which in ["nolock", "mutex", "lockfree", "tlocal", "fixed", "ad_l1", "ad_l2", "ad_l3", "ad_l4", "ad_l5", "ad_new"] { let threaded = matches!(which, "tlocal" | "ad_l4" | "ad_new"); ctx.case(&format!("five/{which}"), "huge_cfg", idx, |c| { if threaded { in_thread(c, |c| history_huge(c, Huge::Cfg, |c| five_mk_with(c, which, 2))) } else { history_huge(c, Huge::Cfg, |c| five_mk_with(c, which, 2)) } }); }
    }
    // ---- huge pages (inconclusive when the kernel grants none) ----
    for idx in 0..k(ctx, 2, 4) { ctx.case("hugepage", "pages", idx, hugepage_case); }
    for idx in 0..k(ctx, 3, 20) { ctx.case("fc/tiny_block", "mixed", idx, |c| history(c, Fam::Micro, |c| { let (pool, tab) = fc_mk(c, "tiny_block")?; Ok(Setup { pool, tab, tagger: no_tags() }) })); }
    for idx in 0..2 { ctx.case("secure/odd_chunk", "mixed", idx, |c| history(c, Fam::Micro, |c| { let pool = sec_mk(c, "odd_chunk")?; Ok(Setup { pool, tab: fixed_tab(8), tagger: no_tags() }) })); }
    // ---- gap-coverage families (see "gap-coverage families" above) ----
    for idx in 0..ctx.n(48, 600) as u64 {
        ctx.case("lf/small", "views", idx, views_lf_case);
        ctx.case("tlmp/compact", "views", idx, |c| in_thread(c, views_tl_case));
        ctx.case("fc/custom", "views", idx, views_fc_case);
        ctx.case("secure/rand", "builder_views", idx, views_secure_case);
        ctx.case("bump/alloc", "query", idx, bump_query_case);
        ctx.case("cachevec/u64", "access", idx, cachevec_access_case);
    }
    for idx in 0..ctx.n(24, 300) as u64 {
        ctx.case("mmap", "views", idx, views_mmap_case);
        ctx.case("tiered/default", "views", idx, |c| views_tiered_case(c, false));
        ctx.case("tiered/global", "views", idx, |c| views_tiered_case(c, true));
        ctx.case("pooled", "query", idx, pooled_query_case);
        ctx.case("five/fixed", "capq_mixed", idx, |c| fivex_case(c, "cap", Fam::Mixed));
        ctx.case("five/fixed", "capq_exhaust", idx, |c| fivex_case(c, "cap", Fam::Exhaust));
        ctx.case("five/lockfree", "walk_mixed", idx, |c| fivex_case(c, "walk", Fam::Mixed));
        ctx.case("five/lockfree", "walk_pairs", idx, |c| fivex_case(c, "walk", Fam::Pairs));
        ctx.case("five/ad_l2", "handle_mixed", idx, |c| fivex_case(c, "handle_l2", Fam::Mixed));
        ctx.case("five/ad_l3", "handle_mixed", idx, |c| fivex_case(c, "handle_l3", Fam::Mixed));
        // thread-local level: short histories that stay inside the hot area (the local/global offset clash is a known class)
        ctx.case("five/ad_l4", "handle_micro", idx, |c| in_thread(c, |c| fivex_case(c, "handle_l4", Fam::Micro)));
    }
    for idx in 0..2 { ctx.case("hugepage", "direct", idx, hugepage_direct_case); }
    // ---- last: may kill the worker on the unchanged tree (see pooledvec_overalign_case) ----
    ctx.case("pooledvec/overalign", "align64", 0, pooledvec_overalign_case);
}
