//! C06 — hash maps behave as mathematical maps for every operation history and hasher.
//! Oracle: an ordered model map (BTreeMap; same semantics as std HashMap but deterministic), compared after every
//! operation (return value, len) and, at `Check` points, by a full sweep (get/contains of every pool key + the
//! multiset yielded by every iteration API).
//!
//! Targets: zhm/* (ZiporaHashMap presets and Hash x Storage strategy combinations, caller supplied BuildHasher),
//! gold32/* gold64/* (GoldHashMap configs), goldidx/*, smallmap/*, easy/*, hashstr.
//! The generator family name is `<hasher>:<history family>`; the hasher is the adversarial BuildHasher (zhm) or the
//! adversarial `Hash` impl of the key type (maps whose hasher is fixed by the library).
use crate::ctx::{catch, Case, Ctx, Fail, Res};
use crate::gen;
use crate::rng::Rng;
use std::collections::hash_map::DefaultHasher;
use std::collections::{BTreeMap, BTreeSet};
use std::fmt::Debug;
use std::hash::{BuildHasher, Hash, Hasher};
use zipora::containers::specialized::{EasyHashMap, GoldHashIdx, HashStrMap, SmallMap};
use zipora::hash_map::{GoldHashMap, GoldHashMapConfig, HashStrategy, IterationStrategy, LinkType, OptimizationStrategy, StorageStrategy, ZiporaHashMap, ZiporaHashMapConfig};
use zipora::{SecureMemoryPool, SecurePoolConfig};

fn bad(oracle: &str, d: String) -> Fail { Fail { oracle: oracle.to_string(), detail: d } }

// ---------------------------------------------------------------------------------------------------------------
// adversarial hashers
// ---------------------------------------------------------------------------------------------------------------
#[derive(Clone, Copy, Debug, PartialEq, Eq)]
pub enum HM { Sip, Mix, Const7, LowColl, Ident, Mod3, Zero, Max }
pub const ALL_HM: &[HM] = &[HM::Sip, HM::Mix, HM::Const7, HM::LowColl, HM::Ident, HM::Mod3, HM::Zero, HM::Max];
impl HM {
    fn name(self) -> &'static str { match self { HM::Sip => "sip", HM::Mix => "mix", HM::Const7 => "const7", HM::LowColl => "lowcoll", HM::Ident => "ident", HM::Mod3 => "mod3", HM::Zero => "zero", HM::Max => "max" } }
    /// every key collides with every other one (quadratic behaviour): keep histories small
    fn degenerate(self) -> bool { matches!(self, HM::Const7 | HM::LowColl | HM::Mod3 | HM::Zero | HM::Max) }
}
/// Deterministic BuildHasher. `Sip` = SipHash-1-3 with fixed keys (what `RandomState` is, minus the random keys),
/// `Mix` = splitmix64 finaliser (stand-in for ahash: good avalanche, deterministic), the rest are adversarial:
/// constant 7 (pure collisions, no sentinel), equal low 12 bits (collide under every mask, distinct hashes),
/// identity (key 0 -> 0, key u64::MAX -> u64::MAX), key mod 3, constant 0, constant u64::MAX.
#[derive(Clone, Copy, Debug)]
pub struct AdvBuild(pub HM);
thread_local! { static DEFAULT_HM: std::cell::Cell<HM> = const { std::cell::Cell::new(HM::Sip) }; }
/// `S::default()` for the constructors that build the hasher themselves (new / with_capacity / with_config): mode taken from a thread local
impl Default for AdvBuild { fn default() -> AdvBuild { AdvBuild(DEFAULT_HM.with(|d| d.get())) } }
pub struct AdvHasher { mode: HM, acc: u64, sip: DefaultHasher }
impl BuildHasher for AdvBuild { type Hasher = AdvHasher; fn build_hasher(&self) -> AdvHasher { AdvHasher { mode: self.0, acc: 0, sip: DefaultHasher::new() } } }
impl Hasher for AdvHasher {
    fn write(&mut self, b: &[u8]) { if self.mode == HM::Sip { self.sip.write(b) } else { for &x in b { self.acc = self.acc.wrapping_mul(31).wrapping_add(x as u64); } } }
    fn write_u64(&mut self, v: u64) { if self.mode == HM::Sip { self.sip.write_u64(v) } else { self.acc = self.acc.wrapping_mul(31).wrapping_add(v); } }
    fn finish(&self) -> u64 {
        match self.mode {
            HM::Sip => self.sip.finish(),
            HM::Mix => { let mut z = self.acc.wrapping_add(0x9E3779B97F4A7C15); z = (z ^ (z >> 30)).wrapping_mul(0xBF58476D1CE4E5B9); z = (z ^ (z >> 27)).wrapping_mul(0x94D049BB133111EB); z ^ (z >> 31) }
            HM::Const7 => 7, HM::LowColl => (self.acc << 12) | 0x2a5, HM::Ident => self.acc, HM::Mod3 => self.acc % 3, HM::Zero => 0, HM::Max => u64::MAX,
        }
    }
}

/// Key with an adversarial `Hash` impl, for the map types whose hasher is fixed by the library
/// (GoldHashMap: SipHash, GoldHashIdx / SmallMap / EasyHashMap: ahash). Equality is on `id` only.
#[derive(Clone, Debug)]
pub struct AK { pub id: u64, pub hm: u8 }
pub const AK_MODES: &[(&str, u8)] = &[("khash", 0), ("kconst", 1), ("kmod3", 2), ("kmod16", 3)];
impl PartialEq for AK { fn eq(&self, o: &AK) -> bool { self.id == o.id } }
impl Eq for AK {}
impl PartialOrd for AK { fn partial_cmp(&self, o: &AK) -> Option<std::cmp::Ordering> { Some(self.id.cmp(&o.id)) } }
impl Ord for AK { fn cmp(&self, o: &AK) -> std::cmp::Ordering { self.id.cmp(&o.id) } }
impl Hash for AK { fn hash<H: Hasher>(&self, h: &mut H) { match self.hm { 0 => h.write_u64(self.id), 1 => h.write_u64(0), 2 => h.write_u64(self.id % 3), _ => h.write_u64(self.id % 16) } } }

// ---------------------------------------------------------------------------------------------------------------
// histories
// ---------------------------------------------------------------------------------------------------------------
#[derive(Clone, Copy, Debug)]
pub enum Op { Ins(u16, u64), Rem(u16), Get(u16), GetMut(u16, u64), Has(u16), Clear, Extra(u8), Check }

/// history family: key-space size range, op count range (quick), weights [ins, rem, get, getmut, has, extra] (out of their sum),
/// clear probability per mille, a Check every `check_every` ops (0 = only at the end), whether Checks iterate.
pub struct Fam { name: &'static str, ks: (usize, usize), ops: (usize, usize), w: [u32; 6], clear_pm: u32, check_every: usize, iter: bool, len_each: bool,
    /// suppress inserts of live keys once a live key has been removed (since the last clear): isolates the tombstone-update defect
    no_upd: bool }
impl Fam { /// can the verdict depend on the slot layout (i.e. on the hash seed) on the unchanged tree? only histories that update after a removal
    fn layout_sensitive(&self) -> bool { self.w[1] > 0 && !self.no_upd } }
const TINY: Fam = Fam { name: "tiny", ks: (1, 4), ops: (100, 300), w: [40, 30, 10, 8, 7, 5], clear_pm: 5, check_every: 9, iter: true, len_each: true, no_upd: false };
const CHURN: Fam = Fam { name: "churn", ks: (5, 64), ops: (200, 700), w: [40, 28, 12, 8, 7, 5], clear_pm: 2, check_every: 25, iter: true, len_each: true, no_upd: false };
const NOITER: Fam = Fam { name: "noiter", ks: (2, 64), ops: (200, 700), w: [42, 30, 12, 8, 8, 0], clear_pm: 0, check_every: 40, iter: false, len_each: true, no_upd: false };
const INSONLY: Fam = Fam { name: "insonly", ks: (1, 200), ops: (100, 600), w: [60, 0, 20, 10, 10, 0], clear_pm: 4, check_every: 50, iter: true, len_each: true, no_upd: false };
const CLEARS: Fam = Fam { name: "clears", ks: (3, 40), ops: (150, 500), w: [55, 15, 12, 6, 7, 5], clear_pm: 40, check_every: 15, iter: true, len_each: true, no_upd: false };
const RMNOUPD: Fam = Fam { name: "rmnoupd", ks: (2, 64), ops: (200, 700), w: [45, 28, 12, 7, 8, 0], clear_pm: 3, check_every: 30, iter: false, len_each: true, no_upd: true };
const FAMS: &[&Fam] = &[&TINY, &CHURN, &NOITER, &INSONLY, &CLEARS, &RMNOUPD];

thread_local! { /// interpreter variants (Miri): histories of at most 200 operations, no growth families
    static SMALL_ONLY: std::cell::Cell<bool> = const { std::cell::Cell::new(false) }; }
fn gen_ops(r: &mut Rng, f: &Fam, nkeys: usize, thorough: bool) -> Vec<Op> {
    let hi = if thorough { f.ops.1 * 3 } else { f.ops.1 };
    let n = if SMALL_ONLY.with(|d| d.get()) { r.urange(60, 200) } else { r.urange(f.ops.0, hi) };
    let total: u32 = f.w.iter().sum();
    let hot = 1 + r.usize_below(nkeys.min(4));
    let mut ops = Vec::with_capacity(n + n / f.check_every.max(1) + 2);
    let mut val = 1u64; let mut live: BTreeSet<u16> = BTreeSet::new(); let mut rm = false;
    for i in 0..n {
        let ki = (if r.chance(1, 3) { r.usize_below(hot) } else { r.usize_below(nkeys) }) as u16;
        if f.clear_pm > 0 && r.below(1000) < f.clear_pm as u64 { ops.push(Op::Clear); live.clear(); rm = false; }
        else {
            let mut x = r.below(total as u64) as u32; let mut k = 0; while x >= f.w[k] { x -= f.w[k]; k += 1; }
            ops.push(match k { 0 if f.no_upd && rm && live.contains(&ki) => Op::Get(ki), 0 => { val += 1; live.insert(ki); Op::Ins(ki, val) } 1 => { if live.remove(&ki) { rm = true; } Op::Rem(ki) } 2 => Op::Get(ki), 3 => { val += 1; Op::GetMut(ki, val) } 4 => Op::Has(ki), _ => Op::Extra(r.below(4) as u8) });
        }
        if f.check_every > 0 && i % f.check_every == f.check_every - 1 { ops.push(Op::Check); }
    }
    ops.push(Op::Check);
    ops
}
/// growth to `n` keys (rehash), removal of about half of them, re-insertion / update, with a Check after every phase
fn gen_grow(r: &mut Rng, n: usize) -> Vec<Op> {
    let mut order: Vec<u16> = (0..n as u16).collect(); r.shuffle(&mut order);
    let mut ops = Vec::with_capacity(3 * n + 8); let mut val = 1u64;
    for (j, &k) in order.iter().enumerate() { val += 1; ops.push(Op::Ins(k, val)); if j % 7 == 3 { ops.push(Op::Get(order[r.usize_below(j + 1)])); } if j + 1 == n / 2 { ops.push(Op::Check); } }
    ops.push(Op::Check);
    r.shuffle(&mut order);
    for &k in order.iter().take(n / 2) { ops.push(Op::Rem(k)); }
    ops.push(Op::Check);
    for &k in order.iter().take(n / 4) { val += 1; ops.push(Op::Ins(k, val)); }
    for &k in order.iter().skip(n / 2).take(n / 4) { val += 1; ops.push(Op::Ins(k, val)); }
    ops.push(Op::Check);
    ops
}
/// growth only: distinct inserts up to `n` keys with interleaved lookups / updates, no removal
fn gen_growonly(r: &mut Rng, n: usize) -> Vec<Op> {
    let mut order: Vec<u16> = (0..n as u16).collect(); r.shuffle(&mut order); let mut ops = Vec::with_capacity(2 * n); let mut val = 1u64;
    for (j, &k) in order.iter().enumerate() { val += 1; ops.push(Op::Ins(k, val)); if j % 5 == 2 { ops.push(Op::Get(order[r.usize_below(j + 1)])); } if j % 11 == 7 { val += 1; ops.push(Op::Ins(order[r.usize_below(j + 1)], val)); }
        if j + 1 == n / 3 || (j + 1).is_power_of_two() && j > 8 { ops.push(Op::Check); } }
    ops.push(Op::Check); ops
}
/// EasyHashMap directed: distinct inserts, removal of some, then (a) more distinct inserts past the growth threshold or (b) shrink_to_fit;
/// never updates a key, so the tombstone-update defect cannot interfere
fn gen_rm_then_rebuild(r: &mut Rng, n: usize, shrink: bool) -> Vec<Op> {
    let mut ops = vec![]; let mut val = 1u64; let a = if shrink { n } else { r.urange(9, 12).min(n) };
    for k in 0..a { val += 1; ops.push(Op::Ins(k as u16, val)); }
    let mut removed = vec![]; for k in 0..a { if r.chance(4, 5) || k == 0 { ops.push(Op::Rem(k as u16)); removed.push(k as u16); } }
    if shrink { ops.push(Op::Extra(0)); } else { for k in a..n { val += 1; ops.push(Op::Ins(k as u16, val)); } }
    for &k in &removed { ops.push(Op::Get(k)); }
    ops.push(Op::Check); ops
}
fn encode_ops(ops: &[Op]) -> Vec<u8> {
    let mut b = Vec::with_capacity(ops.len() * 3);
    for o in ops { let (t, k) = match *o { Op::Ins(k, _) => (b'I', k), Op::Rem(k) => (b'R', k), Op::Get(k) => (b'G', k), Op::GetMut(k, _) => (b'M', k), Op::Has(k) => (b'H', k), Op::Clear => (b'C', 0), Op::Extra(e) => (b'X', e as u16), Op::Check => (b'K', 0) }; b.push(t); b.push(k as u8); b.push((k >> 8) as u8); }
    b
}

/// Facts about a history computed from the operations alone (model simulation on key indices): used for the
/// root-cause tags (input-only predicates) and the coverage notes.
#[derive(Default, Debug)]
pub struct Facts {
    ins_new: u64, updates: u64, rem_live: u64, rem_absent: u64, reinserts: u64, clears: u64, checks: u64, max_len: usize,
    upd_after_rm: bool,      // an insert of a live key while >=1 live key was removed since the last clear
    check_after_rm: bool,    // a Check (iteration) while >=1 live key was removed since the last clear
    large_seen: bool,        // live keys exceeded 8 (SmallMap promotes; stays large until clear)
    check_while_large: bool, // a Check while in the promoted state
    rm_then_len12: bool,     // an insert while >=12 keys are live and a live key was removed before (EasyHashMap growth copies tombstones)
    inserted: BTreeSet<u16>,
}
fn analyze(ops: &[Op]) -> Facts {
    let mut f = Facts::default(); let mut live: BTreeSet<u16> = BTreeSet::new(); let mut ever_removed: BTreeSet<u16> = BTreeSet::new();
    let mut rm_since_clear = false; let mut large = false;
    for o in ops {
        match *o {
            Op::Ins(k, _) => { f.inserted.insert(k); if live.len() >= 12 && rm_since_clear { f.rm_then_len12 = true; }
                if live.contains(&k) { f.updates += 1; if rm_since_clear { f.upd_after_rm = true; } } else { if live.len() >= 8 { large = true; f.large_seen = true; } live.insert(k); f.ins_new += 1; if ever_removed.contains(&k) { f.reinserts += 1; } } }
            Op::Rem(k) => { if live.remove(&k) { f.rem_live += 1; rm_since_clear = true; ever_removed.insert(k); } else { f.rem_absent += 1; } }
            Op::GetMut(..) => {}
            Op::Get(_) | Op::Has(_) => {}
            Op::Clear => { live.clear(); f.clears += 1; rm_since_clear = false; large = false; }
            Op::Check => { f.checks += 1; if rm_since_clear { f.check_after_rm = true; } if large { f.check_while_large = true; } }
            Op::Extra(_) => {}
        }
        f.max_len = f.max_len.max(live.len());
    }
    f
}
/// SmallMap<u8,_>::get_fast root-cause predicate: key index `zi` is looked up (Get op or Check sweep) while it is absent and 5..=8
/// entries are stored inline (never more than 8 live keys since the last clear)
fn absent_lookup_5to8(ops: &[Op], zi: u16) -> bool {
    let mut live: BTreeSet<u16> = BTreeSet::new(); let mut large = false;
    for o in ops { match *o {
        Op::Ins(k, _) => { if !live.contains(&k) && live.len() >= 8 { large = true; } live.insert(k); }
        Op::Rem(k) => { live.remove(&k); }
        Op::Clear => { live.clear(); large = false; }
        Op::Get(k) if k == zi => { if !large && !live.contains(&zi) && (5..=8).contains(&live.len()) { return true; } }
        Op::Check => { if !large && !live.contains(&zi) && (5..=8).contains(&live.len()) { return true; } }
        _ => {} } }
    false
}
fn note_facts(c: &mut Case, f: &Facts, nops: usize) {
    c.note("ops", nops as u64); c.note("ins_new", f.ins_new); c.note("updates", f.updates); c.note("rem_live", f.rem_live); c.note("reinserts", f.reinserts);
    c.note("clears", f.clears); c.note("checks", f.checks); c.note("max_len", f.max_len as u64);
    c.set_nontrivial(f.ins_new >= 1 && nops >= 2);
}

// ---------------------------------------------------------------------------------------------------------------
// system under test
// ---------------------------------------------------------------------------------------------------------------
pub trait Sut<K> {
    fn insert(&mut self, k: K, v: u64) -> Result<Option<u64>, String>;
    /// false when the API does not report the previous value (EasyHashMap::put)
    fn reports_prev(&self) -> bool { true }
    fn remove(&mut self, k: &K) -> Result<Option<u64>, String>;
    fn get(&self, k: &K) -> Option<u64>;
    /// None = no get_mut in the API; Some(None) = key absent; Some(Some(old)) = value was `old`, now overwritten by `nv`
    fn get_mut_set(&mut self, _k: &K, _nv: u64) -> Option<Option<u64>> { None }
    fn contains(&self, k: &K) -> bool;
    fn len(&self) -> usize;
    /// every iteration API that must yield exactly the live entries in the current state
    fn iters(&self) -> Vec<(&'static str, Vec<(K, u64)>)> { vec![] }
    /// false = no clear in the API
    fn clear(&mut self) -> bool { false }
    /// maintenance operation that must not change the abstract state
    fn extra(&mut self, _which: u8) -> Result<(), String> { Ok(()) }
    /// huge_* histories: may maintenance op `which` be run with `live` live keys? (false only where the call is known not to terminate in
    /// reasonable time on the unchanged tree, see EasyHashMap::shrink_to_fit)
    fn huge_extra_ok(&self, _which: u8, _live: usize) -> bool { true }
    fn coverage(&self, _c: &mut Case) {}
}

fn render(ops: &[Op], i: usize) -> String {
    let lo = i.saturating_sub(24); let mut s = String::new();
    for o in &ops[lo..=i] { s.push_str(&match *o { Op::Ins(k, v) => format!("ins k{k}={v};"), Op::Rem(k) => format!("rem k{k};"), Op::Get(k) => format!("get k{k};"), Op::GetMut(k, v) => format!("getmut k{k}:={v};"), Op::Has(k) => format!("has k{k};"), Op::Clear => "clear;".into(), Op::Extra(e) => format!("extra{e};"), Op::Check => "check;".into() }); }
    format!("(ops {lo}..={i}) {s}")
}
fn cmp_get(what: &str, got: Option<u64>, want: Option<u64>) -> Option<String> {
    match (got, want) { (a, b) if a == b => None, (None, Some(_)) => Some(format!("{what}_lost")), (Some(_), None) => Some(format!("{what}_ghost")), _ => Some(format!("{what}_stale")) }
}

fn full_check<K: Clone + Ord + Debug, M: Sut<K>>(c: &mut Case, m: &M, model: &BTreeMap<K, u64>, pool: &[K], iter: bool, ops: &[Op], i: usize) -> Res {
    let l = m.len(); c.ev(1);
    ensure!(l == model.len(), "len", "check at op#{i}: len()={l} want {} {}", model.len(), render(ops, i));
    for (ki, k) in pool.iter().enumerate() {
        let want = model.get(k).copied(); let got = m.get(k); c.ev(2);
        if let Some(cl) = cmp_get("get", got, want) { return Err(bad(&cl, format!("check at op#{i}: get(k{ki}={k:?})={got:?} want {want:?} {}", render(ops, i)))); }
        let h = m.contains(k); ensure!(h == want.is_some(), "contains", "check at op#{i}: contains_key(k{ki}={k:?})={h} want {} {}", want.is_some(), render(ops, i));
    }
    if iter {
        for (name, mut got) in m.iters() {
            c.ev(1); c.note("iter_checks", 1);
            got.sort();
            let n = got.len();
            let cls = |kind: &str| format!("{name}_{kind}");
            for (k, v) in &got { if !model.contains_key(k) { return Err(bad(&cls("ghost"), format!("check at op#{i}: {name}() yields ({k:?},{v}) which is not live; yielded {n} entries, {} live {}", model.len(), render(ops, i)))); } }
            for w in got.windows(2) { if w[0].0 == w[1].0 { return Err(bad(&cls("dup"), format!("check at op#{i}: {name}() yields key {:?} twice (values {} and {}); yielded {n}, {} live {}", w[0].0, w[0].1, w[1].1, model.len(), render(ops, i)))); } }
            for (k, v) in &got { if model[k] != *v { return Err(bad(&cls("value"), format!("check at op#{i}: {name}() yields ({k:?},{v}) want value {} {}", model[k], render(ops, i)))); } }
            if n != model.len() { let miss = model.keys().find(|k| got.binary_search_by(|p| p.0.cmp(k)).is_err()); return Err(bad(&cls("missing"), format!("check at op#{i}: {name}() yielded {n} of {} live entries, e.g. missing {miss:?} {}", model.len(), render(ops, i)))); }
        }
    }
    Ok(())
}

pub struct XO { pub iter: bool, pub len_each: bool }

pub fn exec<K: Clone + Ord + Debug, M: Sut<K>>(c: &mut Case, m: &mut M, pool: &[K], ops: &[Op], xo: &XO) -> Res {
    let mut model: BTreeMap<K, u64> = BTreeMap::new();
    for (i, op) in ops.iter().enumerate() {
        match *op {
            Op::Ins(ki, v) => { let k = &pool[ki as usize];
                let got = m.insert(k.clone(), v).map_err(|e| bad("insert_err", format!("op#{i}: insert(k{ki}={k:?}) returned Err({e}) with {} live keys {}", model.len(), render(ops, i))))?;
                let want = model.insert(k.clone(), v);
                if m.reports_prev() { c.ev(1); ensure!(got == want, if want.is_some() { "insert_ret_update" } else { "insert_ret_new" }, "op#{i}: insert(k{ki}={k:?},{v}) returned {got:?} want {want:?} {}", render(ops, i)); } }
            Op::Rem(ki) => { let k = &pool[ki as usize];
                let got = m.remove(k).map_err(|e| bad("remove_err", format!("op#{i}: remove(k{ki}={k:?}) returned Err({e}) {}", render(ops, i))))?;
                let want = model.remove(k); c.ev(1);
                if let Some(cl) = cmp_get("remove", got, want) { return Err(bad(&cl, format!("op#{i}: remove(k{ki}={k:?}) returned {got:?} want {want:?} {}", render(ops, i)))); } }
            Op::Get(ki) => { let k = &pool[ki as usize]; let got = m.get(k); let want = model.get(k).copied(); c.ev(1);
                if let Some(cl) = cmp_get("get", got, want) { return Err(bad(&cl, format!("op#{i}: get(k{ki}={k:?})={got:?} want {want:?} {}", render(ops, i)))); } }
            Op::GetMut(ki, nv) => { let k = &pool[ki as usize];
                if let Some(got) = m.get_mut_set(k, nv) { let want = model.get(k).copied(); c.ev(1);
                    if let Some(cl) = cmp_get("get_mut", got, want) { return Err(bad(&cl, format!("op#{i}: get_mut(k{ki}={k:?})={got:?} want {want:?} {}", render(ops, i)))); }
                    if want.is_some() { model.insert(k.clone(), nv); let back = m.get(k); c.ev(1); ensure!(back == Some(nv), "get_mut_write_lost", "op#{i}: wrote {nv} through get_mut(k{ki}={k:?}) but get() now returns {back:?} {}", render(ops, i)); } } }
            Op::Has(ki) => { let k = &pool[ki as usize]; let got = m.contains(k); c.ev(1); ensure!(got == model.contains_key(k), "contains", "op#{i}: contains_key(k{ki}={k:?})={got} want {} {}", !got, render(ops, i)); }
            Op::Clear => { if m.clear() { model.clear(); } }
            Op::Extra(e) => { m.extra(e).map_err(|er| bad("maintenance_err", format!("op#{i}: maintenance op {e} returned Err({er}) {}", render(ops, i))))?; }
            Op::Check => { full_check(c, m, &model, pool, xo.iter, ops, i)?; }
        }
        if xo.len_each { let l = m.len(); c.ev(1); ensure!(l == model.len(), "len", "op#{i}: len()={l} want {} {}", model.len(), render(ops, i)); }
    }
    m.coverage(c);
    Ok(())
}


// ---------------------------------------------------------------------------------------------------------------
// huge_* families: > 65536 / > 131072 live elements, growth across many resize steps, then the operations that
// re-index / relink / rehash (remove, get_mut, iterate, reserve / shrink / revoke, clear). Oracle: the same model map,
// but lookups of every key only at the verification points and `len()` only at the 2^16 / 2^17 boundaries
// (ZiporaHashMap::len is O(capacity)); lookups that can cost O(table) (absent keys in a table without empty slots) are sampled.
// ---------------------------------------------------------------------------------------------------------------
const HUGE_NS: &[usize] = &[65535, 65536, 65537, 70001, 100003, 131071, 131072, 131073, 131074, 140001];
fn huge_boundary(i: usize) -> bool { matches!(i, 65535 | 65536 | 65537 | 131071 | 131072 | 131073 | 131074) }

fn huge_verify<K: Clone + Ord + Debug, M: Sut<K>>(c: &mut Case, m: &M, model: &BTreeMap<K, u64>, absent: &[K], iter: bool, phase: &str) -> Res {
    let l = m.len(); c.ev(1); ensure!(l == model.len(), "len", "{phase}: len()={l} want {}", model.len());
    for (k, v) in model { let got = m.get(k); c.ev(1); if let Some(cl) = cmp_get("get", got, Some(*v)) { return Err(bad(&cl, format!("{phase}: get({k:?})={got:?} want Some({v}) with {} live keys", model.len()))); } }
    for k in absent { let got = m.get(k); c.ev(2); if let Some(cl) = cmp_get("get", got, None) { return Err(bad(&cl, format!("{phase}: get({k:?})={got:?} want None (key was removed / never inserted), {} live keys", model.len()))); }
        ensure!(!m.contains(k), "contains", "{phase}: contains_key({k:?})=true want false"); }
    if iter {
        for (name, mut got) in m.iters() {
            c.ev(1); c.note("iter_checks", 1); got.sort(); let n = got.len(); let cls = |kind: &str| format!("{name}_{kind}");
            for w in got.windows(2) { if w[0].0 == w[1].0 { return Err(bad(&cls("dup"), format!("{phase}: {name}() yields key {:?} twice; yielded {n}, {} live", w[0].0, model.len()))); } }
            for (k, v) in &got { match model.get(k) { None => return Err(bad(&cls("ghost"), format!("{phase}: {name}() yields ({k:?},{v}) which is not live; yielded {n}, {} live", model.len()))), Some(w) if w != v => return Err(bad(&cls("value"), format!("{phase}: {name}() yields ({k:?},{v}) want value {w}"))), _ => {} } }
            if n != model.len() { let miss = model.keys().find(|k| got.binary_search_by(|p| p.0.cmp(k)).is_err()); return Err(bad(&cls("missing"), format!("{phase}: {name}() yielded {n} of {} live entries, e.g. missing {miss:?}", model.len()))); }
        }
    }
    Ok(())
}

/// which keys the removal phase deletes
#[derive(Clone, Copy, Debug)]
pub enum HugeRm { EveryOther, FirstHalf, AllButOne, RandomThird }

/// grow to keys.len() live entries, verify, maintenance, remove per `rm`, verify, re-insert `reins` removed keys + updates + get_mut, verify,
/// optionally clear and start again with a few keys
pub fn huge_history<K: Clone + Ord + Debug, M: Sut<K>>(c: &mut Case, m: &mut M, keys: &[K], rm: HugeRm, reins: usize, iter: bool, clear_end: bool) -> Res {
    // an open-addressing table that is (almost) exactly full keeps no empty slot after the removals: every miss / re-insert scans the table
    let n = keys.len(); let reins = if n.is_power_of_two() || (n + 1).is_power_of_two() { reins.min(300) } else { reins }; let mut model: BTreeMap<K, u64> = BTreeMap::new(); let mut val = 0u64;
    let mut r = c.rng.fork();
    // ---- growth
    for (i, k) in keys.iter().enumerate() {
        val += 1; let got = m.insert(k.clone(), val).map_err(|e| bad("insert_err", format!("grow: insert #{i} ({k:?}) returned Err({e}) with {} live keys", model.len())))?;
        if m.reports_prev() { c.ev(1); ensure!(got.is_none(), "insert_ret_new", "grow: insert #{i} of new key {k:?} returned {got:?} want None ({} live keys)", model.len()); }
        model.insert(k.clone(), val);
        let live = i + 1;
        if huge_boundary(live) || live == n {
            let l = m.len(); c.ev(1); ensure!(l == live, "len", "grow: len()={l} want {live} after insert #{i}");
            for j in 0..48usize { let q = if j < 4 { i - j.min(i) } else { r.usize_below(live) }; let got = m.get(&keys[q]); let want = model.get(&keys[q]).copied(); c.ev(1);
                if let Some(cl) = cmp_get("get", got, want) { return Err(bad(&cl, format!("grow: get(key #{q} {:?})={got:?} want {want:?} with {live} live keys", keys[q]))); } }
        }
        if i % 4096 == 4095 {
            let q = r.usize_below(live); let got = m.get(&keys[q]); let want = model.get(&keys[q]).copied(); c.ev(1);
            if let Some(cl) = cmp_get("get", got, want) { return Err(bad(&cl, format!("grow: get(key #{q} {:?})={got:?} want {want:?} with {live} live keys", keys[q]))); }
            let u = r.usize_below(live); val += 1; let got = m.insert(keys[u].clone(), val).map_err(|e| bad("insert_err", format!("grow: update of key #{u} returned Err({e})")))?; let want = model.insert(keys[u].clone(), val);
            if m.reports_prev() { c.ev(1); ensure!(got == want, "insert_ret_update", "grow: insert(key #{u} {:?},{val}) returned {got:?} want {want:?} with {live} live keys", keys[u]); }
            let g = r.usize_below(live); val += 1; if let Some(got) = m.get_mut_set(&keys[g], val) { let want = model.insert(keys[g].clone(), val); c.ev(1);
                if let Some(cl) = cmp_get("get_mut", got, want) { return Err(bad(&cl, format!("grow: get_mut(key #{g} {:?})={got:?} want {want:?} with {live} live keys", keys[g]))); } } else { val -= 1; }
        }
    }
    c.note("huge_n", n as u64);
    c.log(format!("huge: grown to {n}")); huge_verify(c, m, &model, &[], iter, "after growth")?; c.log("huge: verified after growth");
    // ---- maintenance on the full table
    for e in 0..4u8 { if !m.huge_extra_ok(e, model.len()) { continue; } m.extra(e).map_err(|er| bad("maintenance_err", format!("after growth: maintenance op {e} returned Err({er})")))?; }
    { let q = r.usize_below(n); let got = m.get(&keys[q]); let want = model.get(&keys[q]).copied(); if let Some(cl) = cmp_get("get", got, want) { return Err(bad(&cl, format!("after maintenance on the full table: get(key #{q})={got:?} want {want:?}"))); } }
    c.log("huge: maintenance done, removing");
    // ---- removal
    let mut removed: Vec<usize> = Vec::new();
    let third: Vec<usize> = if let HugeRm::RandomThird = rm { let mut v: Vec<usize> = (0..n).collect(); r.shuffle(&mut v); v.truncate(n / 3); v } else { vec![] };
    let victims: Vec<usize> = match rm { HugeRm::EveryOther => (0..n).step_by(2).collect(), HugeRm::FirstHalf => (0..n / 2).collect(), HugeRm::AllButOne => (0..n).filter(|&i| i != n / 3).collect(), HugeRm::RandomThird => third };
    for &i in &victims {
        let got = m.remove(&keys[i]).map_err(|e| bad("remove_err", format!("remove of key #{i} returned Err({e})")))?; let want = model.remove(&keys[i]); c.ev(1);
        if let Some(cl) = cmp_get("remove", got, want) { return Err(bad(&cl, format!("removal phase: remove(key #{i} {:?}) returned {got:?} want {want:?}; {} live keys left of {n}", keys[i], model.len()))); }
        removed.push(i);
    }
    c.note("huge_removed", removed.len() as u64);
    // removed keys looked up again (sampled: may cost O(table) each in an open-addressing table without empty slots)
    let mut absent: Vec<K> = Vec::new(); for j in 0..removed.len().min(64) { absent.push(keys[removed[(j * 7919) % removed.len()]].clone()); }
    for k in absent.iter().take(16) { let got = m.remove(k).map_err(|e| bad("remove_err", format!("second remove returned Err({e})")))?; c.ev(1); if let Some(cl) = cmp_get("remove", got, None) { return Err(bad(&cl, format!("removal phase: second remove({k:?}) returned {got:?} want None"))); } }
    c.log(format!("huge: removed {}", removed.len())); huge_verify(c, m, &model, &absent, iter, "after removal")?; c.log("huge: verified after removal");
    for e in 0..4u8 { if !m.huge_extra_ok(e, model.len()) { continue; } m.extra(e).map_err(|er| bad("maintenance_err", format!("after removal: maintenance op {e} returned Err({er})")))?; }
    huge_verify(c, m, &model, &absent, false, "after removal + maintenance")?;
    c.log("huge: maintenance after removal done");
    // ---- re-insertion of removed keys, updates and get_mut of survivors
    r.shuffle(&mut removed);
    for &i in removed.iter().take(reins) { val += 1; let got = m.insert(keys[i].clone(), val).map_err(|e| bad("insert_err", format!("re-insert of key #{i} returned Err({e})")))?; let want = model.insert(keys[i].clone(), val);
        if m.reports_prev() { c.ev(1); ensure!(got == want, "insert_ret_new", "re-insertion phase: insert(removed key #{i} {:?}) returned {got:?} want {want:?}", keys[i]); } }
    let live: Vec<K> = model.keys().step_by((model.len() / 2000).max(1)).cloned().collect();
    for (j, k) in live.iter().enumerate() { val += 1;
        if j % 2 == 0 { let got = m.insert(k.clone(), val).map_err(|e| bad("insert_err", format!("update returned Err({e})")))?; let want = model.insert(k.clone(), val); if m.reports_prev() { c.ev(1); ensure!(got == want, "insert_ret_update", "re-insertion phase: insert(live key {k:?},{val}) returned {got:?} want {want:?}"); } }
        else if let Some(got) = m.get_mut_set(k, val) { let want = model.insert(k.clone(), val); c.ev(1); if let Some(cl) = cmp_get("get_mut", got, want) { return Err(bad(&cl, format!("re-insertion phase: get_mut({k:?})={got:?} want {want:?}"))); } } }
    c.log("huge: re-inserted / updated");
    let absent2: Vec<K> = absent.iter().filter(|k| !model.contains_key(k)).cloned().collect();
    huge_verify(c, m, &model, &absent2, iter, "after re-insertion")?;
    // ---- clear and restart
    if clear_end && m.clear() {
        model.clear(); let l = m.len(); ensure!(l == 0, "len", "after clear: len()={l} want 0");
        for &i in &[0usize, n / 2, n - 1] { let got = m.get(&keys[i]); if let Some(cl) = cmp_get("get", got, None) { return Err(bad(&cl, format!("after clear: get(key #{i})={got:?} want None"))); } }
        for i in (0..n).step_by((n / 300).max(1)) { val += 1; let got = m.insert(keys[i].clone(), val).map_err(|e| bad("insert_err", format!("insert after clear returned Err({e})")))?; if m.reports_prev() { ensure!(got.is_none(), "insert_ret_new", "after clear: insert(key #{i}) returned {got:?} want None"); } model.insert(keys[i].clone(), val); }
        huge_verify(c, m, &model, &[], iter, "after clear + re-fill")?;
    }
    m.coverage(c);
    Ok(())
}
fn huge_rm(r: &mut Rng) -> HugeRm { *r.pick(&[HugeRm::EveryOther, HugeRm::FirstHalf, HugeRm::AllButOne, HugeRm::RandomThird]) }
/// u64 key shapes at huge sizes: dense 1..=n, keys differing only in the high bytes, random, multiples of 65536 (+1)
fn huge_u64_keys(r: &mut Rng, n: usize, shape: u32) -> Vec<u64> {
    let mut v: Vec<u64> = match shape % 4 { 0 => (1..=n as u64).collect(), 1 => (1..=n as u64).map(|i| (i << 40) | 7).collect(), 2 => { let mut s = BTreeSet::new(); while s.len() < n { let x = r.next(); if x != 0 && x != u64::MAX { s.insert(x); } } s.into_iter().collect() } _ => (1..=n as u64).map(|i| i * 65536 + 1).collect() };
    r.shuffle(&mut v); v
}
const HUGE_SHAPES: [&str; 4] = ["dense", "highbytes", "random", "stride65536"];
/// String keys: long shared prefix + decimal index, plus the full 256-way fan-out under that prefix (one char U+0000..U+00FF appended)
fn huge_str_keys(r: &mut Rng, n: usize) -> Vec<String> {
    let plen = *r.pick(&[0usize, 7, 64, 300]); let prefix: String = (0..plen).map(|i| (b'a' + (i % 3) as u8) as char).collect();
    let mut v: Vec<String> = (0..n.saturating_sub(256)).map(|i| format!("{prefix}#{i}")).collect();
    for b in 0..256u32 { v.push(format!("{prefix}{}", char::from_u32(b).unwrap())); }
    v.truncate(n.max(256)); r.shuffle(&mut v); v
}

// ---- ZiporaHashMap ----------------------------------------------------------------------------------------------
pub struct Zhm<K: Hash + Eq + Clone, S: BuildHasher>(pub ZiporaHashMap<K, u64, S>);
impl<K: Hash + Eq + Clone + Ord + Debug, S: BuildHasher> Sut<K> for Zhm<K, S> {
    fn insert(&mut self, k: K, v: u64) -> Result<Option<u64>, String> { self.0.insert(k, v).map_err(|e| e.to_string()) }
    fn remove(&mut self, k: &K) -> Result<Option<u64>, String> { Ok(self.0.remove(k)) }
    fn get(&self, k: &K) -> Option<u64> { self.0.get(k).copied() }
    fn get_mut_set(&mut self, k: &K, nv: u64) -> Option<Option<u64>> { Some(self.0.get_mut(k).map(|r| std::mem::replace(r, nv))) }
    fn contains(&self, k: &K) -> bool { self.0.contains_key(k) }
    fn len(&self) -> usize { self.0.len() }
    fn iters(&self) -> Vec<(&'static str, Vec<(K, u64)>)> { vec![("iter", self.0.iter().map(|(k, v)| (k.clone(), *v)).collect())] }
    fn clear(&mut self) -> bool { self.0.clear(); true }
    fn coverage(&self, c: &mut Case) { c.note("rehashes", self.0.stats().rehashes); c.note("final_capacity", self.0.capacity() as u64); }
}

fn rnd_hash_strategy(r: &mut Rng, which: u32) -> HashStrategy {
    match which % 5 {
        0 => HashStrategy::RobinHood { max_probe_distance: *r.pick(&[1u16, 4, 32, 64]), variance_reduction: r.bool(), backward_shift: r.bool() },
        1 => HashStrategy::Chaining { load_factor: *r.pick(&[0.5f64, 0.75, 1.0, 2.0]), hash_cache: r.bool(), compact_links: r.bool() },
        2 => HashStrategy::Hopscotch { neighborhood_size: *r.pick(&[4u8, 32, 64]), displacement_threshold: *r.pick(&[1u16, 16, 128]) },
        3 => HashStrategy::LinearProbing { max_probe_distance: *r.pick(&[1u16, 8, 64]), cache_aligned: r.bool() },
        _ => HashStrategy::Cuckoo { num_hash_functions: *r.pick(&[2u8, 3, 4]), max_evictions: *r.pick(&[1u16, 8, 64]) },
    }
}
fn rnd_opt_strategy(r: &mut Rng) -> OptimizationStrategy {
    match r.below(4) {
        0 => OptimizationStrategy::Standard,
        1 => OptimizationStrategy::SimdAccelerated { string_ops: r.bool(), bulk_ops: r.bool(), hash_computation: r.bool() },
        2 => OptimizationStrategy::CacheAware { prefetch_distance: r.usize_below(5), hot_cold_separation: r.bool(), access_pattern_tracking: r.bool() },
        _ => OptimizationStrategy::HighPerformance { simd_enabled: r.bool(), cache_optimized: r.bool(), prefetch_enabled: r.bool(), numa_aware: r.bool() },
    }
}
const HS_NAMES: [&str; 5] = ["robinhood", "chaining", "hopscotch", "linear", "cuckoo"];

/// zhm targets: (id, backed by the Standard storage?, string keys?)
const ZHM_TARGETS: &[(&str, bool, bool)] = &[
    ("zhm/default", true, false), ("zhm/concurrent_pool", true, false),
    ("zhm/std_robinhood", true, false), ("zhm/std_chaining", true, false), ("zhm/std_hopscotch", true, false), ("zhm/std_linear", true, false), ("zhm/std_cuckoo", true, false),
    ("zhm/std_cap_nonpow2", true, false), ("zhm/with_capacity", true, false), ("zhm/pool_x", true, false), ("zhm/default_strkeys", true, true),
    ("zhm/cache_optimized", false, false), ("zhm/string_optimized", false, true), ("zhm/small_inline", false, false),
    ("zhm/inline_x", false, false), ("zhm/cacheopt_x", false, false), ("zhm/stringopt_x", false, true),
];
fn zhm_config(target: &str, r: &mut Rng) -> Result<ZiporaHashMapConfig, Fail> {
    let mkpool = || SecureMemoryPool::new(SecurePoolConfig::small_secure()).map_err(|e| bad("ctor_err", format!("SecureMemoryPool::new: {e}")));
    let t = target.strip_prefix("zhm/").unwrap_or(target);
    Ok(match t {
        "default" | "default_strkeys" | "with_capacity" => ZiporaHashMapConfig::default(),
        "concurrent_pool" => ZiporaHashMapConfig::concurrent_pool(mkpool()?),
        "cache_optimized" => ZiporaHashMapConfig::cache_optimized(),
        "string_optimized" => ZiporaHashMapConfig::string_optimized(),
        "small_inline" => ZiporaHashMapConfig::small_inline(*r.pick(&[1usize, 2, 4, 8, 16])),
        "std_cap_nonpow2" => { let n = *r.pick(&[17usize, 24, 31, 33, 48, 100, 1000]); let mut c = ZiporaHashMapConfig::default(); c.initial_capacity = n; c.storage_strategy = StorageStrategy::Standard { initial_capacity: n, growth_factor: 2.0 }; c }
        _ => {
            let hs = if let Some(i) = HS_NAMES.iter().position(|n| t == format!("std_{n}")) { rnd_hash_strategy(r, i as u32) } else { let w = r.below(5) as u32; rnd_hash_strategy(r, w) };
            let cap = *r.pick(&[0usize, 1, 2, 16, 16, 32, 64, 256]);
            let st = match t {
                "pool_x" => StorageStrategy::PoolAllocated { pool: mkpool()?, chunk_size: *r.pick(&[64usize, 1024]) },
                "inline_x" => StorageStrategy::SmallInline { inline_capacity: *r.pick(&[1usize, 4, 16]), fallback_threshold: *r.pick(&[2usize, 8, 32]) },
                "cacheopt_x" => StorageStrategy::CacheOptimized { cache_line_size: 64, numa_aware: r.bool(), huge_pages: false },
                "stringopt_x" => StorageStrategy::StringOptimized { arena_size: *r.pick(&[64usize, 4096]), prefix_cache: r.bool(), interning: r.bool() },
                _ => StorageStrategy::Standard { initial_capacity: cap, growth_factor: *r.pick(&[1.5f64, 2.0, 4.0]) },
            };
            ZiporaHashMapConfig { hash_strategy: hs, storage_strategy: st, optimization_strategy: rnd_opt_strategy(r), initial_capacity: cap, load_factor: *r.pick(&[0.5f64, 0.75, 0.9, 1.0]) }
        }
    })
}

fn u64_pool(r: &mut Rng, n: usize) -> Vec<u64> {
    let mut s: BTreeSet<u64> = BTreeSet::new(); let mut v = Vec::with_capacity(n);
    let specials = r.bool(); let style = r.below(4);
    if specials { for x in [0u64, u64::MAX] { if v.len() < n && s.insert(x) { v.push(x); } } }
    let mut next = 1u64;
    while v.len() < n {
        let x = match style { 0 => { next += 1; next - 1 } 1 => { next += 1; (next - 1) * 16 } 2 => r.next(), _ => if r.bool() { next += 1; next - 1 } else { r.next() } };
        if s.insert(x) { v.push(x); }
    }
    if n > 2 && r.bool() { r.shuffle(&mut v); }
    v
}
fn str_pool(r: &mut Rng, n: usize) -> Vec<String> {
    let mut s: BTreeSet<String> = BTreeSet::new(); let mut v = Vec::with_capacity(n); let mode = r.below(6) as u32; let mut tries = 0;
    while v.len() < n { tries += 1; let md = if r.chance(1, 4) { r.below(6) as u32 } else { mode }; let k = if tries > 20 * n { format!("k{}", v.len()) } else { String::from_utf8_lossy(&gen::key(r, md)).into_owned() }; if s.insert(k.clone()) { v.push(k); } }
    v
}
fn ak_pool(r: &mut Rng, n: usize, hm: u8) -> Vec<AK> { u64_pool(r, n).into_iter().map(|id| AK { id, hm }).collect() }

/// tags for maps backed by ZiporaHashMap's Standard storage with a caller visible hash function
fn sentinel_tags<K: Hash>(c: &mut Case, b: &AdvBuild, pool: &[K], f: &Facts) {
    let (mut z, mut mx) = (false, false);
    for &ki in &f.inserted { let h = b.hash_one(&pool[ki as usize]); if h == 0 { z = true; } if h == u64::MAX { mx = true; } }
    if z { c.tag("hash_zero"); } if mx { c.tag("hash_max"); }
}
fn tombstone_tags(c: &mut Case, f: &Facts, iter: bool) {
    if f.upd_after_rm { c.tag("upd_after_rm"); }
    if iter && f.check_after_rm { c.tag("iter_after_rm"); }
}

fn zhm_case<K: Hash + Eq + Clone + Ord + Debug>(c: &mut Case, target: &str, standard: bool, hm: HM, pool: Vec<K>, ops: Vec<Op>, xo: XO, keybytes: Vec<u8>) -> Res {
    let cfg = zhm_config(target, &mut c.rng)?; let wc = *c.rng.pick(&[0usize, 1, 15, 16, 17, 64, 100, 1000]); let ctor = c.rng.below(3);
    c.input_str("hasher", hm.name()); c.input_str("config", &format!("{:?}/{:?} cap={} lf={}", cfg.hash_strategy, cfg.storage_strategy, cfg.initial_capacity, cfg.load_factor));
    c.input("keys", &keybytes); c.input("ops", &encode_ops(&ops));
    let f = analyze(&ops); note_facts(c, &f, ops.len());
    let b = AdvBuild(hm);
    if standard { sentinel_tags(c, &b, &pool, &f); tombstone_tags(c, &f, xo.iter); } else { c.tag("stub_storage"); }
    DEFAULT_HM.with(|d| d.set(hm));
    if target == "zhm/with_capacity" { c.input_str("with_capacity", &wc.to_string()); if wc > 16 && !wc.is_power_of_two() { c.tag("nonpow2_capacity"); } }
    let m = match catch(|| if target == "zhm/with_capacity" { ZiporaHashMap::<K, u64, AdvBuild>::with_capacity(wc) } else if target == "zhm/default" && ctor == 0 { ZiporaHashMap::<K, u64, AdvBuild>::new() } else if ctor == 1 { ZiporaHashMap::<K, u64, AdvBuild>::with_config(cfg) } else { ZiporaHashMap::<K, u64, AdvBuild>::with_config_and_hasher(cfg, b) }) { Ok(Ok(m)) => m, Ok(Err(e)) => return Err(bad("ctor_err", format!("with_config_and_hasher: {e}"))), Err(p) => return Err(bad(&p.class(), format!("constructor panicked at {}: {}", p.loc, p.msg))) };
    exec(c, &mut Zhm(m), &pool, &ops, &xo)
}


/// huge histories on the Standard-storage ZiporaHashMap targets (power-of-two or default capacities only: a non power-of-two
/// capacity leaves 2^popcount(capacity-1) slots reachable, see `huge_capplus1`)
fn zhm_huge_case<K: Hash + Eq + Clone + Ord + Debug>(c: &mut Case, target: &str, hm: HM, keys: Vec<K>, desc: &str) -> Res {
    let cfg = zhm_config(target, &mut c.rng)?; let wc = *c.rng.pick(&[0usize, 16, 65536, 131072]); let ctor = c.rng.below(3);
    let rm = huge_rm(&mut c.rng); let reins = *c.rng.pick(&[0usize, 300, 1500]); let clear_end = c.rng.bool();
    c.input_str("hasher", hm.name()); c.input_str("config", &format!("{:?}/{:?} cap={} lf={}", cfg.hash_strategy, cfg.storage_strategy, cfg.initial_capacity, cfg.load_factor));
    c.input_str("keys", desc); c.input_str("plan", &format!("n={} rm={rm:?} reins={reins} clear_end={clear_end}", keys.len())); c.set_nontrivial(true);
    let b = AdvBuild(hm); DEFAULT_HM.with(|d| d.set(hm));
    if target == "zhm/with_capacity" { c.input_str("with_capacity", &wc.to_string()); }
    let m = match catch(|| if target == "zhm/with_capacity" { ZiporaHashMap::<K, u64, AdvBuild>::with_capacity(wc) } else if target == "zhm/default" && ctor == 0 { ZiporaHashMap::<K, u64, AdvBuild>::new() } else if ctor == 1 { ZiporaHashMap::<K, u64, AdvBuild>::with_config(cfg) } else { ZiporaHashMap::<K, u64, AdvBuild>::with_config_and_hasher(cfg, b) }) { Ok(Ok(m)) => m, Ok(Err(e)) => return Err(bad("ctor_err", format!("constructor: {e}"))), Err(p) => return Err(bad(&p.class(), format!("constructor panicked at {}: {}", p.loc, p.msg))) };
    huge_history(c, &mut Zhm(m), &keys, rm, reins, true, clear_end)
}

// ---- GoldHashMap --------------------------------------------------------------------------------------------------
pub struct Gold<L: LinkType> { m: GoldHashMap<AK, u64, L>, default_fast: bool, cap0: usize, rehash_seen: std::cell::Cell<u64> }
impl<L: LinkType> Sut<AK> for Gold<L> {
    fn insert(&mut self, k: AK, v: u64) -> Result<Option<u64>, String> { let r = self.m.insert(k, v).map_err(|e| e.to_string()); if self.m.capacity() != self.cap0 { self.cap0 = self.m.capacity(); self.rehash_seen.set(self.rehash_seen.get() + 1); } r }
    fn remove(&mut self, k: &AK) -> Result<Option<u64>, String> { self.m.remove(k).map_err(|e| e.to_string()) }
    fn get(&self, k: &AK) -> Option<u64> { self.m.get(k).copied() }
    fn get_mut_set(&mut self, k: &AK, nv: u64) -> Option<Option<u64>> { Some(self.m.get_mut(k).map(|r| std::mem::replace(r, nv))) }
    fn contains(&self, k: &AK) -> bool { self.m.contains_key(k) }
    fn len(&self) -> usize { self.m.len() }
    fn iters(&self) -> Vec<(&'static str, Vec<(AK, u64)>)> {
        let col = |it: zipora::hash_map::GoldHashMapIter<AK, u64, L>| it.map(|(k, v)| (k.clone(), *v)).collect::<Vec<_>>();
        let mut out = vec![("iter_safe", col(self.m.iter_with_strategy(IterationStrategy::Safe)))];
        // the Fast strategy is documented to include deleted entries: only in-contract while no deleted slot exists
        let nodel = self.m.deleted_count() == 0;
        if nodel { out.push(("iter_fast", col(self.m.iter_fast()))); }
        if !self.default_fast || nodel { out.push(("iter", col(self.m.iter()))); }
        out
    }
    fn clear(&mut self) -> bool { self.m.clear(); true }
    fn extra(&mut self, w: u8) -> Result<(), String> {
        match w { 0 => self.m.revoke_deleted().map_err(|e| format!("revoke_deleted: {e}")), 1 => { let on = self.m.is_hash_cached(); self.m.set_hash_caching(!on); Ok(()) } 2 => self.m.reserve(3).map_err(|e| format!("reserve: {e}")), _ => self.m.revoke_deleted().map_err(|e| format!("revoke_deleted: {e}")) }
    }
    fn coverage(&self, c: &mut Case) { c.note("rehashes", self.rehash_seen.get()); c.note("deleted_at_end", self.m.deleted_count() as u64); c.note("hash_cached_at_end", self.m.is_hash_cached() as u64); }
}
const GOLD_CFGS: &[&str] = &["default", "small", "large", "high_churn", "nofreelist", "nofreelist_gc", "fastiter", "cache_lowload", "highload"];
fn gold_config(name: &str) -> GoldHashMapConfig {
    match name {
        "default" => GoldHashMapConfig::default(), "small" => GoldHashMapConfig::small(), "large" => GoldHashMapConfig::large(), "high_churn" => GoldHashMapConfig::high_churn(),
        "nofreelist" => GoldHashMapConfig { enable_freelist_reuse: false, ..GoldHashMapConfig::default() },
        "nofreelist_gc" => GoldHashMapConfig { enable_freelist_reuse: false, enable_auto_gc: true, enable_hash_cache: true, ..GoldHashMapConfig::default() },
        "fastiter" => GoldHashMapConfig { default_iteration_strategy: IterationStrategy::Fast, enable_auto_gc: true, ..GoldHashMapConfig::default() },
        "cache_lowload" => GoldHashMapConfig { initial_capacity: 0, load_factor: 0.3, enable_hash_cache: true, ..GoldHashMapConfig::default() },
        _ => GoldHashMapConfig { initial_capacity: 5, load_factor: 0.95, ..GoldHashMapConfig::default() },
    }
}
fn gold_case<L: LinkType>(c: &mut Case, cfgname: &str, ops: &[Op], pool: &[AK], xo: &XO) -> Res {
    let cfg = gold_config(cfgname); c.input_str("config", &format!("{cfg:?}"));
    let fast = cfg.default_iteration_strategy == IterationStrategy::Fast;
    let m = GoldHashMap::<AK, u64, L>::with_config(cfg); let cap0 = m.capacity();
    exec(c, &mut Gold { m, default_fast: fast, cap0, rehash_seen: std::cell::Cell::new(0) }, pool, ops, xo)
}

// ---- GoldHashIdx --------------------------------------------------------------------------------------------------
pub struct Idx(GoldHashIdx<AK, u64>);
impl Sut<AK> for Idx {
    fn insert(&mut self, k: AK, v: u64) -> Result<Option<u64>, String> { self.0.insert(k, v).map_err(|e| e.to_string()) }
    fn remove(&mut self, k: &AK) -> Result<Option<u64>, String> { Ok(self.0.remove(k)) }
    fn get(&self, k: &AK) -> Option<u64> { self.0.get(k).copied() }
    fn get_mut_set(&mut self, k: &AK, nv: u64) -> Option<Option<u64>> { Some(self.0.get_mut(k).map(|r| std::mem::replace(r, nv))) }
    fn contains(&self, k: &AK) -> bool { self.0.contains_key(k) }
    fn len(&self) -> usize { self.0.len() }
    fn extra(&mut self, _w: u8) -> Result<(), String> { self.0.shrink_to_fit(); Ok(()) }
}

// ---- SmallMap -----------------------------------------------------------------------------------------------------
pub struct Small(SmallMap<AK, u64>);
impl Sut<AK> for Small {
    fn insert(&mut self, k: AK, v: u64) -> Result<Option<u64>, String> { self.0.insert(k, v).map_err(|e| e.to_string()) }
    fn remove(&mut self, k: &AK) -> Result<Option<u64>, String> { Ok(self.0.remove(k)) }
    fn get(&self, k: &AK) -> Option<u64> { self.0.get(k).copied() }
    fn get_mut_set(&mut self, k: &AK, nv: u64) -> Option<Option<u64>> { Some(self.0.get_mut(k).map(|r| std::mem::replace(r, nv))) }
    fn contains(&self, k: &AK) -> bool { self.0.contains_key(k) }
    fn len(&self) -> usize { self.0.len() }
    fn iters(&self) -> Vec<(&'static str, Vec<(AK, u64)>)> { vec![("iter", self.0.iter().map(|(k, v)| (k.clone(), *v)).collect())] }
    fn clear(&mut self) -> bool { self.0.clear(); true }
    fn coverage(&self, c: &mut Case) { c.note("large_at_end", (self.0.capacity() != 8) as u64); }
}
/// SmallMap<u8, _>: lookups through the SIMD specialisation `get_fast`
pub struct SmallU8(SmallMap<u8, u64>);
impl Sut<u8> for SmallU8 {
    fn insert(&mut self, k: u8, v: u64) -> Result<Option<u64>, String> { self.0.insert(k, v).map_err(|e| e.to_string()) }
    fn remove(&mut self, k: &u8) -> Result<Option<u64>, String> { Ok(self.0.remove(k)) }
    fn get(&self, k: &u8) -> Option<u64> { self.0.get_fast(k).copied() }
    fn get_mut_set(&mut self, k: &u8, nv: u64) -> Option<Option<u64>> { Some(self.0.get_mut(k).map(|r| std::mem::replace(r, nv))) }
    fn contains(&self, k: &u8) -> bool { self.0.contains_key(k) }
    fn len(&self) -> usize { self.0.len() }
    fn iters(&self) -> Vec<(&'static str, Vec<(u8, u64)>)> { vec![("iter", self.0.iter().map(|(k, v)| (*k, *v)).collect())] }
    fn clear(&mut self) -> bool { self.0.clear(); true }
}

// ---- EasyHashMap --------------------------------------------------------------------------------------------------
pub struct Easy(EasyHashMap<AK, u64>);
impl Sut<AK> for Easy {
    fn insert(&mut self, k: AK, v: u64) -> Result<Option<u64>, String> { self.0.put(k, v); Ok(None) }
    fn reports_prev(&self) -> bool { false }
    fn remove(&mut self, k: &AK) -> Result<Option<u64>, String> { Ok(self.0.remove(k)) }
    fn get(&self, k: &AK) -> Option<u64> { self.0.get(k).copied() }
    fn contains(&self, k: &AK) -> bool { self.0.contains_key(k) }
    fn len(&self) -> usize { self.0.len() }
    fn clear(&mut self) -> bool { self.0.clear(); true }
    fn extra(&mut self, w: u8) -> Result<(), String> { match w { 0 => self.0.shrink_to_fit(), 1 => self.0.retain(|_, _| true), 2 => self.0.reserve(10), _ => self.0.set_max_load_factor(0.75) } Ok(()) }
    // shrink_to_fit rebuilds into ZiporaHashMap::with_capacity(2 * len), a non power-of-two capacity: mask = capacity - 1 then leaves only
    // 2^popcount(mask) slots reachable and the rebuild of >= ~10^4 entries does not finish within the 60 s watchdog (reported, no oracle class)
    fn huge_extra_ok(&self, w: u8, live: usize) -> bool { w != 0 || live <= 512 }
    fn coverage(&self, c: &mut Case) { c.note("final_capacity", self.0.capacity() as u64); }
}

// ---- HashStrMap ---------------------------------------------------------------------------------------------------
pub struct HStr(HashStrMap<u64>, bool);
impl Sut<String> for HStr {
    fn insert(&mut self, k: String, v: u64) -> Result<Option<u64>, String> { self.1 = !self.1; if self.1 { self.0.insert(&k, v) } else { self.0.insert_string(k, v) }.map_err(|e| e.to_string()) }
    fn remove(&mut self, k: &String) -> Result<Option<u64>, String> { Ok(self.0.remove(k)) }
    fn get(&self, k: &String) -> Option<u64> { self.0.get(k).copied() }
    fn get_mut_set(&mut self, k: &String, nv: u64) -> Option<Option<u64>> { Some(self.0.get_mut(k).map(|r| std::mem::replace(r, nv))) }
    fn contains(&self, k: &String) -> bool { self.0.contains_key(k) }
    fn len(&self) -> usize { self.0.len() }
    fn iters(&self) -> Vec<(&'static str, Vec<(String, u64)>)> { vec![("iter", self.0.iter().map(|(k, v)| (k.clone(), *v)).collect()), ("keys", self.0.keys().map(|k| (k.clone(), *self.0.get(k).unwrap_or(&0))).collect())] }
    fn clear(&mut self) -> bool { self.0.clear(); true }
    fn extra(&mut self, _w: u8) -> Result<(), String> { self.0.shrink_to_fit(); Ok(()) }
}

// ---------------------------------------------------------------------------------------------------------------
// case plumbing
// ---------------------------------------------------------------------------------------------------------------
fn nkeys_for(r: &mut Rng, f: &Fam) -> usize { if r.chance(1, 4) { *r.pick(&[f.ks.0, f.ks.1, (f.ks.0 + f.ks.1) / 2]) } else { r.urange(f.ks.0, f.ks.1) } }
fn u64_bytes(p: &[u64]) -> Vec<u8> { p.iter().flat_map(|x| x.to_le_bytes()).collect() }
fn str_bytes(p: &[String]) -> Vec<u8> { let mut b = vec![]; for s in p { b.extend_from_slice(s.as_bytes()); b.push(0xfe); } b }
fn ak_bytes(p: &[AK]) -> Vec<u8> { p.iter().flat_map(|x| x.id.to_le_bytes()).collect() }

/// common preparation for the AK-keyed maps: pool + ops + inputs + facts
fn prep_ak(c: &mut Case, fam: &Fam, hmode: (&str, u8), grow: Option<usize>) -> (Vec<AK>, Vec<Op>, Facts, XO) {
    let thorough = c.tier == crate::ctx::Tier::Thorough;
    let (pool, ops, xo) = match grow {
        Some(n) => { let p = ak_pool(&mut c.rng, n, hmode.1); let o = gen_grow(&mut c.rng, n); (p, o, XO { iter: true, len_each: false }) }
        None => { let n = nkeys_for(&mut c.rng, fam); let p = ak_pool(&mut c.rng, n, hmode.1); let o = gen_ops(&mut c.rng, fam, n, thorough); (p, o, XO { iter: fam.iter, len_each: fam.len_each }) }
    };
    c.input_str("keyhash", hmode.0); c.input("keys", &ak_bytes(&pool)); c.input("ops", &encode_ops(&ops));
    let f = analyze(&ops); note_facts(c, &f, ops.len());
    (pool, ops, f, xo)
}

pub fn run(ctx: &mut Ctx) {
    let per = ctx.n(5, 180) as u64;       // histories per (target, hasher, family)
    let quick = ctx.quick();
    let small_only = cfg!(miri) || ctx.variant == "miri"; SMALL_ONLY.with(|d| d.set(small_only));
    let per = if small_only { 1 } else { per };
    let ngrow = |ctx: &Ctx, q: usize, t: usize| if small_only { 0 } else { ctx.n(q, t) as u64 };

    // ---------------- ZiporaHashMap: presets and Hash x Storage strategy combinations, caller supplied hashers
    for &(target, standard, strkeys) in ZHM_TARGETS {
        let hms: &[HM] = if standard { ALL_HM } else { &[HM::Sip, HM::Const7, HM::Zero] };
        for &hm in hms {
            for fam in FAMS {
                let n = if standard { per } else { (per / 2).max(1) };
                if !standard && !matches!(fam.name, "tiny" | "insonly") { continue; }
                let g = format!("{}:{}", hm.name(), fam.name);
                for idx in 0..n {
                    ctx.case(target, &g, idx, |c| {
                        let thorough = c.tier == crate::ctx::Tier::Thorough;
                        let nk = nkeys_for(&mut c.rng, fam);
                        let xo = XO { iter: fam.iter, len_each: fam.len_each };
                        if strkeys { let pool = str_pool(&mut c.rng, nk); let ops = gen_ops(&mut c.rng, fam, nk, thorough); let kb = str_bytes(&pool); zhm_case(c, target, standard, hm, pool, ops, xo, kb) }
                        else { let pool = u64_pool(&mut c.rng, nk); let ops = gen_ops(&mut c.rng, fam, nk, thorough); let kb = u64_bytes(&pool); zhm_case(c, target, standard, hm, pool, ops, xo, kb) }
                    });
                }
            }
            // growth / rehash
            if standard && !strkeys {
                let g = format!("{}:growonly", hm.name());
                for idx in 0..ngrow(ctx, 2, 8) {
                    ctx.case(target, &g, idx, |c| {
                        let n = if hm.degenerate() { *c.rng.pick(&[17usize, 40, 150, 400]) } else if quick { *c.rng.pick(&[17usize, 100, 1000, 3000]) } else { *c.rng.pick(&[100usize, 1000, 4000, 10000]) };
                        let pool = u64_pool(&mut c.rng, n); let ops = gen_growonly(&mut c.rng, n); let kb = u64_bytes(&pool);
                        zhm_case(c, target, standard, hm, pool, ops, XO { iter: true, len_each: false }, kb)
                    });
                }
                let g = format!("{}:grow", hm.name());
                for idx in 0..ngrow(ctx, 1, 6) {
                    ctx.case(target, &g, idx, |c| {
                        let n = if hm.degenerate() { *c.rng.pick(&[40usize, 150, 400]) } else if quick { *c.rng.pick(&[100usize, 1000, 3000]) } else { *c.rng.pick(&[100usize, 1000, 4000, 10000]) };
                        let pool = u64_pool(&mut c.rng, n); let ops = gen_grow(&mut c.rng, n); let kb = u64_bytes(&pool);
                        zhm_case(c, target, standard, hm, pool, ops, XO { iter: true, len_each: false }, kb)
                    });
                }
            }
        }
    }

    // ---------------- minimal directed histories (one per known root cause; fixed inputs, idx 0 only)
    let mins: &[(&str, HM, &[u64], &[Op], bool)] = &[
        ("min:hash_zero", HM::Zero, &[5], &[Op::Ins(0, 10), Op::Check], false),
        ("min:hash_zero_ident", HM::Ident, &[0], &[Op::Ins(0, 10), Op::Check], false),
        ("min:hash_max", HM::Max, &[5], &[Op::Ins(0, 10), Op::Check], false),
        ("min:tombstone_update", HM::Const7, &[1, 2], &[Op::Ins(0, 10), Op::Ins(1, 20), Op::Rem(0), Op::Ins(1, 30), Op::Check], false),
        ("min:iter_after_remove", HM::Sip, &[1], &[Op::Ins(0, 10), Op::Rem(0), Op::Check], true),
    ];
    for &(target, standard, strkeys) in ZHM_TARGETS {
        if !standard || strkeys { continue; }
        for &(g, hm, keys, ops, iter) in mins {
            ctx.case(target, g, 0, |c| zhm_case(c, target, true, hm, keys.to_vec(), ops.to_vec(), XO { iter, len_each: true }, u64_bytes(keys)));
        }
    }
    ctx.case("smallmap/promote", "min:iter_large", 0, |c| {
        let pool: Vec<AK> = (1..=9).map(|id| AK { id, hm: 0 }).collect(); let mut ops: Vec<Op> = (0..9).map(|k| Op::Ins(k, 10 + k as u64)).collect(); ops.push(Op::Check);
        c.input("keys", &ak_bytes(&pool)); c.input("ops", &encode_ops(&ops)); let f = analyze(&ops); note_facts(c, &f, ops.len()); c.tag("promoted"); c.tag("iter_while_large");
        exec(c, &mut Small(SmallMap::new()), &pool, &ops, &XO { iter: true, len_each: true }) });
    for (g, n) in [("min:zero_absent_len5", 5u16), ("min:zero_absent_len8", 8)] {
        ctx.case("smallmap/u8_get_fast", g, 0, |c| {
            let pool: Vec<u8> = (0..=n as u8).collect(); let mut ops: Vec<Op> = (1..=n).map(|k| Op::Ins(k, 10 + k as u64)).collect(); ops.push(Op::Get(0));
            c.input("keys", &pool); c.input("ops", &encode_ops(&ops)); let f = analyze(&ops); note_facts(c, &f, ops.len()); c.tag("absent_zero_key_len5to8");
            exec(c, &mut SmallU8(SmallMap::new()), &pool, &ops, &XO { iter: false, len_each: true }) });
    }

    // ---------------- GoldHashMap
    for cfgname in GOLD_CFGS {
        for (lt, t) in [("gold32", 0), ("gold64", 1)] {
            if t == 1 && !matches!(*cfgname, "default" | "small" | "large" | "high_churn") { continue; }
            let target = format!("{lt}/{cfgname}");
            for &hmode in AK_MODES {
                for fam in FAMS {
                    let g = format!("{}:{}", hmode.0, fam.name);
                    for idx in 0..per {
                        ctx.case(&target, &g, idx, |c| { let (pool, ops, _f, xo) = prep_ak(c, fam, hmode, None); if t == 0 { gold_case::<u32>(c, cfgname, &ops, &pool, &xo) } else { gold_case::<u64>(c, cfgname, &ops, &pool, &xo) } });
                    }
                }
                let g = format!("{}:grow", hmode.0);
                for idx in 0..ngrow(ctx, 1, 6) {
                    ctx.case(&target, &g, idx, |c| { let n = if hmode.1 != 0 { *c.rng.pick(&[40usize, 150, 400]) } else if quick { *c.rng.pick(&[100usize, 1000, 3000]) } else { *c.rng.pick(&[1000usize, 4000, 10000]) };
                        let (pool, ops, _f, xo) = prep_ak(c, &CHURN, hmode, Some(n)); if t == 0 { gold_case::<u32>(c, cfgname, &ops, &pool, &xo) } else { gold_case::<u64>(c, cfgname, &ops, &pool, &xo) } });
                }
            }
        }
    }

    // ---------------- GoldHashIdx (no iteration / clear in the API)
    for target in ["goldidx/new", "goldidx/with_pool"] {
        for &hmode in AK_MODES {
            for fam in FAMS {
                let g = format!("{}:{}", hmode.0, fam.name);
                for idx in 0..per {
                    ctx.case(target, &g, idx, |c| { let (pool, ops, _f, xo) = prep_ak(c, fam, hmode, None); idx_case(c, target, &pool, &ops, &xo) });
                }
            }
            let g = format!("{}:grow", hmode.0);
            for idx in 0..ngrow(ctx, 1, 6) {
                ctx.case(target, &g, idx, |c| { let n = if hmode.1 != 0 { *c.rng.pick(&[40usize, 150, 400]) } else { *c.rng.pick(&[100usize, 1000, 3000]) }; let (pool, ops, _f, xo) = prep_ak(c, &CHURN, hmode, Some(n)); idx_case(c, target, &pool, &ops, &xo) });
            }
        }
    }

    // ---------------- SmallMap across the inline -> large threshold (8), both directions (clear demotes)
    const SM_INLINE: Fam = Fam { name: "inline", ks: (1, 8), ops: (100, 400), w: [40, 28, 12, 8, 7, 5], clear_pm: 10, check_every: 9, iter: true, len_each: true, no_upd: false };
    const SM_CROSS: Fam = Fam { name: "cross", ks: (9, 24), ops: (150, 500), w: [45, 22, 12, 8, 8, 5], clear_pm: 15, check_every: 12, iter: true, len_each: true, no_upd: false };
    const SM_CROSS_NOITER: Fam = Fam { name: "cross", ks: (9, 24), ops: (150, 500), w: [45, 22, 12, 8, 8, 5], clear_pm: 15, check_every: 12, iter: false, len_each: true, no_upd: false };
    const SM_CROSS_RMNOUPD: Fam = Fam { name: "cross_rmnoupd", ks: (9, 24), ops: (150, 500), w: [45, 22, 12, 8, 8, 5], clear_pm: 15, check_every: 12, iter: false, len_each: true, no_upd: true };
    const SM_GROWONLY: Fam = Fam { name: "growonly", ks: (9, 40), ops: (60, 300), w: [60, 0, 20, 10, 10, 0], clear_pm: 10, check_every: 20, iter: false, len_each: true, no_upd: false };
    const SM_GROWONLY_ITER: Fam = Fam { name: "growonly", ks: (9, 40), ops: (60, 300), w: [60, 0, 20, 10, 10, 0], clear_pm: 10, check_every: 20, iter: true, len_each: true, no_upd: false };
    // The large representation is a ZiporaHashMap with a per-process random ahash seed: histories whose verdict can depend on the
    // slot layout (update after removal, see D2) are only run with the constant-hash key type, where the layout is seed independent.
    for (target, fams) in [("smallmap/inline", &[&SM_INLINE][..]), ("smallmap/promote", &[&SM_CROSS, &SM_GROWONLY_ITER][..]), ("smallmap/promote_noiter", &[&SM_CROSS_NOITER, &SM_CROSS_RMNOUPD, &SM_GROWONLY][..])] {
        for &hmode in AK_MODES { for fam in fams {
            if target != "smallmap/inline" && fam.layout_sensitive() && hmode.1 != 1 { continue; }
            let g = format!("{}:{}", hmode.0, fam.name);
            for idx in 0..per * 2 {
                ctx.case(target, &g, idx, |c| { let (pool, ops, f, xo) = prep_ak(c, fam, hmode, None);
                    if f.large_seen { c.tag("promoted"); if f.upd_after_rm { c.tag("upd_after_rm"); } } if xo.iter && f.check_while_large { c.tag("iter_while_large"); }
                    c.note("promoted", f.large_seen as u64);
                    exec(c, &mut Small(SmallMap::new()), &pool, &ops, &xo) });
            }
        } }
    }
    for idx in 0..per * 8 {
        ctx.case("smallmap/u8_get_fast", "u8:inline", idx, |c| {
            let thorough = c.tier == crate::ctx::Tier::Thorough;
            let nk = c.rng.urange(2, 8); let mut pool: Vec<u8> = vec![];
            if c.rng.chance(2, 3) { pool.push(0); } while pool.len() < nk { let x = if c.rng.bool() { c.rng.below(16) as u8 } else { c.rng.next() as u8 }; if !pool.contains(&x) { pool.push(x); } }
            c.rng.shuffle(&mut pool);
            let ops = gen_ops(&mut c.rng, &SM_INLINE, nk, thorough);
            c.input("keys", &pool); c.input("ops", &encode_ops(&ops));
            let f = analyze(&ops); note_facts(c, &f, ops.len());
            // root cause predicate: key 0 looked up through get_fast while absent and 5..=7 entries are stored inline
            if let Some(zi) = pool.iter().position(|&x| x == 0) { if absent_lookup_5to8(&ops, zi as u16) { c.tag("absent_zero_key_len5to8"); } }
            if f.large_seen { c.tag("promoted"); }
            exec(c, &mut SmallU8(SmallMap::new()), &pool, &ops, &XO { iter: false, len_each: true })
        });
    }

    // ---------------- EasyHashMap (put has no return value, no iteration in the API)
    const EASY_GROW: Fam = Fam { name: "rmgrow", ks: (14, 120), ops: (150, 600), w: [60, 12, 12, 0, 10, 6], clear_pm: 3, check_every: 20, iter: false, len_each: true, no_upd: false };
    const EASY_RMNOUPD: Fam = Fam { name: "rmnoupd_small", ks: (2, 11), ops: (100, 400), w: [45, 28, 12, 0, 8, 0], clear_pm: 3, check_every: 30, iter: false, len_each: true, no_upd: true };
    for (target, fams) in [("easy/new", &[&TINY, &NOITER, &INSONLY, &CLEARS, &EASY_GROW, &RMNOUPD, &EASY_RMNOUPD][..]), ("easy/builder", &[&NOITER, &INSONLY, &EASY_GROW, &RMNOUPD][..])] {
        for &hmode in AK_MODES {
            for fam in fams {
                // random ahash seed inside (see the SmallMap comment); histories that can grow the table after a removal are layout dependent too (D5)
                if (fam.layout_sensitive() || fam.name == "rmnoupd") && hmode.1 != 1 { continue; }
                let g = format!("{}:{}", hmode.0, fam.name);
                for idx in 0..per {
                    ctx.case(target, &g, idx, |c| { let (pool, ops, f, xo) = prep_ak(c, fam, hmode, None); easy_case(c, target, &pool, &ops, &f, xo.len_each) });
                }
            }
            // directed: removal followed by a rebuild of the table (growth in put / shrink_to_fit), never an update
            // shrink_to_fit is layout independent. Growth in put() resurrects a removed key only if its tombstone was not reused by one of the
            // inserts that bring len back to the growth threshold, which depends on the random ahash seed: the verdict is made seed independent
            // by running 24 independent trials (fresh map, fresh keys) in one case (P(all trials hold on the unchanged tree) < 1e-20).
            for (gname, shrink, trials) in [("rm_then_grow_x24", false, 24usize), ("rm_then_shrink", true, 1)] {
                if !shrink && hmode.1 == 1 { continue; }   // constant hash: every tombstone is reused before the threshold is reached again
                let g = format!("{}:{}", hmode.0, gname);
                for idx in 0..per {
                    ctx.case(target, &g, idx, |c| {
                        c.input_str("keyhash", hmode.0); let mut total = 0;
                        for t in 0..trials {
                            let n = if shrink { c.rng.urange(34, 120) } else { c.rng.urange(24, 40) };
                            let pool = ak_pool(&mut c.rng, n, hmode.1); let ops = gen_rm_then_rebuild(&mut c.rng, n, shrink);
                            c.input("keys", &ak_bytes(&pool)); c.input("ops", &encode_ops(&ops));
                            let f = analyze(&ops); if t == 0 { note_facts(c, &f, ops.len()); } total += ops.len();
                            c.tag(if shrink { "rm_before_shrink" } else { "rm_before_growth" });
                            easy_case(c, target, &pool, &ops, &f, false)?;
                        }
                        c.note("trial_ops", total as u64); Ok(()) });
                }
            }
        }
    }

    // ---------------- HashStrMap
    for fam in FAMS {
        for idx in 0..per * 2 {
            ctx.case("hashstr", fam.name, idx, |c| {
                let thorough = c.tier == crate::ctx::Tier::Thorough;
                let nk = nkeys_for(&mut c.rng, fam); let pool = str_pool(&mut c.rng, nk); let ops = gen_ops(&mut c.rng, fam, nk, thorough);
                c.input("keys", &str_bytes(&pool)); c.input("ops", &encode_ops(&ops)); let f = analyze(&ops); note_facts(c, &f, ops.len());
                let m = if c.rng.bool() { HashStrMap::new() } else { HashStrMap::with_capacity(c.rng.usize_below(100)) };
                exec(c, &mut HStr(m, false), &pool, &ops, &XO { iter: fam.iter, len_each: true })
            });
        }
    }

    // ================= huge_* families (large-input coverage; a handful of cases per target) =================
    if !small_only {
        let nh = ctx.n(1, 10) as u64;
        // ---- ZiporaHashMap, Standard storage, power-of-two / default capacities
        for &(target, standard, strkeys) in ZHM_TARGETS {
            if !standard || target == "zhm/std_cap_nonpow2" { continue; }
            if strkeys {
                for idx in 0..nh { ctx.case(target, "huge_grow:sip", idx, |c| { let n = *c.rng.pick(&[65537usize, 70001, 131073]); let keys = huge_str_keys(&mut c.rng, n); zhm_huge_case(c, target, HM::Sip, keys, &format!("strings n={n}")) }); }
                continue;
            }
            for (hi, hm) in [HM::Sip, HM::Mix, HM::Ident].into_iter().enumerate() {
                // quick tier: one hasher per target (rotating), thorough: all three
                let ti = ZHM_TARGETS.iter().position(|t| t.0 == target).unwrap_or(0);
                if quick && (ti + hi) % 3 != 0 { continue; }
                let g = format!("huge_grow:{}", hm.name());
                for idx in 0..nh {
                    ctx.case(target, &g, idx, |c| {
                        let n = *c.rng.pick(HUGE_NS);
                        // identity hashing: shapes whose low bits are constant would make every key collide (quadratic), keep dense / random
                        let shape = if hm == HM::Ident { *c.rng.pick(&[0u32, 2]) } else { c.rng.below(4) as u32 };
                        let keys = huge_u64_keys(&mut c.rng, n, shape);
                        zhm_huge_case(c, target, hm, keys, &format!("{} n={n}", HUGE_SHAPES[shape as usize]))
                    });
                }
            }
        }
        // ---- capacity arguments just above a power of two (ZiporaHashMap::with_capacity / EasyHashMap builder): few keys, the table
        // over-allocates because only 2^popcount(capacity-1) slots are reachable, so the key count stays small
        for idx in 0..ctx.n(2, 8) as u64 {
            ctx.case("zhm/with_capacity", "huge_capplus1:sip", idx, |c| {
                let cap = *c.rng.pick(&[65537usize, 131073, 196609, 262145]); let n = c.rng.urange(5, 12);
                let keys = huge_u64_keys(&mut c.rng, n, 2); c.input_str("with_capacity", &cap.to_string()); c.input("keys", &u64_bytes(&keys)); c.tag("nonpow2_capacity"); c.set_nontrivial(true);
                DEFAULT_HM.with(|d| d.set(HM::Sip));
                let m = ZiporaHashMap::<u64, u64, AdvBuild>::with_capacity(cap).map_err(|e| bad("ctor_err", format!("with_capacity({cap}): {e}")))?;
                huge_history(c, &mut Zhm(m), &keys, HugeRm::EveryOther, 3, true, true)
            });
            ctx.case("easy/builder", "huge_capplus1:khash", idx, |c| {
                let cap = *c.rng.pick(&[65537usize, 131073, 196609, 262145]); let n = c.rng.urange(5, 12);
                let keys = ak_pool(&mut c.rng, n, 0); c.input_str("builder", &format!("cap={cap}")); c.input("keys", &ak_bytes(&keys)); c.tag("nonpow2_capacity"); c.set_nontrivial(true);
                let m = EasyHashMap::<AK, u64>::initial_capacity(cap).build();
                huge_history(c, &mut Easy(m), &keys, HugeRm::EveryOther, 3, false, true)
            });
        }
        // ---- GoldHashMap: all configurations, both link types; initial capacities just above powers of two
        for cfgname in GOLD_CFGS {
            for (lt, t) in [("gold32", 0), ("gold64", 1)] {
                if t == 1 && !matches!(*cfgname, "default" | "small" | "large" | "high_churn") { continue; }
                let target = format!("{lt}/{cfgname}");
                for idx in 0..nh * 2 {
                    ctx.case(&target, "huge_grow:khash", idx, |c| {
                        let n = *c.rng.pick(HUGE_NS); let shape = c.rng.below(4) as u32; let keys: Vec<AK> = huge_u64_keys(&mut c.rng, n, shape).into_iter().map(|id| AK { id, hm: 0 }).collect();
                        let mut cfg = gold_config(cfgname); if c.rng.bool() { cfg.initial_capacity = *c.rng.pick(&[65537usize, 131073, 196609, 262145]); }
                        let rm = huge_rm(&mut c.rng); let reins = *c.rng.pick(&[0usize, 3000, 70000]); let clear_end = c.rng.bool();
                        c.input_str("config", &format!("{cfg:?}")); c.input_str("keys", &format!("{} n={n}", HUGE_SHAPES[shape as usize])); c.input_str("plan", &format!("rm={rm:?} reins={reins} clear_end={clear_end}")); c.set_nontrivial(true);
                        let fast = cfg.default_iteration_strategy == IterationStrategy::Fast;
                        if t == 0 { let m = GoldHashMap::<AK, u64, u32>::with_config(cfg); let cap0 = m.capacity(); huge_history(c, &mut Gold { m, default_fast: fast, cap0, rehash_seen: std::cell::Cell::new(0) }, &keys, rm, reins, true, clear_end) }
                        else { let m = GoldHashMap::<AK, u64, u64>::with_config(cfg); let cap0 = m.capacity(); huge_history(c, &mut Gold { m, default_fast: fast, cap0, rehash_seen: std::cell::Cell::new(0) }, &keys, rm, reins, true, clear_end) }
                    });
                }
            }
        }
        // ---- GoldHashIdx (every value is a pooled chunk: keep to the 2^16 boundary)
        for target in ["goldidx/new", "goldidx/with_pool"] {
            for idx in 0..nh * 2 {
                ctx.case(target, "huge_grow:khash", idx, |c| {
                    let n = *c.rng.pick(&[65535usize, 65536, 65537, 70001]); let shape = c.rng.below(4) as u32; let keys: Vec<AK> = huge_u64_keys(&mut c.rng, n, shape).into_iter().map(|id| AK { id, hm: 0 }).collect();
                    let rm = huge_rm(&mut c.rng); let reins = *c.rng.pick(&[0usize, 3000, 40000]); let cap = *c.rng.pick(&[0usize, 65536, 65537, 131073]);
                    c.input_str("keys", &format!("{} n={n}", HUGE_SHAPES[shape as usize])); c.input_str("plan", &format!("cap={cap} rm={rm:?} reins={reins}")); c.set_nontrivial(true);
                    let m = if target == "goldidx/new" { GoldHashIdx::with_capacity(cap) } else { let p = SecureMemoryPool::new(SecurePoolConfig::new(16, 1000, 8)).map_err(|e| bad("ctor_err", format!("SecureMemoryPool::new: {e}")))?; GoldHashIdx::with_pool(cap, p) };
                    huge_history(c, &mut Idx(m), &keys, rm, reins, false, false)
                });
            }
        }
        // ---- SmallMap far beyond the inline threshold, EasyHashMap across many growth rebuilds, HashStrMap
        for (target, iter) in [("smallmap/promote", true), ("smallmap/promote_noiter", false)] {
            for idx in 0..nh * 2 {
                ctx.case(target, "huge_grow:khash", idx, |c| {
                    let n = *c.rng.pick(&[65535usize, 65536, 65537, 70001, 131073]); let shape = c.rng.below(4) as u32; let keys: Vec<AK> = huge_u64_keys(&mut c.rng, n, shape).into_iter().map(|id| AK { id, hm: 0 }).collect();
                    let rm = huge_rm(&mut c.rng); let reins = *c.rng.pick(&[0usize, 300, 1500]); let clear_end = c.rng.bool();
                    c.input_str("keys", &format!("{} n={n}", HUGE_SHAPES[shape as usize])); c.input_str("plan", &format!("rm={rm:?} reins={reins} clear_end={clear_end}")); c.tag("promoted"); c.set_nontrivial(true);
                    huge_history(c, &mut Small(SmallMap::new()), &keys, rm, reins, iter, clear_end)
                });
            }
        }
        for target in ["easy/new", "easy/builder"] {
            for idx in 0..nh * 2 {
                ctx.case(target, "huge_grow:khash", idx, |c| {
                    // put() with auto_grow evaluates inner.len(), which is O(capacity): the auto-growing variants stay at a few 10^4 keys (ten
                    // rebuild steps); with auto_grow(false) the inner map grows by itself and > 2^16 / 2^17 keys are affordable
                    let ag = target == "easy/new" || idx % 2 == 1;
                    let n = if ag { *c.rng.pick(&[16385usize, 20011, 24577]) } else { *c.rng.pick(&[65535usize, 65536, 65537, 70001, 100003, 131073]) };
                    let shape = c.rng.below(4) as u32; let keys: Vec<AK> = huge_u64_keys(&mut c.rng, n, shape).into_iter().map(|id| AK { id, hm: 0 }).collect();
                    let rm = huge_rm(&mut c.rng); let reins = *c.rng.pick(&[0usize, 300, 1500]); let clear_end = c.rng.bool();
                    let m = if target == "easy/new" { EasyHashMap::new() } else { let cap = if ag { *c.rng.pick(&[0usize, 16, 1024]) } else { *c.rng.pick(&[0usize, 16, 65536, 131072]) }; let lf = *c.rng.pick(&[0.5f64, 0.75, 0.95]); c.input_str("builder", &format!("cap={cap} lf={lf} auto_grow={ag}")); EasyHashMap::<AK, u64>::initial_capacity(cap).max_load_factor(lf).auto_grow(ag).build() };
                    c.input_str("keys", &format!("{} n={n}", HUGE_SHAPES[shape as usize])); c.input_str("plan", &format!("rm={rm:?} reins={reins} clear_end={clear_end}")); c.set_nontrivial(true);
                    huge_history(c, &mut Easy(m), &keys, rm, reins, false, clear_end)
                });
            }
        }
        for idx in 0..nh * 2 {
            ctx.case("hashstr", "huge_grow", idx, |c| {
                let n = *c.rng.pick(&[65537usize, 70001, 131073]); let keys = huge_str_keys(&mut c.rng, n); let rm = huge_rm(&mut c.rng); let cap = *c.rng.pick(&[0usize, 65537, 131073]);
                c.input_str("plan", &format!("strings n={n} cap={cap} rm={rm:?}")); c.set_nontrivial(true);
                huge_history(c, &mut HStr(HashStrMap::with_capacity(cap), false), &keys, rm, 3000, true, true)
            });
        }
    }
    run_gap(ctx);
}

fn easy_case(c: &mut Case, target: &str, pool: &[AK], ops: &[Op], f: &Facts, len_each: bool) -> Res {
    if f.upd_after_rm { c.tag("upd_after_rm"); } if f.rm_then_len12 { c.tag("rm_before_growth"); }
    let m = if target == "easy/new" { if c.rng.bool() { EasyHashMap::new() } else { EasyHashMap::with_default(7) } } else {
        let cap = *c.rng.pick(&[0usize, 16, 17, 64, 100]); let lf = *c.rng.pick(&[0.1f64, 0.5, 0.75, 0.95]); let ag = c.rng.chance(3, 4);
        c.input_str("builder", &format!("cap={cap} lf={lf} auto_grow={ag}")); if cap > 16 && !cap.is_power_of_two() { c.tag("nonpow2_capacity"); }
        EasyHashMap::<AK, u64>::initial_capacity(cap).max_load_factor(lf).auto_grow(ag).build() };
    exec(c, &mut Easy(m), pool, ops, &XO { iter: false, len_each })
}
fn idx_case(c: &mut Case, target: &str, pool: &[AK], ops: &[Op], xo: &XO) -> Res {
    let m = if target == "goldidx/new" { let cap = *c.rng.pick(&[0usize, 1, 16, 17, 100]); c.input_str("cap", &cap.to_string()); if c.rng.bool() { GoldHashIdx::new() } else { GoldHashIdx::with_capacity(cap) } }
        else { let p = SecureMemoryPool::new(SecurePoolConfig::small_secure()).map_err(|e| bad("ctor_err", format!("SecureMemoryPool::new: {e}")))?; GoldHashIdx::with_pool(*c.rng.pick(&[0usize, 16, 64]), p) };
    exec(c, &mut Idx(m), pool, ops, &XO { iter: false, len_each: xo.len_each })
}

// =================================================================================================================
// gap families (x_*, libhash_*, hashfn): API surface of the anchor files that the histories above never call.
// Oracles: the same model map (alternative constructors, get_or_* / extend, insert_batch / get_batch, FastStr entry points,
// values(), clear_all, is_empty after every operation), library hash functions used as the caller supplied BuildHasher,
// and determinism / documented range of the hash helpers (a map needs h(k) to be a function of k).
// =================================================================================================================
use zipora::hash_map::{advanced_hash_combine, bmi2_collision_resolution, bmi2_hash_combine_u32, bmi2_hash_combine_u64, extract_bucket_with_bmi2, extract_hash_bucket_bmi2,
    fabo_hash_combine_u32, fabo_hash_combine_u64, fast_string_hash_bmi2, get_global_bmi2_dispatcher, golden_ratio_next_size, hash_combine_with_bmi2, hash_with_bmi2,
    optimal_bucket_count, specialized, Bmi2HashDispatcher, CacheAligned, CombineStrategy, HashFunctionBuilder, ProbeType};
use zipora::FastStr;

const X_FAM: Fam = Fam { name: "x", ks: (2, 48), ops: (150, 500), w: [30, 20, 8, 6, 6, 30], clear_pm: 5, check_every: 15, iter: true, len_each: true, no_upd: false };
const X_SMALL: Fam = Fam { name: "xsmall", ks: (1, 12), ops: (100, 300), w: [30, 24, 8, 6, 6, 26], clear_pm: 10, check_every: 10, iter: true, len_each: true, no_upd: false };

/// `exec` plus: `xop` interprets Op::Extra (may change map and model together), `probe` runs after every operation
/// (Err(detail) = violation of class `is_empty`)
fn exec_x<K: Clone + Ord + Debug, M: Sut<K>>(c: &mut Case, m: &mut M, pool: &[K], ops: &[Op], xo: &XO,
    xop: &mut dyn FnMut(&mut Case, &mut M, &mut BTreeMap<K, u64>, &[K], usize) -> Res, probe: &dyn Fn(&M, &BTreeMap<K, u64>) -> Result<(), String>) -> Res {
    let mut model: BTreeMap<K, u64> = BTreeMap::new();
    for (i, op) in ops.iter().enumerate() {
        match *op {
            Op::Ins(ki, v) => { let k = &pool[ki as usize];
                let got = m.insert(k.clone(), v).map_err(|e| bad("insert_err", format!("op#{i}: insert(k{ki}={k:?}) returned Err({e}) with {} live keys {}", model.len(), render(ops, i))))?;
                let want = model.insert(k.clone(), v);
                if m.reports_prev() { c.ev(1); ensure!(got == want, if want.is_some() { "insert_ret_update" } else { "insert_ret_new" }, "op#{i}: insert(k{ki}={k:?},{v}) returned {got:?} want {want:?} {}", render(ops, i)); } }
            Op::Rem(ki) => { let k = &pool[ki as usize];
                let got = m.remove(k).map_err(|e| bad("remove_err", format!("op#{i}: remove(k{ki}={k:?}) returned Err({e}) {}", render(ops, i))))?;
                let want = model.remove(k); c.ev(1);
                if let Some(cl) = cmp_get("remove", got, want) { return Err(bad(&cl, format!("op#{i}: remove(k{ki}={k:?}) returned {got:?} want {want:?} {}", render(ops, i)))); } }
            Op::Get(ki) => { let k = &pool[ki as usize]; let got = m.get(k); let want = model.get(k).copied(); c.ev(1);
                if let Some(cl) = cmp_get("get", got, want) { return Err(bad(&cl, format!("op#{i}: get(k{ki}={k:?})={got:?} want {want:?} {}", render(ops, i)))); } }
            Op::GetMut(ki, nv) => { let k = &pool[ki as usize];
                if let Some(got) = m.get_mut_set(k, nv) { let want = model.get(k).copied(); c.ev(1);
                    if let Some(cl) = cmp_get("get_mut", got, want) { return Err(bad(&cl, format!("op#{i}: get_mut(k{ki}={k:?})={got:?} want {want:?} {}", render(ops, i)))); }
                    if want.is_some() { model.insert(k.clone(), nv); } } }
            Op::Has(ki) => { let k = &pool[ki as usize]; let got = m.contains(k); c.ev(1); ensure!(got == model.contains_key(k), "contains", "op#{i}: contains_key(k{ki}={k:?})={got} want {} {}", !got, render(ops, i)); }
            Op::Clear => { if m.clear() { model.clear(); } }
            Op::Extra(_) => { c.note("xops", 1); xop(c, m, &mut model, pool, i).map_err(|f| Fail { oracle: f.oracle, detail: format!("op#{i} (extended op): {} {}", f.detail, render(ops, i)) })?; }
            Op::Check => { full_check(c, m, &model, pool, xo.iter, ops, i)?; }
        }
        let l = m.len(); c.ev(2); ensure!(l == model.len(), "len", "op#{i}: len()={l} want {} {}", model.len(), render(ops, i));
        if let Err(d) = probe(m, &model) { return Err(bad("is_empty", format!("op#{i}: {d} with {} live keys {}", model.len(), render(ops, i)))); }
    }
    m.coverage(c);
    Ok(())
}
fn no_xop<K, M>(_c: &mut Case, _m: &mut M, _md: &mut BTreeMap<K, u64>, _p: &[K], _i: usize) -> Res { Ok(()) }
fn emp(got: bool, want: bool) -> Result<(), String> { if got == want { Ok(()) } else { Err(format!("is_empty()={got} want {want}")) } }

// ---- library hash functions as the caller supplied BuildHasher ---------------------------------------------------
pub const LIB_KINDS: &[&str] = &["fabo64", "fabo32", "bmi2c64", "bmi2c32", "advanced", "complex", "builder64", "builder32", "faststr", "hashbmi2", "dispatch", "combine_g", "special", "bucket", "bucket_g", "bucket_d"];
const STRATS: [CombineStrategy; 5] = [CombineStrategy::Addition, CombineStrategy::Xor, CombineStrategy::Fabo, CombineStrategy::Bmi2, CombineStrategy::Advanced];
#[derive(Clone, Copy, Debug)]
pub struct LibBuild { kind: u8, rot: u32, strat: u8, bits: u32 }
pub struct LibHasher { b: LibBuild, bytes: Vec<u8>, words: Vec<u64> }
impl BuildHasher for LibBuild { type Hasher = LibHasher; fn build_hasher(&self) -> LibHasher { LibHasher { b: *self, bytes: vec![], words: vec![] } } }
impl Hasher for LibHasher {
    fn write(&mut self, b: &[u8]) { self.bytes.extend_from_slice(b); for ch in b.chunks(8) { let mut w = [0u8; 8]; w[..ch.len()].copy_from_slice(ch); self.words.push(u64::from_le_bytes(w)); } }
    fn write_u64(&mut self, v: u64) { self.bytes.extend_from_slice(&v.to_le_bytes()); self.words.push(v); }
    fn finish(&self) -> u64 { lib_hash(&self.b, &self.bytes, &self.words) }
}
fn premix(words: &[u64]) -> u64 { let mut h = 0x9E3779B97F4A7C15u64; for &w in words { h = (h ^ w).wrapping_mul(0xBF58476D1CE4E5B9); h ^= h >> 29; } h }
fn lib_hash(b: &LibBuild, bytes: &[u8], words: &[u64]) -> u64 {
    let w0 = words.first().copied().unwrap_or(0); let wl = words.last().copied().unwrap_or(0);
    match b.kind {
        0 => words.iter().fold(0u64, |h, &w| fabo_hash_combine_u64(h, w)),
        1 => words.iter().fold(0u32, |h, &w| fabo_hash_combine_u32(fabo_hash_combine_u32(h, w as u32), (w >> 32) as u32)) as u64,
        2 => words.iter().fold(0u64, |h, &w| bmi2_hash_combine_u64(h, w)),
        3 => words.iter().fold(0u32, |h, &w| bmi2_hash_combine_u32(bmi2_hash_combine_u32(h, w as u32), (w >> 32) as u32)) as u64,
        4 => advanced_hash_combine(words),
        5 => specialized::hash_complex_key_bmi2(words),
        6 => { let f = HashFunctionBuilder::new().with_rotation(b.rot).with_strategy(STRATS[b.strat as usize % 5]).build_u64(); words.iter().fold(0u64, |h, &w| f(h, w)) }
        7 => { let f = HashFunctionBuilder::new().with_rotation(b.rot).with_strategy(STRATS[b.strat as usize % 5]).build_u32(); words.iter().fold(0u32, |h, &w| f(f(h, w as u32), (w >> 32) as u32)) as u64 }
        8 => fast_string_hash_bmi2(&String::from_utf8_lossy(bytes), b.rot as u64),
        9 => hash_with_bmi2(bytes),
        10 => { let d = Bmi2HashDispatcher::new(); let h = d.hash_with_acceleration(bytes); d.hash_combine_optimal(h, words.len() as u64) }
        11 => words.iter().fold(0u64, |h, &w| hash_combine_with_bmi2(h, w)),
        12 => specialized::hash_integer_bmi2(w0) ^ specialized::hash_tuple_bmi2(w0 as u32, wl as u32).rotate_left(7) ^ specialized::hash_float_bmi2(f64::from_bits(wl)).rotate_left(13) ^ specialized::hash_string_bmi2(&String::from_utf8_lossy(bytes)),
        13 => extract_hash_bucket_bmi2(premix(words), b.bits) as u64,
        14 => extract_bucket_with_bmi2(premix(words), b.bits) as u64,
        _ => get_global_bmi2_dispatcher().extract_bucket_optimal(premix(words), b.bits) as u64,
    }
}
fn lib_build(r: &mut Rng, kind: usize) -> LibBuild { LibBuild { kind: kind as u8, rot: *r.pick(&[0u32, 1, 5, 13, 31]), strat: r.below(5) as u8, bits: *r.pick(&[1u32, 2, 4, 8, 12, 16]) } }

fn zhm_lib_case<K: Hash + Eq + Clone + Ord + Debug>(c: &mut Case, target: &str, kind: usize, strkeys_bytes: Vec<u8>, pool: Vec<K>, ops: Vec<Op>, xo: XO) -> Res {
    let cfg = zhm_config(target, &mut c.rng)?; let b = lib_build(&mut c.rng, kind);
    c.input_str("hasher", &format!("lib:{} {b:?}", LIB_KINDS[kind])); c.input_str("config", &format!("{:?}/{:?} cap={} lf={}", cfg.hash_strategy, cfg.storage_strategy, cfg.initial_capacity, cfg.load_factor));
    c.input("keys", &strkeys_bytes); c.input("ops", &encode_ops(&ops));
    let f = analyze(&ops); note_facts(c, &f, ops.len());
    // input-only tags: sentinel hash values among the inserted keys
    { let (mut z, mut mx) = (false, false); for &ki in &f.inserted { let h = b.hash_one(&pool[ki as usize]); if h == 0 { z = true; } if h == u64::MAX { mx = true; } } if z { c.tag("hash_zero"); } if mx { c.tag("hash_max"); } }
    tombstone_tags(c, &f, xo.iter);
    let m = match catch(|| ZiporaHashMap::<K, u64, LibBuild>::with_config_and_hasher(cfg, b)) { Ok(Ok(m)) => m, Ok(Err(e)) => return Err(bad("ctor_err", format!("with_config_and_hasher: {e}"))), Err(p) => return Err(bad(&p.class(), format!("constructor panicked at {}: {}", p.loc, p.msg))) };
    exec_x(c, &mut Zhm(m), &pool, &ops, &xo, &mut no_xop, &|m, md| emp(m.0.is_empty(), md.is_empty()))
}

fn sorted<T: Ord>(mut v: Vec<T>) -> Vec<T> { v.sort(); v }

fn run_gap(ctx: &mut Ctx) {
    let small_only = SMALL_ONLY.with(|d| d.get());
    let per = if small_only { 1 } else { ctx.n(8, 60) as u64 };
    let fams: [&Fam; 4] = [&X_FAM, &CHURN, &TINY, &CLEARS];

    // ---------------- ZiporaHashMap (Standard storage) with the library's own hash functions as BuildHasher + is_empty
    for &(target, standard, strkeys) in ZHM_TARGETS {
        if !standard || matches!(target, "zhm/with_capacity" | "zhm/std_cap_nonpow2" | "zhm/pool_x") { continue; }
        for (kind, kname) in LIB_KINDS.iter().enumerate() {
            let g = format!("libhash_{kname}:mixed");
            for idx in 0..per {
                ctx.case(target, &g, idx, |c| {
                    let thorough = c.tier == crate::ctx::Tier::Thorough;
                    let fam = fams[c.rng.usize_below(4)]; c.input_str("family", fam.name);
                    // bucket extractors with few bits make every key collide: keep those histories small
                    let nk = if kind >= 13 { nkeys_for(&mut c.rng, fam).min(24) } else { nkeys_for(&mut c.rng, fam) };
                    let xo = XO { iter: true, len_each: true };
                    if strkeys { let pool = str_pool(&mut c.rng, nk); let ops = gen_ops(&mut c.rng, fam, nk, thorough); let kb = str_bytes(&pool); zhm_lib_case(c, target, kind, kb, pool, ops, xo) }
                    else { let pool = u64_pool(&mut c.rng, nk); let ops = gen_ops(&mut c.rng, fam, nk, thorough); let kb = u64_bytes(&pool); zhm_lib_case(c, target, kind, kb, pool, ops, xo) }
                });
            }
        }
    }

    // ---------------- GoldHashMap::new() + is_empty / load_factor after every operation
    for (target, t) in [("gold32/new", 0), ("gold64/new", 1)] {
        for &hmode in AK_MODES { for fam in [&X_FAM, &X_SMALL] {
            let g = format!("x_{}:{}", hmode.0, fam.name);
            for idx in 0..per {
                ctx.case(target, &g, idx, |c| {
                    let (pool, ops, _f, xo) = prep_ak(c, fam, hmode, None);
                    fn go<L: LinkType>(c: &mut Case, pool: &[AK], ops: &[Op], xo: &XO) -> Res {
                        let m = GoldHashMap::<AK, u64, L>::new(); let cap0 = m.capacity();
                        let mut g = Gold { m, default_fast: false, cap0, rehash_seen: std::cell::Cell::new(0) };
                        exec_x(c, &mut g, pool, ops, xo, &mut |_c, g: &mut Gold<L>, _md, _p, i| { g.extra((i % 4) as u8).map_err(|e| bad("maintenance_err", e)) },
                            &|g, md| { let lf = g.m.load_factor(); if !lf.is_finite() || lf < 0.0 { return Err(format!("load_factor()={lf}")); } emp(g.m.is_empty(), md.is_empty()) })
                    }
                    if t == 0 { go::<u32>(c, &pool, &ops, &xo) } else { go::<u64>(c, &pool, &ops, &xo) }
                });
            }
        } }
    }

    // ---------------- SmallMap::is_empty on both sides of the inline -> large transition
    for &hmode in AK_MODES {
        let g = format!("x_{}:xsmall", hmode.0);
        for idx in 0..per * 2 {
            ctx.case("smallmap/promote", &g, idx, |c| {
                let (pool, ops, f, xo) = prep_ak(c, &X_SMALL, hmode, None);
                if f.large_seen { c.tag("promoted"); if f.upd_after_rm { c.tag("upd_after_rm"); } } if f.check_while_large { c.tag("iter_while_large"); } c.note("promoted", f.large_seen as u64);
                exec_x(c, &mut Small(SmallMap::new()), &pool, &ops, &xo, &mut no_xop, &|m, md| emp(m.0.is_empty(), md.is_empty()))
            });
        }
    }

    // ---------------- GoldHashIdx: insert_batch == the sequence of inserts, get_batch == the sequence of gets, is_empty
    for target in ["goldidx/new", "goldidx/with_pool"] {
        for &hmode in AK_MODES { for fam in [&X_FAM, &X_SMALL] {
            let g = format!("x_{}:{}", hmode.0, fam.name);
            for idx in 0..per {
                ctx.case(target, &g, idx, |c| {
                    let (pool, ops, _f, xo) = prep_ak(c, fam, hmode, None);
                    let m = if target == "goldidx/new" { let cap = *c.rng.pick(&[0usize, 1, 16, 17, 100]); c.input_str("cap", &cap.to_string()); if c.rng.bool() { GoldHashIdx::new() } else { GoldHashIdx::with_capacity(cap) } }
                        else { let p = SecureMemoryPool::new(SecurePoolConfig::small_secure()).map_err(|e| bad("ctor_err", format!("SecureMemoryPool::new: {e}")))?; GoldHashIdx::with_pool(*c.rng.pick(&[0usize, 16, 64]), p) };
                    let mut r = c.rng.fork(); let mut val = 1u64 << 32;
                    exec_x(c, &mut Idx(m), &pool, &ops, &XO { iter: false, len_each: xo.len_each }, &mut |c, m: &mut Idx, md, pool, _i| {
                        match r.below(4) {
                            0 | 1 => { // batch insert, duplicates inside the batch allowed (the last one wins, as for the sequence of single inserts)
                                let n = *r.pick(&[0usize, 1, 2, 5, 17, 40]); let mut items = Vec::with_capacity(n);
                                for _ in 0..n { val += 1; items.push((pool[r.usize_below(pool.len())].clone(), val)); }
                                let desc = format!("{:?}", items.iter().map(|(k, v)| (k.id, *v)).collect::<Vec<_>>());
                                m.0.insert_batch(items.clone()).map_err(|e| bad("insert_batch_err", format!("insert_batch({desc}) returned Err({e}) with {} live keys", md.len())))?;
                                for (k, v) in items { md.insert(k, v); }
                                c.ev(1); let l = m.0.len(); ensure!(l == md.len(), "insert_batch_len", "after insert_batch({desc}): len()={l} want {}", md.len());
                                for k in pool { let got = m.0.get(k).copied(); let want = md.get(k).copied(); c.ev(1); if let Some(cl) = cmp_get("insert_batch", got, want) { return Err(bad(&cl, format!("after insert_batch({desc}): get({k:?})={got:?} want {want:?}"))); } }
                            }
                            2 => { let n = *r.pick(&[0usize, 1, 3, 9, 30]); let keys: Vec<AK> = (0..n).map(|_| pool[r.usize_below(pool.len())].clone()).collect();
                                let got: Vec<Option<u64>> = m.0.get_batch(&keys).into_iter().map(|o| o.copied()).collect(); c.ev(1);
                                ensure!(got.len() == keys.len(), "get_batch_len", "get_batch of {} keys returned {} results", keys.len(), got.len());
                                for (k, g) in keys.iter().zip(&got) { let want = md.get(k).copied(); c.ev(1); if let Some(cl) = cmp_get("get_batch", *g, want) { return Err(bad(&cl, format!("get_batch: result for {k:?} is {g:?} want {want:?}"))); } } }
                            _ => { m.0.shrink_to_fit(); let _ = m.0.memory_usage(); }
                        }
                        Ok(())
                    }, &|m, md| emp(m.0.is_empty(), md.is_empty()))
                });
            }
        } }
    }

    // ---------------- EasyHashMap: default-value constructors, get_or_default / get_or_insert / get_or_insert_with / extend / set_auto_grow / is_empty
    for target in ["easy/with_default", "easy/default_builder"] {
        for &hmode in AK_MODES { for fam in [&X_FAM, &X_SMALL] {
            let g = format!("x_{}:{}", hmode.0, fam.name);
            for idx in 0..per {
                ctx.case(target, &g, idx, |c| {
                    let (pool, ops, f, _xo) = prep_ak(c, fam, hmode, None);
                    if f.upd_after_rm { c.tag("upd_after_rm"); } if f.rm_then_len12 { c.tag("rm_before_growth"); }
                    let dflt = 0xD0D0_0000u64 + c.rng.below(1000);
                    let m = if target == "easy/with_default" { EasyHashMap::<AK, u64>::with_default(dflt) } else {
                        let cap = *c.rng.pick(&[0usize, 16, 64, 128]); let lf = *c.rng.pick(&[0.1f64, 0.5, 0.75, 0.95]); let ag = c.rng.chance(3, 4);
                        c.input_str("builder", &format!("default cap={cap} lf={lf} auto_grow={ag}"));
                        if c.rng.bool() { EasyHashMap::<AK, u64>::with_default_value(dflt).with_capacity(cap).max_load_factor(lf).auto_grow(ag).build() } else { EasyHashMap::<AK, u64>::initial_capacity(cap).with_default(dflt).max_load_factor(lf).auto_grow(ag).build() } };
                    let mut r = c.rng.fork(); let mut val = 1u64 << 32;
                    exec_x(c, &mut Easy(m), &pool, &ops, &XO { iter: false, len_each: true }, &mut |c, m: &mut Easy, md, pool, _i| {
                        let k = pool[r.usize_below(pool.len())].clone(); val += 1;
                        match r.below(6) {
                            0 => { let got = *m.0.get_or_default(&k); let want = md.get(&k).copied().unwrap_or(dflt); c.ev(1);
                                ensure!(got == want, if md.contains_key(&k) { "get_or_default_live" } else { "get_or_default_absent" }, "get_or_default({k:?})={got} want {want} (default {dflt})"); }
                            1 | 2 => { let with = r.bool(); let write = r.bool(); let want = md.get(&k).copied().unwrap_or(val); let called = std::cell::Cell::new(false);
                                let name = if with { "get_or_insert_with" } else { "get_or_insert" };
                                let slot = if with { m.0.get_or_insert_with(k.clone(), || { called.set(true); val }) } else { m.0.get_or_insert(k.clone(), val) };
                                let slot = slot.map_err(|e| bad("get_or_insert_err", format!("{name}({k:?},{val}) returned Err({e})")))?;
                                let got = *slot; if write { *slot = val + 7; }
                                c.ev(1); ensure!(got == want, if md.contains_key(&k) { "get_or_insert_live" } else { "get_or_insert_absent" }, "{name}({k:?},{val}) yields {got} want {want}");
                                if with { ensure!(called.get() != md.contains_key(&k), "get_or_insert_with_call", "{name}({k:?}): closure called={} but key live={}", called.get(), md.contains_key(&k)); }
                                md.entry(k.clone()).or_insert(val); if write { md.insert(k.clone(), val + 7); }
                                let back = m.0.get(&k).copied(); c.ev(1); if let Some(cl) = cmp_get("get_or_insert_then_get", back, md.get(&k).copied()) { return Err(bad(&cl, format!("after {name}({k:?},{val}) write={write}: get()={back:?} want {:?}", md.get(&k)))); } }
                            3 | 4 => { let n = *r.pick(&[0usize, 1, 3, 12, 40]); let mut items = Vec::with_capacity(n); for _ in 0..n { val += 1; items.push((pool[r.usize_below(pool.len())].clone(), val)); }
                                let desc = format!("{:?}", items.iter().map(|(k, v)| (k.id, *v)).collect::<Vec<_>>());
                                m.0.extend(items.clone()); for (k, v) in items { md.insert(k, v); }
                                for k in pool { let got = m.0.get(k).copied(); let want = md.get(k).copied(); c.ev(1); if let Some(cl) = cmp_get("extend", got, want) { return Err(bad(&cl, format!("after extend({desc}): get({k:?})={got:?} want {want:?}"))); } } }
                            _ => { m.0.set_auto_grow(r.bool()); }
                        }
                        Ok(())
                    }, &|m, md| emp(m.0.is_empty(), md.is_empty()))
                });
            }
        } }
    }

    // ---------------- HashStrMap: FastStr entry points, is_interned, values(), clear_all, is_empty
    for fam in [&X_FAM, &X_SMALL] {
        let g = format!("x:{}", fam.name);
        for idx in 0..per * 3 {
            ctx.case("hashstr", &g, idx, |c| {
                let thorough = c.tier == crate::ctx::Tier::Thorough;
                let nk = nkeys_for(&mut c.rng, fam); let pool = str_pool(&mut c.rng, nk); let ops = gen_ops(&mut c.rng, fam, nk, thorough);
                c.input("keys", &str_bytes(&pool)); c.input("ops", &encode_ops(&ops)); let f = analyze(&ops); note_facts(c, &f, ops.len());
                let m = if c.rng.bool() { HashStrMap::new() } else { HashStrMap::with_capacity(c.rng.usize_below(100)) };
                let mut r = c.rng.fork(); let mut val = 1u64 << 32;
                exec_x(c, &mut HStr(m, false), &pool, &ops, &XO { iter: true, len_each: true }, &mut |c, m: &mut HStr, md, pool, _i| {
                    let k = pool[r.usize_below(pool.len())].clone(); val += 1;
                    match r.below(8) {
                        0 | 1 | 2 => { let got = m.0.insert_fast_str(FastStr::from_string(&k), val).map_err(|e| bad("insert_err", format!("insert_fast_str({k:?}) returned Err({e})")))?; let want = md.insert(k.clone(), val); c.ev(1);
                            ensure!(got == want, if want.is_some() { "insert_fast_str_ret_update" } else { "insert_fast_str_ret_new" }, "insert_fast_str({k:?},{val}) returned {got:?} want {want:?}");
                            let back = m.0.get(&k).copied(); ensure!(back == Some(val), "insert_fast_str_lost", "after insert_fast_str({k:?},{val}): get()={back:?}"); }
                        3 | 4 => { let got = m.0.get_by_fast_str(&FastStr::new(k.as_bytes())).copied(); let want = md.get(&k).copied(); c.ev(2);
                            if let Some(cl) = cmp_get("get_by_fast_str", got, want) { return Err(bad(&cl, format!("get_by_fast_str({k:?})={got:?} want {want:?}"))); }
                            let it = m.0.is_interned(&k); ensure!(it == want.is_some(), "is_interned", "is_interned({k:?})={it} but the key is {}", if want.is_some() { "live" } else { "absent" }); }
                        5 | 6 => { let got = sorted(m.0.values().copied().collect::<Vec<u64>>()); let want = sorted(md.values().copied().collect::<Vec<u64>>()); c.ev(1); c.note("iter_checks", 1);
                            ensure!(got == want, "values_mismatch", "values() yields {} values, {} live; first difference at sorted position {:?}", got.len(), want.len(), got.iter().zip(&want).position(|(a, b)| a != b)); }
                        _ => { m.0.clear_all(); md.clear(); let l = m.0.len(); ensure!(l == 0, "clear_all_len", "after clear_all: len()={l}"); ensure!(m.0.iter().next().is_none(), "clear_all_iter", "after clear_all: iter() still yields an entry"); }
                    }
                    Ok(())
                }, &|m, md| emp(m.0.is_empty(), md.is_empty()))
            });
        }
    }

    // ---------------- hash helpers: determinism (h(k) must be a function of k), documented ranges, convenience == dispatcher
    for idx in 0..ctx.n(20, 100) as u64 {
        ctx.case("hashfn", "determinism", idx, |c| {
            let n = c.rng.urange(50, 200); let mut seed_in = vec![];
            for _ in 0..n {
                let kind = c.rng.usize_below(LIB_KINDS.len()); let b = lib_build(&mut c.rng, kind);
                let nw = *c.rng.pick(&[0usize, 1, 1, 2, 3, 9]); let words: Vec<u64> = (0..nw).map(|_| match c.rng.below(4) { 0 => 0, 1 => u64::MAX, 2 => c.rng.below(256), _ => c.rng.next() }).collect();
                let bytes: Vec<u8> = if c.rng.bool() { words.iter().flat_map(|w| w.to_le_bytes()).collect() } else { let l = *c.rng.pick(&[0usize, 1, 7, 8, 9, 16, 31, 100]); gen::key(&mut c.rng, 0).into_iter().cycle().take(l).collect() };
                seed_in.push(kind as u8); seed_in.extend_from_slice(&bytes);
                let h1 = crate::ctx::nopanic("library hash function", || lib_hash(&b, &bytes, &words))?; let h2 = lib_hash(&b, &bytes.clone(), &words.clone()); c.ev(1);
                ensure!(h1 == h2, "hash_nondeterministic", "{} ({b:?}) of words {words:?} / {} bytes returned {h1:#x} then {h2:#x}", LIB_KINDS[kind], bytes.len());
                if kind >= 13 { c.ev(1); ensure!(b.bits >= 32 || h1 < (1u64 << b.bits), "bucket_out_of_range", "{}(hash, bits={}) = {h1} is not below 2^{}", LIB_KINDS[kind], b.bits, b.bits); }
            }
            c.input("calls", &seed_in); c.set_nontrivial(true);
            // convenience wrappers == the global dispatcher, specialised == the general function they are documented to wrap
            for _ in 0..40 {
                let h = c.rng.next(); let v = if c.rng.bool() { c.rng.next() } else { c.rng.below(3) }; let bits = c.rng.urange(1, 31) as u32; let d = get_global_bmi2_dispatcher(); c.ev(4);
                ensure!(hash_combine_with_bmi2(h, v) == d.hash_combine_optimal(h, v), "convenience_mismatch", "hash_combine_with_bmi2({h:#x},{v:#x}) != dispatcher.hash_combine_optimal");
                ensure!(extract_bucket_with_bmi2(h, bits) == d.extract_bucket_optimal(h, bits), "convenience_mismatch", "extract_bucket_with_bmi2({h:#x},{bits}) != dispatcher.extract_bucket_optimal");
                let e = extract_hash_bucket_bmi2(h, bits); ensure!((e as u64) < (1u64 << bits), "bucket_out_of_range", "extract_hash_bucket_bmi2({h:#x},{bits})={e} is not below 2^{bits}");
                let s = String::from_utf8_lossy(&gen::key(&mut c.rng, (v % 6) as u32)).into_owned();
                ensure!(hash_with_bmi2(s.as_bytes()) == d.hash_with_acceleration(s.as_bytes()), "convenience_mismatch", "hash_with_bmi2({s:?}) != dispatcher.hash_with_acceleration");
                ensure!(specialized::hash_string_bmi2(&s) == fast_string_hash_bmi2(&s, 0), "convenience_mismatch", "specialized::hash_string_bmi2({s:?}) != fast_string_hash_bmi2(.., 0)");
                let _ = d.tier();
            }
            // sizing helpers: documented as "next power of 2 that can accommodate the desired capacity" / "next optimal capacity" (growth)
            for _ in 0..40 {
                let want = match c.rng.below(3) { 0 => c.rng.urange(0, 64), 1 => c.rng.urange(0, 1 << 20), _ => (1usize << c.rng.urange(0, 30)) + c.rng.urange(0, 2) - 1 };
                let bc = crate::ctx::nopanic("optimal_bucket_count", || optimal_bucket_count(want))?; c.ev(2);
                ensure!(bc.is_power_of_two() && bc >= want, "bucket_count", "optimal_bucket_count({want})={bc}: not a power of two that accommodates {want} elements");
                let nx = crate::ctx::nopanic("golden_ratio_next_size", || golden_ratio_next_size(want))?;
                ensure!(nx > want, "next_size_not_larger", "golden_ratio_next_size({want})={nx} does not grow");
            }
            // probing helper: a returned slot must be a free one of the 64, a full mask has no slot
            for _ in 0..40 {
                let mask = match c.rng.below(4) { 0 => u64::MAX, 1 => u64::MAX ^ (1u64 << c.rng.below(64)), 2 => c.rng.next() | c.rng.next(), _ => c.rng.next() }; let h = c.rng.next();
                for pt in [ProbeType::Linear, ProbeType::Quadratic, ProbeType::DoubleHash] {
                    let got = crate::ctx::nopanic("bmi2_collision_resolution", || bmi2_collision_resolution(h, mask, pt))?; c.ev(1);
                    let got2 = get_global_bmi2_dispatcher().resolve_collision_optimal(h, mask, pt);
                    ensure!(got == got2, "convenience_mismatch", "resolve_collision_optimal({h:#x},{mask:#x},{pt:?})={got2:?} but bmi2_collision_resolution={got:?}");
                    match got { Some(p) => ensure!(p < 64 && mask & (1u64 << p) == 0, "probe_occupied_slot", "bmi2_collision_resolution({h:#x},{mask:#x},{pt:?})=Some({p}): slot is occupied / out of range"),
                        None => { if mask != u64::MAX { c.note("probe_none_with_free_slot", 1); } } }
                    if mask == u64::MAX { ensure!(got.is_none(), "probe_full_mask", "bmi2_collision_resolution({h:#x}, full mask, {pt:?})={got:?}"); }
                }
            }
            // CacheAligned<T> is a transparent wrapper
            { let x = c.rng.next(); let mut a = CacheAligned::new(x); ensure!(*a.get() == x, "cache_aligned", "CacheAligned::get"); *a.get_mut() = !x; ensure!(a.into_inner() == !x, "cache_aligned", "CacheAligned::into_inner after get_mut write"); }
            Ok(())
        });
    }
}
