//! C02 — compressor layer and PA-Zip round-trip whatever algorithm is chosen.
//! Oracle: identity, decompress(compress(x)) == x, for compressor objects obtained from the public constructors
//! (factory, adaptive / real-time / PA-Zip front ends, native SIMD-LZ77), and decode(encode(ms)) == ms (+ equal bit
//! count) for the bit-level PA-Zip match codec.  `Err` from a constructor / compress is "held" (the statement
//! conditions on success, recorded with note `compress_err`); `Err`/panic/mismatch from decompress is a violation.
use crate::ctx::{catch, fail, inconclusive, nopanic, Case, Ctx, Fail, PanicInfo, Res};
use crate::gen;
use crate::rng::Rng;
use std::fmt::Display;
use std::time::{Duration, Instant};
use zipora::compression::dict_zip::{
    decode_match, decode_matches, encode_match, encode_matches, BitReader, BitWriter, DictionaryBuilder, DictionaryBuilderConfig, Match,
    PaZipCompressor, PaZipCompressorConfig, SuffixArrayDictionary, SuffixArrayDictionaryConfig,
};
use zipora::compression::simd_lz77::*;
use zipora::compression::*;
use zipora::memory::{SecureMemoryPool, SecurePoolConfig};

// ------------------------------------------------------------------------------------------------------------
// verdict helpers
// ------------------------------------------------------------------------------------------------------------
fn diff(got: &[u8], want: &[u8]) -> String {
    let i = got.iter().zip(want.iter()).position(|(a, b)| a != b).unwrap_or(got.len().min(want.len()));
    format!("got len={} want len={} first difference at {} (got {:?} want {:?}); got {} want {}", got.len(), want.len(), i, got.get(i), want.get(i), gen::abbrev(got), gen::abbrev(want))
}
/// compress step: Err => conditioned-on-success (held, trivial), panic => violation
fn comp_res<E: Display>(c: &mut Case, what: &str, r: Result<Result<Vec<u8>, E>, PanicInfo>) -> Result<Option<Vec<u8>>, Fail> {
    match r {
        Err(p) => Err(Fail { oracle: p.class(), detail: format!("{what}: compress panicked at {}: {}", p.loc, p.msg) }),
        Ok(Err(e)) => { c.note("compress_err", 1); c.log(format!("{what}: compress Err: {e}")); Ok(None) }
        Ok(Ok(z)) => Ok(Some(z)),
    }
}
fn dec_res<E: Display>(c: &mut Case, what: &str, x: &[u8], zlen: usize, r: Result<Result<Vec<u8>, E>, PanicInfo>) -> Res {
    match r {
        Err(p) => Err(Fail { oracle: p.class(), detail: format!("{what}: decompress panicked at {}: {} (payload len {}, compressed len {zlen})", p.loc, p.msg, x.len()) }),
        Ok(Err(e)) => fail("decode_err", format!("{what}: decompress of own output returned Err({e}); payload len {} compressed len {zlen}", x.len())),
        Ok(Ok(d)) => { c.ev(1); ensure!(d == x, "roundtrip_mismatch", "{what}: {}", diff(&d, x)); Ok(()) }
    }
}
fn bad(oracle: &str, d: String) -> Fail { Fail { oracle: oracle.to_string(), detail: d } }

// ------------------------------------------------------------------------------------------------------------
// generators
// ------------------------------------------------------------------------------------------------------------
/// concatenated random permutations of 0..=255: flat histogram, no repeated 3-gram to speak of -> nothing shrinks it
fn perm256(r: &mut Rng, len: usize) -> Vec<u8> {
    let mut out = Vec::with_capacity(len + 256);
    while out.len() < len { let mut p: Vec<u8> = (0..=255u8).collect(); r.shuffle(&mut p); out.extend_from_slice(&p); }
    out.truncate(len); out
}
const DIR_DIST: &[usize] = &[1, 2, 3, 8, 9, 10, 11, 256, 257, 258, 259, 65535, 65536, 65793, 65794];
const DIR_LEN: &[usize] = &[2, 3, 4, 5, 6, 9, 10, 11, 32, 33, 34, 35, 36, 64, 65, 66, 255, 256, 257, 258, 259];
/// payload made of back-references with (distance, length) at the PA-Zip type boundaries, separated by fresh random bytes
fn lz_directed(r: &mut Rng, maxdist: usize, maxlen: usize) -> (Vec<u8>, String) {
    let mut out: Vec<u8> = Vec::new(); let mut desc = String::new();
    let k = 1 + r.usize_below(6);
    for _ in 0..k {
        let ds: Vec<usize> = DIR_DIST.iter().copied().filter(|&d| d <= maxdist).collect();
        let mut d = *r.pick(&ds); if r.chance(1, 5) { d = 1 + r.usize_below(maxdist.min(70000)); }
        let l = *r.pick(DIR_LEN);
        if out.len() + d + l + 8 > maxlen && !out.is_empty() { break; }
        if out.len() < d { let need = d - out.len() + r.usize_below(4); let f = r.bytes(need); out.extend(f); }
        let start = out.len() - d;
        for i in 0..l { let b = out[start + i]; out.push(b); }
        // separator that breaks the match (differs from what a longer match would continue with)
        let cont = out[start + l]; let mut s = r.next() as u8; if s == cont { s = s.wrapping_add(1); } out.push(s);
        let extra = r.usize_below(3); let e = r.bytes(extra); out.extend(e);
        desc.push_str(&format!("(d={d},l={l})"));
    }
    (out, desc)
}
// ---- large-input ("huge_") generators: sizes around the 16-/17-/20-bit limits and a few MiB; shapes with one symbol occurring
// far more than 65535 times, > 1000:1 compressible data, and two identical >= 64 KiB halves followed by a differing byte.
const HUGE_SIZES: &[usize] = &[65535, 65536, 65537, 131071, 131072, 131073, 131074, (1 << 20) - 1, 1 << 20, (1 << 20) + 1, 3 << 20];
const HUGE_SHAPES: &[&str] = &["all_equal", "dominant", "long_runs", "short_period", "xcxd", "uniform"];
fn huge_shape(r: &mut Rng, shape: &str, len: usize) -> Vec<u8> {
    match shape {
        "all_equal" => vec![r.next() as u8; len],
        "dominant" => { let dom = r.next() as u8; let pct = *r.pick(&[60u64, 90, 99]); (0..len).map(|_| if r.below(100) < pct { dom } else { r.next() as u8 }).collect() }
        "long_runs" => { let mut out = Vec::with_capacity(len); while out.len() < len { let b = r.next() as u8; let n = *r.pick(&[65535usize, 65536, 65537, 70000, 131073, 300_000]); let n = n.min(len - out.len()); out.resize(out.len() + n, b); } out }
        "short_period" => { let p = 1 + r.usize_below(7); let pat = r.bytes(p); (0..len).map(|i| pat[i % p]).collect() }
        "xcxd" => { // X c X d, |X| >= 64 KiB when len allows
            let h = len.saturating_sub(2) / 2; let x = if r.bool() { r.bytes(h) } else { gen::bytes_kind(r, 10, h) };
            let mut out = Vec::with_capacity(len); out.extend_from_slice(&x); out.push(0x11); out.extend_from_slice(&x); out.push(0xEE); while out.len() < len { out.push(0x77); } out }
        _ => r.bytes(len),
    }
}
/// shape chosen by `sel` (so that a handful of cases still covers every shape), size from HUGE_SIZES capped at `max`
fn huge_payload(c: &mut Case, sel: usize, max: usize) -> Vec<u8> {
    let shape = HUGE_SHAPES[sel % HUGE_SHAPES.len()];
    let sizes: Vec<usize> = HUGE_SIZES.iter().copied().filter(|&n| n <= max).collect();
    let mut len = *c.rng.pick(&sizes); if shape == "xcxd" && len < 131074 { len = 131074.min(max); }
    c.input_str("huge_shape", shape); c.input_str("len", &len.to_string());
    let x = huge_shape(&mut c.rng, shape, len); c.input("x", &x); x
}

const PAYLOAD_FAMS: &[&str] = &["incompressible", "perm256", "short", "lzdir", "rle_runs"];
/// directed payload families (besides gen::bytes_kind): returns bytes; records nothing
fn payload_fam(r: &mut Rng, fam: &str, max: usize) -> Vec<u8> {
    match fam {
        "incompressible" => { let l = if r.bool() { 1 + r.usize_below(64.min(max)) } else { gen::pick_len(r, max) }; r.bytes(l) }
        "perm256" => { let l = gen::pick_len(r, max); perm256(r, l) }
        "short" => { let l = r.usize_below(13.min(max + 1)); let k = r.below(gen::BYTE_KINDS as u64) as u32; gen::bytes_kind(r, k, l) }
        "lzdir" => lz_directed(r, 300.min(max / 2).max(1), max).0,
        "rle_runs" => { let mut out = Vec::new(); while out.len() < max.min(600) { let b = r.next() as u8; let n = *r.pick(&[1usize, 2, 3, 4, 32, 33, 34, 35, 36, 255, 256, 257, 300]); for _ in 0..n { out.push(b); } if r.chance(1, 6) { break; } } out.truncate(max); out }
        _ => unreachable!(),
    }
}
/// payload for (family index): 0..BYTE_KINDS = gen kinds, then the directed families
fn gen_payload(c: &mut Case, fam: usize, max: usize) -> Vec<u8> {
    let x = if fam < gen::BYTE_KINDS as usize { let l = gen::pick_len(&mut c.rng, max); gen::bytes_kind(&mut c.rng, fam as u32, l) }
            else { payload_fam(&mut c.rng, PAYLOAD_FAMS[fam - gen::BYTE_KINDS as usize], max) };
    c.input("x", &x); x
}
fn fam_name(fam: usize) -> &'static str { if fam < gen::BYTE_KINDS as usize { gen::byte_kind_name(fam as u32) } else { PAYLOAD_FAMS[fam - gen::BYTE_KINDS as usize] } }
const NFAM: usize = gen::BYTE_KINDS as usize + 5;

const TRAIN_MODES: &[&str] = &["same", "other_full", "related_sup", "tiny", "other"];
fn gen_training(c: &mut Case, mode: &str, x: &[u8]) -> Vec<u8> {
    let r = &mut c.rng;
    let mut t = match mode {
        "same" => x.to_vec(),
        "other_full" => { let k = r.below(gen::BYTE_KINDS as u64) as u32; let mut t = gen::bytes_kind(r, k, x.len().max(300)); let mut all: Vec<u8> = (0..=255u8).collect(); r.shuffle(&mut all); t.extend(all); t }
        "related_sup" => { let mut t = gen::related_bytes(r, x, x.len().max(64)); let mut seen = [false; 256]; for &b in x { if !seen[b as usize] { seen[b as usize] = true; t.push(b); } } t }
        "tiny" => { let n = 1 + r.usize_below(3); (0..n).map(|_| if x.is_empty() { b'a' } else { x[r.usize_below(x.len())] }).collect() }
        _ => { let k = r.below(gen::BYTE_KINDS as u64) as u32; gen::bytes_kind(r, k, x.len().max(300).min(4096)) }
    };
    if t.is_empty() { t.push(b'a'); }
    c.input_str("train_mode", mode); c.input("train", &t); t
}

// ------------------------------------------------------------------------------------------------------------
// input-only models used for root-cause tags
// ------------------------------------------------------------------------------------------------------------
/// Model of entropy::rans::Rans64Encoder::normalize_frequencies (TOTFREQ = 4096), used to decide *from the training
/// data only* whether the table RansCompressor stores (already normalised) changes when it is normalised again on read.
fn rans_norm_model(freq: &[u32; 256]) -> Option<[u32; 256]> {
    const TOT: u32 = 4096;
    let total: u64 = freq.iter().map(|&f| f as u64).sum(); if total == 0 { return None; }
    let mut n = [0u32; 256]; let mut remaining = TOT;
    for i in 0..256 { if freq[i] > 0 { n[i] = 1; remaining -= 1; } }
    for i in 0..256 { if freq[i] > 0 && remaining > 0 { let add = ((freq[i] as u64 * remaining as u64) / total) as u32; let a = add.min(remaining); n[i] += a; remaining -= a; } }
    while remaining > 0 {
        let (mut mf, mut mi) = (0u32, 0usize);
        for i in 0..256 { if freq[i] > mf && n[i] < TOT / 4 { mf = freq[i]; mi = i; } }
        if mf == 0 { for i in 0..256 { if freq[i] > 0 { mi = i; break; } } }
        n[mi] += 1; remaining -= 1;
    }
    Some(n)
}
/// true iff some symbol of `x` gets a different (start, freq) slot after the second normalisation
fn rans_renorm_shifts(train: &[u8], x: &[u8]) -> bool {
    let mut f = [0u32; 256]; for &b in train { f[b as usize] += 1; }
    let n1 = match rans_norm_model(&f) { Some(n) => n, None => return false };
    let n2 = match rans_norm_model(&n1) { Some(n) => n, None => return false };
    let (mut s1, mut s2) = (0u32, 0u32); let mut differs = [false; 256];
    for i in 0..256 { differs[i] = n1[i] != n2[i] || s1 != s2; s1 += n1[i]; s2 += n2[i]; }
    x.iter().any(|&b| differs[b as usize])
}
/// Model of entropy::dictionary::DictionaryCompressor::compress output size (greedy LZ77, min match 10, max 258,
/// window 32 KiB, literal = 2 bytes, match = 9 bytes). Input-only. Only used on payloads <= 4 KiB.
fn dict_model_size(x: &[u8]) -> usize {
    let (mut pos, mut size) = (0usize, 0usize);
    while pos < x.len() {
        let maxl = (x.len() - pos).min(258); let mut best = 0usize;
        if maxl >= 10 { for s in pos.saturating_sub(32768)..pos { let mut l = 0; while l < maxl && x[s + l] == x[pos + l] { l += 1; } if l >= 10 && l > best { best = l; } } }
        if best > 0 { size += 9; pos += best; } else { size += 2; pos += 1; }
    }
    size
}

// ------------------------------------------------------------------------------------------------------------
// factory targets
// ------------------------------------------------------------------------------------------------------------
fn alg_name(a: Algorithm) -> String { match a { Algorithm::None => "none".into(), Algorithm::Lz4 => "lz4".into(), Algorithm::Zstd(l) => format!("zstd{l}"), Algorithm::Huffman => "huffman".into(), Algorithm::Rans => "rans".into(), Algorithm::Dictionary => "dictionary".into(), Algorithm::SimdLz77 => "simdlz77_trait".into(), Algorithm::Hybrid => "hybrid".into() } }
fn needs_training(a: Algorithm) -> bool { matches!(a, Algorithm::Huffman | Algorithm::Rans | Algorithm::Dictionary | Algorithm::Hybrid) }

fn factory_case(c: &mut Case, alg: Algorithm, x: &[u8], train: Option<&[u8]>) -> Res {
    c.set_nontrivial(false);
    let comp = match catch(|| CompressorFactory::create(alg, train)) {
        Err(p) => return Err(bad(&p.class(), format!("CompressorFactory::create({alg:?}) panicked at {}: {}", p.loc, p.msg))),
        Ok(Err(e)) => { c.note("ctor_err", 1); c.log(format!("ctor Err {e}")); return Ok(()); }
        Ok(Ok(b)) => b,
    };
    // input-only root-cause tags
    if let Some(t) = train {
        if matches!(alg, Algorithm::Rans | Algorithm::Hybrid) && rans_renorm_shifts(t, x) { c.tag("rans_table_renormalised"); }
        if alg == Algorithm::Hybrid && !x.is_empty() && x.len() <= 4200 { if dict_model_size(x) >= x.len() { c.tag("hybrid_lz_nogain"); } if x.len() <= 1028 { c.tag("hybrid_len_le_1028"); } }
    }
    let mut what = format!("factory {alg:?}");
    let z = match comp_res(c, &what, catch(|| comp.compress(x)))? { Some(z) => z, None => return Ok(()) };
    c.set_nontrivial(!x.is_empty());
    if alg == Algorithm::Hybrid && !z.is_empty() {
        let raw = z.len() == x.len() + 1 && &z[1..] == x;
        c.note(&format!("hybrid_id:{}{}", z[0], if raw { "_rawfallback" } else { "" }), 1);
        what = format!("factory Hybrid (stored algorithm id {}{})", z[0], if raw { ", body is the raw payload = 'nothing helped' fallback" } else { "" });
    }
    if z.len() >= x.len() && !x.is_empty() { c.note("no_shrink", 1); }
    dec_res(c, &what, x, z.len(), catch(|| comp.decompress(&z)))
}

fn run_factory(ctx: &mut Ctx) {
    let mut algs = CompressorFactory::available_algorithms(); algs.push(Algorithm::SimdLz77);
    for alg in algs {
        let target = format!("factory/{}", alg_name(alg));
        let maxlen = if alg == Algorithm::Dictionary || alg == Algorithm::Hybrid { 2048 } else { 4200 };
        if needs_training(alg) {
            for fam in 0..NFAM { for (mi, mode) in TRAIN_MODES.iter().enumerate() {
                let per = if *mode == "other" || *mode == "tiny" { ctx.n(1, 20) } else { ctx.n(2, 60) };
                for idx in 0..per as u64 {
                    ctx.case(&target, &format!("{}/{}", fam_name(fam), mode), idx, |c| { let x = gen_payload(c, fam, maxlen); let t = gen_training(c, TRAIN_MODES[mi], &x); factory_case(c, alg, &x, Some(&t)) });
                }
            } }
            // larger payloads for the O(n) coders
            if alg == Algorithm::Huffman || alg == Algorithm::Rans {
                for idx in 0..ctx.n(4, 60) as u64 { ctx.case(&target, "big/same", idx, |c| { let k = c.rng.below(gen::BYTE_KINDS as u64) as u32; let l = *c.rng.pick(gen::LENS_BIG); let x = gen::bytes_kind(&mut c.rng, k, l); c.input("x", &x); c.input_str("train_mode", "same"); factory_case(c, alg, &x, Some(&x)) }); }
            }
        } else {
            for fam in 0..NFAM { for idx in 0..ctx.n(3, 60) as u64 {
                ctx.case(&target, fam_name(fam), idx, |c| { let x = gen_payload(c, fam, maxlen); let t = if c.rng.bool() { Some(x.clone()) } else { None }; c.input_str("train", if t.is_some() { "some(x)" } else { "none" }); factory_case(c, alg, &x, t.as_deref()) });
            } }
            for idx in 0..ctx.n(4, 80) as u64 { ctx.case(&target, "big", idx, |c| { let k = c.rng.below(gen::BYTE_KINDS as u64) as u32; let l = *c.rng.pick(gen::LENS_BIG) + c.rng.usize_below(3); let x = gen::bytes_kind(&mut c.rng, k, l); c.input("x", &x); factory_case(c, alg, &x, None) }); }
            for idx in 0..ctx.n(2, 40) as u64 { ctx.case(&target, "lzdir_far", idx, |c| { let (x, d) = lz_directed(&mut c.rng, 65794, 140_000); c.input_str("directives", &d); c.input("x", &x); factory_case(c, alg, &x, None) }); }
        }
    }
    // large inputs (the O(n * 32 KiB) DictionaryCompressor, and Hybrid which contains it, cannot take them within the case budget)
    let mut algs = CompressorFactory::available_algorithms(); algs.push(Algorithm::SimdLz77);
    for (ai, alg) in algs.into_iter().enumerate() {
        let target = format!("factory/{}", alg_name(alg));
        // (measured: 13-16 s CPU per 64 KiB payload for these two, whatever the shape -> no huge_ family for them)
        if alg == Algorithm::Dictionary || alg == Algorithm::Hybrid { continue; }
        for idx in 0..ctx.n(12, 120) as u64 {
            ctx.case(&target, "huge_shapes", idx, |c| {
                let x = huge_payload(c, idx as usize + ai, 3 << 20);
                if needs_training(alg) {
                    // trained on the payload itself, or only on its first 8 KiB (+ every byte value once): counts in the payload exceed the table by far
                    let t: Vec<u8> = if idx % 2 == 0 { c.input_str("train_mode", "same"); x.clone() } else { c.input_str("train_mode", "prefix8k_sup"); let mut t = x[..x.len().min(8192)].to_vec(); t.extend(0..=255u8); t };
                    factory_case(c, alg, &x, Some(&t))
                } else { factory_case(c, alg, &x, None) }
            });
        }
    }
    // Algorithm::Zstd(level) for arbitrary i32 levels (the enum admits any level)
    for idx in 0..ctx.n(30, 600) as u64 {
        ctx.case("factory/zstd_anylevel", "levels", idx, |c| {
            let level: i32 = if c.rng.chance(1, 3) { *c.rng.pick(&[i32::MIN, -131072, -100, -1, 0, 2, 10, 19, 20, 21, 22, 23, 100, i32::MAX]) } else { c.rng.range(0, 29) as i32 - 7 };
            c.input_str("level", &level.to_string());
            let fam = c.rng.usize_below(NFAM); let x = gen_payload(c, fam, 3000);
            factory_case(c, Algorithm::Zstd(level), &x, None)
        });
    }
}

// ------------------------------------------------------------------------------------------------------------
// native SIMD LZ77
// ------------------------------------------------------------------------------------------------------------
fn simd_payload(c: &mut Case) -> Vec<u8> {
    let max = if c.tier == crate::ctx::Tier::Quick { 700 } else { 1500 };
    let fam = c.rng.usize_below(NFAM); c.input_str("fam", fam_name(fam));
    let x = gen_payload(c, fam, max);
    if !x.is_empty() { c.tag("simdlz77_native_nonempty"); }
    c.set_nontrivial(!x.is_empty()); x
}
macro_rules! simd_native { ($c:expr, $what:expr, $ctor:expr) => {{
    let c: &mut Case = $c; let x = simd_payload(c);
    let mut s = match catch(|| $ctor) { Err(p) => return Err(bad(&p.class(), format!("{} constructor panicked at {}: {}", $what, p.loc, p.msg))), Ok(Err(e)) => { c.note("ctor_err", 1); c.set_nontrivial(false); c.log(format!("ctor Err {e}")); return Ok(()); } Ok(Ok(s)) => s };
    let z = match comp_res(c, $what, catch(|| s.compress(&x)))? { Some(z) => z, None => { c.set_nontrivial(false); return Ok(()); } };
    dec_res(c, $what, &x, z.len(), catch(|| s.decompress(&z)))
}}; }

/// The *native* codec: inherent `compress(&mut self)` / `decompress(&mut self)` (method-call syntax on the bare type would
/// resolve to the `Compressor` trait impl, which is the separate target factory/simdlz77_trait).
struct Native(SimdLz77Compressor);
impl Native {
    fn with(cfg: SimdLz77Config) -> zipora::error::Result<Native> { SimdLz77Compressor::with_config(cfg).map(Native) }
    fn compress(&mut self, x: &[u8]) -> zipora::error::Result<Vec<u8>> { SimdLz77Compressor::compress(&mut self.0, x) }
    fn decompress(&mut self, z: &[u8]) -> zipora::error::Result<Vec<u8>> { SimdLz77Compressor::decompress(&mut self.0, z) }
}
fn run_simd(ctx: &mut Ctx) {
    let n = ctx.n(20, 300) as u64;
    for idx in 0..n {
        ctx.case("simdlz77/default", "mixed", idx, |c| simd_native!(c, "SimdLz77Compressor(default)", Native::with(SimdLz77Config::default())));
        ctx.case("simdlz77/high_performance", "mixed", idx, |c| simd_native!(c, "SimdLz77Compressor(high_performance)", Native::with(SimdLz77Config::high_performance())));
        ctx.case("simdlz77/low_latency", "mixed", idx, |c| simd_native!(c, "SimdLz77Compressor(low_latency)", Native::with(SimdLz77Config::low_latency())));
        ctx.case("simdlz77/maximum_parallelism", "mixed", idx, |c| simd_native!(c, "SimdLz77Compressor(maximum_parallelism)", Native::with(SimdLz77Config::maximum_parallelism())));
        ctx.case("simdlz77/x1", "mixed", idx, |c| simd_native!(c, "SimdLz77CompressorX1", SimdLz77CompressorX1::new()));
        ctx.case("simdlz77/x2", "mixed", idx, |c| simd_native!(c, "SimdLz77CompressorX2", SimdLz77CompressorX2::new()));
        ctx.case("simdlz77/x4", "mixed", idx, |c| simd_native!(c, "SimdLz77CompressorX4", SimdLz77CompressorX4::new()));
        ctx.case("simdlz77/x8", "mixed", idx, |c| simd_native!(c, "SimdLz77CompressorX8", SimdLz77CompressorX8::new()));
        ctx.case("simdlz77/global_fn", "mixed", idx, |c| { let x = simd_payload(c);
            let z = match comp_res(c, "compress_with_simd_lz77", catch(|| compress_with_simd_lz77(&x)))? { Some(z) => z, None => { c.set_nontrivial(false); return Ok(()); } };
            dec_res(c, "decompress_with_simd_lz77", &x, z.len(), catch(|| decompress_with_simd_lz77(&z))) });
    }
}

// ------------------------------------------------------------------------------------------------------------
// adaptive front end
// ------------------------------------------------------------------------------------------------------------
fn gen_blocks(c: &mut Case, nblocks: usize, maxlen: usize, with_empty: bool) -> Vec<Vec<u8>> {
    // character changes in phases so that any data-driven adaptation has a reason to switch
    let mut blocks = Vec::with_capacity(nblocks); let mut kind = c.rng.below(gen::BYTE_KINDS as u64) as u32; let mut left = 1 + c.rng.usize_below(nblocks.max(1));
    for _ in 0..nblocks {
        if left == 0 { kind = c.rng.below(gen::BYTE_KINDS as u64) as u32; left = 1 + c.rng.usize_below(nblocks); }
        left -= 1;
        let l = if with_empty && c.rng.chance(1, 8) { 0 } else { gen::pick_len(&mut c.rng, maxlen).max(1) };
        blocks.push(gen::bytes_kind(&mut c.rng, kind, l));
    }
    let mut h: Vec<u8> = Vec::new(); for b in &blocks { h.extend_from_slice(&(b.len() as u32).to_le_bytes()); h.extend_from_slice(b); }
    c.input("blocks", &h); blocks
}
fn adaptive_case(c: &mut Case, preset: &str, set_alg: Option<Algorithm>, with_empty: bool) -> Res {
    let cfg = match preset {
        "default" => AdaptiveConfig::default(),
        _ => AdaptiveConfig { learning_window: *c.rng.pick(&[4usize, 16, 1000]), min_operations: *c.rng.pick(&[1usize, 2, 5, 20]), evaluation_interval: *c.rng.pick(&[1usize, 2, 3, 7]),
                              switch_threshold: *c.rng.pick(&[0.0f64, 0.1, -10.0]), aggressive_learning: preset == "aggressive" || c.rng.bool(), test_sample_size: *c.rng.pick(&[1usize, 10]) },
    };
    let req = PerformanceRequirements { speed_vs_quality: *c.rng.pick(&[0.0f64, 0.5, 1.0]), max_latency: *c.rng.pick(&[Duration::from_nanos(1), Duration::from_millis(100)]), ..Default::default() };
    c.input_str("cfg", &format!("{cfg:?} svq={} lat={:?} set={:?}", req.speed_vs_quality, req.max_latency, set_alg));
    let nblocks = if preset == "default" { 100 + c.rng.usize_below(130) } else { 3 + c.rng.usize_below(60) };
    let blocks = gen_blocks(c, nblocks, if preset == "default" { 300 } else { 1500 }, with_empty);
    if blocks.iter().any(|b| b.is_empty()) { c.tag("adaptive_empty_block"); }
    c.set_nontrivial(false);
    let mut ac = match nopanic("AdaptiveCompressor::new", || AdaptiveCompressor::new(cfg, req))? { Ok(a) => a, Err(e) => { c.note("ctor_err", 1); c.log(format!("{e}")); return Ok(()); } };
    if let Some(a) = set_alg { match nopanic("set_algorithm", || ac.set_algorithm(a))? { Ok(()) => {} Err(_) => { c.note("set_algorithm_err", 1); return Ok(()); } } }
    if c.rng.chance(1, 3) && !blocks.is_empty() { let s: Vec<(&[u8], &str)> = blocks.iter().take(3).map(|b| (b.as_slice(), "sample")).collect(); let _ = nopanic("train", || ac.train(&s))?; c.note("trained", 1); }
    let alg0 = ac.current_algorithm();
    let mut zs: Vec<Option<Vec<u8>>> = Vec::with_capacity(blocks.len());
    for (i, b) in blocks.iter().enumerate() { let z = comp_res(c, &format!("adaptive block {i}"), catch(|| ac.compress(b)))?; zs.push(z); }
    let alg1 = ac.current_algorithm();
    c.note(&format!("alg_start:{}", alg_name(alg0)), 1); if alg1 != alg0 { c.note(&format!("switched_to:{}", alg_name(alg1)), 1); }
    let st = ac.stats(); for (a, n) in st.algorithm_usage.iter() { c.note(&format!("used:{}", alg_name(*a)), *n); }
    // decompress ALL earlier blocks after the whole stream was compressed
    let mut ok = 0u64;
    for (i, (b, z)) in blocks.iter().zip(zs.iter()).enumerate() { if let Some(z) = z { dec_res(c, &format!("adaptive block {i}/{} (algorithm at start {alg0:?}, at end {alg1:?})", blocks.len()), b, z.len(), catch(|| ac.decompress(z)))?; if !b.is_empty() { ok += 1; } } }
    c.set_nontrivial(ok >= 1);
    Ok(())
}
/// three large blocks (64 KiB .. 1 MiB+1, huge shapes) through one adaptive compressor; all decompressed at the end
fn adaptive_huge_case(c: &mut Case, set_alg: Option<Algorithm>, sel: usize) -> Res {
    let cfg = AdaptiveConfig { learning_window: 4, min_operations: 1, evaluation_interval: 1, switch_threshold: 0.0, aggressive_learning: true, test_sample_size: 1 };
    c.input_str("cfg", &format!("{cfg:?} set={set_alg:?}"));
    let blocks: Vec<Vec<u8>> = (0..3).map(|i| huge_payload(c, sel + i, (1 << 20) + 1)).collect();
    c.set_nontrivial(false);
    let mut ac = match nopanic("AdaptiveCompressor::new", || AdaptiveCompressor::new(cfg, PerformanceRequirements::default()))? { Ok(a) => a, Err(e) => { c.note("ctor_err", 1); c.log(format!("{e}")); return Ok(()); } };
    if let Some(a) = set_alg { match nopanic("set_algorithm", || ac.set_algorithm(a))? { Ok(()) => {} Err(_) => { c.note("set_algorithm_err", 1); return Ok(()); } } }
    let mut zs = Vec::new();
    for (i, b) in blocks.iter().enumerate() { zs.push(comp_res(c, &format!("adaptive huge block {i}"), catch(|| ac.compress(b)))?); }
    let mut ok = 0;
    for (i, (b, z)) in blocks.iter().zip(zs.iter()).enumerate() { if let Some(z) = z { dec_res(c, &format!("adaptive huge block {i} (len {})", b.len()), b, z.len(), catch(|| ac.decompress(z)))?; ok += 1; } }
    c.set_nontrivial(ok >= 1);
    Ok(())
}
fn run_adaptive(ctx: &mut Ctx) {
    for idx in 0..ctx.n(4, 40) as u64 { ctx.case("adaptive/default", "huge_blocks", idx, |c| adaptive_huge_case(c, None, idx as usize * 3)); }
    for (name, a) in [("none", Algorithm::None), ("lz4", Algorithm::Lz4), ("zstd3", Algorithm::Zstd(3)), ("zstd9", Algorithm::Zstd(9)), ("simdlz77_trait", Algorithm::SimdLz77)] {
        for idx in 0..ctx.n(2, 24) as u64 { ctx.case(&format!("adaptive/set_{name}"), "huge_blocks", idx, |c| adaptive_huge_case(c, Some(a), idx as usize * 3 + name.len())); }
    }
    for idx in 0..ctx.n(6, 60) as u64 { ctx.case("adaptive/default", "stream", idx, |c| adaptive_case(c, "default", None, false)); }
    for idx in 0..ctx.n(25, 500) as u64 { ctx.case("adaptive/tuned", "stream", idx, |c| adaptive_case(c, "tuned", None, false)); }
    for idx in 0..ctx.n(25, 500) as u64 { ctx.case("adaptive/aggressive", "stream", idx, |c| adaptive_case(c, "aggressive", None, false)); }
    for (name, a) in [("none", Algorithm::None), ("lz4", Algorithm::Lz4), ("zstd3", Algorithm::Zstd(3)), ("zstd9", Algorithm::Zstd(9)), ("simdlz77_trait", Algorithm::SimdLz77), ("huffman", Algorithm::Huffman), ("hybrid", Algorithm::Hybrid)] {
        let n = if needs_training(a) { ctx.n(2, 10) } else { ctx.n(10, 200) };
        for idx in 0..n as u64 { ctx.case(&format!("adaptive/set_{name}"), "stream", idx, |c| adaptive_case(c, "tuned", Some(a), false)); }
        if !needs_training(a) { for idx in 0..ctx.n(3, 40) as u64 { ctx.case(&format!("adaptive/set_{name}"), "stream_with_empty", idx, |c| adaptive_case(c, "tuned", Some(a), true)); } }
    }
}

// ------------------------------------------------------------------------------------------------------------
// real-time front end
// ------------------------------------------------------------------------------------------------------------
fn mode_name(m: CompressionMode) -> &'static str { match m { CompressionMode::UltraLowLatency => "ultra", CompressionMode::LowLatency => "low", CompressionMode::Balanced => "balanced", CompressionMode::HighCompression => "high" } }
fn tokio_rt(paused: bool) -> tokio::runtime::Runtime { let mut b = tokio::runtime::Builder::new_current_thread(); b.enable_all(); if paused { b.start_paused(true); } b.build().expect("tokio runtime") }
fn rt_cfg(c: &mut Case, mode: CompressionMode, fallback: bool) -> RealtimeConfig {
    let cfg = RealtimeConfig { mode, max_concurrent: 1 + c.rng.usize_below(4), enable_deadlines: c.rng.bool(), fallback_on_timeout: fallback, batch_size: 1 + c.rng.usize_below(10), batch_timeout: Duration::from_millis(1) };
    c.input_str("cfg", &format!("{cfg:?}")); cfg
}
fn rt_payload(c: &mut Case) -> Vec<u8> { let fam = c.rng.usize_below(NFAM); c.input_str("fam", fam_name(fam)); let max = if c.rng.chance(1, 10) { 70_000 } else { 3000 }; gen_payload(c, fam, max) }

/// how: "far" (deadline one hour away), "mode" (compress(): mode-specific deadline), "paused" (far deadline, virtual clock paused
/// and advanced), "batch" (compress_batch), "expired" (deadline already in the past -> deterministic fallback branch)
fn realtime_case(c: &mut Case, mode: CompressionMode, how: &str) -> Res { realtime_case_ex(c, mode, how, None) }
/// `huge`: Some(sel) => payloads from the huge_ generators (<= 3 MiB) instead of the small families
fn realtime_case_ex(c: &mut Case, mode: CompressionMode, how: &str, huge: Option<usize>) -> Res {
    let fallback = if how == "expired" { c.rng.chance(3, 4) } else { c.rng.bool() };
    let cfg = rt_cfg(c, mode, fallback);
    c.input_str("how", how);
    let xs: Vec<Vec<u8>> = match huge {
        Some(sel) => if how == "batch" { (0..2).map(|i| huge_payload(c, sel + i, (1 << 20) + 1)).collect() } else { vec![huge_payload(c, sel, 3 << 20)] },
        None => if how == "batch" { let n = 1 + c.rng.usize_below(6); (0..n).map(|_| rt_payload(c)).collect() } else { vec![rt_payload(c)] },
    };
    c.set_nontrivial(false);
    if how == "expired" && fallback { c.tag("rt_expired_deadline_fallback"); if mode != CompressionMode::UltraLowLatency { c.tag("rt_fallback_untagged_raw"); } }
    let rtc = match nopanic("RealtimeCompressor::new", || RealtimeCompressor::new(cfg))? { Ok(r) => r, Err(e) => { c.note("ctor_err", 1); c.log(format!("{e}")); return Ok(()); } };
    let rt = tokio_rt(how == "paused");
    let how_s = how.to_string();
    let res: Result<Vec<Option<Vec<u8>>>, PanicInfo> = catch(|| rt.block_on(async {
        let mut out: Vec<Option<Vec<u8>>> = Vec::new();
        match how_s.as_str() {
            "far" => { let z = rtc.compress_with_deadline(&xs[0], Instant::now() + Duration::from_secs(3600)).await; out.push(z.ok()); }
            "mode" => { let z = rtc.compress(&xs[0]).await; out.push(z.ok()); }
            "paused" => { tokio::time::advance(Duration::from_secs(7200)).await; let z = rtc.compress_with_deadline(&xs[0], Instant::now() + Duration::from_secs(3600)).await; tokio::time::advance(Duration::from_secs(7200)).await; out.push(z.ok()); }
            "batch" => { let items: Vec<&[u8]> = xs.iter().map(|v| v.as_slice()).collect(); match rtc.compress_batch(items).await { Ok(v) => { for z in v { out.push(Some(z)); } } Err(_) => {} } }
            _ => { let now = Instant::now(); let dl = if xs[0].len() % 2 == 0 { now } else { now.checked_sub(Duration::from_millis(5)).unwrap_or(now) }; let z = rtc.compress_with_deadline(&xs[0], dl).await; out.push(z.ok()); }
        }
        out
    }));
    let zs = res.map_err(|p| bad(&p.class(), format!("realtime compress ({how}) panicked at {}: {}", p.loc, p.msg)))?;
    let st = rtc.stats();
    c.note(&format!("fallback_ops:{}", st.fallback_operations.min(1)), 1);
    if how != "expired" && st.fallback_operations > 0 && mode != CompressionMode::UltraLowLatency {
        // only reachable through wall-clock scheduling delays: not a deterministic verdict
        return inconclusive(format!("wall-clock fallback taken ({} fallback operations) with how={how}", st.fallback_operations));
    }
    if how == "expired" && fallback { ensure!(st.fallback_operations >= 1, "driver_assumption", "expired deadline did not take the fallback branch"); }
    let mut checked = 0;
    for (i, z) in zs.iter().enumerate() {
        let z = match z { Some(z) => z, None => { c.note("compress_err", 1); continue; } };
        let x = &xs[i];
        let d = catch(|| rt.block_on(async { rtc.decompress(z).await }));
        dec_res(c, &format!("realtime {mode:?} how={how} item {i}"), x, z.len(), d)?;
        if !x.is_empty() { checked += 1; }
    }
    c.set_nontrivial(checked > 0);
    Ok(())
}
fn run_realtime(ctx: &mut Ctx) {
    for mode in [CompressionMode::UltraLowLatency, CompressionMode::LowLatency, CompressionMode::Balanced, CompressionMode::HighCompression] {
        let t = format!("rt/{}", mode_name(mode)); let te = format!("rt_expired/{}", mode_name(mode));
        for how in ["far", "mode", "paused", "batch"] { for idx in 0..ctx.n(12, 200) as u64 { ctx.case(&t, how, idx, |c| realtime_case(c, mode, how)); } }
        for idx in 0..ctx.n(20, 300) as u64 { ctx.case(&te, "expired", idx, |c| realtime_case(c, mode, "expired")); }
        let mi = mode_name(mode).len();
        for idx in 0..ctx.n(6, 60) as u64 { ctx.case(&t, "huge_far", idx, |c| realtime_case_ex(c, mode, "far", Some(idx as usize + mi))); }
        for idx in 0..ctx.n(2, 24) as u64 { ctx.case(&t, "huge_batch", idx, |c| realtime_case_ex(c, mode, "batch", Some(idx as usize * 2 + mi))); }
        for idx in 0..ctx.n(3, 36) as u64 { ctx.case(&te, "huge_expired", idx, |c| realtime_case_ex(c, mode, "expired", Some(idx as usize + mi + 3))); }
    }
}

// ------------------------------------------------------------------------------------------------------------
// PA-Zip compressor
// ------------------------------------------------------------------------------------------------------------
const PAZIP_PRESETS: &[&str] = &["default", "fast", "high", "realtime", "reference"];
fn pazip_cfg(name: &str) -> PaZipCompressorConfig { match name { "default" => PaZipCompressorConfig::default(), "fast" => PaZipCompressorConfig::fast_compression(), "high" => PaZipCompressorConfig::high_compression(), "realtime" => PaZipCompressorConfig::realtime(), _ => PaZipCompressorConfig::reference_compliant() } }
/// `custom`: a preset (never the reference encoding) with every scalar knob redrawn from boundary-heavy ranges -- the presets
/// pin e.g. output_buffer_size = 1 MiB and multithreading_threshold = 64 KiB, so code that depends on those values relative
/// to the payload is otherwise only ever run on one side of the comparison
fn pazip_cfg_for(c: &mut Case, name: &str) -> PaZipCompressorConfig {
    if name != "custom" { return pazip_cfg(name); }
    let base = *c.rng.pick(&["default", "fast", "high", "realtime"]); let mut g = pazip_cfg(base);
    g.output_buffer_size = *c.rng.pick(&[0usize, 1, 64, 4096, 65536, 65537, 1 << 20, 4 << 20]);
    g.multithreading_threshold = *c.rng.pick(&[0usize, 1, 4096, 65536, 65537, 1 << 20, (1 << 20) + 1, usize::MAX]);
    g.enable_multithreading = !c.rng.chance(1, 4); g.enable_simd = c.rng.bool(); g.adaptive_thresholds = c.rng.bool(); g.collect_detailed_stats = c.rng.bool();
    g.use_suffix_array_local_match = c.rng.bool();
    g.max_local_probe_distance = *c.rng.pick(&[1u32, 2, 16, 255, 256, 4096, 65535, 65536, 1 << 20]);
    g.max_global_probe_distance = *c.rng.pick(&[1u32, 2, 16, 255, 256, 4096, 65535, 65536, 1 << 20]);
    g.min_net_benefit = *c.rng.pick(&[-64i32, -1, 0, 1, 8, 64, 4096]); g.literal_cost_bits = *c.rng.pick(&[0u32, 1, 8, 9, 64]); g.global_access_cost = *c.rng.pick(&[0u32, 1, 16, 64, 4096]);
    g.learning_rate = *c.rng.pick(&[0.0f64, 0.001, 0.1, 0.5, 1.0]);
    c.input_str("pazip_cfg", &format!("base={base} outbuf={} mt={}/{} simd={} adaptive={} stats={} sa_local={} probe={}/{} benefit={} lit={} gcost={} lr={}", g.output_buffer_size, g.enable_multithreading, g.multithreading_threshold,
        g.enable_simd, g.adaptive_thresholds, g.collect_detailed_stats, g.use_suffix_array_local_match, g.max_local_probe_distance, g.max_global_probe_distance, g.min_net_benefit, g.literal_cost_bits, g.global_access_cost, g.learning_rate));
    g
}
const TYPE_NAMES: [&str; 8] = ["Literal", "Global", "RLE", "NearShort", "Far1Short", "Far2Short", "Far2Long", "Far3Long"];

/// Diagnostic only (goes into the failure detail): walk the token stream with the *encoder's* layout and report the first token
/// whose expansion diverges from the payload.
fn pazip_explain(z: &[u8], x: &[u8], dict: &[u8]) -> String {
    let (mut p, mut o) = (0usize, 0usize);
    while p < z.len() {
        match z[p] {
            0 => { if p + 1 >= z.len() { return format!("truncated literal at {p}"); } let l = z[p + 1] as usize; if p + 2 + l > z.len() { return format!("literal token at z[{p}] len {l} runs past the end"); } if x.get(o..o + l) != Some(&z[p + 2..p + 2 + l]) { return format!("literal token at z[{p}] (out pos {o}) differs from payload"); } o += l; p += 2 + l; }
            1 => { if p + 4 >= z.len() + 0 && p + 5 > z.len() { return format!("truncated global at {p}"); } let off = u16::from_le_bytes([z[p + 1], z[p + 2]]) as usize; let l = u16::from_le_bytes([z[p + 3], z[p + 4]]) as usize;
                   let d = dict.get(off..off + l); let w = x.get(o..o + l);
                   if d != w || d.is_none() { let good: Vec<usize> = if let Some(w) = w { (0..dict.len().saturating_sub(l) + 1).filter(|&a| &dict[a..a + l] == w).take(4).collect() } else { vec![] };
                       let common = match (d, w) { (Some(d), Some(w)) => d.iter().zip(w.iter()).take_while(|(a, b)| a == b).count(), _ => 0 };
                       return format!("first bad token: Global at z[{p}] (out pos {o}): stored offset {off} len {l}; dict[{off}..] agrees with the payload for only {common} bytes; dictionary size {}; payload bytes do occur in the dictionary at {:?} (stored offset == true offset mod 65536: {})", dict.len(), good, good.iter().any(|g| g % 65536 == off)); }
                   o += l; p += 5; }
            t => return format!("token type {t} at z[{p}] (out pos {o})"),
        }
    }
    format!("token walk reproduces {o} bytes of {} without divergence", x.len())
}
fn pazip_roundtrip(c: &mut Case, pz: &mut PaZipCompressor, x: &[u8], dict_text: &[u8], what: &str) -> Result<bool, Fail> {
    let mut z = Vec::new();
    let r = catch(|| pz.compress(x, &mut z));
    let st = match r { Err(p) => return Err(bad(&p.class(), format!("{what}: compress panicked at {}: {}", p.loc, p.msg))), Ok(Err(e)) => { c.note("compress_err", 1); c.log(format!("compress Err {e}")); return Ok(false); } Ok(Ok(st)) => st };
    for (i, n) in st.compression_type_usage.iter().enumerate() { if *n > 0 { c.note(&format!("type:{}", TYPE_NAMES[i]), *n); } }
    if st.global_matches > 0 { c.note("cases_with_global", 1); } if st.local_matches > 0 { c.note("cases_with_local", 1); }
    if z.len() >= x.len() && !x.is_empty() { c.note("no_shrink", 1); }
    let mut d = Vec::new();
    let r = catch(|| pz.decompress(&z, &mut d));
    dec_res(c, what, x, z.len(), r.map(|r| r.map(|_| d))).map_err(|mut f| { if f.oracle == "roundtrip_mismatch" || f.oracle == "decode_err" { f.detail = format!("{} || {}", pazip_explain(&z, x, dict_text), f.detail); } f })?;
    Ok(true)
}
fn pazip_payload(c: &mut Case, big: bool, huge: bool) -> Vec<u8> {
    if big { let k = *c.rng.pick(&[2u32, 8, 10, 9, 0]); let l = if huge { *c.rng.pick(&[1usize << 20, (1 << 20) + 4097]) } else { *c.rng.pick(&[65535usize, 65536, 70001]) }; c.input_str("fam", gen::byte_kind_name(k)); let x = gen::bytes_kind(&mut c.rng, k, l); c.input("x", &x); return x; }
    let fam = c.rng.usize_below(NFAM); c.input_str("fam", fam_name(fam));
    if fam_name(fam) == "lzdir" && c.rng.bool() { let (x, d) = lz_directed(&mut c.rng, 65794, 140_000); c.input_str("directives", &d); c.input("x", &x); return x; }
    gen_payload(c, fam, 4200)
}
/// dictionaries through the documented builder: trained on same / other / related / empty-ish data
fn pazip_builder_case(c: &mut Case, preset: &str, tmode: &str, big: bool, huge: bool) -> Res {
    let pcfg = pazip_cfg_for(c, preset);
    let x = pazip_payload(c, big, huge);
    let train: Vec<u8> = match tmode {
        "same" => if x.is_empty() { vec![b'a'; 8] } else { x.clone() },
        "other" => { let k = c.rng.below(gen::BYTE_KINDS as u64) as u32; let l = 300 + c.rng.usize_below(3000); gen::bytes_kind(&mut c.rng, k, l) }
        "related" => { let l = 1000 + c.rng.usize_below(3000); gen::related_bytes(&mut c.rng, &x, l) }
        _ => { let n = 1 + c.rng.usize_below(8); c.rng.bytes(n) } // "tiny": empty-ish training data
    };
    let train = if big && tmode == "same" { train[..train.len().min(40_000)].to_vec() } else { train };
    c.input_str("train_mode", tmode); c.input("train", &train);
    let (target, max) = *c.rng.pick(&[(2048usize, 4096usize), (64 * 1024, 1 << 20), (16 << 20, 64 << 20)]);
    let dc = DictionaryBuilderConfig { target_dict_size: target, max_dict_size: max, validate_result: c.rng.bool(), sample_ratio: *c.rng.pick(&[1.0f64, 0.8]), use_parallel: false, enable_progress: false, ..Default::default() };
    c.input_str("dict_cfg", &format!("target={target} max={max} validate={} ratio={}", dc.validate_result, dc.sample_ratio));
    if preset == "reference" { c.tag("pazip_reference_encoding"); }
    // input-only model of the dictionary text length the builder ends up with (builder.rs:472-543)
    let mut maxd = max; if train.len() < maxd / 10 { maxd = (train.len() * 20).min(maxd); }
    let sampled = if dc.sample_ratio < 1.0 { ((train.len() as f64 * dc.sample_ratio) as usize).min(train.len()) } else { train.len() };
    let model_dlen = if maxd <= 256 { sampled.min(16) } else if maxd <= 1024 { sampled.min(maxd / 16) } else if maxd <= 8192 { sampled.min(32) } else if maxd <= 16384 { sampled.min(maxd / 8) } else { sampled };
    if (10_000..=50_000).contains(&model_dlen) { c.tag("pazip_dict_10k_to_50k"); }
    // a single dictionary match longer than the 16-bit length field: payload and (modelled) dictionary text share a prefix > 65535 bytes
    let lcp = x.iter().zip(train[..model_dlen.min(train.len())].iter()).take_while(|(a, b)| a == b).count();
    if lcp > 65_535 { c.tag("pazip_match_len_gt_64k"); }
    if model_dlen > 65_536 { c.tag("pazip_dict_gt_64k"); }
    if x.len() >= (1 << 20) && pcfg.enable_multithreading && !pcfg.use_reference_encoding { c.tag("pazip_parallel_ge_1mib"); }
    c.set_nontrivial(false);
    let dict = match nopanic("DictionaryBuilder::build", || DictionaryBuilder::with_config(dc).build(&train))? { Ok(d) => d, Err(e) => { c.note("dict_build_err", 1); c.log(format!("{e}")); return Ok(()); } };
    let dtext = dict.dictionary_text().to_vec();
    let dlen = dict.dictionary_size(); c.note(if dlen == model_dlen { "dlen_model_ok" } else { "dlen_model_off" }, 1); c.note(if dlen <= 64 { "dict_le_64B" } else if dlen <= 65536 { "dict_le_64K" } else { "dict_gt_64K" }, 1);
    let pool = match SecureMemoryPool::new(SecurePoolConfig::small_secure()) { Ok(p) => p, Err(e) => return inconclusive(format!("pool: {e}")) };
    let mut pz = match nopanic("PaZipCompressor::new", || PaZipCompressor::new(dict, pcfg.clone(), pool))? { Ok(p) => p, Err(e) => { c.note("ctor_err", 1); c.log(format!("{e}")); return Ok(()); } };
    let ok = pazip_roundtrip(c, &mut pz, &x, &dtext, &format!("PaZip({preset}) dict={tmode}/{dlen}B"))?;
    c.set_nontrivial(ok && !x.is_empty());
    // the compressor is reusable (&mut self): a second payload through the same object
    if ok && !big && c.rng.chance(1, 3) { let k = c.rng.below(gen::BYTE_KINDS as u64) as u32; let l = gen::pick_len(&mut c.rng, 1500); let x2 = gen::bytes_kind(&mut c.rng, k, l); c.input("x2", &x2); pazip_roundtrip(c, &mut pz, &x2, &dtext, &format!("PaZip({preset}) second payload"))?; c.note("second_payload", 1); }
    Ok(())
}
/// dictionaries through SuffixArrayDictionary::new directly (the whole training text becomes the dictionary), incl. > 64 KiB
fn pazip_sadict_case(c: &mut Case, preset: &str, size: &str) -> Res {
    let pcfg = pazip_cfg_for(c, preset);
    let bigdict = size == "gt64k";
    let dlen = match size { "gt64k" => 65537 + c.rng.usize_below(60_000), "long_match" => 65_600 + c.rng.usize_below(1500), "huge_xcxd" => *c.rng.pick(&[65_535usize, 65_536, 65_537, 70_000]), "mid" => 10_000 + c.rng.usize_below(40_000), _ => 16 + c.rng.usize_below(6000) };
    let k = if size == "huge_xcxd" { *c.rng.pick(&[10u32, 8]) } else if size == "long_match" { *c.rng.pick(&[8u32, 10]) } else { *c.rng.pick(&[10u32, 0, 5, 9, 12]) };
    let dict_text = gen::bytes_kind(&mut c.rng, k, dlen);
    // payload: pieces of the dictionary (from everywhere, including beyond 64 KiB) mixed with fresh bytes
    let mut x = Vec::new(); let want = 200 + c.rng.usize_below(3000);
    // "long_match": the payload IS the dictionary text (> 65535 bytes): one dictionary match longer than the 16-bit length field
    if size == "long_match" { x = dict_text.clone(); c.tag("pazip_match_len_gt_64k"); }
    // "huge_xcxd": payload = X c X d where X is the whole dictionary text (>= 64 KiB): two maximal dictionary matches, offsets 0, lengths at the 16-bit limit
    if size == "huge_xcxd" { x = dict_text.clone(); x.push(0x11); x.extend_from_slice(&dict_text); x.push(0xEE); if dlen > 65_535 { c.tag("pazip_match_len_gt_64k"); } }
    while x.len() < want { if c.rng.chance(3, 4) { let a = if bigdict && c.rng.bool() { 65536 + c.rng.usize_below(dlen - 65536) } else { c.rng.usize_below(dlen) }; let n = (6 + c.rng.usize_below(300)).min(dlen - a); x.extend_from_slice(&dict_text[a..a + n]); } else { let n = 1 + c.rng.usize_below(12); let f = c.rng.bytes(n); x.extend(f); } }
    c.input_str("dict_kind", gen::byte_kind_name(k)); c.input("dict_text", &dict_text); c.input("x", &x);
    if dlen > 65536 { c.tag("pazip_dict_gt_64k"); } if (10_000..=50_000).contains(&dlen) { c.tag("pazip_dict_10k_to_50k"); } if preset == "reference" { c.tag("pazip_reference_encoding"); }
    c.set_nontrivial(false);
    let dcfg = SuffixArrayDictionaryConfig { min_frequency: *c.rng.pick(&[1u32, 2, 4]), ..Default::default() };
    let dict = match nopanic("SuffixArrayDictionary::new", || SuffixArrayDictionary::new(&dict_text, dcfg))? { Ok(d) => d, Err(e) => { c.note("dict_build_err", 1); c.log(format!("{e}")); return Ok(()); } };
    let pool = match SecureMemoryPool::new(SecurePoolConfig::small_secure()) { Ok(p) => p, Err(e) => return inconclusive(format!("pool: {e}")) };
    let mut pz = match nopanic("PaZipCompressor::new", || PaZipCompressor::new(dict, pcfg.clone(), pool))? { Ok(p) => p, Err(e) => { c.note("ctor_err", 1); c.log(format!("{e}")); return Ok(()); } };
    let ok = pazip_roundtrip(c, &mut pz, &x, &dict_text, &format!("PaZip({preset}) direct dictionary of {dlen} B"))?;
    c.set_nontrivial(ok);
    Ok(())
}
/// large payloads (64 KiB .. 1 MiB+1, huge shapes) with a small builder dictionary trained on the payload's first bytes
fn pazip_huge_case(c: &mut Case, preset: &str, sel: usize) -> Res {
    let pcfg = pazip_cfg_for(c, preset);
    let x = huge_payload(c, sel, (1 << 20) + 1);
    let train = x[..x.len().min(3000)].to_vec(); c.input_str("train_mode", "prefix3000");
    let dc = DictionaryBuilderConfig { target_dict_size: 2048, max_dict_size: 4096, validate_result: true, sample_ratio: 1.0, use_parallel: false, enable_progress: false, ..Default::default() };
    if x.len() >= (1 << 20) && pcfg.enable_multithreading && !pcfg.use_reference_encoding { c.tag("pazip_parallel_ge_1mib"); }
    c.set_nontrivial(false);
    let dict = match nopanic("DictionaryBuilder::build", || DictionaryBuilder::with_config(dc).build(&train))? { Ok(d) => d, Err(e) => { c.note("dict_build_err", 1); c.log(format!("{e}")); return Ok(()); } };
    let dtext = dict.dictionary_text().to_vec();
    let pool = match SecureMemoryPool::new(SecurePoolConfig::small_secure()) { Ok(p) => p, Err(e) => return inconclusive(format!("pool: {e}")) };
    let mut pz = match nopanic("PaZipCompressor::new", || PaZipCompressor::new(dict, pcfg.clone(), pool))? { Ok(p) => p, Err(e) => { c.note("ctor_err", 1); c.log(format!("{e}")); return Ok(()); } };
    let ok = pazip_roundtrip(c, &mut pz, &x, &dtext, &format!("PaZip({preset}) huge payload, dict {}B", dtext.len()))?;
    c.set_nontrivial(ok);
    Ok(())
}
fn run_pazip(ctx: &mut Ctx) {
    { // non-preset configurations
        for tmode in ["same", "other", "related"] { for idx in 0..ctx.n(10, 150) as u64 { ctx.case("pazip/custom", tmode, idx, |c| pazip_builder_case(c, "custom", tmode, false, false)); } }
        for idx in 0..ctx.n(4, 40) as u64 { ctx.case("pazip/custom", "big_same", idx, |c| pazip_builder_case(c, "custom", "same", true, idx % 2 == 1)); }
        for idx in 0..ctx.n(10, 100) as u64 { ctx.case("pazip/custom", "huge_shapes", idx, |c| pazip_huge_case(c, "custom", idx as usize)); }
        for idx in 0..ctx.n(6, 80) as u64 { ctx.case("pazip_sadict/custom", "dict_small", idx, |c| pazip_sadict_case(c, "custom", "small")); }
        for idx in 0..ctx.n(3, 40) as u64 { ctx.case("pazip_sadict/custom", "dict_mid", idx, |c| pazip_sadict_case(c, "custom", "mid")); }
        for idx in 0..ctx.n(2, 16) as u64 { ctx.case("pazip_sadict/custom", "huge_xcxd", idx, |c| pazip_sadict_case(c, "custom", "huge_xcxd")); }
    }
    for preset in PAZIP_PRESETS {
        let t = format!("pazip/{preset}");
        for tmode in ["same", "other", "related", "tiny"] { for idx in 0..ctx.n(12, 180) as u64 { ctx.case(&t, tmode, idx, |c| pazip_builder_case(c, preset, tmode, false, false)); } }
        // (the reference preset needs > 60 s CPU on a 64 KiB payload and cannot be decoded anyway: no big payloads for it)
        if *preset != "reference" { for idx in 0..ctx.n(2, 20) as u64 { ctx.case(&t, "big_same", idx, |c| pazip_builder_case(c, preset, "same", true, idx % 2 == 1)); } }
        // (reference preset: > 60 s CPU on 64 KiB and a known finding anyway: no huge payloads)
        if *preset != "reference" { for idx in 0..ctx.n(6, 60) as u64 { ctx.case(&t, "huge_shapes", idx, |c| pazip_huge_case(c, preset, idx as usize + preset.len())); } }
        let t2 = format!("pazip_sadict/{preset}");
        for idx in 0..ctx.n(8, 100) as u64 { ctx.case(&t2, "dict_small", idx, |c| pazip_sadict_case(c, preset, "small")); }
        for idx in 0..ctx.n(5, 50) as u64 { ctx.case(&t2, "dict_mid", idx, |c| pazip_sadict_case(c, preset, "mid")); }
        for idx in 0..ctx.n(3, 40) as u64 { ctx.case(&t2, "dict_gt64k", idx, |c| pazip_sadict_case(c, preset, "gt64k")); }
        if *preset != "reference" { for idx in 0..ctx.n(1, 10) as u64 { ctx.case(&t2, "long_match", idx, |c| pazip_sadict_case(c, preset, "long_match")); } }
        if *preset != "reference" { for idx in 0..ctx.n(2, 16) as u64 { ctx.case(&t2, "huge_xcxd", idx, |c| pazip_sadict_case(c, preset, "huge_xcxd")); } }
    }
}

// ------------------------------------------------------------------------------------------------------------
// bit-level match codec
// ------------------------------------------------------------------------------------------------------------
const VARIANTS: [&str; 8] = ["literal", "global", "rle", "nearshort", "far1short", "far2short", "far2long", "far3long"];
fn edge_u32(r: &mut Rng, lo: u32, hi: u32, extra: &[u32]) -> u32 {
    // in-range extremes, both neighbours of the limits (constructor decides), powers of two, random
    match r.below(6) { 0 => lo, 1 => hi, 2 => { let e: Vec<u32> = extra.iter().copied().collect(); if e.is_empty() { lo } else { *r.pick(&e) } } 3 => lo.saturating_add(r.below(3) as u32), 4 => hi.saturating_sub(r.below(3) as u32), _ => r.range(lo as u64, hi as u64) as u32 }
}
/// A Match built through the validating public constructors; None if the constructor refused the parameters.
fn gen_match(r: &mut Rng, variant: usize) -> Option<Match> {
    let m = match variant {
        0 => Match::literal(edge_u32(r, 1, 32, &[0, 33, 255]) as u8),
        1 => Match::global(edge_u32(r, 0, u32::MAX, &[0xFFFF, 0x10000, 0xFF_FFFF, 0x100_0000, 0x7FFF_FFFF, 0x8000_0000]), edge_u32(r, 6, 65535, &[5, 255, 256, 32767, 32768]) as u16),
        2 => Match::rle(edge_u32(r, 0, 255, &[0x80]) as u8, edge_u32(r, 2, 33, &[1, 34]) as u8),
        3 => Match::near_short(edge_u32(r, 2, 9, &[1, 10]) as u8, edge_u32(r, 2, 5, &[1, 6]) as u8),
        4 => Match::far1_short(edge_u32(r, 2, 257, &[1, 9, 10, 255, 256, 258]) as u16, edge_u32(r, 2, 33, &[1, 5, 6, 34]) as u8),
        5 => Match::far2_short(edge_u32(r, 258, 65793, &[257, 65535, 65536, 65794]), edge_u32(r, 2, 33, &[1, 34]) as u8),
        6 => Match::far2_long(edge_u32(r, 0, 65535, &[1, 257, 258]) as u16, edge_u32(r, 34, 65535, &[33, 34 + 127, 34 + 128, 34 + 32767, 34 + 32768, 64, 65]) as u16),
        _ => Match::far3_long(edge_u32(r, 0, 16_777_215, &[65535, 65536, 65793, 65794, 16_777_216]), edge_u32(r, 34, u32::MAX, &[33, 35, 36, 34 + 127, 34 + 128, 34 + 32767, 34 + 32768, 34 + 32768 + (1 << 30) - 1, 34 + 32768 + (1 << 30), 1 << 31])),
    };
    m.ok()
}
fn varlen_bits(v: u64) -> usize { if v < 128 { 8 } else if v < 32768 { 17 } else { 32 } }
/// documented encoding cost in bits (model, from the format comments in compression_types.rs)
fn model_bits(m: &Match) -> usize { match m { Match::Literal { .. } => 8, Match::Global { .. } => 51, Match::RLE { .. } => 16, Match::NearShort { .. } => 8, Match::Far1Short { .. } => 16, Match::Far2Short { .. } => 24,
    Match::Far2Long { length, .. } => 19 + varlen_bits(*length as u64 - 34), Match::Far3Long { length, .. } => 27 + varlen_bits(*length as u64 - 34) } }
fn tag_match(c: &mut Case, m: &Match) { if let Match::Far3Long { length, .. } = m { if (*length as u64) >= 34 + 32768 + (1u64 << 30) { c.tag("far3long_len_over_30bit"); } } }

fn bits_single_case(c: &mut Case, variant: usize) -> Res {
    let m = match gen_match(&mut c.rng, variant) { Some(m) => m, None => { c.input_str("match", "constructor refused"); c.set_nontrivial(false); c.note("ctor_refused", 1); return Ok(()); } };
    c.input_str("match", &format!("{m:?}")); c.set_nontrivial(true); tag_match(c, &m);
    // random bit offset in front (the codec is a bit stream: a match may start at any bit position)
    let lead = c.rng.usize_below(8) as u8; c.input_str("lead_bits", &lead.to_string());
    let mut w = BitWriter::new();
    if lead > 0 { w.write_bits(0x55, lead).map_err(|e| bad("writer_err", format!("{e}")))?; }
    let wrote = match nopanic("encode_match", || encode_match(&m, &mut w))? { Ok(n) => n, Err(e) => return fail("encode_err", format!("encode_match({m:?}) refused a match its constructor accepted: {e}")) };
    let buf = w.finish();
    let mut rd = BitReader::new(&buf);
    if lead > 0 { rd.read_bits(lead).map_err(|e| bad("reader_err", format!("{e}")))?; }
    let (m2, used) = match nopanic("decode_match", || decode_match(&mut rd))? { Ok(v) => v, Err(e) => return fail("decode_err", format!("decode_match after encode_match({m:?}) [{wrote} bits, lead {lead}]: {e}")) };
    c.ev(2);
    ensure!(m2 == m, "roundtrip_mismatch", "encoded {m:?} decoded {m2:?} (bits written {wrote}, lead {lead}, buffer {})", gen::hex(&buf));
    ensure!(used == wrote, "bit_count", "encode_match reported {wrote} bits, decode_match consumed {used} for {m:?}");
    c.note(&format!("bits_vs_doc:{}", if wrote == model_bits(&m) { "equal" } else { "differs" }), 1);
    Ok(())
}
fn bits_seq_case(c: &mut Case, homogeneous: Option<usize>) -> Res { bits_seq_case_ex(c, homogeneous, false) }
/// `huge`: more than 65536 / 10^5 matches in one stream (bit positions far beyond 2^20)
fn bits_seq_case_ex(c: &mut Case, homogeneous: Option<usize>, huge: bool) -> Res {
    let n = if huge { *c.rng.pick(&[65_536usize, 65_537, 100_001, 131_073]) } else { *c.rng.pick(&[0usize, 1, 1, 2, 3, 5, 8, 17, 64, 300]) };
    let mut ms = Vec::with_capacity(n);
    while ms.len() < n { let v = homogeneous.unwrap_or_else(|| c.rng.usize_below(8)); if let Some(m) = gen_match(&mut c.rng, v) { ms.push(m); } }
    let desc: String = ms.iter().take(40).map(|m| format!("{m:?};")).collect(); c.input_str("matches", &format!("n={n} {desc}")); c.hash_more(format!("{ms:?}").as_bytes());
    c.set_nontrivial(n >= 1);
    for m in &ms { tag_match(c, m); }
    let total: usize = ms.iter().map(model_bits).sum(); let pad = (8 - total % 8) % 8;
    c.note(&format!("pad_bits:{pad}"), 1);
    if n >= 1 && pad >= 3 { c.tag("stream_pad_ge3_bits"); }
    let (buf, wrote) = match nopanic("encode_matches", || encode_matches(&ms))? { Ok(v) => v, Err(e) => return fail("encode_err", format!("encode_matches refused constructor-validated matches: {e}")) };
    let (ms2, used) = match nopanic("decode_matches", || decode_matches(&buf))? { Ok(v) => v, Err(e) => return fail("decode_err", format!("decode_matches(encode_matches(n={n})) -> Err({e}); {wrote} bits in {} bytes (padding {} bits)", buf.len(), buf.len() * 8 - wrote)) };
    c.ev(2);
    if ms2 != ms { let i = ms.iter().zip(ms2.iter()).position(|(a, b)| a != b).unwrap_or(ms.len().min(ms2.len())); return fail("roundtrip_mismatch", format!("n={} decoded n={} first difference at {i}: want {:?} got {:?}", ms.len(), ms2.len(), ms.get(i), ms2.get(i))); }
    ensure!(used == wrote, "bit_count", "encode_matches reported {wrote} bits, decode_matches consumed {used}");
    Ok(())
}
fn run_bits(ctx: &mut Ctx) {
    for v in 0..8 { let t = format!("bits/{}", VARIANTS[v]);
        for idx in 0..ctx.n(60, 2000) as u64 { ctx.case(&t, "single", idx, |c| bits_single_case(c, v)); }
        for idx in 0..ctx.n(12, 400) as u64 { ctx.case(&t, "seq_same_variant", idx, |c| bits_seq_case(c, Some(v))); }
    }
    for idx in 0..ctx.n(200, 6000) as u64 { ctx.case("bits/seq_mixed", "seq", idx, |c| bits_seq_case(c, None)); }
    for v in 0..8 { let t = format!("bits/{}", VARIANTS[v]); for idx in 0..ctx.n(1, 12) as u64 { ctx.case(&t, "huge_seq_same_variant", idx, |c| bits_seq_case_ex(c, Some(v), true)); } }
    for idx in 0..ctx.n(3, 40) as u64 { ctx.case("bits/seq_mixed", "huge_seq", idx, |c| bits_seq_case_ex(c, None, true)); }
}

/// exploratory diagnostics (only with ZV_C02_DBG=1): minimal reproductions (stderr) + correctness of SuffixArrayDictionary::find_longest_match itself
fn run_dbg(ctx: &mut Ctx) {
    ctx.case("dbg/repro", "min", 0, |c| {
        let rt = |alg: Algorithm, t: &[u8], x: &[u8]| -> String { match catch(|| { let k = CompressorFactory::create(alg, Some(t)).map_err(|e| format!("ctor {e}"))?; let z = k.compress(x).map_err(|e| format!("compress Err {e}"))?; let d = k.decompress(&z).map_err(|e| format!("z={} decompress Err {e}", gen::hex(&z[..z.len().min(12)])))?; Ok::<bool, String>(d == x) }) { Ok(Ok(b)) => format!("roundtrip_equal={b}"), Ok(Err(e)) => e, Err(p) => format!("panic {}", p.msg) } };
        eprintln!("hybrid train=ab x=ab: {}", rt(Algorithm::Hybrid, b"ab", b"ab"));
        eprintln!("hybrid train=a x=a: {}", rt(Algorithm::Hybrid, b"a", b"a"));
        let mut best: Option<Vec<u8>> = None;
        for len in 2..7usize { for _ in 0..400 { let x: Vec<u8> = (0..len).map(|_| b'a' + c.rng.below(3) as u8).collect(); if best.as_ref().map_or(true, |b| x.len() < b.len()) { let r = rt(Algorithm::Rans, &x, &x); if r != "roundtrip_equal=true" { eprintln!("rans train=x={:?}: {r} (model says shifted: {})", String::from_utf8_lossy(&x), rans_renorm_shifts(&x, &x)); best = Some(x); } } } }
        eprintln!("bits [Global(0,6)]: {:?}", encode_matches(&[Match::global(0, 6).unwrap()]).map(|(b, n)| (n, decode_matches(&b).map_err(|e| e.to_string()))));
        eprintln!("bits [Literal(1)]: {:?}", encode_matches(&[Match::literal(1).unwrap()]).map(|(b, n)| (n, decode_matches(&b).map_err(|e| e.to_string()))));
        let mut s = Native::with(SimdLz77Config::default()).unwrap(); let z = s.compress(b"abc").unwrap(); eprintln!("simdlz77 native abc -> z={} -> {:?}", gen::hex(&z), s.decompress(&z).map(|d| String::from_utf8_lossy(&d).to_string()));
        Ok(()) });
    for idx in 0..120u64 { ctx.case("dbg/dict", "text", idx, |c| {
        let k = *c.rng.pick(&[10u32, 9, 5, 8]); let dlen = *c.rng.pick(&[200usize, 2000, 9000, 9999, 10000, 12000, 40000, 60000]);
        let text = gen::bytes_kind(&mut c.rng, k, dlen + 3000);
        let nocache = c.rng.bool();
        let cfg = if nocache { SuffixArrayDictionaryConfig { min_frequency: u32::MAX, max_bfs_depth: 0, ..Default::default() } } else { SuffixArrayDictionaryConfig::default() };
        c.input_str("cfg", &format!("kind={} dlen={dlen} nocache={nocache}", gen::byte_kind_name(k)));
        let mut d = SuffixArrayDictionary::new(&text[..dlen], cfg).map_err(|e| bad("ctor", format!("{e}")))?;
        let dt = d.dictionary_text().to_vec();
        let (mut bad_n, mut n, mut first) = (0, 0, String::new());
        for _ in 0..400 { let p = c.rng.usize_below(text.len() - 10); let inp = &text[p..(p + 300).min(text.len())];
            if let Ok(Some(m)) = d.find_longest_match(inp, 0, 256) { n += 1; let ok = dt.get(m.dict_position..m.dict_position + m.length) == Some(&inp[..m.length.min(inp.len())]) && m.length <= inp.len();
                if !ok { bad_n += 1; if first.is_empty() { let common = dt[m.dict_position.min(dt.len())..].iter().zip(inp.iter()).take_while(|(a, b)| a == b).count(); first = format!("input pos {p}: match len {} at dict {} but only {common} bytes agree; states={}", m.length, m.dict_position, d.cache_states()); } } } }
        c.ev(n); ensure!(bad_n == 0, "dict_match_wrong", "{bad_n}/{n} wrong matches; {first}"); Ok(()) }); }
}

// ============================================================================================================
// gap families: public functions of the anchor files the families above never call
// ============================================================================================================
use zipora::compression::dict_zip::{
    calculate_encoding_overhead, calculate_theoretical_compression_ratio, calculate_compression_efficiency, choose_best_compression_type, get_back_ref_encoding_meta,
    write_uint_bytes, write_var_size_t, CompressionStats as PzStats, CompressionType, ConcurrentSuffixArrayDictionary, DzType, LocalMatcher, LocalMatcherConfig, ReferenceEncoder,
};
use zipora::compression::realtime::RealtimeCompressorBuilder;
use zipora::compression::suffix_array::{SuffixArrayCompressor, SuffixArrayConfig};
use std::sync::Arc;

// ---- reference (byte-level) token encoder: ReferenceEncoder::encode_* parsed back by a model decoder written from the C++ layout
// quoted in the doc comments of reference_encoding.rs (the library has no decoder for this format)
#[derive(Debug, Clone, PartialEq)]
enum RefTok { Lit(Vec<u8>), Global(u32, usize), Back(u8, usize, usize) } // Back(type, distance, length)
fn read_var(z: &[u8], p: &mut usize) -> Option<usize> { let mut v = 0usize; let mut sh = 0u32; loop { let b = *z.get(*p)?; *p += 1; if sh >= 64 { return None; } v |= ((b & 0x7F) as usize) << sh; sh += 7; if b & 0x80 == 0 { return Some(v); } } }
fn read_le(z: &[u8], p: &mut usize, n: usize) -> Option<usize> { let mut v = 0usize; for i in 0..n { v |= (*z.get(*p + i)? as usize) << (8 * i); } *p += n; Some(v) }
/// model decoder (g_offset_bits == 24): None = malformed
fn ref_decode(z: &[u8], gmax: usize) -> Option<Vec<RefTok>> {
    let mut p = 0usize; let mut out = Vec::new();
    while p < z.len() {
        let b = z[p]; p += 1; let t = b & 7; let v = (b >> 3) as usize;
        match t {
            0 => { let l = v + 1; let d = z.get(p..p + l)?.to_vec(); p += l; out.push(RefTok::Lit(d)); }
            1 => { let pos = read_le(z, &mut p, 3)?; let len = if v < 31 { v + 6 } else { read_var(z, &mut p)? + gmax + 1 }; out.push(RefTok::Global(pos as u32, len)); }
            2 => out.push(RefTok::Back(2, 1, v + 2)),
            3 => out.push(RefTok::Back(3, (b >> 5) as usize + 2, (v & 3) + 2)),
            4 => { let d = read_le(z, &mut p, 1)? + 2; out.push(RefTok::Back(4, d, v + 2)); }
            5 => { let d = read_le(z, &mut p, 2)? + 258; out.push(RefTok::Back(5, d, v + 2)); }
            6 => { let len = if v < 31 { v + 34 } else { read_var(z, &mut p)? + 65 }; let d = read_le(z, &mut p, 2)?; out.push(RefTok::Back(6, d, len)); }
            _ => { let len = if v < 31 { v + 5 } else { read_var(z, &mut p)? + 36 }; let d = read_le(z, &mut p, 3)?; out.push(RefTok::Back(7, d, len)); }
        }
    }
    Some(out)
}
fn big_len(r: &mut Rng, lo: usize) -> usize { match r.below(6) { 0 => lo, 1 => lo + r.usize_below(40), 2 => *r.pick(&[64usize, 65, 66, 67, 127, 128, 129, 163, 164, 192, 193, 194, 255, 256, 16383, 16384, 16448, 16449, 16450, 65535, 65536]).max(&lo), 3 => lo + r.usize_below(70_000), 4 => lo + r.usize_below(1 << 30), _ => lo + r.usize_below(300) } }
/// a token within the documented (debug_assert'ed) operand ranges of the encoder for type `t`
fn gen_ref_tok(r: &mut Rng, t: u8, gmax: usize) -> RefTok {
    match t {
        0 => { let l = *r.pick(&[1usize, 2, 31, 32, 33, 63, 64, 65, 100]); let l = if r.bool() { l } else { 1 + r.usize_below(100) }; RefTok::Lit(r.bytes(l)) }
        1 => { let len = if r.bool() { 6 + r.usize_below(40) } else { big_len(r, 6) }; RefTok::Global(*r.pick(&[0u32, 1, 255, 256, 65535, 65536, 0xFF_FFFF]) ^ if r.bool() { r.below(1 << 24) as u32 } else { 0 }, len.max(6).min(gmax.max(6) + (1 << 30))) }
        2 => RefTok::Back(2, 1, r.urange(2, 33)),
        3 => RefTok::Back(3, r.urange(2, 9), r.urange(2, 5)),
        4 => { let (a, b) = (r.urange(2, 257), r.urange(2, 33)); RefTok::Back(4, *r.pick(&[2usize, 3, 9, 10, 255, 256, 257, a]), *r.pick(&[2usize, 5, 6, 32, 33, b])) }
        5 => { let (a, b) = (r.urange(258, 65793), r.urange(2, 33)); RefTok::Back(5, *r.pick(&[258usize, 259, 65535, 65536, 65792, 65793, a]), *r.pick(&[2usize, 33, b])) }
        6 => { let a = r.urange(0, 65535); let d = *r.pick(&[0usize, 1, 257, 258, 65534, 65535, a]); RefTok::Back(6, d, big_len(r, 34)) }
        _ => { let a = r.urange(0, (1 << 24) - 1); let d = *r.pick(&[0usize, 1, 65535, 65536, 65793, 65794, (1 << 24) - 1, a]); RefTok::Back(7, d, big_len(r, 5)) }
    }
}
fn ref_encode(e: &mut ReferenceEncoder<Vec<u8>>, t: &RefTok, gmax: usize) -> zipora::error::Result<()> {
    match t {
        RefTok::Lit(d) => e.encode_literal(d),
        RefTok::Global(p, l) => e.encode_global(*p, *l, 24, gmax),
        RefTok::Back(2, _, l) => e.encode_rle(*l), RefTok::Back(3, d, l) => e.encode_near_short(*d, *l), RefTok::Back(4, d, l) => e.encode_far1_short(*d, *l),
        RefTok::Back(5, d, l) => e.encode_far2_short(*d, *l), RefTok::Back(6, d, l) => e.encode_far2_long(*d, *l), RefTok::Back(_, d, l) => e.encode_far3_long(*d, *l),
    }
}
/// what the model decoder must give back: literals longer than 32 bytes are split into 32-byte tokens by the encoder
fn ref_expect(toks: &[RefTok]) -> Vec<RefTok> { let mut out = Vec::new(); for t in toks { match t { RefTok::Lit(d) => { for ch in d.chunks(32) { out.push(RefTok::Lit(ch.to_vec())); } } o => out.push(o.clone()) } } out }
fn refenc_case(c: &mut Case, only: Option<u8>) -> Res {
    let gmax = *c.rng.pick(&[6usize, 7, 20, 36]); // (<= 36: the short form's 5-bit length field cannot collide with the escape value 31)
    let n = if only.is_some() { 1 } else { 1 + c.rng.usize_below(12) };
    let toks: Vec<RefTok> = (0..n).map(|_| { let t = only.unwrap_or_else(|| c.rng.below(8) as u8); gen_ref_tok(&mut c.rng, t, gmax) }).collect();
    c.input_str("tokens", &format!("gmax={gmax} {:?}", toks.iter().map(|t| match t { RefTok::Lit(d) => format!("Lit[{}]", d.len()), o => format!("{o:?}") }).collect::<Vec<_>>()));
    c.hash_more(format!("{toks:?}").as_bytes()); c.set_nontrivial(true);
    let mut e = ReferenceEncoder::new(Vec::new());
    for t in &toks { match nopanic("ReferenceEncoder::encode_*", || ref_encode(&mut e, t, gmax))? { Ok(()) => {} Err(err) => { c.note("encode_err", 1); c.log(format!("{err}")); c.set_nontrivial(false); return Ok(()); } } }
    let z = e.into_writer();
    // the type the library's own selector picks for a back-reference must be the one whose operand layout can hold it
    for t in &toks { if let RefTok::Back(ty, d, l) = t { let m = get_back_ref_encoding_meta(*d, *l); if *d >= 1 && m.dz_type.as_u8() == *ty { c.note("selector_same_type", 1); } } }
    c.ev(1);
    let got = ref_decode(&z, gmax);
    let want = ref_expect(&toks);
    ensure!(got.as_ref() == Some(&want), "refenc_roundtrip", "tokens {:?} encoded as {} parse back (documented layout) as {:?}", want.iter().map(|t| match t { RefTok::Lit(d) => format!("Lit[{}]", d.len()), o => format!("{o:?}") }).collect::<Vec<_>>(), gen::abbrev(&z),
        got.map(|g| g.iter().map(|t| match t { RefTok::Lit(d) => format!("Lit[{}]", d.len()), o => format!("{o:?}") }).collect::<Vec<_>>()));
    // first byte carries the type in its low 3 bits (DzType::from_u8 inverts as_u8)
    let t0 = nopanic("DzType::from_u8", || DzType::from_u8(z[0] & 7))?; ensure!(t0.is_ok(), "dztype_from_u8", "from_u8({}) refused", z[0] & 7);
    ensure!(DzType::from_u8(8 + (z[0] & 7)).is_err(), "dztype_from_u8", "from_u8 accepted a value > 7");
    Ok(())
}
fn refenc_prims_case(c: &mut Case) -> Res {
    let v: usize = match c.rng.below(5) { 0 => *c.rng.pick(&[0usize, 1, 127, 128, 129, 16383, 16384, 16385, (1 << 21) - 1, 1 << 21, u32::MAX as usize, usize::MAX]), 1 => c.rng.usize_below(300), 2 => c.rng.usize_below(1 << 22), _ => c.rng.next() as usize >> c.rng.below(64) };
    let nb = 1 + c.rng.usize_below(4); let u = c.rng.next() as u32;
    c.input_str("v", &format!("var={v} uint={u} bytes={nb}")); c.set_nontrivial(true);
    let mut w: Vec<u8> = Vec::new();
    nopanic("write_var_size_t", || write_var_size_t(&mut w, v))?.map_err(|e| bad("writer_err", format!("{e}")))?;
    let mark = w.len();
    nopanic("write_uint_bytes", || write_uint_bytes(&mut w, u, nb))?.map_err(|e| bad("writer_err", format!("{e}")))?;
    let mut p = 0; let got = read_var(&w, &mut p); c.ev(2);
    ensure!(got == Some(v) && p == mark, "var_size_roundtrip", "write_var_size_t({v}) -> {} parses as {got:?} using {p} of {mark} bytes", gen::hex(&w[..mark]));
    let want = (u as u64 & ((1u64 << (8 * nb)) - 1)) as usize; let got = read_le(&w, &mut p, nb);
    ensure!(got == Some(want) && p == w.len(), "uint_bytes_roundtrip", "write_uint_bytes({u}, {nb}) -> {} parses as {got:?}, want {want}", gen::hex(&w[mark..]));
    ensure!(write_uint_bytes(&mut w, u, if c.rng.bool() { 0 } else { 5 + c.rng.usize_below(4) }).is_err(), "uint_bytes_roundtrip", "byte count outside 1..=4 accepted");
    Ok(())
}

// ---- type selection / cost helpers of compression_types.rs
fn types_case(c: &mut Case) -> Res {
    let d = match c.rng.below(5) { 4 => 1 + c.rng.usize_below(12), 0 => *c.rng.pick(&[1usize, 2, 9, 10, 257, 258, 65535, 65536, 65793, 65794, (1 << 24) - 1, 1 << 24, (1 << 24) + 1, 1 << 30]), 1 => 1 + c.rng.usize_below(300), 2 => 1 + c.rng.usize_below(70_000), _ => 1 + c.rng.usize_below(1 << 25) };
    let l = match c.rng.below(3) { 0 => *c.rng.pick(&[2usize, 3, 5, 6, 33, 34, 35, 36, 64, 65, 66, 255, 256, 65535, 65536]), 1 => 2 + c.rng.usize_below(40), _ => 2 + c.rng.usize_below(70_000) };
    c.input_str("d_l", &format!("distance={d} length={l}")); c.set_nontrivial(true);
    if d > 16_777_215 { c.tag("distance_over_24bit"); }
    let t = nopanic("choose_best_compression_type", || choose_best_compression_type(d, l))?;
    c.ev(1);
    match t {
        None => c.note("choose:none", 1),
        Some(t) => {
            c.note(&format!("choose:{t:?}"), 1);
            // "or None if impossible": no type has more than 24 distance bits
            ensure!(d <= 16_777_215, "chosen_type_cannot_hold_distance", "choose_best_compression_type({d}, {l}) = Some({t:?}) but no back-reference type can hold a distance > 2^24-1");
            // the library has two definitions of Far3Long's length range (>= 34 in CompressionType::supports / Match::far3_long, >= 5 in the reference layout): note only
            if !t.supports(d, l) { c.note(&format!("chosen_not_supports:{t:?}"), 1); } else {
                // a supported choice must be constructible and bit-level round-trippable
                let m = match t { CompressionType::RLE => Match::rle(0x41, l as u8), CompressionType::NearShort => Match::near_short(d as u8, l as u8), CompressionType::Far1Short => Match::far1_short(d as u16, l as u8), CompressionType::Far2Short => Match::far2_short(d as u32, l as u8),
                    CompressionType::Far2Long => if l <= 65535 { Match::far2_long(d as u16, l as u16) } else { return Ok(()) }, CompressionType::Far3Long => Match::far3_long(d as u32, l as u32), _ => return Ok(()) };
                let m = match m { Ok(m) => m, Err(e) => return fail("chosen_type_ctor_refused", format!("choose_best_compression_type({d}, {l}) = {t:?} (supports() = true) but the Match constructor refuses: {e}")) };
                let (buf, wrote) = match nopanic("encode_matches", || encode_matches(std::slice::from_ref(&m)))? { Ok(v) => v, Err(e) => return fail("encode_err", format!("{m:?}: {e}")) };
                let oh = calculate_encoding_overhead(&m); let eff = calculate_compression_efficiency(&m); let ratio = calculate_theoretical_compression_ratio(std::slice::from_ref(&m));
                c.note(if oh == wrote { "overhead_eq_bits" } else { "overhead_ne_bits" }, 1); c.note(if eff.is_finite() && ratio.is_finite() { "cost_finite" } else { "cost_nonfinite" }, 1);
                match nopanic("decode_matches", || decode_matches(&buf))? { Ok((ms, _)) => { c.ev(1); ensure!(ms.first() == Some(&m), "roundtrip_mismatch", "{m:?} decoded as {:?}", ms.first()); } Err(e) => return fail("decode_err", format!("{m:?}: {e}")) }
            }
        }
    }
    Ok(())
}

// ---- local matcher: every reported match must be a real back-reference into the bytes fed so far
fn lm_cfg(name: &str) -> LocalMatcherConfig { match name { "fast" => LocalMatcherConfig::fast_compression(), "max" => LocalMatcherConfig::max_compression(), "realtime" => LocalMatcherConfig::realtime(), "tinywin" => LocalMatcherConfig { window_size: 64, ..Default::default() }, _ => LocalMatcherConfig::default() } }
fn localmatch_case(c: &mut Case, name: &str) -> Res {
    let cfg = lm_cfg(name);
    let fam = c.rng.usize_below(NFAM); c.input_str("fam", fam_name(fam));
    let x = gen_payload(c, fam, 1500);
    c.set_nontrivial(false);
    if x.len() < 8 { return Ok(()); }
    let pool = match SecureMemoryPool::new(SecurePoolConfig::small_secure()) { Ok(p) => p, Err(e) => return inconclusive(format!("pool: {e}")) };
    let mk = |pool: &Arc<SecureMemoryPool>| LocalMatcher::new(cfg.clone(), pool.clone());
    let (mut a, mut b) = match (nopanic("LocalMatcher::new", || mk(&pool))?, mk(&pool)) { (Ok(a), Ok(b)) => (a, b), _ => { c.note("ctor_err", 1); return Ok(()); } };
    // a: fed with add_bytes in chunks, b: fed byte by byte; queried at the same positions
    let nq = 1 + c.rng.usize_below(12); let mut qs: Vec<usize> = (0..nq).map(|_| 1 + c.rng.usize_below(x.len() - 1)).collect(); qs.sort(); qs.dedup();
    let whole = c.rng.chance(1, 4); // the module example feeds the whole input first
    c.input_str("queries", &format!("{qs:?} whole={whole}"));
    let (mut fed, mut found) = (0usize, 0u64);
    if whole { nopanic("add_bytes", || a.add_bytes(&x, 0))?.map_err(|e| bad("add_err", format!("{e}")))?; for (i, &by) in x.iter().enumerate() { nopanic("add_byte", || b.add_byte(by, i))?.map_err(|e| bad("add_err", format!("{e}")))?; } fed = x.len(); }
    for &q in &qs {
        if fed < q { nopanic("add_bytes", || a.add_bytes(&x[fed..q], fed))?.map_err(|e| bad("add_err", format!("add_bytes: {e}")))?; for i in fed..q { nopanic("add_byte", || b.add_byte(x[i], i))?.map_err(|e| bad("add_err", format!("add_byte: {e}")))?; } fed = q; }
        ensure!(a.window_size() == b.window_size() && a.window_size() == fed.min(cfg.window_size) && a.is_window_full() == (fed >= cfg.window_size), "window_size", "after {fed} bytes: window_size {} / {} (limit {}), full={}", a.window_size(), b.window_size(), cfg.window_size, a.is_window_full());
        if let Err(e) = nopanic("validate", || a.validate())? { return fail("matcher_invalid", format!("validate() after {fed} bytes: {e}")); }
        let maxl = *c.rng.pick(&[3usize, 8, 40, 300, 100_000]);
        let ma = match nopanic("find_matches", || a.find_matches(&x, q, maxl))? { Ok(m) => m, Err(e) => { c.note("find_err", 1); c.log(format!("{e}")); continue; } };
        let mb = match nopanic("find_matches", || b.find_matches(&x, q, maxl))? { Ok(m) => m, Err(_) => { c.note("find_err", 1); continue; } };
        c.ev(1 + ma.len() as u64);
        ensure!(ma == mb, "add_bytes_vs_add_byte", "at {q} (max {maxl}): fed by add_bytes -> {:?}; fed by add_byte -> {:?}", ma.iter().map(|m| (m.distance, m.length)).collect::<Vec<_>>(), mb.iter().map(|m| (m.distance, m.length)).collect::<Vec<_>>());
        for m in &ma {
            found += 1;
            let okr = m.input_position == q && m.distance >= 1 && m.distance <= q && m.length >= 1 && q + m.length <= x.len() && m.length <= maxl.max(1);
            ensure!(okr, "local_match_range", "at {q} (max {maxl}, input len {}): {m:?}", x.len());
            let bad_i = (0..m.length).find(|&i| x[q + i] != x[q + i - m.distance]);
            ensure!(bad_i.is_none(), "local_match_wrong", "at {q}: match distance {} length {} is not a copy: byte {} differs ({:?})", m.distance, m.length, bad_i.unwrap_or(0), m.compression_type);
            if !m.compression_type.supports(m.distance, m.length) { c.note(&format!("type_not_supports:{:?}", m.compression_type), 1); }
            if ma.len() >= 2 { let _ = ma[0].is_better_than(&ma[1]); }
        }
    }
    let st = a.stats(); c.note("searches", st.searches_performed); let _ = (st.match_success_ratio(), st.search_efficiency(), a.config().window_size);
    // clear(): back to the empty state, then usable again from position 0
    a.clear(); ensure!(a.window_size() == 0 && !a.is_window_full(), "window_size", "after clear(): window_size {}", a.window_size());
    let k = x.len().min(200); nopanic("add_bytes", || a.add_bytes(&x[..k], 0))?.map_err(|e| bad("add_err", format!("after clear: {e}")))?;
    if k < x.len() { if let Ok(ms) = nopanic("find_matches", || a.find_matches(&x, k, 300))? { for m in &ms { found += 1; let okr = m.distance >= 1 && m.distance <= k && k + m.length <= x.len(); ensure!(okr && (0..m.length).all(|i| x[k + i] == x[k + i - m.distance]), "local_match_wrong", "after clear() + {k} bytes: {m:?} is not a copy"); } } }
    a.reset_stats();
    c.note("matches", found); c.set_nontrivial(found > 0);
    Ok(())
}

// ---- compression::suffix_array (EnhancedSuffixArray) against naive search
fn sa_cfg(name: &str) -> SuffixArrayConfig { match name { "dict" => SuffixArrayConfig::for_dictionary_compression(), "large" => SuffixArrayConfig::for_large_text(), "realtime" => SuffixArrayConfig::for_realtime(), _ => SuffixArrayConfig::default() } }
fn sarray_case(c: &mut Case, name: &str) -> Res {
    let k = *c.rng.pick(&[0u32, 2, 5, 8, 9, 10, 12]); let n = *c.rng.pick(&[0usize, 1, 2, 3, 17, 100, 255, 256, 257, 700]); let n = if c.rng.bool() { n } else { c.rng.usize_below(900) };
    let text = gen::bytes_kind(&mut c.rng, k % gen::BYTE_KINDS, n); c.input_str("kind", gen::byte_kind_name(k % gen::BYTE_KINDS)); c.input("text", &text);
    c.set_nontrivial(false);
    let comp = match nopanic("SuffixArrayCompressor::new", || SuffixArrayCompressor::new(sa_cfg(name)))? { Ok(s) => s, Err(e) => return inconclusive(format!("pool: {e}")) };
    let _ = (comp.config().compute_lcp, comp.memory_pool().is_some());
    let sa = match nopanic("build_suffix_array", || comp.build_suffix_array(&text))? { Ok(s) => s, Err(e) => { c.note("build_err", 1); c.log(format!("{e}")); return Ok(()); } };
    c.set_nontrivial(n >= 2);
    ensure!(sa.text_len() == n && sa.len() == n && sa.is_empty() == (n == 0), "sa_len", "text len {n}: text_len {} len {} is_empty {}", sa.text_len(), sa.len(), sa.is_empty());
    let mut want: Vec<usize> = (0..n).collect(); want.sort_by(|&a, &b| text[a..].cmp(&text[b..]));
    let got: Vec<Option<usize>> = (0..n).map(|r| sa.suffix_at_rank(r)).collect(); c.ev(1);
    if let Some(r) = (0..n).find(|&r| got[r] != Some(want[r])) { return fail("sa_order", format!("rank {r}: suffix_at_rank = {:?}, sorted suffixes give {}", got[r], want[r])); }
    ensure!(sa.suffix_at_rank(n).is_none(), "sa_len", "suffix_at_rank({n}) is Some for a text of {n} bytes");
    if sa_cfg(name).compute_lcp { for r in 1..n { let (a, b) = (want[r - 1], want[r]); let l = text[a..].iter().zip(text[b..].iter()).take_while(|(p, q)| p == q).count(); let g = sa.lcp_at(r); ensure!(g == Some(l), "sa_lcp", "lcp_at({r}) = {g:?}, suffixes {a} and {b} share {l} bytes"); } c.ev(1); } else { c.note(if sa.lcp_at(0).is_none() { "lcp_absent" } else { "lcp_present" }, 1); }
    for _ in 0..12 {
        let pat: Vec<u8> = if n > 0 && c.rng.chance(3, 4) { let s = c.rng.usize_below(n); let l = 1 + c.rng.usize_below(8.min(n - s)); let mut p = text[s..s + l].to_vec(); if c.rng.chance(1, 5) { p.push(c.rng.next() as u8); } p } else { let l = c.rng.usize_below(4); c.rng.bytes(l) };
        let naive: Vec<usize> = if pat.is_empty() { vec![] } else { (0..n.saturating_sub(pat.len() - 1)).filter(|&i| text[i..].starts_with(&pat)).collect() };
        let f = nopanic("find_pattern", || sa.find_pattern(&text, &pat))?; let cnt = sa.count_pattern(&text, &pat); let (lo, hi) = sa.find_pattern_range(&text, &pat); c.ev(3);
        ensure!(f == naive, "sa_find_pattern", "pattern {}: find_pattern {:?}, naive {:?}", gen::hex(&pat), &f[..f.len().min(8)], &naive[..naive.len().min(8)]);
        ensure!(cnt == naive.len(), "sa_find_pattern", "pattern {}: count_pattern {cnt}, naive {}", gen::hex(&pat), naive.len());
        ensure!(hi >= lo && hi - lo == naive.len() && hi <= n, "sa_find_pattern", "pattern {}: find_pattern_range ({lo}, {hi}), naive count {}", gen::hex(&pat), naive.len());
    }
    let _ = (sa.stats().final_memory_used, sa.memory_usage(), sa.compression_ratio());
    Ok(())
}

// ---- SuffixArrayDictionary: find_all_matches, the concurrent wrapper, serialize/deserialize/save/load
fn dict_text_and_cfg(c: &mut Case) -> (Vec<u8>, SuffixArrayDictionaryConfig) {
    let k = *c.rng.pick(&[10u32, 0, 5, 9, 12, 8]); let dlen = 16 + c.rng.usize_below(5000);
    let t = gen::bytes_kind(&mut c.rng, k, dlen); c.input_str("dict_kind", gen::byte_kind_name(k)); c.input("dict_text", &t);
    let cfg = SuffixArrayDictionaryConfig { min_frequency: *c.rng.pick(&[1u32, 2, 4]), ..Default::default() };
    (t, cfg)
}
fn dict_queries_case(c: &mut Case) -> Res {
    let (text, cfg) = dict_text_and_cfg(c); c.set_nontrivial(false);
    let (minp, maxp) = (cfg.min_pattern_length, cfg.max_pattern_length);
    let mut d = match nopanic("SuffixArrayDictionary::new", || SuffixArrayDictionary::new(&text, cfg.clone()))? { Ok(d) => d, Err(e) => { c.note("dict_build_err", 1); c.log(format!("{e}")); return Ok(()); } };
    let cd = match nopanic("ConcurrentSuffixArrayDictionary::new", || ConcurrentSuffixArrayDictionary::new(&text, cfg.clone()))? { Ok(d) => d, Err(e) => return fail("concurrent_ctor", format!("plain constructor accepted, concurrent wrapper refused: {e}")) };
    let dt = d.dictionary_text().to_vec(); let _ = d.is_external_mode();
    let mut hits = 0u64;
    for _ in 0..10 {
        let s = c.rng.usize_below(dt.len()); let l = (minp.max(1) + c.rng.usize_below(30)).min(dt.len() - s); let mut pat = dt[s..s + l].to_vec(); if c.rng.chance(1, 5) && !pat.is_empty() { let i = c.rng.usize_below(pat.len()); pat[i] ^= 0x55; }
        let maxm = *c.rng.pick(&[0usize, 1, 2, 5, 1000]);
        let ms = match nopanic("find_all_matches", || d.find_all_matches(&pat, maxm))? { Ok(m) => m, Err(e) => { c.note("find_all_err", 1); c.log(format!("{e}")); continue; } };
        let naive: Vec<usize> = if pat.is_empty() { vec![] } else { (0..dt.len().saturating_sub(pat.len() - 1)).filter(|&i| dt[i..].starts_with(&pat)).collect() };
        c.ev(1);
        for m in &ms { ensure!(m.length == pat.len() && dt.get(m.dict_position..m.dict_position + m.length) == Some(&pat[..]), "find_all_wrong", "pattern {} (len {}): reported occurrence at {} length {} is not one", gen::abbrev(&pat), pat.len(), m.dict_position, m.length); }
        let mut ps: Vec<usize> = ms.iter().map(|m| m.dict_position).collect(); let sorted = ps.windows(2).all(|w| w[0] <= w[1]); c.note(if sorted { "find_all_sorted" } else { "find_all_unsorted" }, 1); ps.sort(); ps.dedup();
        ensure!(ps.len() == ms.len(), "find_all_wrong", "pattern {}: duplicate positions among {} matches", gen::abbrev(&pat), ms.len());
        if pat.len() >= minp && pat.len() <= maxp { ensure!(ms.len() == naive.len().min(maxm), "find_all_count", "pattern {} (len {}): {} matches returned, the dictionary text contains {} occurrences, max_matches {maxm}", gen::abbrev(&pat), pat.len(), ms.len(), naive.len()); hits += ms.len() as u64; }
        else { ensure!(ms.is_empty(), "find_all_count", "pattern length {} outside [{minp}, {maxp}] returned {} matches", pat.len(), ms.len()); }
    }
    // wrapper == plain, and the reported match is a real one
    for _ in 0..10 {
        let inp: Vec<u8> = { let s = c.rng.usize_below(dt.len()); let l = (1 + c.rng.usize_below(120)).min(dt.len() - s); let mut v = dt[s..s + l].to_vec(); let e = c.rng.usize_below(6); v.extend(c.rng.bytes(e)); v };
        let pos = if c.rng.chance(1, 4) { c.rng.usize_below(inp.len() + 2) } else { 0 }; let maxl = *c.rng.pick(&[4usize, 16, 256, 100_000]);
        let a = nopanic("find_longest_match", || d.find_longest_match(&inp, pos, maxl))?; let b = nopanic("Concurrent::find_longest_match", || cd.find_longest_match(&inp, pos, maxl))?;
        c.ev(1);
        let key = |r: &zipora::error::Result<Option<zipora::compression::dict_zip::PatternMatch>>| match r { Ok(Some(m)) => format!("Some(len {}, dict {}, in {})", m.length, m.dict_position, m.input_position), Ok(None) => "None".into(), Err(_) => "Err".into() };
        ensure!(key(&a) == key(&b), "concurrent_vs_plain", "find_longest_match(input len {}, pos {pos}, max {maxl}): plain {} wrapper {}", inp.len(), key(&a), key(&b));
        if let Ok(Some(m)) = a { hits += 1; let ok = pos + m.length <= inp.len() && dt.get(m.dict_position..m.dict_position + m.length) == Some(&inp[pos..pos + m.length]); ensure!(ok, "dict_match_wrong", "find_longest_match(input {} pos {pos}): length {} at dict {} is not an occurrence", gen::abbrev(&inp), m.length, m.dict_position); }
    }
    let st = d.match_stats().clone(); let _ = (st.cache_hit_ratio(), st.avg_search_time_us(), d.cache_hit_ratio(), cd.match_stats().map(|s| s.total_searches).unwrap_or(0)); d.reset_stats();
    ensure!(d.match_stats().total_searches == 0, "reset_stats", "match_stats().total_searches = {} after reset_stats()", d.match_stats().total_searches);
    c.set_nontrivial(hits > 0);
    Ok(())
}
fn pz_new(c: &mut Case, dict: SuffixArrayDictionary, cfg: &PaZipCompressorConfig) -> Result<Option<PaZipCompressor>, Fail> {
    let pool = match SecureMemoryPool::new(SecurePoolConfig::small_secure()) { Ok(p) => p, Err(e) => return Err(Fail { oracle: "inconclusive_pool".into(), detail: format!("{e}") }) };
    match nopanic("PaZipCompressor::new", || PaZipCompressor::new(dict, cfg.clone(), pool))? { Ok(p) => Ok(Some(p)), Err(e) => { c.note("ctor_err", 1); c.log(format!("{e}")); Ok(None) } }
}
fn pz_comp(c: &mut Case, pz: &mut PaZipCompressor, x: &[u8], what: &str) -> Result<Option<(Vec<u8>, PzStats)>, Fail> {
    let mut z = Vec::new();
    match catch(|| pz.compress(x, &mut z)) { Err(p) => Err(bad(&p.class(), format!("{what}: compress panicked at {}: {}", p.loc, p.msg))), Ok(Err(e)) => { c.note("compress_err", 1); c.log(format!("{e}")); Ok(None) } Ok(Ok(st)) => Ok(Some((z, st))) }
}
fn pz_dec(c: &mut Case, pz: &mut PaZipCompressor, z: &[u8], x: &[u8], what: &str) -> Res { let mut d = Vec::new(); let r = catch(|| pz.decompress(z, &mut d)); dec_res(c, what, x, z.len(), r.map(|r| r.map(|_| d))) }
/// dictionary stored externally (serialize / save_to_file) and loaded again: either side must decode what the other side wrote
fn pazip_serde_case(c: &mut Case, via_file: bool) -> Res {
    let (text, cfg) = dict_text_and_cfg(c);
    let mut x = Vec::new(); let want = 100 + c.rng.usize_below(2000);
    while x.len() < want { if c.rng.chance(3, 4) { let a = c.rng.usize_below(text.len()); let n = (6 + c.rng.usize_below(200)).min(text.len() - a); x.extend_from_slice(&text[a..a + n]); } else { let n = 1 + c.rng.usize_below(12); let f = c.rng.bytes(n); x.extend(f); } }
    c.input("x", &x); let preset = *c.rng.pick(&["default", "fast", "high", "realtime"]); c.input_str("preset", preset); c.input_str("via", if via_file { "file" } else { "bytes" });
    c.set_nontrivial(false);
    let dict = match nopanic("SuffixArrayDictionary::new", || SuffixArrayDictionary::new(&text, cfg))? { Ok(d) => d, Err(e) => { c.note("dict_build_err", 1); c.log(format!("{e}")); return Ok(()); } };
    let dict2 = if via_file {
        let path = std::env::temp_dir().join(format!("zv_c02_{}_{:016x}.dict", std::process::id(), c.rng.next()));
        let r = nopanic("save_to_file", || dict.save_to_file(&path))?; if let Err(e) = r { let _ = std::fs::remove_file(&path); c.note("save_err", 1); c.log(format!("{e}")); return Ok(()); }
        let l = nopanic("load_from_file", || SuffixArrayDictionary::load_from_file(&path)); let _ = std::fs::remove_file(&path);
        match l? { Ok(d) => d, Err(e) => return fail("dict_load_err", format!("load_from_file(save_to_file(dict of {} B)): {e}", dict.dictionary_size())) }
    } else {
        let ser = match nopanic("serialize", || dict.serialize())? { Ok(s) => s, Err(e) => { c.note("serialize_err", 1); c.log(format!("{e}")); return Ok(()); } };
        match nopanic("deserialize", || SuffixArrayDictionary::deserialize(&ser))? { Ok(d) => d, Err(e) => return fail("dict_load_err", format!("deserialize(serialize(dict of {} B; {} B serialized)): {e}", dict.dictionary_size(), ser.len())) }
    };
    c.ev(1); ensure!(dict2.dictionary_text() == dict.dictionary_text(), "dict_load_text", "loaded dictionary text differs: {}", diff(dict2.dictionary_text(), dict.dictionary_text()));
    let pcfg = pazip_cfg(preset);
    let (mut a, mut b) = match (pz_new(c, dict, &pcfg)?, pz_new(c, dict2, &pcfg)?) { (Some(a), Some(b)) => (a, b), _ => return Ok(()) };
    if let Some((z, _)) = pz_comp(c, &mut a, &x, "original dictionary")? { pz_dec(c, &mut b, &z, &x, "compressed with the original dictionary, decompressed with the loaded one")?; c.set_nontrivial(true); }
    if let Some((z, _)) = pz_comp(c, &mut b, &x, "loaded dictionary")? { pz_dec(c, &mut a, &z, &x, "compressed with the loaded dictionary, decompressed with the original one")?; pz_dec(c, &mut b, &z, &x, "loaded dictionary, same object")?; }
    Ok(())
}
/// PaZipCompressorConfig::balanced; a clone / a stats reset between compress and decompress must not matter
fn pazip_balanced_case(c: &mut Case) -> Res {
    let fam = c.rng.usize_below(NFAM); c.input_str("fam", fam_name(fam)); let x = gen_payload(c, fam, 3000);
    let train: Vec<u8> = if c.rng.bool() && !x.is_empty() { x.clone() } else { let l = 300 + c.rng.usize_below(3000); gen::related_bytes(&mut c.rng, &x, l) }; c.input("train", &train);
    let dc = DictionaryBuilderConfig { target_dict_size: 2048, max_dict_size: 4096, validate_result: true, sample_ratio: 1.0, use_parallel: false, enable_progress: false, ..Default::default() };
    c.set_nontrivial(false);
    let dict = match nopanic("DictionaryBuilder::build", || DictionaryBuilder::with_config(dc).build(&train))? { Ok(d) => d, Err(e) => { c.note("dict_build_err", 1); c.log(format!("{e}")); return Ok(()); } };
    let mut pz = match pz_new(c, dict, &PaZipCompressorConfig::balanced())? { Some(p) => p, None => return Ok(()) };
    match nopanic("validate", || pz.validate())? { Ok(()) => c.note("validate_ok", 1), Err(_) => c.note("validate_err", 1) }
    let (z, st) = match pz_comp(c, &mut pz, &x, "PaZip(balanced)")? { Some(v) => v, None => return Ok(()) };
    let mut twin = pz.clone();
    ensure!(pz.stats().bytes_processed >= st.bytes_processed || x.is_empty(), "stats", "stats().bytes_processed {} < {} returned by compress", pz.stats().bytes_processed, st.bytes_processed);
    let _ = (pz.dictionary_stats().total_searches, pz.local_matcher_stats().searches_performed, pz.cache_stats().is_ok());
    let mut sum = st.clone(); sum.merge(&st); ensure!(sum.bytes_processed == 2 * st.bytes_processed && sum.bytes_output == 2 * st.bytes_output && sum.compression_type_usage.iter().zip(st.compression_type_usage.iter()).all(|(a, b)| *a == 2 * *b), "stats_merge", "merge of {st:?} with itself gave {sum:?}");
    pz.reset_stats(); ensure!(pz.stats().bytes_processed == 0, "stats", "bytes_processed {} after reset_stats()", pz.stats().bytes_processed);
    pz_dec(c, &mut pz, &z, &x, "PaZip(balanced) after reset_stats()")?;
    pz_dec(c, &mut twin, &z, &x, "PaZip(balanced): decompress by a clone taken after compress")?;
    if let Some((z2, _)) = pz_comp(c, &mut twin, &x, "clone")? { pz_dec(c, &mut pz, &z2, &x, "compressed by the clone, decompressed by the original")?; }
    c.set_nontrivial(!x.is_empty());
    Ok(())
}

// ---- native SIMD LZ77 configured with a dictionary
fn simd_dict_case(c: &mut Case) -> Res {
    let (text, cfg) = dict_text_and_cfg(c);
    let x = simd_payload(c);
    let dict = match nopanic("SuffixArrayDictionary::new", || SuffixArrayDictionary::new(&text, cfg))? { Ok(d) => d, Err(e) => { c.note("dict_build_err", 1); c.set_nontrivial(false); c.log(format!("{e}")); return Ok(()); } };
    let scfg = SimdLz77Config::with_dictionary(Arc::new(dict), Arc::new(text.clone()));
    let mut s = match nopanic("SimdLz77Compressor::with_config", || Native::with(scfg))? { Ok(s) => s, Err(e) => { c.note("ctor_err", 1); c.set_nontrivial(false); c.log(format!("{e}")); return Ok(()); } };
    ensure!(s.0.has_dictionary(), "has_dictionary", "compressor built from SimdLz77Config::with_dictionary reports has_dictionary() == false");
    c.note(&format!("tier:{}", s.0.compression_tier().name()), 1); let _ = (s.0.compression_tier().performance_multiplier(), s.0.parallel_mode().stream_count(), s.0.config().dictionary_config.is_some());
    let z = match comp_res(c, "compress_with_dictionary", catch(|| SimdLz77Compressor::compress_with_dictionary(&mut s.0, &x)))? { Some(z) => z, None => { c.set_nontrivial(false); return Ok(()); } };
    let st = s.0.stats().clone(); let _ = (st.compression_ratio(), st.avg_compression_throughput(), st.avg_decompression_throughput(), st.simd_acceleration_ratio());
    s.0.reset_stats(); let mut st2 = st; st2.reset(); ensure!(s.0.stats().total_compressions == 0 && st2.total_compressions == 0, "stats", "total_compressions not 0 after reset");
    dec_res(c, "SimdLz77Compressor(with_dictionary)", &x, z.len(), catch(|| s.decompress(&z)))
}

// ---- real-time front end: builder, with_mode, set_mode
const RT_MODES: [CompressionMode; 4] = [CompressionMode::UltraLowLatency, CompressionMode::LowLatency, CompressionMode::Balanced, CompressionMode::HighCompression];
fn rt_roundtrip(c: &mut Case, rt: &tokio::runtime::Runtime, rtc: &RealtimeCompressor, x: &[u8], what: &str) -> Result<Option<Vec<u8>>, Fail> {
    let f0 = rtc.stats().fallback_operations;
    let z = catch(|| rt.block_on(async { rtc.compress_with_deadline(x, Instant::now() + Duration::from_secs(3600)).await })).map_err(|p| bad(&p.class(), format!("{what}: compress panicked at {}: {}", p.loc, p.msg)))?;
    let z = match z { Ok(z) => z, Err(e) => { c.note("compress_err", 1); c.log(format!("{e}")); return Ok(None); } };
    if rtc.stats().fallback_operations > f0 { c.note("wallclock_fallback", 1); }
    let d = catch(|| rt.block_on(async { rtc.decompress(&z).await }));
    dec_res(c, what, x, z.len(), d)?;
    Ok(Some(z))
}
fn rt_ctor_case(c: &mut Case, how: &str) -> Res {
    let mode = *c.rng.pick(&RT_MODES); let x = rt_payload(c); c.set_nontrivial(false);
    let rtc = if how == "with_mode" { c.input_str("cfg", &format!("with_mode({mode:?})")); nopanic("RealtimeCompressor::with_mode", || RealtimeCompressor::with_mode(mode))? } else {
        let (k, dl, fb, bs) = (1 + c.rng.usize_below(4), c.rng.bool(), c.rng.bool(), 1 + c.rng.usize_below(10)); c.input_str("cfg", &format!("builder mode={mode:?} conc={k} deadlines={dl} fallback={fb} batch={bs}"));
        nopanic("RealtimeCompressorBuilder", || RealtimeCompressorBuilder::new().mode(mode).max_concurrent(k).enable_deadlines(dl).fallback_on_timeout(fb).batch_size(bs).build())? };
    let rtc = match rtc { Ok(r) => r, Err(e) => { c.note("ctor_err", 1); c.log(format!("{e}")); return Ok(()); } };
    let _ = (mode.max_memory_ratio(), rtc.can_meet_deadline(x.len(), Duration::from_millis(1)), rtc.stats().deadline_success_rate());
    let rt = tokio_rt(false);
    let ok = rt_roundtrip(c, &rt, &rtc, &x, &format!("realtime {how} {mode:?}"))?.is_some();
    c.set_nontrivial(ok && !x.is_empty());
    Ok(())
}
fn rt_set_mode_case(c: &mut Case) -> Res {
    let m1 = *c.rng.pick(&RT_MODES); let m2 = *c.rng.pick(&RT_MODES); c.input_str("modes", &format!("{m1:?} -> {m2:?}"));
    let x1 = rt_payload(c); let x2 = rt_payload(c); c.set_nontrivial(false);
    let rtc = match nopanic("RealtimeCompressor::with_mode", || RealtimeCompressor::with_mode(m1))? { Ok(r) => r, Err(e) => { c.note("ctor_err", 1); c.log(format!("{e}")); return Ok(()); } };
    let rt = tokio_rt(false);
    let z1 = rt_roundtrip(c, &rt, &rtc, &x1, &format!("realtime {m1:?} before set_mode"))?;
    match nopanic("set_mode", || rtc.set_mode(m2))? { Ok(()) => {} Err(e) => { c.note("set_mode_err", 1); c.log(format!("{e}")); return Ok(()); } }
    // blocks written after the switch round-trip
    let ok = rt_roundtrip(c, &rt, &rtc, &x2, &format!("realtime after set_mode({m1:?} -> {m2:?})"))?.is_some();
    c.set_nontrivial(ok && !x2.is_empty());
    // a block written BEFORE the switch: set_mode's documentation does not say whether it stays readable -> note only
    if let Some(z1) = z1 { let d = catch(|| rt.block_on(async { rtc.decompress(&z1).await })); c.note(match d { Ok(Ok(ref d)) if *d == x1 => "earlier_block_after_switch:ok", Ok(Ok(_)) => "earlier_block_after_switch:wrong_data", Ok(Err(_)) => "earlier_block_after_switch:err", Err(_) => "earlier_block_after_switch:panic" }, 1); }
    Ok(())
}

// ---- adaptive front end through default_with_requirements; factory selector; Huffman stored table
fn adaptive_dwr_case(c: &mut Case) -> Res {
    let req = PerformanceRequirements { speed_vs_quality: *c.rng.pick(&[0.0f64, 0.5, 1.0]), max_latency: *c.rng.pick(&[Duration::from_nanos(1), Duration::from_millis(100), Duration::from_secs(10)]), ..Default::default() };
    c.input_str("req", &format!("svq={} lat={:?}", req.speed_vs_quality, req.max_latency));
    let nblocks = 20 + c.rng.usize_below(120); let blocks = gen_blocks(c, nblocks, 400, false); c.set_nontrivial(false);
    let ac = match nopanic("AdaptiveCompressor::default_with_requirements", || AdaptiveCompressor::default_with_requirements(req))? { Ok(a) => a, Err(e) => { c.note("ctor_err", 1); c.log(format!("{e}")); return Ok(()); } };
    if c.rng.bool() { let s: Vec<(&[u8], &str)> = blocks.iter().take(4).enumerate().map(|(i, b)| (b.as_slice(), if i % 2 == 0 { "even" } else { "odd" })).collect(); let _ = nopanic("train", || ac.train(&s))?; c.note("trained", 1); c.note(&format!("profiles:{}", ac.profiles().len().min(3)), 1); } else { c.note(&format!("profiles:{}", ac.profiles().len().min(3)), 1); }
    let mut zs = Vec::with_capacity(blocks.len());
    for (i, b) in blocks.iter().enumerate() { zs.push(comp_res(c, &format!("adaptive(default_with_requirements) block {i}"), catch(|| ac.compress(b)))?); }
    let mut ok = 0;
    for (i, (b, z)) in blocks.iter().zip(zs.iter()).enumerate() { if let Some(z) = z { dec_res(c, &format!("adaptive(default_with_requirements) block {i}/{}", blocks.len()), b, z.len(), catch(|| ac.decompress(z)))?; ok += 1; } }
    c.set_nontrivial(ok >= 1);
    Ok(())
}
fn select_best_case(c: &mut Case) -> Res {
    let req = PerformanceRequirements { speed_vs_quality: *c.rng.pick(&[0.0f64, 0.25, 0.5, 0.9, 1.0]), max_latency: *c.rng.pick(&[Duration::from_nanos(1), Duration::from_millis(1), Duration::from_secs(10), Duration::from_secs(100_000)]), max_memory: *c.rng.pick(&[0usize, 4096, 1 << 20, 1 << 30, usize::MAX / 4]), ..Default::default() };
    c.input_str("req", &format!("svq={} lat={:?} mem={}", req.speed_vs_quality, req.max_latency, req.max_memory));
    let fam = c.rng.usize_below(NFAM); let x = gen_payload(c, fam, 2048);
    let alg = nopanic("CompressorFactory::select_best", || CompressorFactory::select_best(&req, &x))?;
    c.note(&format!("selected:{}", alg_name(alg)), 1); let _ = (alg.compression_speed(), alg.compression_ratio(), alg.memory_usage());
    // whatever the selector returns must be usable without training data (it skips the trained algorithms for that reason) -- Err from create stays a refusal
    let t = if alg == Algorithm::Hybrid { Some(x.clone()) } else { None };
    factory_case(c, alg, &x, t.as_deref())
}
fn huffman_tree_case(c: &mut Case) -> Res {
    let fam = c.rng.usize_below(NFAM); let x = gen_payload(c, fam, 3000); let mode = *c.rng.pick(&["same", "other_full", "related_sup"]); let t = gen_training(c, mode, &x);
    c.set_nontrivial(false);
    let h = match nopanic("HuffmanCompressor::new", || HuffmanCompressor::new(&t))? { Ok(h) => h, Err(e) => { c.note("ctor_err", 1); c.log(format!("{e}")); return Ok(()); } };
    let z = match comp_res(c, "HuffmanCompressor", catch(|| h.compress(&x)))? { Some(z) => z, None => return Ok(()) };
    c.set_nontrivial(!x.is_empty());
    if !x.is_empty() { let td = h.tree_data(); c.ev(1);
        let stored = z.len() >= 4 && { let n = u32::from_le_bytes([z[0], z[1], z[2], z[3]]) as usize; n == td.len() && z.get(4..4 + n) == Some(td) };
        ensure!(stored, "stored_table", "compressed frame does not carry tree_data() ({} B) behind its 4-byte size field; frame starts {}", td.len(), gen::hex(&z[..z.len().min(12)])); }
    dec_res(c, "HuffmanCompressor (direct)", &x, z.len(), catch(|| h.decompress(&z)))
}

fn run_gap(ctx: &mut Ctx) {
    for t in 0..8u8 { for idx in 0..ctx.n(25, 600) as u64 { ctx.case(&format!("refenc/{}", VARIANTS[t as usize]), "ref_single", idx, |c| refenc_case(c, Some(t))); } }
    for idx in 0..ctx.n(150, 4000) as u64 { ctx.case("refenc/seq_mixed", "ref_seq", idx, |c| refenc_case(c, None)); }
    for idx in 0..ctx.n(100, 3000) as u64 { ctx.case("refenc/primitives", "var_uint", idx, refenc_prims_case); }
    for idx in 0..ctx.n(300, 8000) as u64 { ctx.case("types/choose_best", "grid", idx, types_case); }
    for name in ["default", "fast", "max", "realtime", "tinywin"] { for idx in 0..ctx.n(40, 600) as u64 { ctx.case(&format!("localmatch/{name}"), "sound", idx, |c| localmatch_case(c, name)); } }
    for name in ["default", "dict", "large", "realtime"] { for idx in 0..ctx.n(25, 400) as u64 { ctx.case(&format!("sarray/{name}"), "queries", idx, |c| sarray_case(c, name)); } }
    for idx in 0..ctx.n(40, 600) as u64 { ctx.case("dict/queries", "find_all_concurrent", idx, dict_queries_case); }
    for idx in 0..ctx.n(30, 400) as u64 { ctx.case("pazip/loaded_dict", "serde_bytes", idx, |c| pazip_serde_case(c, false)); }
    for idx in 0..ctx.n(16, 200) as u64 { ctx.case("pazip/loaded_dict", "serde_file", idx, |c| pazip_serde_case(c, true)); }
    for idx in 0..ctx.n(12, 300) as u64 { ctx.case("pazip/balanced", "clone_reset", idx, pazip_balanced_case); }
    for idx in 0..ctx.n(8, 100) as u64 { ctx.case("simdlz77/with_dictionary", "dict", idx, simd_dict_case); }
    for how in ["with_mode", "builder"] { for idx in 0..ctx.n(24, 400) as u64 { ctx.case(&format!("rt/{how}"), "ctor", idx, |c| rt_ctor_case(c, how)); } }
    for idx in 0..ctx.n(30, 500) as u64 { ctx.case("rt/set_mode", "switch", idx, rt_set_mode_case); }
    for idx in 0..ctx.n(6, 60) as u64 { ctx.case("adaptive/default_with_requirements", "stream", idx, adaptive_dwr_case); }
    for idx in 0..ctx.n(40, 800) as u64 { ctx.case("factory/select_best", "selected", idx, select_best_case); }
    for idx in 0..ctx.n(30, 600) as u64 { ctx.case("factory/huffman", "tree_data_framing", idx, huffman_tree_case); }
}

pub fn run(ctx: &mut Ctx) {
    if std::env::var("ZV_C02_DBG").is_ok() { run_dbg(ctx); return; }
    run_bits(ctx);
    run_factory(ctx);
    run_realtime(ctx);
    run_adaptive(ctx);
    run_pazip(ctx);
    run_simd(ctx);
    run_gap(ctx);
}
