//! C15 — decoders and loaders reject malformed bytes with an error, never a crash.
//!
//! Level: fault_enumeration. For every parser (target) a case = one valid encoding + one family of mutants
//! (`trunc` every length, `subst` every position x {00,FF,b^01,b^80}, `field_small`/`field_max` every 2/4/8-byte
//! field set to 0/1 resp. 0x7F../0xFF.., `tail` appended garbage / splices / multi-byte substitution,
//! `explen_near`/`explen_huge` expected-length arguments) plus `small` (every byte string of length 0..2) and `rand`.
//! Refuting events per parser call: panic (caught, class `panic:<file>:<msg>`), a single allocation request larger than
//! 64 MiB + 4096*input_len (`huge_alloc`), and - because the mutants of a case are executed in a forked child with its
//! own address-space and CPU limits - abort / SIGSEGV / SIGBUS / SIGILL / CPU limit, attributed to exactly one mutant
//! (BEGIN markers over a pipe); the batch resumes after a death. `Ok(anything)` and `Err` are both `held`.
//! Large-input families `huge_trunc` / `huge_field` (1 case each per target at quick tier): valid encodings of 65 551 .. 1 048 577 payload bytes or
//! 65 537 .. 200 000 elements (shapes: dominant symbol, all-equal, > 1000:1 compressible runs / short periods, X c X d, small-alphabet random; hand-built
//! extreme-ratio LZ / PA-Zip / match streams where the real compressor is super-linear), truncated at and around every 64 KiB chunk boundary, at 2^20 +- 1
//! and near the end, substituted at the chunk boundaries, extended by a whole extra chunk; header / count / length fields maximised, +-1 and +65536.
//! Set ZV_C15_INPROC=1 to run everything in-process (the worker itself is sacrificial then).
use crate::ctx::{self, catch, Case, Ctx, Fail, Res};
use crate::gen;
use crate::rng::Rng;
use std::collections::{BTreeMap, BTreeSet, HashMap, HashSet};
use std::io::{Cursor, Read};
use std::path::PathBuf;
use std::rc::Rc;
use std::sync::Arc;

use zipora::blob_store::{BlobStore, ZReorderMap, ZReorderMapBuilder, ZipOffsetBlobStore};
use zipora::compression::dict_zip::compression_types as ct;
use zipora::compression::dict_zip::{DictionaryBuilder as SaDictBuilder, DictionaryBuilderConfig, PaZipCompressor, PaZipCompressorConfig, SuffixArrayDictionary};
use zipora::compression::simd_lz77::{decompress_with_simd_lz77, SimdLz77Compressor, SimdLz77CompressorX1, SimdLz77CompressorX2, SimdLz77CompressorX4, SimdLz77CompressorX8, SimdLz77Config};
use zipora::compression::{Algorithm, CompressorFactory};
use zipora::entropy::dictionary::{Dictionary, DictionaryBuilder, DictionaryCompressor, OptimizedDictionaryCompressor};
use zipora::entropy::fse::{fse_decompress, fse_unzip, FseConfig, FseDecoder, FseEncoder};
use zipora::entropy::huffman::{ContextualHuffmanDecoder, ContextualHuffmanEncoder, HuffmanDecoder, HuffmanEncoder, HuffmanOrder, HuffmanTree};
use zipora::entropy::rans::{ParallelVariant, ParallelX1, ParallelX2, ParallelX4, ParallelX8, Rans64Decoder, Rans64Encoder};
use zipora::io::{ComplexSerialize, ComplexTypeConfig, ComplexTypeSerializer, DataInput, DataOutput, MmapDataInput, ReaderDataInput, SerializableType, SignedVarInt, SliceDataInput, SmartPtrSerialize, SmartPtrSerializer, VarInt, VarIntEncoder, VarIntStrategy, VecDataOutput};
use zipora::memory::{MmapVec, MmapVecConfig, SecureMemoryPool, SecurePoolConfig};
use zipora::string::{hex_decode, hex_decode_bytes, hex_decode_to_slice, hex_encode, is_valid_hex, parse_hex_byte};
use zipora::system::base64::{base64_decode_simd, AdaptiveBase64, Base64Config, SimdBase64Decoder};

const MIB: usize = 1 << 20;
/// parser under test: (bytes, expected-length argument) -> Ok(true)=accepted, Ok(false)=rejected with Err, Err=driver-detected violation
type R = Result<bool, Fail>;
type Run = Box<dyn FnMut(&[u8], usize) -> R>;
pub struct Valid { bytes: Vec<u8>, explen: usize, run: Run, info: String }
type MkRes = Result<Valid, String>;
fn valid(bytes: Vec<u8>, explen: usize, info: String, run: Run) -> MkRes { Ok(Valid { bytes, explen, run, info }) }
fn e2s<E: std::fmt::Display>(e: E) -> String { let s = e.to_string(); s.chars().take(120).collect() }
fn ok<T, E>(r: Result<T, E>) -> R { Ok(r.is_ok()) }

#[derive(Clone, Copy, PartialEq)]
enum Cost { Fast, Med, Slow }
struct Tgt { id: &'static str, cost: Cost, explen: bool, text: bool, alloc_base: usize, max_size: usize, share: usize, make: fn(&mut Rng, usize) -> MkRes }
const fn t(id: &'static str, cost: Cost, explen: bool, max_size: usize, make: fn(&mut Rng, usize) -> MkRes) -> Tgt { Tgt { id, cost, explen, text: false, alloc_base: 0, max_size, share: 100, make } }
/// configuration variants of one decode path get a reduced share of the encodings
fn sh(mut t: Tgt, share: usize) -> Tgt { t.share = share; t }

// ---------------------------------------------------------------------------------------------
// payload generators
// ---- large-input mode (families `huge_*`): the makers lift their size clamps and the payload generators produce the shapes below
thread_local! { static HUGE_MODE: std::cell::Cell<Option<u32>> = const { std::cell::Cell::new(None) }; }
fn huge() -> Option<u32> { HUGE_MODE.with(|h| h.get()) }
/// element / byte count: `n` in large-input mode, else the small-scope clamp
fn lim(n: usize, small: usize) -> usize { if huge().is_some() { n } else { n.min(small) } }
const HUGE_SHAPES: [&str; 5] = ["dominant_symbol", "all_equal", "long_runs_short_periods", "XcXd", "small_alphabet_random"];
/// shapes at sizes > 64 KiB: one dominant symbol (60-99 %, count > 65535), all-equal, > 1000:1 compressible, X c X d with |X| ~ n/2, random
fn shaped(r: &mut Rng, shape: u32, n: usize) -> Vec<u8> {
    match shape % 5 {
        0 => { let d = r.next() as u8; let pct = 60 + r.below(40); let an = 1 + r.usize_below(12); let alpha = r.bytes(an); (0..n).map(|_| if r.below(100) < pct { d } else { *r.pick(&alpha) }).collect() }
        1 => vec![r.next() as u8; n],
        2 => { let mut out = Vec::with_capacity(n); while out.len() < n { if r.bool() { let b = r.next() as u8; let l = 4096 + r.usize_below(70000); for _ in 0..l { if out.len() < n { out.push(b); } } } else { let pn = 1 + r.usize_below(4); let p = r.bytes(pn); let l = 4096 + r.usize_below(70000); for i in 0..l { if out.len() < n { out.push(p[i % p.len()]); } } } } out }
        3 => { let h = n.saturating_sub(2) / 2; let a = r.bytes(16); let x: Vec<u8> = (0..h).map(|_| *r.pick(&a)).collect(); let mut out = x.clone(); out.push(b'c'); out.extend_from_slice(&x); out.push(b'd'); while out.len() < n { out.push(b'e'); } out.truncate(n.max(1)); out }
        _ => { let an = 2 + r.usize_below(30); let a = r.bytes(an); (0..n).map(|_| *r.pick(&a)).collect() }
    }
}
fn huge_payload(r: &mut Rng, n: usize) -> Option<(String, Vec<u8>)> { huge().map(|sh| (format!("{}:{}", HUGE_SHAPES[(sh % 5) as usize], n), shaped(r, sh, n))) }
fn payload(r: &mut Rng, n: usize) -> (String, Vec<u8>) { if let Some(x) = huge_payload(r, n) { return x; } let k = r.below(gen::BYTE_KINDS as u64) as u32; (format!("{}:{}", gen::byte_kind_name(k), n), gen::bytes_kind(r, k, n)) }
/// payload with repeated substrings (dictionary / LZ style targets need matches)
fn rep_payload(r: &mut Rng, n: usize) -> (String, Vec<u8>) { if let Some(x) = huge_payload(r, n) { return x; } let k = *r.pick(&[10u32, 8, 9, 5, 1, 3]); (format!("{}:{}", gen::byte_kind_name(k), n), gen::bytes_kind(r, k, n)) }
fn freqs(p: &[u8]) -> [u32; 256] { let mut f = [0u32; 256]; for &b in p { f[b as usize] += 1; } f }

// ---------------------------------------------------------------------------------------------
// temp files (per process)
fn tmp_dir() -> &'static PathBuf {
    static D: std::sync::OnceLock<PathBuf> = std::sync::OnceLock::new();
    D.get_or_init(|| { let base = if std::path::Path::new("/dev/shm").is_dir() { PathBuf::from("/dev/shm") } else { std::env::temp_dir() }; let d = base.join(format!("zv-c15-{}", std::process::id())); let _ = std::fs::create_dir_all(&d); d })
}
fn tmp_path(name: &str) -> PathBuf { static N: std::sync::atomic::AtomicU64 = std::sync::atomic::AtomicU64::new(0); tmp_dir().join(format!("{}-{}", name, N.fetch_add(1, std::sync::atomic::Ordering::Relaxed))) }

// ---------------------------------------------------------------------------------------------
// targets: entropy coders
fn mk_huff_tree(r: &mut Rng, n: usize) -> MkRes {
    let (k, p) = payload(r, n.max(1)); let tree = HuffmanTree::from_data(&p).map_err(e2s)?; let bytes = tree.serialize(); let probe = r.bytes(12);
    valid(bytes, 0, k, Box::new(move |b, _| match HuffmanTree::deserialize(b) { Ok(t) => { let _ = t.max_code_length(); let _ = t.get_code(0); let d = HuffmanDecoder::new(t); let _ = d.decode(&probe, 9); Ok(true) } Err(_) => Ok(false) }))
}
fn mk_huff_decode(r: &mut Rng, n: usize) -> MkRes {
    let (k, p) = payload(r, n.max(1)); let enc = HuffmanEncoder::new(&p).map_err(e2s)?; let bytes = enc.encode(&p).map_err(e2s)?; let dec = HuffmanDecoder::new(enc.tree().clone());
    valid(bytes, p.len(), k, Box::new(move |b, x| ok(dec.decode(b, x))))
}
fn order_of(o: u8) -> HuffmanOrder { match o { 0 => HuffmanOrder::Order0, 1 => HuffmanOrder::Order1, _ => HuffmanOrder::Order2 } }
/// small alphabets keep the number of context trees (and the serialised size) manageable
fn ctx_payload(r: &mut Rng, n: usize) -> (String, Vec<u8>) { if let Some(x) = huge_payload(r, n) { return x; } let k = *r.pick(&[3u32, 4, 1, 8, 6, 0]); let n = n.max(2); (format!("{}:{}", gen::byte_kind_name(k), n), gen::bytes_kind(r, k, n)) }
fn mk_ctxhuff_deser(r: &mut Rng, n: usize, o: u8) -> MkRes {
    let (k, p) = ctx_payload(r, n); let enc = ContextualHuffmanEncoder::new(&p, order_of(o)).map_err(e2s)?; let bytes = enc.serialize(); let probe = r.bytes(6);
    valid(bytes, 0, k, Box::new(move |b, _| match ContextualHuffmanEncoder::deserialize(b) { Ok(e) => { let _ = e.order(); let _ = e.tree_count(); let d = ContextualHuffmanDecoder::new(e); let _ = d.decode(&probe, 5); Ok(true) } Err(_) => Ok(false) }))
}
fn mk_ctxhuff_decode(r: &mut Rng, n: usize, o: u8) -> MkRes {
    let (k, p) = ctx_payload(r, n); let enc = ContextualHuffmanEncoder::new(&p, order_of(o)).map_err(e2s)?; let bytes = enc.encode(&p).map_err(e2s)?; let dec = ContextualHuffmanDecoder::new(enc);
    valid(bytes, p.len(), k, Box::new(move |b, x| ok(dec.decode(b, x))))
}
fn mk_huff_x(r: &mut Rng, n: usize, w: u8) -> MkRes {
    let (k, p) = ctx_payload(r, n); let enc = ContextualHuffmanEncoder::new(&p, HuffmanOrder::Order1).map_err(e2s)?;
    let bytes = match w { 1 => enc.encode_x1(&p), 2 => enc.encode_x2(&p), 4 => enc.encode_x4(&p), _ => enc.encode_x8(&p) }.map_err(e2s)?;
    valid(bytes, p.len(), k, Box::new(move |b, x| ok(match w { 1 => enc.decode_x1(b, x), 2 => enc.decode_x2(b, x), 4 => enc.decode_x4(b, x), _ => enc.decode_x8(b, x) })))
}
fn mk_rans<P: ParallelVariant + 'static>(r: &mut Rng, n: usize) -> MkRes {
    let (k, p) = payload(r, n.max(1)); let enc = Rans64Encoder::<P>::new(&freqs(&p)).map_err(e2s)?; let bytes = enc.encode(&p).map_err(e2s)?; let dec = Box::new(Rans64Decoder::<P>::new(&enc));
    valid(bytes, p.len(), k, Box::new(move |b, x| ok(dec.decode(b, x))))
}
fn mk_fse(r: &mut Rng, n: usize, cfg: fn() -> FseConfig) -> MkRes {
    let (k, p) = payload(r, n.max(1)); let mut e = FseEncoder::new(cfg()).map_err(e2s)?; let bytes = e.compress(&p).map_err(e2s)?;
    valid(bytes, 0, k, Box::new(move |b, _| { let mut d = match FseDecoder::with_config(cfg()) { Ok(d) => d, Err(_) => return Ok(false) }; ok(d.decompress(b)) }))
}
fn mk_fse_fn(r: &mut Rng, n: usize) -> MkRes {
    let (k, p) = payload(r, n.max(1)); let bytes = zipora::entropy::fse::fse_compress(&p).map_err(e2s)?;
    valid(bytes, 0, k, Box::new(move |b, _| { let a = fse_decompress(b).is_ok(); let c = fse_unzip(b).is_ok(); Ok(a || c) }))
}
/// hand-built flag/offset/length stream (format of DictionaryCompressor::compress) that expands to >= `out` bytes with matches <= 258:
/// an extreme-ratio but valid encoding (the real compressor is O(n * 32 KiB) and cannot be run on > 64 KiB payloads within the budget)
fn lz_stream(r: &mut Rng, out: usize) -> Vec<u8> {
    let mut s = Vec::new(); let mut produced = 0usize;
    while produced < out {
        if produced == 0 || r.chance(1, 40) { for _ in 0..1 + r.usize_below(8) { s.push(0); s.push(r.next() as u8); produced += 1; } }
        else { let off = 1 + r.usize_below(produced.min(32768)); let len = if r.chance(3, 4) { 258 } else { 3 + r.usize_below(256) }; s.push(1); s.extend_from_slice(&(off as u32).to_le_bytes()); s.extend_from_slice(&(len as u32).to_le_bytes()); produced += len; }
    }
    s
}
fn mk_dict_deser(r: &mut Rng, n: usize) -> MkRes {
    if huge().is_some() { // > 65536 entries, built directly (DictionaryBuilder is quadratic-ish on large training data)
        let cnt = n.min(100_003); let mut d = Dictionary::new(); for i in 0..cnt as u32 { let mut seq = i.to_le_bytes().to_vec(); seq.push(r.next() as u8); d.insert(seq, zipora::entropy::dictionary::DictionaryEntry::new(i, 5)); }
        let bytes = d.serialize(); return valid(bytes, 0, format!("entries={cnt}"), Box::new(move |b, _| match Dictionary::deserialize(b) { Ok(d) => { let _ = d.len(); let _ = d.get(b"the"); Ok(true) } Err(_) => Ok(false) }));
    }
    let (k, p) = rep_payload(r, n.max(8)); let d = DictionaryBuilder::new().min_match_length(3).build(&p); let bytes = d.serialize();
    valid(bytes, 0, format!("{k} entries={}", d.len()), Box::new(move |b, _| match Dictionary::deserialize(b) { Ok(d) => { let _ = d.len(); let _ = d.get(b"the"); Ok(true) } Err(_) => Ok(false) }))
}
fn mk_dict_decompress(r: &mut Rng, n: usize) -> MkRes {
    if huge().is_some() { let (_, p) = rep_payload(r, 300); let c = DictionaryCompressor::new(DictionaryBuilder::new().build(&p)); let bytes = lz_stream(r, n); return valid(bytes, 0, format!("hand-built LZ stream expanding to >= {n}"), Box::new(move |b, _| ok(c.decompress(b)))); }
    let (k, p) = rep_payload(r, n.max(1)); let d = DictionaryBuilder::new().build(&p); let c = DictionaryCompressor::new(d); let bytes = c.compress(&p).map_err(e2s)?;
    valid(bytes, 0, k, Box::new(move |b, _| ok(c.decompress(b))))
}
fn mk_optdict_decompress(r: &mut Rng, n: usize) -> MkRes {
    if huge().is_some() { let (_, p) = rep_payload(r, 600); let c = OptimizedDictionaryCompressor::new(&p).map_err(e2s)?; let bytes = lz_stream(r, n); return valid(bytes, 0, format!("hand-built LZ stream expanding to >= {n}"), Box::new(move |b, _| ok(c.decompress(b)))); }
    let (k, p) = rep_payload(r, n.max(4)); let c = OptimizedDictionaryCompressor::new(&p).map_err(e2s)?; let bytes = c.compress(&p).map_err(e2s)?;
    valid(bytes, 0, k, Box::new(move |b, _| ok(c.decompress(b))))
}
fn mk_cf(r: &mut Rng, n: usize, alg: Algorithm) -> MkRes {
    let (k, p) = if matches!(alg, Algorithm::Dictionary | Algorithm::Hybrid) { rep_payload(r, n.max(1)) } else { payload(r, n.max(1)) };
    if huge().is_some() && matches!(alg, Algorithm::Dictionary | Algorithm::Hybrid) { // training / compress are O(n * window): train on a prefix, hand-built stream
        let c = CompressorFactory::create(alg, Some(&p[..p.len().min(300)])).map_err(e2s)?; let mut bytes = if matches!(alg, Algorithm::Hybrid) { vec![2u8] } else { vec![] }; bytes.extend_from_slice(&lz_stream(r, n));
        return valid(bytes, 0, format!("hand-built LZ stream expanding to >= {n}"), Box::new(move |b, _| ok(c.decompress(b))));
    }
    let c = CompressorFactory::create(alg, Some(&p)).map_err(e2s)?;
    let (bytes, note) = match c.compress(&p) { Ok(z) => (z, ""), Err(_) => (p.clone(), " (compress unsupported: raw payload used as base)") };
    valid(bytes, 0, format!("{k}{note}"), Box::new(move |b, _| ok(c.decompress(b))))
}
/// PA-Zip match stream whose declared output is >= `out` bytes (SimdLz77Compressor::compress needs minutes of CPU on > 64 KiB payloads)
fn big_match_stream(r: &mut Rng, out: usize) -> Result<Vec<u8>, String> {
    let mut ms = Vec::new(); let mut total = 0usize;
    while total < out { let m = if r.chance(1, 60) { ct::Match::far2_long(1 + r.below(60000) as u16, 34 + r.below(65000) as u16).unwrap_or(ct::Match::Literal { length: 1 }) } else { let m = rand_match(r); if m.length() > 1000 && !r.chance(1, 50) { continue; } m }; total += m.length(); ms.push(m); }
    Ok(ct::encode_matches(&ms).map_err(e2s)?.0)
}
fn mk_simdlz77(r: &mut Rng, n: usize, which: u8) -> MkRes {
    if huge().is_some() {
        let bytes = big_match_stream(r, n)?; let k = format!("hand-built match stream declaring >= {n} output bytes");
        return match which {
            0..=3 => { let cfg = match which { 0 => SimdLz77Config::default(), 1 => SimdLz77Config::high_performance(), 2 => SimdLz77Config::low_latency(), _ => SimdLz77Config::maximum_parallelism() }; let mut c = SimdLz77Compressor::with_config(cfg).map_err(e2s)?; valid(bytes, 0, k, Box::new(move |b, _| ok(c.decompress(b)))) }
            4 => { let mut c = SimdLz77CompressorX1::new().map_err(e2s)?; valid(bytes, 0, k, Box::new(move |b, _| ok(c.decompress(b)))) }
            5 => { let mut c = SimdLz77CompressorX2::new().map_err(e2s)?; valid(bytes, 0, k, Box::new(move |b, _| ok(c.decompress(b)))) }
            6 => { let mut c = SimdLz77CompressorX4::new().map_err(e2s)?; valid(bytes, 0, k, Box::new(move |b, _| ok(c.decompress(b)))) }
            7 => { let mut c = SimdLz77CompressorX8::new().map_err(e2s)?; valid(bytes, 0, k, Box::new(move |b, _| ok(c.decompress(b)))) }
            _ => valid(bytes, 0, k, Box::new(move |b, _| ok(decompress_with_simd_lz77(b)))),
        };
    }
    let (k, p) = rep_payload(r, n.max(1));
    match which {
        0..=3 => { let cfg = match which { 0 => SimdLz77Config::default(), 1 => SimdLz77Config::high_performance(), 2 => SimdLz77Config::low_latency(), _ => SimdLz77Config::maximum_parallelism() };
            let mut c = SimdLz77Compressor::with_config(cfg).map_err(e2s)?; let bytes = c.compress(&p).map_err(e2s)?; valid(bytes, 0, k, Box::new(move |b, _| ok(c.decompress(b)))) }
        4 => { let mut c = SimdLz77CompressorX1::new().map_err(e2s)?; let bytes = c.compress(&p).map_err(e2s)?; valid(bytes, 0, k, Box::new(move |b, _| ok(c.decompress(b)))) }
        5 => { let mut c = SimdLz77CompressorX2::new().map_err(e2s)?; let bytes = c.compress(&p).map_err(e2s)?; valid(bytes, 0, k, Box::new(move |b, _| ok(c.decompress(b)))) }
        6 => { let mut c = SimdLz77CompressorX4::new().map_err(e2s)?; let bytes = c.compress(&p).map_err(e2s)?; valid(bytes, 0, k, Box::new(move |b, _| ok(c.decompress(b)))) }
        7 => { let mut c = SimdLz77CompressorX8::new().map_err(e2s)?; let bytes = c.compress(&p).map_err(e2s)?; valid(bytes, 0, k, Box::new(move |b, _| ok(c.decompress(b)))) }
        _ => { let bytes = zipora::compression::simd_lz77::compress_with_simd_lz77(&p).map_err(e2s)?; valid(bytes, 0, k, Box::new(move |b, _| ok(decompress_with_simd_lz77(b)))) }
    }
}
fn pazip_cfg(which: u8) -> PaZipCompressorConfig { match which { 0 => PaZipCompressorConfig::balanced(), 1 => PaZipCompressorConfig::fast_compression(), 2 => PaZipCompressorConfig::high_compression(), 3 => PaZipCompressorConfig::realtime(), _ => PaZipCompressorConfig::reference_compliant() } }
fn sa_dict(train: &[u8]) -> Result<SuffixArrayDictionary, String> {
    let (tds, mds) = if huge().is_some() { (train.len().max(2048), train.len().max(2048) * 2) } else { (2048, 4096) };
    let dc = DictionaryBuilderConfig { target_dict_size: tds, max_dict_size: mds, validate_result: true, ..Default::default() };
    SaDictBuilder::with_config(dc).build(train).map_err(e2s)
}
/// byte-oriented PA-Zip stream (layout read by PaZipCompressor::decompress) producing >= `out` bytes: literal runs, RLE, short and
/// 16-bit-length back references (PaZipCompressor::compress needs > 60 s CPU on > 64 KiB payloads)
fn pazip_stream(r: &mut Rng, out: usize) -> Vec<u8> {
    let mut s = Vec::new(); let mut produced = 0usize;
    while produced < out {
        match if produced < 300 { 0 } else { r.below(6) } {
            0 | 1 => { let l = 1 + r.usize_below(255); s.push(0); s.push(l as u8); s.extend(r.bytes(l)); produced += l; }
            2 => { let l = r.usize_below(256); s.extend_from_slice(&[2, r.next() as u8, l as u8]); produced += l; }
            3 => { let d = 1 + r.usize_below(produced.min(255)); let l = r.usize_below(256); s.extend_from_slice(&[4, d as u8, l as u8]); produced += l; }
            4 => { let d = 1 + r.usize_below(produced.min(65535)); let l = r.usize_below(256); s.push(5); s.extend_from_slice(&(d as u16).to_le_bytes()); s.push(l as u8); produced += l; }
            _ => { let d = 1 + r.usize_below(produced.min(65535)); let l = 256 + r.usize_below(65280); s.push(6); s.extend_from_slice(&(d as u16).to_le_bytes()); s.extend_from_slice(&(l as u16).to_le_bytes()); produced += l; }
        }
    }
    s
}
fn mk_pazip(r: &mut Rng, n: usize, which: u8) -> MkRes {
    if huge().is_some() {
        let mut train = b"the quick brown fox jumps over the lazy dog. the quick brown fox jumps again. ".to_vec(); train.extend(shaped(r, 4, 300));
        let dict = sa_dict(&train[..train.len().min(400)])?; let pool = SecureMemoryPool::new(SecurePoolConfig::new(4096, 1024, 8)).map_err(e2s)?; let mut c = PaZipCompressor::new(dict, pazip_cfg(which), pool).map_err(e2s)?;
        let z = pazip_stream(r, n); return valid(z, 0, format!("hand-built PA-Zip stream producing >= {n} bytes"), Box::new(move |b, _| { let mut out = Vec::new(); ok(c.decompress(b, &mut out)) }));
    }
    let (k, p) = rep_payload(r, n.max(1)); let mut train = b"the quick brown fox jumps over the lazy dog. the quick brown fox jumps again. ".to_vec(); train.extend_from_slice(&p);
    let dict = sa_dict(&train)?; let pool = SecureMemoryPool::new(SecurePoolConfig::new(4096, 1024, 8)).map_err(e2s)?;
    let mut c = PaZipCompressor::new(dict, pazip_cfg(which), pool).map_err(e2s)?; let mut z = Vec::new(); c.compress(&p, &mut z).map_err(e2s)?;
    valid(z, 0, k, Box::new(move |b, _| { let mut out = Vec::new(); ok(c.decompress(b, &mut out)) }))
}
fn rand_match(r: &mut Rng) -> ct::Match {
    let m = match r.below(8) {
        0 => ct::Match::literal(1 + r.below(32) as u8), 1 => ct::Match::global(r.next() as u32, 6 + r.below(1000) as u16), 2 => ct::Match::rle(r.next() as u8, 2 + r.below(32) as u8),
        3 => ct::Match::near_short(2 + r.below(8) as u8, 2 + r.below(4) as u8), 4 => ct::Match::far1_short(2 + r.below(256) as u16, 2 + r.below(32) as u8),
        5 => ct::Match::far2_short(258 + r.below(65536) as u32, 2 + r.below(32) as u8), 6 => ct::Match::far2_long(r.below(65536) as u16, 34 + *r.pick(&[0u16, 1, 93, 94, 200, 32000, 65000])),
        _ => ct::Match::far3_long(r.below(1 << 24) as u32, 34 + *r.pick(&[0u32, 5, 127, 128, 40000, 1 << 20])),
    };
    m.unwrap_or(ct::Match::Literal { length: 1 })
}
fn mk_decode_matches(r: &mut Rng, n: usize) -> MkRes {
    let cnt = 1 + lim(n, 40) / 2; let ms: Vec<ct::Match> = (0..cnt).map(|_| rand_match(r)).collect(); let (bytes, _) = ct::encode_matches(&ms).map_err(e2s)?;
    valid(bytes, 0, format!("matches:{cnt}"), Box::new(move |b, _| {
        let a = ct::decode_matches(b).is_ok();
        let mut rd = ct::BitReader::new(b); let mut k = 0; while rd.has_bits(3) && k < 100_000 { if ct::decode_match(&mut rd).is_err() { break; } k += 1; }
        Ok(a) }))
}
fn ctfse(which: u8) -> ct::FseConfig { match which { 0 => ct::FseConfig::default(), 1 => ct::FseConfig::for_pa_zip(), _ => ct::FseConfig::fast_pa_zip() } }
fn mk_remove_fse(r: &mut Rng, n: usize, which: u8) -> MkRes {
    let (k, p) = payload(r, n.max(1)); let cfg = ctfse(which); let bytes = ct::apply_fse_compression(&p, &cfg).map_err(e2s)?;
    valid(bytes, p.len(), k, Box::new(move |b, x| { let a = ct::remove_fse_compression(b, &cfg).is_ok(); let mut buf = vec![0u8; x.min(MIB)]; let c = ct::fse_unzip_reference(b, &mut buf).is_ok(); Ok(a || c) }))
}
fn mk_sadict_deser(r: &mut Rng, n: usize) -> MkRes {
    let (k, p) = rep_payload(r, n.max(16)); let d = sa_dict(&p)?; let bytes = d.serialize().map_err(e2s)?;
    valid(bytes, 0, k, Box::new(move |b, _| match SuffixArrayDictionary::deserialize(b) { Ok(d) => { let _ = d.dictionary_size(); let _ = d.validate(); let _ = d.find_all_matches(b"the quick", 4); Ok(true) } Err(_) => Ok(false) }))
}

// ---------------------------------------------------------------------------------------------
// targets: file / store loaders
fn mk_zipoffset(r: &mut Rng, n: usize) -> MkRes {
    let st = ZipOffsetBlobStore::new().map_err(e2s)?; let mut bytes = Vec::new(); st.save_to_writer(&mut bytes).map_err(e2s)?;
    if bytes.len() < 128 { return Err(format!("header only {} bytes", bytes.len())); }
    bytes.truncate(128); let (k, p) = payload(r, n); bytes[64..72].copy_from_slice(&(p.len() as u64).to_le_bytes()); bytes.extend_from_slice(&p); while bytes.len() % 16 != 0 { bytes.push(0); }
    valid(bytes, 0, format!("hand-built file: saved header + content {k}"), Box::new(move |b, _| match ZipOffsetBlobStore::load_from_reader(&mut Cursor::new(b)) { Ok(s) => { let _ = s.len(); let _ = s.memory_usage(); let _ = s.get(0); Ok(true) } Err(_) => Ok(false) }))
}
fn mk_reorder(r: &mut Rng, n: usize) -> MkRes {
    let path = tmp_path("reorder"); let sign: i64 = if r.bool() { 1 } else { -1 }; let cnt = lim(n, 400);
    let mut vals: Vec<usize> = Vec::new(); while vals.len() < cnt { let start = 1000 + r.below(1 << 38) as usize; let run = if r.bool() { 1 } else { 1 + r.usize_below(9) }; for i in 0..run { if vals.len() < cnt { vals.push(if sign > 0 { start + i } else { start - i }); } } }
    let mut b = ZReorderMapBuilder::new(&path, vals.len(), sign).map_err(e2s)?; for &v in &vals { b.push(v).map_err(e2s)?; } b.finish().map_err(e2s)?;
    let bytes = std::fs::read(&path).map_err(e2s)?;
    valid(bytes, 0, format!("values:{cnt} sign:{sign}"), Box::new(move |b, _| {
        if std::fs::write(&path, b).is_err() { return Ok(false); }
        match ZReorderMap::open(&path) { Ok(mut m) => { let _ = m.size(); let mut k = 0u64; while k < 50_000 { if m.next().is_none() { break; } k += 1; } let _ = m.eof(); let _ = m.rewind(); let _ = m.next(); Ok(true) } Err(_) => Ok(false) } }))
}
const MMAPVEC_HEADER: usize = 80;
fn mk_mmapvec<T: Copy + 'static>(r: &mut Rng, n: usize, conv: fn(u64) -> T) -> MkRes {
    let path = tmp_path("mmapvec"); let cnt = lim(n, 2000);
    { let cfg = MmapVecConfig::builder().with_initial_capacity(cnt.max(1) + r.usize_below(4)).build(); let mut v = MmapVec::<T>::create(&path, cfg).map_err(e2s)?; for _ in 0..cnt { v.push(conv(r.next())).map_err(e2s)?; } v.sync().map_err(e2s)?; }
    let bytes = std::fs::read(&path).map_err(e2s)?; let es = std::mem::size_of::<T>();
    valid(bytes, 0, format!("elems:{cnt} elem_size:{es}"), Box::new(move |b, _| {
        if std::fs::write(&path, b).is_err() { return Ok(false); }
        match MmapVec::<T>::open(&path, MmapVecConfig::default()) {
            Ok(v) => { let len = v.len(); let mapped = (b.len().max(64 * 1024) + 4095) & !4095;
                // the loader's result would make as_slice()/get() read beyond the mapping: report it instead of dereferencing
                if len.checked_mul(es).and_then(|x| x.checked_add(MMAPVEC_HEADER)).map_or(true, |need| need > mapped) { return Err(Fail { oracle: "oob_len_accepted".into(), detail: format!("MmapVec::open accepted header length={len} (elem {es} B) but file is {} B / mapping {mapped} B: get()/as_slice() would read out of bounds", b.len()) }); }
                if len > 0 { let _ = v.get(0).copied(); let _ = v.get(len - 1).copied(); let s = v.as_slice(); let mut acc = 0u8; let raw = unsafe { std::slice::from_raw_parts(s.as_ptr() as *const u8, s.len() * es) }; for x in raw { acc ^= *x; } std::hint::black_box(acc); }
                Ok(true) }
            Err(_) => Ok(false) } }))
}

// ---------------------------------------------------------------------------------------------
// targets: io decoders
fn mk_varint(r: &mut Rng, n: usize) -> MkRes {
    let ik = r.below(gen::INT_KINDS as u64) as u32; let vals: Vec<u64> = gen::ints_kind(r, ik, 1 + lim(n, 64), u64::MAX); let bytes = VarInt::encode_multiple(vals.iter().copied());
    valid(bytes, 0, format!("values:{}", vals.len()), Box::new(move |b, _| { let a = VarInt::decode(b).is_ok(); let m = VarInt::decode_multiple(b).is_ok(); let s = <VarInt as SignedVarInt>::decode_signed(b).is_ok(); let mut i = SliceDataInput::new(b); let d = i.read_var_int().is_ok(); Ok(a || m || s || d) }))
}
fn mk_varint_variant(r: &mut Rng, n: usize, s: VarIntStrategy) -> MkRes {
    let e = VarIntEncoder::new(s); let ik = r.below(gen::INT_KINDS as u64) as u32; let mask = if matches!(s, VarIntStrategy::GroupVarint) { u32::MAX as u64 } else { u64::MAX }; /* the group encoder refuses values >= 2^32 */ let vals: Vec<u64> = gen::ints_kind(r, ik, 1 + lim(n, 64), mask);
    let bytes = match e.encode_u64_sequence(&vals) { Ok(b) => b, Err(_) => { let iv: Vec<i64> = vals.iter().map(|&v| v as i64).collect(); e.encode_i64_sequence(&iv).map_err(e2s)? } };
    valid(bytes, 0, format!("values:{}", vals.len()), Box::new(move |b, _| { let a = e.decode_u64(b).is_ok(); let c = e.decode_i64(b).is_ok(); let d = e.decode_u64_sequence(b).is_ok(); let f = e.decode_i64_sequence(b).is_ok(); Ok(a || c || d || f) }))
}
/// element string of a large collection: one or two chars in large-input mode
fn el_str(r: &mut Rng, max: usize) -> String { if huge().is_some() { rstr(r, 2) } else { rstr(r, max) } }
fn rstr(r: &mut Rng, max: usize) -> String { let l = if huge().is_some() { max } else { r.usize_below(max + 1) }; (0..l).map(|_| *r.pick(&['a', 'b', 'z', ' ', 'é', '0', '漢'])).collect() }
fn cx_cfg(r: &mut Rng) -> (ComplexTypeConfig, &'static str) { match r.below(5) { 0 => (ComplexTypeConfig::new(), "new"), 1 => (ComplexTypeConfig::safe(), "safe"), 2 => (ComplexTypeConfig::fast(), "fast"), 3 => (ComplexTypeConfig::compact(), "compact"), _ => (ComplexTypeConfig::compatible(), "compatible") } }
fn mk_complex<T: ComplexSerialize + 'static>(r: &mut Rng, v: T) -> MkRes {
    let (cfg, name) = cx_cfg(r); let ser = ComplexTypeSerializer::new(cfg); let bytes = ser.serialize_to_bytes(&v).map_err(e2s)?;
    valid(bytes, 0, format!("config:{name}"), Box::new(move |b, _| Ok(ser.deserialize_from_bytes::<T>(b).is_ok())))
}
fn mk_cx_tuple(r: &mut Rng, n: usize) -> MkRes { let v = (r.next() as u32, rstr(r, lim(n, 40)), (0..lim(n / 8, 20)).map(|_| r.next()).collect::<Vec<u64>>()); mk_complex(r, v) }
fn mk_cx_array(r: &mut Rng, _n: usize) -> MkRes { let v = [r.next() as u32, 0, u32::MAX, r.next() as u32]; mk_complex(r, v) }
fn mk_cx_option(r: &mut Rng, n: usize) -> MkRes { let v: Option<Vec<String>> = if r.chance(1, 5) { None } else { Some((0..lim(n, 12)).map(|_| el_str(r, 12)).collect()) }; mk_complex(r, v) }
fn mk_cx_result(r: &mut Rng, n: usize) -> MkRes { let v: Result<u32, String> = if r.bool() { Ok(r.next() as u32) } else { Err(rstr(r, lim(n, 50))) }; mk_complex(r, v) }
fn mk_cx_hashmap(r: &mut Rng, n: usize) -> MkRes { let v: HashMap<u32, String> = (0..lim(n, 16)).map(|_| (r.next() as u32, el_str(r, 10))).collect(); mk_complex(r, v) }
fn mk_cx_hashset(r: &mut Rng, n: usize) -> MkRes { let v: HashSet<u32> = (0..lim(n, 32)).map(|_| r.next() as u32).collect(); mk_complex(r, v) }
fn mk_cx_btreemap(r: &mut Rng, n: usize) -> MkRes { let v: BTreeMap<u32, String> = (0..lim(n, 16)).map(|_| (r.next() as u32, el_str(r, 10))).collect(); mk_complex(r, v) }
fn mk_cx_btreeset(r: &mut Rng, n: usize) -> MkRes { let v: BTreeSet<u64> = (0..lim(n, 32)).map(|_| r.next()).collect(); mk_complex(r, v) }
fn mk_cx_batch(r: &mut Rng, n: usize) -> MkRes {
    let (cfg, name) = cx_cfg(r); let ser = ComplexTypeSerializer::new(cfg); let vs: Vec<(u32, String)> = (0..1 + lim(n, 10)).map(|_| (r.next() as u32, el_str(r, 8))).collect(); let bytes = ser.serialize_batch(&vs).map_err(e2s)?;
    valid(bytes, 0, format!("config:{name} batch:{}", vs.len()), Box::new(move |b, _| Ok(ser.deserialize_batch::<(u32, String)>(b).is_ok())))
}
fn mk_smart<T: SerializableType + 'static, P: SmartPtrSerialize<T> + 'static>(p: P) -> MkRes {
    let ser = SmartPtrSerializer::default(); let bytes = ser.serialize_to_bytes::<T, P>(&p).map_err(e2s)?;
    valid(bytes, 0, String::new(), Box::new(move |b, _| Ok(ser.deserialize_from_bytes::<T, P>(b).is_ok())))
}
fn mk_sp_box(r: &mut Rng, n: usize) -> MkRes { mk_smart::<String, Box<String>>(Box::new(rstr(r, lim(n, 60)))) }
fn mk_sp_optbox(r: &mut Rng, n: usize) -> MkRes { let v: Option<Box<Vec<u32>>> = if r.chance(1, 6) { None } else { Some(Box::new((0..lim(n, 30)).map(|_| r.next() as u32).collect())) }; mk_smart::<Vec<u32>, Option<Box<Vec<u32>>>>(v) }
fn mk_sp_rc(r: &mut Rng, n: usize) -> MkRes { let s = Rc::new(rstr(r, 10)); let v: Rc<Vec<Rc<String>>> = Rc::new((0..1 + lim(n, 8)).map(|i| if i % 2 == 0 { s.clone() } else { Rc::new(el_str(r, 6)) }).collect()); mk_smart::<Vec<Rc<String>>, Rc<Vec<Rc<String>>>>(v) }
fn mk_sp_arc(r: &mut Rng, n: usize) -> MkRes { let v: Arc<Vec<String>> = Arc::new((0..lim(n, 10)).map(|_| el_str(r, 9)).collect()); mk_smart::<Vec<String>, Arc<Vec<String>>>(v) }
fn di_script<I: DataInput>(i: &mut I) -> bool {
    let mut okc = 0;
    if i.read_length_prefixed_bytes().is_ok() { okc += 1; } if i.read_length_prefixed_string().is_ok() { okc += 1; } if i.read_var_int().is_ok() { okc += 1; }
    if let Ok(n) = i.read_u32() { if i.read_vec(n as usize).is_ok() { okc += 1; } }
    if i.read_u16().is_ok() { okc += 1; } if i.read_u64().is_ok() { okc += 1; }
    if let Ok(n) = i.read_var_int() { if i.skip(n as usize).is_ok() { okc += 1; } }
    if let Ok(n) = i.read_u8() { if i.read_string(n as usize).is_ok() { okc += 1; } }
    okc == 8
}
fn di_bytes(r: &mut Rng, n: usize) -> Result<Vec<u8>, String> {
    let mut o = VecDataOutput::new(); let blob = r.bytes(lim(n, 200)); let s = rstr(r, lim(n / 4, 30)); let v = r.bytes(n.min(17)); let skn = r.usize_below(9); let sk = r.bytes(skn); let s2 = rstr(r, 5);
    o.write_length_prefixed_bytes(&blob).map_err(e2s)?; o.write_length_prefixed_string(&s).map_err(e2s)?; o.write_var_int(r.next() >> r.below(64)).map_err(e2s)?;
    o.write_u32(v.len() as u32).map_err(e2s)?; o.write_bytes(&v).map_err(e2s)?; o.write_u16(r.next() as u16).map_err(e2s)?; o.write_u64(r.next()).map_err(e2s)?;
    o.write_var_int(sk.len() as u64).map_err(e2s)?; o.write_bytes(&sk).map_err(e2s)?; o.write_u8(s2.len() as u8).map_err(e2s)?; o.write_bytes(s2.as_bytes()).map_err(e2s)?;
    Ok(o.into_vec())
}
fn mk_di_slice(r: &mut Rng, n: usize) -> MkRes { let bytes = di_bytes(r, n)?; valid(bytes, 0, String::new(), Box::new(|b, _| { let mut i = SliceDataInput::new(b); Ok(di_script(&mut i)) })) }
fn mk_di_reader(r: &mut Rng, n: usize) -> MkRes { let bytes = di_bytes(r, n)?; valid(bytes, 0, String::new(), Box::new(|b, _| { let mut i = ReaderDataInput::new(Cursor::new(b)); Ok(di_script(&mut i)) })) }
fn mk_di_mmap(r: &mut Rng, n: usize) -> MkRes {
    let bytes = di_bytes(r, n)?; let path = tmp_path("di");
    valid(bytes, 0, String::new(), Box::new(move |b, _| { if std::fs::write(&path, b).is_err() { return Ok(false); } match MmapDataInput::open(&path) { Ok(mut i) => Ok(di_script(&mut i)), Err(_) => Ok(false) } }))
}
fn mk_hex(r: &mut Rng, n: usize) -> MkRes {
    let (k, p) = payload(r, n); let mut s = hex_encode(&p); if r.bool() { s = s.to_uppercase(); }
    valid(s.into_bytes(), p.len(), k, Box::new(|b, x| {
        let a = hex_decode_bytes(b).is_ok(); let mut buf = vec![0u8; x.min(MIB)]; let c = hex_decode_to_slice(b, &mut buf).is_ok();
        if b.len() >= 2 { let _ = parse_hex_byte(b[0], b[1]); }
        let d = match std::str::from_utf8(b) { Ok(s) => { let _ = is_valid_hex(s); hex_decode(s).is_ok() } Err(_) => false };
        Ok(a || c || d) }))
}
fn mk_base64(r: &mut Rng, n: usize, url: bool, pad: bool) -> MkRes {
    let (k, p) = payload(r, n); let cfg = Base64Config { url_safe: url, padding: pad, force_implementation: None }; let a = AdaptiveBase64::with_config(cfg.clone()); let d = SimdBase64Decoder::with_config(cfg); let s = a.encode(&p);
    valid(s.into_bytes(), 0, k, Box::new(move |b, _| match std::str::from_utf8(b) { Ok(s) => { let x = a.decode(s).is_ok(); let y = d.decode(s).is_ok(); let z = base64_decode_simd(s).is_ok(); Ok(x || y || z) } Err(_) => Ok(false) }))
}

fn fse_default() -> FseConfig { FseConfig::default() }
const BIG: usize = 3000;
fn targets() -> Vec<Tgt> {
    use Cost::*;
    let mut v = vec![
        t("huff_tree_deser", Fast, false, BIG, mk_huff_tree),
        t("huff_decode", Fast, true, BIG, mk_huff_decode),
        t("ctxhuff_deser/o0", Fast, false, 600, |r, n| mk_ctxhuff_deser(r, n, 0)), t("ctxhuff_deser/o1", Med, false, 200, |r, n| mk_ctxhuff_deser(r, n, 1)), sh(t("ctxhuff_deser/o2", Med, false, 200, |r, n| mk_ctxhuff_deser(r, n, 2)), 60),
        t("ctxhuff_decode/o0", Fast, true, 600, |r, n| mk_ctxhuff_decode(r, n, 0)), sh(t("ctxhuff_decode/o1", Fast, true, 600, |r, n| mk_ctxhuff_decode(r, n, 1)), 60), sh(t("ctxhuff_decode/o2", Fast, true, 600, |r, n| mk_ctxhuff_decode(r, n, 2)), 60),
        t("huff_decode_x1", Slow, true, 64, |r, n| mk_huff_x(r, n, 1)), sh(t("huff_decode_x2", Slow, true, 64, |r, n| mk_huff_x(r, n, 2)), 60), sh(t("huff_decode_x4", Slow, true, 64, |r, n| mk_huff_x(r, n, 4)), 60), sh(t("huff_decode_x8", Slow, true, 64, |r, n| mk_huff_x(r, n, 8)), 60),
        t("rans_decode/x1", Fast, true, BIG, mk_rans::<ParallelX1>), sh(t("rans_decode/x2", Fast, true, BIG, mk_rans::<ParallelX2>), 60), sh(t("rans_decode/x4", Fast, true, BIG, mk_rans::<ParallelX4>), 60), sh(t("rans_decode/x8", Fast, true, BIG, mk_rans::<ParallelX8>), 60),
        t("fse_decompress/default", Med, false, BIG, |r, n| mk_fse(r, n, fse_default)), sh(t("fse_decompress/fast", Med, false, BIG, |r, n| mk_fse(r, n, FseConfig::fast_compression)), 50), sh(t("fse_decompress/high", Med, false, BIG, |r, n| mk_fse(r, n, FseConfig::high_compression)), 50),
        sh(t("fse_decompress/realtime", Med, false, BIG, |r, n| mk_fse(r, n, FseConfig::realtime)), 50), sh(t("fse_decompress/balanced", Med, false, BIG, |r, n| mk_fse(r, n, FseConfig::balanced)), 50), sh(t("fse_decompress/fn", Med, false, BIG, mk_fse_fn), 50),
        t("dict_deser", Fast, false, 600, mk_dict_deser), t("dict_decompress", Fast, false, 300, mk_dict_decompress), t("optdict_decompress", Fast, false, 600, mk_optdict_decompress),
        sh(t("cf/none", Fast, false, 200, |r, n| mk_cf(r, n, Algorithm::None)), 50), sh(t("cf/lz4", Fast, false, 200, |r, n| mk_cf(r, n, Algorithm::Lz4)), 50),
        Tgt { alloc_base: 128 * MIB, ..t("cf/zstd", Med, false, BIG, |r, n| mk_cf(r, n, Algorithm::Zstd(3))) },
        t("cf/huffman", Fast, false, BIG, |r, n| mk_cf(r, n, Algorithm::Huffman)), t("cf/rans", Med, false, 600, |r, n| mk_cf(r, n, Algorithm::Rans)), t("cf/dict", Fast, false, 300, |r, n| mk_cf(r, n, Algorithm::Dictionary)),
        Tgt { alloc_base: 128 * MIB, ..t("cf/hybrid", Med, false, 300, |r, n| mk_cf(r, n, Algorithm::Hybrid)) }, sh(t("cf/simdlz77", Fast, false, 600, |r, n| mk_cf(r, n, Algorithm::SimdLz77)), 50),
        t("simdlz77/default", Fast, false, 600, |r, n| mk_simdlz77(r, n, 0)), sh(t("simdlz77/high_perf", Fast, false, 600, |r, n| mk_simdlz77(r, n, 1)), 30), sh(t("simdlz77/low_latency", Fast, false, 600, |r, n| mk_simdlz77(r, n, 2)), 30), sh(t("simdlz77/max_par", Fast, false, 600, |r, n| mk_simdlz77(r, n, 3)), 30),
        sh(t("simdlz77/x1", Fast, false, 600, |r, n| mk_simdlz77(r, n, 4)), 30), sh(t("simdlz77/x2", Fast, false, 600, |r, n| mk_simdlz77(r, n, 5)), 30), sh(t("simdlz77/x4", Fast, false, 600, |r, n| mk_simdlz77(r, n, 6)), 30), sh(t("simdlz77/x8", Fast, false, 600, |r, n| mk_simdlz77(r, n, 7)), 30), sh(t("simdlz77/global", Fast, false, 600, |r, n| mk_simdlz77(r, n, 8)), 30),
        t("pazip/balanced", Fast, false, 600, |r, n| mk_pazip(r, n, 0)), sh(t("pazip/fast", Fast, false, 600, |r, n| mk_pazip(r, n, 1)), 40), sh(t("pazip/high", Fast, false, 600, |r, n| mk_pazip(r, n, 2)), 40), sh(t("pazip/realtime", Fast, false, 600, |r, n| mk_pazip(r, n, 3)), 40), sh(t("pazip/reference", Fast, false, 600, |r, n| mk_pazip(r, n, 4)), 40),
        t("decode_matches", Fast, false, BIG, mk_decode_matches),
        t("remove_fse/default", Med, true, BIG, |r, n| mk_remove_fse(r, n, 0)), sh(t("remove_fse/pa_zip", Med, true, BIG, |r, n| mk_remove_fse(r, n, 1)), 50), sh(t("remove_fse/fast_pa_zip", Med, true, BIG, |r, n| mk_remove_fse(r, n, 2)), 50),
        t("sadict_deser", Med, false, 300, mk_sadict_deser),
        t("zipoffset_load", Fast, false, BIG, mk_zipoffset), t("reorder_map_open", Med, false, 400, mk_reorder),
        t("mmap_vec_open/u8", Med, false, 2000, |r, n| mk_mmapvec::<u8>(r, n, |x| x as u8)), sh(t("mmap_vec_open/u32", Med, false, 500, |r, n| mk_mmapvec::<u32>(r, n, |x| x as u32)), 50), sh(t("mmap_vec_open/u64", Med, false, 250, |r, n| mk_mmapvec::<u64>(r, n, |x| x)), 50),
        t("varint", Fast, false, BIG, mk_varint),
        t("varint/leb128", Fast, false, BIG, |r, n| mk_varint_variant(r, n, VarIntStrategy::Leb128)), sh(t("varint/zigzag", Fast, false, BIG, |r, n| mk_varint_variant(r, n, VarIntStrategy::Zigzag)), 50), t("varint/delta", Fast, false, BIG, |r, n| mk_varint_variant(r, n, VarIntStrategy::Delta)),
        t("varint/group", Fast, false, BIG, |r, n| mk_varint_variant(r, n, VarIntStrategy::GroupVarint)), t("varint/prefix_free", Fast, false, BIG, |r, n| mk_varint_variant(r, n, VarIntStrategy::PrefixFree)), t("varint/compact", Fast, false, BIG, |r, n| mk_varint_variant(r, n, VarIntStrategy::Compact)), sh(t("varint/simd", Fast, false, BIG, |r, n| mk_varint_variant(r, n, VarIntStrategy::Simd)), 50),
        t("complex/tuple", Fast, false, BIG, mk_cx_tuple), t("complex/array", Fast, false, BIG, mk_cx_array), t("complex/option_vec", Fast, false, BIG, mk_cx_option), t("complex/result", Fast, false, BIG, mk_cx_result), t("complex/hashmap", Fast, false, BIG, mk_cx_hashmap),
        sh(t("complex/hashset", Fast, false, BIG, mk_cx_hashset), 50), sh(t("complex/btreemap", Fast, false, BIG, mk_cx_btreemap), 50), sh(t("complex/btreeset", Fast, false, BIG, mk_cx_btreeset), 50), t("complex/batch", Fast, false, BIG, mk_cx_batch),
        t("smartptr/box", Fast, false, BIG, mk_sp_box), t("smartptr/optbox", Fast, false, BIG, mk_sp_optbox), t("smartptr/rc", Fast, false, BIG, mk_sp_rc), sh(t("smartptr/arc", Fast, false, BIG, mk_sp_arc), 50),
        t("datainput/slice", Fast, false, BIG, mk_di_slice), sh(t("datainput/reader", Fast, false, BIG, mk_di_reader), 50), sh(t("datainput/mmap", Med, false, BIG, mk_di_mmap), 50),
    ];
    v.push(Tgt { text: true, ..t("hex_decode", Fast, true, BIG, mk_hex) });
    v.push(Tgt { text: true, ..t("base64/std", Fast, false, BIG, |r, n| mk_base64(r, n, false, true)) }); v.push(Tgt { text: true, ..t("base64/std_nopad", Fast, false, BIG, |r, n| mk_base64(r, n, false, false)) });
    v.push(Tgt { text: true, ..t("base64/url", Fast, false, BIG, |r, n| mk_base64(r, n, true, true)) }); v.push(Tgt { text: true, ..t("base64/url_nopad", Fast, false, BIG, |r, n| mk_base64(r, n, true, false)) });
    v
}

// ---------------------------------------------------------------------------------------------
// mutants
#[derive(Clone, Debug)]
enum Mu { Id, Trunc(usize), Subst(usize, u8), Field { off: usize, w: u8, val: u64 }, Append(Vec<u8>), Replace(Vec<u8>), Multi(Vec<(usize, u8)>) }
#[derive(Clone, Debug)]
struct Mutant { mu: Mu, explen: usize }
fn apply(base: &[u8], m: &Mu) -> Vec<u8> {
    match m {
        Mu::Id => base.to_vec(), Mu::Trunc(k) => base[..(*k).min(base.len())].to_vec(),
        Mu::Subst(p, v) => { let mut b = base.to_vec(); if *p < b.len() { b[*p] = *v; } b }
        Mu::Field { off, w, val } => { let mut b = base.to_vec(); let le = val.to_le_bytes(); for i in 0..*w as usize { if off + i < b.len() { b[off + i] = le[i]; } } b }
        Mu::Append(g) => { let mut b = base.to_vec(); b.extend_from_slice(g); b }
        Mu::Replace(b) => b.clone(),
        Mu::Multi(ps) => { let mut b = base.to_vec(); for (p, v) in ps { if *p < b.len() { b[*p] = *v; } } b }
    }
}
fn kind_of(m: &Mu) -> String {
    match m { Mu::Id => "valid encoding unmodified".into(), Mu::Trunc(k) => format!("truncated to {k} bytes"), Mu::Subst(p, v) => format!("byte {p} := 0x{v:02x}"), Mu::Field { off, w, val } => format!("{}-byte LE field at offset {off} := 0x{:x}", w, if *w == 8 { *val } else { val & ((1u64 << (8 * *w as u32)) - 1) }),
        Mu::Append(g) => format!("{} garbage bytes appended", g.len()), Mu::Replace(b) => format!("replaced by {} other bytes", b.len()), Mu::Multi(ps) => format!("{} bytes substituted", ps.len()) }
}
fn hexs(b: &[u8]) -> String { if b.len() <= 200 { format!("len={} hex={}", b.len(), gen::hex(b)) } else { format!("len={} hex={}..(+{} bytes)..{}", b.len(), gen::hex(&b[..120]), b.len() - 136, gen::hex(&b[b.len() - 16..])) } }
/// all of 0..n when it fits in `cap`, else the first/last 48 plus a seeded sample
fn positions(r: &mut Rng, n: usize, cap: usize) -> Vec<usize> {
    if n <= cap { return (0..n).collect(); }
    let mut s: BTreeSet<usize> = (0..48.min(n)).collect(); for i in n.saturating_sub(48)..n { s.insert(i); } while s.len() < cap { s.insert(r.usize_below(n)); } s.into_iter().collect()
}
fn build_mutants(c: &mut Case, tg: &Tgt, fam: &str, v: &Valid, second: Option<&[u8]>, cap: usize) -> Vec<Mutant> {
    let base = &v.bytes; let l = base.len(); let x = v.explen; let r = &mut c.rng; let mut out = vec![Mutant { mu: Mu::Id, explen: x }];
    match fam {
        "trunc" => { for k in positions(r, l, cap) { out.push(Mutant { mu: Mu::Trunc(k), explen: x }); } }
        "subst" => { for p in positions(r, l, cap / 4) { let b = base[p]; let vals: Vec<u8> = if tg.text { vec![0x00, b'=', b ^ 0x01, b' ', 0x7f, 0xff, b'g'] } else { vec![0x00, 0xff, b ^ 0x01, b ^ 0x80] }; for val in vals { if val != b { out.push(Mutant { mu: Mu::Subst(p, val), explen: x }); } } } }
        "field_small" | "field_max" => {
            let vals: &[u64] = if fam == "field_small" { &[0, 1] } else { &[0x7fff_ffff_ffff_ffff, u64::MAX] };
            let mut all = Vec::new();
            for w in [2usize, 4, 8] { if l < w { continue; } for off in 0..=(l - w) { if l <= 96 || off % w == 0 || off < 32 { for &val in vals { let val = if fam == "field_max" && val != u64::MAX { val >> (64 - 8 * w) } else { val }; all.push(Mutant { mu: Mu::Field { off, w: w as u8, val }, explen: x }); } } } }
            if all.len() > cap { r.shuffle(&mut all); all.truncate(cap); } else { let k = if all.is_empty() { 0 } else { r.usize_below(all.len()) }; all.rotate_left(k); }
            out.extend(all);
        }
        "tail" => {
            for g in [r.bytes(1), r.bytes(2), r.bytes(7), r.bytes(8), r.bytes(64), vec![0u8; 1000], vec![0xffu8; 16], base.clone()] { out.push(Mutant { mu: Mu::Append(g), explen: x }); }
            if let Some(b2) = second { let h = l / 2; let h2 = b2.len() / 2; let mut s1 = base[..h].to_vec(); s1.extend_from_slice(&b2[h2..]); let mut s2 = b2[..h2].to_vec(); s2.extend_from_slice(&base[h..]); let mut s3 = base.clone(); s3.extend_from_slice(b2);
                for s in [s1, s2, s3, b2.to_vec()] { out.push(Mutant { mu: Mu::Replace(s), explen: x }); } }
            if l > 0 { for _ in 0..cap.min(60) { let k = 2 + r.usize_below(3); let ps = (0..k).map(|_| (r.usize_below(l), r.next() as u8)).collect(); out.push(Mutant { mu: Mu::Multi(ps), explen: x }); }
                for _ in 0..cap.min(20) { let a = r.usize_below(l); let n = 1 + r.usize_below((l - a).min(16)); let mut d = base.clone(); match r.below(3) { 0 => { d.drain(a..a + n); } 1 => { let ch = d[a..a + n].to_vec(); for (i, y) in ch.into_iter().enumerate() { d.insert(a + i, y); } } _ => { d[a..a + n].reverse(); } } out.push(Mutant { mu: Mu::Replace(d), explen: x }); } }
        }
        "explen_near" | "explen_huge" => {
            let xs: Vec<usize> = if fam == "explen_near" { vec![0, 1, x.saturating_sub(1), x + 1, x * 2, x / 2, x + 8, 255, 256, 65536] } else { vec![1 << 31, usize::MAX / 2] };
            let mut mus = vec![Mu::Id, Mu::Trunc(0), Mu::Trunc(l / 2), Mu::Trunc(l.saturating_sub(1)), Mu::Append(r.bytes(8))];
            if l > 0 { for _ in 0..(if fam == "explen_near" { 12 } else { 3 }) { mus.push(Mu::Subst(r.usize_below(l), r.next() as u8)); } }
            out.clear(); for e in &xs { for m in &mus { out.push(Mutant { mu: m.clone(), explen: *e }); } }
        }
        _ => {}
    }
    out
}

/// `containers` family (FSE targets): parallel containers with an internally consistent size table (count in 2..=64, sizes
/// non-zero, sum == rest) whose blocks are degenerate: 1..8-byte blocks, one valid single stream next to tiny ones, a valid
/// stream split at every early offset. Kept apart from `directed` so that the known allocation aborts there cannot mask it.
fn containers(id: &str, big: &[u8], r: &mut Rng) -> Vec<Vec<u8>> {
    let mut out: Vec<Vec<u8>> = Vec::new(); if !(id.starts_with("fse_decompress") || id.starts_with("remove_fse")) { return out; }
    let le32 = |x: u32| x.to_le_bytes().to_vec(); let cat = |parts: &[&[u8]]| parts.concat();
    let pre: &[u8] = if id.starts_with("remove_fse") { &[0xFE, 0x53] } else { &[] };
        // parallel container with an internally consistent size table (count in 2..=64, sizes non-zero, sum == rest) whose blocks are
        // degenerate: 1..8-byte blocks, one valid single stream next to tiny ones, a valid stream split at every early offset
        for n in [2usize, 3, 7, 64] { for pat in 0..6u32 {
            let sizes: Vec<usize> = (0..n).map(|i| match pat { 0 => 1, 1 => 3, 2 => 1 + i % 8, 3 => if i == 0 { big.len().max(1) } else { 1 + i % 4 }, 4 => if i + 1 == n { big.len().max(1) } else { 2 + i % 5 }, _ => 1 + r.usize_below(9) }).collect();
            let mut b = pre.to_vec(); b.extend_from_slice(&le32(n as u32)); for &sz in &sizes { b.extend_from_slice(&le32(sz as u32)); }
            for (i, &sz) in sizes.iter().enumerate() { if sz == big.len() && !big.is_empty() && ((pat == 3 && i == 0) || (pat == 4 && i + 1 == n)) { b.extend_from_slice(big); } else { let mut blk = r.bytes(sz); if r.bool() && sz >= 1 { blk[0] = big.first().copied().unwrap_or(0); } b.extend_from_slice(&blk); } }
            out.push(b); } }
        for cut in 1..big.len().min(12) { out.push(cat(&[pre, &le32(2), &le32(cut as u32), &le32((big.len() - cut) as u32), big])); }
    out
}
/// Property-specific directed inputs (PROPERTY.json "why_tests_cant"): length prefixes that pass the first bounds check but
/// drive a huge allocation or an index computation later, headers that declare more sections than the input holds,
/// back-references / run lengths far larger than the input, bit streams that end in the middle of a code.
fn directed(id: &str, big: &[u8], r: &mut Rng) -> Vec<Vec<u8>> {
    let mut out: Vec<Vec<u8>> = Vec::new();
    let le32 = |x: u32| x.to_le_bytes().to_vec(); let cat = |parts: &[&[u8]]| parts.concat();
    // generic: the large valid encoding with each of its first 4-byte fields maximised, and with the tail cut in the middle
    for off in (0..big.len().min(48)).step_by(4) { for val in [0x7fff_ffffu32, u32::MAX, 0x0100_0000] { if off + 4 <= big.len() { let mut b = big.to_vec(); b[off..off + 4].copy_from_slice(&val.to_le_bytes()); out.push(b); } } }
    if big.len() > 2 { out.push(big[..big.len() / 2].to_vec()); out.push(big[..big.len() - 1].to_vec()); }
    if id.starts_with("fse_decompress") || id.starts_with("remove_fse") {
        let pre: &[u8] = if id.starts_with("remove_fse") { &[0xFE, 0x53] } else { &[] };
        for size in [0x7fff_ffffu32, u32::MAX, 200 << 20] { for tl in [5u8, 10, 12, 15] {
            let tsz = 1u32 << tl;
            out.push(cat(&[pre, &le32(size), &[tl], &[1, 0], &[b'a'], &le32(tsz), &[1, 0, 0, 0, 0, 0, 0, 0]]));
            out.push(cat(&[pre, &le32(size), &[tl], &[2, 0], &[b'a'], &le32(tsz / 2), &[b'b'], &le32(tsz / 2), &r.bytes(16), &(tsz as u64).to_le_bytes()]));
            out.push(cat(&[pre, &le32(size), &[tl], &[0xff, 0xff], &r.bytes(40)])); } }
        out.push(cat(&[pre, &le32(u32::MAX), &[0xff], &r.bytes(8)]));
        // parallel container: 2 blocks whose headers declare huge sizes
        let blk = cat(&[&le32(0x7fff_ffff), &[10], &[1, 0], &[b'a'], &le32(1024), &[1, 0, 0, 0, 0, 0, 0, 0]]); out.push(cat(&[pre, &le32(2), &le32(blk.len() as u32), &le32(blk.len() as u32), &blk, &blk]));
    }
    if id.starts_with("pazip") {
        for (ty, body) in [(7u8, cat(&[&le32(1), &le32(u32::MAX)])), (7, cat(&[&le32(1), &le32(0x2000_0000)])), (6, vec![1, 0, 0xff, 0xff]), (5, vec![1, 0, 0xff]), (4, vec![1, 0xff]), (3, vec![1, 0xff])] { out.push(cat(&[&[0, 1, b'a'], &[ty], &body])); out.push(cat(&[&[2, b'x', 255], &[ty], &body])); }
        out.push(vec![1, 0, 0, 0xff, 0xff]); out.push(vec![1, 0xff, 0xff, 0xff, 0xff]); out.push(vec![0, 200, 1, 2, 3]); out.push(vec![7, 1, 0, 0, 0, 0xff, 0xff, 0xff, 0xff]); out.push(vec![9, 3, 1, 2, 3]);
    }
    if id.starts_with("simdlz77") || id == "decode_matches" {
        let enc = |ops: &[(u32, u8)]| { let mut w = ct::BitWriter::new(); for &(v, b) in ops { let _ = w.write_bits(v, b); } w.finish() };
        let pre: Vec<u8> = if id == "cf/simdlz77" { vec![] } else { vec![] };
        out.push(cat(&[&pre, &enc(&[(2, 3), (b'r' as u32, 8), (31, 5), (7, 3), (1, 24), (1, 1), (1, 1), (0x3fff_ffff, 30)])]));   // RLE then Far3Long distance 1, maximal length
        out.push(cat(&[&pre, &enc(&[(0, 3), (31, 5), (7, 3), (2, 24), (1, 1), (1, 1), (0x1000_0000, 30)])]));                      // literal run then Far3Long 256 MiB
        out.push(cat(&[&pre, &enc(&[(7, 3), (0xff_ffff, 24), (1, 1), (1, 1), (0x3fff_ffff, 30)])]));                               // Far3Long with nothing produced yet
        out.push(cat(&[&pre, &enc(&[(6, 3), (1, 16), (1, 1), (0, 1), (32767, 15)])]));                                           // Far2Long: length 32895 + 34
        out.push(cat(&[&pre, &enc(&[(6, 3), (1, 16), (1, 1), (1, 1), (65502 - 32768, 30)])]));                                   // Far2Long: var-length 65502 (+34 overflows u16)
        out.push(cat(&[&pre, &enc(&[(6, 3), (1, 16), (1, 1), (1, 1), (0x3fff_ffff, 30)])]));
        out.push(cat(&[&pre, &enc(&[(1, 3), (u32::MAX, 32), (0xffff, 16)])])); out.push(cat(&[&pre, &enc(&[(5, 3), (0xffff, 16), (31, 5)])])); out.push(enc(&[(7, 3), (5, 24), (1, 1)]));
    }
    if id == "dict_decompress" || id == "optdict_decompress" || id == "cf/dict" || id == "cf/hybrid" {
        let pre: &[u8] = if id == "cf/hybrid" { &[2] } else { &[] };
        for len in [u32::MAX, 0x7fff_ffff, 0x1000_0000] { out.push(cat(&[pre, &[0, b'a', 1], &le32(1), &le32(len)])); out.push(cat(&[pre, &[0, b'a', 0, b'b', 1], &le32(2), &le32(len)])); }
        out.push(cat(&[pre, &[1], &le32(0), &le32(5)])); out.push(cat(&[pre, &[1], &le32(1), &le32(5)])); out.push(cat(&[pre, &[0, b'a', 1], &le32(2), &le32(5)])); out.push(cat(&[pre, &[0, b'a', 1], &le32(1), &[5, 0, 0]])); out.push(cat(&[pre, &[2, 0]])); out.push(cat(&[pre, &[0]]));
        if id == "cf/hybrid" { for a in 0..4u8 { out.push(vec![a]); out.push(cat(&[&[a], &le32(u32::MAX), &le32(u32::MAX), &r.bytes(8)])); } }
    }
    if id == "huff_tree_deser" || id == "cf/huffman" {
        let wrap = |t: Vec<u8>| -> Vec<u8> { if id == "cf/huffman" { cat(&[&le32(t.len() as u32), &t, &le32(16), &[0x55; 8]]) } else { t } };
        out.push(wrap(vec![0xff, 0xff])); out.push(wrap(vec![1, 0, b'a', 255]));
        out.push(wrap(cat(&[&[1, 0, b'a', 255], &[0xaa; 32]]))); out.push(wrap(cat(&[&[2, 0, b'a', 255], &[0xff; 32], &[b'b', 255], &[0x00; 32]])));
        out.push(wrap(vec![2, 0, b'a', 0, b'b', 0])); out.push(wrap(vec![2, 0, b'a', 1, 0, b'b', 1, 0])); out.push(wrap(vec![2, 0, b'a', 1, 0, b'b', 2, 0])); out.push(wrap(vec![3, 0, b'a', 1, 0, b'a', 1, 1, b'c', 0])); out.push(wrap(vec![0, 0]));
        let mut all = vec![0u8, 1]; for sym in 0..=255u8 { all.extend_from_slice(&[sym, 8, sym]); } out.push(wrap(all));
        if id == "cf/huffman" { out.push(cat(&[&le32(2), &[0, 0], &le32(u32::MAX), &[0; 4]])); out.push(cat(&[&le32(4), &[1, 0, b'a', 0], &le32(u32::MAX), &[0; 4]])); out.push(cat(&[&le32(4), &[1, 0, b'a', 0], &le32(0x0800_0000), &[0; 4]])); out.push(cat(&[&le32(u32::MAX), &[0; 8]])); }
    }
    if id.starts_with("ctxhuff_deser") {
        for o in 0..3u8 { out.push(cat(&[&[o], &le32(u32::MAX), &le32(0)])); out.push(cat(&[&[o], &le32(0), &le32(0)])); out.push(cat(&[&[o], &le32(0), &le32(u32::MAX)])); out.push(cat(&[&[o], &le32(1), &le32(1), &le32(0), &le32(7), &le32(2), &[0, 0]]));
            out.push(cat(&[&[o], &le32(1), &le32(0), &le32(u32::MAX)])); out.push(cat(&[&[o], &le32(0x0100_0000), &le32(0), &le32(2), &[0, 0]])); out.push(cat(&[&[o], &le32(2), &le32(0), &le32(6), &[1, 0, b'a', 1, 0, 0], &le32(2), &[0, 0]])); }
    }
    out
}


// ---------------------------------------------------------------------------------------------
// input-only root-cause predicates (evaluated on every input of a case; never on library output)
fn u32at(b: &[u8], o: usize) -> Option<u32> { b.get(o..o + 4).map(|x| u32::from_le_bytes([x[0], x[1], x[2], x[3]])) }
fn u64at(b: &[u8], o: usize) -> Option<u64> { b.get(o..o + 8).map(|x| { let mut a = [0u8; 8]; a.copy_from_slice(x); u64::from_le_bytes(a) }) }
fn leb(b: &[u8]) -> Option<(u64, usize)> { let mut v = 0u64; for (i, &x) in b.iter().enumerate().take(10) { v |= ((x & 0x7f) as u64) << (7 * i as u32).min(63); if x & 0x80 == 0 { return Some((v, i + 1)); } } None }
const HUGE: u64 = 64 << 20;
/// mirrors FseDecoder::decompress: a block container (u32 n in 2..=64, n non-zero u32 sizes summing to the rest) is
/// decoded block by block with decompress_single, so the single-stream predicates apply to every block
fn fse_tags(b: &[u8], out: &mut BTreeSet<&'static str>) {
    if let Some(n) = u32at(b, 0) { let n = n as usize; if (2..=64).contains(&n) && b.len() >= 8 && b.len() >= 4 + 4 * n {
        let sizes: Vec<usize> = (0..n).map(|i| u32at(b, 4 + 4 * i).unwrap_or(0) as usize).collect();
        if sizes.iter().all(|&s| s != 0 && s <= b.len()) && 4 + 4 * n + sizes.iter().sum::<usize>() == b.len() {
            let mut pos = 4 + 4 * n; for s in sizes { fse_tags_single(&b[pos..pos + s], out); pos += s; } return; } } }
    fse_tags_single(b, out)
}
fn fse_tags_single(b: &[u8], out: &mut BTreeSet<&'static str>) {
    let Some(orig) = u32at(b, 0) else { return }; if orig == 0 || b.len() < 7 { return; } let tl = b[4]; if !(5..=15).contains(&tl) { return; }
    let ns = u16::from_le_bytes([b[5], b[6]]) as usize; let mut f = [0u64; 256]; let mut pos = 7; for _ in 0..ns { if pos + 5 > b.len() { return; } f[b[pos] as usize] = u32at(b, pos + 1).unwrap_or(0) as u64; pos += 5; }
    let sum: u64 = f.iter().sum(); if sum > u32::MAX as u64 { out.insert("fse_freq_sum_overflow"); } else if sum >= 1 << 31 { out.insert("fse_total_freq_ge_2_31"); }
    if orig as u64 > HUGE { out.insert("fse_orig_size_huge"); }
}
fn dict_stream_tags(b: &[u8], out: &mut BTreeSet<&'static str>) {
    let mut pos = 0; while pos < b.len() { match b[pos] { 0 => pos += 2, 1 => { if let Some(l) = u32at(b, pos + 5) { if l as u64 > HUGE { out.insert("lz_match_len_huge"); } } pos += 9; } _ => return } }
}
/// mirrors the record layout of PaZipCompressor::decompress (type byte + fixed fields); only Far3Long carries a 32-bit length
fn pazip_tags(b: &[u8], out: &mut BTreeSet<&'static str>) {
    let mut pos = 0; let n = b.len();
    while pos < n { let ty = b[pos]; pos += 1;
        match ty { 1 => { if pos + 3 < n { pos += 4; } } 2 | 3 | 4 => { if pos + 1 < n { pos += 2; } } 5 => { if pos + 2 < n { pos += 3; } } 6 => { if pos + 3 < n { pos += 4; } }
            7 => { if pos + 7 < n { if u32at(b, pos + 4).unwrap_or(0) as u64 > HUGE { out.insert("lz_match_len_huge"); } pos += 8; } }
            _ => { if pos < n { let l = b[pos] as usize; pos += 1; if pos + l > n { return; } pos += l; } } } }
}
/// mirrors the PA-Zip bit stream read by decode_match (3-bit type, LSB first): declared output of the parseable prefix
fn pabits_tags(b: &[u8], out: &mut BTreeSet<&'static str>) {
    let total_bits = b.len() * 8; let mut bp = 0usize;
    let mut rd = |k: usize, bp: &mut usize| -> Option<u64> { if *bp + k > total_bits { return None; } let mut v = 0u64; for i in 0..k { let bit = (b[(*bp + i) / 8] >> ((*bp + i) % 8)) & 1; v |= (bit as u64) << i; } *bp += k; Some(v) };
    let varlen = |bp: &mut usize, rd: &mut dyn FnMut(usize, &mut usize) -> Option<u64>| -> Option<u64> { if rd(1, bp)? == 0 { rd(7, bp) } else if rd(1, bp)? == 0 { Some(rd(15, bp)? + 128) } else { Some(rd(30, bp)? + 32768) } };
    let mut total = 0u64;
    while bp + 3 <= total_bits {
        let Some(ty) = rd(3, &mut bp) else { break };
        let len = match ty { 0 => rd(5, &mut bp).map(|l| l + 1), 1 => { if rd(32, &mut bp).is_none() { None } else { rd(16, &mut bp) } } 2 => { if rd(8, &mut bp).is_none() { None } else { rd(5, &mut bp).map(|l| l + 2) } }
            3 => { if rd(3, &mut bp).is_none() { None } else { rd(2, &mut bp).map(|l| l + 2) } } 4 => { if rd(8, &mut bp).is_none() { None } else { rd(5, &mut bp).map(|l| l + 2) } } 5 => { if rd(16, &mut bp).is_none() { None } else { rd(5, &mut bp).map(|l| l + 2) } }
            6 => { if rd(16, &mut bp).is_none() { None } else { varlen(&mut bp, &mut rd).map(|l| l + 34) } } _ => { if rd(24, &mut bp).is_none() { None } else { varlen(&mut bp, &mut rd).map(|l| l + 34) } } };
        match len { Some(l) => total = total.saturating_add(l), None => break }
        if total > HUGE { out.insert("lz_match_len_huge"); return; }
    }
}
fn tags_for(id: &str, b: &[u8], explen: usize, out: &mut BTreeSet<&'static str>) {
    if id.starts_with("pazip/") { pazip_tags(b, out); }
    if id.starts_with("simdlz77/") { pabits_tags(b, out); }
    if explen as u64 > HUGE { out.insert("explen_huge"); }
    if id == "cf/huffman" || id == "cf/hybrid" { let b = if id == "cf/hybrid" { if b.first() == Some(&0) { &b[1..] } else { &[][..] } } else { b };
        if let Some(ts) = u32at(b, 0) { if let Some(orig) = u32at(b, 4usize.saturating_add(ts as usize)) { if orig as u64 > HUGE { out.insert("huff_orig_size_huge"); } } } }
    if id == "cf/rans" || id == "cf/hybrid" { let b = if id == "cf/hybrid" { if b.first() == Some(&1) { &b[1..] } else { &[][..] } } else { b };
        if b.len() >= 1028 { let sum: u64 = (0..256).map(|i| u32at(b, 4 * i).unwrap_or(0) as u64).sum(); if sum > u32::MAX as u64 { out.insert("rans_freq_sum_overflow"); } if u32at(b, 1024).unwrap_or(0) as u64 > HUGE { out.insert("rans_orig_size_huge"); } } }
    if id.starts_with("fse_decompress") { fse_tags(b, out); }
    if id.starts_with("remove_fse") { if b.len() >= 2 && b[0] == 0xFE && b[1] == 0x53 { fse_tags(&b[2..], out) } else if !(b.len() >= 2 && b[0] == 0x55 && b[1] == 0x4E) { fse_tags(b, out) } }
    if id == "dict_decompress" || id == "optdict_decompress" || id == "cf/dict" { dict_stream_tags(b, out); }
    if id == "cf/hybrid" && b.first() == Some(&2) { dict_stream_tags(&b[1..], out); }
    if id.starts_with("ctxhuff_deser") && b.len() >= 9 && b[0] <= 2 {
        let tc = u32at(b, 1).unwrap_or(0) as u64; let cc = u32at(b, 5).unwrap_or(0) as u64; if tc > 1 << 20 { out.insert("ctx_tree_count_huge"); } if tc == 0 { out.insert("ctx_tree_count_zero"); }
        let mut pos = 9usize; let mut okmap = true; for _ in 0..cc.min(70000) { match u32at(b, pos + 4) { Some(ti) => { if ti as u64 >= tc { out.insert("ctx_tree_idx_oob"); } pos += 8; } None => { okmap = false; break; } } }
        if okmap { for _ in 0..tc.min(70000) { match u32at(b, pos) { Some(ts) => { if b.get(pos + 4..pos + 6) == Some(&[0, 0][..]) && ts >= 2 { out.insert("ctx_empty_tree"); } pos = pos.saturating_add(4 + ts as usize); } None => break } } }
    }
    if id == "zipoffset_load" && b.len() >= 128 && &b[..17] == b"zipora-blob-store" { if u64at(b, 64).unwrap_or(0) > (b.len() - 128) as u64 + 16 { out.insert("content_bytes_gt_input"); } }
    if id == "reorder_map_open" && b.len() >= 16 {
        let mut pos = 16; let mut k = 0; while pos + 5 <= b.len() && k < 100_000 { let lsb = b[pos] & 1; pos += 5; if lsb == 0 { match leb(&b[pos.min(b.len())..]) { Some((v, n)) => { if v == 0 { out.insert("seq_len_zero"); } pos += n; } None => break } } k += 1; } }
    if id.starts_with("mmap_vec_open") && b.len() >= 32 { let es: u64 = if id.ends_with("u8") { 1 } else if id.ends_with("u32") { 4 } else { 8 };
        if u64at(b, 0) == Some(0x4D4D41505F564543) && u32at(b, 8) == Some(1) && u32at(b, 12) == Some(es as u32) { let len = u64at(b, 16).unwrap_or(0); let cap = u64at(b, 24).unwrap_or(0); let mapped = ((b.len().max(65536) + 4095) & !4095) as u64; if len <= cap && len.checked_mul(es).and_then(|x| x.checked_add(80)).map_or(true, |n| n > mapped) { out.insert("len_beyond_mapping"); } } }
    if id.starts_with("varint/") { if let Some((cnt, n)) = leb(b) { if cnt > (b.len() - n) as u64 && cnt > 1 << 20 { out.insert("count_gt_input"); } } }
}

/// Large-input families. `huge_trunc`: truncation at / around every 64 KiB chunk boundary, at 2^20 +- 1, near the end; substitution at the
/// chunk boundaries; appended garbage incl. one whole extra chunk. `huge_field`: every 2/4/8-byte field of the header region (offsets 0..24, every
/// 8th offset up to 136, and 1024) maximised, and the 2/4-byte fields +-1 (count one more / one fewer than the elements present), LEB128 prefixes extended.
fn build_huge_mutants(c: &mut Case, tg: &Tgt, fam: &str, v: &Valid, cap: usize) -> Vec<Mutant> {
    let base = &v.bytes; let l = base.len(); let x = v.explen; let r = &mut c.rng; let mut out = Vec::new();
    if fam == "huge_trunc" {
        let mut ks: BTreeSet<usize> = BTreeSet::new();
        for m in 1..=(l / 65536).min(6) { for d in [-1i64, 0, 1, 4, 8, 9] { let k = (m * 65536) as i64 + d; if k > 0 { ks.insert(k as usize); } } }
        for k in [65551usize, 70001, 131074, (1 << 20) - 1, 1 << 20, (1 << 20) + 1, l / 2, l.saturating_sub(65536), l.saturating_sub(65537), l.saturating_sub(4097), l.saturating_sub(2), l.saturating_sub(1)] { ks.insert(k); }
        for _ in 0..8 { ks.insert(r.usize_below(l.max(1))); }
        for k in ks { if k < l { out.push(Mutant { mu: Mu::Trunc(k), explen: x }); } }
        let mut ps: Vec<usize> = vec![65535, 65536, 65537, 131071, 131072, l.saturating_sub(1)]; for _ in 0..12 { ps.push(r.usize_below(l.max(1))); }
        for p in ps { if p < l { let b = base[p]; for val in if tg.text { [b'=', b' ', b ^ 1] } else { [0x00, 0xff, b ^ 0x80] } { if val != b { out.push(Mutant { mu: Mu::Subst(p, val), explen: x }); } } } }
        for g in [r.bytes(1), r.bytes(9), vec![0u8; 65536], r.bytes(65537)] { out.push(Mutant { mu: Mu::Append(g), explen: x }); }
    } else {
        let mut offs: Vec<usize> = (0..24).collect(); offs.extend((32..=136).step_by(8)); offs.push(1024);
        for &off in &offs { for w in [2usize, 4, 8] { if off + w > l || (w == 2 && off >= 8) { continue; }
            for val in [u64::MAX, 0x7fff_ffff_ffff_ffffu64 >> (64 - 8 * w)] { out.push(Mutant { mu: Mu::Field { off, w: w as u8, val }, explen: x }); }
            if w <= 4 && off < 16 { let mut a = [0u8; 8]; a[..w].copy_from_slice(&base[off..off + w]); let cur = u64::from_le_bytes(a); for val in [cur.wrapping_add(1), cur.wrapping_sub(1), cur.wrapping_add(65536)] { out.push(Mutant { mu: Mu::Field { off, w: w as u8, val }, explen: x }); } } } }
        for off in 0..6.min(l) { out.push(Mutant { mu: Mu::Subst(off, base[off] | 0x80), explen: x }); out.push(Mutant { mu: Mu::Subst(off, 0xff), explen: x }); }
    }
    if out.len() > cap { r.shuffle(&mut out); out.truncate(cap); }
    out.insert(0, Mutant { mu: Mu::Id, explen: x }); out
}

// ---------------------------------------------------------------------------------------------
// execution
struct FailRec { i: usize, class: String, detail: String }
#[derive(Default)]
struct ExecOut { fails: Vec<FailRec>, accepted: u64, rejected: u64, calls: u64, skipped: u64, deaths: u64, explen_alloc_ignored: u64 }

fn run_one(v: &mut Valid, tg: &Tgt, m: &Mutant) -> (Option<(String, String)>, bool) {
    let bytes = apply(&v.bytes, &m.mu); let thr = 64 * MIB + tg.alloc_base + 4096 * bytes.len();
    ctx::max_alloc_reset();
    let run = &mut v.run; let r = catch(|| run(&bytes, m.explen)); let ma = ctx::max_alloc();
    let what = || format!("{}{}; input {}", kind_of(&m.mu), if tg.explen { format!(", expected-length argument {}", m.explen) } else { String::new() }, hexs(&bytes));
    match r {
        Err(p) => { let class = if p.msg.contains("capacity overflow") { "panic:capacity_overflow".to_string() } else { pclass(&p) }; (Some((class, format!("panic at {}: {} [{}] (largest allocation request {} B)", p.loc, p.msg, what(), ma))), false) }
        Ok(Err(f)) => (Some((f.oracle, format!("{} [{}]", f.detail, what()))), false),
        // an allocation driven by the harness-chosen expected-length ARGUMENT is not an in-stream field: not asserted (decision D4)
        Ok(Ok(acc)) if ma > thr && tg.explen && m.explen > thr => (None, acc),
        Ok(Ok(acc)) => if ma > thr { (Some(("huge_alloc".to_string(), format!("single allocation request of {ma} B (> 64 MiB + 4096 x {} input bytes) [{}]", bytes.len(), what()))), acc) } else { (None, acc) },
    }
}
/// panic class independent of where the zipora tree / toolchain lives: `panic:src/<file>:<msg>` or `panic:std:<file>:<msg>`
fn pclass(p: &ctx::PanicInfo) -> String {
    let c = p.class(); let Some(rest) = c.strip_prefix("panic:") else { return c };
    if rest.starts_with("/rustc/") { if let Some(i) = rest.find("/library/") { return format!("panic:std:{}", &rest[i + 9..]); } }
    if rest.starts_with('/') { if let Some(i) = rest.find("/src/") { return format!("panic:{}", &rest[i + 1..]); } }
    c
}
fn exec_inproc(v: &mut Valid, tg: &Tgt, muts: &[Mutant]) -> ExecOut {
    let mut o = ExecOut::default();
    for (i, m) in muts.iter().enumerate() { let (f, acc) = run_one(v, tg, m); o.calls += 1; if acc { o.accepted += 1 } else { o.rejected += 1 } if let Some((class, detail)) = f { o.fails.push(FailRec { i, class, detail }); } }
    o
}
fn wr(fd: i32, mut b: &[u8]) { while !b.is_empty() { let n = unsafe { libc::write(fd, b.as_ptr() as *const libc::c_void, b.len()) }; if n <= 0 { unsafe { libc::_exit(97) } } b = &b[n as usize..]; } }
fn vm_size() -> u64 { std::fs::read_to_string("/proc/self/statm").ok().and_then(|s| s.split_whitespace().next().and_then(|x| x.parse::<u64>().ok())).map(|p| p * 4096).unwrap_or(512 << 20) }
fn child_limits(asan: bool) {
    unsafe {
        let mut cur = libc::rlimit { rlim_cur: 0, rlim_max: 0 };
        if !asan && libc::getrlimit(libc::RLIMIT_AS, &mut cur) == 0 { let want = vm_size() + (320u64 << 20); if cur.rlim_cur == libc::RLIM_INFINITY || cur.rlim_cur > want { let l = libc::rlimit { rlim_cur: want, rlim_max: cur.rlim_max }; libc::setrlimit(libc::RLIMIT_AS, &l); } }
        let l = libc::rlimit { rlim_cur: 120, rlim_max: 125 }; libc::setrlimit(libc::RLIMIT_CPU, &l);
        let l = libc::rlimit { rlim_cur: 0, rlim_max: 0 }; libc::setrlimit(libc::RLIMIT_CORE, &l);
    }
}
fn key_line(err: &str) -> String {
    for pat in ["memory allocation of", ": verify(", "has overflowed its stack", "[zv] panic at ", "panicked at", "AddressSanitizer", "fatal runtime error"] { if let Some(i) = err.rfind(pat) { let st = err[..i].rfind('\n').map(|x| x + 1).unwrap_or(0); let l: String = err[st..].lines().next().unwrap_or("").chars().take(300).collect(); return l; } }
    let t: String = err.chars().rev().take(200).collect::<Vec<_>>().into_iter().rev().collect(); t.replace('\n', " | ")
}
/// CPU seconds one parser call may burn (inputs are <= 64 KiB; legitimate calls take micro- to milliseconds)
const PER_INPUT_CPU_S: i64 = 5;
fn arm_timer(secs: i64) { let it = libc::itimerval { it_interval: libc::timeval { tv_sec: 0, tv_usec: 0 }, it_value: libc::timeval { tv_sec: secs, tv_usec: 0 } }; unsafe { libc::setitimer(libc::ITIMER_PROF, &it, std::ptr::null_mut()); } }
fn death_class(status: i32, errtail: &str) -> (String, String) {
    let tail = key_line(errtail);
    if libc::WIFEXITED(status) { return ("unexpected_exit".into(), format!("child exited with status {} in the middle of the batch; stderr: {tail}", libc::WEXITSTATUS(status))); }
    let sig = if libc::WIFSIGNALED(status) { libc::WTERMSIG(status) } else { -1 };
    let class = if errtail.contains("has overflowed its stack") { "stack_overflow".to_string() }
        else if sig == libc::SIGABRT && errtail.contains("memory allocation of") { "huge_alloc".to_string() }
        else if sig == libc::SIGABRT { match errtail.rfind("[zv] panic at ") { Some(i) => { let rest = &errtail[i + 14..]; let loc = rest.split(": ").next().unwrap_or("?"); let f = loc.rsplit_once(':').map(|x| x.0).unwrap_or(loc); let f = match f.find("/src/") { Some(j) => &f[j + 1..], None => f }; format!("abort_panic:{f}") }
            None => match errtail.rfind(": verify(") { Some(i) => { let head = &errtail[..i]; let st = head.rfind(|ch: char| ch.is_whitespace()).map(|x| x + 1).unwrap_or(0); let loc = &head[st..]; let f = loc.rsplit_once(':').map(|x| x.0).unwrap_or(loc); let f = match f.find("/src/") { Some(j) => &f[j + 1..], None => f }; format!("abort_verify:{f}") } None => "abort".to_string() } } }
        else if sig == libc::SIGSEGV { "sigsegv".into() } else if sig == libc::SIGBUS { "sigbus".into() } else if sig == libc::SIGILL { "sigill".into() } else if sig == libc::SIGFPE { "sigfpe".into() }
        else if sig == libc::SIGPROF || sig == libc::SIGXCPU || sig == libc::SIGKILL { "cpu_limit".into() } else { "signal".into() };
    (class, format!("child process killed by signal {sig}; stderr: {tail}"))
}
fn exec_forked(v: &mut Valid, tg: &Tgt, muts: &[Mutant], max_deaths: u64, asan: bool) -> ExecOut {
    let mut o = ExecOut::default(); let mut start = 0usize; let errpath = tmp_dir().join("child-stderr");
    while start < muts.len() {
        let mut fds = [0i32; 2]; if unsafe { libc::pipe(fds.as_mut_ptr()) } != 0 { let mut r = exec_inproc(v, tg, &muts[start..]); for f in &mut r.fails { f.i += start; } o.fails.extend(r.fails); o.calls += r.calls; o.accepted += r.accepted; o.rejected += r.rejected; return o; }
        let _ = std::fs::write(&errpath, b"");
        let pid = unsafe { libc::fork() };
        if pid < 0 { unsafe { libc::close(fds[0]); libc::close(fds[1]); } let mut r = exec_inproc(v, tg, &muts[start..]); for f in &mut r.fails { f.i += start; } o.fails.extend(r.fails); o.calls += r.calls; o.accepted += r.accepted; o.rejected += r.rejected; return o; }
        if pid == 0 {
            // ---- child ----
            unsafe { libc::close(fds[0]); }
            let w = fds[1];
            if let Ok(cp) = std::ffi::CString::new(errpath.to_string_lossy().as_bytes()) { unsafe { let fd = libc::open(cp.as_ptr(), libc::O_WRONLY | libc::O_APPEND | libc::O_CREAT, 0o600); if fd >= 0 { libc::dup2(fd, 2); libc::close(fd); } let dn = libc::open(b"/dev/null\0".as_ptr() as *const libc::c_char, libc::O_WRONLY); if dn >= 0 { libc::dup2(dn, 1); libc::close(dn); } } }
            child_limits(asan); ctx::set_verbose_panics(true); std::env::set_var("RUST_BACKTRACE", "0");
            let (mut acc, mut rej) = (0u64, 0u64);
            for i in start..muts.len() {
                let mut h = [0u8; 5]; h[0] = b'B'; h[1..5].copy_from_slice(&(i as u32).to_le_bytes()); wr(w, &h);
                arm_timer(PER_INPUT_CPU_S); let (f, a) = run_one(v, tg, &muts[i]); arm_timer(0); if a { acc += 1 } else { rej += 1 }
                if let Some((class, detail)) = f { let d: String = detail.chars().take(1300).collect(); let body = format!("{class}\u{0}{d}"); let mut rec = vec![b'F']; rec.extend_from_slice(&(i as u32).to_le_bytes()); rec.extend_from_slice(&(body.len() as u32).to_le_bytes()); rec.extend_from_slice(body.as_bytes()); wr(w, &rec); }
            }
            let mut d = vec![b'D']; d.extend_from_slice(&acc.to_le_bytes()); d.extend_from_slice(&rej.to_le_bytes()); wr(w, &d);
            unsafe { libc::_exit(0) }
        }
        // ---- parent ----
        unsafe { libc::close(fds[1]); }
        let mut buf = Vec::new(); { use std::os::unix::io::FromRawFd; let mut f = unsafe { std::fs::File::from_raw_fd(fds[0]) }; let _ = f.read_to_end(&mut buf); }
        let mut status = 0i32; unsafe { libc::waitpid(pid, &mut status, 0); }
        let (mut p, mut last_begin, mut done) = (0usize, None::<usize>, false);
        while p < buf.len() {
            match buf[p] {
                b'B' if p + 5 <= buf.len() => { last_begin = Some(u32::from_le_bytes([buf[p + 1], buf[p + 2], buf[p + 3], buf[p + 4]]) as usize); o.calls += 1; p += 5; }
                b'F' if p + 9 <= buf.len() => { let i = u32::from_le_bytes([buf[p + 1], buf[p + 2], buf[p + 3], buf[p + 4]]) as usize; let n = u32::from_le_bytes([buf[p + 5], buf[p + 6], buf[p + 7], buf[p + 8]]) as usize; if p + 9 + n > buf.len() { break; }
                    let body = String::from_utf8_lossy(&buf[p + 9..p + 9 + n]).to_string(); let (class, detail) = body.split_once('\u{0}').map(|(a, b)| (a.to_string(), b.to_string())).unwrap_or((body.clone(), String::new())); o.fails.push(FailRec { i, class, detail }); p += 9 + n; }
                b'D' if p + 17 <= buf.len() => { let mut a = [0u8; 8]; a.copy_from_slice(&buf[p + 1..p + 9]); let mut b = [0u8; 8]; b.copy_from_slice(&buf[p + 9..p + 17]); o.accepted += u64::from_le_bytes(a); o.rejected += u64::from_le_bytes(b); done = true; p += 17; }
                _ => break,
            }
        }
        if done { break; }
        // the child died while running mutant `last_begin`
        let i = last_begin.unwrap_or(start); let errtail = std::fs::read(&errpath).map(|b| { let s = b.len().saturating_sub(65536); String::from_utf8_lossy(&b[s..]).to_string() }).unwrap_or_default();
        let (class, why) = death_class(status, &errtail); let m = &muts[i.min(muts.len() - 1)]; let bytes = apply(&v.bytes, &m.mu);
        o.fails.retain(|f| f.i != i);
        if class == "huge_alloc" && tg.explen && m.explen > 64 * MIB + tg.alloc_base + 4096 * bytes.len() { o.explen_alloc_ignored += 1; start = i + 1; continue; }
        o.fails.push(FailRec { i, class, detail: format!("{why} [{}{}; input {}]", kind_of(&m.mu), if tg.explen { format!(", expected-length argument {}", m.explen) } else { String::new() }, hexs(&bytes)) });
        o.deaths += 1; start = i + 1;
        if o.deaths >= max_deaths { o.skipped += (muts.len() - start.min(muts.len())) as u64; break; }
    }
    o
}

fn use_fork() -> bool { !cfg!(miri) && std::env::var("ZV_C15_INPROC").map(|v| v != "1").unwrap_or(true) }

/// One case: valid encoding (or parser context) + the mutant family; verdict from all parser calls.
fn run_family(c: &mut Case, tg: &Tgt, fam: &str, idx: u64, size: usize, cap: usize, max_deaths: u64, asan: bool) -> Res {
    let is_huge = fam.starts_with("huge_");
    let size = if is_huge { size } else { size.min(tg.max_size) };
    if is_huge { let sh = c.rng.below(5) as u32; HUGE_MODE.with(|h| h.set(Some(sh))); }
    let mk = tg.make; let mut made = None; let mut why = String::new();
    for _attempt in 0..4 { // an encoder may refuse a payload family (e.g. FSE on single-symbol data): try another one
        match catch(|| { let mut r = c.rng.fork(); mk(&mut r, size) }) { Ok(Ok(v)) => { made = Some(v); break; } Ok(Err(e)) => why = e, Err(p) => why = format!("encoder panicked at {} ({})", p.loc, p.msg) }
    }
    HUGE_MODE.with(|h| h.set(None));
    let mut v = match made { Some(v) => v, None => return ctx::inconclusive(format!("no valid encoding for size {size}: {why}")) };
    c.input("valid", &v.bytes); c.input_str("payload", &v.info); if tg.explen { c.input_str("true_len", &v.explen.to_string()); }
    c.tag(fam);
    let muts: Vec<Mutant> = match fam {
        "small" => {
            let xs: Vec<usize> = if tg.explen { vec![0, 1, 4] } else { vec![0] }; let mut out = Vec::new();
            if idx == 0 { for b in 0..=255u8 { for &x in &xs { out.push(Mutant { mu: Mu::Replace(vec![b]), explen: x }); } } if out.len() > cap { c.rng.shuffle(&mut out); out.truncate(cap); } out.insert(0, Mutant { mu: Mu::Replace(vec![]), explen: 4 }); }
            else { let chunk = (idx - 1) as usize; // 64 chunks of 4 first-byte values x 256 second bytes
                const QUICK: [usize; 6] = [0, 1, 31, 32, 48, 63]; let chunk = if c.tier == ctx::Tier::Quick { QUICK[chunk % 6] } else { chunk % 64 };
                let mut pairs: Vec<(u8, u8)> = Vec::new(); for a in 0..4u8 { for b in 0..=255u8 { pairs.push(((chunk * 4) as u8 + a, b)); } }
                if pairs.len() > cap { c.rng.shuffle(&mut pairs); pairs.truncate(cap); }
                for (a, b) in pairs { out.push(Mutant { mu: Mu::Replace(vec![a, b]), explen: *c.rng.pick(&xs) }); } }
            c.hash_more(&idx.to_le_bytes()); out
        }
        "rand" => {
            let mut out = Vec::new(); let n = cap.min(400);
            for j in 0..n { let len = if j % 4 == 3 { gen::pick_len(&mut c.rng, 4096) } else { 3 + c.rng.usize_below(62) }; let k = if j % 3 == 0 { 0 } else { c.rng.below(gen::BYTE_KINDS as u64) as u32 };
                let mut b = gen::bytes_kind(&mut c.rng, k, len); if tg.text { for y in b.iter_mut() { if c.rng.chance(9, 10) { *y = b"0123456789abcdefABCDEFGHxyz+/=-_ \n"[(*y % 34) as usize]; } } }
                // splice the head of the valid encoding in front of some of them so that magic/header checks are passed
                if j % 5 == 4 && !v.bytes.is_empty() { let h = 1 + c.rng.usize_below(v.bytes.len().min(160)); let mut s = v.bytes[..h].to_vec(); s.extend_from_slice(&b); b = s; }
                let x = if tg.explen { *c.rng.pick(&[0usize, 1, 7, 64, len, len * 2, 4096]) } else { 0 }; c.hash_more(&b); out.push(Mutant { mu: Mu::Replace(b), explen: x }); }
            out
        }
        "containers" => { let big = catch(|| { let mut r = c.rng.fork(); mk(&mut r, 600.min(tg.max_size)) }).ok().and_then(|r| r.ok()).map(|s| s.bytes).unwrap_or_default();
            let mut out = vec![Mutant { mu: Mu::Id, explen: v.explen }]; for b in containers(tg.id, &big, &mut c.rng) { c.hash_more(&b); out.push(Mutant { mu: Mu::Replace(b), explen: v.explen }); } out }
        "directed" => { let big = catch(|| { let mut r = c.rng.fork(); mk(&mut r, 600.min(tg.max_size)) }).ok().and_then(|r| r.ok()).map(|s| s.bytes).unwrap_or_default();
            let mut out = vec![Mutant { mu: Mu::Id, explen: v.explen }]; for b in directed(tg.id, &big, &mut c.rng) { c.hash_more(&b); out.push(Mutant { mu: Mu::Replace(b), explen: v.explen }); } out }
        "huge_trunc" | "huge_field" => { c.note("huge_valid_len", v.bytes.len() as u64); build_huge_mutants(c, tg, fam, &v, cap) }
        "tail" => { let second = catch(|| { let mut r = c.rng.fork(); mk(&mut r, size + 3) }).ok().and_then(|r| r.ok()).map(|s| s.bytes); build_mutants(c, tg, fam, &v, second.as_deref(), cap) }
        _ => build_mutants(c, tg, fam, &v, None, cap),
    };
    { let mut ts: BTreeSet<&'static str> = BTreeSet::new(); for m in &muts { let b = apply(&v.bytes, &m.mu); tags_for(tg.id, &b, m.explen, &mut ts); } for t in ts { c.tag(t); } }
    c.set_nontrivial(!v.bytes.is_empty() && muts.len() >= 2);
    let o = if use_fork() { exec_forked(&mut v, tg, &muts, max_deaths, asan) } else { exec_inproc(&mut v, tg, &muts) };
    c.ev(o.calls); c.note("accepted", o.accepted); c.note("rejected", o.rejected); c.note("mutants", muts.len() as u64);
    if o.deaths > 0 { c.note("child_deaths", o.deaths); } if o.explen_alloc_ignored > 0 { c.note("explen_arg_alloc_failures_ignored", o.explen_alloc_ignored); } if o.skipped > 0 { c.note("skipped_after_death_cap", o.skipped); }
    if o.fails.is_empty() { return Ok(()); }
    let mut by: BTreeMap<String, (u64, usize)> = BTreeMap::new();
    for (k, f) in o.fails.iter().enumerate() { let e = by.entry(f.class.clone()).or_insert((0, k)); e.0 += 1; }
    for (cl, (n, _)) in &by { c.note(&format!("fail:{cl}"), *n); }
    // several failure classes may occur in one case: rotate which one is reported so that every class surfaces on some case
    let classes: Vec<&String> = by.keys().collect(); let chosen = classes[(idx as usize) % classes.len()].clone(); let (_, k) = by[&chosen]; let f = &o.fails[k];
    let summary: Vec<String> = by.iter().map(|(cl, (n, _))| format!("{cl} x{n}")).collect();
    Err(Fail { oracle: chosen, detail: format!("{} of {} inputs refuted [{}]; witness (input #{}): {}", o.fails.len(), o.calls, summary.join(", "), f.i, f.detail) })
}

/// payload bytes / element counts of the large-input families: just above 2^16, above 2^17, 10^5+, 2^20+1 (only where the target's cap allows)
const HUGE_SIZES: [usize; 6] = [65_551, 70_001, 200_000, 65_537, 131_073, 1_048_577];
/// per-target upper bound of the large-input size (None = no large-input cases: nothing length-dependent is parsed, or one call is too slow)
fn huge_max(id: &str) -> Option<usize> {
    if id == "huff_tree_deser" || id == "complex/array" || id == "cf/none" { return None; }
    if id == "sadict_deser" { return None; } // building the dictionary and every deserialize (suffix array rebuild) cost 0.5-1 s per call on > 64 KiB texts with long runs
    Some(if id.starts_with("huff_decode_x") || id.starts_with("ctxhuff_de") || id.starts_with("pazip") || id.starts_with("simdlz77") || id == "sadict_deser" || id.starts_with("complex/") || id.starts_with("smartptr/") || id == "dict_deser" || id == "decode_matches" { 70_001 }
        else if id.starts_with("mmap_vec_open") || id == "reorder_map_open" || id.starts_with("varint") { 200_000 } else { 1_048_577 })
}
const SIZES_Q: [usize; 10] = [1, 2, 3, 5, 8, 13, 24, 40, 100, 600];
const SIZES_T: [usize; 16] = [1, 2, 3, 4, 6, 9, 16, 33, 64, 100, 200, 400, 1000, 2000, 3000, 150];

pub fn run(ctx: &mut Ctx) {
    let tgs = targets(); let asan = ctx.variant.contains("asan"); let thorough = !ctx.quick() && !ctx.pinned;
    for tg in &tgs {
        if !ctx.wants(tg.id) { continue; }
        let (n_enc, cap, small_chunks, n_rand) = match tg.cost {
            Cost::Fast => (ctx.n(10, 60), if thorough { 20000 } else { 2500 }, ctx.n(4, 64), ctx.n(3, 40)),
            Cost::Med => (ctx.n(8, 50), if thorough { 4000 } else { 500 }, ctx.n(2, 16), ctx.n(2, 20)),
            Cost::Slow => (ctx.n(3, 24), if thorough { 400 } else { 40 }, ctx.n(1, 4), ctx.n(1, 6)),
        };
        let n_enc = (n_enc * tg.share / 100).max(2); let (small_chunks, n_rand) = ((small_chunks * tg.share / 100).max(1), (n_rand * tg.share / 100).max(1));
        let max_deaths = if thorough { 16 } else { 4 };
        let mut fams = vec!["trunc", "subst", "field_small", "field_max", "tail"]; if tg.explen { fams.push("explen_near"); fams.push("explen_huge"); }
        for idx in 0..n_enc as u64 {
            // quick: sizes spread over SIZES_Q so that the largest one is always included
            let size = if !thorough { SIZES_Q[((idx as usize + 1) * SIZES_Q.len() / n_enc).clamp(1, SIZES_Q.len()) - 1] } else { SIZES_T[idx as usize % SIZES_T.len()] + (idx as usize / SIZES_T.len()) };
            for fam in &fams { ctx.case(tg.id, fam, idx, |c| run_family(c, tg, fam, idx, size, cap, max_deaths, asan)); }
        }
        ctx.case(tg.id, "directed", 0, |c| run_family(c, tg, "directed", 0, 24, cap, max_deaths * 4, asan));
        if tg.id.starts_with("fse_decompress") || tg.id.starts_with("remove_fse") { for idx in 0..ctx.n(2, 12) as u64 { ctx.case(tg.id, "containers", idx, |c| run_family(c, tg, "containers", idx, 24, cap, max_deaths * 4, asan)); } }
        for idx in 0..=small_chunks as u64 { ctx.case(tg.id, "small", idx, |c| run_family(c, tg, "small", idx, 24, cap.min(1024), max_deaths, asan)); }
        for idx in 0..n_rand as u64 { ctx.case(tg.id, "rand", idx, |c| run_family(c, tg, "rand", idx, 40, cap, max_deaths, asan)); }
        // large inputs: valid encodings of > 64 KiB payloads / > 65536 elements (sizes rotate with target and index; shape is seeded per case)
        if let Some(hmax) = huge_max(tg.id) {
            let ti = tgs.iter().position(|t| t.id == tg.id).unwrap_or(0); let hcap = (if tg.id == "sadict_deser" { 6 } else if tg.id == "dict_deser" || tg.id.starts_with("simdlz77") { 30 } else if tg.id.starts_with("complex/") || tg.id.starts_with("smartptr/") || tg.id.starts_with("cf/") { 60 } else { match tg.cost { Cost::Fast => 160, Cost::Med => 60, Cost::Slow => 10 } }) * tg.share.max(40) / 100 * if thorough { 3 } else { 1 };
            for idx in 0..ctx.n(1, 12) as u64 { for (fi, fam) in ["huge_trunc", "huge_field"].iter().enumerate() { if tg.text && fi == 1 { continue; }
                let size = HUGE_SIZES[(ti + idx as usize + fi) % HUGE_SIZES.len()].min(hmax);
                ctx.case(tg.id, fam, idx, |c| run_family(c, tg, fam, idx, size, hcap, 2, asan)); } }
        }
    }
    let _ = std::fs::remove_dir_all(tmp_dir());
}
