//! C04 — rank/select answers match the bit-sequence definition in every implementation.
//! Oracle: the definition, evaluated bit by bit on the generating Vec<bool> (prefix sums built once per case).
use crate::ctx::{catch, Case, Ctx, Fail, Res};
use crate::gen;
use zipora::succinct::rank_select::multidim_simd::MultiDimRankSelect;
use zipora::succinct::rank_select::*;
use zipora::succinct::BitVector;

pub struct Def { pub bits: Vec<bool>, pub pre: Vec<usize>, pub pos1: Vec<usize>, pub pos0: Vec<usize>, pub light: bool }
impl Def {
    pub fn new(bits: Vec<bool>) -> Def {
        let n = bits.len(); let mut pre = vec![0usize; n + 1];
        for i in 0..n { pre[i + 1] = pre[i] + bits[i] as usize; }
        let pos1 = (0..n).filter(|&i| bits[i]).collect(); let pos0 = (0..n).filter(|&i| !bits[i]).collect();
        Def { bits, pre, pos1, pos0, light: false }
    }
    pub fn bv(&self) -> BitVector { let mut bv = BitVector::new(); for &b in &self.bits { bv.push(b).unwrap(); } bv }
    pub fn words(&self) -> Vec<u64> { let mut w = vec![0u64; (self.bits.len() + 63) / 64]; for (i, &b) in self.bits.iter().enumerate() { if b { w[i / 64] |= 1u64 << (i % 64); } } w }
    /// positions to probe: everything for short strings, else all block boundaries +-1 plus a random sample
    pub fn probe_positions(&self, c: &mut Case) -> Vec<usize> {
        let n = self.bits.len();
        if n <= 4096 { return (0..=n).collect(); }
        if self.light { // huge inputs: boundary positions around 2^16 / 2^20 / the end plus a small random sample
            let mut ps: Vec<usize> = vec![0, 1, n - 1, n];
            for b in [65535usize, 65536, 65537, 131072, 1 << 20, (1 << 20) + 1, 1 << 21, 1 << 22] { for d in [0usize, 1, 63, 64, 255, 256, 511, 512] { if b + d <= n { ps.push(b + d); } if b >= d && b - d <= n { ps.push(b - d); } } }
            for _ in 0..200 { ps.push(c.rng.usize_below(n + 1)); }
            ps.sort(); ps.dedup(); return ps;
        }
        let mut ps: Vec<usize> = vec![0, n];
        for b in [64usize, 256, 512, 2048, 65536] { let mut k = 0; while k * b <= n { for d in [-1i64, 0, 1] { let p = (k * b) as i64 + d; if p >= 0 && p as usize <= n { ps.push(p as usize); } } k += if b <= 256 && n > 40000 { 1 + c.rng.usize_below(4) } else { 1 }; } }
        for _ in 0..2000 { ps.push(c.rng.usize_below(n + 1)); }
        ps.sort(); ps.dedup(); ps
    }
    pub fn probe_ks(&self, c: &mut Case, total: usize) -> Vec<usize> {
        if total <= 4096 { return (0..total).collect(); }
        if self.light { let mut ks: Vec<usize> = vec![0, total - 1, total / 2]; for b in [65535usize, 65536, 65537, 1 << 20] { if b < total { ks.push(b); } } for _ in 0..40 { ks.push(c.rng.usize_below(total)); } ks.sort(); ks.dedup(); return ks; }
        let mut ks: Vec<usize> = vec![0, total - 1];
        for _ in 0..2000 { ks.push(c.rng.usize_below(total)); }
        let mut k = 0; while k < total { ks.push(k); if k > 0 { ks.push(k - 1); } k += 511 + c.rng.usize_below(3); }
        ks.sort(); ks.dedup(); ks
    }
}

fn bad(oracle: &str, d: String) -> Fail { Fail { oracle: oracle.to_string(), detail: d } }

/// Full definition check of one RankSelectOps implementation.
pub fn check_ops<R: RankSelectOps + ?Sized>(c: &mut Case, rs: &R, d: &Def, select0: bool) -> Res {
    let n = d.bits.len(); let ones = d.pre[n];
    ensure!(rs.len() == n, "len", "len={} want {}", rs.len(), n);
    let co = catch(|| rs.count_ones()).map_err(|p| bad(&p.class(), format!("count_ones panic {}", p.loc)))?;
    ensure!(co == ones, "count_ones", "count_ones={} want {}", co, ones);
    let ps = d.probe_positions(c);
    for &p in &ps {
        let v = catch(|| rs.rank1(p)).map_err(|e| bad("rank1_panic", format!("rank1({p}) n={n}: {} {}", e.loc, e.msg)))?;
        ensure!(v == d.pre[p], "rank1", "rank1({p})={v} want {} (n={n})", d.pre[p]);
        let v0 = catch(|| rs.rank0(p)).map_err(|e| bad("rank0_panic", format!("rank0({p}) n={n}: {} {}", e.loc, e.msg)))?;
        ensure!(v0 == p - d.pre[p], "rank0", "rank0({p})={v0} want {} (n={n})", p - d.pre[p]);
        c.ev(2);
    }
    let gi: Vec<usize> = if n <= 4096 { (0..n).collect() } else { (0..if d.light { 300 } else { 1500 }).map(|_| c.rng.usize_below(n)).collect() };
    for i in gi { let g = catch(|| rs.get(i)).map_err(|e| bad("get_panic", format!("get({i}): {}", e.loc)))?; ensure!(g == Some(d.bits[i]), "get", "get({i})={g:?} want {}", d.bits[i]); c.ev(1); }
    let g = catch(|| rs.get(n)).map_err(|e| bad("get_panic", format!("get(len): {}", e.loc)))?; ensure!(g.is_none(), "get_oob", "get(len={n}) = {g:?}");
    for k in d.probe_ks(c, ones) {
        let r = catch(|| rs.select1(k)).map_err(|e| bad("select1_panic", format!("select1({k}) ones={ones} n={n}: {} {}", e.loc, e.msg)))?;
        match r { Ok(v) if v == d.pos1[k] => {} other => return Err(bad("select1", format!("select1({k})={other:?} want {} (ones={ones} n={n})", d.pos1[k]))) }
        c.ev(1);
        // derived identity
        let rk = rs.rank1(d.pos1[k]); ensure!(rk == k, "rank_select_identity", "rank1(select1({k}))={rk}");
    }
    for k in [ones, ones + 1, usize::MAX] {
        let r = catch(|| rs.select1(k)).map_err(|e| bad("select1_oob_panic", format!("select1({k}) ones={ones}: {} {}", e.loc, e.msg)))?;
        ensure!(r.is_err(), "select1_oob", "select1({k}) with ones={ones} returned {r:?}");
    }
    if select0 {
        let zs = n - ones;
        for k in d.probe_ks(c, zs) {
            let r = catch(|| rs.select0(k)).map_err(|e| bad("select0_panic", format!("select0({k}) zeros={zs} n={n}: {} {}", e.loc, e.msg)))?;
            match r { Ok(v) if v == d.pos0[k] => {} other => return Err(bad("select0", format!("select0({k})={other:?} want {} (zeros={zs} n={n})", d.pos0[k]))) }
            c.ev(1);
        }
        for k in [zs, zs + 1, usize::MAX] {
            let r = catch(|| rs.select0(k)).map_err(|e| bad("select0_oob_panic", format!("select0({k}) zeros={zs}: {} {}", e.loc, e.msg)))?;
            ensure!(r.is_err(), "select0_oob", "select0({k}) with zeros={zs} returned {r:?}");
        }
    }
    Ok(())
}

fn check_perf<R: RankSelectPerformanceOps>(c: &mut Case, rs: &R, d: &Def) -> Res {
    let n = d.bits.len(); let ones = d.pre[n];
    let ps = d.probe_positions(c);
    for &p in &ps {
        let a = rs.rank1_hardware_accelerated(p); ensure!(a == d.pre[p], "rank1_hw", "rank1_hardware_accelerated({p})={a} want {}", d.pre[p]);
        let b = rs.rank1_adaptive(p); ensure!(b == d.pre[p], "rank1_adaptive", "rank1_adaptive({p})={b} want {}", d.pre[p]);
        c.ev(2);
    }
    let bulk = rs.rank1_bulk(&ps); ensure!(bulk.len() == ps.len(), "rank1_bulk", "bulk len");
    for (i, &p) in ps.iter().enumerate() { ensure!(bulk[i] == d.pre[p], "rank1_bulk", "rank1_bulk[{p}]={} want {}", bulk[i], d.pre[p]); }
    let ks = d.probe_ks(c, ones);
    for &k in &ks {
        let a = rs.select1_hardware_accelerated(k); ensure!(matches!(a, Ok(v) if v == d.pos1[k]), "select1_hw", "select1_hardware_accelerated({k})={a:?} want {}", d.pos1[k]);
        let b = rs.select1_adaptive(k); ensure!(matches!(b, Ok(v) if v == d.pos1[k]), "select1_adaptive", "select1_adaptive({k})={b:?} want {}", d.pos1[k]);
        c.ev(2);
    }
    let bs = rs.select1_bulk(&ks);
    match bs { Ok(v) => { ensure!(v.len() == ks.len(), "select1_bulk", "len"); for (i, &k) in ks.iter().enumerate() { ensure!(v[i] == d.pos1[k], "select1_bulk", "select1_bulk[{k}]={} want {}", v[i], d.pos1[k]); } }
        Err(e) => return Err(bad("select1_bulk", format!("err {e} on valid indices"))) }
    ensure!(rs.select1_hardware_accelerated(ones).is_err(), "select1_hw_oob", "k=ones accepted");
    ensure!(rs.select1_adaptive(ones).is_err(), "select1_adaptive_oob", "k=ones accepted");
    let mut bad_ks = ks.clone(); bad_ks.push(ones);
    ensure!(rs.select1_bulk(&bad_ks).is_err(), "select1_bulk_oob", "bulk with k=ones accepted");
    Ok(())
}

fn gen_bits(c: &mut Case, kind: u32, big: bool) -> Def {
    let len = if big { *c.rng.pick(gen::BIT_LENS_BIG) + c.rng.usize_below(3) } else if c.rng.chance(2, 3) { *c.rng.pick(gen::BIT_LENS) } else { c.rng.usize_below(3000) };
    let bits = gen::bits_kind(&mut c.rng, kind, len);
    let d = Def::new(bits);
    let bytes: Vec<u8> = d.words().iter().flat_map(|w| w.to_le_bytes()).collect();
    c.input_str("kind", gen::bit_kind_name(kind)); c.input("bits_le_words", &bytes); c.hash_more(&len.to_le_bytes());
    c.set_nontrivial(len >= 2);
    d
}

macro_rules! ctor { ($e:expr, $name:expr) => { match catch(|| $e) { Ok(Ok(x)) => x, Ok(Err(e)) => return Err(bad("ctor_err", format!("{} constructor failed: {e}", $name))), Err(p) => return Err(bad(&p.class(), format!("{} constructor panicked at {}: {}", $name, p.loc, p.msg))) } } }

pub fn run(ctx: &mut Ctx) {
    let per = ctx.n(10, 260);        // cases per (target, kind)
    let bigper = ctx.n(1, 12);
    for kind in 0..gen::BIT_KINDS {
        for idx in 0..(per + bigper) as u64 {
            let big = idx >= per as u64;
            let g = format!("{}{}", gen::bit_kind_name(kind), if big { "_big" } else { "" });
            ctx.case("il256", &g, idx, |c| { let d = gen_bits(c, kind, big); let rs = ctor!(RankSelectInterleaved256::new(d.bv()), "il256"); check_ops(c, &rs, &d, true)?; check_perf(c, &rs, &d) });
            ctx.case("il256_opts", &g, idx, |c| { let d = gen_bits(c, kind, big);
                let o = BuilderOptions { optimize_select: c.rng.bool(), block_size: *c.rng.pick(&[256usize, 512, 1024]), select_sample_rate: *c.rng.pick(&[1usize, 2, 64, 256, 512, 4096]), enable_simd: c.rng.bool(), prefer_space: c.rng.bool() };
                c.input_str("opts", &format!("{o:?}"));
                let rs = ctor!(<RankSelectInterleaved256 as RankSelectBuilder<RankSelectInterleaved256>>::with_optimizations(d.bv(), o.clone()), "il256_opts"); check_ops(c, &rs, &d, true) });
            ctx.case("se256", &g, idx, |c| { let d = gen_bits(c, kind, big); let (s0, s1) = (c.rng.bool(), c.rng.bool()); c.input_str("speed", &format!("{s0},{s1}")); let rs = ctor!(RankSelectSE256::with_options(d.bv(), s0, s1), "se256"); check_ops(c, &rs, &d, true) });
            ctx.case("se512", &g, idx, |c| { let d = gen_bits(c, kind, big); let (s0, s1) = (c.rng.bool(), c.rng.bool()); c.input_str("speed", &format!("{s0},{s1}")); let rs = ctor!(RankSelectSE512::with_options(d.bv(), s0, s1), "se512"); check_ops(c, &rs, &d, true) });
            ctx.case("simple", &g, idx, |c| { let d = gen_bits(c, kind, big); let rs = ctor!(RankSelectSimple::new(d.bv()), "simple"); check_ops(c, &rs, &d, true)?;
                let rs2 = ctor!(RankSelectSimple::from_words(d.words(), d.bits.len()), "simple_from_words"); check_ops(c, &rs2, &d, true) });
            ctx.case("fewone", &g, idx, |c| { let d = gen_bits(c, kind, big); let p: Vec<u32> = d.pos1.iter().map(|&x| x as u32).collect(); let rs = ctor!(RankSelectFewOne::new(p, d.bits.len()), "fewone"); check_ops(c, &rs, &d, true)?;
                let rs2 = ctor!(RankSelectFewOne::from_bitvector(&d.bv()), "fewone_from_bv"); check_ops(c, &rs2, &d, true) });
            ctx.case("fewzero", &g, idx, |c| { let d = gen_bits(c, kind, big); let p: Vec<u32> = d.pos0.iter().map(|&x| x as u32).collect(); let rs = ctor!(RankSelectFewZero::new(p, d.bits.len()), "fewzero"); check_ops(c, &rs, &d, true)?;
                let rs2 = ctor!(RankSelectFewZero::from_bitvector(&d.bv()), "fewzero_from_bv"); check_ops(c, &rs2, &d, true) });
            ctx.case("adaptive", &g, idx, |c| { let d = gen_bits(c, kind, big); let rs = ctor!(AdaptiveRankSelect::new(d.bv()), "adaptive"); c.note(&format!("impl:{}", rs.implementation_name()), 1); check_ops(c, &rs, &d, true) });
            ctx.case("mixed_il256", &g, idx, |c| { let d0 = gen_bits(c, kind, big); let k1 = c.rng.below(gen::BIT_KINDS as u64) as u32; let d1 = gen_bits(c, k1, false);
                let rs = ctor!(RankSelectMixedIL256::new(d0.bv(), d1.bv()), "mixed"); check_ops(c, &rs.dim0(), &d0, false)?; check_ops(c, &rs.dim1(), &d1, false)?;
                for (dim, d) in [(0usize, &d0), (1, &d1)] { let n = d.bits.len(); ensure!(rs.size_dim(dim) == n, "mixed_size", "size_dim"); ensure!(rs.max_rank1_dim(dim) == d.pre[n], "mixed_max_rank", "max_rank1_dim");
                    for _ in 0..200 { let p = c.rng.usize_below(n + 1); ensure!(rs.rank1_dim(dim, p) == d.pre[p], "mixed_rank1_dim", "rank1_dim({dim},{p})"); ensure!(rs.rank0_dim(dim, p) == p - d.pre[p], "mixed_rank0_dim", "rank0_dim({dim},{p})"); } }
                Ok(()) });
            ctx.case("bitvector", &g, idx, |c| { let d = gen_bits(c, kind, big); let bv = d.bv(); let n = d.bits.len();
                ensure!(bv.len() == n, "len", "bv.len"); ensure!(bv.count_ones() == d.pre[n], "count_ones", "count_ones {} want {}", bv.count_ones(), d.pre[n]); ensure!(bv.count_zeros() == n - d.pre[n], "count_zeros", "count_zeros");
                let ps = d.probe_positions(c);
                for &p in &ps { let v = catch(|| bv.rank1(p)).map_err(|e| bad("rank1_panic", format!("BitVector::rank1({p}) {}", e.loc)))?; ensure!(v == d.pre[p], "rank1", "BitVector::rank1({p})={v} want {}", d.pre[p]);
                    let v0 = bv.rank0(p); ensure!(v0 == p - d.pre[p], "rank0", "BitVector::rank0({p})={v0}"); c.ev(2); }
                let bulk = bv.rank1_bulk_simd(&ps); for (i, &p) in ps.iter().enumerate() { ensure!(bulk[i] == d.pre[p], "rank1_bulk_simd", "rank1_bulk_simd[{p}]={} want {}", bulk[i], d.pre[p]); }
                let raw = ctor!(BitVector::from_raw_bits(d.words(), n), "from_raw_bits"); for &p in ps.iter().take(300) { ensure!(raw.rank1(p) == d.pre[p], "rank1_from_raw", "from_raw_bits rank1({p})"); }
                for i in 0..n.min(600) { ensure!(bv.get(i) == Some(d.bits[i]), "get", "get({i})"); } ensure!(bv.get(n).is_none(), "get_oob", "get(len)");
                Ok(()) });
            ctx.case("bulk_simd_fns", &g, idx, |c| { let d = gen_bits(c, kind, big); let w = d.words(); let n = d.bits.len(); let ones = d.pre[n];
                // the free functions see whole words; positions/indices restricted to the defined range
                let ps: Vec<usize> = d.probe_positions(c); let r = bulk_rank1_simd(&w, &ps); ensure!(r.len() == ps.len(), "bulk_rank1_simd", "len");
                for (i, &p) in ps.iter().enumerate() { ensure!(r[i] == d.pre[p], "bulk_rank1_simd", "bulk_rank1_simd pos {p} = {} want {}", r[i], d.pre[p]); }
                let ks = d.probe_ks(c, ones); match bulk_select1_simd(&w, &ks) { Ok(v) => { for (i, &k) in ks.iter().enumerate() { ensure!(v[i] == d.pos1[k], "bulk_select1_simd", "k={k} got {} want {}", v[i], d.pos1[k]); } } Err(e) => return Err(bad("bulk_select1_simd", format!("err on valid ks: {e}"))) }
                let pc = bulk_popcount_simd(&w); ensure!(pc.len() == w.len(), "bulk_popcount_simd", "len"); for (i, x) in w.iter().enumerate() { ensure!(pc[i] == x.count_ones() as usize, "bulk_popcount_simd", "word {i}"); }
                c.ev((ps.len() + ks.len() + w.len()) as u64); Ok(()) });
            ctx.case("multidim3", &g, idx, |c| { let d = gen_bits(c, kind, big); let n = d.bits.len(); if n == 0 { return Ok(()); }
                let k1 = c.rng.below(gen::BIT_KINDS as u64) as u32; let d1 = Def::new(gen::bits_kind(&mut c.rng, k1, n)); let d2 = Def::new(gen::bits_kind(&mut c.rng, 2, n));
                let m: MultiDimRankSelect<3> = ctor!(MultiDimRankSelect::<3>::new(vec![d.bv(), d1.bv(), d2.bv()]), "multidim");
                let ds = [&d, &d1, &d2];
                for _ in 0..300 { let ps = [c.rng.usize_below(n + 1), c.rng.usize_below(n + 1), c.rng.usize_below(n + 1)]; let r = m.bulk_rank_multidim(&ps); for j in 0..3 { ensure!(r[j] == ds[j].pre[ps[j]], "multidim_rank", "dim {j} pos {} got {} want {}", ps[j], r[j], ds[j].pre[ps[j]]); } c.ev(3); }
                if ds.iter().all(|x| !x.pos1.is_empty()) { for _ in 0..300 { let ks = [c.rng.usize_below(ds[0].pos1.len()), c.rng.usize_below(ds[1].pos1.len()), c.rng.usize_below(ds[2].pos1.len())]; match m.bulk_select_multidim(&ks) { Ok(r) => for j in 0..3 { ensure!(r[j] == ds[j].pos1[ks[j]], "multidim_select", "dim {j} k {} got {} want {}", ks[j], r[j], ds[j].pos1[ks[j]]); }, Err(e) => return Err(bad("multidim_select", format!("err {e}"))) } c.ev(3); } }
                let inter = ctor!(m.intersect_dimensions(0, 1), "intersect"); ensure!(inter.len() == n, "multidim_intersect", "len"); for i in 0..n.min(5000) { ensure!(inter.get(i) == Some(d.bits[i] && d1.bits[i]), "multidim_intersect", "bit {i}"); }
                let un = ctor!(m.union_dimensions(&[0, 2]), "union"); for i in 0..n.min(5000) { ensure!(un.get(i) == Some(d.bits[i] || d2.bits[i]), "multidim_union", "bit {i}"); }
                Ok(()) });
        }
    }
    // huge_ families: bit strings far beyond one superblock / 2^16 / 2^20 positions (sampled probes, O(n) oracle)
    for kind in 0..gen::BIT_KINDS {
        for idx in 0..ctx.n(1, 6) as u64 {
            let g = format!("huge_{}", gen::bit_kind_name(kind));
            let mk = |c: &mut Case| -> Def { let len = *c.rng.pick(&[65535usize, 65536, 65537, 262143, 262145, 1048575, 1048576, 1048577, 2097153, 4194305]) + c.rng.usize_below(2) * 64;
                let bits = gen::bits_kind(&mut c.rng, kind, len); let mut d = Def::new(bits); d.light = true; c.input_str("kind", gen::bit_kind_name(kind)); c.input_str("len", &len.to_string());
                let w = d.words(); let bytes: Vec<u8> = w.iter().take(4096).flat_map(|x| x.to_le_bytes()).collect(); c.input("first_words", &bytes); c.set_nontrivial(true); d };
            ctx.case("il256", &g, idx, |c| { let d = mk(c); let rs = ctor!(RankSelectInterleaved256::new(d.bv()), "il256"); check_ops(c, &rs, &d, true)?; check_perf(c, &rs, &d) });
            ctx.case("il256_opts", &g, idx, |c| { let d = mk(c); let rs = ctor!(RankSelectInterleaved256::with_options(d.bv(), false, 512), "il256_nocache"); check_ops(c, &rs, &d, true) });
            ctx.case("se256", &g, idx, |c| { let d = mk(c); let (s0, s1) = (c.rng.bool(), c.rng.bool()); let rs = ctor!(RankSelectSE256::with_options(d.bv(), s0, s1), "se256"); check_ops(c, &rs, &d, true) });
            ctx.case("se512", &g, idx, |c| { let d = mk(c); let (s0, s1) = (c.rng.bool(), c.rng.bool()); let rs = ctor!(RankSelectSE512::with_options(d.bv(), s0, s1), "se512"); check_ops(c, &rs, &d, true) });
            ctx.case("simple", &g, idx, |c| { let d = mk(c); let rs = ctor!(RankSelectSimple::new(d.bv()), "simple"); check_ops(c, &rs, &d, true) });
            ctx.case("adaptive", &g, idx, |c| { let d = mk(c); let rs = ctor!(AdaptiveRankSelect::new(d.bv()), "adaptive"); c.note(&format!("impl:{}", rs.implementation_name()), 1); check_ops(c, &rs, &d, true) });
            ctx.case("fewone", &g, idx, |c| { let d = mk(c); if d.pos1.len() > 400_000 { return Ok(()); } let p: Vec<u32> = d.pos1.iter().map(|&x| x as u32).collect(); let rs = ctor!(RankSelectFewOne::new(p, d.bits.len()), "fewone"); check_ops(c, &rs, &d, true) });
            ctx.case("fewzero", &g, idx, |c| { let d = mk(c); if d.pos0.len() > 400_000 { return Ok(()); } let p: Vec<u32> = d.pos0.iter().map(|&x| x as u32).collect(); let rs = ctor!(RankSelectFewZero::new(p, d.bits.len()), "fewzero"); check_ops(c, &rs, &d, true) });
            ctx.case("bitvector", &g, idx, |c| { let d = mk(c); let bv = d.bv(); let n = d.bits.len(); ensure!(bv.count_ones() == d.pre[n], "count_ones", "count_ones {} want {}", bv.count_ones(), d.pre[n]);
                let ps = d.probe_positions(c); for &p in &ps { ensure!(bv.rank1(p) == d.pre[p], "rank1", "BitVector::rank1({p})={} want {}", bv.rank1(p), d.pre[p]); c.ev(1); }
                let bulk = bv.rank1_bulk_simd(&ps); for (i, &p) in ps.iter().enumerate() { ensure!(bulk[i] == d.pre[p], "rank1_bulk_simd", "rank1_bulk_simd[{p}]"); } Ok(()) });
        }
    }
    // trivial implementations + dual adaptive
    for idx in 0..ctx.n(30, 400) as u64 {
        ctx.case("allzero", "len", idx, |c| { let n = if c.rng.bool() { *c.rng.pick(gen::BIT_LENS) } else { c.rng.usize_below(70000) }; c.input_str("n", &n.to_string()); c.set_nontrivial(n >= 2); let d = Def::new(vec![false; n]); check_ops(c, &RankSelectAllZero::new(n), &d, true) });
        ctx.case("allone", "len", idx, |c| { let n = if c.rng.bool() { *c.rng.pick(gen::BIT_LENS) } else { c.rng.usize_below(70000) }; c.input_str("n", &n.to_string()); c.set_nontrivial(n >= 2); let d = Def::new(vec![true; n]); check_ops(c, &RankSelectAllOne::new(n), &d, true) });
        ctx.case("adaptive_dual", "mixed", idx, |c| { let k = c.rng.below(gen::BIT_KINDS as u64) as u32; let d = gen_bits(c, k, false); let n = d.bits.len(); let other = gen::bits_kind(&mut c.rng, 2, n); let bv2 = Def::new(other).bv();
            let rs = ctor!(AdaptiveMultiDimensional::new_dual(d.bv(), bv2), "adaptive_dual"); check_ops(c, &rs, &d, true) });
    }
}
