//! C04 — rank/select answers match the bit-sequence definition in every implementation.
//! Oracle: the definition, evaluated bit by bit on the generating Vec<bool> (prefix sums built once per case).
use crate::ctx::{catch, Case, Ctx, Fail, Res};
use crate::gen;
use zipora::succinct::rank_select::multidim_simd::MultiDimRankSelect;
use zipora::succinct::rank_select::*;
use zipora::succinct::BitVector;

pub struct Def { pub bits: Vec<bool>, pub pre: Vec<usize>, pub pos1: Vec<usize>, pub pos0: Vec<usize>, pub light: bool }
impl Def {
    pub fn new(bits: Vec<bool>) -> Def {
        let n = bits.len(); let mut pre = vec![0usize; n + 1];
        for i in 0..n { pre[i + 1] = pre[i] + bits[i] as usize; }
        let pos1 = (0..n).filter(|&i| bits[i]).collect(); let pos0 = (0..n).filter(|&i| !bits[i]).collect();
        Def { bits, pre, pos1, pos0, light: false }
    }
    pub fn bv(&self) -> BitVector { let mut bv = BitVector::new(); for &b in &self.bits { bv.push(b).unwrap(); } bv }
    pub fn words(&self) -> Vec<u64> { let mut w = vec![0u64; (self.bits.len() + 63) / 64]; for (i, &b) in self.bits.iter().enumerate() { if b { w[i / 64] |= 1u64 << (i % 64); } } w }
    /// positions to probe: everything for short strings, else all block boundaries +-1 plus a random sample
    pub fn probe_positions(&self, c: &mut Case) -> Vec<usize> {
        let n = self.bits.len();
        if n <= 4096 { return (0..=n).collect(); }
        if self.light { // huge inputs: boundary positions around 2^16 / 2^20 / the end plus a small random sample
            let mut ps: Vec<usize> = vec![0, 1, n - 1, n];
            for b in [65535usize, 65536, 65537, 131072, 1 << 20, (1 << 20) + 1, 1 << 21, 1 << 22] { for d in [0usize, 1, 63, 64, 255, 256, 511, 512] { if b + d <= n { ps.push(b + d); } if b >= d && b - d <= n { ps.push(b - d); } } }
            for _ in 0..200 { ps.push(c.rng.usize_below(n + 1)); }
            ps.sort(); ps.dedup(); return ps;
        }
        let mut ps: Vec<usize> = vec![0, n];
        for b in [64usize, 256, 512, 2048, 65536] { let mut k = 0; while k * b <= n { for d in [-1i64, 0, 1] { let p = (k * b) as i64 + d; if p >= 0 && p as usize <= n { ps.push(p as usize); } } k += if b <= 256 && n > 40000 { 1 + c.rng.usize_below(4) } else { 1 }; } }
        for _ in 0..2000 { ps.push(c.rng.usize_below(n + 1)); }
        ps.sort(); ps.dedup(); ps
    }
    pub fn probe_ks(&self, c: &mut Case, total: usize) -> Vec<usize> {
        if total <= 4096 { return (0..total).collect(); }
        if self.light { let mut ks: Vec<usize> = vec![0, total - 1, total / 2]; for b in [65535usize, 65536, 65537, 1 << 20] { if b < total { ks.push(b); } } for _ in 0..40 { ks.push(c.rng.usize_below(total)); } ks.sort(); ks.dedup(); return ks; }
        let mut ks: Vec<usize> = vec![0, total - 1];
        for _ in 0..2000 { ks.push(c.rng.usize_below(total)); }
        let mut k = 0; while k < total { ks.push(k); if k > 0 { ks.push(k - 1); } k += 511 + c.rng.usize_below(3); }
        ks.sort(); ks.dedup(); ks
    }
}

fn bad(oracle: &str, d: String) -> Fail { Fail { oracle: oracle.to_string(), detail: d } }

/// Full definition check of one RankSelectOps implementation.
pub fn check_ops<R: RankSelectOps + ?Sized>(c: &mut Case, rs: &R, d: &Def, select0: bool) -> Res {
    let n = d.bits.len(); let ones = d.pre[n];
    ensure!(rs.len() == n, "len", "len={} want {}", rs.len(), n);
    let co = catch(|| rs.count_ones()).map_err(|p| bad(&p.class(), format!("count_ones panic {}", p.loc)))?;
    ensure!(co == ones, "count_ones", "count_ones={} want {}", co, ones);
    let ps = d.probe_positions(c);
    for &p in &ps {
        let v = catch(|| rs.rank1(p)).map_err(|e| bad("rank1_panic", format!("rank1({p}) n={n}: {} {}", e.loc, e.msg)))?;
        ensure!(v == d.pre[p], "rank1", "rank1({p})={v} want {} (n={n})", d.pre[p]);
        let v0 = catch(|| rs.rank0(p)).map_err(|e| bad("rank0_panic", format!("rank0({p}) n={n}: {} {}", e.loc, e.msg)))?;
        ensure!(v0 == p - d.pre[p], "rank0", "rank0({p})={v0} want {} (n={n})", p - d.pre[p]);
        c.ev(2);
    }
    let gi: Vec<usize> = if n <= 4096 { (0..n).collect() } else { (0..if d.light { 300 } else { 1500 }).map(|_| c.rng.usize_below(n)).collect() };
    for i in gi { let g = catch(|| rs.get(i)).map_err(|e| bad("get_panic", format!("get({i}): {}", e.loc)))?; ensure!(g == Some(d.bits[i]), "get", "get({i})={g:?} want {}", d.bits[i]); c.ev(1); }
    let g = catch(|| rs.get(n)).map_err(|e| bad("get_panic", format!("get(len): {}", e.loc)))?; ensure!(g.is_none(), "get_oob", "get(len={n}) = {g:?}");
    for k in d.probe_ks(c, ones) {
        let r = catch(|| rs.select1(k)).map_err(|e| bad("select1_panic", format!("select1({k}) ones={ones} n={n}: {} {}", e.loc, e.msg)))?;
        match r { Ok(v) if v == d.pos1[k] => {} other => return Err(bad("select1", format!("select1({k})={other:?} want {} (ones={ones} n={n})", d.pos1[k]))) }
        c.ev(1);
        // derived identity
        let rk = rs.rank1(d.pos1[k]); ensure!(rk == k, "rank_select_identity", "rank1(select1({k}))={rk}");
    }
    for k in [ones, ones + 1, usize::MAX] {
        let r = catch(|| rs.select1(k)).map_err(|e| bad("select1_oob_panic", format!("select1({k}) ones={ones}: {} {}", e.loc, e.msg)))?;
        ensure!(r.is_err(), "select1_oob", "select1({k}) with ones={ones} returned {r:?}");
    }
    if select0 {
        let zs = n - ones;
        for k in d.probe_ks(c, zs) {
            let r = catch(|| rs.select0(k)).map_err(|e| bad("select0_panic", format!("select0({k}) zeros={zs} n={n}: {} {}", e.loc, e.msg)))?;
            match r { Ok(v) if v == d.pos0[k] => {} other => return Err(bad("select0", format!("select0({k})={other:?} want {} (zeros={zs} n={n})", d.pos0[k]))) }
            c.ev(1);
        }
        for k in [zs, zs + 1, usize::MAX] {
            let r = catch(|| rs.select0(k)).map_err(|e| bad("select0_oob_panic", format!("select0({k}) zeros={zs}: {} {}", e.loc, e.msg)))?;
            ensure!(r.is_err(), "select0_oob", "select0({k}) with zeros={zs} returned {r:?}");
        }
    }
    Ok(())
}

fn check_perf<R: RankSelectPerformanceOps>(c: &mut Case, rs: &R, d: &Def) -> Res {
    let n = d.bits.len(); let ones = d.pre[n];
    let ps = d.probe_positions(c);
    for &p in &ps {
        let a = rs.rank1_hardware_accelerated(p); ensure!(a == d.pre[p], "rank1_hw", "rank1_hardware_accelerated({p})={a} want {}", d.pre[p]);
        let b = rs.rank1_adaptive(p); ensure!(b == d.pre[p], "rank1_adaptive", "rank1_adaptive({p})={b} want {}", d.pre[p]);
        c.ev(2);
    }
    let bulk = rs.rank1_bulk(&ps); ensure!(bulk.len() == ps.len(), "rank1_bulk", "bulk len");
    for (i, &p) in ps.iter().enumerate() { ensure!(bulk[i] == d.pre[p], "rank1_bulk", "rank1_bulk[{p}]={} want {}", bulk[i], d.pre[p]); }
    let ks = d.probe_ks(c, ones);
    for &k in &ks {
        let a = rs.select1_hardware_accelerated(k); ensure!(matches!(a, Ok(v) if v == d.pos1[k]), "select1_hw", "select1_hardware_accelerated({k})={a:?} want {}", d.pos1[k]);
        let b = rs.select1_adaptive(k); ensure!(matches!(b, Ok(v) if v == d.pos1[k]), "select1_adaptive", "select1_adaptive({k})={b:?} want {}", d.pos1[k]);
        c.ev(2);
    }
    let bs = rs.select1_bulk(&ks);
    match bs { Ok(v) => { ensure!(v.len() == ks.len(), "select1_bulk", "len"); for (i, &k) in ks.iter().enumerate() { ensure!(v[i] == d.pos1[k], "select1_bulk", "select1_bulk[{k}]={} want {}", v[i], d.pos1[k]); } }
        Err(e) => return Err(bad("select1_bulk", format!("err {e} on valid indices"))) }
    ensure!(rs.select1_hardware_accelerated(ones).is_err(), "select1_hw_oob", "k=ones accepted");
    ensure!(rs.select1_adaptive(ones).is_err(), "select1_adaptive_oob", "k=ones accepted");
    let mut bad_ks = ks.clone(); bad_ks.push(ones);
    ensure!(rs.select1_bulk(&bad_ks).is_err(), "select1_bulk_oob", "bulk with k=ones accepted");
    Ok(())
}

fn gen_bits(c: &mut Case, kind: u32, big: bool) -> Def {
    let len = if big { *c.rng.pick(gen::BIT_LENS_BIG) + c.rng.usize_below(3) } else if c.rng.chance(2, 3) { *c.rng.pick(gen::BIT_LENS) } else { c.rng.usize_below(3000) };
    let bits = gen::bits_kind(&mut c.rng, kind, len);
    let d = Def::new(bits);
    let bytes: Vec<u8> = d.words().iter().flat_map(|w| w.to_le_bytes()).collect();
    c.input_str("kind", gen::bit_kind_name(kind)); c.input("bits_le_words", &bytes); c.hash_more(&len.to_le_bytes());
    c.set_nontrivial(len >= 2);
    d
}

macro_rules! ctor { ($e:expr, $name:expr) => { match catch(|| $e) { Ok(Ok(x)) => x, Ok(Err(e)) => return Err(bad("ctor_err", format!("{} constructor failed: {e}", $name))), Err(p) => return Err(bad(&p.class(), format!("{} constructor panicked at {}: {}", $name, p.loc, p.msg))) } } }

pub fn run(ctx: &mut Ctx) {
    let per = ctx.n(10, 260);        // cases per (target, kind)
    let bigper = ctx.n(1, 12);
    for kind in 0..gen::BIT_KINDS {
        for idx in 0..(per + bigper) as u64 {
            let big = idx >= per as u64;
            let g = format!("{}{}", gen::bit_kind_name(kind), if big { "_big" } else { "" });
            ctx.case("il256", &g, idx, |c| { let d = gen_bits(c, kind, big); let rs = ctor!(RankSelectInterleaved256::new(d.bv()), "il256"); check_ops(c, &rs, &d, true)?; check_perf(c, &rs, &d) });
            ctx.case("il256_opts", &g, idx, |c| { let d = gen_bits(c, kind, big);
                let o = BuilderOptions { optimize_select: c.rng.bool(), block_size: *c.rng.pick(&[256usize, 512, 1024]), select_sample_rate: *c.rng.pick(&[1usize, 2, 64, 256, 512, 4096]), enable_simd: c.rng.bool(), prefer_space: c.rng.bool() };
                c.input_str("opts", &format!("{o:?}"));
                let rs = ctor!(<RankSelectInterleaved256 as RankSelectBuilder<RankSelectInterleaved256>>::with_optimizations(d.bv(), o.clone()), "il256_opts"); check_ops(c, &rs, &d, true) });
            ctx.case("se256", &g, idx, |c| { let d = gen_bits(c, kind, big); let (s0, s1) = (c.rng.bool(), c.rng.bool()); c.input_str("speed", &format!("{s0},{s1}")); let rs = ctor!(RankSelectSE256::with_options(d.bv(), s0, s1), "se256"); check_ops(c, &rs, &d, true) });
            ctx.case("se512", &g, idx, |c| { let d = gen_bits(c, kind, big); let (s0, s1) = (c.rng.bool(), c.rng.bool()); c.input_str("speed", &format!("{s0},{s1}")); let rs = ctor!(RankSelectSE512::with_options(d.bv(), s0, s1), "se512"); check_ops(c, &rs, &d, true) });
            ctx.case("simple", &g, idx, |c| { let d = gen_bits(c, kind, big); let rs = ctor!(RankSelectSimple::new(d.bv()), "simple"); check_ops(c, &rs, &d, true)?;
                let rs2 = ctor!(RankSelectSimple::from_words(d.words(), d.bits.len()), "simple_from_words"); check_ops(c, &rs2, &d, true) });
            ctx.case("fewone", &g, idx, |c| { let d = gen_bits(c, kind, big); let p: Vec<u32> = d.pos1.iter().map(|&x| x as u32).collect(); let rs = ctor!(RankSelectFewOne::new(p, d.bits.len()), "fewone"); check_ops(c, &rs, &d, true)?;
                let rs2 = ctor!(RankSelectFewOne::from_bitvector(&d.bv()), "fewone_from_bv"); check_ops(c, &rs2, &d, true) });
            ctx.case("fewzero", &g, idx, |c| { let d = gen_bits(c, kind, big); let p: Vec<u32> = d.pos0.iter().map(|&x| x as u32).collect(); let rs = ctor!(RankSelectFewZero::new(p, d.bits.len()), "fewzero"); check_ops(c, &rs, &d, true)?;
                let rs2 = ctor!(RankSelectFewZero::from_bitvector(&d.bv()), "fewzero_from_bv"); check_ops(c, &rs2, &d, true) });
            ctx.case("adaptive", &g, idx, |c| { let d = gen_bits(c, kind, big); let rs = ctor!(AdaptiveRankSelect::new(d.bv()), "adaptive"); c.note(&format!("impl:{}", rs.implementation_name()), 1); check_ops(c, &rs, &d, true) });
            ctx.case("mixed_il256", &g, idx, |c| { let d0 = gen_bits(c, kind, big); let k1 = c.rng.below(gen::BIT_KINDS as u64) as u32; let d1 = gen_bits(c, k1, false);
                let rs = ctor!(RankSelectMixedIL256::new(d0.bv(), d1.bv()), "mixed"); check_ops(c, &rs.dim0(), &d0, false)?; check_ops(c, &rs.dim1(), &d1, false)?;
                for (dim, d) in [(0usize, &d0), (1, &d1)] { let n = d.bits.len(); ensure!(rs.size_dim(dim) == n, "mixed_size", "size_dim"); ensure!(rs.max_rank1_dim(dim) == d.pre[n], "mixed_max_rank", "max_rank1_dim");
                    for _ in 0..200 { let p = c.rng.usize_below(n + 1); ensure!(rs.rank1_dim(dim, p) == d.pre[p], "mixed_rank1_dim", "rank1_dim({dim},{p})"); ensure!(rs.rank0_dim(dim, p) == p - d.pre[p], "mixed_rank0_dim", "rank0_dim({dim},{p})"); } }
                Ok(()) });
            ctx.case("bitvector", &g, idx, |c| { let d = gen_bits(c, kind, big); let bv = d.bv(); let n = d.bits.len();
                ensure!(bv.len() == n, "len", "bv.len"); ensure!(bv.count_ones() == d.pre[n], "count_ones", "count_ones {} want {}", bv.count_ones(), d.pre[n]); ensure!(bv.count_zeros() == n - d.pre[n], "count_zeros", "count_zeros");
                let ps = d.probe_positions(c);
                for &p in &ps { let v = catch(|| bv.rank1(p)).map_err(|e| bad("rank1_panic", format!("BitVector::rank1({p}) {}", e.loc)))?; ensure!(v == d.pre[p], "rank1", "BitVector::rank1({p})={v} want {}", d.pre[p]);
                    let v0 = bv.rank0(p); ensure!(v0 == p - d.pre[p], "rank0", "BitVector::rank0({p})={v0}"); c.ev(2); }
                let bulk = bv.rank1_bulk_simd(&ps); for (i, &p) in ps.iter().enumerate() { ensure!(bulk[i] == d.pre[p], "rank1_bulk_simd", "rank1_bulk_simd[{p}]={} want {}", bulk[i], d.pre[p]); }
                let raw = ctor!(BitVector::from_raw_bits(d.words(), n), "from_raw_bits"); for &p in ps.iter().take(300) { ensure!(raw.rank1(p) == d.pre[p], "rank1_from_raw", "from_raw_bits rank1({p})"); }
                for i in 0..n.min(600) { ensure!(bv.get(i) == Some(d.bits[i]), "get", "get({i})"); } ensure!(bv.get(n).is_none(), "get_oob", "get(len)");
                Ok(()) });
            ctx.case("bulk_simd_fns", &g, idx, |c| { let d = gen_bits(c, kind, big); let w = d.words(); let n = d.bits.len(); let ones = d.pre[n];
                // the free functions see whole words; positions/indices restricted to the defined range
                let ps: Vec<usize> = d.probe_positions(c); let r = bulk_rank1_simd(&w, &ps); ensure!(r.len() == ps.len(), "bulk_rank1_simd", "len");
                for (i, &p) in ps.iter().enumerate() { ensure!(r[i] == d.pre[p], "bulk_rank1_simd", "bulk_rank1_simd pos {p} = {} want {}", r[i], d.pre[p]); }
                let ks = d.probe_ks(c, ones); match bulk_select1_simd(&w, &ks) { Ok(v) => { for (i, &k) in ks.iter().enumerate() { ensure!(v[i] == d.pos1[k], "bulk_select1_simd", "k={k} got {} want {}", v[i], d.pos1[k]); } } Err(e) => return Err(bad("bulk_select1_simd", format!("err on valid ks: {e}"))) }
                let pc = bulk_popcount_simd(&w); ensure!(pc.len() == w.len(), "bulk_popcount_simd", "len"); for (i, x) in w.iter().enumerate() { ensure!(pc[i] == x.count_ones() as usize, "bulk_popcount_simd", "word {i}"); }
                c.ev((ps.len() + ks.len() + w.len()) as u64); Ok(()) });
            ctx.case("multidim3", &g, idx, |c| { let d = gen_bits(c, kind, big); let n = d.bits.len(); if n == 0 { return Ok(()); }
                let k1 = c.rng.below(gen::BIT_KINDS as u64) as u32; let d1 = Def::new(gen::bits_kind(&mut c.rng, k1, n)); let d2 = Def::new(gen::bits_kind(&mut c.rng, 2, n));
                let m: MultiDimRankSelect<3> = ctor!(MultiDimRankSelect::<3>::new(vec![d.bv(), d1.bv(), d2.bv()]), "multidim");
                let ds = [&d, &d1, &d2];
                for _ in 0..300 { let ps = [c.rng.usize_below(n + 1), c.rng.usize_below(n + 1), c.rng.usize_below(n + 1)]; let r = m.bulk_rank_multidim(&ps); for j in 0..3 { ensure!(r[j] == ds[j].pre[ps[j]], "multidim_rank", "dim {j} pos {} got {} want {}", ps[j], r[j], ds[j].pre[ps[j]]); } c.ev(3); }
                if ds.iter().all(|x| !x.pos1.is_empty()) { for _ in 0..300 { let ks = [c.rng.usize_below(ds[0].pos1.len()), c.rng.usize_below(ds[1].pos1.len()), c.rng.usize_below(ds[2].pos1.len())]; match m.bulk_select_multidim(&ks) { Ok(r) => for j in 0..3 { ensure!(r[j] == ds[j].pos1[ks[j]], "multidim_select", "dim {j} k {} got {} want {}", ks[j], r[j], ds[j].pos1[ks[j]]); }, Err(e) => return Err(bad("multidim_select", format!("err {e}"))) } c.ev(3); } }
                let inter = ctor!(m.intersect_dimensions(0, 1), "intersect"); ensure!(inter.len() == n, "multidim_intersect", "len"); for i in 0..n.min(5000) { ensure!(inter.get(i) == Some(d.bits[i] && d1.bits[i]), "multidim_intersect", "bit {i}"); }
                let un = ctor!(m.union_dimensions(&[0, 2]), "union"); for i in 0..n.min(5000) { ensure!(un.get(i) == Some(d.bits[i] || d2.bits[i]), "multidim_union", "bit {i}"); }
                Ok(()) });
        }
    }
    // huge_ families: bit strings far beyond one superblock / 2^16 / 2^20 positions (sampled probes, O(n) oracle)
    for kind in 0..gen::BIT_KINDS {
        for idx in 0..ctx.n(1, 6) as u64 {
            let g = format!("huge_{}", gen::bit_kind_name(kind));
            let mk = |c: &mut Case| -> Def { let len = *c.rng.pick(&[65535usize, 65536, 65537, 262143, 262145, 1048575, 1048576, 1048577, 2097153, 4194305]) + c.rng.usize_below(2) * 64;
                let bits = gen::bits_kind(&mut c.rng, kind, len); let mut d = Def::new(bits); d.light = true; c.input_str("kind", gen::bit_kind_name(kind)); c.input_str("len", &len.to_string());
                let w = d.words(); let bytes: Vec<u8> = w.iter().take(4096).flat_map(|x| x.to_le_bytes()).collect(); c.input("first_words", &bytes); c.set_nontrivial(true); d };
            ctx.case("il256", &g, idx, |c| { let d = mk(c); let rs = ctor!(RankSelectInterleaved256::new(d.bv()), "il256"); check_ops(c, &rs, &d, true)?; check_perf(c, &rs, &d) });
            ctx.case("il256_opts", &g, idx, |c| { let d = mk(c); let rs = ctor!(RankSelectInterleaved256::with_options(d.bv(), false, 512), "il256_nocache"); check_ops(c, &rs, &d, true) });
            ctx.case("se256", &g, idx, |c| { let d = mk(c); let (s0, s1) = (c.rng.bool(), c.rng.bool()); let rs = ctor!(RankSelectSE256::with_options(d.bv(), s0, s1), "se256"); check_ops(c, &rs, &d, true) });
            ctx.case("se512", &g, idx, |c| { let d = mk(c); let (s0, s1) = (c.rng.bool(), c.rng.bool()); let rs = ctor!(RankSelectSE512::with_options(d.bv(), s0, s1), "se512"); check_ops(c, &rs, &d, true) });
            ctx.case("simple", &g, idx, |c| { let d = mk(c); let rs = ctor!(RankSelectSimple::new(d.bv()), "simple"); check_ops(c, &rs, &d, true) });
            ctx.case("adaptive", &g, idx, |c| { let d = mk(c); let rs = ctor!(AdaptiveRankSelect::new(d.bv()), "adaptive"); c.note(&format!("impl:{}", rs.implementation_name()), 1); check_ops(c, &rs, &d, true) });
            ctx.case("fewone", &g, idx, |c| { let d = mk(c); if d.pos1.len() > 400_000 { return Ok(()); } let p: Vec<u32> = d.pos1.iter().map(|&x| x as u32).collect(); let rs = ctor!(RankSelectFewOne::new(p, d.bits.len()), "fewone"); check_ops(c, &rs, &d, true) });
            ctx.case("fewzero", &g, idx, |c| { let d = mk(c); if d.pos0.len() > 400_000 { return Ok(()); } let p: Vec<u32> = d.pos0.iter().map(|&x| x as u32).collect(); let rs = ctor!(RankSelectFewZero::new(p, d.bits.len()), "fewzero"); check_ops(c, &rs, &d, true) });
            ctx.case("bitvector", &g, idx, |c| { let d = mk(c); let bv = d.bv(); let n = d.bits.len(); ensure!(bv.count_ones() == d.pre[n], "count_ones", "count_ones {} want {}", bv.count_ones(), d.pre[n]);
                let ps = d.probe_positions(c); for &p in &ps { ensure!(bv.rank1(p) == d.pre[p], "rank1", "BitVector::rank1({p})={} want {}", bv.rank1(p), d.pre[p]); c.ev(1); }
                let bulk = bv.rank1_bulk_simd(&ps); for (i, &p) in ps.iter().enumerate() { ensure!(bulk[i] == d.pre[p], "rank1_bulk_simd", "rank1_bulk_simd[{p}]"); } Ok(()) });
        }
    }
    // trivial implementations + dual adaptive
    for idx in 0..ctx.n(30, 400) as u64 {
        ctx.case("allzero", "len", idx, |c| { let n = if c.rng.bool() { *c.rng.pick(gen::BIT_LENS) } else { c.rng.usize_below(70000) }; c.input_str("n", &n.to_string()); c.set_nontrivial(n >= 2); let d = Def::new(vec![false; n]); check_ops(c, &RankSelectAllZero::new(n), &d, true) });
        ctx.case("allone", "len", idx, |c| { let n = if c.rng.bool() { *c.rng.pick(gen::BIT_LENS) } else { c.rng.usize_below(70000) }; c.input_str("n", &n.to_string()); c.set_nontrivial(n >= 2); let d = Def::new(vec![true; n]); check_ops(c, &RankSelectAllOne::new(n), &d, true) });
        ctx.case("adaptive_dual", "mixed", idx, |c| { let k = c.rng.below(gen::BIT_KINDS as u64) as u32; let d = gen_bits(c, k, false); let n = d.bits.len(); let other = gen::bits_kind(&mut c.rng, 2, n); let bv2 = Def::new(other).bv();
            let rs = ctor!(AdaptiveMultiDimensional::new_dual(d.bv(), bv2), "adaptive_dual"); check_ops(c, &rs, &d, true) });
    }
    gap_wave(ctx);
}

// ======================================================================================================
// gap wave: entry points of the anchor files that no earlier case reached. New generator families only.
// ======================================================================================================

fn small_bits(c: &mut Case, kind: u32) -> Def { gen_bits(c, kind, false) }
fn ones_below(w: u64, n: usize) -> u32 { if n >= 64 { w.count_ones() } else { (w & ((1u64 << n) - 1)).count_ones() } }
fn kth_one(w: u64, k: u32) -> Option<u32> { let mut s = 0; for b in 0..64u32 { if (w >> b) & 1 == 1 { if s == k { return Some(b); } s += 1; } } None }

/// BitVector observed through every read accessor vs the model; `op` names the mutation that ran last.
fn check_bv(c: &mut Case, bv: &BitVector, m: &[bool], op: &str) -> Res {
    let o = format!("bv_state_after:{op}"); let n = m.len();
    ensure!(bv.len() == n, o, "len={} want {n}", bv.len());
    ensure!(bv.is_empty() == (n == 0), o, "is_empty={} with n={n}", bv.is_empty());
    ensure!(bv.capacity() >= n, o, "capacity {} < len {n}", bv.capacity());
    let ones = m.iter().filter(|&&b| b).count();
    ensure!(bv.count_ones() == ones, o, "count_ones={} want {ones} (n={n})", bv.count_ones());
    ensure!(bv.count_zeros() == n - ones, o, "count_zeros={} want {}", bv.count_zeros(), n - ones);
    for i in 0..n { let g = bv.get(i); ensure!(g == Some(m[i]), o, "get({i})={g:?} want {} (n={n})", m[i]); let u = unsafe { bv.get_unchecked(i) }; ensure!(u == m[i], o, "get_unchecked({i})={u} want {}", m[i]); }
    ensure!(bv.get(n).is_none(), o, "get(len={n}) is Some");
    let mut ps: Vec<usize> = vec![0, n, n / 2]; for _ in 0..24 { ps.push(c.rng.usize_below(n + 1)); } for b in (0..=n).step_by(64) { ps.push(b); if b > 0 { ps.push(b - 1); } }
    let mut pre = vec![0usize; n + 1]; for i in 0..n { pre[i + 1] = pre[i] + m[i] as usize; }
    for &p in &ps { let r = bv.rank1(p); ensure!(r == pre[p], o, "rank1({p})={r} want {} (n={n})", pre[p]); let r0 = bv.rank0(p); ensure!(r0 == p - pre[p], o, "rank0({p})={r0} want {}", p - pre[p]); }
    let bulk = bv.rank1_bulk_simd(&ps); for (i, &p) in ps.iter().enumerate() { ensure!(bulk[i] == pre[p], o, "rank1_bulk_simd[{p}]={} want {}", bulk[i], pre[p]); }
    c.ev((2 * n + 3 * ps.len()) as u64); Ok(())
}

/// A rank/select structure built from a BitVector that went through mutations must still follow the definition.
fn check_rs_from(c: &mut Case, bv: &BitVector, m: &[bool], which: u64) -> Res {
    let d = Def::new(m.to_vec());
    let r = (|| -> Res { match which % 5 {
        0 => { let rs = ctor!(RankSelectInterleaved256::new(bv.clone()), "il256"); check_ops(c, &rs, &d, true) }
        1 => { let rs = ctor!(RankSelectSE256::new(bv.clone()), "se256"); check_ops(c, &rs, &d, true) }
        2 => { let rs = ctor!(RankSelectSE512::new(bv.clone()), "se512"); check_ops(c, &rs, &d, true) }
        3 => { let rs = ctor!(RankSelectSimple::new(bv.clone()), "simple"); check_ops(c, &rs, &d, true) }
        _ => { let rs = ctor!(AdaptiveRankSelect::new(bv.clone()), "adaptive"); check_ops(c, &rs, &d, true) }
    } })();
    r.map_err(|f| { let o = if f.oracle.starts_with("panic:") { "ctor_panic".to_string() } else { f.oracle.clone() }; bad(&format!("rs_from_mutated[{}]:{}", ["il256", "se256", "se512", "simple", "adaptive"][(which % 5) as usize], o), f.detail) })
}

macro_rules! mutop { ($name:expr, $e:expr) => { match catch(|| $e) { Ok(Ok(x)) => x, Ok(Err(e)) => return Err(bad(&format!("bv_op_err:{}", $name), format!("in-contract {} returned Err: {e}", $name))), Err(p) => return Err(bad(&format!("bv_op_panic:{}", $name), format!("{} panicked at {}: {}", $name, p.loc, p.msg))) } } }

/// one random in-contract mutation; `ops` is the allowed op set. Returns the op name.
fn mutate(c: &mut Case, bv: &mut BitVector, m: &mut Vec<bool>, ops: &[&'static str], hist: &mut Vec<String>) -> Result<&'static str, Fail> {
    let mut op = *c.rng.pick(ops); let n = m.len();
    if n == 0 && matches!(op, "set" | "set_unchecked" | "get_mut" | "pop" | "set_range") { op = "push"; }
    match op {
        "set" => { let i = c.rng.usize_below(n); let v = c.rng.bool(); hist.push(format!("set({i},{v})")); mutop!(op, bv.set(i, v)); m[i] = v; }
        "set_unchecked" => { let i = c.rng.usize_below(n); let v = c.rng.bool(); hist.push(format!("set_unchecked({i},{v})")); unsafe { bv.set_unchecked(i, v) }; m[i] = v; }
        "get_mut" => { let i = c.rng.usize_below(n); let v = c.rng.bool(); hist.push(format!("get_mut({i}).set({v})"));
            match bv.get_mut(i) { Some(mut r) => { ensure!(r.get() == m[i], "bitref_get", "get_mut({i}).get()={} want {}", r.get(), m[i]); ensure!(*r == m[i], "bitref_get", "*get_mut({i}) want {}", m[i]); mutop!("bitref_set", r.set(v)); } None => return Err(bad("bitref_none", format!("get_mut({i}) is None with len {n}"))) } m[i] = v; }
        "push" => { let v = c.rng.bool(); hist.push(format!("push({v})")); mutop!(op, bv.push(v)); m.push(v); }
        "pop" => { hist.push("pop".into()); let g = bv.pop(); let w = m.pop(); ensure!(g == w, "bv_pop", "pop()={g:?} want {w:?} (len was {n})"); }
        "insert" => { let i = if c.rng.chance(1, 4) { *c.rng.pick(&[0, n]) } else { c.rng.usize_below(n + 1) }; let v = c.rng.bool(); hist.push(format!("insert({i},{v})")); mutop!(op, bv.insert(i, v)); m.insert(i, v); }
        "grow" => { let k = n + 1 + if c.rng.bool() { c.rng.usize_below(70) } else { c.rng.usize_below(600) }; let v = c.rng.bool(); hist.push(format!("resize({k},{v})")); mutop!("resize_grow", bv.resize(k, v)); m.resize(k, v); }
        "shrink" => { let k = if c.rng.chance(1, 6) { 0 } else if c.rng.bool() { n - c.rng.usize_below(n.min(70) + 1) } else { c.rng.usize_below(n + 1) }; let v = c.rng.bool(); hist.push(format!("resize({k},{v})")); mutop!("resize_shrink", bv.resize(k, v)); m.resize(k, v); }
        "reserve" => { let k = c.rng.usize_below(2000); hist.push(format!("reserve({k})")); mutop!(op, bv.reserve(k)); }
        "clear" => { hist.push("clear".into()); bv.clear(); m.clear(); }
        "ensure_set1" | "fast_ensure_set1" => { let i = match c.rng.below(4) { 0 => c.rng.usize_below(n + 1), 1 => n, 2 => n + c.rng.usize_below(130), _ => n + c.rng.usize_below(1500) }; hist.push(format!("{op}({i})"));
            if op == "ensure_set1" { mutop!(op, bv.ensure_set1(i)); } else { mutop!(op, bv.fast_ensure_set1(i)); } if i >= m.len() { m.resize(i + 1, false); } m[i] = true; }
        "set_range" => { // non-empty-at-zero ranges only (end >= 1); the empty range at 0 has its own family
            let e = 1 + c.rng.usize_below(n); let s = match c.rng.below(4) { 0 => e, 1 => (e / 64) * 64, 2 => e.saturating_sub(c.rng.usize_below(70)), _ => c.rng.usize_below(e + 1) }; let v = c.rng.bool();
            hist.push(format!("set_range_simd({s},{e},{v})")); mutop!(op, bv.set_range_simd(s, e, v)); for i in s..e { m[i] = v; } }
        _ => unreachable!(),
    }
    Ok(op)
}

fn record_hist(c: &mut Case, hist: &[String]) { c.input_str("ops", &hist.join(";")); }

fn gap_wave(ctx: &mut Ctx) {
    use zipora::succinct::BitwiseOp;
    use zipora::succinct::rank_select::bmi2_acceleration::{Bmi2AdvancedPatterns, Bmi2Dispatcher};
    let per = ctx.n(5, 80);
    for kind in 0..gen::BIT_KINDS {
        let kn = gen::bit_kind_name(kind);
        for idx in 0..per as u64 {
            // ---- il256: *_optimized entry points (lines() / fast_prefetch_rank1 need the private InterleavedLine type: not callable)
            ctx.case("il256", &format!("optapi_{kn}"), idx, |c| { let d = small_bits(c, kind); let n = d.bits.len(); let ones = d.pre[n];
                let rs = ctor!(RankSelectInterleaved256::new(d.bv()), "il256"); let ps = d.probe_positions(c);
                for &p in &ps { rs.prefetch_select1(p);
                    let v = catch(|| rs.rank1_optimized(p)).map_err(|e| bad("rank1_optimized_panic", format!("rank1_optimized({p}) n={n}: {}", e.loc)))?; ensure!(v == d.pre[p], "rank1_optimized", "rank1_optimized({p})={v} want {} (n={n})", d.pre[p]); c.ev(1); }
                let b = rs.rank1_bulk_optimized(&ps); ensure!(b.len() == ps.len(), "rank1_bulk_optimized", "len"); for (i, &p) in ps.iter().enumerate() { ensure!(b[i] == d.pre[p], "rank1_bulk_optimized", "[{p}]={} want {}", b[i], d.pre[p]); }
                let ks = d.probe_ks(c, ones);
                for &k in &ks { let r = catch(|| rs.select1_optimized(k)).map_err(|e| bad("select1_optimized_panic", format!("select1_optimized({k}) ones={ones}: {}", e.loc)))?; ensure!(matches!(r, Ok(v) if v == d.pos1[k]), "select1_optimized", "select1_optimized({k})={r:?} want {}", d.pos1[k]); c.ev(1); }
                match rs.select1_bulk_optimized(&ks) { Ok(v) => { ensure!(v.len() == ks.len(), "select1_bulk_optimized", "len"); for (i, &k) in ks.iter().enumerate() { ensure!(v[i] == d.pos1[k], "select1_bulk_optimized", "[{k}]={} want {}", v[i], d.pos1[k]); } } Err(e) => return Err(bad("select1_bulk_optimized", format!("err {e} on valid indices"))) }
                let r = catch(|| rs.select1_optimized(ones)).map_err(|e| bad("select1_optimized_oob_panic", format!("k=ones={ones}: {}", e.loc)))?; ensure!(r.is_err(), "select1_optimized_oob", "select1_optimized(ones={ones})={r:?}");
                let mut bk = ks.clone(); bk.push(ones); ensure!(rs.select1_bulk_optimized(&bk).is_err(), "select1_bulk_optimized_oob", "k=ones accepted");
                Ok(()) });
            // ---- default constructors + max_rank getters (count of ones / zeros are exact)
            ctx.case("se256", &format!("dflt_{kn}"), idx, |c| { let d = small_bits(c, kind); let n = d.bits.len(); let rs = ctor!(RankSelectSE256::new(d.bv()), "se256_new");
                ensure!(rs.max_rank1() == d.pre[n], "max_rank1", "max_rank1={} want {}", rs.max_rank1(), d.pre[n]); ensure!(rs.max_rank0() == n - d.pre[n], "max_rank0", "max_rank0={} want {}", rs.max_rank0(), n - d.pre[n]);
                for p in [0, n / 2, n, n + 300] { rs.prefetch_rank1(p); } check_ops(c, &rs, &d, true) });
            ctx.case("se512", &format!("dflt_{kn}"), idx, |c| { let d = small_bits(c, kind); let n = d.bits.len(); let rs = ctor!(RankSelectSE512::new(d.bv()), "se512_new");
                ensure!(rs.max_rank1() == d.pre[n], "max_rank1", "max_rank1={} want {}", rs.max_rank1(), d.pre[n]); ensure!(rs.max_rank0() == n - d.pre[n], "max_rank0", "max_rank0={} want {}", rs.max_rank0(), n - d.pre[n]);
                check_ops(c, &rs, &d, true) });
            ctx.case("simple", &format!("dflt_{kn}"), idx, |c| { let d = small_bits(c, kind); let n = d.bits.len(); let rs = ctor!(RankSelectSimple::new(d.bv()), "simple");
                ensure!(rs.max_rank1() == d.pre[n], "max_rank1", "max_rank1={} want {}", rs.max_rank1(), d.pre[n]); ensure!(rs.max_rank0() == n - d.pre[n], "max_rank0", "max_rank0={} want {}", rs.max_rank0(), n - d.pre[n]); Ok(()) });
            // ---- word-level rank/select primitives (POPCNT / BZHI / PDEP paths and their fallbacks)
            ctx.case("bmi2_word", &format!("word_{kn}"), idx, |c| { let d = small_bits(c, kind); let mut ws = d.words(); ws.truncate(24); ws.extend_from_slice(&[0, u64::MAX, 1, 1 << 63, c.rng.next(), c.rng.next() & c.rng.next() & c.rng.next(), c.rng.next() | c.rng.next() | c.rng.next()]);
                let acc = Bmi2Accelerator::new(); let disp = Bmi2Dispatcher::new();
                for &w in &ws { let pc = w.count_ones();
                    ensure!(Bmi2RankOps::popcount_u64(w) == pc, "popcount_u64", "w={w:#x}"); ensure!(disp.dispatch_popcount(w) == pc, "dispatch_popcount", "w={w:#x}");
                    for p in 0..=64usize { let want = ones_below(w, p);
                        let a = Bmi2RankOps::popcount_trail(w, p as u32); ensure!(a == want, "popcount_trail", "popcount_trail({w:#x},{p})={a} want {want}");
                        let b = acc.rank1(w, p as u32); ensure!(b == want, "accel_rank1", "rank1({w:#x},{p})={b} want {want}");
                        let e = Bmi2BitOpsComprehensive::rank1_optimized(w, p); ensure!(e == want as usize, "bmi2c_rank1_optimized", "rank1_optimized({w:#x},{p})={e} want {want}");
                        c.ev(3); }
                    for p in [65usize, 100, 1 << 20] { ensure!(Bmi2BitOpsComprehensive::rank1_optimized(w, p) == pc as usize, "bmi2c_rank1_optimized", "pos {p} > 64"); ensure!(Bmi2RankOps::popcount_trail(w, p as u32) == pc, "popcount_trail", "n={p}"); }
                    let mut all = Vec::new();
                    for k in 0..pc { let want = kth_one(w, k); all.push(want.unwrap());
                        let r = [("select1_u64", Bmi2SelectOps::select1_u64(w, k)), ("select1_u64_enhanced", Bmi2SelectOps::select1_u64_enhanced(w, k)), ("pdep_ctz_select", Bmi2AdvancedPatterns::pdep_ctz_select(w, k)),
                            ("accel_select1", acc.select1(w, k)), ("accel_select1_enhanced", acc.select1_enhanced(w, k)), ("dispatch_select", disp.dispatch_select(w, k))];
                        for (nm, g) in r { ensure!(g == want, nm, "{nm}({w:#x},{k})={g:?} want {want:?}"); }
                        let wu = want.map(|x| x as usize);
                        let g = Bmi2BitOpsComprehensive::select1_ultra_fast(w, k as usize + 1); ensure!(g == wu, "bmi2c_select1_ultra_fast", "select1_ultra_fast({w:#x},rank={})={g:?} want {wu:?}", k + 1);
                        let g = Bmi2BitOpsComprehensive::select1_fallback(w, k as usize + 1); ensure!(g == wu, "bmi2c_select1_fallback", "select1_fallback({w:#x},rank={})={g:?} want {wu:?}", k + 1);
                        c.ev(8); }
                    for k in [pc, pc + 1, 64, 65, u32::MAX] { if k < pc { continue; }
                        let r = [("select1_u64", Bmi2SelectOps::select1_u64(w, k)), ("select1_u64_enhanced", Bmi2SelectOps::select1_u64_enhanced(w, k)), ("pdep_ctz_select", Bmi2AdvancedPatterns::pdep_ctz_select(w, k)), ("accel_select1", acc.select1(w, k)), ("dispatch_select", disp.dispatch_select(w, k))];
                        for (nm, g) in r { ensure!(g.is_none(), format!("{nm}_oob"), "{nm}({w:#x},{k})={g:?} with {pc} ones"); } }
                    if pc < 64 { let g = catch(|| Bmi2BitOpsComprehensive::select1_ultra_fast(w, pc as usize + 1)).map_err(|e| bad("bmi2c_select1_oob_panic", format!("{}: {}", e.loc, e.msg)))?; ensure!(g.is_none(), "bmi2c_select1_ultra_fast_oob", "rank {} of {pc} ones -> {g:?}", pc + 1);
                        ensure!(Bmi2BitOpsComprehensive::select1_fallback(w, pc as usize + 1).is_none(), "bmi2c_select1_fallback_oob", "rank {}", pc + 1); }
                    let zc = 64 - pc; for k in 0..zc { let want = kth_one(!w, k); let g = Bmi2SelectOps::select0_u64(w, k); ensure!(g == want, "select0_u64", "select0_u64({w:#x},{k})={g:?} want {want:?}"); } ensure!(Bmi2SelectOps::select0_u64(w, zc).is_none(), "select0_u64_oob", "k=zeros={zc}");
                    if pc > 0 { match Bmi2AdvancedPatterns::pdep_ctz_select_bulk(w, &(0..pc).collect::<Vec<u32>>()) { Ok(v) => ensure!(v == all, "pdep_ctz_select_bulk", "w={w:#x} got {v:?}"), Err(e) => return Err(bad("pdep_ctz_select_bulk", format!("err {e} on valid ks"))) } }
                    ensure!(Bmi2AdvancedPatterns::pdep_ctz_select_bulk(w, &[pc]).is_err(), "pdep_ctz_select_bulk_oob", "k=ones accepted, w={w:#x}");
                    let mut rg = Vec::new(); for _ in 0..24 { let s = if c.rng.chance(1, 8) { 64 + c.rng.below(10) as u32 } else { c.rng.below(64) as u32 }; let l = match c.rng.below(4) { 0 => 0, 1 => 64u32.saturating_sub(s), 2 => c.rng.below(130) as u32, _ => c.rng.below(65) as u32 }; rg.push((s, l)); }
                    let want: Vec<u32> = rg.iter().map(|&(s, l)| (s as usize..(s as usize + l as usize).min(64)).filter(|&b| (w >> b) & 1 == 1).count() as u32).collect();
                    for (i, &(s, l)) in rg.iter().enumerate() { let g = Bmi2RangeOps::count_ones_range(w, s, l); ensure!(g == want[i], "count_ones_range", "count_ones_range({w:#x},{s},{l})={g} want {}", want[i]); }
                    let g = Bmi2RangeOps::count_ones_multi_range(w, &rg); ensure!(g == want, "count_ones_multi_range", "w={w:#x}");
                }
                let pb = Bmi2RankOps::popcount_bulk(&ws); ensure!(pb.len() == ws.len() && pb.iter().zip(&ws).all(|(a, w)| *a == w.count_ones()), "popcount_bulk", "mismatch on {} words", ws.len());
                let pb = Bmi2BlockOps::process_blocks_simd(&ws); ensure!(pb.len() == ws.len() && pb.iter().zip(&ws).all(|(a, w)| a.0 == w.count_ones()), "process_blocks_simd", "popcount component mismatch");
                Ok(()) });
            // ---- multi-word bulk rank/select of the BMI2 modules + run lengths
            ctx.case("bmi2_bulk", &format!("bulk_{kn}"), idx, |c| { let d = small_bits(c, kind); let n = d.bits.len(); let ones = d.pre[n]; let w = d.words(); let acc = Bmi2Accelerator::new();
                if (1..w.len()).any(|i| w[i] == 0 && w[..i].iter().any(|&x| x != 0)) { c.tag("zero_word_after_ones"); }
                let ps = d.probe_positions(c);
                let r = Bmi2BlockOps::rank_bulk(&w, &ps); ensure!(r.len() == ps.len(), "bmi2_rank_bulk", "len"); for (i, &p) in ps.iter().enumerate() { ensure!(r[i] == d.pre[p], "bmi2_rank_bulk", "rank_bulk pos {p} = {} want {} (n={n})", r[i], d.pre[p]); }
                let r = acc.rank_bulk(&w, &ps); for (i, &p) in ps.iter().enumerate() { ensure!(r[i] == d.pre[p], "accel_rank_bulk", "pos {p} = {} want {}", r[i], d.pre[p]); }
                let ks = d.probe_ks(c, ones);
                let k32: Vec<u32> = ks.iter().map(|&k| k as u32).collect();
                match catch(|| Bmi2SelectOps::select1_bulk(&w, &k32)).map_err(|e| bad("bmi2_select1_bulk_panic", format!("{}: {}", e.loc, e.msg)))? { Ok(v) => { for (i, &k) in ks.iter().enumerate() { ensure!(v[i] as usize == d.pos1[k], "bmi2_select1_bulk", "k={k} got {} want {}", v[i], d.pos1[k]); } } Err(e) => return Err(bad("bmi2_select1_bulk_err", format!("err on valid ks: {e}"))) }
                let r = catch(|| Bmi2SelectOps::select1_bulk(&w, &[ones as u32])).map_err(|e| bad("bmi2_select1_bulk_oob_panic", format!("k=ones={ones}: {}: {}", e.loc, e.msg)))?; ensure!(r.is_err(), "bmi2_select1_bulk_oob", "k=ones accepted");
                // comprehensive module: ranks are 1-based (its own tests call it with 1, 2, 4, 8)
                let k1: Vec<usize> = ks.iter().map(|&k| k + 1).collect();
                match catch(|| Bmi2BlockOpsComprehensive::bulk_select1(&w, &k1)).map_err(|e| bad("bmi2c_bulk_select1_panic", format!("{}: {}", e.loc, e.msg)))? { Ok(v) => { for (i, &k) in ks.iter().enumerate() { ensure!(v[i] == d.pos1[k], "bmi2c_bulk_select1", "rank={} got {} want {}", k + 1, v[i], d.pos1[k]); } } Err(e) => return Err(bad("bmi2c_bulk_select1_err", format!("err on valid ranks: {e}"))) }
                ensure!(Bmi2BlockOpsComprehensive::bulk_select1(&w, &[ones + 1]).is_err(), "bmi2c_bulk_select1_oob", "rank=ones+1 accepted");
                // bulk_rank1 of the comprehensive module: undocumented whether positions are global or per word -> only the first word is decidable
                let p0: Vec<usize> = (0..64.min(n + 1)).collect(); if !w.is_empty() { let r = Bmi2BlockOpsComprehensive::bulk_rank1(&w, &p0); for (i, &p) in p0.iter().enumerate() { ensure!(r[i] == d.pre[p], "bmi2c_bulk_rank1", "pos {p} = {} want {}", r[i], d.pre[p]); }
                    let r = Bmi2BlockOpsComprehensive::bulk_rank1(&w, &ps); c.note(if ps.iter().zip(&r).all(|(&p, &x)| x == d.pre[p]) { "bmi2c_bulk_rank1_global" } else { "bmi2c_bulk_rank1_per_word" }, 1); }
                // Bmi2BlockOps::select_bulk last (it has a known failing class on inputs with all-zero words)
                match catch(|| Bmi2BlockOps::select_bulk(&w, &ks)).map_err(|e| bad("bmi2_select_bulk_panic", format!("{}: {}", e.loc, e.msg)))? { Ok(v) => { for (i, &k) in ks.iter().enumerate() { ensure!(v[i] == d.pos1[k], "bmi2_select_bulk", "k={k} got {} want {}", v[i], d.pos1[k]); } } Err(e) => return Err(bad("bmi2_select_bulk_err", format!("err on valid ks (ones={ones}, words={}): {e}", w.len()))) }
                match acc.select_bulk(&w, &ks) { Ok(v) => { for (i, &k) in ks.iter().enumerate() { ensure!(v[i] == d.pos1[k], "accel_select_bulk", "k={k} got {} want {}", v[i], d.pos1[k]); } } Err(e) => return Err(bad("accel_select_bulk_err", format!("err on valid ks: {e}"))) }
                ensure!(Bmi2BlockOps::select_bulk(&w, &[ones]).is_err(), "bmi2_select_bulk_oob", "k=ones={ones} accepted"); ensure!(Bmi2BlockOps::select_bulk(&w, &[ones + 1]).is_err(), "bmi2_select_bulk_oob", "k=ones+1 accepted");
                Ok(()) });
            // ---- run lengths (one_seq_len(p) = select0(rank0(p)) - p on the padded sequence)
            ctx.case("bmi2_bulk", &format!("seqlen_{kn}"), idx, |c| { let d = small_bits(c, kind); let n = d.bits.len(); let w = d.words();
                // run lengths over the zero-padded word array
                let np = w.len() * 64; let pb = |i: usize| i < n && d.bits[i];
                let mut run1 = vec![0usize; np + 1]; let mut run0 = vec![0usize; np + 1]; for i in (0..np).rev() { if pb(i) { run1[i] = run1[i + 1] + 1; } else { run0[i] = run0[i + 1] + 1; } }
                let mut rev1 = vec![0usize; np + 1]; for i in 0..np { if pb(i) { rev1[i + 1] = rev1[i] + 1; } }
                let qs: Vec<usize> = if np <= 1024 { (0..np).collect() } else { let mut q: Vec<usize> = (0..300).map(|_| c.rng.usize_below(np)).collect(); for b in (0..np).step_by(64) { q.push(b); q.push(b + 63); } q };
                for &p in &qs { let g = Bmi2SequenceOps::one_seq_len(&w, p); ensure!(g == run1[p], "one_seq_len", "one_seq_len({p})={g} want {} (n={n})", run1[p]);
                    let g = Bmi2SequenceOps::zero_seq_len(&w, p); ensure!(g == run0[p], "zero_seq_len", "zero_seq_len({p})={g} want {} (n={n}, padded {np})", run0[p]);
                    c.ev(2); }
                // one_seq_revlen: queries whose run stays inside the word first, then the ones that touch a word boundary
                let cross = |e: usize| pb(e - 1) && (e % 64 == 0 || (e > 64 && rev1[e] >= (e - 1) % 64 + 1));
                for &p in &qs { let e = p + 1; if cross(e) { continue; } let g = catch(|| Bmi2SequenceOps::one_seq_revlen(&w, e)).map_err(|x| bad("one_seq_revlen_panic", format!("one_seq_revlen(end={e}) n={n}: {} {}", x.loc, x.msg)))?; ensure!(g == rev1[e], "one_seq_revlen", "one_seq_revlen({e})={g} want {} (n={n})", rev1[e]); c.ev(1); }
                let mut es: Vec<usize> = qs.iter().map(|&p| p + 1).filter(|&e| cross(e)).collect(); es.sort(); es.dedup(); if !es.is_empty() { c.tag("revlen_run_touches_word_boundary"); }
                for e in es { let g = catch(|| Bmi2SequenceOps::one_seq_revlen(&w, e)).map_err(|x| bad("one_seq_revlen_wordcross_panic", format!("one_seq_revlen(end={e}) run={} n={n}: {} {}", rev1[e], x.loc, x.msg)))?; ensure!(g == rev1[e], "one_seq_revlen_wordcross", "one_seq_revlen({e})={g} want {} (n={n})", rev1[e]); c.ev(1); }
                Ok(()) });
            // ---- BitVector: alternative constructors
            ctx.case("bitvector", &format!("ctor_{kn}"), idx, |c| { let d = small_bits(c, kind); let n = d.bits.len(); let how = c.rng.below(6); c.input_str("how", &how.to_string());
                let bv = match how {
                    0 => { let mut bv = ctor!(BitVector::with_capacity(c.rng.usize_below(2 * n + 2)), "with_capacity"); ensure!(bv.is_empty() && bv.len() == 0, "with_capacity", "not empty"); for &b in &d.bits { mutop!("push", bv.push(b)); } bv }
                    1 => { let v = c.rng.bool(); let mut bv = ctor!(BitVector::with_size(n, v), "with_size"); check_bv(c, &bv, &vec![v; n], "with_size")?; for i in 0..n { if d.bits[i] != v { mutop!("set", bv.set(i, d.bits[i])); } } bv }
                    2 => { let mut bv = ctor!(BitVector::with_size(n, false), "with_size"); let mut p = d.pos1.clone(); c.rng.shuffle(&mut p); for &i in &p { mutop!("ensure_set1", bv.ensure_set1(i)); } bv }
                    3 => { let mut bv = BitVector::new(); let mut p = d.pos1.clone(); if c.rng.bool() { c.rng.shuffle(&mut p); } for &i in &p { mutop!("ensure_set1", bv.ensure_set1(i)); } let l = bv.len(); ensure!(l == d.pos1.last().map_or(0, |x| x + 1), "ensure_set1_len", "len {l}"); mutop!("resize_grow", bv.resize(n, false)); bv }
                    4 => { let mut bv = if c.rng.bool() { BitVector::new() } else { ctor!(BitVector::with_capacity(n), "with_capacity") }; for &i in &d.pos1 { mutop!("fast_ensure_set1", bv.fast_ensure_set1(i)); } mutop!("resize_grow", bv.resize(n, false)); bv }
                    _ => { let mut bv = ctor!(BitVector::with_size(n, true), "with_size"); for i in 0..n { if !d.bits[i] { match bv.get_mut(i) { Some(mut r) => { mutop!("bitref_set", r.set(false)); } None => return Err(bad("bitref_none", format!("get_mut({i})"))) } } } bv }
                };
                check_bv(c, &bv, &d.bits, "ctor")?; ensure!(bv == d.bv(), "bv_eq", "built BitVector != pushed BitVector (how={how})"); let w = c.rng.next(); check_rs_from(c, &bv, &d.bits, w) });
            // ---- BitVector: mutation histories (reads follow the model after every step)
            ctx.case("bitvector", &format!("mut_{kn}"), idx, |c| { let d = small_bits(c, kind); let mut m = d.bits.clone(); if m.len() > 1500 { m.truncate(1500); } let mut bv = BitVector::new(); for &b in &m { bv.push(b).unwrap(); }
                let mut hist = Vec::new(); let ops = ["set", "set_unchecked", "get_mut", "push", "pop", "insert", "grow", "pop", "reserve", "set_range", "set_range", "clear"];
                for _ in 0..24 { let nops = if c.rng.chance(1, 12) { 12 } else { 11 }; let r = mutate(c, &mut bv, &mut m, &ops[..nops], &mut hist); record_hist(c, &hist); let op = r?; check_bv(c, &bv, &m, op)?; }
                let w = c.rng.next(); check_rs_from(c, &bv, &m, w) });
            // same, with truncation through resize(); the structure built afterwards is decided in every case (all five kinds)
            ctx.case("bitvector", &format!("mutshrink_{kn}"), idx, |c| { let d = small_bits(c, kind); let mut m = d.bits.clone(); if m.len() > 1500 { m.truncate(1500); } let mut bv = BitVector::new(); for &b in &m { bv.push(b).unwrap(); }
                let mut hist = Vec::new(); let ops = ["set", "get_mut", "push", "pop", "insert", "grow", "shrink", "shrink", "set_range"]; let mut stale: Vec<bool> = Vec::new(); // stale[w]: word w lies wholly beyond len and may still hold ones
                for _ in 0..16 { let before = m.clone(); let r = mutate(c, &mut bv, &mut m, &ops, &mut hist); record_hist(c, &hist); let op = r?;
                    if op == "shrink" { let fw = if m.is_empty() { 0 } else { (m.len() + 63) / 64 }; let need = (before.len() + 63) / 64; if stale.len() < need { stale.resize(need, false); } for w in fw..need { if before[w * 64..before.len().min(w * 64 + 64)].iter().any(|&b| b) { stale[w] = true; } } }
                    else { for w in 0..stale.len() { if m.len() >= w * 64 + 64 || op == "clear" { stale[w] = false; } } }
                    check_bv(c, &bv, &m, op)?; }
                if stale.iter().enumerate().any(|(w, &s)| s && w * 64 + 64 > m.len()) { c.tag("stale_words_beyond_len_after_resize_shrink"); }
                for which in 0..5 { check_rs_from(c, &bv, &m, which)?; } Ok(()) });
            ctx.case("bitvector", &format!("ensure_{kn}"), idx, |c| { let d = small_bits(c, kind); let mut m = d.bits.clone(); if m.len() > 1500 { m.truncate(1500); } let mut bv = BitVector::new(); for &b in &m { bv.push(b).unwrap(); }
                let mut hist = Vec::new(); let ops = ["ensure_set1", "fast_ensure_set1", "ensure_set1", "fast_ensure_set1", "push", "pop", "set", "grow", "reserve"];
                for _ in 0..24 { let r = mutate(c, &mut bv, &mut m, &ops, &mut hist); record_hist(c, &hist); let op = r?; check_bv(c, &bv, &m, op)?; }
                let w = c.rng.next(); check_rs_from(c, &bv, &m, w) });
            // shrinking by resize and then growing through ensure_set1 / fast_ensure_set1
            ctx.case("bitvector", &format!("shrink_ensure_{kn}"), idx, |c| { let d = small_bits(c, kind); let mut m = d.bits.clone(); if m.len() > 1500 { m.truncate(1500); } let mut bv = BitVector::new(); for &b in &m { bv.push(b).unwrap(); }
                let mut hist = Vec::new(); let fast = c.rng.bool(); let ops: [&'static str; 4] = ["shrink", if fast { "fast_ensure_set1" } else { "ensure_set1" }, "push", "set"]; let mut dropped_one = false;
                for _ in 0..12 { let before = m.clone(); let r = mutate(c, &mut bv, &mut m, &ops, &mut hist); record_hist(c, &hist); let last = hist.last().cloned().unwrap_or_default();
                    if let Some(k) = last.strip_prefix("resize(").and_then(|x| x.split(',').next()).and_then(|x| x.parse::<usize>().ok()) { let from = if k == 0 { 0 } else { (k + 63) / 64 * 64 }; if from < before.len() && before[from..].iter().any(|&b| b) { dropped_one = true; } }
                    if let Some(i) = last.split("ensure_set1(").nth(1).and_then(|x| x.trim_end_matches(')').parse::<usize>().ok()) { if dropped_one && i >= before.len() { c.tag("ensure_grow_after_resize_shrink_dropped_ones"); } }
                    let op = r?; check_bv(c, &bv, &m, op)?; }
                Ok(()) });
            // ---- set_range_simd incl. the empty range at 0
            ctx.case("bitvector", &format!("range0_{kn}"), idx, |c| { let d = small_bits(c, kind); let mut bv = d.bv(); let v = c.rng.bool(); c.tag("empty_range_at_0");
                match catch(|| bv.set_range_simd(0, 0, v)) { Ok(Ok(())) => {} Ok(Err(e)) => { if d.bits.is_empty() { c.note("range0_err_on_empty", 1); } else { return Err(bad("set_range_empty_err", format!("set_range_simd(0,0) on len {}: {e}", d.bits.len()))); } } Err(p) => return Err(bad("set_range_empty_at_0_panic", format!("set_range_simd(0,0,{v}) len={} panicked at {}: {}", d.bits.len(), p.loc, p.msg))) }
                check_bv(c, &bv, &d.bits, "set_range_empty") });
            // ---- bulk_bitwise_op_simd: word-aligned ranges, and arbitrary ranges
            for aligned in [true, false] {
                ctx.case("bitvector", &format!("{}_{kn}", if aligned { "bitop_aligned" } else { "bitop" }), idx, |c| { let d = small_bits(c, kind); let mut m = d.bits.clone(); let n = m.len(); let mut bv = d.bv();
                    let k2 = c.rng.below(gen::BIT_KINDS as u64) as u32; let on = match c.rng.below(3) { 0 => n, 1 => n + c.rng.usize_below(200), _ => c.rng.usize_below(n + 1) }; let o = gen::bits_kind(&mut c.rng, k2, on); let obv = Def::new(o.clone()).bv();
                    c.input_str("other_kind", gen::bit_kind_name(k2)); c.input_str("other_len", &on.to_string());
                    let lim = n.min(on); if lim == 0 { return Ok(()); }
                    let mut hist = Vec::new();
                    for _ in 0..4 { let op = *c.rng.pick(&[BitwiseOp::And, BitwiseOp::Or, BitwiseOp::Xor]);
                        let (s, e) = if aligned { let e = if c.rng.bool() && n == on { lim } else { (c.rng.usize_below(lim + 1) / 64) * 64 }; if e == 0 { continue; } let s = (c.rng.usize_below(e) / 64) * 64; (s, e) } else { let e = 1 + c.rng.usize_below(lim); (c.rng.usize_below(e + 1), e) };
                        if s % 64 != 0 || (e % 64 != 0 && !(e == n && e == on)) { c.tag("bitop_unaligned_range"); }
                        hist.push(format!("{op:?}[{s},{e})")); c.input_str("ops", &hist.join(";"));
                        match catch(|| bv.bulk_bitwise_op_simd(&obv, op, s, e)) { Ok(Ok(())) => {} Ok(Err(er)) => return Err(bad("bitop_err", format!("valid range [{s},{e}) n={n} other={on}: {er}"))), Err(p) => return Err(bad("bitop_panic", format!("[{s},{e}) n={n}: {} {}", p.loc, p.msg))) }
                        for i in s..e { m[i] = match op { BitwiseOp::And => m[i] & o[i], BitwiseOp::Or => m[i] | o[i], BitwiseOp::Xor => m[i] ^ o[i] }; }
                        check_bv(c, &bv, &m, if aligned { "bitop_aligned" } else { "bitop" })?; }
                    let w = c.rng.next(); check_rs_from(c, &bv, &m, w) });
            }
        }
    }
    // ---- trivial implementations: extra getters; multi-dimensional meta data; k = usize::MAX in the BMI2 bulk select
    for idx in 0..ctx.n(12, 200) as u64 {
        ctx.case("allzero", "extras", idx, |c| { let n = if c.rng.bool() { *c.rng.pick(gen::BIT_LENS) } else { c.rng.usize_below(70000) }; c.input_str("n", &n.to_string()); c.set_nontrivial(n >= 2); let rs = RankSelectAllZero::new(n);
            ensure!(rs.max_rank0() == n && rs.max_rank1() == 0, "max_rank", "allzero max_rank0={} max_rank1={}", rs.max_rank0(), rs.max_rank1());
            for _ in 0..50 { if n == 0 { break; } let p = if c.rng.chance(1, 5) { *c.rng.pick(&[0, n - 1]) } else { c.rng.usize_below(n) }; ensure!(rs.zero_seq_len(p) == n - p, "zero_seq_len", "allzero zero_seq_len({p})={} n={n}", rs.zero_seq_len(p)); ensure!(rs.one_seq_len(p) == 0, "one_seq_len", "allzero one_seq_len({p})"); ensure!(rs.is0(p) && !rs.is1(p), "is01", "allzero p={p}"); c.ev(3); }
            Ok(()) });
        ctx.case("allone", "extras", idx, |c| { let n = if c.rng.bool() { *c.rng.pick(gen::BIT_LENS) } else { c.rng.usize_below(70000) }; c.input_str("n", &n.to_string()); c.set_nontrivial(n >= 2); let rs = RankSelectAllOne::new(n);
            ensure!(rs.max_rank1() == n && rs.max_rank0() == 0, "max_rank", "allone max_rank0={} max_rank1={}", rs.max_rank0(), rs.max_rank1());
            for _ in 0..50 { if n == 0 { break; } let p = if c.rng.chance(1, 5) { *c.rng.pick(&[0, n - 1]) } else { c.rng.usize_below(n) }; ensure!(rs.one_seq_len(p) == n - p, "one_seq_len", "allone one_seq_len({p})={} n={n}", rs.one_seq_len(p)); ensure!(rs.zero_seq_len(p) == 0, "zero_seq_len", "allone zero_seq_len({p})"); ensure!(rs.is1(p) && !rs.is0(p), "is01", "allone p={p}"); c.ev(3); }
            Ok(()) });
    }
    for idx in 0..ctx.n(6, 60) as u64 {
        ctx.case("multidim3", "meta", idx, |c| { let k = c.rng.below(gen::BIT_KINDS as u64) as u32; let d = small_bits(c, k); let n = d.bits.len(); if n == 0 { return Ok(()); } let d1 = Def::new(gen::bits_kind(&mut c.rng, 2, n));
            let m: MultiDimRankSelect<2> = ctor!(MultiDimRankSelect::<2>::new(vec![d.bv(), d1.bv()]), "multidim2"); ensure!(m.total_bits() == n, "multidim_total_bits", "total_bits={} want {n}", m.total_bits()); ensure!(m.num_dimensions() == 2, "multidim_dims", "num_dimensions={}", m.num_dimensions());
            let a = ctor!(AdaptiveMultiDimensional::new_dual(d.bv(), d1.bv()), "adaptive_dual"); ensure!(a.dimensions() == 2, "adaptive_dims", "dimensions()={}", a.dimensions()); ensure!(a.len() == n, "len", "adaptive_dual len {}", a.len()); Ok(()) });
        ctx.case("bmi2_bulk", "kmax", idx, |c| { let k = c.rng.below(gen::BIT_KINDS as u64) as u32; let d = small_bits(c, k); let w = d.words(); c.tag("k_usize_max");
            let r = catch(|| Bmi2BlockOpsComprehensive::bulk_select1(&w, &[usize::MAX])).map_err(|e| bad("bmi2c_bulk_select1_kmax_panic", format!("bulk_select1(rank=usize::MAX) panicked at {}: {}", e.loc, e.msg)))?; ensure!(r.is_err(), "bmi2c_bulk_select1_oob", "rank=usize::MAX accepted: {r:?}");
            let r = catch(|| Bmi2SelectOps::select1_bulk(&w, &[u32::MAX])).map_err(|e| bad("bmi2_select1_bulk_kmax_panic", format!("select1_bulk(k=u32::MAX) panicked at {}: {}", e.loc, e.msg)))?; ensure!(r.is_err() || d.pos1.len() > u32::MAX as usize, "bmi2_select1_bulk_oob", "k=u32::MAX accepted");
            let r = catch(|| Bmi2BlockOps::select_bulk(&w, &[usize::MAX])).map_err(|e| bad("bmi2_select_bulk_kmax_panic", format!("select_bulk(k=usize::MAX) panicked at {}: {}", e.loc, e.msg)))?; ensure!(r.is_err(), "bmi2_select_bulk_oob", "k=usize::MAX accepted: {r:?}");
            Ok(()) });
    }
}
